package hsx

import (
	"bytes"
	"fmt"

	"hop.computer/hop/keys"
	"hop.computer/hop/transport"
	"verifharness/hv"
)

type flightID struct {
	dir, idx int
	name     string
}

var discFlights = []flightID{{C2S, 0, "ClientHello"}, {S2C, 0, "ServerHello"}, {C2S, 1, "ClientAck"}, {S2C, 1, "ServerAuth"}, {C2S, 2, "ClientAuth"}}
var hiddenFlights = []flightID{{C2S, 0, "ClientRequestHidden"}, {S2C, 0, "ServerResponseHidden"}}

// completed: did the party RECEIVING flight f complete the handshake?
func receiverCompleted(r *Run, f flightID) bool {
	if f.dir == S2C {
		return r.CliOK()
	}
	return r.Handle != nil
}

// c02run runs one handshake with the tamper and judges it by the statement of C02.
func (w *World) c02run(srv *Srv, ccfg transport.ClientConfig, f flightID, class, desc string, tamper func(d []byte) [][]byte, nt bool) {
	applied := false
	r := RunHandshake(srv, ccfg, w.NextAddr(), func(dir, idx int, d []byte) [][]byte {
		if dir == f.dir && idx == f.idx {
			applied = true
			return tamper(d)
		}
		return [][]byte{d}
	})
	ok, sig, what := true, "", ""
	switch {
	case r.SrvPanic || r.CliPanic:
		ok, sig, what = false, "C02:endpoint-panics-on-tampered-handshake", "panic"
	case !applied:
		ok, sig, what = false, "C02:flight-never-sent", "the handshake never reached flight "+f.name
	case receiverCompleted(r, f):
		ok, sig = false, "C02:tampered-"+f.name+"-still-completes"
		what = "the receiver of " + f.name + " completed the handshake although " + desc
	}
	specCase("C02", class, desc, ok, sig, what, nt)
	r.Close()
}

// C02Sweep: every byte offset of every handshake datagram XORed with a mask, every truncation
// length, extensions — real client against real server, both modes.
func (w *World) C02Sweep() {
	cv := w.P.Verify(PolStore, "", nil, false)
	masks := []byte{0x01, 0x02, 0x04, 0x08, 0x10, 0x20, 0x40, 0x80}
	for _, hidden := range []bool{false, true} {
		mode := map[bool]string{false: "discoverable", true: "hidden"}[hidden]
		srv := NewSrv(SingleConfig(w.Srv, cv, hidden))
		ccfg := w.Cli.ClientConfig(w.P.Verify(PolStore, w.SrvName, nil, false))
		flights := discFlights
		if hidden {
			ccfg.ServerKEMKey = &w.Srv.KEM.Public
			flights = hiddenFlights
		}
		ref := RunHandshake(srv, ccfg, w.NextAddr(), nil)
		if !ref.CliOK() || ref.Handle == nil {
			panic("C02Sweep: honest handshake failed")
		}
		lens := map[flightID]int{}
		for _, fl := range ref.Flights {
			for _, f := range flights {
				if f.dir == fl.Dir && f.idx == fl.Idx {
					lens[f] = len(fl.Orig)
				}
			}
		}
		ref.Close()
		for _, f := range flights {
			L := lens[f]
			for off := 0; off < L; off++ {
				ms := []byte{masks[off%8]}
				if hv.Thorough() {
					ms = masks
				}
				for _, m := range ms {
					o, mm := off, m
					w.c02run(srv, ccfg, f, "xor-every-offset/"+mode+"/"+f.name,
						fmt.Sprintf("%s: byte %d of %s (%d bytes) XOR %#02x", mode, o, f.name, L, mm),
						func(d []byte) [][]byte {
							x := append([]byte(nil), d...)
							if o < len(x) {
								x[o] ^= mm
							}
							return [][]byte{x}
						}, true)
				}
			}
			for n := 0; n < L; n++ {
				nn := n
				w.c02run(srv, ccfg, f, "truncate-every-length/"+mode+"/"+f.name,
					fmt.Sprintf("%s: %s (%d bytes) truncated to %d bytes", mode, f.name, L, nn),
					func(d []byte) [][]byte {
						if nn > len(d) {
							return [][]byte{d}
						}
						return [][]byte{d[:nn]}
					}, true)
			}
			for _, k := range []int{1, 2, 15, 16, 17, 32, 100} {
				kk := k
				w.c02run(srv, ccfg, f, "extend/"+mode+"/"+f.name,
					fmt.Sprintf("%s: %s (%d bytes) extended by %d zero bytes", mode, f.name, L, kk),
					func(d []byte) [][]byte { return [][]byte{append(append([]byte(nil), d...), make([]byte, kk)...)} }, true)
			}
			// truncated, with the cut bytes left in the receiver's buffer by a preceding datagram
			for _, k := range []int{1, 8, 16, 17, 32} {
				kk := k
				w.c02run(srv, ccfg, f, "truncate-with-primed-buffer/"+mode+"/"+f.name,
					fmt.Sprintf("%s: %s (%d bytes) truncated by %d bytes after a junk datagram that leaves those bytes in the receive buffer", mode, f.name, L, kk),
					func(d []byte) [][]byte {
						junk := append([]byte(nil), d...)
						junk[0] = 0x7f
						return [][]byte{junk, d[:len(d)-kk]}
					}, true)
			}
		}
	}
}

// C02Swap: a datagram replaced by the corresponding datagram of a concurrently running handshake.
func (w *World) C02Swap() {
	cv := w.P.Verify(PolStore, "", nil, false)
	other := w.P.Issue("second-client", "bob")
	for _, sameIdent := range []bool{true, false} {
		bid := w.Cli
		if !sameIdent {
			bid = other
		}
		// discoverable
		srv := NewSrv(SingleConfig(w.Srv, cv, false))
		acfg := w.Cli.ClientConfig(w.P.Verify(PolStore, w.SrvName, nil, false))
		bcfg := bid.ClientConfig(w.P.Verify(PolStore, w.SrvName, nil, false))
		for _, f := range discFlights {
			b, err := NewWB(srv, bcfg, w.NextAddr()) // B is paused after receiving its ServerAuth
			if err != nil {
				panic(err)
			}
			if err := b.Auth(); err != nil {
				panic(err)
			}
			sub := map[string][]byte{"ClientHello": b.CH, "ServerHello": b.SH, "ClientAck": b.CAck, "ServerAuth": b.SA, "ClientAuth": b.CAuth}[f.name]
			w.c02run(srv, acfg, f, "swap-with-concurrent-handshake/discoverable",
				fmt.Sprintf("discoverable: %s of handshake A replaced by the %s of concurrent handshake B (same client identity: %v)", f.name, f.name, sameIdent),
				func(d []byte) [][]byte { return [][]byte{sub} }, true)
		}
		// hidden
		hsrv := NewSrv(SingleConfig(w.Srv, cv, true))
		acfg.ServerKEMKey = &w.Srv.KEM.Public
		bcfg.ServerKEMKey = &w.Srv.KEM.Public
		for _, f := range hiddenFlights {
			b, err := NewHWB(hsrv, bcfg, w.NextAddr())
			if err != nil {
				panic(err)
			}
			sub := b.Req
			if f.dir == S2C {
				sub = b.Resp
			}
			if f.dir == C2S {
				// B's request presented in place of A's: the SERVER accepts it as B's fresh request
				// (that is B's handshake, not A's); A, whose request never arrived, must not complete
				r := RunHandshake(hsrv, acfg, w.NextAddr(), func(dir, idx int, d []byte) [][]byte {
					if dir == C2S && idx == 0 {
						return [][]byte{sub}
					}
					return [][]byte{d}
				})
				ok, sig, what := true, "", ""
				if r.CliOK() {
					ok, sig, what = false, "C02:tampered-ClientRequestHidden-still-completes", "client A completed although its request was replaced by B's"
				}
				specCase("C02", "swap-with-concurrent-handshake/hidden", fmt.Sprintf("hidden: request of A replaced by the request of concurrent handshake B (same identity: %v): A must not complete", sameIdent), ok, sig, what, true)
				r.Close()
				continue
			}
			w.c02run(hsrv, acfg, f, "swap-with-concurrent-handshake/hidden",
				fmt.Sprintf("hidden: %s of handshake A replaced by that of concurrent handshake B (same client identity: %v)", f.name, sameIdent),
				func(d []byte) [][]byte { return [][]byte{sub} }, true)
		}
	}
}

// C02Honest: unmodified runs: both parties hold the same session id and key pair; the two
// directions differ; no two sessions of the run share a key or an id.
func (w *World) C02Honest() {
	cv := w.P.Verify(PolStore, "", nil, false)
	seenKey := map[[16]byte]string{}
	seenSid := map[transport.SessionID]string{}
	n := hv.Scale(40, 400)
	for _, hidden := range []bool{false, true} {
		srv := NewSrv(SingleConfig(w.Srv, cv, hidden))
		ccfg := w.Cli.ClientConfig(w.P.Verify(PolStore, w.SrvName, nil, false))
		if hidden {
			ccfg.ServerKEMKey = &w.Srv.KEM.Public
		}
		for i := 0; i < n; i++ {
			r := RunHandshake(srv, ccfg, w.NextAddr(), nil)
			desc := fmt.Sprintf("honest handshake #%d (hidden=%v)", i, hidden)
			ok, sig, what := true, "", ""
			cok, sid, c2s, s2c := r.Cli.VerifHsSession()
			switch {
			case !r.CliOK() || r.Handle == nil || !cok:
				ok, sig, what = false, "C02:honest-handshake-fails", fmt.Sprintf("unmodified handshake did not complete (client err %v, accepted %v)", r.Err, r.Handle != nil)
			default:
				ex, est, sc2s, ss2c := srv.S.VerifHsSession(sid)
				switch {
				case !ex || !est:
					ok, sig, what = false, "C02:session-id-differs", "the server has no established session under the client's session id"
				case sc2s != c2s || ss2c != s2c:
					ok, sig, what = false, "C02:keys-differ-after-honest-handshake", "client and server derived different directional keys"
				case c2s == s2c:
					ok, sig, what = false, "C02:directions-share-a-key", "client_to_server and server_to_client keys are equal"
				case seenKey[c2s] != "" || seenKey[s2c] != "":
					ok, sig, what = false, "C02:sessions-share-a-key", "a directional key equals a key of "+seenKey[c2s]+seenKey[s2c]
				case seenSid[sid] != "" && !hidden == (seenSid[sid][0] == 'd'):
					// session ids are per server; collisions across the two servers of this run are not excluded
					ok, sig, what = false, "C02:sessions-share-an-id", "session id already used by "+seenSid[sid]
				}
				seenKey[c2s], seenKey[s2c] = desc, desc
				if !hidden {
					seenSid[sid] = "d" + desc
				} else {
					seenSid[sid] = "h" + desc
				}
				if a, b := r.Probe(srv); ok && !(a && b) {
					ok, sig, what = false, "C02:first-data-packet-does-not-decrypt", fmt.Sprintf("data did not flow after an honest handshake (c2s=%v s2c=%v)", a, b)
				}
			}
			specCase("C02", fmt.Sprintf("honest-run/hidden=%v", hidden), desc, ok, sig, what, false)
			r.Close()
		}
	}
}

// ---------------------------------------------------------------- white box, model-compared

func strided(L int, bounds []int, stride int) []int {
	set := map[int]bool{0: true, 1: true, 2: true, 3: true, L - 1: true, L - 16: true, L - 17: true, L - 32: true, L - 33: true}
	for _, b := range bounds {
		set[b-1], set[b] = true, true
	}
	for o := 5; o < L; o += stride {
		set[o] = true
	}
	var out []int
	for o := 0; o < L; o++ {
		if set[o] {
			out = append(out, o)
		}
	}
	return out
}

// C02Readers: each reader on its honest message with one byte changed (field boundaries and a
// stride in between), on truncations and extensions — compared with the model, which must make
// the same decision after the same duplex operations.
func (w *World) C02Readers(r *hv.Rand) {
	cv := w.P.Verify(PolStore, "", nil, false)
	ccfg := w.Cli.ClientConfig(w.P.Verify(PolStore, w.SrvName, nil, false))
	stride := hv.Scale(23, 3)
	srv := NewSrv(SingleConfig(w.Srv, cv, false))
	wb, err := NewWB(srv, ccfg, w.NextAddr())
	if err == nil {
		err = wb.Auth()
	}
	if err != nil {
		panic(err)
	}
	meta := func(msg, what string, must bool) Meta {
		return Meta{Prop: "C02", Class: "reader-" + msg + "/" + what, Desc: "", MustRej: must, Why: "the message was changed in flight",
			Sig: "C02:tampered-" + msg + "-accepted-by-reader", NT: true}
	}
	vary := func(msg string, base []byte, bounds []int, run func(b []byte, m Meta)) {
		L := len(base)
		for _, off := range strided(L, bounds, stride) {
			x := append([]byte(nil), base...)
			x[off] ^= 1 << uint(r.Intn(8))
			m := meta(msg, "xor", true)
			m.Desc = fmt.Sprintf("%s reader: byte %d of %d changed (%#02x -> %#02x)", msg, off, L, base[off], x[off])
			run(x, m)
		}
		for _, n := range []int{0, 3, 4, L - 33, L - 17, L - 16, L - 1} {
			if msg == "ClientRequestHidden" && n < 4 {
				continue // readPacket never hands the reader fewer than 4 bytes; the reader relies on it (see C10)
			}
			if n >= 0 && n < L {
				m := meta(msg, "truncated", true)
				m.Desc = fmt.Sprintf("%s reader: message of %d bytes truncated to %d", msg, L, n)
				run(append([]byte(nil), base[:n]...), m)
			}
		}
		m := meta(msg, "honest", false)
		m.MustAcc, m.NT = true, false
		m.Desc = msg + " reader: the unmodified message"
		run(base, m)
		// extended: the reader accepts and reports how much it consumed; the caller compares
		m = meta(msg, "extended", false)
		m.Desc = msg + " reader: the message followed by 16 more bytes (the caller must see n != len)"
		run(append(append([]byte(nil), base...), make([]byte, 16)...), m)
	}
	vary("ClientHello", wb.CH, []int{4, 804}, func(b []byte, m Meta) { CaseCH(b, m) })
	vary("ServerHello", wb.SH, []int{4, 772, 836}, func(b []byte, m Meta) { CaseSH(wb.HS, wb.PreSH, b, m) })
	// ClientAck: a fresh cookie each time is not needed: the reader keeps no state
	ackSrv := NewSrv(SingleConfig(w.Srv, cv, false))
	x, err := newWBUntilAck(ackSrv, ackSrv.Direct(), ccfg, w.NextAddr())
	if err != nil {
		panic(err)
	}
	vary("ClientAck", x.CAck, []int{4, 36, 836, 900, 1156}, func(b []byte, m Meta) { CaseCAck(ackSrv, x.Addr, b, m) })
	La := len(wb.SA) - 72
	vary("ServerAuth", wb.SA, []int{4, 8, 40, 40 + La, 56 + La}, func(b []byte, m Meta) { CaseSA(wb.HS, wb.PreSA, b, m) })
	Lc := len(wb.CAuth) - 40
	vary("ClientAuth", wb.CAuth, []int{4, 8, 8 + Lc, 24 + Lc}, func(b []byte, m Meta) { CaseCAuth(srv, wb.Addr, wb.PreCA, b, m) })
	hsrv := NewSrv(SingleConfig(w.Srv, cv, true))
	hcfg := ccfg
	hcfg.ServerKEMKey = &w.Srv.KEM.Public
	hw, err := NewHWB(hsrv, hcfg, w.NextAddr())
	if err != nil {
		panic(err)
	}
	Lh := len(hw.Req) - 1628
	list := []HCert{{KEM: w.Srv.KEM, HasName: true}}
	vary("ClientRequestHidden", hw.Req, []int{4, 804, 1572, 1572 + Lh, 1588 + Lh, 1596 + Lh}, func(b []byte, m Meta) { CaseHReq(hsrv, list, false, b, m) })
	Lr := len(hw.Resp) - 808
	vary("ServerResponseHidden", hw.Resp, []int{4, 8, 776, 776 + Lr, 792 + Lr}, func(b []byte, m Meta) { CaseSRH(hw.HS, w.Cli.Key, hw.PreRS, b, m) })
}

// C02KemEncoding: an ML-KEM public key with a coefficient written non-canonically (c + q) would
// be a second encoding of the same key; if the parser accepted it, a ClientAck changed in flight
// would be absorbed as the canonical bytes and verify.
func (w *World) C02KemEncoding() {
	cv := w.P.Verify(PolStore, "", nil, false)
	srv := NewSrv(SingleConfig(w.Srv, cv, false))
	ccfg := w.Cli.ClientConfig(w.P.Verify(PolStore, w.SrvName, nil, false))
	tried := 0
	for k := 0; k < 512 && tried < 12; k++ {
		kk := k
		var alt []byte
		r := RunHandshake(srv, ccfg, w.NextAddr(), func(dir, idx int, d []byte) [][]byte {
			if dir == C2S && idx == 1 {
				key := d[36:836]
				// coefficient kk: 12 bits at bit offset 12*kk
				bo := 12 * kk
				v := (int(key[bo/8]) | int(key[bo/8+1])<<8 | int(key[bo/8+2])<<16) >> uint(bo%8) & 0xfff
				if v+3329 >= 4096 {
					return [][]byte{d}
				}
				nv := v + 3329
				x := append([]byte(nil), d...)
				kx := x[36:836]
				word := int(kx[bo/8]) | int(kx[bo/8+1])<<8 | int(kx[bo/8+2])<<16
				word = word&^(0xfff<<uint(bo%8)) | nv<<uint(bo%8)
				kx[bo/8], kx[bo/8+1], kx[bo/8+2] = byte(word), byte(word>>8), byte(word>>16)
				alt = x
				return [][]byte{x}
			}
			return [][]byte{d}
		})
		if alt != nil {
			tried++
			_, perr := keys.ParseKEMPublicKeyFromBytes(alt[36:836])
			ok, sig, what := true, "", ""
			if r.Handle != nil || r.CliOK() && false {
				ok, sig, what = false, "C02:tampered-ClientAck-still-completes", fmt.Sprintf("a ClientAck whose KEM key has coefficient %d re-encoded as c+q (parser error: %v) still completed", kk, perr)
			}
			specCase("C02", "kem-noncanonical-encoding", fmt.Sprintf("ClientAck with KEM-key coefficient %d re-encoded non-canonically (c+3329)", kk), ok, sig, what, true)
		}
		r.Close()
	}
	_ = bytes.Equal
}
