(* proofs for Model/Authz.v — see Properties/C05.v and Properties/C07.v *)
From Hop Require Import Base Authz.
From Coq Require Import Permutation.
Open Scope N_scope.

(* ------------------------------------------------------------------ equality tests *)
Lemma beq_bytes_eq : forall a b, beq_bytes a b = true <-> a = b.
Proof.
  induction a as [|x a IH]; destruct b as [|y b]; simpl; split; intro H; try congruence; try reflexivity.
  - apply andb_true_iff in H as [H1 H2]. apply N.eqb_eq in H1. apply IH in H2. congruence.
  - inversion H; subst. apply andb_true_iff; split. apply N.eqb_refl. apply IH; reflexivity.
Qed.
Lemma beq_bytes_refl : forall a, beq_bytes a a = true.
Proof. intro; apply beq_bytes_eq; reflexivity. Qed.
Lemma beq_bytes_neq : forall a b, beq_bytes a b = false <-> a <> b.
Proof.
  intros a b; split; intro H.
  - intro E. apply beq_bytes_eq in E. congruence.
  - destruct (beq_bytes a b) eqn:E; auto. apply beq_bytes_eq in E. contradiction.
Qed.

Lemma uk_eqb_eq : forall a b, uk_eqb a b = true <-> a = b.
Proof.
  intros [u k] [u' k']; unfold uk_eqb; simpl; split; intro H.
  - apply andb_true_iff in H as [H1 H2]. apply beq_bytes_eq in H1. apply N.eqb_eq in H2. congruence.
  - inversion H; subst. apply andb_true_iff; split. apply beq_bytes_refl. apply N.eqb_refl.
Qed.
Lemma uk_eqb_refl : forall a, uk_eqb a a = true.
Proof. intro; apply uk_eqb_eq; reflexivity. Qed.
Lemma uk_eqb_neq : forall a b, uk_eqb a b = false <-> a <> b.
Proof.
  intros a b; split; intro H.
  - intro E. apply uk_eqb_eq in E. congruence.
  - destruct (uk_eqb a b) eqn:E; auto. apply uk_eqb_eq in E. contradiction.
Qed.
Lemma uk_eqb_sym : forall a b, uk_eqb a b = uk_eqb b a.
Proof.
  intros a b. destruct (uk_eqb a b) eqn:E.
  - apply uk_eqb_eq in E; subst. symmetry; apply uk_eqb_refl.
  - apply uk_eqb_neq in E. symmetry. apply uk_eqb_neq. congruence.
Qed.

(* ------------------------------------------------------------------ 1. the file *)
Section ParseFacts.
  Variable parse : bytes -> option key.

  Lemma allowed_In : forall ks k, allowed ks k = true -> In k ks.
  Proof.
    induction ks as [|x ks IH]; simpl; intros k H; try discriminate.
    destruct (x =? k) eqn:E. left; apply N.eqb_eq; exact E. right; auto.
  Qed.
  Lemma In_allowed : forall ks k, In k ks -> allowed ks k = true.
  Proof.
    induction ks as [|x ks IH]; simpl; intros k H; [contradiction|].
    destruct (x =? k) eqn:E; auto. destruct H as [H|H]; auto. subst. rewrite N.eqb_refl in E. discriminate.
  Qed.

  (* every key the parsing loop returns is the entry of some line *)
  Lemma parse_lines_sound : forall ls ks k,
      parse_lines parse ls = Ok ks -> In k ks -> In k (filter_some (map (entry_of_line parse) ls)).
  Proof.
    induction ls as [|l ls IH]; simpl; intros ks k H Hin.
    - inversion H; subst. contradiction.
    - destruct (max_token <=? len l).
      + inversion H; subst. contradiction.
      + unfold entry_of_line at 1.
        destruct (trim_space (drop_cr l)) as [|b t] eqn:Et.
        * eapply IH; eauto.
        * destruct (parse (b :: t)) as [k0|] eqn:Ep; [|discriminate].
          destruct (parse_lines parse ls) as [ks'| |] eqn:Er; simpl in H; try discriminate.
          inversion H; subst. simpl. destruct Hin as [Hin|Hin]; [left; auto|right; eapply IH; eauto].
  Qed.

  Lemma parse_authorized_keys_sound : forall c ks k,
      parse_authorized_keys parse c = Ok ks -> In k ks -> In k (wf_entries parse c).
  Proof. intros. eapply parse_lines_sound; eauto. Qed.

  (* a line that is not blank, not over-long and does not parse makes the whole file an error,
     provided no over-long line precedes it *)
  Definition bad_line (l : bytes) : Prop :=
    len l < max_token /\ trim_space (drop_cr l) <> [] /\ parse (trim_space (drop_cr l)) = None.
  Lemma parse_lines_bad : forall pre l post,
      Forall (fun x => len x < max_token) pre -> bad_line l -> parse_lines parse (pre ++ l :: post) = Err.
  Proof.
    induction pre as [|x pre IH]; simpl; intros l post Hpre [Hlen [Hne Hp]].
    - apply N.ltb_lt in Hlen. rewrite N.ltb_antisym in Hlen. apply negb_true_iff in Hlen. rewrite Hlen.
      destruct (trim_space (drop_cr l)); [congruence|]. rewrite Hp. reflexivity.
    - inversion Hpre; subst. assert (Hx: (max_token <=? len x) = false).
      { apply N.leb_gt. assumption. }
      rewrite Hx. rewrite (IH l post); auto; [|split; auto].
      destruct (trim_space (drop_cr x)) as [|b t]; auto. destruct (parse (b :: t)); auto.
  Qed.
End ParseFacts.

(* ------------------------------------------------------------------ 2. maps *)
Lemma ag_lookup_add_same : forall m x g,
    ag_lookup (ag_add m x g) x = Some (match ag_lookup m x with Some l => l ++ [g] | None => [g] end).
Proof.
  induction m as [|[y l] m IH]; simpl; intros x g.
  - rewrite uk_eqb_refl. reflexivity.
  - destruct (uk_eqb y x) eqn:E; simpl; rewrite E; auto.
Qed.
Lemma ag_lookup_add_other : forall m x y g, x <> y -> ag_lookup (ag_add m x g) y = ag_lookup m y.
Proof.
  induction m as [|[z l] m IH]; simpl; intros x y g H.
  - apply uk_eqb_neq in H. rewrite H. reflexivity.
  - destruct (uk_eqb z x) eqn:E; simpl.
    + apply uk_eqb_eq in E; subst. apply uk_eqb_neq in H. rewrite H. reflexivity.
    + destruct (uk_eqb z y); auto.
Qed.
Lemma ag_notin_lookup_None : forall m x, ~ In x (map fst m) -> ag_lookup m x = None.
Proof.
  induction m as [|[y l] m IH]; simpl; intros x H; auto.
  destruct (uk_eqb y x) eqn:E.
  - apply uk_eqb_eq in E; subst. exfalso; apply H; auto.
  - apply IH. intro Hc; apply H; auto.
Qed.
Lemma ag_lookup_del_same : forall m x, NoDup (map fst m) -> ag_lookup (ag_del m x) x = None.
Proof.
  induction m as [|[y l] m IH]; simpl; intros x Hnd; auto.
  inversion Hnd; subst. destruct (uk_eqb y x) eqn:E; simpl.
  - apply uk_eqb_eq in E; subst. apply ag_notin_lookup_None; auto.
  - rewrite E. apply IH; auto.
Qed.
Lemma ag_lookup_del_other : forall m x y, x <> y -> ag_lookup (ag_del m x) y = ag_lookup m y.
Proof.
  induction m as [|[z l] m IH]; simpl; intros x y H; auto.
  destruct (uk_eqb z x) eqn:E; simpl.
  - apply uk_eqb_eq in E; subst. apply uk_eqb_neq in H. rewrite H. reflexivity.
  - destruct (uk_eqb z y); auto.
Qed.
Lemma ag_add_keys : forall m x g,
    map fst (ag_add m x g) = match ag_lookup m x with Some _ => map fst m | None => map fst m ++ [x] end.
Proof.
  induction m as [|[y l] m IH]; simpl; intros x g; auto.
  destruct (uk_eqb y x) eqn:E; simpl; auto. rewrite IH. destruct (ag_lookup m x); auto.
Qed.
Lemma ag_lookup_None_notin : forall m x, ag_lookup m x = None -> ~ In x (map fst m).
Proof.
  induction m as [|[y l] m IH]; simpl; intros x H; auto.
  destruct (uk_eqb y x) eqn:E; [discriminate|]. apply uk_eqb_neq in E. intros [Hc|Hc]; auto. eapply IH; eauto.
Qed.
Lemma ag_add_nodup : forall m x g, NoDup (map fst m) -> NoDup (map fst (ag_add m x g)).
Proof.
  intros m x g H. rewrite ag_add_keys. destruct (ag_lookup m x) eqn:E; auto.
  apply ag_lookup_None_notin in E.
  apply Permutation_NoDup with (l := x :: map fst m).
  - apply Permutation_cons_append.
  - constructor; auto.
Qed.
Lemma ag_del_keys_incl : forall m x y, In y (map fst (ag_del m x)) -> In y (map fst m).
Proof.
  induction m as [|[z l] m IH]; simpl; intros x y H; auto.
  destruct (uk_eqb z x); simpl in *; auto. destruct H; auto. right; eapply IH; eauto.
Qed.
Lemma ag_del_nodup : forall m x, NoDup (map fst m) -> NoDup (map fst (ag_del m x)).
Proof.
  induction m as [|[z l] m IH]; simpl; intros x H; auto.
  inversion H; subst. destruct (uk_eqb z x); simpl; auto.
  constructor; auto. intro Hc. apply H2. eapply ag_del_keys_incl; eauto.
Qed.

Lemma key_mem_del : forall ks k, key_mem (key_del ks k) k = false.
Proof.
  induction ks as [|x ks IH]; simpl; intro k; auto.
  destruct (x =? k) eqn:E; simpl; auto. rewrite E. simpl. apply IH.
Qed.
Lemma key_mem_In : forall ks k, key_mem ks k = true <-> In k ks.
Proof.
  induction ks as [|x ks IH]; simpl; intro k; split; intro H; try discriminate; try contradiction.
  - apply orb_true_iff in H as [H|H]. left; apply N.eqb_eq; auto. right; apply IH; auto.
  - apply orb_true_iff. destruct H as [H|H]. left; subst; apply N.eqb_refl. right; apply IH; auto.
Qed.

(* ------------------------------------------------------------------ 3. trace functions *)
Lemma file_at_snoc : forall tr e u,
    file_at (tr ++ [e]) u =
    match e with EvSetFile u' f => if beq_bytes u' u then f else file_at tr u | _ => file_at tr u end.
Proof. intros. unfold file_at. rewrite fold_left_app. simpl. destruct e; reflexivity. Qed.
Lemma enabled_at_snoc : forall tr e,
    enabled_at (tr ++ [e]) = match e with EvEnable b => b | _ => enabled_at tr end.
Proof. intros. unfold enabled_at. rewrite fold_left_app. simpl. destruct e; reflexivity. Qed.
Lemma unconsumed_snoc : forall tr e u k,
    unconsumed (tr ++ [e]) u k =
    match e with
    | EvAdded g u' k' => if uk_eqb (u', k') (u, k) then unconsumed tr u k ++ [g] else unconsumed tr u k
    | EvLogin _ u' k' (ViaGrant _) => if uk_eqb (u', k') (u, k) then [] else unconsumed tr u k
    | EvApiGrant u' k' (Some _) => if uk_eqb (u', k') (u, k) then [] else unconsumed tr u k
    | _ => unconsumed tr u k
    end.
Proof.
  intros. unfold unconsumed. rewrite fold_left_app. simpl.
  destruct e; reflexivity.
Qed.
Lemma login_of_snoc : forall tr e sid,
    login_of (tr ++ [e]) sid =
    match e with EvLogin sid' u k v => if sid' =? sid then Some (u, k, v) else login_of tr sid | _ => login_of tr sid end.
Proof. intros. unfold login_of. rewrite fold_left_app. simpl. destruct e; reflexivity. Qed.
Lemma used_ids_app : forall a b, used_ids (a ++ b) = used_ids a ++ used_ids b.
Proof.
  induction a as [|e a IH]; simpl; intro b; auto.
  destruct e; auto. destruct used; simpl; auto. rewrite IH. reflexivity.
Qed.
Lemma added_ids_app : forall a b, added_ids (a ++ b) = added_ids a ++ added_ids b.
Proof.
  induction a as [|e a IH]; simpl; intro b; auto.
  destruct e; auto. simpl. rewrite IH. reflexivity.
Qed.

(* a grant still counted as unconsumed for u:k was stored for exactly u:k *)
Lemma unconsumed_added : forall tr u k g, In g (unconsumed tr u k) -> In (EvAdded g u k) tr.
Proof.
  intros tr. induction tr as [|e tr IH] using rev_ind; intros u k g H.
  - inversion H.
  - rewrite unconsumed_snoc in H. apply in_or_app.
    destruct e; try (left; apply IH; exact H).
    + destruct (uk_eqb (u0, k0) (u, k)) eqn:E.
      * apply uk_eqb_eq in E. inversion E; subst. apply in_app_or in H as [H|H].
        left; apply IH; auto. right. simpl in H. destruct H as [H|[]]. subst. left; reflexivity.
      * left; apply IH; auto.
    + destruct r; [|left; apply IH; exact H].
      destruct (uk_eqb (u0, k0) (u, k)); [inversion H|left; apply IH; exact H].
    + destruct v; [left; apply IH; exact H|].
      destruct (uk_eqb (u0, k0) (u, k)); [inversion H|left; apply IH; exact H].
Qed.

(* ------------------------------------------------------------------ 4. checkCmd *)
Definition usable (now : Z) (cmd : bytes) (shell : bool) (g : grant) : bool :=
  grant_live now g && grant_matches_exec cmd shell g.

Lemma check_cmd_spec : forall now cmd shell ags g rest,
    check_cmd now cmd shell ags = Some (g, rest) ->
    usable now cmd shell g = true /\
    exists a b, ags = a ++ g :: b /\ rest = a ++ b /\ Forall (fun x => usable now cmd shell x = false) a.
Proof.
  induction ags as [|ag r IH]; simpl; intros g rest H; [discriminate|].
  fold (usable now cmd shell ag) in H.
  destruct (usable now cmd shell ag) eqn:E.
  - inversion H; subst. split; auto. exists [], rest. simpl; auto.
  - destruct (check_cmd now cmd shell r) as [[g' r']|] eqn:Ec; [|discriminate].
    inversion H; subst. destruct (IH _ _ eq_refl) as [Hu [a [b [H1 [H2 H3]]]]].
    split; auto. exists (ag :: a), b. subst. simpl. repeat split; auto.
Qed.
Lemma check_cmd_none : forall now cmd shell ags,
    check_cmd now cmd shell ags = None -> Forall (fun x => usable now cmd shell x = false) ags.
Proof.
  induction ags as [|ag r IH]; simpl; intro H; auto.
  fold (usable now cmd shell ag) in H.
  destruct (usable now cmd shell ag) eqn:E; [discriminate|].
  destruct (check_cmd now cmd shell r) as [[g' r']|] eqn:Ec; [discriminate|]. constructor; auto.
Qed.

Lemma usable_authorizes : forall now cmd shell g,
    usable now cmd shell g = true -> authorizes g (AExec cmd shell) now.
Proof.
  unfold usable, grant_live, grant_matches_exec, authorizes. intros now cmd shell g H.
  apply andb_true_iff in H as [H1 H2]. apply andb_true_iff in H1 as [Ha Hb].
  apply Z.leb_le in Ha. apply Z.ltb_lt in Hb. split; [lia|].
  destruct shell; simpl in H2.
  - apply N.eqb_eq in H2. exact H2.
  - rewrite orb_false_r in H2. apply andb_true_iff in H2 as [H2 H3].
    apply N.eqb_eq in H2. apply beq_bytes_eq in H3. auto.
Qed.

(* ------------------------------------------------------------------ 5. where grants live *)
Definition flat_ag (m : list (uk * list grant)) : list grant := List.concat (map snd m).
Definition flat_ss (ss : list sess) : list grant := List.concat (map s_actions ss).
Definition live (st : state) : list grant := flat_ag (st_agmap st) ++ flat_ss (st_sess st).

Lemma flat_ag_add : forall m x g, Permutation (flat_ag (ag_add m x g)) (g :: flat_ag m).
Proof.
  unfold flat_ag. induction m as [|[y l] m IH]; simpl; intros x g.
  - apply Permutation_refl.
  - destruct (uk_eqb y x); simpl.
    + rewrite <- app_assoc. simpl. apply Permutation_sym. apply Permutation_middle.
    + apply Permutation_trans with (l' := l ++ g :: List.concat (map snd m)).
      * apply Permutation_app_head. apply IH.
      * apply Permutation_sym. apply Permutation_middle.
Qed.
Lemma flat_ag_del : forall m x l,
    ag_lookup m x = Some l -> Permutation (flat_ag m) (l ++ flat_ag (ag_del m x)).
Proof.
  unfold flat_ag. induction m as [|[y l'] m IH]; simpl; intros x l H; [discriminate|].
  destruct (uk_eqb y x).
  - inversion H; subst. apply Permutation_refl.
  - simpl. apply Permutation_trans with (l' := l' ++ l ++ List.concat (map snd (ag_del m x))).
    + apply Permutation_app_head. apply IH; auto.
    + rewrite !app_assoc. apply Permutation_app_tail. apply Permutation_app_comm.
Qed.
Lemma flat_ss_snoc : forall ss s, flat_ss (ss ++ [s]) = flat_ss ss ++ s_actions s.
Proof. intros. unfold flat_ss. rewrite map_app, concat_app. simpl. rewrite app_nil_r. reflexivity. Qed.
Lemma flat_ss_update : forall ss n s a g b,
    nth_error ss n = Some s -> s_actions s = a ++ g :: b ->
    Permutation (flat_ss ss) (g :: flat_ss (update_nth ss n (set_actions s (a ++ b)))).
Proof.
  unfold flat_ss. induction ss as [|x ss IH]; intros n s a g b Hn Ha.
  - destruct n; discriminate.
  - destruct n; simpl in *.
    + inversion Hn; subst. rewrite Ha. rewrite <- !app_assoc. simpl.
      apply Permutation_sym. apply Permutation_middle.
    + apply Permutation_trans with (l' := s_actions x ++ g :: List.concat (map s_actions (update_nth ss n (set_actions s (a ++ b))))).
      * apply Permutation_app_head. eapply IH; eauto.
      * apply Permutation_sym. apply Permutation_middle.
Qed.
Lemma nth_update_same : forall {A} (l : list A) n a x, nth_error l n = Some x -> nth_error (update_nth l n a) n = Some a.
Proof. induction l; destruct n; simpl; intros; try discriminate; auto. eapply IHl; eauto. Qed.
Lemma nth_update_other : forall {A} (l : list A) n m a, n <> m -> nth_error (update_nth l n a) m = nth_error l m.
Proof. induction l; destruct n, m; simpl; intros; auto; try congruence. Qed.
Lemma length_update : forall {A} (l : list A) n a, List.length (update_nth l n a) = List.length l.
Proof. induction l; destruct n; simpl; intros; auto. Qed.
Lemma nth_error_in_flat : forall ss n s g, nth_error ss n = Some s -> In g (s_actions s) -> In g (flat_ss ss).
Proof.
  unfold flat_ss. induction ss as [|x ss IH]; destruct n; simpl; intros s g H Hg; try discriminate.
  - inversion H; subst. apply in_or_app; auto.
  - apply in_or_app; right. eapply IH; eauto.
Qed.
Lemma lookup_in_flat : forall m x l g, ag_lookup m x = Some l -> In g l -> In g (flat_ag m).
Proof.
  unfold flat_ag. induction m as [|[y l'] m IH]; simpl; intros x l g H Hg; [discriminate|].
  apply in_or_app. destruct (uk_eqb y x).
  - inversion H; subst. auto.
  - right. eapply IH; eauto.
Qed.

Lemma NoDup_map_perm : forall (a b : list grant), Permutation a b -> NoDup (map g_id a) -> NoDup (map g_id b).
Proof. intros a b P H. eapply Permutation_NoDup; [apply Permutation_map; exact P|exact H]. Qed.

Lemma NoDup_app_r : forall {A} (a b : list A), NoDup (a ++ b) -> NoDup b.
Proof. induction a; simpl; intros b H; auto. inversion H; subst. auto. Qed.

Definition live_ok (lv : list grant) (nx : N) (used : list N) : Prop :=
  NoDup (map g_id lv) /\ (forall g, In g lv -> g_id g < nx) /\ (forall g, In g lv -> ~ In (g_id g) used).

Lemma live_ok_sub : forall lv lv' x nx used,
    live_ok lv nx used -> Permutation lv (x ++ lv') -> live_ok lv' nx used.
Proof.
  intros lv lv' x nx used [H1 [H2 H3]] P. repeat split.
  - apply NoDup_map_perm with (b := x ++ lv') in H1; auto.
    rewrite map_app in H1. apply NoDup_app_r in H1. exact H1.
  - intros g Hg. apply H2. eapply Permutation_in. apply Permutation_sym; exact P. apply in_or_app; auto.
  - intros g Hg. apply H3. eapply Permutation_in. apply Permutation_sym; exact P. apply in_or_app; auto.
Qed.
Lemma live_ok_perm : forall lv lv' nx used, live_ok lv nx used -> Permutation lv lv' -> live_ok lv' nx used.
Proof. intros. eapply live_ok_sub with (x := []); eauto. Qed.
Lemma live_ok_add : forall lv lv' g nx used,
    live_ok lv nx used -> (forall id, In id used -> id < nx) -> Permutation lv' (g :: lv) -> g_id g = nx ->
    live_ok lv' (nx + 1) used.
Proof.
  intros lv lv' g nx used [H1 [H2 H3]] Hu P Hg.
  assert (Hin: forall g', In g' lv' -> g' = g \/ In g' lv).
  { intros g' Hg'. apply (Permutation_in _ P) in Hg'. destruct Hg'; auto. }
  repeat split.
  - apply NoDup_map_perm with (a := g :: lv). apply Permutation_sym; exact P.
    simpl. constructor; auto. intro Hc. apply in_map_iff in Hc as [g' [E Hg']].
    apply H2 in Hg'. lia.
  - intros g' Hg'. destruct (Hin _ Hg') as [E|Hl]. subst; lia. apply H2 in Hl. lia.
  - intros g' Hg' Hc. destruct (Hin _ Hg') as [E|Hl].
    + subst g'. apply Hu in Hc. lia.
    + eapply H3; eauto.
Qed.
Lemma live_ok_use : forall lv lv' g nx used,
    live_ok lv nx used -> Permutation lv (g :: lv') ->
    live_ok lv' nx (used ++ [g_id g]) /\ ~ In (g_id g) used /\ g_id g < nx.
Proof.
  intros lv lv' g nx used [H1 [H2 H3]] P.
  assert (Hg: In g lv). { eapply Permutation_in. apply Permutation_sym; exact P. left; auto. }
  assert (Hsub: forall g', In g' lv' -> In g' lv).
  { intros g' Hg'. eapply Permutation_in. apply Permutation_sym; exact P. right; auto. }
  apply NoDup_map_perm with (b := g :: lv') in H1; auto. simpl in H1. inversion H1; subst.
  split; [|split].
  - split; [assumption|split].
    + intros g' Hg'. apply H2; auto.
    + intros g' Hg' Hc. apply in_app_or in Hc as [Hc|Hc].
      * apply (H3 g' (Hsub g' Hg') Hc).
      * simpl in Hc. destruct Hc as [Hc|[]]. apply H4. rewrite Hc. apply in_map. exact Hg'.
  - apply H3; auto.
  - apply H2; auto.
Qed.

(* ------------------------------------------------------------------ 6. the invariant *)
Section Inv.
  Variable parse : bytes -> option key.

  Definition lookup_list (st : state) (u : user) (k : key) : list grant :=
    match ag_lookup (st_agmap st) (u, k) with Some l => l | None => [] end.

  Definition sess_ok (tr : list event) (sid : N) (s : sess) : Prop :=
    exists v, login_of tr sid = Some (s_user s, s_key s, v) /\
              match v with
              | ViaFile => s_using s = false
              | ViaGrant ags => s_using s = true /\ incl (s_actions s) ags /\
                                forall g, In g ags -> In (EvAdded g (s_user s) (s_key s)) tr
              end.

  Record inv (st : state) (tr : list event) : Prop := mkInv {
    i_en : st_enabled st = enabled_at tr;
    i_file : forall u, file_of st u = file_at tr u;
    i_nd : NoDup (map fst (st_agmap st));
    i_ag : forall u k, lookup_list st u k = unconsumed tr u k;
    i_ne : forall x l, ag_lookup (st_agmap st) x = Some l -> l <> [];
    i_sess : forall sid s, nth_sess (st_sess st) sid = Some s -> sess_ok tr sid s;
    i_fresh : forall sid, (List.length (st_sess st) <= N.to_nat sid)%nat -> login_of tr sid = None;
    i_live : live_ok (live st) (st_next st) (used_ids tr);
    i_used_lt : forall id, In id (used_ids tr) -> id < st_next st;
    i_added_lt : forall id, In id (added_ids tr) -> id < st_next st;
    i_added_nd : NoDup (added_ids tr);
    i_used_nd : NoDup (used_ids tr) }.

  Lemma inv_init : inv init_state [].
  Proof.
    constructor; simpl; intros;
      try reflexivity; try contradiction; try discriminate; try (constructor; fail).
    - unfold nth_sess in H. simpl in H. destruct (N.to_nat sid); discriminate.
    - repeat split; simpl; try constructor; intros; contradiction.
  Qed.

  Definition J (tr : list event) (e : event) : Prop :=
    login_justified parse tr e /\ start_justified scope_all tr e.

  Lemma sess_ok_mono : forall tr e sid s,
      sess_ok tr sid s -> login_of (tr ++ [e]) sid = login_of tr sid -> sess_ok (tr ++ [e]) sid s.
  Proof.
    intros tr e sid s [v [H1 H2]] E. exists v. rewrite E. split; auto.
    destruct v; auto. destruct H2 as [Ha [Hb Hc]]. repeat split; auto.
    intros g Hg. apply in_or_app; left; auto.
  Qed.

  (* events that change none of the trace functions *)
  Definition neutral (e : event) : Prop :=
    match e with
    | EvAddRefused | EvApiKey _ _ _ | EvApiGrant _ _ None | EvDenied _ _
    | EvStart _ _ _ None | EvRefuse _ _ _ | EvTube _ _ | EvNoSession _ => True
    | _ => False
    end.

  Lemma inv_neutral : forall st tr e, inv st tr -> neutral e -> inv st (tr ++ [e]).
  Proof.
    intros st tr e [] N.
    assert (Hu: used_ids (tr ++ [e]) = used_ids tr).
    { rewrite used_ids_app. destruct e; simpl in *; try contradiction; try apply app_nil_r.
      destruct used; [contradiction|apply app_nil_r]. }
    assert (Ha: added_ids (tr ++ [e]) = added_ids tr).
    { rewrite added_ids_app. destruct e; simpl in *; try contradiction; apply app_nil_r. }
    assert (Hl: forall sid, login_of (tr ++ [e]) sid = login_of tr sid).
    { intro sid. rewrite login_of_snoc. destruct e; simpl in *; try contradiction; reflexivity. }
    constructor; auto.
    - rewrite enabled_at_snoc. destruct e; simpl in *; try contradiction; auto.
    - intro u. rewrite file_at_snoc. destruct e; simpl in *; try contradiction; auto.
    - intros u k. rewrite unconsumed_snoc. destruct e; simpl in *; try contradiction; auto.
      destruct r; [contradiction|auto].
    - intros sid s H. apply sess_ok_mono; auto.
    - intros sid H. rewrite Hl. auto.
    - rewrite Hu; auto.
    - rewrite Hu; auto.
    - rewrite Ha; auto.
    - rewrite Ha; auto.
    - rewrite Hu; auto.
  Qed.

  Lemma inv_setfile : forall st tr u f,
      inv st tr -> inv (set_files st ((u, f) :: st_files st)) (tr ++ [EvSetFile u f]).
  Proof.
    intros st tr u f [].
    constructor; simpl; auto.
    - rewrite enabled_at_snoc. auto.
    - intro u'. rewrite file_at_snoc. unfold file_of. simpl. destruct (beq_bytes u u'); auto. apply i_file0.
    - intros u' k'. rewrite unconsumed_snoc. apply i_ag0.
    - intros sid s H. apply sess_ok_mono; auto. rewrite login_of_snoc; auto.
    - intros sid H. rewrite login_of_snoc. auto.
    - rewrite used_ids_app. simpl. rewrite app_nil_r. exact i_live0.
    - rewrite used_ids_app. simpl. rewrite app_nil_r. exact i_used_lt0.
    - rewrite added_ids_app. simpl. rewrite app_nil_r. exact i_added_lt0.
    - rewrite added_ids_app. simpl. rewrite app_nil_r. exact i_added_nd0.
    - rewrite used_ids_app. simpl. rewrite app_nil_r. exact i_used_nd0.
  Qed.

  Lemma inv_enable : forall st tr b, inv st tr -> inv (set_enabled st b) (tr ++ [EvEnable b]).
  Proof.
    intros st tr b [].
    constructor; simpl; auto.
    - rewrite enabled_at_snoc. auto.
    - intro u'. rewrite file_at_snoc. apply i_file0.
    - intros u' k'. rewrite unconsumed_snoc. apply i_ag0.
    - intros sid s H. apply sess_ok_mono; auto. rewrite login_of_snoc; auto.
    - intros sid H. rewrite login_of_snoc. auto.
    - rewrite used_ids_app. simpl. rewrite app_nil_r. exact i_live0.
    - rewrite used_ids_app. simpl. rewrite app_nil_r. exact i_used_lt0.
    - rewrite added_ids_app. simpl. rewrite app_nil_r. exact i_added_lt0.
    - rewrite added_ids_app. simpl. rewrite app_nil_r. exact i_added_nd0.
    - rewrite used_ids_app. simpl. rewrite app_nil_r. exact i_used_nd0.
  Qed.

  (* a grant is stored: HopServer.AddAuthGrant succeeded *)
  Lemma inv_added : forall st tr i,
      inv st tr ->
      let g := new_grant (st_next st) i in
      inv (set_grants st (ag_add (st_agmap st) (i_user i, i_key i) g) (key_add (st_keys st) (i_key i)) (st_next st + 1))
          (tr ++ [EvAdded g (i_user i) (i_key i)]).
  Proof.
    intros st tr i [] g.
    assert (Hu: used_ids (tr ++ [EvAdded g (i_user i) (i_key i)]) = used_ids tr).
    { rewrite used_ids_app. simpl. apply app_nil_r. }
    constructor; simpl; auto.
    - rewrite enabled_at_snoc. auto.
    - intro u'. rewrite file_at_snoc. apply i_file0.
    - apply ag_add_nodup; auto.
    - intros u' k'. rewrite unconsumed_snoc. unfold lookup_list; simpl.
      destruct (uk_eqb (i_user i, i_key i) (u', k')) eqn:E.
      + apply uk_eqb_eq in E. inversion E; subst u' k'. rewrite ag_lookup_add_same.
        specialize (i_ag0 (i_user i) (i_key i)). unfold lookup_list in i_ag0. rewrite <- i_ag0.
        destruct (ag_lookup (st_agmap st) (i_user i, i_key i)); reflexivity.
      + apply uk_eqb_neq in E. rewrite ag_lookup_add_other; auto. apply i_ag0.
    - intros x l H. destruct (uk_eqb (i_user i, i_key i) x) eqn:E.
      + apply uk_eqb_eq in E. subst x. rewrite ag_lookup_add_same in H. inversion H.
        destruct (ag_lookup (st_agmap st) (i_user i, i_key i)); [intro Hc; apply app_eq_nil in Hc as [_ Hc]; discriminate|discriminate].
      + apply uk_eqb_neq in E. rewrite ag_lookup_add_other in H; auto. eapply i_ne0; eauto.
    - intros sid s H. apply sess_ok_mono; auto. rewrite login_of_snoc; auto.
    - intros sid H. rewrite login_of_snoc. auto.
    - rewrite Hu. unfold live; simpl. eapply live_ok_add with (g := g); eauto.
      apply Permutation_trans with (l' := (g :: flat_ag (st_agmap st)) ++ flat_ss (st_sess st)).
      + apply Permutation_app_tail. apply flat_ag_add.
      + apply Permutation_refl.
    - rewrite Hu. intros id H. apply i_used_lt0 in H. lia.
    - rewrite added_ids_app. simpl. intros id H. apply in_app_or in H as [H|[H|[]]].
      apply i_added_lt0 in H; lia. subst; simpl; lia.
    - rewrite added_ids_app. simpl. apply Permutation_NoDup with (l := st_next st :: added_ids tr).
      apply Permutation_cons_append. constructor; auto. intro Hc. apply i_added_lt0 in Hc. lia.
    - rewrite Hu. auto.
  Qed.

  (* grants handed out to a direct AuthorizeKeyAuthGrant call *)
  Lemma inv_apigrant : forall st tr u k ags,
      inv st tr -> ag_lookup (st_agmap st) (u, k) = Some ags ->
      inv (set_grants st (ag_del (st_agmap st) (u, k)) (key_del (st_keys st) k) (st_next st))
          (tr ++ [EvApiGrant u k (Some ags)]).
  Proof.
    intros st tr u k ags [] Hl.
    assert (Hu: used_ids (tr ++ [EvApiGrant u k (Some ags)]) = used_ids tr).
    { rewrite used_ids_app. simpl. apply app_nil_r. }
    assert (Ha: added_ids (tr ++ [EvApiGrant u k (Some ags)]) = added_ids tr).
    { rewrite added_ids_app. simpl. apply app_nil_r. }
    constructor; simpl; auto.
    - rewrite enabled_at_snoc. auto.
    - intro u'. rewrite file_at_snoc. apply i_file0.
    - apply ag_del_nodup; auto.
    - intros u' k'. rewrite unconsumed_snoc. unfold lookup_list; simpl.
      destruct (uk_eqb (u, k) (u', k')) eqn:E.
      + apply uk_eqb_eq in E. inversion E; subst u' k'. rewrite ag_lookup_del_same; auto.
      + apply uk_eqb_neq in E. rewrite ag_lookup_del_other; auto. apply i_ag0.
    - intros x l H. destruct (uk_eqb (u, k) x) eqn:E.
      + apply uk_eqb_eq in E. subst x. rewrite ag_lookup_del_same in H; auto. discriminate.
      + apply uk_eqb_neq in E. rewrite ag_lookup_del_other in H; auto. eapply i_ne0; eauto.
    - intros sid s H. apply sess_ok_mono; auto. rewrite login_of_snoc; auto.
    - intros sid H. rewrite login_of_snoc. auto.
    - rewrite Hu. unfold live; simpl. eapply live_ok_sub with (x := ags); eauto.
      unfold live. rewrite app_assoc. apply Permutation_app_tail. apply flat_ag_del; auto.
    - rewrite Hu. auto.
    - rewrite Ha. auto.
    - rewrite Ha. auto.
    - rewrite Hu. auto.
  Qed.

  Lemma nth_sess_snoc : forall ss s sid x,
      nth_sess (ss ++ [s]) sid = Some x ->
      (nth_sess ss sid = Some x /\ sid <> N.of_nat (List.length ss)) \/ (sid = N.of_nat (List.length ss) /\ x = s).
  Proof.
    unfold nth_sess. intros ss s sid x H.
    destruct (Nat.lt_ge_cases (N.to_nat sid) (List.length ss)) as [L|L].
    - rewrite nth_error_app1 in H; auto. left; split; auto. intro E. subst. rewrite Nat2N.id in L. lia.
    - rewrite nth_error_app2 in H; auto.
      destruct (N.to_nat sid - List.length ss)%nat eqn:E; simpl in H.
      + inversion H; subst. right; split; auto. assert (N.to_nat sid = List.length ss) by lia.
        rewrite <- H0. rewrite N2Nat.id. reflexivity.
      + destruct n; discriminate.
  Qed.

  (* a session is admitted (by file or by grants) *)
  Lemma inv_login : forall st tr u k v s,
      inv st tr ->
      s_user s = u -> s_key s = k ->
      match v with
      | ViaFile => s_using s = false /\ s_actions s = []
      | ViaGrant ags => s_using s = true /\ s_actions s = ags /\ False
      end ->
      inv (set_sess st (st_sess st ++ [s])) (tr ++ [EvLogin (N.of_nat (List.length (st_sess st))) u k v]).
  Proof.
    intros st tr u k v s [] Hsu Hsk Hv.
    destruct v as [|ags]; [|destruct Hv as [_ [_ []]]]. destruct Hv as [Hus Hac].
    set (e := EvLogin (N.of_nat (List.length (st_sess st))) u k ViaFile).
    assert (Hu: used_ids (tr ++ [e]) = used_ids tr). { rewrite used_ids_app. simpl. apply app_nil_r. }
    assert (Ha: added_ids (tr ++ [e]) = added_ids tr). { rewrite added_ids_app. simpl. apply app_nil_r. }
    constructor; simpl; auto.
    - rewrite enabled_at_snoc. auto.
    - intro u'. rewrite file_at_snoc. apply i_file0.
    - intros u' k'. rewrite unconsumed_snoc. apply i_ag0.
    - intros sid x H. apply nth_sess_snoc in H as [[H Hne]|[He Hx]].
      + apply sess_ok_mono; auto. rewrite login_of_snoc. unfold e.
        destruct (N.of_nat (List.length (st_sess st)) =? sid) eqn:E; auto. apply N.eqb_eq in E. congruence.
      + subst. exists ViaFile. rewrite login_of_snoc. unfold e. rewrite N.eqb_refl. split; auto.
    - intros sid H. rewrite login_of_snoc. unfold e. rewrite app_length in H. simpl in H.
      destruct (N.of_nat (List.length (st_sess st)) =? sid) eqn:E.
      + apply N.eqb_eq in E. subst sid. rewrite Nat2N.id in H. lia.
      + apply i_fresh0. lia.
    - rewrite Hu. unfold live; simpl. rewrite flat_ss_snoc. rewrite Hac. rewrite app_nil_r. exact i_live0.
    - rewrite Hu. auto.
    - rewrite Ha. auto.
    - rewrite Ha. auto.
    - rewrite Hu. auto.
  Qed.

  Lemma inv_login_grant : forall st tr u k ags,
      inv st tr -> ag_lookup (st_agmap st) (u, k) = Some ags ->
      inv (set_sess (set_grants st (ag_del (st_agmap st) (u, k)) (key_del (st_keys st) k) (st_next st))
                    (st_sess st ++ [mkSess u k true ags]))
          (tr ++ [EvLogin (N.of_nat (List.length (st_sess st))) u k (ViaGrant ags)]).
  Proof.
    intros st tr u k ags [] Hl.
    set (e := EvLogin (N.of_nat (List.length (st_sess st))) u k (ViaGrant ags)).
    assert (Hu: used_ids (tr ++ [e]) = used_ids tr). { rewrite used_ids_app. simpl. apply app_nil_r. }
    assert (Ha: added_ids (tr ++ [e]) = added_ids tr). { rewrite added_ids_app. simpl. apply app_nil_r. }
    assert (Hags: ags = unconsumed tr u k).
    { specialize (i_ag0 u k). unfold lookup_list in i_ag0. rewrite Hl in i_ag0. exact i_ag0. }
    constructor; simpl; auto.
    - rewrite enabled_at_snoc. auto.
    - intro u'. rewrite file_at_snoc. apply i_file0.
    - apply ag_del_nodup; auto.
    - intros u' k'. rewrite unconsumed_snoc. unfold e, lookup_list; simpl.
      destruct (uk_eqb (u, k) (u', k')) eqn:E.
      + apply uk_eqb_eq in E. inversion E; subst u' k'. rewrite ag_lookup_del_same; auto.
      + apply uk_eqb_neq in E. rewrite ag_lookup_del_other; auto. apply i_ag0.
    - intros x l H. destruct (uk_eqb (u, k) x) eqn:E.
      + apply uk_eqb_eq in E. subst x. rewrite ag_lookup_del_same in H; auto. discriminate.
      + apply uk_eqb_neq in E. rewrite ag_lookup_del_other in H; auto. eapply i_ne0; eauto.
    - intros sid x H. apply nth_sess_snoc in H as [[H Hne]|[He Hx]].
      + apply sess_ok_mono; auto. rewrite login_of_snoc. unfold e.
        destruct (N.of_nat (List.length (st_sess st)) =? sid) eqn:E; auto. apply N.eqb_eq in E. congruence.
      + subst sid x. exists (ViaGrant ags). rewrite login_of_snoc. unfold e. rewrite N.eqb_refl. simpl. split; auto.
        split; auto. split. apply incl_refl.
        intros g Hg. apply in_or_app; left. apply unconsumed_added. rewrite <- Hags. exact Hg.
    - intros sid H. rewrite login_of_snoc. unfold e. rewrite app_length in H. simpl in H.
      destruct (N.of_nat (List.length (st_sess st)) =? sid) eqn:E.
      + apply N.eqb_eq in E. subst sid. rewrite Nat2N.id in H. lia.
      + apply i_fresh0. lia.
    - rewrite Hu. unfold live; simpl. rewrite flat_ss_snoc. simpl.
      eapply live_ok_perm; eauto. unfold live.
      apply Permutation_trans with (l' := (ags ++ flat_ag (ag_del (st_agmap st) (u, k))) ++ flat_ss (st_sess st)).
      + apply Permutation_app_tail. apply flat_ag_del; auto.
      + rewrite <- app_assoc. apply Permutation_trans with (l' := (flat_ag (ag_del (st_agmap st) (u, k)) ++ flat_ss (st_sess st)) ++ ags).
        * apply Permutation_app_comm.
        * rewrite app_assoc. apply Permutation_refl.
    - rewrite Hu. auto.
    - rewrite Ha. auto.
    - rewrite Ha. auto.
    - rewrite Hu. auto.
  Qed.

  (* an exec request of a grant-admitted session is started: checkCmd found and deleted a grant *)
  Lemma inv_exec : forall st tr sid s cmd shell t g rest,
      inv st tr -> nth_sess (st_sess st) sid = Some s -> s_using s = true ->
      check_cmd t cmd shell (s_actions s) = Some (g, rest) ->
      inv (set_sess st (update_nth (st_sess st) (N.to_nat sid) (set_actions s rest)))
          (tr ++ [EvStart sid (AExec cmd shell) t (Some g)]) /\
      start_justified scope_all tr (EvStart sid (AExec cmd shell) t (Some g)).
  Proof.
    intros st tr sid s cmd shell t g rest Hinv Hn Hus Hc.
    destruct (check_cmd_spec _ _ _ _ _ _ Hc) as [Husable [a [b [Hact [Hrest _]]]]].
    pose proof Hinv as [].
    set (e := EvStart sid (AExec cmd shell) t (Some g)).
    assert (Hu: used_ids (tr ++ [e]) = used_ids tr ++ [g_id g]). { rewrite used_ids_app. reflexivity. }
    assert (Ha: added_ids (tr ++ [e]) = added_ids tr). { rewrite added_ids_app. simpl. apply app_nil_r. }
    assert (P: Permutation (live st) (g :: live (set_sess st (update_nth (st_sess st) (N.to_nat sid) (set_actions s rest))))).
    { unfold live; simpl. subst rest.
      apply Permutation_trans with (l' := flat_ag (st_agmap st) ++ g :: flat_ss (update_nth (st_sess st) (N.to_nat sid) (set_actions s (a ++ b)))).
      - apply Permutation_app_head. eapply flat_ss_update; eauto.
      - apply Permutation_sym. apply Permutation_middle. }
    destruct (live_ok_use _ _ _ _ _ i_live0 P) as [Hlive [Hunused Hlt]].
    destruct (i_sess0 _ _ Hn) as [v [Hlog Hv]].
    destruct v as [|ags]; [congruence|]. destruct Hv as [_ [Hincl Hadded]].
    assert (Hg: In g (s_actions s)). { rewrite Hact. apply in_or_app; right; left; reflexivity. }
    split.
    - constructor; simpl; auto.
      + rewrite enabled_at_snoc. auto.
      + intro u'. rewrite file_at_snoc. apply i_file0.
      + intros u' k'. rewrite unconsumed_snoc. apply i_ag0.
      + intros sid' s' H. unfold nth_sess in H.
        destruct (N.eq_dec sid' sid) as [E|E].
        * subst sid'. erewrite nth_update_same in H; eauto. inversion H; subst s'.
          exists (ViaGrant ags). rewrite login_of_snoc. simpl. split; auto. split; auto. split.
          -- intros x Hx. apply Hincl. rewrite Hact. subst rest. apply in_app_or in Hx as [Hx|Hx]; apply in_or_app; auto. right; right; auto.
          -- intros x Hx. apply in_or_app; left; auto.
        * rewrite nth_update_other in H.
          2:{ intro Hc'. apply E. apply N2Nat.inj. auto. }
          apply sess_ok_mono; auto. rewrite login_of_snoc. reflexivity.
      + intros sid' H. rewrite login_of_snoc. simpl. apply i_fresh0. rewrite length_update in H. exact H.
      + rewrite Hu. exact Hlive.
      + rewrite Hu. intros id H. apply in_app_or in H as [H|[H|[]]]; auto. subst; auto.
      + rewrite Ha. auto.
      + rewrite Ha. auto.
      + rewrite Hu. apply Permutation_NoDup with (l := g_id g :: used_ids tr).
        apply Permutation_cons_append. constructor; auto.
    - simpl. rewrite Hlog. intros _. exists g. repeat split; auto.
      + apply usable_authorizes in Husable. destruct Husable as [H1 _]. lia.
      + apply usable_authorizes in Husable. destruct Husable as [H1 _]. lia.
      + apply usable_authorizes in Husable. destruct Husable as [_ H2]. exact H2.
  Qed.

  Definition evs_ok (tr : list event) (evs : list event) : Prop :=
    match evs with
    | [e] => J tr e
    | [e1; e2] => J tr e1 /\ J (tr ++ [e1]) e2
    | _ => False
    end.

  (* an action started without a grant being used: only in a session that was not admitted through grants *)
  Lemma start_none_justified : forall st tr sid s a t,
      inv st tr -> nth_sess (st_sess st) sid = Some s -> s_using s = false ->
      start_justified scope_all tr (EvStart sid a t None).
  Proof.
    intros st tr sid s a t Hinv Hn Hs. destruct (i_sess _ _ Hinv _ _ Hn) as [v [Hlog Hv]].
    simpl. rewrite Hlog. destruct v; auto. destruct Hv as [Hu _]. congruence.
  Qed.

  Lemma authorize_key_justified : forall st tr u k,
      inv st tr -> authorize_key parse st u k = true ->
      exists c, file_at tr u = FFile c /\ In k (wf_entries parse c).
  Proof.
    intros st tr u k Hinv H. unfold authorize_key in H. rewrite (i_file _ _ Hinv) in H.
    destruct (file_at tr u) as [| | |c]; simpl in H; try discriminate.
    exists c. split; auto.
    destruct (parse_authorized_keys parse c) as [ks| |] eqn:E; try discriminate.
    eapply parse_authorized_keys_sound; eauto. apply allowed_In; auto.
  Qed.

  Lemma step_inv : forall st tr o st' evs,
      inv st tr -> step parse st o = (st', evs) -> inv st' (tr ++ evs) /\ evs_ok tr evs.
  Proof.
    intros st tr o st' evs Hinv Hstep. destruct o; unfold step, step_gen in Hstep.
    - (* OSetFile *) inversion Hstep; subst. split. apply inv_setfile; auto. simpl. split; simpl; auto.
    - (* OEnable *) inversion Hstep; subst. split. apply inv_enable; auto. split; simpl; auto.
    - (* OAddGrant *)
      unfold add_auth_grant in Hstep. destruct (negb (st_enabled st)).
      + destruct oi; inversion Hstep; subst; (split; [apply inv_neutral; simpl; auto|split; simpl; auto]).
      + destruct oi as [i|]; inversion Hstep; subst.
        * split. apply inv_added; auto. split; simpl; auto.
        * split; [apply inv_neutral; simpl; auto|split; simpl; auto].
    - (* OApiKey *) inversion Hstep; subst. split. apply inv_neutral; simpl; auto.
      split; simpl; auto. destruct (authorize_key parse st' u k) eqn:E; auto.
      eapply authorize_key_justified; eauto.
    - (* OApiGrant *)
      unfold authorize_key_authgrant in Hstep. destruct (st_enabled st) eqn:En.
      + destruct (ag_lookup (st_agmap st) (u, k)) as [ags|] eqn:El; inversion Hstep; subst.
        * split. apply inv_apigrant; auto. split; simpl; auto.
          rewrite <- (i_en _ _ Hinv). split; auto. split. eapply i_ne; eauto.
          pose proof (i_ag _ _ Hinv u k) as H. unfold lookup_list in H. rewrite El in H. exact H.
        * split; [apply inv_neutral; simpl; auto|split; simpl; auto].
      + inversion Hstep; subst. split; [apply inv_neutral; simpl; auto|split; simpl; auto].
    - (* OLogin *)
      unfold check_authorization in Hstep. destruct (authorize_key parse st u k) eqn:Ea.
      + inversion Hstep; subst. simpl. split.
        * apply inv_login with (v := ViaFile); auto.
        * split; simpl; auto. eapply authorize_key_justified; eauto.
      + destruct (st_enabled st) eqn:En.
        * unfold authorize_key_authgrant in Hstep. rewrite En in Hstep.
          destruct (ag_lookup (st_agmap st) (u, k)) as [ags|] eqn:El; inversion Hstep; subst; simpl.
          -- split. apply inv_login_grant; auto. split; simpl; auto.
             rewrite <- (i_en _ _ Hinv). split; auto. split. eapply i_ne; eauto.
             pose proof (i_ag _ _ Hinv u k) as H. unfold lookup_list in H. rewrite El in H. exact H.
          -- split; [apply inv_neutral; simpl; auto|split; simpl; auto].
        * inversion Hstep; subst. split; [apply inv_neutral; simpl; auto|split; simpl; auto].
    - (* OExec *)
      destruct (nth_sess (st_sess st) sid) as [s|] eqn:En.
      2:{ inversion Hstep; subst. split; [apply inv_neutral; simpl; auto|split; simpl; auto]. }
      destruct (dispatch s 1 true) eqn:Ed;
        try (inversion Hstep; subst; split; [apply inv_neutral; simpl; auto|split; simpl; auto]; fail).
      destruct (s_using s) eqn:Eu.
      + destruct (check_cmd t cmd shell (s_actions s)) as [[g rest]|] eqn:Ec; inversion Hstep; subst.
        * destruct (inv_exec _ _ _ _ _ _ _ _ _ Hinv En Eu Ec) as [H1 H2]. split; auto. split; [simpl; auto|exact H2].
        * split; [apply inv_neutral; simpl; auto|split; simpl; auto].
      + inversion Hstep; subst. split. apply inv_neutral; simpl; auto. split. simpl; auto.
        eapply start_none_justified; eauto.
    - (* OPF *)
      destruct (nth_sess (st_sess st) sid) as [s|] eqn:En.
      2:{ inversion Hstep; subst. split; [apply inv_neutral; simpl; auto|split; simpl; auto]. }
      destruct (dispatch s 5 true) eqn:Ed;
        try (inversion Hstep; subst; split; [apply inv_neutral; simpl; auto|split; simpl; auto]; fail).
      destruct (s_using s) eqn:Eu; simpl in Hstep.
      { inversion Hstep; subst. split; [apply inv_neutral; simpl; auto|split; simpl; auto]. }
      inversion Hstep; subst. split. apply inv_neutral; simpl; auto. split. simpl; auto.
      eapply start_none_justified; eauto.
    - (* OIntent *)
      destruct (nth_sess (st_sess st) sid) as [s|] eqn:En.
      2:{ inversion Hstep; subst. split; [apply inv_neutral; simpl; auto|split; simpl; auto]. }
      destruct (dispatch s 2 true) eqn:Ed;
        try (inversion Hstep; subst; split; [apply inv_neutral; simpl; auto|split; simpl; auto]; fail).
      destruct (s_using s) eqn:Eu; simpl in Hstep.
      { inversion Hstep; subst. split; [apply inv_neutral; simpl; auto|split; simpl; auto]. }
      destruct (negb (st_enabled st)) eqn:Een.
      { inversion Hstep; subst. split; [apply inv_neutral; simpl; auto|split; simpl; auto]. }
      destruct (check_intent s i cert_ok wall).
      2:{ inversion Hstep; subst. split; [apply inv_neutral; simpl; auto|split; simpl; auto]. }
      unfold add_auth_grant in Hstep. rewrite Een in Hstep. inversion Hstep; subst.
      pose proof (inv_added _ _ i Hinv) as Hadd. simpl in Hadd.
      split.
      + change (tr ++ [EvAdded (new_grant (st_next st) i) (i_user i) (i_key i); EvStart sid (AIssue i) wall None])
          with (tr ++ [EvAdded (new_grant (st_next st) i) (i_user i) (i_key i)] ++ [EvStart sid (AIssue i) wall None]).
        rewrite app_assoc. apply inv_neutral; simpl; auto.
      + simpl. split. split; simpl; auto. split. simpl; auto.
        eapply start_none_justified with (s := s); eauto.
    - (* OTube *)
      destruct (nth_sess (st_sess st) sid) as [s|] eqn:En; inversion Hstep; subst;
        (split; [apply inv_neutral; simpl; auto|split; simpl; auto]).
  Qed.
End Inv.

(* ------------------------------------------------------------------ 7. all histories *)
Lemma all_justified_weaken : forall (J1 J2 : list event -> event -> Prop) tr,
    (forall tr e, J1 tr e -> J2 tr e) -> all_justified J1 tr -> all_justified J2 tr.
Proof. intros J1 J2 tr H A. induction A; constructor; auto. Qed.

Lemma all_justified_split : forall (J : list event -> event -> Prop) tr, all_justified J tr ->
    forall pre e post, tr = pre ++ e :: post -> J pre e.
Proof.
  intros J tr A. induction A as [|tr e A IH HJ]; intros pre e' post E.
  - destruct pre; discriminate.
  - destruct post as [|x post] using rev_ind.
    + apply app_inj_tail in E as [E1 E2]. subst. exact HJ.
    + clear IHpost. rewrite app_comm_cons in E. rewrite app_assoc in E.
      apply app_inj_tail in E as [E1 E2]. subst. eapply IH; eauto.
Qed.

Lemma all_justified_of_split : forall (J : list event -> event -> Prop) tr,
    (forall pre e post, tr = pre ++ e :: post -> J pre e) -> all_justified J tr.
Proof.
  intros J tr. induction tr as [|e tr IH] using rev_ind; intro H.
  - constructor.
  - constructor.
    + apply IH. intros pre e' post E. apply (H pre e' (post ++ [e])). subst. rewrite <- app_assoc. reflexivity.
    + apply (H tr e []). reflexivity.
Qed.

Section Main.
  Variable parse : bytes -> option key.

  Lemma run_snoc : forall ops o, run parse (ops ++ [o]) = exec1 parse (run parse ops) o.
  Proof. intros. unfold run, run_gen. rewrite fold_left_app. reflexivity. Qed.

  Lemma run_ok : forall ops, inv (final parse ops) (trace parse ops) /\ all_justified (J parse) (trace parse ops).
  Proof.
    induction ops as [|o ops IH] using rev_ind.
    - split. apply inv_init. constructor.
    - destruct IH as [Hinv Hall]. unfold final, trace in *. rewrite run_snoc. unfold exec1, exec1_gen.
      destruct (step_gen parse true (fst (run parse ops)) o) as [st' evs] eqn:Es. simpl.
      change (step_gen parse true) with (step parse) in Es.
      destruct (step_inv parse _ _ _ _ _ Hinv Es) as [H1 H2]. split; auto.
      destruct evs as [|e1 [|e2 [|e3 evs]]]; simpl in H2; try contradiction.
      + constructor; auto.
      + destruct H2 as [Ha Hb].
        change (snd (run parse ops) ++ [e1; e2]) with (snd (run parse ops) ++ [e1] ++ [e2]).
        rewrite app_assoc. constructor; auto. constructor; auto.
  Qed.

  Lemma run_inv : forall ops, inv (final parse ops) (trace parse ops).
  Proof. intro; apply run_ok. Qed.

  (* ---------------- C05 ---------------- *)
  Theorem login_sound : forall ops, all_justified (login_justified parse) (trace parse ops).
  Proof.
    intro ops. eapply all_justified_weaken; [|apply run_ok]. intros tr e [H _]; exact H.
  Qed.

  Theorem login_sound_at : forall ops pre e post,
      trace parse ops = pre ++ e :: post -> login_justified parse pre e.
  Proof. intros. eapply all_justified_split; eauto. apply login_sound. Qed.

  Theorem fail_closed : forall st u k,
      authorize_key parse st u k = true ->
      exists c ks, file_of st u = FFile c /\ parse_authorized_keys parse c = Ok ks /\ In k ks /\ In k (wf_entries parse c).
  Proof.
    intros st u k H. unfold authorize_key in H.
    destruct (file_of st u) as [| | |c]; simpl in H; try discriminate.
    destruct (parse_authorized_keys parse c) as [ks| |] eqn:E; try discriminate.
    exists c, ks. repeat split; auto. apply allowed_In; auto.
    eapply parse_authorized_keys_sound; eauto. apply allowed_In; auto.
  Qed.

  Corollary fail_closed_cases : forall st u k,
      (file_of st u = FNoUser \/ file_of st u = FMissing \/ file_of st u = FDir \/
       (exists c, file_of st u = FFile c /\
                  (wf_entries parse c = [] \/ parse_authorized_keys parse c = Err \/
                   exists pre l post, split_nl c = pre ++ l :: post /\
                                      Forall (fun x => len x < max_token) pre /\ bad_line parse l))) ->
      authorize_key parse st u k = false.
  Proof.
    intros st u k H. destruct (authorize_key parse st u k) eqn:E; auto.
    apply fail_closed in E as [c [ks [Hf [Hp [Hin Hw]]]]].
    destruct H as [H|[H|[H|[c' [Hf' H]]]]]; try congruence.
    rewrite Hf in Hf'. inversion Hf'; subst c'.
    destruct H as [H|[H|[pre [l [post [Hs [Hpre Hbad]]]]]]].
    - rewrite H in Hw. contradiction.
    - congruence.
    - unfold parse_authorized_keys in Hp. rewrite Hs in Hp. rewrite parse_lines_bad in Hp; auto. discriminate.
  Qed.

  (* after grants were handed out for u:k nothing is left for u:k, in the map, the key set, the spec *)
  Theorem grant_consumed_login : forall ops u k st' sid ags,
      step parse (final parse ops) (OLogin u k) = (st', [EvLogin sid u k (ViaGrant ags)]) ->
      ag_lookup (st_agmap st') (u, k) = None /\ key_mem (st_keys st') k = false /\
      unconsumed (trace parse ops ++ [EvLogin sid u k (ViaGrant ags)]) u k = [].
  Proof.
    intros ops u k st' sid ags H. pose proof (run_inv ops) as Hinv.
    unfold step, step_gen, check_authorization in H.
    destruct (authorize_key parse (final parse ops) u k).
    { inversion H. }
    destruct (st_enabled (final parse ops)) eqn:En.
    2:{ inversion H. }
    unfold authorize_key_authgrant in H. rewrite En in H.
    destruct (ag_lookup (st_agmap (final parse ops)) (u, k)) eqn:El; inversion H; subst. simpl.
    repeat split.
    - apply ag_lookup_del_same. apply (i_nd _ _ Hinv).
    - apply key_mem_del.
    - rewrite unconsumed_snoc. rewrite uk_eqb_refl. reflexivity.
  Qed.

  Theorem grant_consumed_api : forall ops u k st' ags,
      step parse (final parse ops) (OApiGrant u k) = (st', [EvApiGrant u k (Some ags)]) ->
      ag_lookup (st_agmap st') (u, k) = None /\ key_mem (st_keys st') k = false /\
      unconsumed (trace parse ops ++ [EvApiGrant u k (Some ags)]) u k = [].
  Proof.
    intros ops u k st' ags H. pose proof (run_inv ops) as Hinv.
    unfold step, step_gen, authorize_key_authgrant in H.
    destruct (st_enabled (final parse ops)) eqn:En.
    2:{ inversion H. }
    destruct (ag_lookup (st_agmap (final parse ops)) (u, k)) eqn:El; inversion H; subst. simpl.
    repeat split.
    - apply ag_lookup_del_same. apply (i_nd _ _ Hinv).
    - apply key_mem_del.
    - rewrite unconsumed_snoc. rewrite uk_eqb_refl. reflexivity.
  Qed.

  (* the grant map of the code is, at every moment, exactly the unconsumed grants of the history *)
  Theorem agmap_refines : forall ops u k,
      match ag_lookup (st_agmap (final parse ops)) (u, k) with Some l => l | None => [] end
      = unconsumed (trace parse ops) u k.
  Proof. intros. apply (i_ag _ _ (run_inv ops)). Qed.

  Theorem disabled_never_grants : forall ops pre e post,
      trace parse ops = pre ++ e :: post -> enabled_at pre = false ->
      match e with
      | EvLogin _ _ _ (ViaGrant _) => False
      | EvApiGrant _ _ (Some _) => False
      | _ => True
      end.
  Proof.
    intros ops pre e post E En. pose proof (login_sound_at _ _ _ _ E) as H.
    destruct e; auto.
    - destruct r; auto. simpl in H. destruct H as [H _]. congruence.
    - destruct v; auto. simpl in H. destruct H as [H _]. congruence.
  Qed.

  (* ---------------- C07 ---------------- *)
  Theorem actions_justified : forall ops, all_justified (start_justified scope_all) (trace parse ops).
  Proof.
    intro ops. eapply all_justified_weaken; [|apply run_ok]. intros tr e [_ H]; exact H.
  Qed.

  Theorem exec_needs_live_grant : forall ops pre sid cmd shell t used post u k ags,
      trace parse ops = pre ++ EvStart sid (AExec cmd shell) t used :: post ->
      login_of pre sid = Some (u, k, ViaGrant ags) ->
      exists g, used = Some g /\ In g ags /\ In (EvAdded g u k) pre /\
                authorizes g (AExec cmd shell) t /\ ~ In (g_id g) (used_ids pre).
  Proof.
    intros ops pre sid cmd shell t used post u k ags E Hl.
    pose proof (all_justified_split _ _ (actions_justified ops) _ _ _ E) as H.
    simpl in H. rewrite Hl in H. apply H. reflexivity.
  Qed.

  Theorem single_use : forall ops, NoDup (used_ids (trace parse ops)).
  Proof. intro. apply (i_used_nd _ _ (run_inv ops)). Qed.

  Theorem ids_unique : forall ops, NoDup (added_ids (trace parse ops)).
  Proof. intro. apply (i_added_nd _ _ (run_inv ops)). Qed.

  (* a session only ever holds grants stored for exactly its user and key *)
  Theorem key_bound : forall ops pre sid u k ags post g,
      trace parse ops = pre ++ EvLogin sid u k (ViaGrant ags) :: post ->
      In g ags -> In (EvAdded g u k) pre.
  Proof.
    intros ops pre sid u k ags post g E Hg.
    pose proof (login_sound_at _ _ _ _ E) as H. simpl in H. destruct H as [_ [_ H]].
    apply unconsumed_added. rewrite <- H. exact Hg.
  Qed.
End Main.

(* grants counted as unconsumed were all added after the last hand-out for that user and key *)
Lemma unconsumed_after_handout : forall a h b u k,
    (exists sid ags, h = EvLogin sid u k (ViaGrant ags)) \/ (exists ags, h = EvApiGrant u k (Some ags)) ->
    unconsumed (a ++ h :: b) u k = unconsumed b u k.
Proof.
  intros a h b u k H. unfold unconsumed. rewrite fold_left_app. simpl.
  assert (E: forall acc, (match h with
          | EvAdded g u' k' => if uk_eqb (u', k') (u, k) then acc ++ [g] else acc
          | EvApiGrant u' k' (Some _) => if uk_eqb (u', k') (u, k) then [] else acc
          | EvLogin _ u' k' (ViaGrant _) => if uk_eqb (u', k') (u, k) then [] else acc
          | _ => acc end) = []).
  { intro acc. destruct H as [[sid [ags H]]|[ags H]]; subst h; rewrite uk_eqb_refl; reflexivity. }
  rewrite E. reflexivity.
Qed.

(* two stored grants with the same serial are the same event *)
Lemma added_ids_functional : forall tr g u k g' u' k',
    NoDup (added_ids tr) -> In (EvAdded g u k) tr -> In (EvAdded g' u' k') tr -> g_id g = g_id g' ->
    EvAdded g u k = EvAdded g' u' k'.
Proof.
  induction tr as [|e tr IH]; simpl; intros g u k g' u' k' Hnd H1 H2 Hid; [contradiction|].
  assert (Hin: forall g u k, In (EvAdded g u k) tr -> In (g_id g) (added_ids tr)).
  { clear. induction tr as [|e tr IH]; simpl; intros g u k H; [contradiction|].
    destruct H as [H|H]. subst; simpl; auto.
    destruct e; try (eapply IH; eauto). simpl. right. eapply IH; eauto. }
  destruct H1 as [H1|H1], H2 as [H2|H2].
  - congruence.
  - subst e. simpl in Hnd. apply NoDup_cons_iff in Hnd as [Hn _]. exfalso. apply Hn. rewrite Hid. eapply Hin; eauto.
  - subst e. simpl in Hnd. apply NoDup_cons_iff in Hnd as [Hn _]. exfalso. apply Hn. rewrite <- Hid. eapply Hin; eauto.
  - apply IH; auto. destruct e; auto. simpl in Hnd. apply NoDup_cons_iff in Hnd as [_ Hn]. exact Hn.
Qed.

(* ------------------------------------------------------------------ 8. what a line is *)
Definition join_nl (ls : list bytes) : bytes := List.concat (map (fun l => l ++ [10]) ls).

Lemma frev_rev : forall l, frev l = rev l.
Proof. intro. unfold frev. rewrite rev_append_rev. apply app_nil_r. Qed.

Lemma split_nl_acc_spec : forall l cur,
    ~ In 10 cur ->
    (exists suffix, (suffix = [] \/ suffix = [10]) /\ join_nl (split_nl_acc cur l) = rev cur ++ l ++ suffix) /\
    Forall (fun x => ~ In 10 x) (split_nl_acc cur l).
Proof.
  induction l as [|b r IH]; intros cur Hc; simpl.
  - destruct cur as [|c cur'].
    + split; [exists []; split; auto|constructor].
    + split.
      * exists [10]. split; auto. unfold join_nl. simpl. rewrite frev_rev. simpl. rewrite app_nil_r. reflexivity.
      * constructor; [|constructor]. rewrite frev_rev. intro H. apply in_rev in H. contradiction.
  - destruct (b =? 10) eqn:E.
    + apply N.eqb_eq in E. subst b.
      destruct (IH [] (fun H => H)) as [[suffix [Hs Hj]] Hf]. split.
      * exists suffix. split; auto. unfold join_nl in *. simpl. rewrite Hj. rewrite frev_rev. simpl.
        rewrite <- app_assoc. reflexivity.
      * constructor; auto. rewrite frev_rev. intro H. apply in_rev in H. contradiction.
    + apply N.eqb_neq in E.
      assert (Hc': ~ In 10 (b :: cur)). { intros [H|H]; [congruence|contradiction]. }
      destruct (IH (b :: cur) Hc') as [[suffix [Hs Hj]] Hf]. split; auto.
      exists suffix. split; auto. rewrite Hj. simpl. rewrite <- app_assoc. reflexivity.
Qed.

(* the lines of a file: no line contains '\n', and joining them with '\n' gives the file back
   (up to the terminator of the last line) *)
Theorem split_nl_spec : forall c,
    (exists suffix, (suffix = [] \/ suffix = [10]) /\ join_nl (split_nl c) = c ++ suffix) /\
    Forall (fun x => ~ In 10 x) (split_nl c).
Proof. intro c. apply (split_nl_acc_spec c [] (fun H => H)). Qed.

(* ------------------------------------------------------------------ 9. C07 extras *)
Section C07Extras.
  Variable parse : bytes -> option key.

  (* a grant that is still anywhere on the server (map or a session) has never been used *)
  Theorem stored_grants_unused : forall ops g,
      In g (live (final parse ops)) -> ~ In (g_id g) (used_ids (trace parse ops)).
  Proof.
    intros ops g H. destruct (i_live _ _ (run_inv parse ops)) as [_ [_ Hu]]. apply Hu; auto.
  Qed.

  Theorem session_grants_unused : forall ops sid s g,
      nth_sess (st_sess (final parse ops)) sid = Some s -> In g (s_actions s) ->
      ~ In (g_id g) (used_ids (trace parse ops)).
  Proof.
    intros ops sid s g Hn Hg. apply stored_grants_unused. unfold live. apply in_or_app; right.
    eapply nth_error_in_flat; eauto.
  Qed.

  Theorem map_grants_unused : forall ops u k l g,
      ag_lookup (st_agmap (final parse ops)) (u, k) = Some l -> In g l ->
      ~ In (g_id g) (used_ids (trace parse ops)).
  Proof.
    intros ops u k l g Hl Hg. apply stored_grants_unused. unfold live. apply in_or_app; left.
    eapply lookup_in_flat; eauto.
  Qed.

  (* a further grant is stored through an authgrant tube only under checkIntent's policy *)
  Theorem issue_conditions : forall st sid i cert_ok wall st' evs,
      step parse st (OIntent sid i cert_ok wall) = (st', evs) ->
      In (EvStart sid (AIssue i) wall None) evs ->
      exists s, nth_sess (st_sess st) sid = Some s /\ s_using s = false /\ st_enabled st = true /\
                (wall <= i_exp i)%Z /\ s_user s = i_user i /\ cert_ok = true /\ 1 <= i_type i <= 4.
  Proof.
    intros st sid i cert_ok wall st' evs H Hin. unfold step, step_gen in H.
    destruct (nth_sess (st_sess st) sid) as [s|] eqn:En.
    2:{ inversion H; subst. simpl in Hin. destruct Hin as [Hc|[]]; discriminate. }
    exists s. split; auto.
    destruct (dispatch s 2 true) eqn:Ed;
      try (inversion H; subst; simpl in Hin; destruct Hin as [Hc|[]]; discriminate).
    destruct (s_using s) eqn:Eus; simpl in H.
    { inversion H; subst. simpl in Hin. destruct Hin as [Hc|[]]; discriminate. }
    split; auto.
    destruct (st_enabled st) eqn:Een; simpl in H.
    2:{ inversion H; subst. simpl in Hin. destruct Hin as [Hc|[]]; discriminate. }
    split; auto.
    destruct (check_intent s i cert_ok wall) eqn:Ec.
    2:{ inversion H; subst. simpl in Hin. destruct Hin as [Hc|[]]; discriminate. }
    unfold check_intent in Ec.
    destruct (i_exp i <? wall)%Z eqn:E1; [discriminate|].
    destruct (beq_bytes (s_user s) (i_user i)) eqn:E2; simpl in Ec; [|discriminate].
    destruct cert_ok; simpl in Ec; [|discriminate].
    apply andb_true_iff in Ec as [E3 E4]. apply N.leb_le in E3, E4.
    apply Z.ltb_ge in E1. apply beq_bytes_eq in E2. repeat split; auto.
  Qed.
End C07Extras.

(* ------------------------------------------------------------------ 10. what a delegate session starts *)
Lemma step_start_shape : forall parse b st o st' evs sid a t used,
    step_gen parse b st o = (st', evs) -> In (EvStart sid a t used) evs ->
    match a with AExec _ _ => True | _ => used = None end.
Proof.
  intros parse b st o st' evs sid a t used H Hin. destruct a; auto;
    destruct o; unfold step_gen in H;
    repeat match type of H with
           | context [match ?x with _ => _ end] => destruct x eqn:?
           end;
    inversion H; subst; simpl in Hin;
    repeat match type of Hin with
           | _ \/ _ => destruct Hin as [Hin|Hin]
           | False => contradiction
           end; try discriminate; try (inversion Hin; reflexivity).
Qed.

Lemma trace_start_shape : forall parse b ops sid a t used,
    In (EvStart sid a t used) (snd (run_gen parse b ops)) ->
    match a with AExec _ _ => True | _ => used = None end.
Proof.
  intros parse b ops. induction ops as [|o ops IH] using rev_ind; intros sid a t used Hin.
  - simpl in Hin. contradiction.
  - unfold run_gen in *. rewrite fold_left_app in Hin. simpl in Hin. unfold exec1_gen at 1 in Hin.
    destruct (step_gen parse b (fst (fold_left (exec1_gen parse b) ops (init_state, []))) o) as [st' evs] eqn:Es.
    simpl in Hin. apply in_app_or in Hin as [Hin|Hin].
    + apply (IH sid a t used Hin).
    + eapply step_start_shape; eauto.
Qed.

(* a session admitted through grants never starts port forwarding and never gets a grant stored:
   everything it starts is a shell or a command *)
Theorem delegate_starts_only_exec : forall parse ops pre sid a t used post u k ags,
    trace parse ops = pre ++ EvStart sid a t used :: post ->
    login_of pre sid = Some (u, k, ViaGrant ags) ->
    exists cmd shell, a = AExec cmd shell.
Proof.
  intros parse ops pre sid a t used post u k ags E Hl.
  pose proof (all_justified_split _ _ (actions_justified parse ops) _ _ _ E) as H.
  simpl in H. rewrite Hl in H. destruct (H eq_refl) as [g [Hu [_ [_ [Ha _]]]]].
  destruct a as [cmd shell| |i].
  - eauto.
  - assert (Hs: In (EvStart sid APF t used) (trace parse ops)).
    { rewrite E. apply in_or_app; right; left; reflexivity. }
    apply (trace_start_shape parse true ops) in Hs. simpl in Hs. congruence.
  - destruct Ha as [_ []].
Qed.

(* a session whose grants are all outside their window (expired before, or not yet effective at,
   the request) starts nothing: every started action has a grant of the session whose window
   contains the clock value *)
Theorem start_needs_grant_in_window : forall parse ops pre sid a t used post u k ags,
    trace parse ops = pre ++ EvStart sid a t used :: post ->
    login_of pre sid = Some (u, k, ViaGrant ags) ->
    exists g, In g ags /\ (g_start g <= t < g_exp g)%Z.
Proof.
  intros parse ops pre sid a t used post u k ags E Hl.
  destruct (delegate_starts_only_exec _ _ _ _ _ _ _ _ _ _ _ E Hl) as (cmd & shell & ->).
  destruct (exec_needs_live_grant _ _ _ _ _ _ _ _ _ _ _ _ E Hl) as (g & _ & Hin & _ & (Hw & _) & _).
  eauto.
Qed.
