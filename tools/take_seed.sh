#!/bin/bash
# usage: take_seed.sh <lower id e.g. c06-2> "<pkgs for existing tests>" <Cxx...>
# saves /tmp/seed-<id>/SEED into /verif/seeded/<ID>, removes the seeder's worktree, verifies the 4 facts, runs the checks
s=$1; S=$(echo $s | tr a-z A-Z); pk=$2; shift 2
mkdir -p /verif/seeded/$S && cp -r /tmp/seed-$s/SEED/* /verif/seeded/$S/ && rm -f /verif/seeded/$S/go.mod /verif/seeded/$S/*.diff.orig
git -C /repo worktree remove --force /tmp/seed-$s 2>/dev/null; git -C /repo branch -D -q seed-$s 2>/dev/null
LINES_OUT=${LINES_OUT:-9} /verif/tools/verify_seeded.sh $S "$pk"
/verif/tools/seed_vs.sh $S "$@"
