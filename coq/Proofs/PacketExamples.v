(* PacketExamples.v — a toy AEAD and concrete worlds showing that the hypotheses of the C03/C15 theorems
   are satisfiable by non-trivial instances (referenced from Properties/C03.v, C15.v). *)
From Hop Require Import Base Replay ReplayProofs Packet PacketProofs.
From Coq Require Import ZifyN ZifyNat ZifyBool.
Open Scope N_scope.

Definition toy_sum (l : bytes) : N := fold_left N.add l 0.
Definition toy_tag (k ad p : bytes) : bytes :=
  repeat ((toy_sum k + 3 * toy_sum ad + 7 * toy_sum p + len p) mod 256) 32.
Definition toy_seal (k ad p : bytes) : bytes := p ++ toy_tag k ad p.
Definition toy_open (k ad c : bytes) : option bytes :=
  if len c <? 32 then None
  else let p := take (len c - 32) c in
       if beq_bytes (drop (len c - 32) c) (toy_tag k ad p) then Some p else None.

Lemma toy_tag_len k ad p : len (toy_tag k ad p) = 32.
Proof. unfold toy_tag, len. now rewrite repeat_length. Qed.

Lemma toy_seal_len k ad p : len (toy_seal k ad p) = tag_len + len p.
Proof. unfold toy_seal. rewrite len_app, toy_tag_len. unfold tag_len. lia. Qed.

Lemma toy_open_seal k ad p : toy_open k ad (toy_seal k ad p) = Some p.
Proof.
  unfold toy_open. rewrite toy_seal_len. unfold tag_len.
  replace (32 + len p <? 32) with false by lia.
  replace (32 + len p - 32) with (len p) by lia. unfold toy_seal.
  rewrite take_app_exact, drop_app_exact, beq_bytes_refl. reflexivity.
Qed.

(* two ends of one session; a third endpoint on another session id with other keys *)
Definition kAB : bytes := [1; 2; 3; 4; 5; 6; 7; 8; 9; 10; 11; 12; 13; 14; 15; 16].
Definition kBA : bytes := [101; 102; 103; 104; 105; 106; 107; 108; 109; 110; 111; 112; 113; 114; 115; 116].
Definition kC : bytes := repeat 77 16.
Definition exA : sess := mkSess [1; 2; 3; 4] kAB (Some kBA) 5 win_init [] 8 [] false 1.
Definition exB : sess := mkSess [1; 2; 3; 4] kBA (Some kAB) 0 win_init [] 8 [] false 2.
Definition exC : sess := mkSess [9; 9; 9; 9] kC (Some kC) 0 win_init [] 8 [] false 3.

Lemma ex_in_sync : in_sync exA exB.
Proof. unfold in_sync. repeat split; vm_compute; congruence. Qed.

(* the datagram A emits for the message [9; 9], a replay of it, and a one-bit forgery *)
Definition ex_pkt : bytes := Eval vm_compute in wire_image toy_seal exA mt_transport 5 [9; 9].
Definition ex_forged : bytes := Eval vm_compute in (firstn 17 ex_pkt ++ [8] ++ skipn 18 ex_pkt).
Definition ex_close : bytes := Eval vm_compute in wire_image toy_seal exA mt_control 6 [1].

Definition ex_history : list ev :=
  [EvIn 3 ex_pkt; EvIn 4 ex_pkt; EvIn 4 ex_forged; EvSend mt_transport [7]; EvReadMsg 100; EvReadMsg 100].

Lemma ex_auth_below : auth_below toy_open (key_recv exB) ex_history.
Proof. unfold ex_history. repeat constructor; intros; vm_compute; reflexivity. Qed.

Example ex_history_runs :
  snd (ep_run toy_seal toy_open 100 exB ex_history) =
  [ObIn ODelivered; ObIn ORejected; ObIn ORejected;
   ObSent [(wire_image toy_seal exB mt_transport 0 [7], 3)] 1 false; ObRd (RData [9; 9]); ObRd RBlock].
Proof. vm_compute. reflexivity. Qed.

(* a system run: A sends, the adversary delivers it to B, replays it, forges, reflects it to A, injects it
   into C, A sends a close, B gets it, B reads *)
Definition ex_sys : sys :=
  mkSys (fun n => match n with 0%nat => exA | 1%nat => exB | _ => exC end) [] [].
Definition ex_run : list sev :=
  [SSend 0 mt_transport [9; 9]; SIn 1 3 ex_pkt; SIn 1 4 ex_pkt; SIn 1 4 ex_forged; SIn 0 2 ex_pkt; SIn 2 2 ex_pkt;
   SSend 0 mt_control [1]; SLocal 1 (EvReadMsg 100); SIn 1 4 ex_close].

Lemma ex_sys_init : sys_init_ok ex_sys (length ex_run).
Proof.
  unfold sys_init_ok. repeat split; destruct i as [|[|i]]; vm_compute; reflexivity.
Qed.

Lemma ex_int_ctxt : int_ctxt_run toy_seal toy_open ex_sys ex_run.
Proof.
  unfold ex_run. cbn [int_ctxt_run].
  repeat split; try exact I;
    intros k p Hk Ho; vm_compute in Hk; inversion Hk; subst k; vm_compute in Ho;
    try discriminate; inversion Ho; subst p; vm_compute;
    eexists; (split; [left; reflexivity|repeat split; reflexivity]) ||
             (split; [right; left; reflexivity|repeat split; reflexivity]).
Qed.

Example ex_run_delivers :
  dlog (sys_run toy_seal toy_open ex_sys ex_run) = [(1%nat, mt_control, 6, [1]); (1%nat, mt_transport, 5, [9; 9])] /\
  closed (eps (sys_run toy_seal toy_open ex_sys ex_run) 1) = true /\
  remote (eps (sys_run toy_seal toy_open ex_sys ex_run) 1) = 4.
Proof. vm_compute. repeat split; reflexivity. Qed.

(* faithful network: a 7-byte write with max = 3 arrives as three messages *)
Example ex_write_delivered :
  match write toy_seal 3 exA [10; 11; 12; 13; 14; 15; 16] with
  | Some w =>
    match feed toy_open exB 9 (map fst (w_out w)) with
    | Ok (B', os) => w_n w = 7 /\ w_err w = false /\ queue B' = [[10; 11; 12]; [13; 14; 15]; [16]] /\
                     os = [ODelivered; ODelivered; ODelivered] /\ remote B' = 9
    | _ => False
    end
  | None => False
  end.
Proof. vm_compute. repeat split; reflexivity. Qed.

Example ex_write_chunks : write_chunks 3 [1; 2; 3; 4; 5; 6; 7] = Some ([[1; 2; 3]; [4; 5; 6]; [7]], 7).
Proof. vm_compute. reflexivity. Qed.
