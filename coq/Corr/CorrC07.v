(* Correspondence entry point for C07: histories of grant additions, logins and exec /
   port-forwarding / intent requests, run on a real HopServer at two levels (real checkCmd on the
   session object produced by the real checkAuthorization; real hopSession.start over an in-memory
   tube muxer). Same case format and checker as C05. *)
From Hop Require Export Base Authz AuthzCorr.
Definition c07_ok := authz_ok.
