//go:build !race

package main

func raceNote() string { return "NOT built with -race" }
