(* Correspondence entry point for C14: a case is an op list and the Check results the Go
   SlidingWindow returned on it. *)
From Hop Require Import Base Replay.
Open Scope N_scope.
Definition M (c : N) := RMark c.
Definition C (c : N) := RCheck c.
Definition c14_case := (list rop * list bool)%type.
Definition c14_ok (c : c14_case) : bool :=
  beq_list Bool.eqb (run_ops win_init (fst c)) (snd c).
(* accept-history form: counters pushed through a real SessionState.readPacketLocked *)
Definition c14h_case := (list N * list bool)%type.
Definition c14h_ok (c : c14h_case) : bool :=
  beq_list Bool.eqb (run_accept win_init (fst c)) (snd c).

(* histories through the real receive path: (counter, authentic?) per datagram; a packet that does
   not authenticate is rejected and leaves the window unchanged (readPacketLocked marks only after a
   successful open — the ordering itself is C03's model, Packet.read_packet) *)
Definition c14t_case := (list (N * bool) * list bool)%type.
Definition c14t_ok (c : c14t_case) : bool :=
  beq_list Bool.eqb (run_through win_init (fst c)) (snd c).
