// c19: correspondence driver for C19 (server stateless before a valid cookie; silent in hidden mode).
package main

import (
	"github.com/sirupsen/logrus"
	"verifharness/hsx"
	"verifharness/hv"
)

func main() {
	defer hv.Flush()
	logrus.SetLevel(logrus.PanicLevel)
	r := hv.NewRand(hv.Seed())
	w := hsx.NewWorld()
	w.C19Discoverable(r)
	wait := w.C19RealRotationStart()
	w.C19ForgedCookies(r)
	w.C19Hidden(r)
	wait()
}
