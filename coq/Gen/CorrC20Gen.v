(* CorrC20Gen.v — the Glob entry points of Corr/CorrC20.v, same names and case types, evaluating the
   code GENERATED from pkg/glob/glob.go instead of the hand-written model (check's "regen" step runs
   the driver's Glob cases through these as well). *)
From Hop Require Export Base Glob CorrC20.
From Hop Require Import GoSem.
From Hop Require GlobGen.
Open Scope N_scope.

Definition c20_glob_ok (c : c20_glob_case) : bool :=
  let '(p, s, o) := c in bcode (GlobGen.Glob p s) =? o.

Definition c20_exh_ok (c : c20_exh_case) : bool :=
  let '(p, alpha, n, codes) := c in
  beq_bytes (map (fun s => bcode (GlobGen.Glob p s)) (all_strings alpha (N.to_nat n))) codes.
