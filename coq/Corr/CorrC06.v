(* Correspondence entry points for C06.  A case carries the table of the intents that occur in it,
   the scripted history (intents by table index), and what the real Go code was observed to do,
   request by request; the checker runs the model on the history and compares event by event. *)
From Hop Require Import Base Principal.
Open Scope N_scope.

Definition IN := mkIntent.

(* the three delegate certificates most generated intents carry (same constants in harness/cmd/c06/wire.go;
   any other certificate is written out in full) - keeps the generated case files small *)
Definition CERT0 : bytes := hex "0101000001020304050607080fedcba0987654329c9f4163ca8ebe2c25b4f20ba7194b5f8cce7dad64acaff8186bb70125160abfd1bc9ca6c7890a6ae251ee1462680625b832af9d0822dd68b99654cfafeee3fd001513011064656c65676174652e6578616d706c6587272385579e888291108efe8c17f44a320f1dddb6e8997705dcee6b7c1c2694d4d7495338fba6dde6d78b83ed4f4f804f698e74abb86591aa1fc64409594b73".
Definition CERT1 : bytes := hex "0202000001020304050607090fedcba0987654313d08186c518b501f5bed43a749500d2b814475bc09c755335d2c9da60310b395a7e64b1d8f42e11ca5e984d673adb0703a164b0872d12eb2a6004616abb2b2dd000d040101640702040a0000075dd24b640677316df6e443997c443cc18a23b8df951871b1c4fab4263466c1a3f5b92aab2ce59ec6ab84ff3c7cc6c896c520f3afc9fa79d82054bdc3665e4624".
Definition CERT2 : bytes := hex "01030000010203040506070a0fedcba098765430e2aef9ad3b7111ca9fea5fd3118b21e3307300a35ab33558308bdec74273c0fac8fe5d507f207a382123d83514cfc112fdf25d7f2475d37cda0efddbd730db37000246ec2ecf430541671f29314deae47b8b1bcd7a2a6d120045b758615bf046fb06ebfeeff3fadd6bba79d0b6a975a4d803afb78907a57b31eb07b6533e8661419a".

(* frequent field values of generated intents (same table in harness/cmd/c06/wire.go): case files stay small;
   anything else is written out *)
Definition S1 : bytes := hex "746172676574".
Definition S2 : bytes := hex "742e6578616d706c65".
Definition S3 : bytes := hex "74".
Definition S0 : bytes := hex "".
Definition S4 : bytes := hex "75736572".
Definition S5 : bytes := hex "726f6f74".
Definition S6 : bytes := hex "7532".
Definition S7 : bytes := hex "6563686f206869".
Definition S8 : bytes := hex "7375646f207265626f6f74".
Definition S9 : bytes := hex "6c73202d6c61202f".
Definition S10 : bytes := hex "6563686f2068656c6c6f20776f726c64".
Definition T1 : N := 1700000000.
Definition T2 : N := 1700003600.
Definition T3 : N := 4611686018427387907.
Definition T4 : N := 9223372036854775807.

(* scripted inputs *)
Definition SE := SetupEarlyFail.
Definition SC := SetupCb.
Definition TC := TConfirm.
Definition TD := TDeny.
Definition TG := TGarbage.
Definition TR := TReadFail.
Definition TW := TWriteFail.
Inductive creq := R (idx : N) (dec : bool) (su : setup_res) (rep : treply).
Inductive cereq := E (idx : N) (dec : bool) (su : setup_res) (chk add : bool).
Inductive cmsg := M (idx : N) (chk add : bool) | MB.

(* observed events *)
Inductive oev :=
| OS (urlok : bool)                      (* setup function called; was it given the intent's target URL *)
| OC (idx : N) (c : option N) (ok : bool) (* approval callback: intent it was given, certificate, its answer *)
| OT (idx : N)                           (* a complete intent communication written on the target connection *)
| OTF                                    (* a write on the target connection that failed *)
| OPA                                    (* the scripted target acts on a communication it read: answers, or closes instead *)
| OX                                     (* bytes that do not parse *)
| OD (conf : bool)                       (* answer written on the delegate connection *)
| OTC (idx : N) (pcert ok : bool)        (* target.checkIntent *)
| OTA (idx : N) (ok : bool)              (* target.addAuthGrant *)
| OTR (conf : bool).                     (* answer written by the target instance *)

Definition dummy : intent := mkIntent 0 0 0 0 0 0 [] [] [] [].
Definition look (tb : list intent) (idx : N) : option intent := nth_error tb (N.to_nat idx).
Definition look_is (tb : list intent) (idx : N) (i : intent) : bool :=
  match look tb idx with Some j => intent_eqb i j | None => false end.

Definition opt_eqb (a b : option N) : bool :=
  match a, b with Some x, Some y => x =? y | None, None => true | _, _ => false end.
Definition dm (m : dmsg) : bool := match m with DConf => true | DDeny => false end.

Definition ev_match (tb : list intent) (want : url) (e : event) (o : oev) : bool :=
  match e, o with
  | SetupCall u, OS ok => ok && url_eqb u want
  | Callback i c r, OC idx c' r' => look_is tb idx i && opt_eqb c c' && Bool.eqb r r'
  | ToTarget i true, OT idx => look_is tb idx i
  | ToTarget _ false, OTF => true
  | ToDelegate m, OD b => Bool.eqb (dm m) b
  | _, _ => false
  end.
Definition tev_match (tb : list intent) (e : tevent) (o : oev) : bool :=
  match e, o with
  | TCheck i r, OTC idx pc r' => pc && look_is tb idx i && Bool.eqb r r'
  | TAdd i r, OTA idx r' => look_is tb idx i && Bool.eqb r r'
  | TReply m, OTR b => Bool.eqb (dm m) b
  | _, _ => false
  end.
Definition sev_match (tb : list intent) (want : url) (e : sevent) (o : oev) : bool :=
  match e with PE e' => ev_match tb want e' o | TE e' => tev_match tb e' o end.

Fixpoint all2 {A B} (f : A -> B -> bool) (a : list A) (b : list B) : bool :=
  match a, b with
  | [], [] => true
  | x :: a', y :: b' => f x y && all2 f a' b'
  | _, _ => false
  end.

(* One request's model trace against the observed events.  In the model the answer to the delegate is computed
   from the target's reply, i.e. after the target acted: a delivered communication must therefore be followed by
   the scripted target's action (OPA) before anything else the principal does. *)
Fixpoint p_match (tb : list intent) (want : url) (tr : list event) (o : list oev) : bool :=
  match tr with
  | [] => match o with [] => true | _ => false end
  | ToTarget i true :: tr' =>
      match o with
      | OT idx :: OPA :: o' => look_is tb idx i && p_match tb want tr' o'
      | _ => false
      end
  | e :: tr' =>
      match o with
      | x :: o' => ev_match tb want e x && p_match tb want tr' o'
      | [] => false
      end
  end.

(* the model run, request by request, against the observation; every table index must resolve *)
Fixpoint p_compare (tb : list intent) (st : pstate) (rs : list creq) (obs : list (list oev)) : bool :=
  match rs, obs with
  | [], [] => true
  | R idx dec su rep :: rs', o :: obs' =>
      match look tb idx with
      | None => false
      | Some i =>
          let '(st', tr) := principal_step st (mkReq i dec su rep) in
          p_match tb (target_url i) tr o && p_compare tb st' rs' obs'
      end
  | _, _ => false
  end.
Definition c06p_case := (list intent * list creq * list (list oev) * N)%type.
(* typed builders: the generated files apply these instead of writing bare tuples (elaborates several times faster) *)
Definition PC (tb : list intent) (rs : list creq) (obs : list (list oev)) (ab : N) : c06p_case := (tb, rs, obs, ab).
Definition c06p_ok (c : c06p_case) : bool :=
  let '(tb, rs, obs, abnormal) := c in (abnormal =? 0) && p_compare tb p_init rs obs.

Fixpoint e_compare (tb : list intent) (st : pstate * tstate) (rs : list cereq) (obs : list (list oev)) : bool :=
  match rs, obs with
  | [], [] => true
  | E idx dec su chk add :: rs', o :: obs' =>
      match look tb idx with
      | None => false
      | Some i =>
          let '(st', tr) := system_step st (mkE i dec su chk add) in
          all2 (sev_match tb (target_url i)) tr o && e_compare tb st' rs' obs'
      end
  | _, _ => false
  end.
Definition c06e_case := (list intent * list cereq * list (list oev) * N)%type.
Definition EC (tb : list intent) (rs : list cereq) (obs : list (list oev)) (ab : N) : c06e_case := (tb, rs, obs, ab).
Definition c06e_ok (c : c06e_case) : bool :=
  let '(tb, rs, obs, abnormal) := c in (abnormal =? 0) && e_compare tb (p_init, t_init) rs obs.

Fixpoint t_compare (tb : list intent) (ts : tstate) (ms : list cmsg) (obs : list (list oev)) : bool :=
  match ms, obs with
  | [], [] => true
  | m :: ms', o :: obs' =>
      let mm := match m with
                | MB => Some TBadMsg
                | M idx chk add => match look tb idx with Some i => Some (TComm i chk add) | None => None end
                end in
      match mm with
      | None => false
      | Some mm =>
          let '(ts', tr) := target_step ts mm in
          all2 (tev_match tb) tr o && t_compare tb ts' ms' obs'
      end
  | _, _ => false
  end.
Definition c06t_case := (list intent * list cmsg * list (list oev) * N)%type.
Definition MC (tb : list intent) (ms : list cmsg) (obs : list (list oev)) (ab : N) : c06t_case := (tb, ms, obs, ab).
Definition c06t_ok (c : c06t_case) : bool :=
  let '(tb, ms, obs, abnormal) := c in (abnormal =? 0) && t_compare tb t_init ms obs.
