(* ReplayProofs.v — the ring bitmap of transport/replay.go refines a set of counters.
   Main results: check_fresh (Check on any state reached by Mark calls = set-based freshness),
   run_accept_spec (accept histories), no_wrap. *)
From Hop Require Import Base Replay.
From Coq Require Import ZifyN ZifyNat ZifyBool.
Ltac Zify.zify_post_hook ::= Z.div_mod_to_equations.
Open Scope N_scope.

Arguments N.mul : simpl never.
Arguments N.add : simpl never.
Arguments N.pow : simpl never.
Arguments N.div : simpl never.
Arguments N.modulo : simpl never.
Arguments N.shiftl : simpl never.
Arguments N.shiftr : simpl never.
Arguments N.land : simpl never.
Arguments N.lor : simpl never.
Arguments N.testbit : simpl never.

Definition lim : N := 2 ^ 63.

(* ---------- lists ---------- *)
Lemma upd_length bl i v : length (upd bl i v) = length bl.
Proof. revert i; induction bl as [|x r IH]; intros [|i]; simpl; auto. Qed.

Lemma nth_upd bl i v j : (i < length bl)%nat ->
  nth j (upd bl i v) 0 = if Nat.eqb j i then v else nth j bl 0.
Proof.
  revert i j; induction bl as [|x r IH]; intros i j Hi; simpl in Hi; [lia|].
  destruct i as [|i], j as [|j]; simpl; auto.
  apply IH; lia.
Qed.

Lemma get_set bl i v j : (N.to_nat i < length bl)%nat ->
  get (set bl i v) j = if j =? i then v else get bl j.
Proof.
  intros Hi. unfold get, set. rewrite nth_upd by exact Hi.
  destruct (N.eqb_spec j i) as [->|Hne].
  - now rewrite Nat.eqb_refl.
  - destruct (Nat.eqb_spec (N.to_nat j) (N.to_nat i)) as [E|_]; [|reflexivity].
    apply N2Nat.inj in E. contradiction.
Qed.

Lemma set_length bl i v : length (set bl i v) = length bl.
Proof. apply upd_length. Qed.

(* ---------- bits ---------- *)
Lemma land_pow2 x b : N.land x (2 ^ b) = if N.testbit x b then 2 ^ b else 0.
Proof.
  apply N.bits_inj. intros n. rewrite N.land_spec, N.pow2_bits_eqb.
  destruct (N.testbit x b) eqn:Hb.
  - rewrite N.pow2_bits_eqb. destruct (N.eqb_spec b n) as [->|_].
    + now rewrite Hb.
    + apply andb_false_r.
  - rewrite N.bits_0. destruct (N.eqb_spec b n) as [->|_].
    + now rewrite Hb.
    + apply andb_false_r.
Qed.

Lemma land_shiftl1_eq0 x b : (N.land x (N.shiftl 1 b) =? 0) = negb (N.testbit x b).
Proof.
  rewrite N.shiftl_1_l, land_pow2. destruct (N.testbit x b); simpl.
  - apply N.eqb_neq. apply N.pow_nonzero. discriminate.
  - reflexivity.
Qed.

Lemma lor_shiftl1_bit x b n : N.testbit (N.lor x (N.shiftl 1 b)) n = N.testbit x n || (n =? b).
Proof.
  rewrite N.lor_spec, N.shiftl_1_l, N.pow2_bits_eqb. now rewrite N.eqb_sym.
Qed.

Lemma land63 x : N.land x location_mask = x mod 64.
Proof. change location_mask with (N.ones 6). now rewrite N.land_ones. Qed.

Lemma land7 x : N.land x index_mask = x mod 8.
Proof. change index_mask with (N.ones 3). now rewrite N.land_ones. Qed.

Lemma shr6 x : N.shiftr x location_bits = x / 64.
Proof. unfold location_bits. now rewrite N.shiftr_div_pow2. Qed.

Lemma u64_small a b : a + b < two64 -> u64_add a b = a + b.
Proof. intros H. unfold u64_add. now apply N.mod_small. Qed.

Lemma two64_val : two64 = 18446744073709551616. Proof. reflexivity. Qed.
Lemma lim_val : lim = 9223372036854775808. Proof. reflexivity. Qed.
Lemma window_val : window_size = 448. Proof. reflexivity. Qed.

(* the modelled uint64 wrap is unreachable below 2^63 *)
Lemma no_wrap seq : seq < lim -> u64_add seq window_size = seq + 448.
Proof.
  intros H. rewrite window_val. apply u64_small. rewrite two64_val. rewrite lim_val in H. lia.
Qed.

(* ---------- set side ---------- *)
Lemma mem_le_max c M : mem c M = true -> c <= max0 M.
Proof.
  induction M as [|x r IH]; simpl; [discriminate|].
  destruct (N.eqb_spec c x) as [->|_]; simpl; intros H; [lia|].
  specialize (IH H). lia.
Qed.

Lemma max0_lt M : Forall (fun x => x < lim) M -> max0 M < lim.
Proof.
  induction 1 as [|x r Hx _ IH]; simpl; [rewrite lim_val; lia|]. lia.
Qed.

(* ---------- the refinement invariant ---------- *)
Definition bitl (bl : list N) (c : N) : bool :=
  N.testbit (get bl ((c / 64) mod 8)) (c mod 64).
Definition bit (s : win) (c : N) : bool := bitl (blocks s) c.

Record Inv (s : win) (M : list N) : Prop := {
  inv_len : length (blocks s) = 8%nat;
  inv_wt : wt s = max0 M;
  inv_bits : forall c, wt s <= c + 448 -> c / 64 <= wt s / 64 -> bit s c = mem c M
}.

Lemma inv_init : Inv win_init [].
Proof.
  split; try reflexivity.
  intros c _ _. unfold bit, bitl, get. simpl blocks.
  assert (H : (c / 64) mod 8 < 8) by (apply N.mod_lt; discriminate).
  destruct (N.to_nat ((c / 64) mod 8)) as [|[|[|[|[|[|[|[|n]]]]]]]] eqn:E; simpl;
    try apply N.bits_0. destruct n; apply N.bits_0.
Qed.

Lemma check_spec s c : c < lim -> wt s < lim ->
  check s c = if wt s <? c then true
              else if c + 448 <? wt s then false
              else negb (bit s c).
Proof.
  intros Hc Hw. unfold check. rewrite no_wrap by exact Hc.
  destruct (wt s <? c); [reflexivity|].
  destruct (c + 448 <? wt s); [reflexivity|].
  rewrite land_shiftl1_eq0, land63, land7, shr6. reflexivity.
Qed.

Theorem check_fresh_inv s M c :
  Inv s M -> Forall (fun x => x < lim) M -> c < lim -> check s c = fresh_b M c.
Proof.
  intros [Hl Hw Hb] HM Hc.
  assert (Hwl : wt s < lim) by (rewrite Hw; now apply max0_lt).
  rewrite check_spec by assumption. unfold fresh_b. rewrite window_val, <- Hw.
  destruct (N.ltb_spec (wt s) c) as [H1|H1].
  - destruct (mem c M) eqn:Hm.
    + apply mem_le_max in Hm. lia.
    + simpl. symmetry. apply N.leb_le. lia.
  - destruct (N.ltb_spec (c + 448) (wt s)) as [H2|H2].
    + replace (wt s <=? c + 448) with false by (symmetry; apply N.leb_gt; lia).
      now rewrite andb_false_r.
    + rewrite Hb; [|lia|].
      * replace (wt s <=? c + 448) with true by (symmetry; apply N.leb_le; lia).
        now rewrite andb_true_r.
      * apply N.div_le_mono; [discriminate|exact H1].
Qed.

(* ---------- the clearing loop ---------- *)
Lemma idx_no_wrap i cur : i <= 8 -> cur < 2 ^ 57 ->
  N.land (u64_add (u64_add i cur) 1) index_mask = (i + cur + 1) mod 8.
Proof.
  intros Hi Hc. change (2 ^ 57) with 144115188075855872 in Hc.
  rewrite land7, !u64_small; rewrite ?two64_val; try lia.
  rewrite u64_small; rewrite ?two64_val; lia.
Qed.

Lemma clear_loop_length bl cur i n : length (clear_loop bl cur i n) = length bl.
Proof.
  revert bl i; induction n as [|n IH]; intros bl i; simpl; [reflexivity|].
  now rewrite IH, set_length.
Qed.

Lemma clear_loop_zero bl cur i n j : length bl = 8%nat -> i + N.of_nat n <= 8 -> cur < 2 ^ 57 ->
  get bl j = 0 -> get (clear_loop bl cur i n) j = 0.
Proof.
  revert bl i; induction n as [|n IH]; intros bl i Hl Hi Hc H0; simpl; [exact H0|].
  apply IH; [now rewrite set_length|lia|exact Hc|].
  rewrite idx_no_wrap by lia.
  rewrite get_set.
  - destruct (j =? (i + cur + 1) mod 8); [reflexivity|exact H0].
  - rewrite Hl. assert ((i + cur + 1) mod 8 < 8) by (apply N.mod_lt; discriminate). lia.
Qed.

Lemma clear_loop_keep bl cur i n j : length bl = 8%nat -> i + N.of_nat n <= 8 -> cur < 2 ^ 57 ->
  (forall k, i <= k -> k < i + N.of_nat n -> (k + cur + 1) mod 8 <> j) ->
  get (clear_loop bl cur i n) j = get bl j.
Proof.
  revert bl i; induction n as [|n IH]; intros bl i Hl Hi Hc Hk; simpl; [reflexivity|].
  rewrite IH; [|now rewrite set_length|lia|exact Hc|intros k H1 H2; apply Hk; lia].
  rewrite idx_no_wrap by lia.
  rewrite get_set.
  - destruct (N.eqb_spec j ((i + cur + 1) mod 8)) as [E|_]; [|reflexivity].
    exfalso. apply (Hk i); [lia|lia|now symmetry].
  - rewrite Hl. assert ((i + cur + 1) mod 8 < 8) by (apply N.mod_lt; discriminate). lia.
Qed.

Lemma clear_loop_hit bl cur i n j : length bl = 8%nat -> i + N.of_nat n <= 8 -> cur < 2 ^ 57 ->
  (exists k, i <= k /\ k < i + N.of_nat n /\ (k + cur + 1) mod 8 = j) ->
  get (clear_loop bl cur i n) j = 0.
Proof.
  revert bl i; induction n as [|n IH]; intros bl i Hl Hi Hc [k (H1 & H2 & H3)]; simpl; [lia|].
  assert (Hlt : (N.to_nat ((i + cur + 1) mod 8) < length bl)%nat).
  { rewrite Hl. assert ((i + cur + 1) mod 8 < 8) by (apply N.mod_lt; discriminate). lia. }
  destruct (N.eq_dec k i) as [->|Hne].
  - apply clear_loop_zero; [now rewrite set_length|lia|exact Hc|].
    rewrite idx_no_wrap by lia. rewrite get_set by exact Hlt. now rewrite H3, N.eqb_refl.
  - apply IH; [now rewrite set_length|lia|exact Hc|].
    exists k. repeat split; [lia|lia|exact H3].
Qed.

(* ---------- Mark preserves the invariant ---------- *)
Lemma bitl_set bl idx v c :
  length bl = 8%nat -> idx < 8 ->
  bitl (set bl idx v) c = if (c / 64) mod 8 =? idx then N.testbit v (c mod 64) else bitl bl c.
Proof.
  intros Hl Hi. unfold bitl. rewrite get_set by (rewrite Hl; lia).
  destruct ((c / 64) mod 8 =? idx); reflexivity.
Qed.

Lemma mark_spec s c : c < lim -> wt s < lim ->
  mark s c =
  if c + 448 <? wt s then s
  else
    let s1 := if wt s <? c then
                let diff0 := c / 64 - wt s / 64 in
                let diff := if 8 <? diff0 then 8 else diff0 in
                {| blocks := clear_loop (blocks s) (wt s / 64) 0 (N.to_nat diff); wt := c |}
              else s in
    {| blocks := set (blocks s1) ((c / 64) mod 8)
                   (N.lor (get (blocks s1) ((c / 64) mod 8)) (N.shiftl 1 (c mod 64)));
       wt := wt s1 |}.
Proof.
  intros Hc Hw. unfold mark. rewrite no_wrap by exact Hc.
  destruct (c + 448 <? wt s); [reflexivity|].
  rewrite !shr6, land7, land63. reflexivity.
Qed.

Lemma div64_bound x : x < lim -> x / 64 < 2 ^ 57.
Proof. rewrite lim_val. change (2 ^ 57) with 144115188075855872. lia. Qed.

Theorem mark_inv s M c :
  Inv s M -> Forall (fun x => x < lim) M -> c < lim -> Inv (mark s c) (c :: M).
Proof.
  intros [Hl Hw Hb] HM Hc.
  assert (Hwl : wt s < lim) by (rewrite Hw; now apply max0_lt).
  rewrite mark_spec by assumption.
  destruct (N.ltb_spec (c + 448) (wt s)) as [Hold|Hin].
  { (* older than the window: ignored *)
    split; [exact Hl|simpl; lia|].
    intros c' H1 H2. rewrite Hb by assumption. simpl.
    destruct (N.eqb_spec c' c) as [->|_]; [lia|reflexivity]. }
  assert (Hidx : (c / 64) mod 8 < 8) by (apply N.mod_lt; discriminate).
  unfold bit in Hb.
  destruct (N.ltb_spec (wt s) c) as [Hnew|Hle]; cbv zeta.
  - (* the top advances: clear skipped blocks, then set the bit *)
    remember (wt s / 64) as cur eqn:Ecur. remember (c / 64) as ub eqn:Eub.
    remember (if 8 <? ub - cur then 8 else ub - cur) as diff eqn:Ediff.
    assert (Hcur : cur < 2 ^ 57) by (rewrite Ecur; apply div64_bound; exact Hwl).
    assert (Hd8 : diff <= 8) by (rewrite Ediff; destruct (N.ltb_spec 8 (ub - cur)); lia).
    assert (Hdu : diff <= ub - cur) by (rewrite Ediff; destruct (N.ltb_spec 8 (ub - cur)); lia).
    assert (Hcu : cur <= ub) by (rewrite Ecur, Eub; apply N.div_le_mono; [discriminate|lia]).
    remember (clear_loop (blocks s) cur 0 (N.to_nat diff)) as bl1 eqn:Ebl1.
    assert (Hl1 : length bl1 = 8%nat) by (rewrite Ebl1; now rewrite clear_loop_length).
    split; simpl blocks; simpl wt.
    + now rewrite set_length.
    + simpl. lia.
    + intros c' H1 H2. unfold bit. simpl blocks.
      rewrite (bitl_set bl1 (ub mod 8) _ c' Hl1 Hidx).
      rewrite lor_shiftl1_bit. rewrite <- Eub in H2.
      assert (Hj : (c' / 64) mod 8 < 8) by (apply N.mod_lt; discriminate).
      assert (Hc7 : ub <= c' / 64 + 7) by (rewrite Eub; lia).
      destruct (N.leb_spec (c' / 64) cur) as [Hlow|Hhigh].
      * (* block of c' is at or below the old top block: kept, old invariant applies *)
        assert (Hkeep : get bl1 ((c' / 64) mod 8) = get (blocks s) ((c' / 64) mod 8)).
        { rewrite Ebl1. apply clear_loop_keep; [exact Hl|lia|exact Hcur|].
          intros k _ Hk E. rewrite N2Nat.id in Hk. lia. }
        assert (Hold : bitl (blocks s) c' = mem c' M) by (apply Hb; [lia|exact Hlow]).
        simpl mem.
        destruct (N.eqb_spec ((c' / 64) mod 8) (ub mod 8)) as [E|NE].
        -- unfold bitl in Hold. rewrite <- E, Hkeep, Hold.
           assert (c' / 64 = ub) by lia.
           destruct (N.eqb_spec (c' mod 64) (c mod 64)) as [E2|NE2];
             destruct (N.eqb_spec c' c) as [E3|NE3]; try (rewrite orb_comm; reflexivity).
           ++ exfalso. apply NE3. lia.
           ++ exfalso. apply NE2. now rewrite E3.
        -- unfold bitl in *. rewrite Hkeep, Hold.
           destruct (N.eqb_spec c' c) as [E3|_]; [exfalso; apply NE; rewrite E3, Eub; reflexivity|reflexivity].
      * (* block of c' is above the old top block: it was cleared; c' is not in M *)
        assert (Hm : mem c' M = false).
        { destruct (mem c' M) eqn:Hm; [|reflexivity]. apply mem_le_max in Hm.
          rewrite <- Hw in Hm. exfalso. lia. }
        assert (Hz : get bl1 ((c' / 64) mod 8) = 0).
        { rewrite Ebl1. apply clear_loop_hit; [exact Hl|lia|exact Hcur|]. rewrite N2Nat.id.
          destruct (N.ltb_spec 8 (ub - cur)) as [Hbig|Hsmall].
          - exists ((c' / 64 - cur - 1) mod 8). repeat split; lia.
          - exists (c' / 64 - cur - 1). repeat split; lia. }
        simpl mem. rewrite Hm.
        destruct (N.eqb_spec ((c' / 64) mod 8) (ub mod 8)) as [E|NE].
        -- rewrite <- E, Hz, N.bits_0. simpl.
           assert (c' / 64 = ub) by lia.
           destruct (N.eqb_spec (c' mod 64) (c mod 64)) as [E2|NE2];
             destruct (N.eqb_spec c' c) as [E3|NE3]; try reflexivity.
           ++ exfalso. apply NE3. lia.
           ++ exfalso. apply NE2. now rewrite E3.
        -- unfold bitl. rewrite Hz, N.bits_0.
           destruct (N.eqb_spec c' c) as [E3|_]; [exfalso; apply NE; rewrite E3, Eub; reflexivity|reflexivity].
  - (* inside the window, not above the top: just set the bit *)
    split; simpl blocks; simpl wt.
    + now rewrite set_length.
    + simpl. lia.
    + intros c' H1 H2. unfold bit. simpl blocks.
      rewrite (bitl_set (blocks s) ((c / 64) mod 8) _ c' Hl Hidx).
      rewrite lor_shiftl1_bit.
      assert (Hold : bitl (blocks s) c' = mem c' M) by (apply Hb; assumption).
      simpl mem.
      destruct (N.eqb_spec ((c' / 64) mod 8) ((c / 64) mod 8)) as [E|NE].
      * unfold bitl in Hold. rewrite <- E, Hold.
        assert (c / 64 <= wt s / 64) by (apply N.div_le_mono; [discriminate|lia]).
        assert (c' / 64 = c / 64) by lia.
        destruct (N.eqb_spec (c' mod 64) (c mod 64)) as [E2|NE2];
          destruct (N.eqb_spec c' c) as [E3|NE3]; try (rewrite orb_comm; reflexivity).
        -- exfalso. apply NE3. lia.
        -- exfalso. apply NE2. now rewrite E3.
      * rewrite Hold.
        destruct (N.eqb_spec c' c) as [E3|_]; [exfalso; apply NE; now rewrite E3|reflexivity].
Qed.

(* ---------- histories ---------- *)
Lemma marks_inv ms : forall s M, Inv s M -> Forall (fun x => x < lim) M -> Forall (fun x => x < lim) ms ->
  Inv (fold_left mark ms s) (rev ms ++ M).
Proof.
  induction ms as [|c r IH]; intros s M HI HM Hms; simpl; [exact HI|].
  inversion Hms as [|? ? Hc Hr]; subst.
  rewrite <- app_assoc. simpl. apply IH; [now apply mark_inv|now constructor|exact Hr].
Qed.

Lemma mem_rev c l : mem c (rev l) = mem c l.
Proof.
  unfold mem. induction l as [|x r IH]; simpl; [reflexivity|].
  rewrite existsb_app, IH. simpl. rewrite orb_false_r. apply orb_comm.
Qed.

Lemma max0_app a b : max0 (a ++ b) = N.max (max0 a) (max0 b).
Proof. induction a as [|x r IH]; simpl; [lia|]. rewrite IH. lia. Qed.

Lemma max0_rev l : max0 (rev l) = max0 l.
Proof. induction l as [|x r IH]; simpl; [reflexivity|]. rewrite max0_app, IH. simpl. lia. Qed.

Lemma fresh_rev l c : fresh_b (rev l) c = fresh_b l c.
Proof. unfold fresh_b. now rewrite mem_rev, max0_rev. Qed.

(* Check after ANY sequence of Mark calls is the set-based definition *)
Theorem check_fresh ms c : Forall (fun x => x < lim) (c :: ms) ->
  check (fold_left mark ms win_init) c = fresh_b ms c.
Proof.
  intros H. inversion H as [|? ? Hc Hms]; subst.
  pose proof (marks_inv ms win_init [] inv_init (Forall_nil _) Hms) as HI.
  rewrite app_nil_r in HI.
  rewrite (check_fresh_inv _ _ _ HI); [apply fresh_rev| |exact Hc].
  apply Forall_rev. exact Hms.
Qed.

(* arbitrary Mark/Check programs *)
Fixpoint ops_lt (ops : list rop) : Prop :=
  match ops with
  | [] => True
  | RMark c :: r => c < lim /\ ops_lt r
  | RCheck c :: r => c < lim /\ ops_lt r
  end.

Lemma fresh_ext A B c : max0 A = max0 B -> (forall x, mem x A = mem x B) -> fresh_b A c = fresh_b B c.
Proof. intros H1 H2. unfold fresh_b. now rewrite H1, H2. Qed.

Theorem run_ops_spec_inv ops : forall s M, Inv s M -> Forall (fun x => x < lim) M -> ops_lt ops ->
  run_ops s ops = spec_ops M ops.
Proof.
  induction ops as [|[c|c] r IH]; intros s M HI HM Hl; simpl in *; [reflexivity| |].
  - destruct Hl as [Hc Hr]. apply IH; [now apply mark_inv|now constructor|exact Hr].
  - destruct Hl as [Hc Hr]. f_equal; [now apply check_fresh_inv|now apply IH].
Qed.

Theorem run_ops_spec ops : ops_lt ops -> run_ops win_init ops = spec_ops [] ops.
Proof. intros H. apply run_ops_spec_inv; [exact inv_init|constructor|exact H]. Qed.

(* accept histories: the transport's usage (Check; Mark only if accepted) *)
Theorem run_accept_spec_inv cs : forall s A, Inv s A -> Forall (fun x => x < lim) A ->
  Forall (fun x => x < lim) cs -> run_accept s cs = spec_run A cs.
Proof.
  induction cs as [|c r IH]; intros s A HI HA Hcs; simpl; [reflexivity|].
  inversion Hcs as [|? ? Hc Hr]; subst.
  unfold accept. rewrite (check_fresh_inv _ _ _ HI HA Hc).
  destruct (fresh_b A c); f_equal.
  - apply IH; [now apply mark_inv|now constructor|exact Hr].
  - now apply IH.
Qed.

Theorem run_accept_spec cs : Forall (fun x => x < lim) cs ->
  run_accept win_init cs = spec_run [] cs.
Proof. intros H. apply run_accept_spec_inv; [exact inv_init|constructor|exact H]. Qed.

(* consequences in the property's words *)
(* (1) a counter that was accepted is never accepted again (no duplicate ever passes) *)
Lemma spec_run_no_dup cs : forall A c, mem c A = true ->
  Forall (fun p => fst p = c -> snd p = false) (combine cs (spec_run A cs)).
Proof.
  induction cs as [|x r IH]; intros A c Hm; simpl; [constructor|].
  destruct (fresh_b A x) eqn:Hf; simpl; constructor; simpl.
  - intros ->. unfold fresh_b in Hf. now rewrite Hm in Hf.
  - apply IH. simpl. now rewrite Hm, orb_true_r.
  - reflexivity.
  - now apply IH.
Qed.

Fixpoint accepted_counters (cs : list N) (bs : list bool) : list N :=
  match cs, bs with
  | c :: r, true :: br => c :: accepted_counters r br
  | _ :: r, false :: br => accepted_counters r br
  | _, _ => []
  end.

Lemma spec_run_accepted_nodup cs : forall A, NoDup A ->
  NoDup (rev (accepted_counters cs (spec_run A cs)) ++ A).
Proof.
  induction cs as [|x r IH]; intros A HA; simpl; [exact HA|].
  destruct (fresh_b A x) eqn:Hf; simpl.
  - rewrite <- app_assoc. simpl. apply IH. constructor; [|exact HA].
    unfold fresh_b in Hf. apply andb_prop in Hf. destruct Hf as [Hf _].
    intros Hin. apply negb_true_iff in Hf. unfold mem in Hf.
    assert (existsb (N.eqb x) A = true) by (apply existsb_exists; exists x; split; [exact Hin|apply N.eqb_refl]).
    congruence.
  - now apply IH.
Qed.

Theorem accepted_once cs : Forall (fun x => x < lim) cs ->
  NoDup (accepted_counters cs (run_accept win_init cs)).
Proof.
  intros H. rewrite run_accept_spec by exact H.
  pose proof (spec_run_accepted_nodup cs [] (NoDup_nil _)) as HN.
  rewrite app_nil_r in HN. apply NoDup_rev in HN. now rewrite rev_involutive in HN.
Qed.

(* the boolean freshness test says what the property says *)
Lemma mem_In c l : mem c l = true <-> In c l.
Proof.
  unfold mem. rewrite existsb_exists. split.
  - intros [x [Hin He]]. apply N.eqb_eq in He. now subst.
  - intros Hin. exists c. split; [exact Hin|apply N.eqb_refl].
Qed.

Lemma fresh_b_iff A c : fresh_b A c = true <-> (~ In c A /\ max0 A <= c + 448).
Proof.
  unfold fresh_b. rewrite andb_true_iff, negb_true_iff, window_val, N.leb_le.
  split; intros [H1 H2]; split; try exact H2.
  - intros Hin. apply mem_In in Hin. congruence.
  - destruct (mem c A) eqn:Hm; [|reflexivity]. apply mem_In in Hm. contradiction.
Qed.

Lemma max0_ge A x : In x A -> x <= max0 A.
Proof. induction A as [|y r IH]; simpl; [tauto|]. intros [->|H]; [lia|]. specialize (IH H). lia. Qed.

Lemma max0_in A : A <> [] -> In (max0 A) A.
Proof.
  induction A as [|y r IH]; [congruence|]. intros _. simpl.
  destruct r as [|z r'].
  - left. simpl. lia.
  - destruct (N.max_spec y (max0 (z :: r'))) as [[_ E]|[_ E]]; rewrite E.
    + right. apply IH. discriminate.
    + now left.
Qed.

(* histories of authentic and forged datagrams through the receive path *)
Theorem run_through_spec_inv l : forall s A, Inv s A -> Forall (fun x => x < lim) A ->
  Forall (fun p => fst p < lim) l -> run_through s l = spec_through A l.
Proof.
  induction l as [|[c [|]] r IH]; intros s A HI HA Hl; simpl; [reflexivity| |].
  - inversion Hl as [|? ? Hc Hr]; subst. simpl in Hc.
    unfold accept. rewrite (check_fresh_inv _ _ _ HI HA Hc).
    destruct (fresh_b A c); f_equal.
    + apply IH; [now apply mark_inv|now constructor|exact Hr].
    + now apply IH.
  - inversion Hl as [|? ? Hc Hr]; subst. f_equal. now apply IH.
Qed.

Theorem run_through_spec l : Forall (fun p => fst p < lim) l ->
  run_through win_init l = spec_through [] l.
Proof. intros H. apply run_through_spec_inv; [exact inv_init|constructor|exact H]. Qed.
