(* LifecycleProofs.v — invariants of the transport.Client lifecycle system (Model/Lifecycle.v), for
   every schedule, any number of goroutines calling Handshake/Close/Read/Write, live or dead peer,
   with or without a handshake timeout. *)
From Hop Require Import Base ConcBase ConcUtil Lifecycle.
From Coq Require Import Lia Arith ZifyN ZifyNat ZifyBool.
Local Open Scope nat_scope.

(* ------------------------------------------------------------------ pc classes *)
Definition hsA (t : cthread) : bool :=
  match cpcv t with H_io | H_add | H_open | H_wgdone | H_store _ | H_caserr _ | H_signal _ => true | _ => false end.
Definition hio (t : cthread) : bool := match cpcv t with H_io => true | _ => false end.
Definition wgH (t : cthread) : bool := match cpcv t with H_open | H_wgdone => true | _ => false end.
Definition clA (t : cthread) : bool :=
  match cpcv t with X_conn _ | X_waiths | X_wgwait | X_handle | X_store | X_signal => true | _ => false end.
Definition xconn (t : cthread) : bool := match cpcv t with X_conn _ => true | _ => false end.
Definition xwl (t : cthread) : bool :=
  match cpcv t with X_wgwait | X_handle | X_store | X_signal => true | _ => false end.
Definition xlate (t : cthread) : bool := match cpcv t with X_store | X_signal => true | _ => false end.

Definition lisn (p : lpc) : nat := match p with L_check | L_read => 1 | _ => 0 end.

(* facts about one thread that only depend on monotone parts of the shared state *)
Definition CTInv (s : csh) (t : cthread) : Prop :=
  match cpcv t with
  | X_cas prev | X_conn prev => (prev = 1%N -> hs_runs s = 1) /\ is_closing prev = false /\ (prev <= 5)%N
  | X_waiths => hs_runs s = 1 /\ conn_closed s = true
  | X_wgwait | X_handle | X_store | X_signal => conn_closed s = true
  | X_ret => close_done s = true
  | X_waitdone | R_waitdone | R_ss => is_closing (cstate s) = true
  | H_wait => hs_runs s = 1
  | H_add | H_open => handle_set s = true
  | H_signal e => e = 0%N -> handle_set s = true
  | H_recheck e => (e = 0%N -> handle_set s = true) /\ hs_done s = true
  | H_store e | H_caserr e => e <> 0%N
  | R_recv | W_check | W_sock => handle_set s = true
  | _ => True
  end.

(* facts that depend on the ghost xprev: only a thread outside the closer class can change it *)
Definition CTInv2 (s : csh) (t : cthread) : Prop :=
  match cpcv t with
  | X_conn prev => xprev s = prev
  | X_waiths => xprev s = 1%N
  | H_caserr e => cerr s = e
  | _ => True
  end.

Definition ret_ok (s : csh) (kr : cop * N) : Prop :=
  match kr with
  | (CClose, r) => r = conn_res s
  | (CHandshake, r) => r = 0%N -> handle_set s = true
  | _ => True
  end.

Record CInv (x : cst) : Prop := {
  v1 : hs_runs (csd x) <= 1;
  v2 : cstate (csd x) = 0%N -> hs_runs (csd x) = 0;
  v3 : (cstate (csd x) = 1 \/ cstate (csd x) = 2 \/ cstate (csd x) = 5)%N -> hs_runs (csd x) = 1;
  v4 : gcnt hsA (cths x) = if hs_done (csd x) then 0 else hs_runs (csd x);
  v5 : (cstate (csd x) = 0 \/ cstate (csd x) = 2 \/ cstate (csd x) = 5)%N -> gcnt hio (cths x) = 0;
  v6 : gcnt clA (cths x) = if is_closing (cstate (csd x)) && negb (close_done (csd x)) then 1 else 0;
  v7 : close_done (csd x) = true -> is_closing (cstate (csd x)) = true;
  v8 : conn_closes (csd x) + gcnt xconn (cths x) = if is_closing (cstate (csd x)) then 1 else 0;
  v9 : conn_closed (csd x) = Nat.leb 1 (conn_closes (csd x));
  v10 : close_err (csd x) = if Nat.leb 1 (conn_closes (csd x)) then Some (conn_res (csd x)) else None;
  v11 : wg (csd x) = gcnt wgH (cths x) + lisn (lis (csd x));
  v12 : is_closing (cstate (csd x)) = true -> xprev (csd x) <> 1%N -> gcnt hio (cths x) = 0;
  v13 : (1 <= gcnt xwl (cths x) \/ close_done (csd x) = true) -> xprev (csd x) = 1%N -> hs_done (csd x) = true;
  v14 : (1 <= gcnt xlate (cths x) \/ close_done (csd x) = true) ->
        handle_set (csd x) = true -> handle_closed (csd x) = true;
  v15 : (cstate (csd x) <= 5)%N;
  v16 : Forall (CTInv (csd x)) (cths x);
  v17 : Forall (CTInv2 (csd x)) (cths x);
  v18 : cstate (csd x) = 2%N -> handle_set (csd x) = true;
  v19 : Forall (fun t => Forall (ret_ok (csd x)) (crets t)) (cths x);
  v20 : hs_done (csd x) = true -> hs_runs (csd x) = 1;
  v21 : lis (csd x) <> L_none -> cstate (csd x) <> 0%N /\ cstate (csd x) <> 1%N;
  v22 : close_done (csd x) = true -> conn_closed (csd x) = true;
  v23 : cstate (csd x) = 5%N -> cerr (csd x) <> 0%N
}.

Definition cmono (s s' : csh) : Prop :=
  (hs_runs s = 1 -> hs_runs s' = 1) /\
  (conn_closed s = true -> conn_closed s' = true) /\
  (close_done s = true -> close_done s' = true) /\
  (hs_done s = true -> hs_done s' = true) /\
  (handle_set s = true -> handle_set s' = true) /\
  (handle_closed s = true -> handle_closed s' = true) /\
  (is_closing (cstate s) = true -> is_closing (cstate s') = true) /\
  conn_res s' = conn_res s.

Lemma CTInv_mono s s' t : cmono s s' -> CTInv s t -> CTInv s' t.
Proof.
  intros (H1 & H2 & H3 & H4 & H5 & H6 & H7 & H8) Ht. unfold CTInv in *.
  destruct (cpcv t); auto; intuition.
Qed.

(* ------------------------------------------------------------------ case analysis on cstep *)
Ltac cbrk H :=
  repeat (match type of H with
  | context [if ?b then _ else _] => let E := fresh "E" in destruct b eqn:E
  | context [match wg ?s with _ => _ end] => let E := fresh "Ewg" in destruct (wg s) eqn:E
  | context [match ?k with KRet => _ | KRead => _ | KWrite => _ end] => destruct k
  end; simpl in H); try discriminate H.

Ltac ccases H :=
  match type of H with
  | cstep ?s ?t = Some (?s', ?t') =>
    unfold cstep, hs_return in H;
    destruct t as [pg p k rs]; simpl in H;
    destruct p; [ destruct pg as [|[ | | | ] pg]; [discriminate H| | | | ] | .. ];
    cbrk H; inversion H; subst; clear H
  end.

Ltac cunf := unfold cmono, upd_state, upd_wg, upd_lis, cgoto, cfinish, is_closing,
  sCreated, sHandshaking, sOpen, sClosing, sClosed, sError, rNil, rEOF, rTimeout, rIO in *.

Lemma cstep_mono s t s' t' : (cstate s = 0%N -> hs_runs s = 0) -> cstep s t = Some (s', t') -> cmono s s'.
Proof.
  intros H0 H. destruct s as [cs hd cd ce cle cc w li hset hcl hp pe tm cr hr ccl xp].
  ccases H; cunf; simpl in *; repeat split; auto; intros; try discriminate; try lia.
Qed.

(* shared-state invariants that need only facts about the stepping thread *)
Lemma cstep_shared s t s' t' :
  CTInv s t -> (hsA t = true -> hs_runs s = 1) -> (clA t = true -> is_closing (cstate s) = true) ->
  hs_runs s <= 1 -> (cstate s = 0%N -> hs_runs s = 0) ->
  ((cstate s = 1 \/ cstate s = 2 \/ cstate s = 5)%N -> hs_runs s = 1) ->
  (cstate s <= 5)%N ->
  cstep s t = Some (s', t') ->
  hs_runs s' <= 1 /\ (cstate s' = 0%N -> hs_runs s' = 0) /\
  ((cstate s' = 1 \/ cstate s' = 2 \/ cstate s' = 5)%N -> hs_runs s' = 1) /\
  (cstate s' <= 5)%N /\
  ((close_done s = true -> is_closing (cstate s) = true) -> close_done s' = true -> is_closing (cstate s') = true) /\
  (conn_closed s = Nat.leb 1 (conn_closes s) -> conn_closed s' = Nat.leb 1 (conn_closes s')) /\
  (close_err s = (if Nat.leb 1 (conn_closes s) then Some (conn_res s) else None) ->
   close_err s' = (if Nat.leb 1 (conn_closes s') then Some (conn_res s') else None)) /\
  ((cstate s = 2%N -> handle_set s = true) -> cstate s' = 2%N -> handle_set s' = true) /\
  ((hs_done s = true -> hs_runs s = 1) -> hs_done s' = true -> hs_runs s' = 1) /\
  ((lis s <> L_none -> cstate s <> 0%N /\ cstate s <> 1%N) -> lis s' <> L_none -> cstate s' <> 0%N /\ cstate s' <> 1%N) /\
  ((close_done s = true -> conn_closed s = true) -> close_done s' = true -> conn_closed s' = true).
Proof.
  intros Ht Hh Hc V1 V2 V3 V15 H. destruct s as [cs hd cd ce cle cc w li hset hcl hp pe tm cr hr ccl xp].
  unfold CTInv, hsA, clA in *.
  ccases H; cunf; simpl in *.
  all: repeat split; intros; subst; simpl in *; auto; try lia; try congruence; try tauto.
  all: try (specialize (Hh eq_refl); lia).
  all: try (specialize (Hc eq_refl); lia).
Qed.

Definition ifc (b : bool) (n : nat) : nat := if b then n else 0.

Lemma cstep_hsA s t s' t' :
  (cstate s = 0%N -> hs_runs s = 0 /\ hs_done s = false) ->
  (hsA t = true -> hs_done s = false /\ hs_runs s = 1) ->
  cstep s t = Some (s', t') ->
  g2n (hsA t') + (if hs_done s then 0 else hs_runs s) = g2n (hsA t) + (if hs_done s' then 0 else hs_runs s').
Proof.
  intros H0 Hh H. destruct s as [cs hd cd ce cle cc w li hset hcl hp pe tm cr hr ccl xp].
  unfold hsA in *.
  ccases H; cunf; simpl in *; auto; try lia.
  all: try (destruct (Hh eq_refl); subst; simpl; lia).
  all: try (destruct H0 as [H0 H0']; [lia|]; subst; simpl; lia).
Qed.

Lemma cstep_hio s t s' t' : CTInv s t -> (clA t = true -> is_closing (cstate s) = true) ->
  cstep s t = Some (s', t') ->
  (hio t' = true -> hio t = true \/ (cstate s = 0%N /\ cstate s' = 1%N)) /\
  (cstate s' <> cstate s ->
     (cstate s = 0 /\ cstate s' = 1)%N \/
     (hsA t = true /\ hio t = false /\ hio t' = false /\ cstate s = 1%N) \/
     (is_closing (cstate s') = true /\ hio t = false /\ hio t' = false)) /\
  (xprev s' <> xprev s -> is_closing (cstate s) = false /\ is_closing (cstate s') = true /\
                          xprev s' = cstate s /\ hio t = false /\ hio t' = false) /\
  (is_closing (cstate s) = false -> is_closing (cstate s') = true -> xprev s' = cstate s).
Proof.
  intros Ht Hc H. destruct s as [cs hd cd ce cle cc w li hset hcl hp pe tm cr hr ccl xp].
  unfold hio, hsA, clA, CTInv in *.
  ccases H; cunf; simpl in *.
  all: repeat split; intros; subst; simpl in *; auto; try congruence; try lia.
  all: try (specialize (Hc eq_refl); congruence).
  all: try (right; left; repeat split; auto; lia).
  all: try (right; right; repeat split; auto; lia).
  all: try (destruct Ht as (_ & Hx & _); apply Bool.orb_false_iff in Hx; destruct Hx; lia).
Qed.

Lemma cstep_wg s t s' t' :
  (wgH t = true -> 1 <= wg s) -> (cstate s = 1%N -> lis s = L_none) ->
  cstep s t = Some (s', t') ->
  wg s' + g2n (wgH t) + lisn (lis s) = wg s + g2n (wgH t') + lisn (lis s').
Proof.
  intros Hw Hl H. destruct s as [cs hd cd ce cle cc w li hset hcl hp pe tm cr hr ccl xp].
  unfold wgH in *.
  ccases H; cunf; simpl in *; auto; try lia.
  all: try (specialize (Hw eq_refl); lia).
  all: try (rewrite Hl by lia; simpl; lia).
Qed.

Lemma cstep_clA s t s' t' :
  (is_closing (cstate s) = false -> close_done s = false) ->
  (clA t = true -> is_closing (cstate s) = true /\ close_done s = false) ->
  CTInv s t ->
  cstep s t = Some (s', t') ->
  g2n (clA t') + (if is_closing (cstate s) && negb (close_done s) then 1 else 0)
  = g2n (clA t) + (if is_closing (cstate s') && negb (close_done s') then 1 else 0).
Proof.
  intros H0 Hc Ht H. destruct s as [cs hd cd ce cle cc w li hset hcl hp pe tm cr hr ccl xp].
  unfold clA, CTInv in *.
  ccases H; cunf; simpl in *; auto; try lia.
  all: try (destruct (Hc eq_refl) as [Hc1 Hc2]; subst; simpl in *; try rewrite Hc1; simpl; lia).
  all: try (destruct Ht as (_ & Hx & _); apply N.eqb_eq in E; subst; cunf; rewrite Hx in *; simpl; rewrite (H0 eq_refl); simpl; lia).
  all: try (destruct ((cs =? 3)%N || (cs =? 4)%N)%bool eqn:Ecl; simpl; auto; lia).
Qed.

Lemma cstep_xconn s t s' t' : CTInv s t ->
  (clA t = true -> is_closing (cstate s) = true) ->
  cstep s t = Some (s', t') ->
  conn_closes s' + g2n (xconn t') + (if is_closing (cstate s) then 1 else 0)
  = conn_closes s + g2n (xconn t) + (if is_closing (cstate s') then 1 else 0).
Proof.
  intros Ht Hc H. destruct s as [cs hd cd ce cle cc w li hset hcl hp pe tm cr hr ccl xp].
  unfold xconn, clA, CTInv in *.
  ccases H; cunf; simpl in *; auto; try lia.
  all: try (rewrite (Hc eq_refl); simpl; lia).
  all: try (destruct Ht as (_ & Hx & _); apply N.eqb_eq in E; subst; cunf; rewrite Hx in *; simpl; lia).
  all: try (destruct ((cs =? 3)%N || (cs =? 4)%N)%bool eqn:Ecl; simpl; auto; lia).
Qed.

(* entering the late closer classes *)
Lemma cstep_xwl s t s' t' : CTInv2 s t -> cstep s t = Some (s', t') ->
  (xwl t' = true -> xwl t = true \/ (clA t = true /\ hs_done s = true) \/ (clA t = true /\ xprev s <> 1%N)) /\
  (close_done s' = true -> close_done s = true \/ xwl t = true) /\
  (xlate t' = true -> xlate t = true \/ (xwl t = true /\ (handle_set s' = true -> handle_closed s' = true))) /\
  (close_done s' = true -> close_done s = true \/ xlate t = true) /\
  (handle_set s' = true -> handle_set s = true \/ hio t = true) /\
  (xwl t = true -> clA t = true) /\ (xwl t = true -> clA t' = true \/ close_done s' = true).
Proof.
  intros Ht H. destruct s as [cs hd cd ce cle cc w li hset hcl hp pe tm cr hr ccl xp].
  unfold xwl, xlate, clA, hio, CTInv2 in *.
  ccases H; cunf; simpl in *.
  all: repeat split; intros; subst; simpl in *; auto; try congruence; try discriminate.
  all: try (right; left; split; auto; fail).
  all: try (right; right; split; auto; apply N.eqb_neq in E; auto; fail).
  all: try (right; split; auto; intros; discriminate).
Qed.

Lemma cstep_CTInv s t s' t' :
  ((cstate s = 1 \/ cstate s = 2 \/ cstate s = 5)%N -> hs_runs s = 1) ->
  (cstate s <= 5)%N -> (cstate s = 2%N -> handle_set s = true) -> (cstate s = 5%N -> cerr s <> 0%N) ->
  CTInv s t -> CTInv2 s t -> cstep s t = Some (s', t') ->
  CTInv s' t' /\ CTInv2 s' t' /\ (cstate s' = 5%N -> cerr s' <> 0%N).
Proof.
  intros V3 V15 V18 V23 Ht Ht2 H. destruct s as [cs hd cd ce cle cc w li hset hcl hp pe tm cr hr ccl xp].
  unfold CTInv, CTInv2 in *.
  ccases H; cunf; simpl in *.
  all: repeat split; intros; subst; simpl in *; auto; try lia; try congruence; try tauto.
  all: try (apply V3; lia).
  all: try (apply V18; lia).
  all: try (destruct Ht as (Ha & Hb & Hc); apply N.eqb_eq in E; subst; auto; fail).
  all: try (apply N.eqb_eq in E; subst; tauto).
  all: try (apply N.eqb_eq in E0; subst; tauto).
  all: try (exfalso; apply V23; lia).
Qed.

Lemma cstep_rets s t s' t' :
  (close_done s = true -> close_err s = Some (conn_res s)) ->
  (cstate s = 2%N -> handle_set s = true) -> (cstate s = 5%N -> cerr s <> 0%N) -> CTInv s t ->
  cstep s t = Some (s', t') ->
  crets t' = crets t \/ exists kr, crets t' = crets t ++ [kr] /\ ret_ok s' kr.
Proof.
  intros Hc V18 V23 Ht H. destruct s as [cs hd cd ce cle cc w li hset hcl hp pe tm cr hr ccl xp].
  unfold CTInv in *.
  ccases H; cunf; simpl in *; auto.
  all: right; eexists; split; [reflexivity|]; simpl; auto; try discriminate.
  all: try (rewrite (Hc Ht); reflexivity).
  all: try (intros; apply V18; lia).
  all: try (intros; exfalso; apply V23; lia).
  all: try tauto.
Qed.

Lemma cstep_cerr s t s' t' : cstep s t = Some (s', t') -> cerr s' <> cerr s -> hsA t = true.
Proof.
  intros H. destruct s as [cs hd cd ce cle cc w li hset hcl hp pe tm cr hr ccl xp].
  unfold hsA. ccases H; cunf; simpl in *; auto; try congruence.
Qed.

Lemma hio_hsA t : hio t = true -> hsA t = true.
Proof. unfold hio, hsA. destruct (cpcv t); auto. Qed.
Lemma xlate_xwl t : xlate t = true -> xwl t = true.
Proof. unfold xlate, xwl. destruct (cpcv t); auto. Qed.
Lemma xwl_clA t : xwl t = true -> clA t = true.
Proof. unfold xwl, clA. destruct (cpcv t); auto. Qed.
Lemma xconn_clA t : xconn t = true -> clA t = true.
Proof. unfold xconn, clA. destruct (cpcv t); auto. Qed.

(* lia on a context stripped of implications / Forall facts (they only slow zify down) *)
Ltac qlia :=
  repeat match goal with
  | H : Forall _ _ |- _ => clear H
  | H : ?A -> ?B |- _ => lazymatch B with False => fail | _ => clear H end
  end; lia.

Lemma cinv_th x i t s' t' :
  CInv x -> nth_error (cths x) i = Some t -> cstep (csd x) t = Some (s', t') ->
  CInv (mkCSt s' (gupd (cths x) i t')).
Proof.
  intros I Hn H. destruct x as [s l]. simpl in *.
  destruct I as [V1 V2 V3 V4 V5 V6 V7 V8 V9 V10 V11 V12 V13 V14 V15 V16 V17 V18 V19 V20 V21 V22 V23]; simpl in *.
  assert (Ht : CTInv s t) by (eapply Forall_nth_error; eauto).
  assert (Ht2 : CTInv2 s t) by (eapply Forall_nth_error; eauto).
  pose proof (cstep_mono _ _ _ _ V2 H) as Hm.
  pose proof (gcnt_upd hsA l i t t' Hn) as ChsA.
  pose proof (gcnt_upd hio l i t t' Hn) as Chio.
  pose proof (gcnt_upd wgH l i t t' Hn) as CwgH.
  pose proof (gcnt_upd clA l i t t' Hn) as CclA.
  pose proof (gcnt_upd xconn l i t t' Hn) as Cxconn.
  pose proof (gcnt_upd xwl l i t t' Hn) as Cxwl.
  pose proof (gcnt_upd xlate l i t t' Hn) as Cxlate.
  (* facts about the stepping thread derived from the counts *)
  assert (HsA1 : gcnt hsA l <= 1) by (rewrite V4; destruct (hs_done s); lia).
  assert (HhsA : hsA t = true -> hs_done s = false /\ hs_runs s = 1).
  { intros E. pose proof (gcnt_mem _ _ _ _ Hn E). rewrite V4 in H0. destruct (hs_done s); [lia|]. split; auto. lia. }
  assert (HclA : clA t = true -> is_closing (cstate s) = true /\ close_done s = false).
  { intros E. pose proof (gcnt_mem _ _ _ _ Hn E). rewrite V6 in H0.
    destruct (is_closing (cstate s)); simpl in H0; [|lia]. destruct (close_done s); simpl in H0; [lia|auto]. }
  assert (Hncl : is_closing (cstate s) = false -> close_done s = false).
  { intros E. destruct (close_done s) eqn:Ec; auto. rewrite (V7 eq_refl) in E. discriminate. }
  assert (H00 : cstate s = 0%N -> hs_runs s = 0 /\ hs_done s = false).
  { intros E. split; auto. destruct (hs_done s) eqn:Eh; auto. rewrite (V20 eq_refl) in V2. specialize (V2 E). lia. }
  assert (HwgH : wgH t = true -> 1 <= wg s).
  { intros E. pose proof (gcnt_mem _ _ _ _ Hn E). lia. }
  assert (Hlis1 : cstate s = 1%N -> lis s = L_none).
  { intros E. destruct (lis s) eqn:El; auto; exfalso; assert (lis s <> L_none) by congruence;
      rewrite El in *; destruct (V21 ltac:(congruence)); congruence. }
  destruct (cstep_shared _ _ _ _ Ht (fun E => proj2 (HhsA E)) (fun E => proj1 (HclA E)) V1 V2 V3 V15 H)
    as (W1 & W2 & W3 & W15 & W7 & W9 & W10 & W18 & W20 & W21 & W22).
  destruct (cstep_CTInv _ _ _ _ V3 V15 V18 V23 Ht Ht2 H) as (Ht' & Ht2' & W23).
  pose proof (cstep_hsA _ _ _ _ H00 HhsA H) as DhsA.
  destruct (cstep_hio _ _ _ _ Ht (fun E => proj1 (HclA E)) H) as (Dhio1 & Dhio2 & Dhio3 & Dhio4).
  pose proof (cstep_wg _ _ _ _ HwgH Hlis1 H) as Dwg.
  pose proof (cstep_clA _ _ _ _ Hncl HclA Ht H) as DclA.
  pose proof (cstep_xconn _ _ _ _ Ht (fun E => proj1 (HclA E)) H) as Dxconn.
  destruct (cstep_xwl _ _ _ _ Ht2 H) as (Dx1 & Dx2 & Dx3 & Dx4 & Dx5 & Dx6 & Dx7).
  destruct Hm as (M1 & M2 & M3 & M4 & M5 & M6 & M7 & M8).
  (* new values of the counting invariants *)
  assert (W4 : gcnt hsA (gupd l i t') = if hs_done s' then 0 else hs_runs s') by (clear - ChsA DhsA V4; lia).
  assert (W6 : gcnt clA (gupd l i t') = if is_closing (cstate s') && negb (close_done s') then 1 else 0) by (clear - CclA DclA V6; lia).
  assert (W8 : conn_closes s' + gcnt xconn (gupd l i t') = if is_closing (cstate s') then 1 else 0) by (clear - Cxconn Dxconn V8; lia).
  assert (W11 : wg s' = gcnt wgH (gupd l i t') + lisn (lis s')) by (clear - CwgH Dwg V11; lia).
  (* no thread is in the handshake I/O once the closer is late or done *)
  assert (Hio0 : (1 <= gcnt xwl l \/ close_done s = true) -> gcnt hio l = 0).
  { intros Hp. assert (Hcl : is_closing (cstate s) = true).
    { destruct Hp as [Hp|Hp]; [|auto]. pose proof (gcnt_sub xwl clA l xwl_clA). rewrite V6 in H0.
      destruct (is_closing (cstate s)); auto. simpl in H0. qlia. }
    destruct (N.eq_dec (xprev s) 1) as [E|E].
    - specialize (V13 Hp E). rewrite V13 in V4. pose proof (gcnt_sub hio hsA l hio_hsA). qlia.
    - apply V12; auto. }
  assert (W5 : (cstate s' = 0 \/ cstate s' = 2 \/ cstate s' = 5)%N -> gcnt hio (gupd l i t') = 0).
  { intros E. destruct (N.eq_dec (cstate s') (cstate s)) as [Es|Es].
    - rewrite Es in E. specialize (V5 E). pose proof (gcnt_zero_all _ _ _ _ V5 Hn) as Z. rewrite Z in Chio.
      destruct (hio t') eqn:E'; simpl in Chio; [|qlia].
      destruct (Dhio1 eq_refl) as [?|[? ?]]; [congruence|qlia].
    - destruct (Dhio2 Es) as [[? ?]|[(A1 & A2 & A3 & A4)|(A1 & A2 & A3)]].
      + qlia.
      + pose proof (gcnt_sub_strict hio hsA l i t hio_hsA Hn A2 A1). rewrite A2, A3 in Chio. simpl in Chio. qlia.
      + unfold is_closing, sClosing, sClosed in A1. qlia. }
  assert (W12 : is_closing (cstate s') = true -> xprev s' <> 1%N -> gcnt hio (gupd l i t') = 0).
  { intros Ec Ex. destruct (is_closing (cstate s)) eqn:Ecs.
    - assert (xprev s' = xprev s).
      { destruct (N.eq_dec (xprev s') (xprev s)); auto. destruct (Dhio3 n) as (? & _). congruence. }
      rewrite H0 in Ex. specialize (V12 eq_refl Ex).
      pose proof (gcnt_zero_all _ _ _ _ V12 Hn) as Z. rewrite Z in Chio.
      destruct (hio t') eqn:E'; simpl in Chio; [|qlia].
      destruct (Dhio1 eq_refl) as [?|[? ?]]; [congruence|]. unfold is_closing, sClosing, sClosed in Ecs. qlia.
    - specialize (Dhio4 eq_refl Ec). rewrite Dhio4 in Ex.
      assert (E5 : (cstate s = 0 \/ cstate s = 2 \/ cstate s = 5)%N) by (unfold is_closing, sClosing, sClosed in Ecs; qlia).
      specialize (V5 E5). pose proof (gcnt_zero_all _ _ _ _ V5 Hn) as Z. rewrite Z in Chio.
      destruct (hio t') eqn:E'; simpl in Chio; [|qlia].
      destruct (Dhio1 eq_refl) as [?|[? ?]]; [congruence|]. unfold is_closing, sClosing, sClosed in Ec. qlia. }
  assert (Hxsame : (1 <= gcnt xwl (gupd l i t') \/ close_done s' = true) -> xprev s' = xprev s).
  { intros Hp. destruct (N.eq_dec (xprev s') (xprev s)); auto. exfalso.
    destruct (Dhio3 n) as (A1 & A2 & A3 & A4 & A5).
    assert (C0 : gcnt clA l = 0) by (rewrite V6, A1; reflexivity).
    pose proof (gcnt_sub xwl clA l xwl_clA).
    assert (Zt : xwl t = false).
    { destruct (xwl t) eqn:E; auto. pose proof (gcnt_mem _ _ _ _ Hn E). qlia. }
    destruct Hp as [Hp|Hp].
    - rewrite Zt in Cxwl. destruct (xwl t') eqn:E'; simpl in Cxwl; [|qlia].
      destruct (Dx1 eq_refl) as [?|[[B _]|[B _]]]; try congruence;
        pose proof (gcnt_mem _ _ _ _ Hn B); qlia.
    - destruct (Dx2 Hp) as [B|B]; [rewrite (Hncl A1) in B; discriminate|congruence]. }
  assert (W13 : (1 <= gcnt xwl (gupd l i t') \/ close_done s' = true) -> xprev s' = 1%N -> hs_done s' = true).
  { intros Hp Ex. rewrite (Hxsame Hp) in Ex.
    assert (Hold : (1 <= gcnt xwl l \/ close_done s = true) \/ (xwl t = false /\ xwl t' = true /\ close_done s = false)).
    { destruct Hp as [Hp|Hp].
      - destruct (xwl t) eqn:E; [left; left; eapply gcnt_mem; eauto|].
        destruct (xwl t') eqn:E'; simpl in Cxwl; [|left; left; qlia].
        destruct (close_done s) eqn:Ecd; [left; right; auto|right; auto].
      - destruct (Dx2 Hp) as [B|B]; [left; right; auto|left; left; eapply gcnt_mem; eauto]. }
    destruct Hold as [Hold|(A1 & A2 & A3)].
    - apply M4. apply V13; auto.
    - destruct (Dx1 A2) as [?|[[B C]|[B C]]]; [congruence|apply M4; auto|congruence]. }
  assert (W14 : (1 <= gcnt xlate (gupd l i t') \/ close_done s' = true) -> handle_set s' = true -> handle_closed s' = true).
  { intros Hp Hh.
    assert (Hold : (1 <= gcnt xlate l \/ close_done s = true) \/ (xlate t = false /\ xlate t' = true /\ close_done s = false)).
    { destruct Hp as [Hp|Hp].
      - destruct (xlate t) eqn:E; [left; left; eapply gcnt_mem; eauto|].
        destruct (xlate t') eqn:E'; simpl in Cxlate; [|left; left; qlia].
        destruct (close_done s) eqn:Ecd; [left; right; auto|right; auto].
      - destruct (Dx4 Hp) as [B|B]; [left; right; auto|left; left; eapply gcnt_mem; eauto]. }
    destruct Hold as [Hold|(A1 & A2 & A3)].
    - apply M6. apply V14; auto.
      destruct (Dx5 Hh) as [?|B]; auto. exfalso.
      assert (Hp' : 1 <= gcnt xwl l \/ close_done s = true).
      { destruct Hold as [Hold|Hold]; [left|right; auto]. pose proof (gcnt_sub xlate xwl l xlate_xwl). qlia. }
      pose proof (gcnt_zero_all _ _ _ _ (Hio0 Hp') Hn). congruence.
    - destruct (Dx3 A2) as [?|[B C]]; [congruence|auto]. }
  constructor; simpl; auto.
  - (* v16 *)
    apply Forall_gupd; auto. eapply Forall_impl; [|exact V16]. intros a Ha. eapply CTInv_mono; [|exact Ha].
    unfold cmono. repeat split; auto.
  - (* v17 *)
    eapply Forall_gupd_others; [exact Hn|exact V17|exact Ht2'|].
    intros j tj Hne Hj Pj. unfold CTInv2 in *. destruct (cpcv tj) eqn:Epc; auto.
    + (* H_caserr: cerr unchanged because tj is the only handshaker *)
      destruct (N.eq_dec (cerr s') (cerr s)) as [E|E]; [congruence|]. exfalso.
      pose proof (cstep_cerr _ _ _ _ H E) as B1. assert (B2 : hsA tj = true) by (unfold hsA; rewrite Epc; auto).
      apply Hne. symmetry. eapply (gcnt_one_unique hsA l); eauto.
    + (* X_conn: xprev unchanged because tj is a closer *)
      destruct (N.eq_dec (xprev s') (xprev s)) as [E|E]; [congruence|]. exfalso.
      destruct (Dhio3 E) as (A1 & _). assert (B : clA tj = true) by (unfold clA; rewrite Epc; auto).
      pose proof (gcnt_mem _ _ _ _ Hj B). rewrite V6, A1 in H0. simpl in H0. qlia.
    + destruct (N.eq_dec (xprev s') (xprev s)) as [E|E]; [congruence|]. exfalso.
      destruct (Dhio3 E) as (A1 & _). assert (B : clA tj = true) by (unfold clA; rewrite Epc; auto).
      pose proof (gcnt_mem _ _ _ _ Hj B). rewrite V6, A1 in H0. simpl in H0. qlia.
  - (* v19 *)
    assert (Hce : close_done s = true -> close_err s = Some (conn_res s)).
    { intros E. rewrite V10. specialize (V22 E). rewrite V9 in V22. rewrite V22. reflexivity. }
    apply Forall_gupd.
    + eapply Forall_impl; [|exact V19]. intros a Ha. eapply Forall_impl; [|exact Ha].
      intros [o r]; unfold ret_ok; destruct o; auto; try (intros Hx Hy; apply M5; auto; fail); try (rewrite M8; auto).
    + pose proof (Forall_nth_error _ _ _ _ V19 Hn) as Hr.
      assert (Hr' : Forall (ret_ok s') (crets t)).
      { eapply Forall_impl; [|exact Hr]. intros [o r]; unfold ret_ok; destruct o; auto; try (intros Hx Hy; apply M5; auto; fail); try (rewrite M8; auto). }
      destruct (cstep_rets _ _ _ _ Hce V18 V23 Ht H) as [E|(kr & E & Hk)]; rewrite E; auto.
      apply Forall_app; split; auto.
Qed.
