(* HsInstances.v — the named hypotheses of the handshake theorems are satisfiable: an oracle for
   which mac_binding holds (squeeze = an injective serialisation of the transcript) and one for
   which duplex_ok / crypt_injective hold. *)
From Hop Require Import Base Handshake HandshakeProofs HsBindingProofs HsHonestProofs.
Open Scope N_scope.

Definition encb (x : bytes) : bytes := len x :: x.
Definition enc_op (o : dop) : bytes :=
  match o with
  | OReset => [1]
  | OInitKey k i => 2 :: encb k ++ encb i
  | OAbsorb x => 3 :: encb x
  | OCrypt p => 4 :: encb p
  | OSqueeze n => [5; n]
  | ORatchet => [6]
  end.
Fixpoint enc_tr (T : tr) : bytes := match T with [] => [] | o :: r => enc_op o ++ enc_tr r end.

Lemma app_inj_len : forall (x y r r' : bytes), List.length x = List.length y -> x ++ r = y ++ r' -> x = y /\ r = r'.
Proof.
  induction x as [|a x IH]; destruct y as [|b y]; cbn; intros r r' Hl H; try discriminate; auto.
  injection H as -> H. injection Hl as Hl. destruct (IH y r r' Hl H) as [-> ->]. auto.
Qed.

Lemma encb_inj : forall x y r r', encb x ++ r = encb y ++ r' -> x = y /\ r = r'.
Proof.
  intros x y r r' H. unfold encb in H. cbn in H. injection H as Hl H.
  apply app_inj_len; auto. unfold len in Hl. apply Nat2N.inj in Hl. exact Hl.
Qed.

Lemma cons_inj : forall (a b : N) (x y : bytes), a :: x = b :: y -> a = b /\ x = y.
Proof. intros a b x y H. injection H; auto. Qed.

Lemma enc_op_inj : forall a b r r', enc_op a ++ r = enc_op b ++ r' -> a = b /\ r = r'.
Proof.
  intros a b r r' H. destruct a, b; try (cbn in H; discriminate H).
  - change ((1 :: []) ++ r = (1 :: []) ++ r') in H. cbn [app] in H. apply cons_inj in H as [_ ->]. auto.
  - change (2 :: (encb k ++ encb id) ++ r = 2 :: (encb k0 ++ encb id0) ++ r') in H.
    apply cons_inj in H as [_ H]. rewrite <- !app_assoc in H.
    apply encb_inj in H as [-> H]. apply encb_inj in H as [-> ->]. auto.
  - change (3 :: encb x ++ r = 3 :: encb x0 ++ r') in H. apply cons_inj in H as [_ H].
    apply encb_inj in H as [-> ->]. auto.
  - change (4 :: encb pt ++ r = 4 :: encb pt0 ++ r') in H. apply cons_inj in H as [_ H].
    apply encb_inj in H as [-> ->]. auto.
  - change (5 :: n :: r = 5 :: n0 :: r') in H. apply cons_inj in H as [_ H]. apply cons_inj in H as [-> ->]. auto.
  - change (6 :: r = 6 :: r') in H. apply cons_inj in H as [_ ->]. auto.
Qed.

Lemma enc_tr_inj : forall T T', enc_tr T = enc_tr T' -> T = T'.
Proof.
  induction T as [|a T IH]; destruct T' as [|b T']; cbn; intros H; auto.
  - destruct b; cbn in H; discriminate.
  - destruct a; cbn in H; discriminate.
  - apply enc_op_inj in H as [-> H]. f_equal. auto.
Qed.

Definition injO : doracle := {| o_sq := fun T _ => enc_tr T; o_dec := fun _ c => c; o_enc := fun _ p => p |}.

Theorem mac_binding_satisfiable : mac_binding injO.
Proof. intros T T' H. apply enc_tr_inj. exact H. Qed.

Theorem crypt_injective_satisfiable : crypt_injective injO.
Proof. intros T c c' H. exact H. Qed.

Definition zeroO : doracle :=
  {| o_sq := fun _ n => repeat 0 (N.to_nat n); o_dec := fun _ c => c; o_enc := fun _ p => p |}.

Theorem duplex_ok_satisfiable : duplex_ok zeroO.
Proof.
  split; cbn; auto. intros T n. unfold len. rewrite repeat_length. apply N2Nat.id.
Qed.
