(* C13 — the Cyclist duplex matches its specification and stays in sync across peers.
   Theorems are for EVERY function f on states (in particular every permutation, Keccak-p[1600,12]
   among them), every operand length (empty and multi-block included) and every program.
   "Matches its specification" is the pair: Model/Cyclist.v is the Cyclist mode of the Xoodyak paper
   and reproduces the published XKCP transcript (Proofs/CyclistVectors.v, Proofs/KeccakVectors.v), and
   the Go code agrees with that model on every run of ./check C13 (Corr/C13.v). *)
From Hop Require Import Base Keccak Cyclist CyclistProofs CyclistVectors KeccakVectors.
Open Scope N_scope.

(* The receiver of a ciphertext recovers the plaintext AND ends in exactly the sender's state. *)
Theorem c13_decrypt_encrypt : forall (f : bytes -> bytes) c p ct c1,
  cy_encrypt f c p = Ok (ct, c1) -> cy_decrypt f c ct = Ok (p, c1).
Proof. exact decrypt_encrypt. Qed.
Print Assumptions c13_decrypt_encrypt.

(* ... and the other direction (a peer that decrypted can be mirrored by one that encrypts). *)
Theorem c13_encrypt_decrypt : forall (f : bytes -> bytes) c ct p c1,
  cy_decrypt f c ct = Ok (p, c1) -> cy_encrypt f c p = Ok (ct, c1).
Proof. exact encrypt_decrypt. Qed.
Print Assumptions c13_encrypt_decrypt.

(* Sync over programs.  [cy_run f c ops] runs any program over Absorb / Encrypt / Decrypt / Squeeze /
   SqueezeKey / Ratchet and returns what every call returned plus the final object.  The peer starts
   from an equal object and runs the mirrored program: Decrypt of each ciphertext the first side
   produced, Encrypt of each plaintext it recovered, and the same Absorb/Squeeze/SqueezeKey/Ratchet
   calls.  Then the peer's outputs are: the original plaintext at every Encrypt, the original
   ciphertext at every Decrypt, and *the same bytes* at every Squeeze / SqueezeKey at every later
   step; and both objects end in the same state. *)
Theorem c13_sync_program : forall (f : bytes -> bytes) ops c outs c',
  cy_run f c ops = Ok (outs, c') ->
  cy_run f c (mirror_ops ops outs) = Ok (mirror_outs ops outs, c').
Proof. exact run_mirror. Qed.
Print Assumptions c13_sync_program.

(* the mirrored view is a faithful one: mirroring it again gives the original program and outputs
   (so the statement above is not about some degenerate peer program) *)
Theorem c13_mirror_involutive : forall (f : bytes -> bytes) ops c outs c',
  cy_run f c ops = Ok (outs, c') ->
  mirror_ops (mirror_ops ops outs) (mirror_outs ops outs) = ops /\
  mirror_outs (mirror_ops ops outs) (mirror_outs ops outs) = outs.
Proof. exact mirror_involutive. Qed.
Print Assumptions c13_mirror_involutive.

(* a call the first side cannot make (keyed-only call in hash mode) cannot be made by the peer either *)
Theorem c13_panic_symmetric : forall (f : bytes -> bytes) c o y,
  cy_step f c o = Panic -> cy_step f c (mirror_op o y) = Panic.
Proof. exact step_panic_mirror. Qed.
Print Assumptions c13_panic_symmetric.

(* Length laws: every call returns exactly as many bytes as asked / given, for every state-length
   preserving f, on every object reachable from Initialize. *)
Theorem c13_lengths_if_f_preserves_length : forall (f : bytes -> bytes),
  (forall s, List.length (f s) = cy_fB) ->
  (forall k id ctr c, cy_initialize f k id ctr = Ok c -> cy_wf c) /\
  (forall c o y c1, cy_wf c -> cy_step f c o = Ok (y, c1) ->
     cy_wf c1 /\
     List.length y = match o with
                     | CAbsorb _ | CRatchet => 0%nat
                     | CEncrypt p => List.length p
                     | CDecrypt ct => List.length ct
                     | CSqueeze n | CSqueezeKey n => n
                     end).
Proof. exact lengths_law. Qed.
Print Assumptions c13_lengths_if_f_preserves_length.

(* ciphertext length needs no hypothesis at all *)
Theorem c13_crypt_length : forall (f : bytes -> bytes) d c i, List.length (fst (crypt f d c i)) = List.length i.
Proof. exact crypt_length. Qed.
Print Assumptions c13_crypt_length.

(* the instance hop uses satisfies the hypothesis of the length theorem *)
Theorem c13_keccak12_preserves_length : forall s, List.length (keccak12 s) = cy_fB.
Proof. exact keccak12_len. Qed.
Print Assumptions c13_keccak12_preserves_length.

(* domain separation as in the specification's table: hash mode ignores c_U and keeps only bit 0 of c_D *)
Theorem c13_hash_mode_ignores_cu : forall (f : bytes -> bytes) c cu, md c = MHash -> cy_up f c cu = cy_up f c 0.
Proof. exact up_hash_ignores_cu. Qed.
Print Assumptions c13_hash_mode_ignores_cu.
Theorem c13_hash_mode_masks_cd : forall c x cd, md c = MHash -> cy_down c x cd = cy_down c x (N.land cd 1).
Proof. exact down_hash_masks_cd. Qed.
Print Assumptions c13_hash_mode_masks_cd.

(* ---- anchors and non-vacuity ---- *)
(* the published XKCP transcript, on the Gallina Cyclist over the Gallina Keccak-p[1600,12] *)
Theorem c13_xkcp_transcript : run_from_key xkcp_ops = Some xkcp_outs.
Proof. exact cyclist_xkcp_transcript. Qed.
Print Assumptions c13_xkcp_transcript.

(* a concrete keyed multi-block program (137-byte and empty operands, ratchet, key squeeze) satisfies
   the premise of c13_sync_program with f = keccak12, and the peer's squeezes are the same bytes *)
Definition ex_prog : list cop :=
  [CAbsorb (repeat 7 137%nat); CEncrypt (repeat 1 273%nat); CSqueeze 16%nat; CDecrypt []; CRatchet;
   CSqueezeKey 32%nat; CEncrypt []; CSqueeze 140%nat].
Example c13_sync_nonvacuous :
  match cy_initialize keccak12 (repeat 9 16%nat) [1; 2] [3] with
  | Ok c => match cy_run keccak12 c ex_prog with
            | Ok (outs, c') =>
                cy_run keccak12 c (mirror_ops ex_prog outs) = Ok (mirror_outs ex_prog outs, c') /\
                nth 2 (mirror_outs ex_prog outs) [] = nth 2 outs [] /\ List.length (nth 7 outs []) = 140%nat /\
                nth 1 outs [] <> repeat 1 273%nat
            | _ => False
            end
  | _ => False
  end.
Proof. vm_compute. repeat split; congruence. Qed.
