(* proofs for Model/Principal.v — see Properties/C06.v *)
From Hop Require Import Base Principal.
Open Scope N_scope.

(* ---------- decidable equalities ---------- *)

Lemma beq_bytes_eq : forall a b, beq_bytes a b = true <-> a = b.
Proof.
  induction a as [|x a IH]; destruct b as [|y b]; simpl; split; intro H; try reflexivity; try discriminate.
  - apply andb_true_iff in H. destruct H as [H1 H2]. apply N.eqb_eq in H1. apply IH in H2. congruence.
  - inversion H; subst. rewrite N.eqb_refl. simpl. apply IH. reflexivity.
Qed.

Lemma intent_eqb_eq : forall a b, intent_eqb a b = true <-> a = b.
Proof.
  intros [a1 a2 a3 a4 a5 a6 a7 a8 a9 a10] [b1 b2 b3 b4 b5 b6 b7 b8 b9 b10]. unfold intent_eqb. cbn [i_gtype i_reserved i_port i_start i_exp i_sni_ty i_sni_label i_user i_dcert i_cmd].
  repeat rewrite andb_true_iff. repeat rewrite N.eqb_eq. repeat rewrite beq_bytes_eq.
  split.
  - intros [[[[[[[[[? ?] ?] ?] ?] ?] ?] ?] ?] ?]. congruence.
  - intro H. inversion H. subst. repeat split; reflexivity.
Qed.

Lemma intent_eqb_refl : forall a, intent_eqb a a = true.
Proof. intro a. apply intent_eqb_eq. reflexivity. Qed.

Lemma url_eqb_eq : forall a b, url_eqb a b = true <-> a = b.
Proof.
  intros [[u1 h1] p1] [[u2 h2] p2]. unfold url_eqb.
  repeat rewrite andb_true_iff. rewrite N.eqb_eq. repeat rewrite beq_bytes_eq.
  split.
  - intros [[? ?] ?]. congruence.
  - intro H. inversion H. auto.
Qed.

Lemma same_fields_eq : forall a b, same_fields a b <-> a = b.
Proof.
  intros [a1 a2 a3 a4 a5 a6 a7 a8 a9 a10] [b1 b2 b3 b4 b5 b6 b7 b8 b9 b10]. unfold same_fields. simpl. split.
  - intros (?&?&?&?&?&?&?&?&?&?). congruence.
  - intro H. inversion H. repeat split; reflexivity.
Qed.

(* ---------- case analysis of one step ---------- *)

Ltac step_cases st r :=
  let cn := fresh "cn" in let ti := fresh "ti" in let tc := fresh "tc" in let cl := fresh "cl" in
  let i := fresh "i" in let dec := fresh "dec" in let su := fresh "su" in let rep := fresh "rep" in
  let c := fresh "c" in let post := fresh "post" in let Eurl := fresh "Eurl" in
  unfold principal_step, first_phase, later_phase, forward_phase, set_closed;
  destruct st as [cn ti tc cl]; destruct r as [i dec su rep];
  cbn [connected tinfo tcert tclosed r_intent r_decision r_setup r_reply];
  destruct cn; cbn [andb negb];
  [ destruct (url_eqb ti (target_url i)) eqn:Eurl; cbn [andb negb] | ];
  try (destruct su as [|c post]); try (destruct dec); try (destruct post); cbn [andb negb];
  try (destruct cl); try (destruct rep);
  cbn [andb negb fst snd app connected tinfo tcert tclosed].

(* ---------- the monitor ---------- *)

Lemma fwd_ok_step : forall st r pend rest,
  fwd_ok pend (snd (principal_step st r) ++ rest) = fwd_ok None rest.
Proof.
  intros st r pend rest. step_cases st r; cbn [fwd_ok app]; try rewrite intent_eqb_refl; reflexivity.
Qed.

Lemma fwd_ok_run : forall rs st pend, fwd_ok pend (List.concat (run st rs)) = true.
Proof.
  induction rs as [|r rs IH]; intros st pend.
  - destruct pend; reflexivity.
  - cbn [run]. destruct (principal_step st r) as [st' tr] eqn:E. cbn [List.concat].
    replace tr with (snd (principal_step st r)) by (rewrite E; reflexivity).
    rewrite fwd_ok_step. apply IH.
Qed.

Lemma fwd_ok_sound : forall tr pend pre i d post,
  fwd_ok pend tr = true -> tr = pre ++ ToTarget i d :: post ->
  (exists pre1 c mid, pre = pre1 ++ Callback i c true :: mid /\ forallb quiet mid = true) \/
  (forallb quiet pre = true /\ pend = Some i).
Proof.
  induction tr as [|e tr IH]; intros pend pre i d post Hok Heq.
  - destruct pre; discriminate.
  - destruct pre as [|e' pre].
    + cbn [app] in Heq. inversion Heq; subst. cbn [fwd_ok] in Hok.
      destruct pend as [j|]; [|discriminate]. apply andb_true_iff in Hok. destruct Hok as [H1 _].
      apply intent_eqb_eq in H1. subst. right. split; reflexivity.
    + cbn [app] in Heq. inversion Heq; subst e' tr. clear Heq.
      destruct e as [u|j c ok|j d'|m]; cbn [fwd_ok] in Hok.
      * destruct (IH _ _ _ _ _ Hok eq_refl) as [(pre1&c&mid&Hp&Hq)|[Hq Hp]].
        -- left. exists (SetupCall u :: pre1), c, mid. subst. split; [reflexivity|assumption].
        -- right. split; [|assumption]. cbn [forallb]. rewrite Hq. reflexivity.
      * destruct (IH _ _ _ _ _ Hok eq_refl) as [(pre1&c'&mid&Hp&Hq)|[Hq Hp]].
        -- left. exists (Callback j c ok :: pre1), c', mid. subst. split; [reflexivity|assumption].
        -- left. destruct ok; [|discriminate]. inversion Hp; subst.
           exists [], c, pre. split; [reflexivity|assumption].
      * destruct pend as [k|]; [|discriminate]. apply andb_true_iff in Hok. destruct Hok as [_ Hok].
        destruct (IH _ _ _ _ _ Hok eq_refl) as [(pre1&c&mid&Hp&Hq)|[Hq Hp]]; [|discriminate].
        left. exists (ToTarget j d' :: pre1), c, mid. subst. split; [reflexivity|assumption].
      * destruct (IH _ _ _ _ _ Hok eq_refl) as [(pre1&c&mid&Hp&Hq)|[Hq Hp]]; [|discriminate].
        left. exists (ToDelegate m :: pre1), c, mid. subst. split; [reflexivity|assumption].
Qed.

Lemma forward_implies_approved : forall rs st pre post i d,
  List.concat (run st rs) = pre ++ ToTarget i d :: post ->
  exists pre1 c mid, pre = pre1 ++ Callback i c true :: mid /\ forallb quiet mid = true.
Proof.
  intros rs st pre post i d H.
  destruct (fwd_ok_sound _ None _ _ _ _ (fwd_ok_run rs st None) H) as [Hl|[_ Hr]]; [assumption|discriminate].
Qed.

(* ---------- per-request facts ---------- *)

Lemma run_length : forall rs st, List.length (run st rs) = List.length rs.
Proof.
  induction rs as [|r rs IH]; intro st; [reflexivity|].
  cbn [run]. destruct (principal_step st r). cbn [List.length]. rewrite IH. reflexivity.
Qed.

(* a property of (request, trace) pairs that holds for the step from any state holds along any run *)
Lemma run_Forall2 : forall (P : req -> list event -> Prop),
  (forall st r, P r (snd (principal_step st r))) ->
  forall rs st, Forall2 P rs (run st rs).
Proof.
  intros P HP. induction rs as [|r rs IH]; intro st; [constructor|].
  cbn [run]. destruct (principal_step st r) as [st' tr] eqn:E. constructor.
  - replace tr with (snd (principal_step st r)) by (rewrite E; reflexivity). apply HP.
  - apply IH.
Qed.

Ltac in_cases H := cbn [In] in H; repeat (destruct H as [H|H]); try discriminate H; try contradiction.

Definition request_forward_ok (r : req) (tr : list event) : Prop :=
  forall i d, In (ToTarget i d) tr ->
    i = r_intent r /\ r_decision r = true /\
    exists c pre post, tr = pre ++ Callback (r_intent r) c true :: post /\ In (ToTarget i d) post /\
                       forallb (fun e => negb (is_forward e)) pre = true.

Lemma step_forward_ok : forall st r, request_forward_ok r (snd (principal_step st r)).
Proof.
  intros st r. unfold request_forward_ok. intros i0 d0 Hin.
  revert Hin; step_cases st r; intro Hin; in_cases Hin; inversion Hin; subst;
    (split; [reflexivity|split; [reflexivity|]]);
    first [ eexists; exists [SetupCall (target_url i0)]; eexists; split; [reflexivity|split; [cbn [In]; auto|reflexivity]]
          | eexists; exists []; eexists; split; [reflexivity|split; [cbn [In]; auto|reflexivity]] ].
Qed.

Definition request_callback_ok (r : req) (tr : list event) : Prop :=
  forall i c ok, In (Callback i c ok) tr -> i = r_intent r /\ ok = r_decision r.

Lemma step_callback_ok : forall st r, request_callback_ok r (snd (principal_step st r)).
Proof.
  intros st r. unfold request_callback_ok. intros i0 c0 ok0 Hin.
  revert Hin; step_cases st r; intro Hin; in_cases Hin; inversion Hin; subst; split; reflexivity.
Qed.

Definition one_answer_last (tr : list event) : Prop :=
  answers tr = 1%nat /\ exists pre m, tr = pre ++ [ToDelegate m].

Lemma step_one_answer : forall st r, one_answer_last (snd (principal_step st r)).
Proof.
  intros st r. unfold one_answer_last, answers.
  step_cases st r; (split; [reflexivity|]);
    first [ exists []; eexists; reflexivity
          | eexists [_]; eexists; reflexivity
          | eexists [_; _]; eexists; reflexivity
          | eexists [_; _; _]; eexists; reflexivity
          | eexists [_; _; _; _]; eexists; reflexivity ].
Qed.

Lemma run_Forall : forall (P : list event -> Prop),
  (forall st r, P (snd (principal_step st r))) -> forall rs st, Forall P (run st rs).
Proof.
  intros P HP. induction rs as [|r rs IH]; intro st; [constructor|].
  cbn [run]. destruct (principal_step st r) as [st' tr] eqn:E. constructor.
  - replace tr with (snd (principal_step st r)) by (rewrite E; reflexivity). apply HP.
  - apply IH.
Qed.

Definition request_confirm_ok (r : req) (tr : list event) : Prop :=
  In (ToDelegate DConf) tr ->
    r_reply r = TConfirm /\ r_decision r = true /\
    exists pre post, tr = pre ++ ToTarget (r_intent r) true :: post /\ In (ToDelegate DConf) post.

Lemma step_confirm_ok : forall st r, request_confirm_ok r (snd (principal_step st r)).
Proof.
  intros st r. unfold request_confirm_ok. intro Hin.
  revert Hin; step_cases st r; intro Hin; in_cases Hin; (split; [reflexivity|split; [reflexivity|]]);
    first [ exists [SetupCall (target_url i); Callback i (Some c) true]; eexists; split; [reflexivity|cbn [In]; auto]
          | exists [Callback i tc true]; eexists; split; [reflexivity|cbn [In]; auto] ].
Qed.

(* a denied request produces no write on the target connection at all *)
Definition request_denied_ok (r : req) (tr : list event) : Prop :=
  r_decision r = false -> forallb (fun e => negb (is_forward e)) tr = true /\ ~ In (ToDelegate DConf) tr.

Lemma step_denied_ok : forall st r, request_denied_ok r (snd (principal_step st r)).
Proof.
  intros st r. unfold request_denied_ok. intro Hd.
  revert Hd; step_cases st r; intro Hd; try discriminate Hd;
    (split; [reflexivity|intro Hin; in_cases Hin]).
Qed.

(* ---------- the connected target: URL and certificate ---------- *)

(* established by the request that connected: its URL and the certificate its handshake presented *)
Definition conn_inv (st : pstate) (rs : list req) : Prop :=
  connected st = true ->
  exists rs1 r rs2 c,
    rs = rs1 ++ r :: rs2 /\ connected (final p_init rs1) = false /\
    r_setup r = SetupCb c true /\ r_decision r = true /\
    tinfo st = target_url (r_intent r) /\ tcert st = Some c.

Lemma final_app : forall rs1 rs2 st, final st (rs1 ++ rs2) = final (final st rs1) rs2.
Proof. induction rs1 as [|r rs1 IH]; intros; [reflexivity|]. cbn [app final]. apply IH. Qed.

Lemma step_connected_mono : forall st r, connected st = true ->
  connected (fst (principal_step st r)) = true /\
  tinfo (fst (principal_step st r)) = tinfo st /\ tcert (fst (principal_step st r)) = tcert st.
Proof.
  intros st r H. step_cases st r; cbn [connected] in H; try discriminate H; repeat split; reflexivity.
Qed.

Lemma step_connects : forall st r, connected st = false -> connected (fst (principal_step st r)) = true ->
  exists c, r_setup r = SetupCb c true /\ r_decision r = true /\
            tinfo (fst (principal_step st r)) = target_url (r_intent r) /\ tcert (fst (principal_step st r)) = Some c.
Proof.
  intros st r H H'. revert H'. step_cases st r; cbn [connected] in H; try discriminate H;
    cbn [connected]; intro H'; try discriminate H'; exists c; repeat split; reflexivity.
Qed.

Lemma conn_inv_run : forall rs, conn_inv (final p_init rs) rs.
Proof.
  intro rs. induction rs as [|r rs IH] using rev_ind.
  - intro H. discriminate H.
  - rewrite final_app. cbn [final]. intro H.
    destruct (connected (final p_init rs)) eqn:Ec.
    + destruct (IH Ec) as (rs1&r0&rs2&c&Hrs&Hn&Hs&Hd&Hu&Hc).
      destruct (step_connected_mono (final p_init rs) r Ec) as (_&Hti&Htc).
      exists rs1, r0, (rs2 ++ [r]), c. repeat split; try assumption.
      * rewrite Hrs. rewrite <- app_assoc. reflexivity.
      * rewrite Hti. assumption.
      * rewrite Htc. assumption.
    + destruct (step_connects _ r Ec H) as (c&Hs&Hd&Hu&Hc).
      exists rs, r, [], c. repeat split; assumption.
Qed.

(* on a connected instance: forwards only intents naming the connected target, callback sees its certificate *)
Lemma step_on_connected : forall st r, connected st = true ->
  (forall i d, In (ToTarget i d) (snd (principal_step st r)) -> target_url i = tinfo st) /\
  (forall i c ok, In (Callback i c ok) (snd (principal_step st r)) -> c = tcert st) /\
  (forall u, ~ In (SetupCall u) (snd (principal_step st r))).
Proof.
  intros st r H. step_cases st r; cbn [connected] in H; try discriminate H;
    (split; [intros i0 d0 Hin|split; [intros i0 c0 ok0 Hin|intros u0 Hin]]); in_cases Hin;
    inversion Hin; subst; try reflexivity; symmetry; apply url_eqb_eq; assumption.
Qed.

(* on an unconnected instance: the callback runs only inside a setup call for the intent's own URL, on the
   certificate that setup presented *)
Lemma step_on_unconnected : forall st r, connected st = false ->
  (forall i d, In (ToTarget i d) (snd (principal_step st r)) ->
     exists c, r_setup r = SetupCb c true /\ In (Callback i (Some c) true) (snd (principal_step st r))) /\
  (forall i c ok, In (Callback i c ok) (snd (principal_step st r)) ->
     exists c' post, r_setup r = SetupCb c' post /\ c = Some c' /\
       exists rest, snd (principal_step st r) = SetupCall (target_url i) :: Callback i c ok :: rest).
Proof.
  intros st r H. step_cases st r; cbn [connected] in H; try discriminate H;
    (split; [intros i0 d0 Hin|intros i0 c0 ok0 Hin]); in_cases Hin; inversion Hin; subst;
    try (eexists; split; [reflexivity|cbn [In]; auto]);
    try (eexists; eexists; split; [reflexivity|split; [reflexivity|eexists; reflexivity]]).
Qed.

(* ---------- target instance ---------- *)

Definition tmsg_ok (m : tmsg) (tr : list tevent) : Prop :=
  (In (TReply DConf) tr ->
     exists i, m = TComm i true true /\ tr = [TCheck i true; TAdd i true; TReply DConf]) /\
  (forall i ok, In (TAdd i ok) tr -> exists pre post, tr = pre ++ TCheck i true :: post /\ In (TAdd i ok) post) /\
  (treplies tr <= 1)%nat.

Lemma target_step_ok : forall ts m, tmsg_ok m (snd (target_step ts m)).
Proof.
  intros [al stt] m. unfold tmsg_ok, target_step. cbn [t_alive t_store].
  destruct al; cbn [negb]; [|cbn; repeat split; try tauto; try (intros; contradiction); auto].
  destruct m as [i c a|]; [|cbn; repeat split; try tauto; try (intros; contradiction); auto].
  destruct c; cbn [negb]; [destruct a; cbn [negb]|]; cbn [snd]; repeat split.
  - intros _. exists i. split; reflexivity.
  - intros i0 ok0 Hin. in_cases Hin. inversion Hin; subst. exists [], [TAdd i0 true; TReply DConf]. split; [reflexivity|cbn [In]; auto].
  - cbn. auto.
  - intro Hin. in_cases Hin.
  - intros i0 ok0 Hin. in_cases Hin. inversion Hin; subst. exists [], [TAdd i0 false; TReply DDeny]. split; [reflexivity|cbn [In]; auto].
  - cbn. auto.
  - intro Hin. in_cases Hin.
  - intros i0 ok0 Hin. in_cases Hin.
  - cbn. auto.
Qed.

Lemma trun_Forall2 : forall ms ts, Forall2 tmsg_ok ms (trun ts ms).
Proof.
  induction ms as [|m ms IH]; intro ts; [constructor|].
  cbn [trun]. destruct (target_step ts m) as [ts' tr] eqn:E. constructor.
  - replace tr with (snd (target_step ts m)) by (rewrite E; reflexivity). apply target_step_ok.
  - apply IH.
Qed.

(* the store grows by exactly the confirmed communications *)
Lemma target_store : forall ms ts, t_store (tfinal ts ms) = t_store ts ++ tconfirmed ms (trun ts ms).
Proof.
  induction ms as [|m ms IH]; intro ts.
  - cbn. rewrite app_nil_r. reflexivity.
  - cbn [tfinal trun]. destruct (target_step ts m) as [ts' tr] eqn:E. cbn [fst].
    rewrite IH. revert E. unfold target_step. destruct ts as [al stt]. cbn [t_alive t_store].
    destruct al; cbn [negb].
    + destruct m as [i c a|].
      * destruct c; cbn [negb]; [destruct a; cbn [negb]|]; intro E; inversion E; subst; cbn [tconfirmed existsb is_conf_reply orb t_store].
        -- rewrite <- app_assoc. reflexivity.
        -- reflexivity.
        -- reflexivity.
      * intro E; inversion E; subst. reflexivity.
    + intro E; inversion E; subst. destruct m; reflexivity.
Qed.

(* ---------- principal and target instance together ---------- *)

Definition sys_inv (st : pstate * tstate) : Prop := tclosed (fst st) = false /\ t_alive (snd st) = true.

Lemma reply_of_cases : forall ts i c a, t_alive ts = true ->
  let '(ts', ttr) := target_step ts (TComm i c a) in
  (c && a = true /\ reply_of ttr = TConfirm /\ ts' = mkT true (t_store ts ++ [i]) /\ ttr = [TCheck i true; TAdd i true; TReply DConf]) \/
  (c && a = false /\ reply_of ttr = TDeny /\ ts' = ts /\ ~ In (TReply DConf) ttr /\ ~ In (TAdd i true) ttr).
Proof.
  intros [al stt] i c a H. cbn [t_alive] in H. subst. unfold target_step. cbn [t_alive t_store negb].
  destruct c; cbn [negb andb]; [destruct a; cbn [negb]|].
  - left. repeat split; reflexivity.
  - right. repeat split; try reflexivity; intro Hin; in_cases Hin.
  - right. repeat split; try reflexivity; intro Hin; in_cases Hin.
Qed.

Definition sys_step_ok (st : pstate * tstate) (r : ereq) : Prop :=
  let '(st', tr) := system_step st r in
  sys_inv st' /\
  ((existsb s_is_conf tr = true /\ t_store (snd st') = t_store (snd st) ++ [e_intent r] /\
    exists pre mid post, tr = pre ++ TE (TAdd (e_intent r) true) :: mid ++ PE (ToDelegate DConf) :: post) \/
   (existsb s_is_conf tr = false /\ (t_store (snd st') = t_store (snd st) \/
                                     (* stored by the target although the principal could not confirm: cannot happen on an intact link *)
                                     False))).

Lemma system_step_ok : forall st r, sys_inv st -> sys_step_ok st r.
Proof.
  intros [ps ts] r [Hc Ha]. cbn [fst snd] in Hc, Ha. unfold sys_step_ok, system_step.
  pose proof (reply_of_cases ts (e_intent r) (e_check r) (e_add r) Ha) as Hr.
  destruct (target_step ts (TComm (e_intent r) (e_check r) (e_add r))) as [ts' ttr].
  destruct r as [i dec su chk add]. cbn [e_intent e_decision e_setup e_check e_add] in *.
  destruct Hr as [(Hca&Hrep&Hts&Httr)|(Hca&Hrep&Hts&Hnc&Hna)]; rewrite Hrep; subst ts'.
  - (* target would confirm *)
    subst ttr. destruct ps as [cn ti tc cl]. cbn [tclosed] in Hc. subst cl.
    unfold principal_step, first_phase, later_phase, forward_phase, set_closed, sys_inv.
    cbn [connected tinfo tcert tclosed r_intent r_decision r_setup r_reply].
    destruct cn; cbn [andb negb];
      [destruct (url_eqb ti (target_url i)); cbn [andb negb]|];
      try (destruct su as [|c post]); try (destruct dec); try (destruct post); cbn [andb negb app existsb is_delivered orb splice map fst snd tclosed t_alive t_store s_is_conf];
      (split; [split; (reflexivity || assumption)|]);
      try (right; split; [reflexivity|left; reflexivity]);
      (left; split; [reflexivity|]; split; [reflexivity|]);
      first [ exists [PE (Callback i tc true); PE (ToTarget i true); TE (TCheck i true)], [TE (TReply DConf)], []; reflexivity
            | exists [PE (SetupCall (target_url i)); PE (Callback i (Some c) true); PE (ToTarget i true); TE (TCheck i true)], [TE (TReply DConf)], []; reflexivity ].
  - (* target would deny *)
    destruct ps as [cn ti tc cl]. cbn [tclosed] in Hc. subst cl.
    assert (Hnoconf : existsb is_conf_reply ttr = false).
    { unfold reply_of in Hrep. destruct (existsb is_conf_reply ttr); [discriminate|reflexivity]. }
    unfold principal_step, first_phase, later_phase, forward_phase, set_closed, sys_inv.
    cbn [connected tinfo tcert tclosed r_intent r_decision r_setup r_reply].
    destruct cn; cbn [andb negb];
      [destruct (url_eqb ti (target_url i)); cbn [andb negb]|];
      try (destruct su as [|c post]); try (destruct dec); try (destruct post); cbn [andb negb app existsb is_delivered orb splice map fst snd tclosed t_alive t_store s_is_conf];
      (split; [split; (reflexivity || assumption)|]);
      right; (split; [|left; reflexivity]);
      try reflexivity;
      rewrite existsb_app; cbn [existsb s_is_conf orb];
      rewrite orb_false_r;
      (assert (Hm : existsb s_is_conf (map TE ttr) = false) by (clear; induction ttr as [|e l IHl]; [reflexivity|cbn [map existsb s_is_conf]; exact IHl]));
      rewrite Hm; reflexivity.
Qed.

Lemma system_confirmed_is_stored : forall rs st, sys_inv st ->
  t_store (snd (sfinal st rs)) = t_store (snd st) ++ confirmed rs (srun st rs).
Proof.
  induction rs as [|r rs IH]; intros st Hinv.
  - cbn. rewrite app_nil_r. reflexivity.
  - cbn [sfinal srun]. pose proof (system_step_ok st r Hinv) as Hs. unfold sys_step_ok in Hs.
    destruct (system_step st r) as [st' tr]. cbn [fst]. destruct Hs as [Hinv' Hs].
    rewrite (IH st' Hinv'). cbn [confirmed].
    destruct Hs as [(Hc&Hst&_)|(Hc&[Hst|[]])]; rewrite Hc, Hst.
    + rewrite <- app_assoc. reflexivity.
    + reflexivity.
Qed.

Lemma system_confirm_after_store : forall rs st, sys_inv st ->
  Forall2 (fun r tr => existsb s_is_conf tr = true ->
             exists pre mid post, tr = pre ++ TE (TAdd (e_intent r) true) :: mid ++ PE (ToDelegate DConf) :: post)
          rs (srun st rs).
Proof.
  induction rs as [|r rs IH]; intros st Hinv; [constructor|].
  cbn [srun]. pose proof (system_step_ok st r Hinv) as Hs. unfold sys_step_ok in Hs.
  destruct (system_step st r) as [st' tr]. destruct Hs as [Hinv' Hs]. constructor.
  - intro Hc. destruct Hs as [(_&_&He)|(Hc'&_)]; [exact He|congruence].
  - apply IH. assumption.
Qed.

(* ---------- corollaries in the form used by Properties/C06.v ---------- *)

Lemma forwarded_is_approved_intent : forall rs st,
  Forall2 (fun r tr => forall i d, In (ToTarget i d) tr ->
             same_fields i (r_intent r) /\
             exists c pre post, tr = pre ++ Callback (r_intent r) c true :: post /\ In (ToTarget i d) post)
          rs (run st rs).
Proof.
  intros rs st. apply run_Forall2. intros st0 r i d Hin.
  destruct (step_forward_ok st0 r i d Hin) as (Hi&_&c&pre&post&Htr&Hp&_).
  split; [apply same_fields_eq; assumption|]. exists c, pre, post. split; assumption.
Qed.

Lemma later_requests_connected_target : forall rs r, connected (final p_init rs) = true ->
  exists rs1 r0 rs2 c0,
    rs = rs1 ++ r0 :: rs2 /\ connected (final p_init rs1) = false /\ r_setup r0 = SetupCb c0 true /\ r_decision r0 = true /\
    (forall i d, In (ToTarget i d) (snd (principal_step (final p_init rs) r)) -> target_url i = target_url (r_intent r0)) /\
    (forall i c ok, In (Callback i c ok) (snd (principal_step (final p_init rs) r)) -> c = Some c0) /\
    (forall u, ~ In (SetupCall u) (snd (principal_step (final p_init rs) r))).
Proof.
  intros rs r Hc. destruct (conn_inv_run rs Hc) as (rs1&r0&rs2&c0&Hrs&Hn&Hs&Hd&Hu&Hce).
  destruct (step_on_connected _ r Hc) as (Hf&Hcb&Hsu).
  exists rs1, r0, rs2, c0. repeat split; try assumption.
  - intros i d Hin. rewrite <- Hu. apply (Hf i d Hin).
  - intros i c ok Hin. rewrite <- Hce. apply (Hcb i c ok Hin).
Qed.

Lemma in_conf_existsb : forall tr, In (PE (ToDelegate DConf)) tr -> existsb s_is_conf tr = true.
Proof. intros tr H. apply existsb_exists. exists (PE (ToDelegate DConf)). split; [assumption|reflexivity]. Qed.

Lemma Forall2_weaken : forall {A B} (P Q : A -> B -> Prop), (forall a b, P a b -> Q a b) ->
  forall l1 l2, Forall2 P l1 l2 -> Forall2 Q l1 l2.
Proof. intros A B P Q H l1 l2 HF. induction HF; constructor; auto. Qed.

Lemma sys_inv_init : sys_inv (p_init, t_init).
Proof. split; reflexivity. Qed.

Lemma system_confirm_after_store_init : forall rs,
  Forall2 (fun r tr => In (PE (ToDelegate DConf)) tr ->
             exists pre mid post, tr = pre ++ TE (TAdd (e_intent r) true) :: mid ++ PE (ToDelegate DConf) :: post)
          rs (srun (p_init, t_init) rs).
Proof.
  intro rs. eapply Forall2_weaken; [|apply (system_confirm_after_store rs _ sys_inv_init)].
  cbv beta. intros r tr H Hin. apply H. apply in_conf_existsb. assumption.
Qed.

Lemma target_one_reply : forall ts i c a, t_alive ts = true ->
  treplies (snd (target_step ts (TComm i c a))) = 1%nat /\ t_alive (fst (target_step ts (TComm i c a))) = true.
Proof.
  intros [al stt] i c a H. cbn [t_alive] in H. subst. unfold target_step. cbn [t_alive negb].
  destruct c; cbn [negb]; [destruct a; cbn [negb]|]; split; reflexivity.
Qed.
