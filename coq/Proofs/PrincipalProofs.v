(* proofs for Model/Principal.v — see Properties/C06.v *)
From Hop Require Import Base Principal.
Open Scope N_scope.
