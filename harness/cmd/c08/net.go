package main

// Black-box part: two real muxers (tubes.Client / tubes.Server) over the scheduling in-memory MsgConn pair
// of hvxtubes, one reliable tube, both directions writing at once, under a seeded fault schedule (loss,
// duplication, reordering by random delay, latency, total outage then recovery).  Oracle, from the property
// statement: at every moment what a reader got is a prefix of what the other end wrote; once the network
// delivers again everything written becomes readable; EOF only after all of it.

import (
	"errors"
	"fmt"
	"io"
	"os"
	"regexp"
	"strconv"
	"sync"
	"time"

	"github.com/sirupsen/logrus"

	"hop.computer/hop/tubes"
	"verifharness/hv"
	hx "verifharness/hvxtubes"
)

type netScenario struct {
	class    string
	seed     uint64
	loss     int // percent, each direction, while faults are on
	dup      int // percent
	jitterMs int // random extra delay 0..jitter (reorders)
	latMs    int // constant one-way latency (kept after faults end)
	outFrom  time.Duration
	outLen   time.Duration // total outage (both directions) [outFrom, outFrom+outLen)
	faultEnd time.Duration // loss/dup/jitter stop here
	sizesA   []int         // writes by the opener
	sizesB   []int         // writes by the acceptor
	gapMs    int           // pause between writes
	dupEvery int           // >0: every dupEvery-th datagram (1 = every datagram) is delivered exactly twice, for the whole run; nothing is lost, delayed or reordered
	respond  bool          // the acceptor starts writing only after it has read the opener's EOF (request/response)
	deadline time.Duration // after faultEnd+outage: time allowed for completion
}

func quietLog() *logrus.Entry {
	l := logrus.New()
	l.SetOutput(io.Discard)
	l.SetLevel(logrus.PanicLevel)
	return logrus.NewEntry(l)
}

func (sc *netScenario) policy(r *hv.Rand) hx.Policy {
	var mu sync.Mutex
	return func(n int, t time.Duration, b []byte) hx.Fate {
		mu.Lock()
		defer mu.Unlock()
		f := hx.Fate{Delay: time.Duration(sc.latMs) * time.Millisecond}
		if sc.dupEvery > 0 && n%sc.dupEvery == 0 {
			f.Dup = 1
		}
		if sc.outLen > 0 && t >= sc.outFrom && t < sc.outFrom+sc.outLen {
			f.Drop = true
			return f
		}
		if t < sc.faultEnd {
			if r.Chance(sc.loss) {
				f.Drop = true
				return f
			}
			if r.Chance(sc.dup) {
				f.Dup = 1 + r.Intn(2)
			}
			if sc.jitterMs > 0 {
				f.Delay += time.Duration(r.Intn(sc.jitterMs*1000)) * time.Microsecond
			}
		}
		return f
	}
}

func streamBytes(seed uint64, sizes []int) (all []byte, parts [][]byte) {
	r := hv.NewRand(seed)
	for _, n := range sizes {
		p := r.Bytes(n)
		parts = append(parts, p)
		all = append(all, p...)
	}
	return
}

type dirResult struct {
	ok        bool
	sig, what string
	got, want int
	eof       bool
}

// reader reads until EOF or until stop is closed, checking the prefix property on every read.
func readAll(t net_conn, want []byte, stop <-chan struct{}, res *dirResult, done chan<- struct{}) {
	defer close(done)
	res.ok = true
	res.want = len(want)
	buf := make([]byte, 1<<16)
	for {
		select {
		case <-stop:
			return
		default:
		}
		n, err := t.Read(buf)
		if n > 0 {
			if res.got+n > len(want) {
				res.ok, res.sig = false, "C08:reader-got-bytes-beyond-stream"
				res.what = fmt.Sprintf("reader received %d bytes, only %d were written", res.got+n, len(want))
				return
			}
			for i := 0; i < n; i++ {
				if buf[i] != want[res.got+i] {
					res.ok, res.sig = false, "C08:reader-bytes-not-a-prefix"
					res.what = fmt.Sprintf("byte %d read from the tube is %#x, byte %d written was %#x", res.got+i, buf[i], res.got+i, want[res.got+i])
					return
				}
			}
			res.got += n
		}
		if err == io.EOF {
			res.eof = true
			if res.got < len(want) {
				res.ok, res.sig = false, "C08:eof-before-all-bytes"
				res.what = fmt.Sprintf("EOF after %d of %d written bytes", res.got, len(want))
			}
			return
		}
		if errors.Is(err, os.ErrDeadlineExceeded) {
			// our own Close cancelled pending reads; keep reading what the peer still sends
			t.SetReadDeadline(time.Time{})
			time.Sleep(2 * time.Millisecond)
			continue
		}
		if err != nil {
			if res.got < len(want) {
				res.ok, res.sig = false, "C08:read-error-before-all-bytes"
				res.what = fmt.Sprintf("Read failed with %q after %d of %d written bytes", err.Error(), res.got, len(want))
			}
			return
		}
	}
}

type net_conn interface {
	Read([]byte) (int, error)
	Write([]byte) (int, error)
	Close() error
	SetReadDeadline(time.Time) error
}

func runNet(sc netScenario, emit func(hv.Case)) {
	a, b := hx.NewPair()
	mA := tubes.Client(a, &tubes.Config{Timeout: 0, Log: quietLog()})
	mB := tubes.Server(b, &tubes.Config{Timeout: 0, Log: quietLog()})
	defer func() {
		go mA.Stop()
		go mB.Stop()
	}()
	tA, err := mA.CreateReliableTube(7)
	if err != nil {
		return
	}
	tBt, err := mB.Accept()
	if err != nil {
		return
	}
	tB := tBt.(*tubes.Reliable)
	tA.WaitForInit()
	tB.WaitForInit()

	dataA, partsA := streamBytes(sc.seed*2+1, sc.sizesA)
	dataB, partsB := streamBytes(sc.seed*2+2, sc.sizesB)
	rng := hv.NewRand(sc.seed)
	start := time.Now()
	a.Out().SetPolicy(sc.policy(hv.NewRand(rng.U64())))
	b.Out().SetPolicy(sc.policy(hv.NewRand(rng.U64())))

	stop := make(chan struct{})
	var resAB, resBA dirResult // A->B read at B, B->A read at A
	doneAB, doneBA := make(chan struct{}), make(chan struct{})
	go readAll(tB, dataA, stop, &resAB, doneAB)
	go readAll(tA, dataB, stop, &resBA, doneBA)

	var wg sync.WaitGroup
	writer := func(t net_conn, parts [][]byte, res *dirResult) {
		defer wg.Done()
		for _, p := range parts {
			n, err := t.Write(p)
			if err != nil || n != len(p) {
				res.ok, res.sig = false, "C08:write-fails-on-open-tube"
				res.what = fmt.Sprintf("Write(%d bytes) = %d, %v on a tube that was not closed", len(p), n, err)
				return
			}
			if sc.gapMs > 0 {
				time.Sleep(time.Duration(sc.gapMs) * time.Millisecond)
			}
		}
		t.Close()
	}
	var wA, wB dirResult
	wA.ok, wB.ok = true, true
	wg.Add(2)
	go writer(tA, partsA, &wA)
	if sc.respond {
		go func() {
			select {
			case <-doneAB:
			case <-time.After(sc.deadline):
			}
			writer(tB, partsB, &wB)
		}()
	} else {
		go writer(tB, partsB, &wB)
	}
	wg.Wait()

	clean := sc.faultEnd
	if sc.outFrom+sc.outLen > clean {
		clean = sc.outFrom + sc.outLen
	}
	limit := time.NewTimer(time.Until(start.Add(clean + sc.deadline)))
	defer limit.Stop()
	timedOut := false
	for _, d := range []chan struct{}{doneAB, doneBA} {
		select {
		case <-d:
		case <-limit.C:
			timedOut = true
		}
		if timedOut {
			break
		}
	}
	close(stop)
	elapsed := time.Since(start)
	// unblock readers still waiting
	tA.SetReadDeadline(time.Now())
	tB.SetReadDeadline(time.Now())
	select {
	case <-doneAB:
	case <-time.After(2 * time.Second):
	}
	select {
	case <-doneBA:
	case <-time.After(2 * time.Second):
	}

	desc := fmt.Sprintf("net %s respond-after-eof=%v deliver-twice-every=%d seed=%d loss=%d%% dup=%d%% jitter=%dms latency=%dms outage=[%v,+%v) faults-until=%v writesA=%v writesB=%v gap=%dms",
		sc.class, sc.respond, sc.dupEvery, sc.seed, sc.loss, sc.dup, sc.jitterMs, sc.latMs, sc.outFrom, sc.outLen, sc.faultEnd, summarize(sc.sizesA), summarize(sc.sizesB), sc.gapMs)
	for _, d := range []struct {
		name string
		res  *dirResult
		w    *dirResult
	}{{"opener->acceptor", &resAB, &wA}, {"acceptor->opener", &resBA, &wB}} {
		res := *d.res
		if res.ok && !d.w.ok {
			res = *d.w
		}
		note := ""
		if res.ok && res.got == res.want && !res.eof {
			// every written byte was delivered but end-of-stream was not reported within the time limit: not a C08
			// violation (EOF must not come early; that it comes at all is tube shutdown, C16) — recorded only
			note = " [all bytes delivered, EOF not reported within the limit]"
		}
		if res.ok && res.got < res.want {
			res.ok, res.sig = false, "C08:stream-incomplete-after-recovery"
			res.what = fmt.Sprintf("%s: %v after the start (network clean since %v) the reader has %d of %d written bytes, eof=%v; datagrams sent A->B %d (dropped %d), B->A %d (dropped %d); opener tube: %s; acceptor tube: %s",
				d.name, elapsed.Round(time.Millisecond), clean, res.got, res.want, res.eof, a.Out().Sent.Load(), a.Out().Dropped.Load(), b.Out().Sent.Load(), b.Out().Dropped.Load(),
				tubes.VerifTubeDebug(tA), tubes.VerifTubeDebug(tB))
		}
		if !res.ok && (res.sig == "C08:stream-incomplete-after-recovery" || res.sig == "C08:eof-before-all-bytes") {
			// docs/C08.md item 4: a sender that has counted more than 100 duplicate acknowledgements in a row makes
			// recvAck fail for ever and the tube tears itself down (errTooManyDuplicateACKs).  That specific
			// site gets its own signature (open finding); every other truncation keeps the general one.
			dA, dB := tubes.VerifTubeDebug(tA), tubes.VerifTubeDebug(tB)
			if dupOver100(dA) || dupOver100(dB) {
				res.sig = "C08:tube-closed-by-duplicate-ack-limit"
				res.what = fmt.Sprintf("%s: reader has %d of %d written bytes, eof=%v; datagrams sent A->B %d (dropped %d), B->A %d (dropped %d); a sender counted > 100 duplicate acknowledgements and the tube closed itself; opener tube: %s; acceptor tube: %s",
					d.name, res.got, res.want, res.eof, a.Out().Sent.Load(), a.Out().Dropped.Load(), b.Out().Sent.Load(), b.Out().Dropped.Load(), dA, dB)
			}
		}
		emit(hv.Case{Class: "net-" + sc.class, Desc: desc + " dir=" + d.name + note, Spec: res.ok, Sig: res.sig, What: res.what,
			NT: sc.loss > 0 || sc.dup > 0 || sc.dupEvery > 0 || sc.jitterMs > 0 || sc.outLen > 0, Key: fmt.Sprintf("%s|%d|%s", sc.class, sc.seed, d.name)})
	}
}

var dupRe = regexp.MustCompile(`dup=(\d+)`)

// dupOver100 reads the sender's duplicatedAckCounter out of VerifTubeDebug's text.
func dupOver100(debug string) bool {
	m := dupRe.FindStringSubmatch(debug)
	if m == nil {
		return false
	}
	n, err := strconv.Atoi(m[1])
	return err == nil && n > 100
}

func summarize(s []int) string {
	if len(s) <= 6 {
		return fmt.Sprint(s)
	}
	t := 0
	for _, x := range s {
		t += x
	}
	return fmt.Sprintf("[%d writes, %d bytes]", len(s), t)
}

func genNet(r *hv.Rand) {
	var scs []netScenario
	sizes := func(k, max int) []int {
		var s []int
		for i := 0; i < k; i++ {
			switch r.Intn(6) {
			case 0:
				s = append(s, 0)
			case 1:
				s = append(s, 1+r.Intn(10))
			case 2:
				s = append(s, hv.Pick(r, []int{32767, 32768, 32769, 65536, 65537}))
			default:
				s = append(s, r.Intn(max+1))
			}
		}
		return s
	}
	small := func(k int) []int {
		var s []int
		for i := 0; i < k; i++ {
			s = append(s, 1+r.Intn(60))
		}
		return s
	}
	upTo1000 := func(k int) []int {
		var s []int
		for i := 0; i < k; i++ {
			s = append(s, 1+r.Intn(1000))
		}
		return s
	}
	dl := time.Duration(hv.Scale(40, 120)) * time.Second
	n := hv.Scale(3, 12)
	for i := 0; i < n; i++ {
		scs = append(scs,
			netScenario{class: "clean", sizesA: sizes(4, 100000), sizesB: sizes(3, 100000)},
			netScenario{class: "loss", loss: hv.Pick(r, []int{3, 10, 25}), faultEnd: 3 * time.Second, sizesA: sizes(3, 100000), sizesB: sizes(2, 60000), gapMs: 20},
			netScenario{class: "dup-reorder", dup: 30, jitterMs: 40, faultEnd: 3 * time.Second, sizesA: sizes(4, 100000), sizesB: sizes(3, 100000), gapMs: 5},
			netScenario{class: "loss-dup-reorder", loss: 10, dup: 15, jitterMs: 25, faultEnd: 3 * time.Second, sizesA: sizes(3, 80000), sizesB: sizes(3, 80000), gapMs: 10},
			netScenario{class: "latency", latMs: hv.Pick(r, []int{5, 20, 40}), sizesA: sizes(3, 100000), sizesB: sizes(3, 100000)},
			netScenario{class: "respond-after-eof", latMs: hv.Pick(r, []int{2, 10, 30}), respond: true, sizesA: sizes(1, 2000), sizesB: append(sizes(2, 100000), 100000, 100000)},
			netScenario{class: "respond-after-eof-loss", loss: 20, faultEnd: 3 * time.Second, latMs: 2, respond: true, sizesA: sizes(1, 2000), sizesB: append(sizes(2, 100000), 100000, 100000)},
			// a link that delivers packets twice, in order, without loss: every acknowledgement arrives twice, so the
			// sender sees very many duplicate acknowledgements over the life of the tube, never many in a row
			netScenario{class: "small-writes-duplicating-link", dupEvery: hv.Pick(r, []int{1, 1, 2, 3}), sizesA: upTo1000(300 + r.Intn(300)), sizesB: upTo1000(300 + r.Intn(300))},
			netScenario{class: "many-small-writes-loss", loss: 12, faultEnd: 4 * time.Second, sizesA: small(120), sizesB: small(40), gapMs: 2},
			netScenario{class: "outage-recover", outFrom: 300 * time.Millisecond, outLen: time.Duration(600+r.Intn(1500)) * time.Millisecond, sizesA: sizes(4, 50000), sizesB: sizes(2, 50000), gapMs: 150},
		)
	}
	if hv.Thorough() {
		for _, d := range []int{13, 16, 30} {
			scs = append(scs, netScenario{class: "long-outage-recover", outFrom: 500 * time.Millisecond, outLen: time.Duration(d) * time.Second,
				sizesA: sizes(4, 50000), sizesB: sizes(2, 50000), gapMs: 300})
		}
	}
	var mu sync.Mutex
	var wg sync.WaitGroup
	for i := range scs {
		scs[i].seed = r.U64() % 1000000
		scs[i].deadline = dl
		wg.Add(1)
		go func(sc netScenario) {
			defer wg.Done()
			runNet(sc, func(c hv.Case) {
				mu.Lock()
				hv.Emit(c)
				mu.Unlock()
			})
		}(scs[i])
	}
	wg.Wait()
}
