#!/bin/sh
# usage: coqgoal.sh <file.v> <line>  — prints the proof state just before <line> (scratch copy in /tmp)
f=$1; n=$2; d=$(mktemp -d /tmp/coqgoal.XXXX)
head -n $((n-1)) "$f" > $d/Scratch.v; echo "Show. Abort All." >> $d/Scratch.v
cd "$(dirname "$0")/../coq" && timeout 300 coqc -Q Model Hop -Q Proofs Hop -Q Properties Hop -Q Corr Hop -w none $d/Scratch.v 2>&1 | tail -${3:-60}; rm -rf $d
