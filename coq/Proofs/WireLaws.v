(* The per-format C18 laws in their final form (stability derived from the three laws of
   WireBaseProofs.Laws) and the C11 allocation statements; Properties/C18.v and C11.v only
   restate and `exact` these. *)
From Hop Require Import Base WireBase WireCert WireMsg WireFrame WireBaseProofs WireCertProofs WireMsgProofs WireFrameProofs.
From Coq Require Import ZifyN ZifyNat ZifyBool.
Open Scope N_scope.

Definition id_ {A} (x : A) : A := x.

(* ---------- wstring ---------- *)
Lemma wstring_stable s v r :
  val dec_wstring s = Ok (v, r) -> wf_bytes s = true ->
  exists b, enc_wstring v = Ok b /\ forall r', val dec_wstring (b ++ r') = Ok (v, r').
Proof.
  intros H Hwf. destruct (wstring_dec_sound _ _ _ H Hwf) as (_ & Hl & _).
  destruct (enc_wstring_complete _ Hl) as [b Hb]. exists b. split; [exact Hb|].
  intros r'. apply wstring_roundtrip. exact Hb.
Qed.

(* ---------- name ---------- *)
Lemma name_stable s v r :
  val dec_name s = Ok (v, r) -> wf_bytes s = true ->
  exists b, enc_name v = Ok b /\ forall r', val dec_name (b ++ r') = Ok (v, r').
Proof.
  apply (stable_from_laws enc_name dec_name wt_name repr_name id_).
  - intros v0 b rest He Hw. apply name_roundtrip; assumption.
  - intros s0 v0 r0 H Hwf. destruct (name_dec_sound _ _ _ H Hwf) as (A & B & _). auto.
  - intros v0 _ Hr. apply name_enc_complete. exact Hr.
Qed.

(* ---------- chunk ---------- *)
Lemma chunk_stable s v r :
  val dec_chunk s = Ok (v, r) -> wf_bytes s = true ->
  exists b, enc_chunk v = Ok b /\ forall r', val dec_chunk (b ++ r') = Ok (v, r').
Proof.
  apply (stable_from_laws enc_chunk dec_chunk wt_chunk repr_chunk id_).
  - intros v0 b rest He Hw. apply chunk_roundtrip; assumption.
  - intros s0 v0 r0 H Hwf. destruct (chunk_dec_sound _ _ _ H Hwf) as (A & B & _). auto.
  - intros v0 _ Hr. apply chunk_enc_complete. exact Hr.
Qed.

(* ---------- cert ---------- *)
Lemma cert_stable s v r :
  val dec_cert s = Ok (v, r) -> wf_bytes s = true ->
  exists b, enc_cert v = Ok b /\ forall r', val dec_cert (b ++ r') = Ok (v, r').
Proof.
  apply (stable_from_laws enc_cert dec_cert wt_cert repr_cert id_).
  - intros v0 b rest He Hw. apply cert_roundtrip; assumption.
  - intros s0 v0 r0 H Hwf. destruct (cert_dec_sound _ _ _ H Hwf) as (A & B & _). auto.
  - intros v0 _ Hr. apply cert_enc_complete. exact Hr.
Qed.

(* ---------- intent ---------- *)
Lemma intent_stable s v r :
  val dec_intent s = Ok (v, r) -> wf_bytes s = true ->
  exists b, enc_intent v = Ok b /\ forall r', val dec_intent (b ++ r') = Ok (v, r').
Proof.
  apply (stable_from_laws enc_intent dec_intent wt_intent repr_intent norm_intent).
  - intros v0 b rest He Hw. apply intent_roundtrip; assumption.
  - intros s0 v0 r0 H Hwf. destruct (intent_dec_sound _ _ _ H Hwf) as (A & B & C & _). auto.
  - intros v0 _ Hr. apply intent_enc_complete. exact Hr.
Qed.

(* ---------- AgMessage ---------- *)
Lemma ag_stable s v r :
  val dec_ag s = Ok (v, r) -> wf_bytes s = true ->
  exists b, enc_ag v = Ok b /\ forall r', val dec_ag (b ++ r') = Ok (v, r').
Proof.
  apply (stable_from_laws enc_ag dec_ag wt_ag repr_ag norm_ag).
  - intros v0 b rest He Hw. apply ag_roundtrip; assumption.
  - intros s0 v0 r0 H Hwf. destruct (ag_dec_sound _ _ _ H Hwf) as (A & B & C & _). auto.
  - intros v0 Hw Hr. apply ag_enc_complete; assumption.
Qed.

(* what ReadConfOrDenial accepts is what dec_ag accepts, with type 3 or 4 *)
Lemma conf_or_denial_inv s m r :
  val dec_conf_or_denial s = Ok (m, r) -> val dec_ag s = Ok (m, r) /\ (a_type m = 3 \/ a_type m = 4).
Proof.
  unfold dec_conf_or_denial, dec_ag_expect. rewrite val_bind.
  destruct (val dec_ag s) as [[m0 s1]| |]; try discriminate.
  destruct ((a_type m0 =? 3) || (a_type m0 =? 4)) eqn:E; [|discriminate].
  rewrite val_ret. intros H. injection H as <- <-. split; [reflexivity|]. lia.
Qed.

(* ---------- exec ---------- *)
Lemma exec_stable s v r :
  val dec_exec s = Ok (v, r) -> wf_bytes s = true -> exec_fits v = true ->
  forall r', val dec_exec (enc_exec v ++ r') = Ok (v, r').
Proof.
  intros H Hwf Hfit r'. apply exec_roundtrip; [|exact Hfit]. eapply exec_dec_sound; eauto.
Qed.

(* ---------- userauth ---------- *)
Lemma userauth_stable s v r :
  val dec_userauth s = Ok (v, r) -> wf_bytes s = true ->
  exists b, enc_userauth v = Ok b /\ forall r', val dec_userauth (b ++ r') = Ok (v, [0; 0] ++ r').
Proof.
  intros H Hwf. destruct (dec_userauth_sound _ _ _ H Hwf) as [_ Hl].
  destruct (enc_userauth_complete _ Hl) as [b Hb]. exists b. split; [exact Hb|].
  intros r'. apply userauth_roundtrip. exact Hb.
Qed.

(* ---------- allocation, in the c1*|b| + c2 form ---------- *)
Lemma alloc_wstring s : wf_bytes s = true -> cost dec_wstring s <= 0 * len s + 511.
Proof. intros. pose proof (dec_wstring_cost_const s H). lia. Qed.
Lemma alloc_intent s : wf_bytes s = true -> cost dec_intent s <= 0 * len s + intent_cost_bound.
Proof. intros. pose proof (dec_intent_cost s H). lia. Qed.
Lemma alloc_ag s : wf_bytes s = true -> cost dec_ag s <= 0 * len s + ag_cost_bound.
Proof. intros. pose proof (dec_ag_cost s H). lia. Qed.
Lemma alloc_conf_or_denial s : wf_bytes s = true -> cost dec_conf_or_denial s <= 0 * len s + ag_cost_bound.
Proof. intros. pose proof (dec_ag_expect_cost (fun t => (t =? 3) || (t =? 4)) s H). unfold dec_conf_or_denial. lia. Qed.
Lemma alloc_exec s : cost dec_exec s <= 2 * len s + (2 * copy_buf + 17).
Proof. pose proof (dec_exec_cost s). lia. Qed.
Lemma alloc_userauth s : wf_bytes s = true -> cost dec_userauth s <= 0 * len s + 131072.
Proof. intros. pose proof (dec_userauth_cost s H). lia. Qed.
Lemma alloc_pf ok s : wf_bytes s = true -> cost (dec_pf ok) s <= 0 * len s + 131074.
Proof. intros. pose proof (dec_pf_cost ok s H). lia. Qed.

(* the bounds are small concrete numbers *)
Lemma ag_cost_bound_value : ag_cost_bound = 89846.
Proof. reflexivity. Qed.

