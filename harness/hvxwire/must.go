package hvxwire

import (
	"bytes"
	"net"
	"strings"
	"time"

	"hop.computer/hop/authgrants"
	"hop.computer/hop/certs"
)

// Deterministic boundary values (Must) and fixed byte inputs (Corpus) that every run includes,
// whatever the seed: every length field at limit-1, limit, limit+1, every known enum value,
// and the inputs on which the unfixed code violated the property (regression cases).

func pat(n int, start byte) []byte { return PatternD(n, start, 1) }

func nameOf(n int, t certs.IDType) certs.Name { return certs.Name{Label: pat(n, byte(n)), Type: t} }

func chunkOfBody(total int) certs.IDChunk {
	// blocks whose serialized sizes sum to exactly `total` body bytes
	var c certs.IDChunk
	left := total
	for left > 0 {
		sz := left
		if sz > 255 {
			sz = 255
			if left-sz > 0 && left-sz < 3 {
				sz -= 3
			}
		}
		if sz < 3 {
			break
		}
		c.Blocks = append(c.Blocks, nameOf(sz-3, 1))
		left -= sz
	}
	return c
}

func certWith(ch certs.IDChunk, iss, exp int64) *certs.Certificate {
	c := new(certs.Certificate)
	c.Version, c.Type = 1, certs.Leaf
	c.IssuedAt, c.ExpiresAt = time.Unix(iss, 0), time.Unix(exp, 0)
	c.IDChunk = ch
	copy(c.PublicKey[:], PatternD(32, 1, 1))
	copy(c.Parent[:], PatternD(32, 2, 2))
	copy(c.Signature[:], PatternD(64, 3, 3))
	return c
}

func intentWith(gt byte, userLen, cmdLen, sniLen int, start, exp int64) *authgrants.Intent {
	i := new(authgrants.Intent)
	i.GrantType = authgrants.GrantType(gt)
	i.TargetPort = 77
	i.StartTime, i.ExpTime = time.Unix(start, 0), time.Unix(exp, 0)
	i.TargetSNI = nameOf(sniLen, certs.TypeDNSName)
	i.TargetUsername = string(pat(userLen, 'u'))
	i.DelegateCert = *certWith(certs.IDChunk{Blocks: []certs.Name{certs.RawStringName("delegate")}}, 1700000000, 1800000000)
	i.AssociatedData.CommandGrantData.Cmd = string(pat(cmdLen, 'c'))
	return i
}

func mustEncode(f *Format, v Value) []byte {
	o := RunEnc(f, v)
	if o.Code != OK {
		return nil
	}
	return o.Bytes
}

func init() {
	WString.Must = func() []Value {
		var vs []Value
		for _, n := range []int{0, 1, 254, 255, 256, 257, 300, 511, 512, 65535, 65536} {
			vs = append(vs, Value(Pattern(n, byte(n))))
		}
		return vs
	}
	WString.Corpus = func() [][]byte {
		return [][]byte{
			append([]byte{0}, pat(256, 1)...),  // what the unfixed WriteString produced for 256 bytes
			append([]byte{44}, pat(300, 1)...), // ... and for 300 bytes
			{255}, {1}, {},
		}
	}
	Name.Must = func() []Value {
		var vs []Value
		for _, n := range []int{0, 1, 2, 250, 251, 252, 253, 254, 255, 256, 300} {
			vs = append(vs, Value(nameOf(n, 1)))
		}
		for _, t := range []certs.IDType{0, 2, 3, 4, 255} {
			vs = append(vs, Value(nameOf(4, t)))
		}
		vs = append(vs, Value(certs.Name{}))
		return vs
	}
	Name.Corpus = func() [][]byte {
		return [][]byte{
			append([]byte{0, 1, 253}, pat(253, 9)...), // the unfixed encoder's output for a 253-byte label
			{2, 1, 0}, {3, 1, 1, 'x'}, {3, 1, 0}, {255, 1, 252}, append([]byte{255, 1, 253}, pat(253, 1)...), {10, 7, 2, 'a', 'b', 'c'},
		}
	}
	Chunk.Must = func() []Value {
		var vs []Value
		for _, body := range []int{0, 3, 6, 255, 258, 506, 507, 508, 509, 510, 511, 512, 513, 516, 765} {
			vs = append(vs, Value(chunkOfBody(body)))
		}
		for _, k := range []int{169, 170, 171} {
			var c certs.IDChunk
			for i := 0; i < k; i++ {
				c.Blocks = append(c.Blocks, certs.Name{Label: []byte{}, Type: certs.IDType(i % 4)})
			}
			vs = append(vs, Value(c))
		}
		vs = append(vs, Value(certs.IDChunk{Blocks: []certs.Name{nameOf(5, 1), nameOf(253, 1)}}),
			Value(certs.IDChunk{Blocks: []certs.Name{nameOf(252, 1), nameOf(252, 2)}}),
			Value(certs.IDChunk{Blocks: []certs.Name{nameOf(252, 1), nameOf(252, 2), nameOf(0, 0)}}))
		return vs
	}
	Chunk.Corpus = func() [][]byte { return chunkCorpus() }
	Cert.Must = func() []Value {
		var vs []Value
		for _, t := range certTimes {
			vs = append(vs, Value(certWith(chunkOfBody(12), t, 1700000000)), Value(certWith(chunkOfBody(0), 5, t)))
		}
		for _, body := range []int{509, 510, 511, 513} {
			vs = append(vs, Value(certWith(chunkOfBody(body), 1, 2)))
		}
		return vs
	}
	Cert.Corpus = func() [][]byte {
		var out [][]byte
		base := mustEncode(Cert, certWith(certs.IDChunk{}, 1, 2)) // 84 header bytes, chunk 00 02, 64 signature bytes
		for _, ch := range chunkCorpus() {
			out = append(out, append(append(append([]byte(nil), base[:84]...), ch...), base[86:]...))
		}
		// timestamps around what time.Time / int64 can hold
		for _, ts := range []uint64{uint64(MaxUnixTime), uint64(MaxUnixTime) + 1, 1<<63 - 1, 1 << 63, 1<<64 - 1} {
			b := append([]byte(nil), base...)
			for i := 0; i < 8; i++ {
				b[4+i] = byte(ts >> (56 - 8*i))
			}
			out = append(out, b)
			b2 := append([]byte(nil), base...)
			for i := 0; i < 8; i++ {
				b2[12+i] = byte(ts >> (56 - 8*i))
			}
			out = append(out, b2)
		}
		return out
	}
	Intent.Must = func() []Value {
		var vs []Value
		for _, gt := range []byte{0, 1, 2, 3, 4, 5, 6, 255} {
			vs = append(vs, Value(intentWith(gt, 4, 2, 6, 10, 20)))
		}
		for _, n := range []int{254, 255, 256, 257, 300} {
			vs = append(vs, Value(intentWith(2, n, 2, 6, 10, 20)), Value(intentWith(2, 4, n, 6, 10, 20)), Value(intentWith(1, 4, n, 6, 10, 20)))
		}
		for _, n := range []int{251, 252, 253, 254} {
			vs = append(vs, Value(intentWith(1, 4, 0, n, 10, 20)))
		}
		for _, t := range intentTimes {
			vs = append(vs, Value(intentWith(2, 4, 2, 6, t, 20)), Value(intentWith(2, 4, 2, 6, 10, t)))
		}
		return vs
	}
	Intent.Corpus = func() [][]byte {
		var out [][]byte
		// well-formed shell intent with the grant type byte replaced: 3 and 4 used to panic
		base := mustEncode(Intent, intentWith(1, 4, 0, 6, 10, 20))
		for _, gt := range []byte{0, 2, 3, 4, 5, 255} {
			b := append([]byte(nil), base...)
			b[0] = gt
			out = append(out, b, append(append([]byte(nil), b...), 2, 'l', 's'))
		}
		// the unfixed WriteString's encoding of a 300-byte command: length byte 44, then 300 bytes
		cmd := mustEncode(Intent, intentWith(2, 4, 0, 6, 10, 20))
		out = append(out, append(append(cmd[:len(cmd)-1:len(cmd)-1], 44), pat(300, 'c')...))
		for _, ts := range []uint64{1<<63 - 1, 1 << 63, 1<<64 - 1} {
			b := append([]byte(nil), base...)
			for i := 0; i < 8; i++ {
				b[4+i] = byte(ts >> (56 - 8*i))
			}
			out = append(out, b)
		}
		return out
	}
	Ag.Must = func() []Value {
		var vs []Value
		for _, t := range []byte{0, 1, 2, 3, 4, 5, 6, 255} {
			m := new(authgrants.AgMessage)
			m.Data.Intent = *zeroIntent()
			SetAgType(m, t)
			if agHasIntent(m) {
				m.Data.Intent = *intentWith(2, 4, 2, 6, 10, 20)
			}
			m.Data.Denial = "denied"
			vs = append(vs, Value(m))
		}
		for _, n := range []int{0, 254, 255, 256, 300} {
			m := new(authgrants.AgMessage)
			m.Data.Intent = *zeroIntent()
			SetAgType(m, 4)
			m.Data.Denial = string(pat(n, 'd'))
			vs = append(vs, Value(m))
		}
		for _, gt := range []byte{3, 4} {
			m := new(authgrants.AgMessage)
			SetAgType(m, 1)
			m.Data.Intent = *intentWith(gt, 4, 2, 6, 10, 20)
			vs = append(vs, Value(m))
		}
		return vs
	}
	Ag.Corpus = func() [][]byte {
		var out [][]byte
		for _, b := range Intent.Corpus() {
			out = append(out, append([]byte{1}, b...), append([]byte{2}, b...))
		}
		out = append(out, []byte{3}, []byte{4, 0}, []byte{4, 3, 'n', 'o'}, []byte{4}, []byte{0}, []byte{5, 1, 2}, []byte{})
		return out
	}
	Proxy.Must = func() []Value {
		vs := []Value{ProxyResp{Conf: true}}
		for _, n := range []int{0, 1, 254, 255, 256, 300} {
			vs = append(vs, Value(ProxyResp{Reason: string(pat(n, 'e'))}))
		}
		return vs
	}
	Proxy.Corpus = func() [][]byte { return [][]byte{{1}, {0, 0}, {0, 2, 'n', 'o'}, {2, 1, 'x'}, {0}, {}, {255, 255}} }
	Exec.Must = func() []Value {
		var vs []Value
		for _, n := range []int{0, 1, 255, 256, 65535, 65536} {
			vs = append(vs, Value(ExecMsg{Pty: true, Cmd: string(Pattern(n, 1)), Term: "xterm", HasSize: true, R: 24, C: 80, X: 1, Y: 65535}),
				Value(ExecMsg{Cmd: "ls", Term: string(Pattern(n, 2))}))
		}
		vs = append(vs, Value(ExecMsg{}), Value(ExecMsg{Pty: true}), Value(ExecMsg{HasSize: true, R: 65535, C: 65535}))
		return vs
	}
	Exec.Corpus = func() [][]byte {
		return [][]byte{
			{0, 0xff, 0xff, 0xff, 0xff}, // five bytes that made the unfixed GetCmd allocate 4 GiB twice
			{3, 0xff, 0xff, 0xff, 0xff},
			{0, 0, 0, 0, 1, 'x', 0xff, 0xff, 0xff, 0xff},
			{0, 0x00, 0x10, 0x00, 0x00, 1, 2, 3},
			{2, 0, 0, 0, 0, 0, 0, 0, 0}, {2, 0, 0, 0, 0, 0, 0, 0, 0, 1, 2, 3}, {0}, {}, {0xfc, 0, 0, 0, 0, 0, 0, 0, 0},
		}
	}
	UserAuth.Must = func() []Value {
		var vs []Value
		for _, n := range []int{0, 1, 255, 256, 65534, 65535, 65536, 65537, 65540, 131072 + 5} {
			vs = append(vs, Value(Pattern(n, byte(n))))
		}
		return vs
	}
	UserAuth.Corpus = func() [][]byte {
		return [][]byte{{0xff, 0xff}, {0xff}, {}, {0, 5, 'r', 'o'}, {0, 4, 'r', 'o', 'o', 't', 0, 0}, {0, 0, 0, 0},
			append(append([]byte{0, 4}, Pattern(65540, 1)...), 0, 0)} // the unfixed toBytes' output for 65540 bytes
	}
	Pf.Must = func() []Value {
		var vs []Value
		for _, n := range []int{0, 1, 107, 65534, 65535, 65536, 65537, 65545} {
			vs = append(vs, Value(mkPf(3, 4, "", 0, string(Pattern(n, '/')))))
		}
		for _, fwd := range []int{-1, 0, 4, 5, 255, 256, 260, 65536 + 4} {
			vs = append(vs, Value(mkPf(3, fwd, "", 0, "/tmp/sock")), Value(mkPf(1, fwd, "127.0.0.1", 8080, "")))
		}
		vs = append(vs, Value(mkPf(2, 5, "::1", 53, "")), Value(mkPf(1, 4, "fe80::1", 65535, "")), Value(mkPf(0, 4, "", 0, "")))
		return vs
	}
	Pf.Corpus = func() [][]byte {
		return [][]byte{{3, 4, 0xff, 0xff}, {1, 4, 0, 1, ':'}, {1, 4, 0, 3, 'a', 'b', 'c'}, {2, 5, 0, 5, '[', ':', ':', '1', ']'},
			{9, 9, 0, 0}, {0, 4, 0, 0}, {3, 4, 0, 0}, {3, 4}, {3}, {}, {1, 4, 0, 9, '1', '.', '2', '.', '3', '.', '4', ':', '5'}}
	}
}

func init() {
	agWith := func(t byte, i *authgrants.Intent, denial string) *authgrants.AgMessage {
		m := new(authgrants.AgMessage)
		m.Data.Intent = *zeroIntent()
		SetAgType(m, t)
		if i != nil {
			m.Data.Intent = *i
		}
		m.Data.Denial = denial
		return m
	}
	WString.Sweep = func() []Value { return []Value{pat(20, 'a')} }
	Cert.Sweep = func() []Value { return []Value{certWith(chunkOfBody(12), 1700000000, 1800000000)} }
	Intent.Sweep = func() []Value { return []Value{intentWith(2, 4, 6, 6, 10, 20), intentWith(1, 4, 0, 6, 10, 20)} }
	Ag.Sweep = func() []Value {
		return []Value{agWith(1, intentWith(2, 4, 6, 6, 10, 20), ""), agWith(2, intentWith(2, 4, 6, 6, 10, 20), ""), agWith(4, nil, "denied by policy"), agWith(3, nil, "")}
	}
	Proxy.Sweep = func() []Value { return []Value{ProxyResp{Reason: "connection refused"}, ProxyResp{Conf: true}} }
	Exec.Sweep = func() []Value {
		return []Value{ExecMsg{Pty: true, Cmd: "ls -l /tmp", Term: "xterm-256color", HasSize: true, R: 24, C: 80}, ExecMsg{Cmd: "id"}}
	}
	UserAuth.Sweep = func() []Value { return []Value{[]byte("alice")} }
	Pf.Sweep = func() []Value {
		return []Value{mkPf(3, 4, "", 0, "/run/app.sock"), mkPf(1, 5, "127.0.0.1", 8080, "")}
	}
}

// LengthSweep derives, from a valid encoding b, the inputs in which the bytes at every offset
// are replaced by a huge 1-, 2- or 4-byte big-endian value and the message ends right there:
// whatever field of the format starts at that offset, if it is a length the decoder is asked for
// far more than it is given. 0x10000000 (256 MiB) stays below the child's address-space cap,
// so an over-allocation is measured; ff ff ff ff is the worst case.
func LengthSweep(b []byte) [][]byte {
	var out [][]byte
	fields := [][]byte{{0xff}, {0xff, 0xff}, {0x10, 0, 0, 0}, {0xff, 0xff, 0xff, 0xff}}
	for o := 0; o <= len(b); o++ {
		for _, f := range fields {
			out = append(out, append(append([]byte(nil), b[:o]...), f...))
		}
	}
	return out
}

// chunkCorpus: id chunks whose declared length and blocks disagree.
func chunkCorpus() [][]byte {
	blk := func(n int, fill byte) []byte {
		return append([]byte{byte(n + 3), 1, byte(n)}, bytes.Repeat([]byte{fill}, n)...)
	}
	cat := func(xs ...[]byte) []byte { return bytes.Join(xs, nil) }
	return [][]byte{
		cat([]byte{2, 0}, blk(250, 'b'), blk(250, 'b'), blk(252, 'c')), // declared 512, blocks 253+253+255: decodes (unfixed) to a value that cannot be re-encoded
		cat([]byte{0, 3}, blk(200, 'a')),                               // declared 3, one whole block follows
		cat([]byte{0, 9}, blk(4, 'a'), blk(4, 'z')),                    // declared one block, two present (second must stay unread)
		cat([]byte{0, 10}, blk(4, 'a')),                                // declared more than present
		cat([]byte{2, 0}, blk(252, 'a'), blk(252, 'b')),                // exactly 512
		cat([]byte{2, 1}, blk(252, 'a'), blk(252, 'b'), blk(0, 0)),     // 513: over the limit
		{0, 2}, {0, 1}, {0, 0}, {0, 5, 3, 1, 0}, {0, 5, 2, 1, 0}, {0, 6, 4, 1, 2, 'a'},
	}
}

var _ = strings.Repeat
var _ net.Addr
