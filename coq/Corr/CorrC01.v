(* Correspondence entry points for C01: the shared handshake checkers (Corr/HsCorr.v). *)
From Hop Require Export HsCorr.
