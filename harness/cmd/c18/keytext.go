package main

// Key text forms (keys/dh.go, keys/kem.go, keys/signatures.go) and the base64 encoding underneath:
// the real String()/Parse… functions and Go's base64.StdEncoding against the Gallina transcription
// (coq/Model/WireText.v), plus the laws of C18 judged on the Go side with an independent RFC 4648
// reference decoder.

import (
	"bytes"
	"encoding/base64"
	"fmt"

	"hop.computer/hop/keys"
	"verifharness/hv"
	xw "verifharness/hvxwire"
)

const (
	kDH = iota
	kKEM
	kSign
)

var kindName = []string{"dh", "kem", "sign"}
var kindPrefix = []string{keys.DHPublicKeyPrefix, keys.KEMPublicKeyPrefix, keys.SigningPublicKeyPrefix}
var kindLen = []int{32, 800, 32}

// keyFormat runs the real formatter on key bytes of the right length.
func keyFormat(kind int, k []byte) (s string, ok bool) {
	switch kind {
	case kDH:
		var p keys.DHPublicKey
		copy(p[:], k)
		return p.String(), true
	case kSign:
		var p keys.SigningPublicKey
		copy(p[:], k)
		return p.String(), true
	default:
		p, err := keys.ParseKEMPublicKeyFromBytes(k)
		if err != nil {
			return "", false
		}
		return keys.KEMPublicKeyToString(p), true
	}
}

// keyParse runs the real parser; the parsed key is returned as its bytes.
func keyParse(kind int, s string) (k []byte, code int, pmsg string) {
	var err error
	p, pm := hv.Catch(func() {
		switch kind {
		case kDH:
			var x *keys.DHPublicKey
			if x, err = keys.ParseDHPublicKey(s); err == nil {
				k = append([]byte(nil), x[:]...)
			}
		case kSign:
			var x *keys.SigningPublicKey
			if x, err = keys.ParseSigningPublicKey(s); err == nil {
				k = append([]byte(nil), x[:]...)
			}
		default:
			var x *keys.KEMPublicKey
			if x, err = keys.ParseKEMPublicKey(s); err == nil {
				k, err = (*x).MarshalBinary()
			}
		}
	})
	if p {
		return nil, xw.PANIC, pm
	}
	if err != nil {
		return nil, xw.ERR, ""
	}
	return k, xw.OK, ""
}

// refB64 is an independent reference decoder written from RFC 4648 section 4 (CR/LF stripped first,
// as Go documents): groups of four characters, '=' only as the last one or two characters of the
// last group, low bits of the last digit ignored.  ok=false when the text is not base64.
func refB64(s string) (out []byte, ok bool) {
	var t []byte
	for i := 0; i < len(s); i++ {
		if s[i] != '\n' && s[i] != '\r' {
			t = append(t, s[i])
		}
	}
	if len(t)%4 != 0 {
		return nil, false
	}
	val := func(c byte) int {
		switch {
		case c >= 'A' && c <= 'Z':
			return int(c - 'A')
		case c >= 'a' && c <= 'z':
			return int(c-'a') + 26
		case c >= '0' && c <= '9':
			return int(c-'0') + 52
		case c == '+':
			return 62
		case c == '/':
			return 63
		}
		return -1
	}
	for i := 0; i < len(t); i += 4 {
		last := i+4 == len(t)
		n := 4
		if last && t[i+3] == '=' {
			n = 3
			if t[i+2] == '=' {
				n = 2
			}
		}
		acc := 0
		for j := 0; j < 4; j++ {
			d := 0
			if j < n {
				if d = val(t[i+j]); d < 0 {
					return nil, false
				}
			}
			acc = acc<<6 | d
		}
		three := []byte{byte(acc >> 16), byte(acc >> 8), byte(acc)}
		out = append(out, three[:n-1]...)
	}
	return out, true
}

func textDesc(s string) string {
	if len(s) <= 120 {
		return fmt.Sprintf("%q", s)
	}
	return fmt.Sprintf("%q..len=%d id=%s", s[:60], len(s), ident([]byte(s)))
}

// parseCase: one text through the real parser; laws judged here: no panic; an accepted text carries
// the prefix and denotes (reference decoder) exactly the key that was returned, of the right length;
// formatting the parsed key and parsing again gives the same key.
func parseCase(kind int, s string, class string) {
	k, code, pm := keyParse(kind, s)
	vd := good()
	name := kindName[kind]
	switch code {
	case xw.PANIC:
		vd = bad("C18:keytext-"+name+"-parse-panics", "parsing %s panicked: %s", textDesc(s), pm)
	case xw.OK:
		pre := kindPrefix[kind]
		if len(s) < len(pre) || s[:len(pre)] != pre {
			vd = bad("C18:keytext-"+name+"-accepts-wrong-prefix", "%s accepted without the prefix %q", textDesc(s), pre)
		} else if ref, ok := refB64(s[len(pre):]); !ok || !bytes.Equal(ref, k) || len(k) != kindLen[kind] {
			vd = bad("C18:keytext-"+name+"-parsed-differs-from-text", "%s parsed as %d-byte key %s but the text denotes %d bytes (base64 ok=%v) %s",
				textDesc(s), len(k), ident(k), len(ref), ok, ident(ref))
		} else if again, fok := keyFormat(kind, k); !fok {
			vd = bad("C18:keytext-"+name+"-not-stable", "the key parsed from %s cannot be formatted", textDesc(s))
		} else if k2, c2, _ := keyParse(kind, again); c2 != xw.OK || !bytes.Equal(k2, k) {
			vd = bad("C18:keytext-"+name+"-not-stable", "the key parsed from %s formats as %s which parses differently (code %d)", textDesc(s), textDesc(again), c2)
		}
	}
	hv.Emit(hv.Case{Fn: "c18_key_parse", Coq: hv.Tuple(hv.Ni(kind), xw.CoqStr(s), hv.Ni(code), xw.CoqBytes(k)),
		Class: "keytext/" + name + "/" + class, Desc: fmt.Sprintf("parse %s key text %s", name, textDesc(s)),
		Key: name + "|" + s, Spec: vd.ok, Sig: vd.sig, What: vd.what, NT: true})
}

// keyCase: a key through the real formatter, then the parser (round trip).
func keyCase(kind int, k []byte, class string) (text string) {
	name := kindName[kind]
	var s string
	var fok bool
	p, pm := hv.Catch(func() { s, fok = keyFormat(kind, k) })
	if p || !fok {
		hv.Emit(hv.Case{Class: "keytext/" + name + "/" + class, Desc: "format key " + ident(k), Spec: false,
			Sig: "C18:keytext-" + name + "-format-fails", What: "formatting a valid key failed: " + pm, NT: true})
		return ""
	}
	vd := good()
	if back, code, _ := keyParse(kind, s); code != xw.OK || !bytes.Equal(back, k) {
		vd = bad("C18:keytext-"+name+"-roundtrip", "key %s formats as %s which parses with code %d to %s", ident(k), textDesc(s), code, ident(back))
	}
	hv.Emit(hv.Case{Fn: "c18_key_format", Coq: hv.Tuple(hv.Ni(kind), xw.CoqBytes(k), xw.CoqStr(s)),
		Class: "keytext/" + name + "/" + class, Desc: fmt.Sprintf("format %s key %s", name, ident(k)),
		Spec: vd.ok, Sig: vd.sig, What: vd.what, NT: true})
	parseCase(kind, s, class+"-parse")
	return s
}

// kemKey returns an 800-byte ML-KEM-512 encapsulation key: a generated one, or 512 arbitrary
// coefficients below q followed by an arbitrary rho.
func kemKey(r *hv.Rand, generated bool) []byte {
	if generated {
		kp, err := keys.GenerateKEMKeyPair(bytes.NewReader(r.Bytes(64)))
		if err != nil {
			panic(err)
		}
		b, _ := kp.Public.MarshalBinary()
		return b
	}
	b := make([]byte, 800)
	for i := 0; i < 256; i++ {
		setCoeffPair(b, i, r.Intn(3329), r.Intn(3329))
	}
	copy(b[768:], r.Bytes(32))
	return b
}

// setCoeffPair stores coefficients 2i and 2i+1 (12 bits each, little endian, three bytes).
func setCoeffPair(b []byte, i, c0, c1 int) {
	b[3*i] = byte(c0)
	b[3*i+1] = byte(c0>>8) | byte(c1<<4)
	b[3*i+2] = byte(c1 >> 4)
}
func coeff(b []byte, j int) int {
	i := j / 2
	if j%2 == 0 {
		return int(b[3*i]) | int(b[3*i+1]&0x0f)<<8
	}
	return int(b[3*i+1]>>4) | int(b[3*i+2])<<4
}
func setCoeff(b []byte, j, c int) {
	i := j / 2
	if j%2 == 0 {
		setCoeffPair(b, i, c, coeff(b, j+1))
	} else {
		setCoeffPair(b, i, coeff(b, j-1), c)
	}
}

func randKey(r *hv.Rand, kind int) []byte {
	switch kind {
	case kKEM:
		return kemKey(r, r.Chance(50))
	case kDH:
		if r.Chance(50) {
			kp := keys.GenerateNewX25519KeyPair()
			return append([]byte(nil), kp.Public[:]...)
		}
	}
	return r.Bytes(32)
}

const b64Alphabet = "ABCDEFGHIJKLMNOPQRSTUVWXYZabcdefghijklmnopqrstuvwxyz0123456789+/"

// malformed derives texts from a valid one; every class is present in every run.
func malformed(r *hv.Rand, kind int, s string, emit func(class, text string)) {
	pre := kindPrefix[kind]
	body := s[len(pre):]
	at := func(n int) int { return r.Intn(n) }
	// prefix
	emit("prefix-empty", "")
	emit("prefix-only", pre)
	emit("prefix-cut", s[1:])
	emit("prefix-short", pre[:len(pre)-1]+body)
	for i := 0; i < len(pre); i++ {
		b := []byte(s)
		b[i] ^= 0x20
		emit("prefix-byte", string(b))
	}
	emit("prefix-other-kind", kindPrefix[(kind+1)%3]+body)
	emit("prefix-v2", pre[:len(pre)-2]+"2-"+body)
	emit("prefix-leading-space", " "+s)
	emit("prefix-leading-newline", "\n"+s)
	i := 1 + at(len(pre)-1)
	emit("prefix-newline-inside", s[:i]+"\n"+s[i:])
	// wrong decoded length: the same encoder on a shorter / longer key
	raw, _ := base64.StdEncoding.DecodeString(body)
	for _, d := range []int{-33, -3, -2, -1, 1, 2, 3, 32} {
		n := len(raw) + d
		if n < 0 {
			n = 0
		}
		x := make([]byte, n)
		copy(x, raw)
		emit(fmt.Sprintf("length%+d", d), pre+base64.StdEncoding.EncodeToString(x))
	}
	emit("length-cut-quantum", s[:len(s)-4])
	emit("length-extra-quantum", s[:len(s)-4]+"AAAA"+s[len(s)-4:])
	// alphabet
	for _, c := range []byte{'-', '_', ' ', '\t', 0, 0x7f, 0x80, 0xff, '*', '.', ',', '@', '[', '`', '{', ':'} {
		b := []byte(s)
		b[len(pre)+at(len(body)-2)] = c
		emit("alphabet", string(b))
	}
	emit("alphabet-url", pre+base64.URLEncoding.EncodeToString(bytes.Repeat([]byte{0xfb, 0xff}, len(raw)/2)))
	emit("alphabet-std-same-bytes", pre+base64.StdEncoding.EncodeToString(bytes.Repeat([]byte{0xfb, 0xff}, len(raw)/2)))
	// padding (all three key types end in one '=')
	np := s[:len(s)-1]
	emit("padding-missing", np)
	emit("padding-raw", pre+base64.RawStdEncoding.EncodeToString(raw))
	emit("padding-double", s+"=")
	emit("padding-triple", s+"==")
	emit("padding-replaced-by-digit", np+"A")
	pi := len(pre) + 4*(1+at(len(body)/4-1))
	emit("padding-inside", s[:pi-1]+"="+s[pi:])
	emit("padding-early-quantum", s[:len(s)-2]+"==")
	emit("padding-only-quantum", s[:len(s)-4]+"====")
	emit("padding-then-garbage", s+"A")
	emit("padding-then-space", s+" ")
	emit("padding-then-newline", s+"\n")
	emit("padding-then-crlf", s+"\r\n")
	emit("padding-then-newlines-garbage", s+"\n\nA")
	emit("padding-newline-before", np+"\n=")
	// a key whose length is 1 mod 3 ends in "==": newlines between and after the two
	x := append(append([]byte(nil), raw...), 7, 9)
	two := pre + base64.StdEncoding.EncodeToString(x[:len(raw)+2])
	emit("padding-two-wrong-length", two)
	emit("padding-two-split", two[:len(two)-1]+"\r\n=")
	emit("padding-two-single", two[:len(two)-1])
	emit("padding-two-single-newline", two[:len(two)-1]+"\n")
	emit("padding-two-then-digit", two[:len(two)-1]+"A")
	// non-canonical trailing bits: the last digit carries 2 unused bits
	last := s[len(s)-2]
	v := bytes.IndexByte([]byte(b64Alphabet), last)
	for d := 1; d < 4; d++ {
		emit("trailing-bits", s[:len(s)-2]+string(b64Alphabet[(v&^3)|d])+"=")
	}
	// white space
	for k := 0; k < 4; k++ {
		i := len(pre) + at(len(body)+1)
		emit("newline-inside", s[:i]+"\n"+s[i:])
		i = len(pre) + at(len(body)+1)
		emit("crlf-inside", s[:i]+"\r\n"+s[i:])
		i = len(pre) + at(len(body))
		emit("space-inside", s[:i]+" "+s[i:])
	}
	var wrapped bytes.Buffer
	for i := 0; i < len(body); i += 64 {
		j := i + 64
		if j > len(body) {
			j = len(body)
		}
		wrapped.WriteString(body[i:j] + "\n")
	}
	emit("newline-every-64", pre+wrapped.String())
	emit("newline-many", pre+"\n\r\n\r"+body[:1]+"\n\n\n"+body[1:3]+"\r\r"+body[3:]+"\n\n")
	emit("newline-only-body", pre+"\n")
}

func keyText(r *hv.Rand) {
	// ---- base64.StdEncoding itself: every length 0..70 and some long ones
	lens := []int{}
	for n := 0; n <= 34; n++ {
		lens = append(lens, n)
	}
	for k := 0; k < hv.Scale(6, 100); k++ {
		lens = append(lens, 35+r.Intn(1200))
	}
	for _, n := range lens {
		l := r.Bytes(n)
		if r.Chance(20) {
			l = bytes.Repeat([]byte{byte(0xff * r.Intn(2))}, n)
		}
		s := base64.StdEncoding.EncodeToString(l)
		back, err := base64.StdEncoding.DecodeString(s)
		ok := err == nil && bytes.Equal(back, l)
		hv.Emit(hv.Case{Fn: "c18_b64_encode", Coq: hv.Tuple(xw.CoqBytes(l), xw.CoqStr(s)), Class: "keytext/base64/encode",
			Desc: fmt.Sprintf("base64 of %d bytes %s", n, ident(l)), Spec: ok, Sig: "C18:base64-roundtrip", What: "base64 does not round-trip", NT: n > 0})
		texts := []string{s}
		if len(s) >= 4 {
			b := []byte(s)
			b[r.Intn(len(b))] = "\n\r =-A/+_"[r.Intn(9)]
			texts = []string{string(b), hv.Pick(r, []string{s, s[:len(s)-1-r.Intn(3)], s[:r.Intn(len(s))] + "\n" + s})}
		}
		texts = append(texts, string(r.Bytes(r.Intn(12))))
		for _, t := range texts {
			var d []byte
			var derr error
			p, pm := hv.Catch(func() { d, derr = base64.StdEncoding.DecodeString(t) })
			code := xw.OK
			if p {
				code = xw.PANIC
			} else if derr != nil {
				code, d = xw.ERR, nil
			}
			ref, rok := refB64(t)
			spec := !p && (derr != nil || (rok && bytes.Equal(ref, d)))
			hv.Emit(hv.Case{Fn: "c18_b64_decode", Coq: hv.Tuple(xw.CoqStr(t), hv.Ni(code), xw.CoqBytes(d)), Class: "keytext/base64/decode",
				Desc: "base64 decode " + textDesc(t), Key: "b64|" + t, Spec: spec, Sig: "C18:base64-decode",
				What: fmt.Sprintf("DecodeString(%s) panicked (%s) or returned bytes the text does not denote", textDesc(t), pm), NT: len(t) > 0})
		}
	}
	// ---- key texts
	for kind := kDH; kind <= kSign; kind++ {
		nKeys := hv.Scale(8, 150)
		if kind == kKEM {
			nKeys = hv.Scale(5, 60)
		}
		// boundary keys
		var ks [][]byte
		n := kindLen[kind]
		if kind == kKEM {
			z := make([]byte, 800)
			ks = append(ks, z)
			m := make([]byte, 800)
			for i := 0; i < 256; i++ {
				setCoeffPair(m, i, 3328, 3328)
			}
			copy(m[768:], bytes.Repeat([]byte{0xff}, 32))
			ks = append(ks, m)
		} else {
			ks = append(ks, make([]byte, n), bytes.Repeat([]byte{0xff}, n), xw.Pattern(n, 1), bytes.Repeat([]byte{0xfb, 0xef, 0xbe}, 11)[:n])
		}
		for len(ks) < nKeys {
			ks = append(ks, randKey(r, kind))
		}
		for i, k := range ks {
			s := keyCase(kind, k, "key")
			if s == "" {
				continue
			}
			if i < hv.Scale(1, 20) || (kind == kDH && i < 2) {
				malformed(r, kind, s, func(class, text string) { parseCase(kind, text, class) })
			}
		}
		if kind == kKEM {
			// the encapsulation key check: coefficients at and beyond q, anywhere in the key
			base := kemKey(r, true)
			for _, j := range []int{0, 1, 255, 511, r.Intn(512)} {
				for _, c := range []int{0, 3328, 3329, 3330, 4095, 2048} {
					b := append([]byte(nil), base...)
					setCoeff(b, j, c)
					parseCase(kind, keys.KEMPublicKeyPrefix+base64.StdEncoding.EncodeToString(b), fmt.Sprintf("coefficient-%d", c))
				}
			}
			b := append([]byte(nil), base...)
			copy(b[768:], bytes.Repeat([]byte{0xff}, 32))
			parseCase(kind, keys.KEMPublicKeyPrefix+base64.StdEncoding.EncodeToString(b), "rho-ff")
			parseCase(kind, keys.KEMPublicKeyPrefix+base64.StdEncoding.EncodeToString(bytes.Repeat([]byte{0xff}, 800)), "all-ff")
		}
	}
}
