(* Lifecycle.v — interleaving transition system for the transport.Client lifecycle
   (transport/client.go: Handshake, Close, ReadMsg/Read, WriteMsg/Write, listen) and for the
   transport.Server lifecycle (transport/server.go: Serve, Close, AcceptTimeout).

   One transition per atomic Go action: atomic Load / CompareAndSwap / Store of `state`,
   close(chan), blocking receive from a completion channel, wg.Add/Done/Wait, and the blocking
   socket I/O of the handshake / receive loop (released by closing the socket, by the peer, or by
   the handshake timeout).  The network peer and the timeout are parameters of the system
   ([peer]: the peer answers; [tmo]: ClientConfig.HSTimeout/HSDeadline is set), so theorems hold
   for a dead network as well.

   Definitions only.  Proofs: Proofs/LifecycleProofs.v. *)
From Hop Require Import Base ConcBase.
Open Scope N_scope.

(* ================================================================== Client *)
(* Client.state *)
Definition sCreated : N := 0.
Definition sHandshaking : N := 1.
Definition sOpen : N := 2.
Definition sClosing : N := 3.
Definition sClosed : N := 4.
Definition sError : N := 5.

(* results: 0 nil, 1 io.EOF, 2 deadline exceeded (handshake timeout), 3 socket closed / other I/O error *)
Definition rNil : N := 0.
Definition rEOF : N := 1.
Definition rTimeout : N := 2.
Definition rIO : N := 3.

Inductive cop := CHandshake | CClose | CRead | CWrite.
Inductive cont := KRet | KRead | KWrite.           (* what called Handshake *)

Inductive cpc :=
| CIdle
(* Handshake *)
| H_load | H_cas | H_io | H_add | H_open | H_wgdone | H_store (e : N) | H_caserr (e : N)
| H_signal (e : N) | H_recheck (e : N) | H_wait
(* Close *)
| X_load | X_cas (prev : N) | X_conn (prev : N) | X_waiths | X_wgwait | X_handle | X_store | X_signal
| X_waitdone | X_ret
(* ReadMsg after the lifecycle switch *)
| R_load | R_waitdone | R_ss | R_recv
(* WriteMsg after Handshake *)
| W_check | W_sock.

Record cthread := mkCT { cprog : list cop; cpcv : cpc; ck : cont; crets : list (cop * N) }.

Inductive lpc := L_none | L_check | L_read | L_done.    (* the listen() goroutine *)

Record csh := mkC {
  cstate : N;
  hs_done : bool;            (* close(c.handshakeDone) happened *)
  close_done : bool;         (* close(c.closeDone) happened *)
  cerr : N;                  (* c.err *)
  close_err : option N;      (* c.closeErr; None = not stored yet *)
  conn_closed : bool;        (* underlyingConn.Close() happened *)
  wg : nat;
  lis : lpc;
  handle_set : bool;         (* c.ss != nil && c.ss.handle != nil (see note at H_caserr) *)
  handle_closed : bool;      (* session closed: handle.recv closed *)
  hpend : nat;               (* `go handle.Close()` started by a failed write, not yet run *)
  (* parameters *)
  peer : bool;               (* the peer answers handshake messages *)
  tmo : bool;                (* a handshake timeout/deadline is configured *)
  conn_res : N;              (* what underlyingConn.Close() returns *)
  (* ghosts *)
  hs_runs : nat;             (* how many times clientHandshakeLocked was entered *)
  conn_closes : nat;         (* how many times underlyingConn.Close() was called *)
  xprev : N                  (* the state the closing CompareAndSwap replaced *)
}.

Definition upd_state s v := mkC v (hs_done s) (close_done s) (cerr s) (close_err s) (conn_closed s) (wg s) (lis s) (handle_set s) (handle_closed s) (hpend s) (peer s) (tmo s) (conn_res s) (hs_runs s) (conn_closes s) (xprev s).
Definition upd_wg s v := mkC (cstate s) (hs_done s) (close_done s) (cerr s) (close_err s) (conn_closed s) v (lis s) (handle_set s) (handle_closed s) (hpend s) (peer s) (tmo s) (conn_res s) (hs_runs s) (conn_closes s) (xprev s).
Definition upd_lis s v := mkC (cstate s) (hs_done s) (close_done s) (cerr s) (close_err s) (conn_closed s) (wg s) v (handle_set s) (handle_closed s) (hpend s) (peer s) (tmo s) (conn_res s) (hs_runs s) (conn_closes s) (xprev s).

Definition cgoto (t : cthread) (p : cpc) := mkCT (cprog t) p (ck t) (crets t).
Definition cfinish (t : cthread) (o : cop) (r : N) := mkCT (cprog t) CIdle KRet (crets t ++ [(o, r)]).
Definition op_of_k (k : cont) : cop := match k with KRet => CHandshake | KRead => CRead | KWrite => CWrite end.
(* Handshake returned r to its caller *)
Definition hs_return (t : cthread) (r : N) : cthread :=
  match ck t with
  | KRet => cfinish t CHandshake r
  | KRead => if r =? 0 then cgoto t R_recv else cfinish t CRead r
  | KWrite => if r =? 0 then cgoto t W_check else cfinish t CWrite r
  end.

Definition is_closing (v : N) : bool := (v =? sClosing) || (v =? sClosed).

(* one atomic action of a client thread *)
Definition cstep (s : csh) (t : cthread) : option (csh * cthread) :=
  match cpcv t with
  | CIdle =>
    match cprog t with
    | [] => None
    | CHandshake :: r => Some (s, mkCT r H_load KRet (crets t))
    | CWrite :: r => Some (s, mkCT r H_load KWrite (crets t))       (* Write: if err := c.Handshake() ... *)
    | CRead :: r => Some (s, mkCT r R_load KRead (crets t))
    | CClose :: r => Some (s, mkCT r X_load KRet (crets t))
    end
  (* ---------------- Handshake ---------------- *)
  | H_load =>                                       (* switch c.state.Load() *)
    let v := cstate s in
    if v =? sCreated then Some (s, cgoto t H_cas)
    else if v =? sHandshaking then Some (s, cgoto t H_wait)
    else if v =? sOpen then Some (s, hs_return t rNil)
    else if v =? sError then Some (s, hs_return t (cerr s))
    else Some (s, hs_return t rEOF)
  | H_cas =>                                        (* CompareAndSwap(Created, Handshaking) *)
    if cstate s =? sCreated then
      Some (mkC sHandshaking (hs_done s) (close_done s) (cerr s) (close_err s) (conn_closed s) (wg s) (lis s)
                (handle_set s) (handle_closed s) (hpend s) (peer s) (tmo s) (conn_res s) (S (hs_runs s)) (conn_closes s) (xprev s),
            cgoto t H_io)
    else Some (s, cgoto t H_load)
  | H_io =>                                         (* the handshake's socket I/O *)
    if conn_closed s then Some (s, cgoto t (H_store rIO))
    else if peer s then
      (* success: c.ss and c.ss.handle are set *)
      Some (mkC (cstate s) (hs_done s) (close_done s) (cerr s) (close_err s) (conn_closed s) (wg s) (lis s)
                true (handle_closed s) (hpend s) (peer s) (tmo s) (conn_res s) (hs_runs s) (conn_closes s) (xprev s),
            cgoto t H_add)
    else if tmo s then Some (s, cgoto t (H_store rTimeout))
    else None                                       (* dead peer, no timeout: blocked until the socket closes *)
  | H_add => Some (upd_wg s (S (wg s)), cgoto t H_open)            (* c.wg.Add(1) *)
  | H_open =>                                       (* CompareAndSwap(Handshaking, Open); go c.listen() *)
    if cstate s =? sHandshaking then Some (upd_lis (upd_state s sOpen) L_check, cgoto t (H_signal rNil))
    else Some (s, cgoto t H_wgdone)
  | H_wgdone => Some (upd_wg s (pred (wg s)), cgoto t (H_store rEOF))   (* c.wg.Done(); return io.EOF *)
  | H_store e =>                                    (* c.err = err *)
    Some (mkC (cstate s) (hs_done s) (close_done s) e (close_err s) (conn_closed s) (wg s) (lis s)
              (handle_set s) (handle_closed s) (hpend s) (peer s) (tmo s) (conn_res s) (hs_runs s) (conn_closes s) (xprev s),
          cgoto t (H_caserr e))
  | H_caserr e =>                                   (* CompareAndSwap(Handshaking, Error) { hs = nil; ss = nil } *)
    (* c.ss.handle is assigned only at the end of the success path; the only failure after that is
       the lost CompareAndSwap(Handshaking, Open), and then this CompareAndSwap loses as well, so
       `ss = nil` never erases a handle: handle_set is left unchanged here. *)
    if cstate s =? sHandshaking then
      Some (mkC sError (hs_done s) (close_done s) (cerr s) (close_err s) (conn_closed s) (wg s) (lis s)
                (handle_set s) (handle_closed s) (hpend s) (peer s) (tmo s) (conn_res s) (hs_runs s) (conn_closes s) (xprev s),
            cgoto t (H_signal e))
    else Some (s, cgoto t (H_signal e))
  | H_signal e =>                                   (* close(c.handshakeDone) *)
    Some (mkC (cstate s) true (close_done s) (cerr s) (close_err s) (conn_closed s) (wg s) (lis s)
              (handle_set s) (handle_closed s) (hpend s) (peer s) (tmo s) (conn_res s) (hs_runs s) (conn_closes s) (xprev s),
          cgoto t (H_recheck e))
  | H_recheck e =>                                  (* state := c.state.Load(); Closing/Closed => io.EOF *)
    if is_closing (cstate s) then Some (s, hs_return t rEOF) else Some (s, hs_return t e)
  | H_wait => if hs_done s then Some (s, cgoto t H_load) else None     (* <-c.handshakeDone *)
  (* ---------------- Close ---------------- *)
  | X_load =>
    let v := cstate s in
    if is_closing v then Some (s, cgoto t X_waitdone) else Some (s, cgoto t (X_cas v))
  | X_cas prev =>
    if cstate s =? prev then
      Some (mkC sClosing (hs_done s) (close_done s) (cerr s) (close_err s) (conn_closed s) (wg s) (lis s)
                (handle_set s) (handle_closed s) (hpend s) (peer s) (tmo s) (conn_res s) (hs_runs s) (conn_closes s) prev,
            cgoto t (X_conn prev))
    else Some (s, cgoto t X_load)
  | X_conn prev =>                                  (* c.closeErr = c.underlyingConn.Close() *)
    Some (mkC (cstate s) (hs_done s) (close_done s) (cerr s) (Some (conn_res s)) true (wg s) (lis s)
              (handle_set s) (handle_closed s) (hpend s) (peer s) (tmo s) (conn_res s) (hs_runs s) (S (conn_closes s)) (xprev s),
          cgoto t (if prev =? sHandshaking then X_waiths else X_wgwait))
  | X_waiths => if hs_done s then Some (s, cgoto t X_wgwait) else None   (* <-c.handshakeDone *)
  | X_wgwait => match wg s with O => Some (s, cgoto t X_handle) | S _ => None end   (* c.wg.Wait() *)
  | X_handle =>                                     (* if c.ss != nil && c.ss.handle != nil { handle.Close() } *)
    if handle_set s then
      Some (mkC (cstate s) (hs_done s) (close_done s) (cerr s) (close_err s) (conn_closed s) (wg s) (lis s)
                (handle_set s) true (hpend s) (peer s) (tmo s) (conn_res s) (hs_runs s) (conn_closes s) (xprev s),
            cgoto t X_store)
    else Some (s, cgoto t X_store)
  | X_store => Some (upd_state s sClosed, cgoto t X_signal)
  | X_signal =>                                     (* close(c.closeDone); return c.closeErr *)
    Some (mkC (cstate s) (hs_done s) true (cerr s) (close_err s) (conn_closed s) (wg s) (lis s)
              (handle_set s) (handle_closed s) (hpend s) (peer s) (tmo s) (conn_res s) (hs_runs s) (conn_closes s) (xprev s),
          cgoto t X_ret)
  | X_waitdone => if close_done s then Some (s, cgoto t X_ret) else None   (* <-c.closeDone *)
  | X_ret =>                                        (* return c.closeErr; 99 = read before it was stored *)
    Some (s, cfinish t CClose (match close_err s with Some e => e | None => 99 end))
  (* ---------------- ReadMsg ---------------- *)
  | R_load =>
    let v := cstate s in
    if (v =? sCreated) || (v =? sHandshaking) then Some (s, cgoto t H_load)       (* c.Handshake() *)
    else if v =? sError then Some (s, cfinish t CRead (cerr s))
    else if v =? sClosing then Some (s, cfinish t CRead rEOF)
    else if v =? sClosed then Some (s, cgoto t R_waitdone)
    else Some (s, cgoto t R_recv)
  | R_waitdone => if close_done s then Some (s, cgoto t R_ss) else None
  | R_ss => if handle_set s then Some (s, cgoto t R_recv) else Some (s, cfinish t CRead rEOF)
  | R_recv =>                                       (* handle.ReadMsg: nothing is ever queued in this model *)
    if handle_closed s then Some (s, cfinish t CRead rEOF) else None
  (* ---------------- WriteMsg ---------------- *)
  | W_check => if handle_closed s then Some (s, cfinish t CWrite rEOF) else Some (s, cgoto t W_sock)
  | W_sock =>                                       (* WriteMsgUDP; on error: go handle.Close() *)
    if conn_closed s then
      Some (mkC (cstate s) (hs_done s) (close_done s) (cerr s) (close_err s) (conn_closed s) (wg s) (lis s)
                (handle_set s) (handle_closed s) (S (hpend s)) (peer s) (tmo s) (conn_res s) (hs_runs s) (conn_closes s) (xprev s),
            cfinish t CWrite rIO)
    else Some (s, cfinish t CWrite rNil)
  end.

(* the listen() goroutine *)
Definition lstep (s : csh) : option csh :=
  match lis s with
  | L_check => if cstate s =? sOpen then Some (upd_lis s L_read)
               else Some (upd_lis (upd_wg s (pred (wg s))) L_done)        (* defer c.wg.Done() *)
  | L_read => if conn_closed s then Some (upd_lis s L_check) else None  (* ReadMsgUDP blocks *)
  | _ => None
  end.

Record cst := mkCSt { csd : csh; cths : list cthread }.
Inductive cactor := CT (i : nat) | CListen | CHClose.

Definition cstepa (x : cst) (a : cactor) : option cst :=
  match a with
  | CT i => match nth_error (cths x) i with
            | None => None
            | Some t => match cstep (csd x) t with
                        | None => None
                        | Some (s', t') => Some (mkCSt s' (gupd (cths x) i t'))
                        end
            end
  | CListen => match lstep (csd x) with Some s' => Some (mkCSt s' (cths x)) | None => None end
  | CHClose =>
    let s := csd x in
    match hpend s with
    | O => None
    | S n => Some (mkCSt (mkC (cstate s) (hs_done s) (close_done s) (cerr s) (close_err s) (conn_closed s) (wg s) (lis s)
                              (handle_set s) true n (peer s) (tmo s) (conn_res s) (hs_runs s) (conn_closes s) (xprev s)) (cths x))
    end
  end.

Fixpoint crun (x : cst) (l : list cactor) : option cst :=
  match l with
  | [] => Some x
  | a :: r => match cstepa x a with Some x' => crun x' r | None => None end
  end.

(* NewClient *)
Definition csh_init (peer tmo : bool) (conn_res : N) : csh :=
  mkC sCreated false false 0 None false 0 L_none false false 0 peer tmo conn_res 0 0 0.
Definition cinit (peer tmo : bool) (conn_res : N) (progs : list (list cop)) : cst :=
  mkCSt (csh_init peer tmo conn_res) (map (fun p => mkCT p CIdle KRet []) progs).
Definition creachable peer tmo cr progs (x : cst) : Prop := exists l, crun (cinit peer tmo cr progs) l = Some x.

Definition cunfinished (t : cthread) : bool :=
  match cpcv t, cprog t with CIdle, [] => false | _, _ => true end.
Definition cenabled (x : cst) (a : cactor) : bool := match cstepa x a with Some _ => true | None => false end.
Definition cactors (x : cst) : list cactor := CListen :: CHClose :: map CT (seq 0 (length (cths x))).
Definition cterminal (x : cst) : bool := forallb (fun a => negb (cenabled x a)) (cactors x).
Definition call_finished (x : cst) : bool := forallb (fun t => negb (cunfinished t)) (cths x).
