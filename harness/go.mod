module verifharness

go 1.24

require hop.computer/hop v0.0.0

replace hop.computer/hop => /repo

replace github.com/BurntSushi/toml => github.com/drebelsky/toml v0.0.2
