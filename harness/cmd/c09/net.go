package main

import "verifharness/hv"

func genNet(r *hv.Rand) {}
