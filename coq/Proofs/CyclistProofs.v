(* CyclistProofs.v — proofs about Model/Cyclist.v, for an arbitrary function f on states
   (nothing below needs f to be a permutation, or even length preserving, unless stated). *)
From Hop Require Import Base Keccak Cyclist.
From Coq Require Import ZifyN ZifyNat ZifyBool.
Open Scope N_scope.

(* ------------------------------------------------------------------ xor helpers *)
Lemma lxor_cancel : forall a k, N.lxor (N.lxor a k) k = a.
Proof. intros. rewrite N.lxor_assoc, N.lxor_nilpotent, N.lxor_0_r. reflexivity. Qed.

Lemma xor_ks_involutive : forall i ks, xor_ks (xor_ks i ks) ks = i.
Proof.
  induction i as [|a i IH]; intros ks; [reflexivity|].
  destruct ks as [|k ks]; cbn [xor_ks].
  - f_equal. apply IH.
  - rewrite lxor_cancel. f_equal. apply IH.
Qed.

Lemma xor_ks_length : forall i ks, List.length (xor_ks i ks) = List.length i.
Proof.
  induction i as [|a i IH]; intros ks; [reflexivity|].
  destruct ks; cbn [xor_ks List.length]; f_equal; apply IH.
Qed.

Lemma xor_into_length : forall s v, List.length (xor_into s v) = List.length s.
Proof.
  induction s as [|a s IH]; intros v; [reflexivity|].
  destruct v; cbn [xor_into List.length]; [reflexivity|]. f_equal. apply IH.
Qed.

Lemma add_byte_length : forall s b off, List.length (add_byte s b off) = List.length s.
Proof. intros. apply xor_into_length. Qed.

(* ------------------------------------------------------------------ Split *)
Lemma blocks_fuel_concat : forall fuel r x, List.concat (blocks_fuel fuel r x) = x.
Proof.
  induction fuel as [|k IH]; intros r x; cbn [blocks_fuel].
  - cbn. apply app_nil_r.
  - destruct (List.length x <=? r)%nat.
    + cbn. apply app_nil_r.
    + cbn [List.concat]. rewrite IH. apply firstn_skipn.
Qed.

Lemma blocks_fuel_shape : forall fuel r x y, List.length x = List.length y ->
  map (@List.length N) (blocks_fuel fuel r x) = map (@List.length N) (blocks_fuel fuel r y).
Proof.
  induction fuel as [|k IH]; intros r x y H; cbn [blocks_fuel].
  - cbn. rewrite H. reflexivity.
  - rewrite H. destruct (List.length y <=? r)%nat.
    + cbn. rewrite H. reflexivity.
    + cbn [map]. rewrite !firstn_length, H. f_equal. apply IH.
      rewrite !skipn_length, H. reflexivity.
Qed.

Lemma shape_concat_inj : forall (a b : list bytes),
  map (@List.length N) a = map (@List.length N) b -> List.concat a = List.concat b -> a = b.
Proof.
  induction a as [|x a IH]; intros [|y b] Hs Hc; try discriminate; [reflexivity|].
  cbn in Hs, Hc. injection Hs as Hl Hs.
  assert (x = y /\ List.concat a = List.concat b) as [-> Hc'].
  { clear IH Hs. revert y Hl Hc. induction x as [|e x IHx]; intros [|e' y] Hl Hc; try discriminate.
    - split; [reflexivity|exact Hc].
    - cbn in Hl, Hc. injection Hl as Hl. injection Hc as -> Hc.
      destruct (IHx y Hl Hc) as [-> ?]. split; [reflexivity|assumption]. }
  f_equal. apply IH; assumption.
Qed.

Lemma concat_shape_length : forall (a b : list bytes),
  map (@List.length N) a = map (@List.length N) b -> List.length (List.concat a) = List.length (List.concat b).
Proof.
  induction a as [|x a IH]; intros [|y b] H; try discriminate; [reflexivity|].
  cbn in *. injection H as H1 H2. rewrite !app_length, H1. f_equal. apply IH, H2.
Qed.

(* re-splitting a string that has the shape of a split gives that split back *)
Lemma blocks_of_concat : forall r x os,
  map (@List.length N) os = map (@List.length N) (cy_blocks r x) ->
  cy_blocks r (List.concat os) = os.
Proof.
  intros r x os H. unfold cy_blocks in *.
  assert (Hlen : List.length (List.concat os) = List.length x).
  { rewrite (concat_shape_length _ _ H), blocks_fuel_concat. reflexivity. }
  apply shape_concat_inj.
  - rewrite Hlen, H. apply blocks_fuel_shape. exact Hlen.
  - apply blocks_fuel_concat.
Qed.

Section WithF.
Variable f : bytes -> bytes.

(* ------------------------------------------------------------------ Crypt is an involution *)
Lemma crypt_blocks_cons : forall d c b rest cu,
  crypt_blocks f d c (b :: rest) cu =
  (xor_ks b (st (cy_up f c cu)) ::
     fst (crypt_blocks f d (cy_down (cy_up f c cu) (if d then xor_ks b (st (cy_up f c cu)) else b) 0) rest 0),
   snd (crypt_blocks f d (cy_down (cy_up f c cu) (if d then xor_ks b (st (cy_up f c cu)) else b) 0) rest 0)).
Proof.
  intros. cbn [crypt_blocks].
  destruct (crypt_blocks f d (cy_down (cy_up f c cu) (if d then xor_ks b (st (cy_up f c cu)) else b) 0) rest 0).
  reflexivity.
Qed.

Local Opaque cy_up cy_down.
Lemma crypt_blocks_shape : forall d bl c cu os c',
  crypt_blocks f d c bl cu = (os, c') -> map (@List.length N) os = map (@List.length N) bl.
Proof.
  induction bl as [|b bl IH]; intros c cu os c' H.
  - cbn in H. injection H as <- _. reflexivity.
  - rewrite crypt_blocks_cons in H.
    destruct (crypt_blocks f d _ bl 0) as [os' c3] eqn:E. cbn [fst snd] in H. injection H as <- _.
    cbn [map]. rewrite xor_ks_length. f_equal. eapply IH, E.
Qed.

Lemma crypt_blocks_inv : forall d bl c cu os c',
  crypt_blocks f d c bl cu = (os, c') -> crypt_blocks f (negb d) c os cu = (bl, c').
Proof.
  induction bl as [|b bl IH]; intros c cu os c' H.
  - cbn in H. injection H as <- <-. reflexivity.
  - rewrite crypt_blocks_cons in H.
    destruct (crypt_blocks f d _ bl 0) as [os' c3] eqn:E. cbn [fst snd] in H. injection H as <- <-.
    rewrite crypt_blocks_cons. destruct d; lazy beta iota delta [negb] in *; rewrite ?xor_ks_involutive;
      rewrite (IH _ _ _ _ E); reflexivity.
Qed.

Local Transparent cy_up cy_down.
Lemma crypt_inv : forall d c i o c', crypt f d c i = (o, c') -> crypt f (negb d) c o = (i, c').
Proof.
  intros d c i o c' H. unfold crypt in *.
  destruct (crypt_blocks f d c (cy_blocks cy_rKout i) 128) as [os c1] eqn:E.
  injection H as <- <-.
  rewrite (blocks_of_concat cy_rKout i os (crypt_blocks_shape _ _ _ _ _ _ E)).
  rewrite (crypt_blocks_inv _ _ _ _ _ _ E).
  unfold cy_blocks. rewrite blocks_fuel_concat. reflexivity.
Qed.

Lemma crypt_length : forall d c i, List.length (fst (crypt f d c i)) = List.length i.
Proof.
  intros. unfold crypt.
  destruct (crypt_blocks f d c (cy_blocks cy_rKout i) 128) as [os c1] eqn:E. cbn [fst].
  rewrite (concat_shape_length _ _ (crypt_blocks_shape _ _ _ _ _ _ E)).
  unfold cy_blocks. rewrite blocks_fuel_concat. reflexivity.
Qed.

(* the receiver recovers the plaintext and ends in the sender's state, and conversely *)
Lemma decrypt_encrypt : forall c p ct c1,
  cy_encrypt f c p = Ok (ct, c1) -> cy_decrypt f c ct = Ok (p, c1).
Proof.
  unfold cy_encrypt, cy_decrypt. intros c p ct c1 H. destruct (md c); [discriminate|].
  injection H as H. f_equal. apply (crypt_inv false). exact H.
Qed.
Lemma encrypt_decrypt : forall c ct p c1,
  cy_decrypt f c ct = Ok (p, c1) -> cy_encrypt f c p = Ok (ct, c1).
Proof.
  unfold cy_encrypt, cy_decrypt. intros c ct p c1 H. destruct (md c); [discriminate|].
  injection H as H. f_equal. apply (crypt_inv true). exact H.
Qed.

(* ------------------------------------------------------------------ programs stay in sync *)
Lemma step_mirror : forall c o y c1,
  cy_step f c o = Ok (y, c1) -> cy_step f c (mirror_op o y) = Ok (mirror_out o y, c1).
Proof.
  intros c o y c1 H. destruct o; cbn [mirror_op mirror_out]; try exact H.
  - apply decrypt_encrypt. exact H.
  - apply encrypt_decrypt. exact H.
Qed.

Lemma run_mirror : forall ops c outs c',
  cy_run f c ops = Ok (outs, c') ->
  cy_run f c (mirror_ops ops outs) = Ok (mirror_outs ops outs, c').
Proof.
  induction ops as [|o ops IH]; intros c outs c' H; cbn [cy_run] in H.
  - injection H as <- <-. reflexivity.
  - destruct (cy_step f c o) as [[y c1]| |] eqn:E; try discriminate.
    destruct (cy_run f c1 ops) as [[ys c2]| |] eqn:R; try discriminate.
    injection H as <- <-. cbn [mirror_ops mirror_outs cy_run].
    rewrite (step_mirror _ _ _ _ E), (IH _ _ _ R). reflexivity.
Qed.

Lemma mirror_outs_length : forall ops outs, List.length ops = List.length outs ->
  List.length (mirror_outs ops outs) = List.length outs.
Proof.
  induction ops as [|o ops IH]; intros [|y outs] H; try discriminate; [reflexivity|].
  cbn. f_equal. apply IH. injection H as H. exact H.
Qed.

Lemma run_outs_length : forall ops c outs c',
  cy_run f c ops = Ok (outs, c') -> List.length outs = List.length ops.
Proof.
  induction ops as [|o ops IH]; intros c outs c' H; cbn [cy_run] in H.
  - injection H as <- _. reflexivity.
  - destruct (cy_step f c o) as [[y c1]| |]; try discriminate.
    destruct (cy_run f c1 ops) as [[ys c2]| |] eqn:R; try discriminate.
    injection H as <- _. cbn. f_equal. eapply IH, R.
Qed.

(* the two views are mirror images of each other: mirroring twice gives the program back *)
Lemma mirror_involutive : forall ops c outs c',
  cy_run f c ops = Ok (outs, c') ->
  mirror_ops (mirror_ops ops outs) (mirror_outs ops outs) = ops /\
  mirror_outs (mirror_ops ops outs) (mirror_outs ops outs) = outs.
Proof.
  induction ops as [|o ops IH]; intros c outs c' H; cbn [cy_run] in H.
  - injection H as <- _. split; reflexivity.
  - destruct (cy_step f c o) as [[y c1]| |] eqn:E; try discriminate.
    destruct (cy_run f c1 ops) as [[ys c2]| |] eqn:R; try discriminate.
    injection H as <- _. cbn [mirror_ops mirror_outs].
    destruct (IH _ _ _ R) as [H1 H2]. rewrite H1, H2.
    destruct o; cbn; split; reflexivity.
Qed.

(* a call that panics (keyed-only call in hash mode) panics on the peer too *)
Lemma step_panic_mirror : forall c o y, cy_step f c o = Panic -> cy_step f c (mirror_op o y) = Panic.
Proof.
  intros c o y H. destruct o; cbn [mirror_op]; try exact H;
    unfold cy_step, cy_encrypt, cy_decrypt in *; destruct (md c); try discriminate; reflexivity.
Qed.

(* ------------------------------------------------------------------ domain separation in hash mode *)
Lemma up_hash_ignores_cu : forall c cu, md c = MHash -> cy_up f c cu = cy_up f c 0.
Proof. intros c cu H. unfold cy_up. rewrite H. reflexivity. Qed.
Lemma down_hash_masks_cd : forall c x cd, md c = MHash -> cy_down c x cd = cy_down c x (N.land cd 1).
Proof.
  intros c x cd H. unfold cy_down. rewrite H.
  rewrite <- N.land_assoc. reflexivity.
Qed.

(* ------------------------------------------------------------------ length laws *)
(* these need f to preserve the state length (a permutation of 200-byte states does) *)
Definition cy_wf (c : cy) : Prop :=
  List.length (st c) = cy_fB /\ (0 < r_sq c <= cy_fB)%nat /\ (0 < r_abs c)%nat.

Section Lengths.
Hypothesis f_len : forall s, List.length (f s) = cy_fB.

Lemma up_wf : forall c cu, cy_wf c -> cy_wf (cy_up f c cu).
Proof. intros c cu (H1 & H2 & H3). unfold cy_wf, cy_up; cbn. rewrite f_len. auto. Qed.
Lemma down_wf : forall c x cd, cy_wf c -> cy_wf (cy_down c x cd).
Proof.
  intros c x cd (H1 & H2 & H3). unfold cy_wf, cy_down; cbn.
  rewrite !add_byte_length, xor_into_length. auto.
Qed.

Lemma absorb_blocks_wf : forall bl c cd, cy_wf c -> cy_wf (absorb_blocks f c bl cd).
Proof.
  induction bl as [|b bl IH]; intros c cd H; cbn [absorb_blocks]; [exact H|].
  apply IH, down_wf. destruct (ph c); [exact H|apply up_wf, H].
Qed.
Lemma absorb_any_wf : forall c x r cd, cy_wf c -> cy_wf (absorb_any f c x r cd).
Proof. intros. apply absorb_blocks_wf. assumption. Qed.

Lemma crypt_blocks_wf : forall d bl c cu, cy_wf c -> cy_wf (snd (crypt_blocks f d c bl cu)).
Proof.
  induction bl as [|b bl IH]; intros c cu H; cbn [crypt_blocks]; [exact H|].
  match goal with |- context [crypt_blocks f d ?c' bl 0] =>
    specialize (IH c' 0); destruct (crypt_blocks f d c' bl 0) as [os c3] end.
  cbn [snd] in *. apply IH, down_wf, up_wf, H.
Qed.
Lemma crypt_wf : forall d c i, cy_wf c -> cy_wf (snd (crypt f d c i)).
Proof.
  intros d c i H. unfold crypt.
  pose proof (crypt_blocks_wf d (cy_blocks cy_rKout i) c 128 H) as W.
  destruct (crypt_blocks f d c (cy_blocks cy_rKout i) 128). exact W.
Qed.

Lemma squeeze_more_spec : forall fuel c n, cy_wf c -> (n <= fuel)%nat ->
  List.length (fst (squeeze_more f fuel c n)) = n /\ cy_wf (snd (squeeze_more f fuel c n)) /\
  r_sq (snd (squeeze_more f fuel c n)) = r_sq c.
Proof.
  induction fuel as [|k IH]; intros c n W Hn; cbn [squeeze_more].
  - assert (n = 0)%nat by lia. subst. cbn. auto.
  - destruct n as [|n']; [cbn; auto|].
    set (c1 := cy_up f (cy_down c [] 0) 0).
    assert (W1 : cy_wf c1) by (apply up_wf, down_wf, W).
    assert (R1 : r_sq c1 = r_sq c) by reflexivity.
    destruct W as (Hs & Hr & Ha). destruct W1 as (Hs1 & Hr1 & Ha1).
    set (l := Nat.min (S n') (r_sq c)).
    assert (Hl : (0 < l <= S n')%nat) by (unfold l; lia).
    specialize (IH c1 (S n' - l)%nat (conj Hs1 (conj Hr1 Ha1)) ltac:(lia)).
    destruct (squeeze_more f k c1 (S n' - l)) as [y c2]. cbn [fst snd] in *.
    destruct IH as (L & W2 & R2). split; [|split; [exact W2|congruence]].
    rewrite app_length, firstn_length, L, Hs1. unfold cy_fB in *. lia.
Qed.

Lemma squeeze_any_spec : forall c n cu, cy_wf c ->
  List.length (fst (squeeze_any f c n cu)) = n /\ cy_wf (snd (squeeze_any f c n cu)).
Proof.
  intros c n cu W. unfold squeeze_any.
  set (c1 := cy_up f c cu). assert (W1 : cy_wf c1) by (apply up_wf, W).
  set (l := Nat.min n (r_sq c)).
  destruct (squeeze_more_spec (n - l) c1 (n - l) W1 (le_n _)) as (L & W2 & _).
  destruct (squeeze_more f (n - l) c1 (n - l)) as [y c2]. cbn [fst snd] in *.
  split; [|exact W2].
  destruct W1 as (Hs1 & _). destruct W as (_ & Hr & _).
  rewrite app_length, firstn_length, L, Hs1. unfold l, cy_fB in *. lia.
Qed.

Lemma empty_wf : cy_wf cy_empty.
Proof. unfold cy_wf, cy_empty, cy_fB, cy_rHash; cbn. lia. Qed.

Lemma initialize_wf : forall k id ctr c, cy_initialize f k id ctr = Ok c -> cy_wf c.
Proof.
  intros k id ctr c H. unfold cy_initialize in H. destruct k as [|k0 k].
  - injection H as <-. apply empty_wf.
  - unfold absorb_key in H.
    destruct (cy_rKin <=? List.length (k0 :: k) + List.length id)%nat; [discriminate|].
    injection H as <-.
    assert (W0 : cy_wf (mkcy (ph cy_empty) MKey cy_rKin cy_rKout (st cy_empty))).
    { unfold cy_wf, cy_fB, cy_rKin, cy_rKout; cbn. lia. }
    destruct ctr; repeat apply absorb_any_wf; exact W0.
Qed.

Lemma step_wf : forall c o y c1, cy_wf c -> cy_step f c o = Ok (y, c1) -> cy_wf c1.
Proof.
  intros c o y c1 W H. destruct o; cbn [cy_step] in H.
  - injection H as _ <-. apply absorb_any_wf, W.
  - unfold cy_encrypt in H. destruct (md c); [discriminate|]. injection H as H.
    pose proof (crypt_wf false c p W) as W1. rewrite H in W1. exact W1.
  - unfold cy_decrypt in H. destruct (md c); [discriminate|]. injection H as H.
    pose proof (crypt_wf true c ct W) as W1. rewrite H in W1. exact W1.
  - injection H as H. pose proof (squeeze_any_spec c n 64 W) as [_ W1].
    unfold cy_squeeze in H. rewrite H in W1. exact W1.
  - unfold cy_squeeze_key in H. destruct (md c); [discriminate|]. injection H as H.
    pose proof (squeeze_any_spec c n 32 W) as [_ W1]. rewrite H in W1. exact W1.
  - unfold cy_ratchet in H. destruct (md c); [discriminate|].
    pose proof (squeeze_any_spec c cy_lRatchet 16 W) as [_ W1].
    destruct (squeeze_any f c cy_lRatchet 16) as [yy c2]. cbn [snd] in W1.
    injection H as _ <-. apply absorb_any_wf, W1.
Qed.

(* every call returns exactly the number of bytes asked for *)
Lemma step_length : forall c o y c1, cy_wf c -> cy_step f c o = Ok (y, c1) ->
  List.length y = match o with
                  | CAbsorb _ | CRatchet => 0%nat
                  | CEncrypt p => List.length p
                  | CDecrypt ct => List.length ct
                  | CSqueeze n | CSqueezeKey n => n
                  end.
Proof.
  intros c o y c1 W H. destruct o; cbn [cy_step] in H.
  - injection H as <- _. reflexivity.
  - unfold cy_encrypt in H. destruct (md c); [discriminate|]. injection H as H.
    pose proof (crypt_length false c p) as L. rewrite H in L. exact L.
  - unfold cy_decrypt in H. destruct (md c); [discriminate|]. injection H as H.
    pose proof (crypt_length true c ct) as L. rewrite H in L. exact L.
  - injection H as H. pose proof (squeeze_any_spec c n 64 W) as [L _].
    unfold cy_squeeze in H. rewrite H in L. exact L.
  - unfold cy_squeeze_key in H. destruct (md c); [discriminate|]. injection H as H.
    pose proof (squeeze_any_spec c n 32 W) as [L _]. rewrite H in L. exact L.
  - unfold cy_ratchet in H. destruct (md c); [discriminate|].
    destruct (squeeze_any f c cy_lRatchet 16). injection H as <- _. reflexivity.
Qed.

End Lengths.
End WithF.

Lemma lengths_law : forall (f : bytes -> bytes),
  (forall s, List.length (f s) = cy_fB) ->
  (forall k id ctr c, cy_initialize f k id ctr = Ok c -> cy_wf c) /\
  (forall c o y c1, cy_wf c -> cy_step f c o = Ok (y, c1) ->
     cy_wf c1 /\
     List.length y = match o with
                     | CAbsorb _ | CRatchet => 0%nat
                     | CEncrypt p => List.length p
                     | CDecrypt ct => List.length ct
                     | CSqueeze n | CSqueezeKey n => n
                     end).
Proof.
  intros f H. split.
  - exact (initialize_wf f H).
  - intros c o y c1 W S. split; [exact (step_wf f H c o y c1 W S) | exact (step_length f H c o y c1 W S)].
Qed.

(* ------------------------------------------------------------------ the Keccak instance preserves length *)
Lemma bytes_of_lanes_length : forall a, List.length (bytes_of_lanes a) = (8 * List.length a)%nat.
Proof.
  induction a as [|x a IH]; [reflexivity|].
  unfold bytes_of_lanes in *. cbn [flat_map]. rewrite app_length, IH. cbn [bytes_of_lane List.length]. lia.
Qed.
Lemma lanes_of_bytes_n_length : forall n b, List.length (lanes_of_bytes_n n b) = n.
Proof. induction n; intros; cbn [lanes_of_bytes_n List.length]; [reflexivity|]. f_equal. apply IHn. Qed.
Lemma keccak_round_length : forall ir a, List.length (keccak_round ir a) = 25%nat.
Proof.
  intros. unfold keccak_round, iota.
  assert (L : List.length (chi (pi (rho (theta a)))) = 25%nat).
  { unfold chi. rewrite map_length, combine_length. reflexivity. }
  destruct (chi (pi (rho (theta a)))); [discriminate|]. exact L.
Qed.
Lemma rounds_from_length : forall n ir a, List.length a = 25%nat -> List.length (rounds_from n ir a) = 25%nat.
Proof.
  induction n; intros ir a H; cbn [rounds_from]; [exact H|]. apply IHn, keccak_round_length.
Qed.
Lemma keccak_p_bytes_length : forall nr b, List.length (keccak_p_bytes nr b) = 200%nat.
Proof.
  intros. unfold keccak_p_bytes, keccak_p. rewrite bytes_of_lanes_length, rounds_from_length.
  - reflexivity.
  - apply lanes_of_bytes_n_length.
Qed.
Lemma keccak12_len : forall s, List.length (keccak12 s) = cy_fB.
Proof. intros. apply keccak_p_bytes_length. Qed.
