package main

// Independent (written from authgrant_spec.md / the wire layout, not calling the repo's codecs)
// field-level view of an intent, used by the specification oracle to compare "what was approved"
// with "what reached the target" field for field.

import (
	"bytes"
	"encoding/binary"
	"encoding/hex"
	"fmt"
	"io"
	"time"

	"hop.computer/hop/authgrants"
	"hop.computer/hop/certs"
	"verifharness/hv"
)

type wi struct {
	gt, res  byte
	port     uint16
	start    int64
	exp      int64
	sniTy    byte
	sniLabel []byte
	user     string
	cert     []byte // serialised delegate certificate
	cmd      string // only for grant type Command (2)
}

func (w wi) body() []byte {
	var b bytes.Buffer
	b.Write([]byte{w.gt, w.res})
	binary.Write(&b, binary.BigEndian, w.port)
	binary.Write(&b, binary.BigEndian, uint64(w.start))
	binary.Write(&b, binary.BigEndian, uint64(w.exp))
	b.Write([]byte{byte(len(w.sniLabel) + 3), w.sniTy, byte(len(w.sniLabel))})
	b.Write(w.sniLabel)
	b.WriteByte(byte(len(w.user)))
	b.WriteString(w.user)
	b.Write(w.cert)
	if w.gt == 2 {
		b.WriteByte(byte(len(w.cmd)))
		b.WriteString(w.cmd)
	}
	return b.Bytes()
}

func (w wi) key() string {
	return fmt.Sprintf("%d.%d.%d.%d.%d.%d.%x.%x.%x.%x", w.gt, w.res, w.port, w.start, w.exp, w.sniTy, w.sniLabel, w.user, w.cert, w.cmd)
}

func (w wi) eq(o wi) bool { return w.key() == o.key() }

func (w wi) sameURL(o wi) bool {
	return w.user == o.user && bytes.Equal(w.sniLabel, o.sniLabel) && w.port == o.port
}

func (w wi) desc() string {
	h := hex.EncodeToString(w.cert)
	if len(h) > 8 {
		h = h[:8] + ".." + h[len(h)-4:]
	}
	return fmt.Sprintf("{gt=%d res=%d user=%q host=%q/%d port=%d start=%d exp=%d cert=%s cmd=%q}", w.gt, w.res, w.user, w.sniLabel, w.sniTy, w.port, w.start, w.exp, h, w.cmd)
}

func (w wi) coq() string {
	return hv.App("IN", hv.N(uint64(w.gt)), hv.N(uint64(w.res)), hv.N(uint64(w.port)), numCoq(uint64(w.start)), numCoq(uint64(w.exp)),
		hv.N(uint64(w.sniTy)), bytesCoq(w.sniLabel), bytesCoq([]byte(w.user)), certCoq(w.cert), bytesCoq([]byte(w.cmd)))
}

// streaming decoder of an intent body (own implementation)
func readWI(r io.Reader) (wi, error) {
	var w wi
	h := make([]byte, 20)
	if _, err := io.ReadFull(r, h); err != nil {
		return w, err
	}
	w.gt, w.res = h[0], h[1]
	w.port = binary.BigEndian.Uint16(h[2:])
	w.start = int64(binary.BigEndian.Uint64(h[4:]))
	w.exp = int64(binary.BigEndian.Uint64(h[12:]))
	nb := make([]byte, 3)
	if _, err := io.ReadFull(r, nb); err != nil {
		return w, err
	}
	w.sniTy = nb[1]
	w.sniLabel = make([]byte, int(nb[2]))
	if _, err := io.ReadFull(r, w.sniLabel); err != nil {
		return w, err
	}
	s, err := readStr(r)
	if err != nil {
		return w, err
	}
	w.user = s
	// certificate: 4 + 8 + 8 + 32 + 32, chunk (2-byte total length incl. itself), 64
	ch := make([]byte, 86)
	if _, err := io.ReadFull(r, ch); err != nil {
		return w, err
	}
	cl := int(binary.BigEndian.Uint16(ch[84:]))
	if cl < 2 || cl > 512 {
		return w, fmt.Errorf("bad chunk length")
	}
	rest := make([]byte, cl-2+64)
	if _, err := io.ReadFull(r, rest); err != nil {
		return w, err
	}
	w.cert = append(ch, rest...)
	if w.gt == 2 {
		s, err := readStr(r)
		if err != nil {
			return w, err
		}
		w.cmd = s
	}
	return w, nil
}

func readStr(r io.Reader) (string, error) {
	l := make([]byte, 1)
	if _, err := io.ReadFull(r, l); err != nil {
		return "", err
	}
	b := make([]byte, int(l[0]))
	if _, err := io.ReadFull(r, b); err != nil {
		return "", err
	}
	return string(b), nil
}

// own serialisation of a certificate value (field by field)
func encCert(c *certs.Certificate) []byte {
	var b bytes.Buffer
	b.Write([]byte{c.Version, byte(c.Type), 0, 0})
	binary.Write(&b, binary.BigEndian, uint64(c.IssuedAt.Unix()))
	binary.Write(&b, binary.BigEndian, uint64(c.ExpiresAt.Unix()))
	b.Write(c.PublicKey[:])
	b.Write(c.Parent[:])
	n := 2
	for _, nm := range c.IDChunk.Blocks {
		n += 3 + len(nm.Label)
	}
	binary.Write(&b, binary.BigEndian, uint16(n))
	for _, nm := range c.IDChunk.Blocks {
		b.Write([]byte{byte(len(nm.Label) + 3), byte(nm.Type), byte(len(nm.Label))})
		b.Write(nm.Label)
	}
	b.Write(c.Signature[:])
	return b.Bytes()
}

// field-level view of the Go value the approval callback / the target callbacks were given
func fromIntent(i *authgrants.Intent) wi {
	w := wi{gt: byte(i.GrantType), res: i.Reserved, port: i.TargetPort, start: i.StartTime.Unix(), exp: i.ExpTime.Unix(),
		sniTy: byte(i.TargetSNI.Type), sniLabel: append([]byte{}, i.TargetSNI.Label...), user: i.TargetUsername,
		cert: encCert(&i.DelegateCert)}
	// associated data: every grant-data field the value carries
	w.cmd = i.AssociatedData.CommandGrantData.Cmd
	return w
}

// Go value for a field-level intent (used to drive the real target instance from the principal side)
func toIntent(w wi) authgrants.Intent {
	var c certs.Certificate
	if _, err := c.ReadFrom(bytes.NewReader(w.cert)); err != nil {
		panic("driver: generated certificate does not parse: " + err.Error())
	}
	i := authgrants.Intent{GrantType: authgrants.GrantType(w.gt), Reserved: w.res, TargetPort: w.port,
		StartTime: time.Unix(w.start, 0), ExpTime: time.Unix(w.exp, 0),
		TargetSNI: certs.Name{Type: certs.IDType(w.sniTy), Label: append([]byte{}, w.sniLabel...)}, TargetUsername: w.user, DelegateCert: c}
	i.AssociatedData.CommandGrantData.Cmd = w.cmd
	return i
}

// ---- generators

// three fixed delegate certificates (one name, two names, no name); Corr/C06.v holds the same constants
// as CERT0..CERT2 so that case files stay small. Other certificates are written out in full.
var fixedCertHex = []string{
	"0101000001020304050607080fedcba0987654329c9f4163ca8ebe2c25b4f20ba7194b5f8cce7dad64acaff8186bb70125160abfd1bc9ca6c7890a6ae251ee1462680625b832af9d0822dd68b99654cfafeee3fd001513011064656c65676174652e6578616d706c6587272385579e888291108efe8c17f44a320f1dddb6e8997705dcee6b7c1c2694d4d7495338fba6dde6d78b83ed4f4f804f698e74abb86591aa1fc64409594b73",
	"0202000001020304050607090fedcba0987654313d08186c518b501f5bed43a749500d2b814475bc09c755335d2c9da60310b395a7e64b1d8f42e11ca5e984d673adb0703a164b0872d12eb2a6004616abb2b2dd000d040101640702040a0000075dd24b640677316df6e443997c443cc18a23b8df951871b1c4fab4263466c1a3f5b92aab2ce59ec6ab84ff3c7cc6c896c520f3afc9fa79d82054bdc3665e4624",
	"01030000010203040506070a0fedcba098765430e2aef9ad3b7111ca9fea5fd3118b21e3307300a35ab33558308bdec74273c0fac8fe5d507f207a382123d83514cfc112fdf25d7f2475d37cda0efddbd730db37000246ec2ecf430541671f29314deae47b8b1bcd7a2a6d120045b758615bf046fb06ebfeeff3fadd6bba79d0b6a975a4d803afb78907a57b31eb07b6533e8661419a",
}

func fixedCerts() [][]byte {
	var out [][]byte
	for _, h := range fixedCertHex {
		b, err := hex.DecodeString(h)
		if err != nil {
			panic(err)
		}
		out = append(out, b)
	}
	return out
}

// frequent field values have names in Corr/C06.v (keeps case files small; Coq is slow on long literals)
var symStr = map[string]string{"target": "S1", "t.example": "S2", "t": "S3", "": "S0", "user": "S4", "root": "S5", "u2": "S6", "echo hi": "S7", "sudo reboot": "S8", "ls -la /": "S9", "echo hello world": "S10"}
var symNum = map[uint64]string{1700000000: "T1", 1700003600: "T2", 4611686018427387907: "T3", 9223372036854775807: "T4"}

func bytesCoq(b []byte) string {
	if n, ok := symStr[string(b)]; ok {
		return n
	}
	return hv.Hex(b)
}
func numCoq(v uint64) string {
	if n, ok := symNum[v]; ok {
		return n
	}
	return hv.N(v)
}

func certCoq(c []byte) string {
	h := hex.EncodeToString(c)
	for k, f := range fixedCertHex {
		if f == h {
			return fmt.Sprintf("CERT%d", k)
		}
	}
	return hv.Hex(c)
}

func genCert(r *hv.Rand, nnames int) []byte {
	var b bytes.Buffer
	b.Write([]byte{byte(1 + r.Intn(2)), byte(1 + r.Intn(3)), 0, 0})
	binary.Write(&b, binary.BigEndian, uint64(r.Intn(1<<30)))
	binary.Write(&b, binary.BigEndian, uint64(1<<30+r.Intn(1<<30)))
	b.Write(r.Bytes(32))
	b.Write(r.Bytes(32))
	var blocks bytes.Buffer
	for k := 0; k < nnames; k++ {
		l := []byte(hv.Pick(r, []string{"delegate.example", "d", "", "10.0.0.7", "a.b.c.d.e"}))
		blocks.Write([]byte{byte(len(l) + 3), byte(r.Intn(4)), byte(len(l))})
		blocks.Write(l)
	}
	binary.Write(&b, binary.BigEndian, uint16(2+blocks.Len()))
	b.Write(blocks.Bytes())
	b.Write(r.Bytes(64))
	return b.Bytes()
}

var grantTypes = []byte{1, 2, 2, 5, 0, 6, 200, 255} // Shell, Command, Acme, unknown ones (3,4 = LocalPF/RemotePF panic in the codec: C18/C11)

func genIntent(r *hv.Rand, certPool [][]byte) wi {
	w := wi{gt: hv.Pick(r, grantTypes), res: hv.Pick(r, []byte{0, 0, 0, 1, 255}),
		port:     hv.Pick(r, []uint16{22, 77, 7777, 0, 65535}),
		start:    hv.Pick(r, []int64{0, 1, 1700000000, 1<<62 + 3, 1<<63 - 1}),
		exp:      hv.Pick(r, []int64{0, 1700003600, 2, 1<<63 - 1}),
		sniTy:    byte(r.Intn(4)),
		sniLabel: []byte(hv.Pick(r, []string{"target", "t.example", "t", ""})),
		user:     hv.Pick(r, []string{"user", "root", "", "u2"}),
		cert:     hv.Pick(r, certPool)}
	if w.gt == 2 {
		w.cmd = hv.Pick(r, []string{"echo hi", "sudo reboot", "", "ls -la /", string(r.Bytes(1 + r.Intn(8)))})
	}
	return w
}

// same target URL (user, host label, port), every other field may differ
func genSameTarget(r *hv.Rand, base wi, certPool [][]byte) wi {
	w := genIntent(r, certPool)
	w.user, w.sniLabel, w.port = base.user, base.sniLabel, base.port
	return w
}

// differs from base in at least one URL component
func genOtherTarget(r *hv.Rand, base wi, certPool [][]byte) wi {
	w := base
	if r.Chance(50) {
		w = genSameTarget(r, base, certPool)
	}
	switch r.Intn(3) {
	case 0:
		w.user = base.user + "x"
	case 1:
		w.sniLabel = append(append([]byte{}, base.sniLabel...), 'x')
	default:
		w.port = base.port ^ 1
	}
	return w
}
