// Package hv holds what every correspondence driver shares: the single PRNG, Coq term
// printers, and the JSON-lines protocol understood by /verif/check.
//
// A driver prints one JSON object per line on stdout:
//
//	{"k":"case", "fn":<Coq checker>, "coq":<Coq term>, "class":<generator class>,
//	 "desc":<human readable input>, "spec":<true|false>, "sig":<finding signature>,
//	 "nt":<non-trivial?>, "key":<distinctness key>, "replay":<object echoed into replay files>}
//	{"k":"info", ...}
//
// "spec" is the verdict of the property's *specification oracle* evaluated on what the
// implementation did (independent of the Coq model); "coq" is the case plus the observed
// implementation behaviour, to be compared with the model inside Coq.
package hv

import (
	"bufio"
	"encoding/hex"
	"encoding/json"
	"fmt"
	"os"
	"strconv"
	"strings"
)

// ---------------------------------------------------------------- PRNG (splitmix64)

type Rand struct{ s uint64 }

// NewRand scrambles the seed through the splitmix finaliser first, so that consecutive seeds give
// unrelated streams (seed*gamma alone would give the same stream shifted by one step).
func NewRand(seed uint64) *Rand {
	z := seed + 0x1234567
	z = (z ^ (z >> 30)) * 0xBF58476D1CE4E5B9
	z = (z ^ (z >> 27)) * 0x94D049BB133111EB
	z ^= z >> 31
	return &Rand{s: z ^ (seed * 0xD6E8FEB86659FD93)}
}

func (r *Rand) U64() uint64 {
	r.s += 0x9E3779B97F4A7C15
	z := r.s
	z = (z ^ (z >> 30)) * 0xBF58476D1CE4E5B9
	z = (z ^ (z >> 27)) * 0x94D049BB133111EB
	return z ^ (z >> 31)
}
func (r *Rand) Intn(n int) int {
	if n <= 0 {
		return 0
	}
	return int(r.U64() % uint64(n))
}
func (r *Rand) Bool() bool        { return r.U64()&1 == 1 }
func (r *Rand) Chance(p int) bool { return r.Intn(100) < p } // p percent
func (r *Rand) Bytes(n int) []byte {
	b := make([]byte, n)
	for i := range b {
		b[i] = byte(r.U64())
	}
	return b
}
func Pick[T any](r *Rand, xs []T) T { return xs[r.Intn(len(xs))] }

// ---------------------------------------------------------------- environment

func Seed() uint64 {
	if s := os.Getenv("VERIF_SEED"); s != "" {
		if v, err := strconv.ParseUint(s, 10, 64); err == nil {
			return v
		}
		if v, err := strconv.ParseInt(s, 10, 64); err == nil {
			return uint64(v)
		}
	}
	return 1
}
func Thorough() bool { return os.Getenv("VERIF_TIER") == "thorough" }

// Scale returns q in the quick tier and t in the thorough tier.
func Scale(q, t int) int {
	if Thorough() {
		return t
	}
	return q
}

// ---------------------------------------------------------------- Coq term printers

func N(v uint64) string { return strconv.FormatUint(v, 10) }
func Ni(v int) string   { return strconv.Itoa(v) }
func Z(v int64) string {
	if v < 0 {
		return "(" + strconv.FormatInt(v, 10) + ")%Z"
	}
	return strconv.FormatInt(v, 10) + "%Z"
}
func B(b bool) string {
	if b {
		return "true"
	}
	return "false"
}
func Hex(b []byte) string { return `(hex "` + hex.EncodeToString(b) + `")` }
func List(xs []string) string {
	return "[" + strings.Join(xs, "; ") + "]"
}
func Bools(bs []bool) string {
	xs := make([]string, len(bs))
	for i, b := range bs {
		xs[i] = B(b)
	}
	return List(xs)
}
func Ns(vs []uint64) string {
	xs := make([]string, len(vs))
	for i, v := range vs {
		xs[i] = N(v)
	}
	return List(xs)
}
func Tuple(xs ...string) string { return "(" + strings.Join(xs, ", ") + ")" }
func Some(x string) string      { return "(Some " + x + ")" }
func App(f string, xs ...string) string {
	return "(" + f + " " + strings.Join(xs, " ") + ")"
}

// Str prints a Go string as a Coq byte list (never as a Coq string literal: arbitrary bytes).
func Str(s string) string { return Hex([]byte(s)) }

// ---------------------------------------------------------------- output protocol

type Case struct {
	K      string      `json:"k"`
	Fn     string      `json:"fn"`             // Coq checker function (in Corr/Cxx.v); "" = no model comparison
	Coq    string      `json:"coq,omitempty"`  // Coq term of the case
	Class  string      `json:"class"`          // generator class (for the distribution)
	Desc   string      `json:"desc"`           // human-readable input
	Spec   bool        `json:"spec"`           // specification oracle verdict on the implementation's behaviour
	Sig    string      `json:"sig,omitempty"`  // finding signature when Spec is false
	What   string      `json:"what,omitempty"` // what failed, in words
	NT     bool        `json:"nt"`             // non-trivial by the driver's rule
	Key    string      `json:"key"`            // distinctness key
	Replay interface{} `json:"replay,omitempty"`
}

var out = bufio.NewWriterSize(os.Stdout, 1<<20)

func Emit(c Case) {
	c.K = "case"
	if c.Key == "" {
		c.Key = c.Desc
	}
	b, err := json.Marshal(c)
	if err != nil {
		panic(err)
	}
	out.Write(b)
	out.WriteByte('\n')
}

func Info(kv map[string]interface{}) {
	kv["k"] = "info"
	b, _ := json.Marshal(kv)
	out.Write(b)
	out.WriteByte('\n')
}

func Flush() { out.Flush() }

// Catch runs f and reports whether it panicked (a Go panic is an observation, not a crash).
func Catch(f func()) (panicked bool, msg string) {
	defer func() {
		if r := recover(); r != nil {
			panicked = true
			msg = fmt.Sprint(r)
		}
	}()
	f()
	return
}
