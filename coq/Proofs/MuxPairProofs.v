(* proofs for Model/MuxPair.v — see Properties/C09.v *)
From Hop Require Import Base Recv Mux MuxProofs MuxPair.
From Coq Require Import ZifyN ZifyNat ZifyBool Lia.
Ltac Zify.zify_post_hook ::= Z.div_mod_to_equations.
Open Scope N_scope.

(* no operation changes the muxer's parity *)
Lemma set_tubes_parity : forall m rel l, m_parity (set_tubes m rel l) = m_parity m.
Proof. reflexivity. Qed.

Lemma demux_parity : forall m f, m_parity (demux m f) = m_parity m.
Proof.
  intros m f. unfold demux.
  destruct (get_tube m (mf_rel f) (mf_id f)) as [t|].
  - reflexivity.
  - destruct (mf_req f); [|reflexivity].
    destruct (make_tube m (mf_rel f) (mf_type f) (mf_id f) false) as [[m1 t]|] eqn:Mk; [|reflexivity].
    rewrite set_tubes_parity. apply (make_tube_spec _ _ _ _ _ _ _ Mk).
Qed.

Lemma mstep_parity : forall m o, m_parity (fst (mstep m o)) = m_parity m.
Proof.
  intros m o. destruct o; simpl.
  - destruct (create_tube m rel ty) as [[m' id]| |] eqn:C; simpl; auto.
    unfold create_tube in C. destruct (pick_tube_id m rel) as [g|]; [|discriminate].
    destruct (make_tube m rel ty g true) as [[m1 t]|] eqn:Mk; [|discriminate]. inversion C; subst.
    apply (make_tube_spec _ _ _ _ _ _ _ Mk).
  - apply demux_parity.
  - destruct (accept m) as [[m' t]|] eqn:A; simpl; auto. unfold accept in A.
    destruct (m_queue m); inversion A; reflexivity.
  - unfold close_tube. destruct (get_tube m rel id); reflexivity.
  - unfold reap_tube. destruct (get_tube m rel id) as [t|]; auto. destruct (t_state t); reflexivity.
  - destruct (read_tube m rel id) as [m' out] eqn:R. simpl. unfold read_tube in R.
    destruct (get_tube m rel id) as [t|]; [|inversion R; reflexivity]. destruct rel.
    + destruct (read (t_recv t) 1048576) as [[[r' o] e]|]; inversion R; reflexivity.
    + destruct (t_msgs t); [inversion R; reflexivity|]. destruct (t_state t); inversion R; reflexivity.
Qed.

(* every identifier Create returns anywhere in a history has the muxer's parity and is below 256 *)
Theorem created_ids_parity : forall ops m, MInv m ->
  forall x, In x (created_ids m ops) -> snd x mod 2 = m_parity m /\ snd x < 256.
Proof.
  induction ops as [|o rest IH]; intros m I x H; simpl in H. contradiction.
  pose proof (mstep_inv m o I) as I1. pose proof (mstep_parity m o) as P1.
  assert (Rest: In x (created_ids (fst (mstep m o)) rest) -> snd x mod 2 = m_parity m /\ snd x < 256).
  { intros H1. rewrite <- P1. apply (IH _ I1 _ H1). }
  destruct o; auto.
  destruct (create_tube m rel ty) as [[m' id]| |] eqn:C; auto.
  destruct H as [<-|H]; auto. simpl.
  destruct (create_tube_spec _ _ _ _ _ I C) as (A & B & _). auto.
Qed.

(* two ends with different roles never hand out the same identifier *)
Theorem two_ends_disjoint : forall (sa sb : bool) (opsA opsB : list mop), sa <> sb ->
  forall x y, In x (created_ids (mux_new sa) opsA) -> In y (created_ids (mux_new sb) opsB) -> snd x <> snd y.
Proof.
  intros sa sb opsA opsB D x y Hx Hy E.
  destruct (created_ids_parity opsA _ (minv_new sa) _ Hx) as [Px _].
  destruct (created_ids_parity opsB _ (minv_new sb) _ Hy) as [Py _].
  rewrite E in Px. rewrite Px in Py. destruct sa, sb; simpl in Py; try discriminate; apply D; reflexivity.
Qed.
