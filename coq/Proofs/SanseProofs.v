(* SanseProofs.v — proofs about Model/Sanse.v and Model/Kravatte.v.
   The SANSE results hold for every deck function (every D, dk_absorb, dk_out). *)
From Hop Require Import Base Keccak Kravatte Sanse.
From Coq Require Import ZifyN ZifyNat ZifyBool.
Open Scope N_scope.

(* ------------------------------------------------------------------ small helpers *)
Lemma sn_lxor_cancel : forall a k, N.lxor (N.lxor a k) k = a.
Proof. intros. rewrite N.lxor_assoc, N.lxor_nilpotent, N.lxor_0_r. reflexivity. Qed.

Lemma sn_xor_involutive : forall i ks, sn_xor (sn_xor i ks) ks = i.
Proof.
  induction i as [|a i IH]; intros ks; [reflexivity|].
  destruct ks as [|k ks]; cbn [sn_xor].
  - f_equal. apply IH.
  - rewrite sn_lxor_cancel. f_equal. apply IH.
Qed.

Lemma sn_xor_length : forall i ks, List.length (sn_xor i ks) = List.length i.
Proof.
  induction i as [|a i IH]; intros ks; [reflexivity|].
  destruct ks; cbn [sn_xor List.length]; f_equal; apply IH.
Qed.

Lemma sn_xor_is_nil : forall i ks, is_nil (sn_xor i ks) = is_nil i.
Proof. intros [|a i] ks; [reflexivity|]. destruct ks; reflexivity. Qed.

Lemma beq_bytes_refl : forall a, beq_bytes a a = true.
Proof. induction a as [|x a IH]; [reflexivity|]. cbn. rewrite N.eqb_refl, IH. reflexivity. Qed.

Lemma beq_bytes_eq : forall a b, beq_bytes a b = true <-> a = b.
Proof.
  induction a as [|x a IH]; intros [|y b]; cbn; split; intros H; try discriminate; try reflexivity.
  - apply andb_true_iff in H as [H1 H2]. apply N.eqb_eq in H1. apply IH in H2. subst. reflexivity.
  - injection H as -> ->. rewrite N.eqb_refl. apply beq_bytes_refl.
Qed.

Section AnyDeck.
Variable D : Type.
Variable dk_absorb : D -> bitstr -> D.
Variable dk_out : D -> nat -> bytes.

Notation wrap := (sn_wrap D dk_absorb dk_out).
Notation unwrap := (sn_unwrap D dk_absorb dk_out).
Notation seal := (sn_seal D dk_absorb dk_out).
Notation open := (sn_open D dk_absorb dk_out).

Lemma ad_step_same : forall s a p c, is_nil c = is_nil p ->
  sn_ad_step D dk_absorb s a c = sn_ad_step D dk_absorb s a p.
Proof. intros. unfold sn_ad_step. rewrite H. reflexivity. Qed.

(* unwrap after wrap: the plaintext comes back and the receiver is in the sender's state *)
Lemma unwrap_wrap : forall s a p c t s',
  wrap s a p = (c, t, s') -> unwrap s a c t = (Some p, s').
Proof.
  intros s a p c t s' H. unfold sn_wrap in H. unfold sn_unwrap.
  destruct (is_nil p) eqn:Np.
  - injection H as <- <- <-. cbn [is_nil].
    destruct p; [|discriminate].
    rewrite beq_bytes_refl. reflexivity.
  - injection H as <- <- <-.
    rewrite sn_xor_is_nil, Np, sn_xor_length.
    rewrite (ad_step_same s a p (sn_xor p _)) by (rewrite sn_xor_is_nil; reflexivity).
    rewrite sn_xor_involutive, beq_bytes_refl. reflexivity.
Qed.

(* acceptance is exactly equality of the WHOLE presented tag with the first 32 bytes of the deck
   function on the new history; the new state does not depend on the verdict *)
Lemma unwrap_accepts_iff : forall s a c t,
  (exists p, fst (unwrap s a c t) = Some p) <->
  t = dk_out (sn_d (snd (unwrap s a c t))) sn_tag_len.
Proof.
  intros. unfold sn_unwrap. cbn [fst snd sn_d].
  match goal with |- context [beq_bytes ?x t] => destruct (beq_bytes x t) eqn:E end.
  - apply beq_bytes_eq in E. split; [intros _; symmetry; exact E | intros _; eexists; reflexivity].
  - split; [intros [p H]; discriminate|].
    intros H. symmetry in H. apply beq_bytes_eq in H. congruence.
Qed.

Lemma unwrap_plaintext_when_accepted : forall s a c t p,
  fst (unwrap s a c t) = Some p ->
  p = if is_nil c then []
      else sn_xor c (dk_out (dk_absorb (sn_ad_step D dk_absorb s a c) (hs_tag t (sn_e s))) (List.length c)).
Proof.
  intros s a c t p H. unfold sn_unwrap in H. cbn [fst] in H.
  match type of H with context [beq_bytes ?x t] => destruct (beq_bytes x t) end; [|discriminate].
  injection H as <-. reflexivity.
Qed.

Section WithOutLength.
(* a deck function returns as many bytes as asked for *)
Hypothesis dk_out_length : forall d n, List.length (dk_out d n) = n.

Lemma open_seal : forall s a p ct s',
  seal s a p = (ct, s') -> open s a ct = (Some p, s').
Proof.
  intros s a p ct s' H. unfold sn_seal in H. unfold sn_open.
  destruct (wrap s a p) as [[c t] s1] eqn:W. injection H as <- <-.
  assert (Lt : List.length t = sn_tag_len).
  { unfold sn_wrap in W. destruct (is_nil p); injection W as _ <- _; apply dk_out_length. }
  rewrite app_length, Lt.
  destruct (List.length c + sn_tag_len <? sn_tag_len)%nat eqn:E.
  - apply Nat.ltb_lt in E. lia.
  - replace (List.length c + sn_tag_len - sn_tag_len)%nat with (List.length c) by lia.
    rewrite firstn_app, Nat.sub_diag, firstn_all, firstn_O, app_nil_r.
    rewrite skipn_app, skipn_all, Nat.sub_diag.
    cbn [skipn app]. apply unwrap_wrap. exact W.
Qed.

(* a whole session: every message is recovered in order, and the two sides end in equal states *)
Lemma open_all_seal_all : forall msgs s cts s',
  sn_seal_all D dk_absorb dk_out s msgs = (cts, s') ->
  sn_open_all D dk_absorb dk_out s (combine (map fst msgs) cts) = (map (fun m => Some (snd m)) msgs, s').
Proof.
  induction msgs as [|[a p] msgs IH]; intros s cts s' H; cbn [sn_seal_all] in H.
  - injection H as <- <-. reflexivity.
  - destruct (seal s a p) as [ct s1] eqn:S.
    destruct (sn_seal_all D dk_absorb dk_out s1 msgs) as [cts' s2] eqn:R.
    injection H as <- <-. cbn [map fst snd combine sn_open_all].
    rewrite (open_seal _ _ _ _ _ S), (IH _ _ _ R). reflexivity.
Qed.

Lemma wrap_lengths : forall s a p c t s',
  wrap s a p = (c, t, s') -> List.length c = List.length p /\ List.length t = sn_tag_len.
Proof.
  intros s a p c t s' W. unfold sn_wrap in W. destruct (is_nil p) eqn:Np; injection W as <- <- _.
  - destruct p; [|discriminate]. split; [reflexivity|apply dk_out_length].
  - split; [apply sn_xor_length|apply dk_out_length].
Qed.

Lemma seal_length : forall s a p, List.length (fst (seal s a p)) = (List.length p + sn_tag_len)%nat.
Proof.
  intros. unfold sn_seal. destruct (wrap s a p) as [[c t] s1] eqn:W. cbn [fst].
  destruct (wrap_lengths _ _ _ _ _ _ W) as [Lc Lt]. rewrite app_length, Lc, Lt. reflexivity.
Qed.

End WithOutLength.
End AnyDeck.

(* ------------------------------------------------------------------ tamper rejection, F on histories *)
(* D = list of strings (newest first), absorb = cons, out = an arbitrary deck function F *)
Section TagInjective.
Variable F : list bitstr -> nat -> bytes.
Notation unwrapF := (sn_unwrap (list bitstr) (fun h m => m :: h) F).

Definition hist_after (s : sanse (list bitstr)) (a c t : bytes) : list bitstr := sn_d (snd (unwrapF s a c t)).

Lemma cons_neq_self : forall (A : Type) (x : A) (l : list A), l <> x :: l.
Proof.
  intros A x l H. assert (L : List.length l = List.length (x :: l)) by (rewrite <- H; reflexivity).
  cbn in L. lia.
Qed.

Lemma is_nil_true : forall (A : Type) (l : list A), is_nil l = true -> l = [].
Proof. intros A [|x l] H; [reflexivity|discriminate]. Qed.

Lemma sn_xor_inj : forall ks c c', sn_xor c ks = sn_xor c' ks -> c = c'.
Proof. intros ks c c' H. rewrite <- (sn_xor_involutive c ks), H. apply sn_xor_involutive. Qed.

(* equal final histories force equal associated data and equal ciphertext *)
Lemma hist_after_inj : forall s a c a' c' t,
  hist_after s a c t = hist_after s a' c' t -> a = a' /\ c = c'.
Proof.
  intros s a c a' c' t H. unfold hist_after, sn_unwrap, sn_ad_step in H.
  lazy beta iota zeta delta [snd sn_d sn_e] in H.
  destruct (is_nil c) eqn:Nc, (is_nil c') eqn:Nc';
    rewrite ?orb_true_r, ?orb_false_r in H; unfold hs_ad, hs_pt in H.
  - apply is_nil_true in Nc, Nc'. subst. inversion H. split; reflexivity.
  - inversion H.
  - inversion H.
  - injection H as Hp Hh.
    assert (Ha : a = a').
    { destruct a as [|x a], a' as [|x' a']; lazy beta iota delta [is_nil negb] in Hh.
      - reflexivity.
      - exfalso. eapply cons_neq_self, Hh.
      - exfalso. eapply cons_neq_self. symmetry. exact Hh.
      - inversion Hh. reflexivity. }
    subst a'. split; [reflexivity|].
    assert (L : List.length c = List.length c').
    { apply (f_equal (@List.length N)) in Hp. rewrite !sn_xor_length in Hp. exact Hp. }
    rewrite <- L in Hp. eapply sn_xor_inj, Hp.
Qed.

(* If a message (A, C, T) is accepted, then any (A', C') <> (A, C) presented with the same tag is
   rejected, provided the deck function does not collide on the two histories involved. *)
Lemma reject_if_changed : forall s a c t a' c',
  (exists p, fst (unwrapF s a c t) = Some p) ->
  (a', c') <> (a, c) ->
  (F (hist_after s a c t) sn_tag_len = F (hist_after s a' c' t) sn_tag_len ->
   hist_after s a c t = hist_after s a' c' t) ->
  fst (unwrapF s a' c' t) = None.
Proof.
  intros s a c t a' c' Hacc Hne Hinj.
  destruct (fst (unwrapF s a' c' t)) as [p'|] eqn:E; [|reflexivity]. exfalso.
  apply (unwrap_accepts_iff _ _ F) in Hacc.
  assert (Hacc' : exists p, fst (unwrapF s a' c' t) = Some p) by (eexists; exact E).
  apply (unwrap_accepts_iff _ _ F) in Hacc'.
  fold (hist_after s a c t) in Hacc. fold (hist_after s a' c' t) in Hacc'.
  assert (Hh : hist_after s a c t = hist_after s a' c' t) by (apply Hinj; congruence).
  apply hist_after_inj in Hh as [-> ->]. apply Hne. reflexivity.
Qed.

Section Global.
(* the idealisation: the 32-byte tag is injective in the history *)
Hypothesis tag_inj : forall h1 h2, F h1 sn_tag_len = F h2 sn_tag_len -> h1 = h2.
Lemma reject_if_changed_under_tag_inj : forall s a c t a' c',
  (exists p, fst (unwrapF s a c t) = Some p) -> (a', c') <> (a, c) -> fst (unwrapF s a' c' t) = None.
Proof. intros. eapply reject_if_changed; eauto. Qed.
End Global.
End TagInjective.

(* ------------------------------------------------------------------ key padding *)
Lemma pad_key_nth_marker : forall k, nth (List.length k) (kv_pad_key k) 0 = 1.
Proof. intros. unfold kv_pad_key. rewrite app_nth2 by lia. rewrite Nat.sub_diag. reflexivity. Qed.

Lemma pad_key_nth_beyond : forall k i, (List.length k < i)%nat -> nth i (kv_pad_key k) 0 = 0.
Proof.
  intros k i H. unfold kv_pad_key. rewrite app_nth2 by lia.
  destruct (i - List.length k)%nat as [|j] eqn:E; [lia|]. cbn [app nth].
  destruct (Nat.lt_ge_cases j (kv_width - 1 - List.length k)) as [Hj|Hj].
  - apply nth_repeat.
  - apply nth_overflow. rewrite repeat_length. exact Hj.
Qed.

Lemma pad_key_firstn : forall k, firstn (List.length k) (kv_pad_key k) = k.
Proof. intros. unfold kv_pad_key. rewrite firstn_app, Nat.sub_diag, firstn_all, firstn_O, app_nil_r. reflexivity. Qed.

Lemma pad_key_injective : forall k1 k2,
  (List.length k1 < kv_width)%nat -> (List.length k2 < kv_width)%nat ->
  kv_pad_key k1 = kv_pad_key k2 -> k1 = k2.
Proof.
  intros k1 k2 _ _ H.
  destruct (Nat.lt_trichotomy (List.length k1) (List.length k2)) as [L|[L|L]].
  - pose proof (pad_key_nth_marker k2) as M. rewrite <- H, pad_key_nth_beyond in M by exact L. discriminate.
  - rewrite <- (pad_key_firstn k1), <- (pad_key_firstn k2), H, L. reflexivity.
  - pose proof (pad_key_nth_marker k1) as M. rewrite H, pad_key_nth_beyond in M by exact L. discriminate.
Qed.

Lemma pad_key_length : forall k, (List.length k < kv_width)%nat -> List.length (kv_pad_key k) = kv_width.
Proof. intros. unfold kv_pad_key. rewrite !app_length, repeat_length. cbn [List.length]. unfold kv_width in *. lia. Qed.

(* ------------------------------------------------------------------ Kravatte returns n bytes, for every p *)
Lemma xor_lanes_length : forall a b, List.length (xor_lanes a b) = 25%nat.
Proof. intros. unfold xor_lanes. rewrite map_length. reflexivity. Qed.

Lemma bytes_of_lanes_length' : forall a, List.length (bytes_of_lanes a) = (8 * List.length a)%nat.
Proof.
  induction a as [|x a IH]; [reflexivity|].
  unfold bytes_of_lanes in *. cbn [flat_map]. rewrite app_length, IH. cbn [bytes_of_lane List.length]. lia.
Qed.

Lemma expand_length : forall p kr y n, List.length (expand p kr y n) = (200 * n)%nat.
Proof.
  intros p kr y n. revert y. induction n as [|n IH]; intros y; [reflexivity|].
  cbn [expand]. rewrite app_length, bytes_of_lanes_length', xor_lanes_length, IH. lia.
Qed.

Lemma kv_out_length : forall p s n, List.length (kv_out p s n) = n.
Proof.
  intros. unfold kv_out. rewrite firstn_length, expand_length. unfold kv_width.
  assert (n <= 200 * ((n + 200 - 1) / 200))%nat.
  { pose proof (Nat.div_mod (n + 200 - 1) 200 ltac:(lia)).
    pose proof (Nat.mod_upper_bound (n + 200 - 1) 200 ltac:(lia)). lia. }
  lia.
Qed.
