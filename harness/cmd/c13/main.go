// c13: Cyclist correspondence driver.
//
// Generates programs over the duplex API (hash and keyed mode, key/id/counter lengths across the
// 136-byte limit, operand lengths across the rate boundaries), runs them on the real
// cyclist.Cyclist, and judges the result with two specification oracles that share no code with
// /repo or with the Coq model:
//   - a byte-oriented reference Cyclist over a FIPS-202 Keccak-p[1600,12] (hvxcrypto): every
//     returned byte must equal the specification's;
//   - a second real object running the mirrored program (Decrypt of what the first encrypted and
//     vice versa): plaintexts recovered, all later squeezes/keys equal, final states equal.
//
// Every case is also evaluated on the Gallina model inside Coq (Corr/C13.v).
//
// The package selects its permutation by build constraints (assembly on amd64, generic Go with
// -tags appengine).  This binary is built by ./check with the default constraints; it then builds
// *itself* a second time with `-tags verif,appengine` (same modfile and overlay that check wrote)
// and runs that child, which generates a different stream of programs against the generic
// permutation.  Both report the implementation they were linked with (cyclist.VerifPermImpl).
package main

import (
	"bytes"
	"encoding/hex"
	"fmt"
	"os"
	"os/exec"
	"path/filepath"
	"strings"

	"hop.computer/hop/cyclist"
	"verifharness/hv"
	"verifharness/hvxcrypto"
)

type op struct {
	kind string // A E D Sq Sk Ra
	data []byte
	n    int
}

func (o op) coq() string {
	switch o.kind {
	case "A":
		return "Ab " + hvxcrypto.IB(o.data)
	case "E":
		return "En " + hvxcrypto.IB(o.data)
	case "D":
		return "De " + hvxcrypto.IB(o.data)
	case "Sq":
		return "Sq " + hv.Ni(o.n)
	case "Sk":
		return "Sk " + hv.Ni(o.n)
	}
	return "Ra"
}

func (o op) desc(full bool) string {
	switch o.kind {
	case "A", "E", "D":
		s := fmt.Sprintf("%s%d", o.kind, len(o.data))
		if full {
			s += ":" + hex.EncodeToString(o.data)
		}
		return s
	case "Sq", "Sk":
		return fmt.Sprintf("%s%d", o.kind, o.n)
	}
	return "Ra"
}

var variant = "asm"

func opLen(r *hv.Rand) int {
	switch r.Intn(10) {
	case 0, 1, 2, 3, 4:
		return hv.Pick(r, []int{0, 1, 135, 136, 137, 271, 272, 273})
	case 5:
		return 300 + r.Intn(121)
	case 6:
		return hv.Pick(r, []int{16, 32, 64, 134, 138, 270, 274, 407, 408, 409})
	default:
		return r.Intn(80)
	}
}

type initv struct{ key, id, ctr []byte }

func genInit(r *hv.Rand, keyed bool) initv {
	if !keyed {
		iv := initv{}
		if r.Chance(20) { // id / counter are ignored without a key
			iv.id = r.Bytes(r.Intn(20))
			iv.ctr = r.Bytes(r.Intn(4))
		}
		return iv
	}
	klen := hv.Pick(r, []int{1, 16, 16, 32, 32, 32, 64, 100, 134, 135, 1 + r.Intn(135)})
	room := 135 - klen
	var idlen int
	switch r.Intn(6) {
	case 0, 1:
		idlen = 0
	case 2:
		idlen = room // exactly at the limit
	case 3:
		idlen = r.Intn(room + 1)
	case 4:
		idlen = min(room, 1)
	default:
		idlen = min(room, hv.Pick(r, []int{4, 8, 16}))
	}
	ctr := hv.Pick(r, []int{0, 0, 0, 1, 2, 8, 17})
	return initv{r.Bytes(klen), r.Bytes(idlen), r.Bytes(ctr)}
}

func sig(s string) string { return "C13:" + s }

// prelife, when set, gives the two objects of the next case an earlier life before they are
// (re-)initialised: Initialize / InitializeEmpty are documented to RESET an object, so a used object
// must behave exactly like a fresh one afterwards (the hidden-mode server re-initialises one duplex
// per candidate certificate, right after an absorb or a decrypt).
var prelife func(c *cyclist.Cyclist)

// usedObject returns a prelife: a keyed or hash-mode life of a few calls that ends with `last`.
func usedObject(r *hv.Rand, last string) func(c *cyclist.Cyclist) {
	keyed := last == "E" || last == "D" || last == "Sk" || last == "Ra" || r.Chance(60)
	key := r.Bytes(32)
	data := r.Bytes(hv.Pick(r, []int{0, 1, 16, 43, 44, 45, 136, 200}))
	n := hv.Pick(r, []int{0, 1, 16, 32, 136})
	pre := r.Intn(3)
	return func(c *cyclist.Cyclist) {
		hv.Catch(func() {
			if keyed {
				c.Initialize(key, nil, nil)
			} else {
				c.InitializeEmpty()
			}
			for i := 0; i < pre; i++ {
				c.Absorb(data)
				c.Squeeze(make([]byte, 16))
			}
			switch last {
			case "A":
				c.Absorb(data)
			case "E":
				c.Encrypt(make([]byte, len(data)), data)
			case "D":
				c.Decrypt(make([]byte, len(data)), data)
			case "Sq":
				c.Squeeze(make([]byte, n))
			case "Sk":
				c.SqueezeKey(make([]byte, n))
			case "Ra":
				c.Ratchet()
			}
		})
	}
}

// runCase runs one program on the real object and emits the case.
func runCase(class string, iv initv, ops []op) {
	var a, b cyclist.Cyclist
	if prelife != nil {
		prelife(&a)
		prelife(&b)
		prelife = nil
	}
	var outs []string
	specOK, sg, what := true, "", ""
	fail := func(s, w string) {
		if specOK {
			specOK, sg, what = false, sig(s), w
		}
	}
	ipanic, _ := hv.Catch(func() { a.Initialize(iv.key, iv.id, iv.ctr) })
	var ref *hvxcrypto.RefCyclist
	panicked := false
	ran := 0
	produced := 0
	if !ipanic {
		b.Initialize(iv.key, iv.id, iv.ctr)
		ref = hvxcrypto.NewRefCyclist(iv.key, iv.id, iv.ctr)
		for i, o := range ops {
			var y, want, peer []byte
			p, _ := hv.Catch(func() {
				switch o.kind {
				case "A":
					a.Absorb(o.data)
				case "E", "D":
					in := append([]byte{}, o.data...)
					y = make([]byte, len(in))
					if o.kind == "E" {
						a.Encrypt(y, in)
					} else {
						a.Decrypt(y, in)
					}
				case "Sq":
					y = make([]byte, o.n)
					a.Squeeze(y)
				case "Sk":
					y = make([]byte, o.n)
					a.SqueezeKey(y)
				case "Ra":
					a.Ratchet()
				}
			})
			if p {
				panicked = true
				// the specification only defines these calls in keyed mode; a panic anywhere else
				// (or in keyed mode) is not something the specification allows
				if ref.Keyed() || o.kind == "A" || o.kind == "Sq" {
					fail("call-panicked", fmt.Sprintf("op %d (%s) panicked", i, o.desc(false)))
				}
				break
			}
			ran++
			if !ref.Keyed() && (o.kind == "E" || o.kind == "D" || o.kind == "Sk" || o.kind == "Ra") {
				// a keyed-only call went through in hash mode: outside the specification's domain, so
				// there is nothing for the oracle to judge; the model comparison (which has Panic
				// here, as the code does) reports the change of behaviour
				if y == nil {
					y = []byte{}
				}
				outs = append(outs, hvxcrypto.IB(y))
				break
			}
			// specification oracle 1: the reference
			switch o.kind {
			case "A":
				ref.Absorb(o.data)
				b.Absorb(o.data)
			case "E":
				want = ref.Encrypt(o.data)
				peer = make([]byte, len(y))
				b.Decrypt(peer, y)
				if !bytes.Equal(peer, o.data) {
					fail("peers-out-of-sync", fmt.Sprintf("op %d: peer decrypts the ciphertext of %s to %x", i, o.desc(true), peer))
				}
			case "D":
				want = ref.Decrypt(o.data)
				peer = make([]byte, len(y))
				b.Encrypt(peer, y)
				if !bytes.Equal(peer, o.data) {
					fail("peers-out-of-sync", fmt.Sprintf("op %d: peer re-encrypts the plaintext of %s to %x", i, o.desc(true), peer))
				}
			case "Sq":
				want = ref.Squeeze(o.n)
				peer = make([]byte, o.n)
				b.Squeeze(peer)
			case "Sk":
				want = ref.SqueezeKey(o.n)
				peer = make([]byte, o.n)
				b.SqueezeKey(peer)
			case "Ra":
				ref.Ratchet()
				b.Ratchet()
			}
			if o.kind != "A" && o.kind != "Ra" {
				produced++
				if !bytes.Equal(y, want) {
					fail("output-differs-from-cyclist-specification", fmt.Sprintf("op %d (%s): got %x, Cyclist[Keccak-p[1600,12]] gives %x", i, o.desc(false), y, want))
				}
				if (o.kind == "Sq" || o.kind == "Sk") && !bytes.Equal(y, peer) {
					fail("peers-out-of-sync", fmt.Sprintf("op %d (%s): %x on one side, %x on the peer", i, o.desc(false), y, peer))
				}
			}
			if y == nil {
				y = []byte{}
			}
			outs = append(outs, hvxcrypto.IB(y))
		}
	} else if len(iv.key) > 0 && len(iv.key)+len(iv.id) <= 135 {
		fail("initialize-panicked", "Initialize panicked on a key||id that fits the rate")
	}
	stA, phA, mdA := a.VerifState()
	ra, rs := a.VerifRates()
	dump := append(append([]byte{}, stA...), byte(phA), byte(mdA), byte(ra), byte(rs))
	if !ipanic { // after a wrong-mode panic neither the object nor the two oracles have moved
		stB, _, _ := b.VerifState()
		if !bytes.Equal(stA, stB) {
			fail("peers-out-of-sync", "final states of the two peers differ")
		}
		if !bytes.Equal(stA, ref.State()) {
			fail("output-differs-from-cyclist-specification", "final state differs from the specification's")
		}
	}
	coqOps := make([]string, len(ops))
	var ds []string
	total := 0
	for _, o := range ops {
		total += len(o.data)
	}
	for i, o := range ops {
		coqOps[i] = o.coq()
		ds = append(ds, o.desc(total <= 160))
	}
	desc := fmt.Sprintf("perm=%s key=%x id=%x ctr=%x | %s", variant, iv.key, iv.id, iv.ctr, strings.Join(ds, " "))
	coq := hv.Tuple(hv.Tuple(hvxcrypto.IB(iv.key), hvxcrypto.IB(iv.id), hvxcrypto.IB(iv.ctr)), hv.List(coqOps),
		hv.Tuple(hv.B(ipanic), hv.List(outs), hv.B(panicked), hvxcrypto.IB(dump)))
	hv.Emit(hv.Case{Fn: "c13_ok", Coq: coq, Class: class + "/" + variant, Desc: desc, Spec: specOK, Sig: sg, What: what,
		NT: produced > 0 && ran >= 2, Key: desc + fmt.Sprint(ops),
		Replay: map[string]interface{}{"perm": variant, "key": hex.EncodeToString(iv.key), "id": hex.EncodeToString(iv.id),
			"counter": hex.EncodeToString(iv.ctr), "ops": func() []string {
				var x []string
				for _, o := range ops {
					x = append(x, o.desc(true))
				}
				return x
			}()}})
}

func permCase(class string, in []byte) {
	out := cyclist.VerifPermute(in)
	var s [200]byte
	copy(s[:], in)
	hvxcrypto.KeccakPBytes(&s, 12)
	ok := bytes.Equal(out, s[:])
	hv.Emit(hv.Case{Fn: "c13p_ok", Coq: hv.Tuple(hvxcrypto.IB(in), hvxcrypto.IB(out)), Class: class + "/" + variant,
		Desc: fmt.Sprintf("perm=%s keccakF1600(%x)", variant, in), Spec: ok, Sig: sig("permutation-differs-from-keccak-p-1600-12"),
		What: fmt.Sprintf("keccakF1600 (%s) returned %x, Keccak-p[1600,12] is %x", variant, out, s[:]), NT: true})
}

func genProgram(r *hv.Rand, keyed bool, maxOps int) []op {
	n := 1 + r.Intn(maxOps)
	var ops []op
	for i := 0; i < n; i++ {
		var o op
		if keyed {
			switch r.Intn(12) {
			case 0, 1, 2:
				o = op{kind: "A", data: r.Bytes(opLen(r))}
			case 3, 4, 5:
				o = op{kind: "E", data: r.Bytes(opLen(r))}
			case 6, 7:
				o = op{kind: "D", data: r.Bytes(opLen(r))}
			case 8, 9:
				o = op{kind: "Sq", n: opLen(r)}
			case 10:
				o = op{kind: "Sk", n: hv.Pick(r, []int{0, 16, 32, 136, 137, opLen(r)})}
			default:
				o = op{kind: "Ra"}
			}
		} else {
			if r.Chance(55) {
				o = op{kind: "A", data: r.Bytes(opLen(r))}
			} else {
				o = op{kind: "Sq", n: opLen(r)}
			}
		}
		ops = append(ops, o)
	}
	if !keyed && r.Chance(15) { // keyed-only call on a hash-mode object: must panic, ends the program
		k := hv.Pick(r, []string{"E", "D", "Sk", "Ra"})
		ops = append(ops, op{kind: k, data: r.Bytes(r.Intn(20)), n: 16})
	}
	return ops
}

func generate() {
	if cyclist.VerifPermImpl != variant {
		fmt.Fprintf(os.Stderr, "c13: this binary links the %q permutation but was asked for %q\n", cyclist.VerifPermImpl, variant)
		os.Exit(3)
	}
	seed := hv.Seed()
	if variant == "generic" {
		seed = seed*31 + 0x67656e
	}
	r := hv.NewRand(seed)
	hv.Info(map[string]interface{}{"driver": "c13", "permutation": cyclist.VerifPermImpl})

	// fixed regression / boundary cases first
	key32 := make([]byte, 32)
	for i := range key32 {
		key32[i] = byte(i)
	}
	runCase("fixed-xkcp-transcript", initv{key: key32}, []op{
		{kind: "A", data: []byte("let me absorb")}, {kind: "Sq", n: 16},
		{kind: "E", data: []byte("we own things, but we have hidden them.")}, {kind: "Sq", n: 16}})
	for _, l := range []int{0, 1, 135, 136, 137, 271, 272, 273, 408, 409} {
		runCase("fixed-rate-boundary", initv{key: key32, id: []byte("id"), ctr: []byte{1, 2}}, []op{
			{kind: "A", data: r.Bytes(l)}, {kind: "E", data: r.Bytes(l)}, {kind: "Sq", n: l}, {kind: "D", data: r.Bytes(l)},
			{kind: "Sk", n: l}, {kind: "Ra"}, {kind: "Sq", n: 32}})
		runCase("fixed-rate-boundary", initv{}, []op{{kind: "A", data: r.Bytes(l)}, {kind: "Sq", n: l}, {kind: "A", data: r.Bytes(l)}, {kind: "Sq", n: 32}})
	}
	// key||id at and beyond the limit (Initialize must work up to 135 bytes and panic beyond)
	for _, kl := range []int{1, 16, 134, 135, 136, 137, 200} {
		for _, il := range []int{0, 1, 135 - kl, 136 - kl, 140} {
			if il < 0 {
				continue
			}
			runCase("init-limits", initv{r.Bytes(kl), r.Bytes(il), r.Bytes(r.Intn(3))}, []op{{kind: "Sq", n: 16}})
		}
	}
	// empty program / single ops in each mode
	for _, k := range []string{"A", "E", "D", "Sq", "Sk", "Ra"} {
		runCase("single-op", initv{key: key32}, []op{{kind: k, data: nil, n: 0}})
		runCase("single-op", initv{}, []op{{kind: k, data: nil, n: 0}})
	}

	n := hv.Scale(750, 12000)
	for i := 0; i < n; i++ {
		keyed := r.Chance(72)
		class := "hash-program"
		if keyed {
			class = "keyed-program"
		}
		if r.Chance(35) {
			last := hv.Pick(r, []string{"A", "E", "D", "Ra", "Sq", "Sk", "A", "D"})
			prelife = usedObject(r, last)
			class += "-reused-object-after-" + last
		}
		runCase(class, genInit(r, keyed), genProgram(r, keyed, 12))
	}

	// raw permutation
	permCase("perm-zero", make([]byte, 200))
	for i := 0; i < hv.Scale(120, 2000); i++ {
		in := r.Bytes(200)
		switch r.Intn(6) {
		case 0: // sparse
			in = make([]byte, 200)
			in[r.Intn(200)] = 1 << uint(r.Intn(8))
		case 1:
			for j := range in {
				in[j] = 0xff
			}
			in[r.Intn(200)] ^= 1 << uint(r.Intn(8))
		}
		permCase("perm-random", in)
	}
}

func main() {
	defer hv.Flush()
	if v := os.Getenv("VERIF_C13_VARIANT"); v != "" {
		variant = v
		generate()
		return
	}
	generate()
	hv.Flush()
	// second build of this driver against the generic permutation
	work, dir := os.Getenv("VERIF_WORK"), os.Getenv("VERIF_DIR")
	if work == "" || dir == "" {
		fmt.Fprintln(os.Stderr, "c13: VERIF_WORK / VERIF_DIR not set (run through ./check)")
		os.Exit(2)
	}
	child := filepath.Join(work, "c13generic.bin")
	build := exec.Command("go", "build", "-modfile="+filepath.Join(work, "go.mod"), "-overlay="+filepath.Join(work, "overlay.json"),
		"-tags", "verif,appengine", "-o", child, "./cmd/c13")
	build.Dir = filepath.Join(dir, "harness")
	if out, err := build.CombinedOutput(); err != nil {
		fmt.Fprintf(os.Stderr, "c13: building the driver with -tags appengine (generic permutation) failed: %v\n%s\n", err, out)
		os.Exit(4)
	}
	run := exec.Command(child)
	run.Env = append(os.Environ(), "VERIF_C13_VARIANT=generic")
	run.Stdout = os.Stdout
	run.Stderr = os.Stderr
	if err := run.Run(); err != nil {
		fmt.Fprintf(os.Stderr, "c13: generic-permutation child failed: %v\n", err)
		os.Exit(5)
	}
}
