(* C07 — a delegate session can do only what its grants allow, once, and in time.
   Model: Model/Authz.v (the code after `fix: checkCmd must honour a grant's start time`,
   `fix: a session admitted through authorization grants must not issue grants` and
   `fix: refuse port forwarding for sessions admitted through authorization grants`);
   proofs: Proofs/AuthzProofs.v.  Histories: grant additions (server API or through an authgrant
   tube), logins, exec / port-forwarding / intent requests in any session at arbitrary clock values.

   The full statement - every action a grant-admitted session starts is covered by a live,
   matching, unused grant of that session - is proved for all histories.  On the tube switch as it
   was before the last two fixes (`trace_orig`: PFControl / PF / AuthGrant tubes of a grant session
   handled without consulting its grants) the statement fails; the two witnesses are kept as
   `..._original_refuted`. *)
From Hop Require Import Base Authz AuthzProofs.
Open Scope N_scope.

(* ---- the full statement: every started action (shell, command, port forwarding, grant issuing)
   of a session admitted through grants is covered by its own live, matching, unused grant ---- *)
Theorem c07_action_needs_live_grant :
  forall parse ops, all_justified (start_justified scope_all) (trace parse ops).
Proof. exact actions_justified. Qed.
Print Assumptions c07_action_needs_live_grant.

(* in particular such a session never starts port forwarding and never has a grant stored: whatever
   it starts is a shell or a command *)
Theorem c07_delegate_starts_only_exec : forall parse ops pre sid a t used post u k ags,
    trace parse ops = pre ++ EvStart sid a t used :: post ->
    login_of pre sid = Some (u, k, ViaGrant ags) ->
    exists cmd shell, a = AExec cmd shell.
Proof. exact delegate_starts_only_exec. Qed.
Print Assumptions c07_delegate_starts_only_exec.

(* spelled out: a shell or command started in a session that was admitted through grants used a
   grant g that the session was handed at login, that was stored for exactly the session's user and
   key, with start <= t < expiry, of the right type, with identical command text, not used before *)
Theorem c07_exec_needs_live_grant : forall parse ops pre sid cmd shell t used post u k ags,
    trace parse ops = pre ++ EvStart sid (AExec cmd shell) t used :: post ->
    login_of pre sid = Some (u, k, ViaGrant ags) ->
    exists g, used = Some g /\ In g ags /\ In (EvAdded g u k) pre /\
              authorizes g (AExec cmd shell) t /\ ~ In (g_id g) (used_ids pre).
Proof. exact exec_needs_live_grant. Qed.
Print Assumptions c07_exec_needs_live_grant.

(* each grant authorizes a single action: over a whole history no serial is spent twice, and
   serials identify stored grants *)
Theorem c07_single_use : forall parse ops, NoDup (used_ids (trace parse ops)).
Proof. exact single_use. Qed.
Print Assumptions c07_single_use.

Theorem c07_grant_serials_unique : forall parse ops g u k g' u' k',
    In (EvAdded g u k) (trace parse ops) -> In (EvAdded g' u' k') (trace parse ops) ->
    g_id g = g_id g' -> EvAdded g u k = EvAdded g' u' k'.
Proof. intros parse ops. intros. eapply added_ids_functional; eauto. apply ids_unique. Qed.
Print Assumptions c07_grant_serials_unique.

(* key-bound: the grants a connection receives at login were all stored for exactly its user and
   its key *)
Theorem c07_key_bound : forall parse ops pre sid u k ags post g,
    trace parse ops = pre ++ EvLogin sid u k (ViaGrant ags) :: post ->
    In g ags -> In (EvAdded g u k) pre.
Proof. exact key_bound. Qed.
Print Assumptions c07_key_bound.

(* grants disappear once consumed: whatever is still stored on the server after a history - in the
   map or in any session - has never been used (and a login empties the map entry and removes the
   key from the transport key set: c05_grant_consumed) *)
Theorem c07_session_grants_unused : forall parse ops sid s g,
    nth_sess (st_sess (final parse ops)) sid = Some s -> In g (s_actions s) ->
    ~ In (g_id g) (used_ids (trace parse ops)).
Proof. exact session_grants_unused. Qed.
Print Assumptions c07_session_grants_unused.

Theorem c07_map_grants_unused : forall parse ops u k l g,
    ag_lookup (st_agmap (final parse ops)) (u, k) = Some l -> In g l ->
    ~ In (g_id g) (used_ids (trace parse ops)).
Proof. exact map_grants_unused. Qed.
Print Assumptions c07_map_grants_unused.

Theorem c07_grants_leave_the_server_at_login : forall parse ops u k st' sid ags,
    step parse (final parse ops) (OLogin u k) = (st', [EvLogin sid u k (ViaGrant ags)]) ->
    ag_lookup (st_agmap st') (u, k) = None /\ key_mem (st_keys st') k = false /\
    unconsumed (trace parse ops ++ [EvLogin sid u k (ViaGrant ags)]) u k = [].
Proof. exact grant_consumed_login. Qed.
Print Assumptions c07_grants_leave_the_server_at_login.

(* target-side intent policy: a further grant is stored through an authgrant tube only if the
   session was not itself admitted through grants, grants are enabled, the intent has not expired, names the session's user, carries a well-formed
   delegate certificate and a known grant type *)
Theorem c07_issue_conditions : forall parse st sid i cert_ok wall st' evs,
    step parse st (OIntent sid i cert_ok wall) = (st', evs) ->
    In (EvStart sid (AIssue i) wall None) evs ->
    exists s, nth_sess (st_sess st) sid = Some s /\ s_using s = false /\ st_enabled st = true /\
              (wall <= i_exp i)%Z /\ s_user s = i_user i /\ cert_ok = true /\ 1 <= i_type i <= 4.
Proof. exact issue_conditions. Qed.
Print Assumptions c07_issue_conditions.

(* ---- on the tube switch before the last two fixes the full statement fails ---- *)
Definition no_parse (l : bytes) : option key := None.
Definition alice : user := [97].
Definition ls : bytes := [108; 115].
Definition g_ls : grant := mkGrant 0 2 0 100 ls no_session.

(* witness 1: a delegate holding one grant, for the command "ls", opens a port-forwarding control
   tube; the server starts port forwarding *)
Definition w_pf : list op :=
  [ OSetFile alice FMissing; OEnable true; OAddGrant (Some (mkIntent 2 0 100 alice 7 ls));
    OLogin alice 7; OPF 0 50 ].
Example c07_w_pf_trace :
  trace_orig no_parse w_pf =
  [EvSetFile alice FMissing; EvEnable true; EvAdded g_ls alice 7; EvLogin 0 alice 7 (ViaGrant [g_ls])]
    ++ EvStart 0 APF 50 None :: [].
Proof. vm_compute. reflexivity. Qed.

Theorem c07_action_needs_live_grant_original_refuted :
  exists ops, ~ all_justified (start_justified scope_all) (trace_orig no_parse ops).
Proof.
  exists w_pf. intro H.
  pose proof (all_justified_split _ _ H _ _ _ c07_w_pf_trace) as J.
  vm_compute in J. destruct (J eq_refl) as [g [Hn _]]. discriminate Hn.
Qed.
Print Assumptions c07_action_needs_live_grant_original_refuted.

(* the same history on the code as it is: the request is refused *)
Example c07_w_pf_now :
  trace no_parse w_pf =
  [EvSetFile alice FMissing; EvEnable true; EvAdded g_ls alice 7; EvLogin 0 alice 7 (ViaGrant [g_ls]);
   EvRefuse 0 APF 50].
Proof. vm_compute. reflexivity. Qed.

(* witness 2: the same delegate opens an authgrant tube, has a Shell grant for its own key stored,
   reconnects and is given a shell: one command grant became unlimited access *)
Definition g_sh : grant := mkGrant 1 1 0 100 [] no_session.
Definition w_issue : list op :=
  [ OSetFile alice FMissing; OEnable true; OAddGrant (Some (mkIntent 2 0 100 alice 7 ls));
    OLogin alice 7; OIntent 0 (mkIntent 1 0 100 alice 7 []) true 50; OLogin alice 7; OExec 1 [] true 60 ].
Example c07_w_issue_trace :
  trace_orig no_parse w_issue =
  [EvSetFile alice FMissing; EvEnable true; EvAdded g_ls alice 7; EvLogin 0 alice 7 (ViaGrant [g_ls]);
   EvAdded g_sh alice 7]
    ++ EvStart 0 (AIssue (mkIntent 1 0 100 alice 7 [])) 50 None
    :: [EvLogin 1 alice 7 (ViaGrant [g_sh]); EvStart 1 (AExec [] true) 60 (Some g_sh)].
Proof. vm_compute. reflexivity. Qed.

Theorem c07_grant_issuing_original_refuted :
  exists ops pre sid i t post u k ags,
    trace_orig no_parse ops = pre ++ EvStart sid (AIssue i) t None :: post /\
    login_of pre sid = Some (u, k, ViaGrant ags) /\
    ~ start_justified scope_all pre (EvStart sid (AIssue i) t None).
Proof.
  exists w_issue. do 8 eexists. split; [exact c07_w_issue_trace|]. split; [vm_compute; reflexivity|].
  intro J. vm_compute in J. destruct (J eq_refl) as [g [Hn _]]. discriminate Hn.
Qed.
Print Assumptions c07_grant_issuing_original_refuted.

(* now: the intent is denied, the second login finds no grant, there is no session 1 *)
Example c07_w_issue_now :
  trace no_parse w_issue =
  [EvSetFile alice FMissing; EvEnable true; EvAdded g_ls alice 7; EvLogin 0 alice 7 (ViaGrant [g_ls]);
   EvRefuse 0 (AIssue (mkIntent 1 0 100 alice 7 [])) 50; EvDenied alice 7; EvNoSession 1].
Proof. vm_compute. reflexivity. Qed.

(* ---- non-vacuity of c07_exec_needs_live_grant: its premises hold in a concrete history, and the
   grant-time / command / single-use refusals really occur ---- *)
Definition ex_ops : list op :=
  [ OSetFile alice FMissing; OEnable true;
    OAddGrant (Some (mkIntent 2 10 100 alice 7 ls)); OAddGrant (Some (mkIntent 1 10 20 alice 7 []));
    OLogin alice 7;
    OExec 0 ls false 5;            (* before the start time: refused *)
    OExec 0 [108] false 50;        (* prefix of the command: refused *)
    OExec 0 ls false 50;           (* started, uses grant 0 *)
    OExec 0 ls false 51;           (* again: refused *)
    OExec 0 [] true 20 ].          (* shell at the expiry instant: refused *)
Example c07_example_trace :
  trace no_parse ex_ops =
  [EvSetFile alice FMissing; EvEnable true;
   EvAdded (mkGrant 0 2 10 100 ls no_session) alice 7; EvAdded (mkGrant 1 1 10 20 [] no_session) alice 7;
   EvLogin 0 alice 7 (ViaGrant [mkGrant 0 2 10 100 ls no_session; mkGrant 1 1 10 20 [] no_session]);
   EvRefuse 0 (AExec ls false) 5; EvRefuse 0 (AExec [108] false) 50]
    ++ EvStart 0 (AExec ls false) 50 (Some (mkGrant 0 2 10 100 ls no_session))
    :: [EvRefuse 0 (AExec ls false) 51; EvRefuse 0 (AExec [] true) 20].
Proof. vm_compute. reflexivity. Qed.
Example c07_example_premise :
  login_of [EvSetFile alice FMissing; EvEnable true;
            EvAdded (mkGrant 0 2 10 100 ls no_session) alice 7; EvAdded (mkGrant 1 1 10 20 [] no_session) alice 7;
            EvLogin 0 alice 7 (ViaGrant [mkGrant 0 2 10 100 ls no_session; mkGrant 1 1 10 20 [] no_session]);
            EvRefuse 0 (AExec ls false) 5; EvRefuse 0 (AExec [108] false) 50] 0
  = Some (alice, 7, ViaGrant [mkGrant 0 2 10 100 ls no_session; mkGrant 1 1 10 20 [] no_session]).
Proof. vm_compute. reflexivity. Qed.

(* ==========================================================================================
   Concurrent exec requests of ONE grant session (Model/GrantRace.v, Proofs/GrantRaceProofs.v).
   Every exec tube is served by its own goroutine; each runs checkCmd on the shared slice
   sess.authorizedActions.  [locked = true] is the code after
   `fix: hopserver: serialise grant matching so concurrent exec requests cannot share (or crash on)
   one authorization grant`; [locked = false] is checkCmd as found.
   All theorems: every number of grants, every number of requests, every schedule.
   ========================================================================================== *)
From Hop Require Import ConcBase GrantRace GrantRaceProofs.

(* linearizability: whatever the scheduler does, the requests that have returned got exactly the
   answers of the sequential check_cmd (the function every other C07 theorem is about) applied in
   some order without repetition; when no request is inside checkCmd the slice holds exactly what
   that sequential run leaves; no request ever panics *)
Theorem c07_concurrent_linearizable : forall gs qs x, reachable true gs qs x ->
  exists order, NoDup order /\
    (forall i r, nth_error (pcs x) i = Some (PDone r) <-> In (i, r) (fst (seq_run qs gs order))) /\
    (mu (shd x) = None -> remaining x = snd (seq_run qs gs order)) /\
    panicked x = false.
Proof. exact concurrent_linearizable. Qed.
Print Assumptions c07_concurrent_linearizable.

(* each grant authorizes a single action, also under concurrency: a request succeeds only under a
   grant of the session that is live at its clock value and matches it (type, identical command);
   two different requests never succeed under the same grant; a consumed grant is no longer in
   the slice; no reachable state has a panicked request *)
Theorem c07_concurrent_once : forall gs qs x, reachable true gs qs x -> NoDup (map g_id gs) ->
  panicked x = false /\
  (forall i g, In (i, g) (wins x) ->
     In g gs /\ exists q, nth_error qs i = Some q /\ hit q g = true) /\
  (forall i j g g', In (i, g) (wins x) -> In (j, g') (wins x) -> g_id g = g_id g' -> i = j) /\
  (mu (shd x) = None -> forall i g, In (i, g) (wins x) -> ~ In (g_id g) (map g_id (remaining x))).
Proof. exact concurrent_once. Qed.
Print Assumptions c07_concurrent_once.

(* the lock cannot wedge the session: while some request has not returned, some request can move *)
Theorem c07_concurrent_no_deadlock : forall gs qs x, reachable true gs qs x -> all_done x = false ->
  exists i, enabled true qs x i = true.
Proof. exact concurrent_no_deadlock. Qed.
Print Assumptions c07_concurrent_no_deadlock.

(* ---- checkCmd as found (no lock): refuted.  One `ls` grant, two simultaneous `ls` requests. ---- *)
Definition rc_g : grant := mkGrant 0 2 0 100 ls 100.
Definition rc_h : grant := mkGrant 1 2 0 100 [105; 100] 101.     (* a second grant, for `id` *)
Definition rc_q : req := mkReq ls false 50.
(* both requests read the header and entry 0 and pass the bounds check of slices.Delete before
   either stores the shortened slice: both are started under the one grant *)
Definition rc_sched_share : list nat := [0;0;0;0;0; 1;1;1;1;1; 0;0;0; 1;1;1]%nat.
(* request 0 completes its Delete first: the bounds check of request 1 fails (s[0:1:0]) *)
Definition rc_sched_panic : list nat := [0;0;0;0; 1;1;1;1; 0;0;0;0; 1]%nat.
(* two grants [ls; id]: both requests are started under the `ls` grant and the second Delete(0)
   removes the `id` grant, which nobody used *)
Definition rc_sched_lose : list nat := [0;0;0;0; 1;1;1;1; 0;0;0;0; 1;1;1;1]%nat.

Theorem c07_concurrent_once_original_refuted :
  (exists x, run false [rc_q; rc_q] (init [rc_g] [rc_q; rc_q]) rc_sched_share = Some x /\
             In (0%nat, rc_g) (wins x) /\ In (1%nat, rc_g) (wins x)) /\
  (exists x, run false [rc_q; rc_q] (init [rc_g] [rc_q; rc_q]) rc_sched_panic = Some x /\
             panicked x = true) /\
  (exists x, run false [rc_q; rc_q] (init [rc_g; rc_h] [rc_q; rc_q]) rc_sched_lose = Some x /\
             In (0%nat, rc_g) (wins x) /\ In (1%nat, rc_g) (wins x) /\
             all_done x = true /\ remaining x = []) /\
  ~ (forall gs qs x, reachable false gs qs x -> NoDup (map g_id gs) ->
       panicked x = false /\
       (forall i j g g', In (i, g) (wins x) -> In (j, g') (wins x) -> g_id g = g_id g' -> i = j)).
Proof.
  split; [|split; [|split]].
  - eexists. split; [vm_compute; reflexivity|]. vm_compute. auto.
  - eexists. split; [vm_compute; reflexivity|]. vm_compute. reflexivity.
  - eexists. split; [vm_compute; reflexivity|]. vm_compute. auto.
  - intros H.
    destruct (run false [rc_q; rc_q] (init [rc_g] [rc_q; rc_q]) rc_sched_share) as [x|] eqn:E;
      [|vm_compute in E; discriminate].
    assert (Hr : reachable false [rc_g] [rc_q; rc_q] x) by (exists rc_sched_share; exact E).
    assert (Hnd : NoDup (map g_id [rc_g])) by (repeat constructor; intros []).
    destruct (H _ _ _ Hr Hnd) as (_ & Hinj).
    vm_compute in E. inversion E; subst x; clear E.
    specialize (Hinj 0%nat 1%nat rc_g rc_g). cbv in Hinj.
    assert (0 = 1)%nat by (apply Hinj; auto). discriminate.
Qed.
Print Assumptions c07_concurrent_once_original_refuted.

(* the same three schedules are impossible with the lock: request 1 is blocked in Lock() *)
Example c07_race_witnesses_blocked_now :
  run true [rc_q; rc_q] (init [rc_g] [rc_q; rc_q]) rc_sched_share = None /\
  run true [rc_q; rc_q] (init [rc_g] [rc_q; rc_q]) rc_sched_panic = None /\
  run true [rc_q; rc_q] (init [rc_g; rc_h] [rc_q; rc_q]) rc_sched_lose = None.
Proof. vm_compute. auto. Qed.

(* non-vacuity: a locked run with three requests (two `ls`, one `id`) on [ls; id]; requests 1 and
   2 acquire the lock before request 0: request 1 gets the `ls` grant, request 2 the `id` grant,
   request 0 is refused, nothing is left *)
Definition rc_q_id : req := mkReq [105; 100] false 50.
Example c07_concurrent_example :
  exists x, run true [rc_q; rc_q; rc_q_id] (init [rc_g; rc_h] [rc_q; rc_q; rc_q_id])
                ([1;1;1;1;1;1;1;1] ++ [2;2;2;2;2;2;2;2] ++ [0;0;0;0])%nat = Some x /\
            wins x = [(1%nat, rc_g); (2%nat, rc_h)] /\ all_done x = true /\ remaining x = [] /\
            seq_run [rc_q; rc_q; rc_q_id] [rc_g; rc_h] [1;2;0]%nat
              = ([(1%nat, Some rc_g); (2%nat, Some rc_h); (0%nat, None)], []).
Proof. eexists. split; [vm_compute; reflexivity|]. vm_compute. auto. Qed.

(* ---- expiry at login time (docs/C05.md: a key whose grants have all expired is still admitted
   as the user).  Such a session is inert: every action a grant-admitted session starts at clock
   value t has a grant, handed to it at login, whose window [start, exp) contains t.  So a session
   all of whose grants are expired (or not yet effective) at t starts nothing at t. ---- *)
Theorem c07_start_needs_grant_in_window : forall parse ops pre sid a t used post u k ags,
    trace parse ops = pre ++ EvStart sid a t used :: post ->
    login_of pre sid = Some (u, k, ViaGrant ags) ->
    exists g, In g ags /\ (g_start g <= t < g_exp g)%Z.
Proof. exact start_needs_grant_in_window. Qed.
Print Assumptions c07_start_needs_grant_in_window.

(* non-vacuity: a login with one grant [10,20) and requests at 20 and 30 (refused), 9 (refused), 19 (started) *)
Example c07_expired_session_example :
  trace no_parse [OSetFile alice FMissing; OEnable true; OAddGrant (Some (mkIntent 2 10 20 alice 7 ls));
                  OLogin alice 7; OExec 0 ls false 20; OExec 0 ls false 30; OPF 0 30; OExec 0 ls false 9;
                  OExec 0 ls false 19]
  = [EvSetFile alice FMissing; EvEnable true; EvAdded (mkGrant 0 2 10 20 ls no_session) alice 7;
     EvLogin 0 alice 7 (ViaGrant [mkGrant 0 2 10 20 ls no_session]);
     EvRefuse 0 (AExec ls false) 20; EvRefuse 0 (AExec ls false) 30; EvRefuse 0 APF 30;
     EvRefuse 0 (AExec ls false) 9;
     EvStart 0 (AExec ls false) 19 (Some (mkGrant 0 2 10 20 ls no_session))].
Proof. vm_compute. reflexivity. Qed.
