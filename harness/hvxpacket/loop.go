package hvxpacket

import (
	"fmt"
	"net"
	"sync"
	"time"

	"hop.computer/hop/transport"
	"verifharness/hv"
)

// Receive-loop classes: the endpoint under test runs its REAL receive loop — the goroutine of Server.Serve
// (readPacket: ReadMsgUDP into the 65535-byte buffer, length guard, switch on the message type, handshake
// handlers or handleSessionMessage) or Client.listen — on a socket the driver owns. Each datagram of the
// schedule is handed to that socket; the driver learns that the loop is done with it when the loop asks for
// the next one (the loops are sequential), and then compares every session's projection with the loop model
// of coq/Model/RecvLoop.v (checker c03l_ok). Handle calls (ReadMsg/Read/WriteMsg/Write/send/Close) are
// interleaved as in the handler-level classes.

type loopPkt struct {
	b    []byte
	from *net.UDPAddr
}

// loopWire is the UDPLike under a running receive loop. Writes are recorded by the embedded wire.
type loopWire struct {
	*wire
	in      chan loopPkt
	idle    chan int // the loop is (back) in ReadMsgUDP; value = len of the buffer it passed
	closed  chan struct{}
	once    sync.Once
	lastBuf int
}

func newLoopWire(w *wire) *loopWire {
	return &loopWire{wire: w, in: make(chan loopPkt), idle: make(chan int), closed: make(chan struct{})}
}

func (w *loopWire) ReadMsgUDP(b, _ []byte) (int, int, int, *net.UDPAddr, error) {
	select {
	case w.idle <- len(b):
	case <-w.closed:
		return 0, 0, 0, nil, net.ErrClosed
	}
	select {
	case p := <-w.in:
		n := copy(b, p.b) // the socket keeps what fits and discards the rest
		return n, 0, 0, p.from, nil
	case <-w.closed:
		return 0, 0, 0, nil, net.ErrClosed
	}
}
func (w *loopWire) Read(b []byte) (int, error) { n, _, _, _, err := w.ReadMsgUDP(b, nil); return n, err }
func (w *loopWire) Close() error               { w.once.Do(func() { close(w.closed) }); return nil }

// sync waits until the loop sits in ReadMsgUDP and records the buffer length it passed.
func (w *loopWire) sync() bool {
	select {
	case n := <-w.idle:
		w.lastBuf = n
		return true
	case <-time.After(10 * time.Second):
		return false
	}
}

// push hands one datagram to the loop and returns, once the loop has finished with it, the buffer length of
// the ReadMsgUDP call that received it.
func (w *loopWire) push(a *net.UDPAddr, b []byte) int {
	buf := w.lastBuf
	select {
	case w.in <- loopPkt{b, a}:
	case <-time.After(10 * time.Second):
		return -1
	}
	if !w.sync() {
		return -2
	}
	return buf
}

var loopBufs = map[int]int{} // buffer lengths seen in ReadMsgUDP calls of the loops -> count
var loopBufsMu sync.Mutex

func noteBuf(n int) {
	loopBufsMu.Lock()
	loopBufs[n]++
	loopBufsMu.Unlock()
}

func (s *sim) addOp(op string) {
	if s.loop {
		op = "(LO " + op + ")"
	}
	s.ops = append(s.ops, op)
}

func (s *sim) startLoop(handles []*transport.Handle) {
	s.lw = newLoopWire(s.fw)
	if s.kind == 0 {
		srv, err := transport.VerifLoopServer(s.lw, handles...)
		if err != nil {
			panic("VerifLoopServer: " + err.Error())
		}
		s.srv = srv
		go srv.Serve()
	} else {
		s.cli = transport.VerifLoopClient(s.lw, handles[0])
	}
	if !s.lw.sync() {
		panic("receive loop did not start reading")
	}
}

func (s *sim) stopLoop() {
	if s.kind == 0 {
		hsN, ssN := s.srv.VerifTableSizes()
		if hsN != 0 || ssN != len(s.fs) {
			s.fail("C03:junk-handshake-datagram-changed-tables", fmt.Sprintf("after the schedule the server tracks %d handshakes and %d sessions (expected 0 and %d): a rejected handshake-typed datagram left state behind", hsN, ssN, len(s.fs)))
		}
		s.srv.Close()
	} else {
		s.cli.Close()
	}
}

// loopJunk: datagrams only the loop (not handleSessionMessage) decides about: handshake and unknown message
// types, fewer than 4 / 8 bytes, authentic datagrams under another type byte, and datagrams longer than the
// receive buffer (truncated by the socket).
func (s *sim) loopJunk(i int) (pkt []byte, pad int, src uint64, label string) {
	r := s.r
	f := s.fs[i]
	src = uint64(1 + r.Intn(4)) // handshake handlers are never given the nil address
	var auth *dg
	for _, d := range s.pool {
		if d.sess == i && d.toFocus {
			auth = d
			if r.Chance(40) {
				break
			}
		}
	}
	switch k := r.Intn(10); {
	case k <= 2: // handshake / server-only / unknown type, assorted lengths, often with the live session id
		t := hv.Pick(r, []byte{0x01, 0x02, 0x03, 0x04, 0x05, 0x08, 0x09, 0x11, 0x20, 0x7f, 0x81, 0x90, 0xff, 0x00})
		l := hv.Pick(r, []int{1, 3, 4, 5, 8, 16, 47, 48, 49, 100, 820, 821, 1200})
		pkt = r.Bytes(l)
		pkt[0] = t
		if l >= 4 {
			pkt[1], pkt[2], pkt[3] = hv.Pick(r, []byte{0, 1}), 0, 0
		}
		if l >= 8 && r.Chance(70) {
			copy(pkt[4:8], f.spec.sid[:])
		}
		return pkt, 0, src, fmt.Sprintf("type-%#02x-len-%d", t, l)
	case k <= 4 && auth != nil: // an authentic datagram whose type byte is rewritten to a handshake / unknown type
		t := hv.Pick(r, []byte{0x01, 0x03, 0x05, 0x08, 0x02, 0x04, 0x11, 0x00, 0x90})
		pkt = append([]byte(nil), auth.b...)
		pkt[0] = t
		return pkt, 0, src, fmt.Sprintf("retype-%#02x(%s)", t, auth.name)
	case k <= 7 && auth != nil: // an authentic datagram followed by padding: fits exactly / one byte too long / much too long
		total := hv.Pick(r, []int{len(auth.b) + 1, 65534, 65535, 65536, 65537, 65600, 70000})
		if total < len(auth.b) {
			total = len(auth.b) + 1
		}
		return auth.b, total - len(auth.b), uint64(r.Intn(5)), fmt.Sprintf("pad-to-%d(%s)", total, auth.name)
	case k == 8: // nothing but padding, transport-typed header with the live id: 65535 / 65536 / 70000 bytes
		h := header(hv.Pick(r, []byte{0x10, 0x80}), f.spec.sid, f.top+uint64(1+r.Intn(9)))
		total := hv.Pick(r, []int{65535, 65536, 70000})
		return h, total - len(h), uint64(r.Intn(5)), fmt.Sprintf("header-pad-to-%d", total)
	default: // below every length guard
		l := r.Intn(8)
		pkt = r.Bytes(l)
		if l > 0 {
			pkt[0] = hv.Pick(r, []byte{0x10, 0x80, 0x01, 0x05, 0x08, 0xff})
		}
		return pkt, 0, src, fmt.Sprintf("short-%d", l)
	}
}

// sizeConstants emits the comparison of the package's size constants and of the receive-buffer lengths the
// loops were seen to use with the model's constants (checker c03k_ok).
func sizeConstants() {
	ks := transport.VerifSizeConstants()
	var kn []uint64
	for _, k := range ks {
		kn = append(kn, uint64(k))
	}
	var bufs []uint64
	desc := ""
	loopBufsMu.Lock()
	defer loopBufsMu.Unlock()
	for b, n := range loopBufs {
		bufs = append(bufs, uint64(b))
		desc += fmt.Sprintf(" buf=%d(x%d)", b, n)
	}
	maxDg := ks[2] + ks[3] + ks[4] + ks[1] + ks[6] // header + session id + counter + MaxPlaintextSize + TagLen
	sig, what := "", ""
	for _, b := range bufs {
		if int(b) < maxDg {
			sig = "C03:full-size-datagram-exceeds-receive-buffer"
			what = fmt.Sprintf("a WriteMsg of MaxPlaintextSize=%d bytes makes a %d-byte datagram, but a receive loop reads into a %d-byte buffer: the socket truncates it and the peer rejects it", ks[1], maxDg, b)
		}
	}
	hv.Emit(hv.Case{Fn: "c03k_ok", Coq: hv.Tuple(hv.Ns(kn), hv.Ns(bufs)), Class: "size-constants",
		Desc: fmt.Sprintf("constants %v;%s; largest datagram %d", ks, desc, maxDg), Spec: sig == "", Sig: sig, What: what, NT: true})
}
