package hvxpacket

import (
	"bytes"
	"errors"
	"fmt"
	"net"
	"os"
	"path/filepath"
	"sync"
	"time"

	"hop.computer/hop/certs"
	"hop.computer/hop/keys"
	"hop.computer/hop/transport"
	"verifharness/hv"
)

// End-to-end black-box runs: a real transport.Server (Serve loop) and a real transport.Client (Handshake,
// listen loop) talk through an in-memory switch the driver owns; everything that crosses the switch is
// recorded. Judged by the specification oracle only (the Go scheduler decides interleavings):
//   - nothing on the wire contains the server name, a certificate, or application data;
//   - every message read was written by the peer in that direction, at most once; on the faithful
//     legs everything written arrives, in order, and Write reports n = len for every size;
//   - copies, bit-flipped copies and reflections injected by the switch change nothing of that.

type swPkt struct {
	b    []byte
	from *net.UDPAddr
}

type swEnd struct {
	self   *net.UDPAddr
	in     chan swPkt
	peer   *swEnd
	sw     *swtch
	dir    int // 0: client->server, 1: server->client (direction of what this end SENDS)
	closed chan struct{}
	once   sync.Once
	mu     sync.Mutex
	dl     time.Time
}

type swtch struct {
	mu       sync.Mutex
	wire     [][]byte // every datagram that crossed, both directions, including injected ones
	tamper   bool
	r        *hv.Rand
	dropped  int
	injected bool
	ninj     int
}

func (e *swEnd) WriteMsgUDP(b, _ []byte, _ *net.UDPAddr) (int, int, error) {
	select {
	case <-e.closed:
		return 0, 0, net.ErrClosed
	default:
	}
	p := append([]byte(nil), b...)
	e.sw.mu.Lock()
	e.sw.wire = append(e.sw.wire, p)
	var extraPeer, extraSelf [][]byte
	// injection point between ServerAuth and ClientAuth: the pending session's id is in clear in ServerAuth
	// (bytes 4..8); before the client even sees ServerAuth the adversary sends the SERVER datagrams carrying
	// that id, sealed with the real SANSE under keys anybody can guess (all-zero, all-ones) or a random one,
	// from the client's address and from a third one. Control types first (see docs/C03.md).
	if e.dir == 1 && len(p) >= 8 && p[0] == 0x04 && !e.sw.injected {
		e.sw.injected = true
		var sid [4]byte
		copy(sid[:], p[4:8])
		third := &net.UDPAddr{IP: net.IPv4(10, 9, 9, 9), Port: 999}
		var zero, ones, rnd [16]byte
		for i := range ones {
			ones[i] = 0xff
		}
		copy(rnd[:], e.sw.r.Bytes(16))
		for _, mt := range []byte{0x80, 0x10} {
			for _, k := range [][16]byte{zero, ones, rnd} {
				for _, ctr := range []uint64{1 << 40, 1, 0} {
					body := []byte{1}
					if mt == 0x10 {
						body = []byte("forged")
					}
					h := header(mt, sid, ctr)
					f := append(h, sealDirect(k, h, body)...)
					from := e.peer.self
					if ctr == 1 {
						from = third
					}
					select {
					case e.in <- swPkt{f, from}:
						e.sw.ninj++
					default:
					}
				}
			}
		}
	}
	if e.sw.tamper && len(p) > 0 && (p[0] == 0x10 || p[0] == 0x80) {
		r := e.sw.r
		if r.Chance(50) { // duplicate
			extraPeer = append(extraPeer, append([]byte(nil), p...))
		}
		if r.Chance(50) { // one-bit forgery
			extraPeer = append(extraPeer, flipIn(r, p, hv.Pick(r, []string{"type", "reserved", "sid", "counter", "body", "tag"})))
		}
		if r.Chance(30) { // truncation
			extraPeer = append(extraPeer, append([]byte(nil), p[:r.Intn(len(p))]...))
		}
		if r.Chance(40) { // reflection to the sender
			extraSelf = append(extraSelf, append([]byte(nil), p...))
		}
		if r.Chance(40) { // sealed for real, but under the all-zero key: live session id, far-ahead counter
			var sid [4]byte
			copy(sid[:], p[4:8])
			var zero [16]byte
			mt := hv.Pick(r, []byte{0x80, 0x10})
			h := header(mt, sid, ctrOf(p)+uint64(1000+r.Intn(1<<20)))
			extraPeer = append(extraPeer, append(h, sealDirect(zero, h, []byte{1})...))
		}
		if r.Chance(20) { // forged close with the live session id and a fresh-looking counter
			f := append([]byte(nil), p[:16]...)
			f[0] = 0x80
			f[15] += 3
			extraPeer = append(extraPeer, append(f, r.Bytes(33)...))
		}
	}
	e.sw.mu.Unlock()
	deliver := func(to *swEnd, from *net.UDPAddr, x []byte) {
		select {
		case to.in <- swPkt{x, from}:
		default:
			e.sw.mu.Lock()
			e.sw.dropped++
			e.sw.mu.Unlock()
		}
	}
	deliver(e.peer, e.self, p)
	for _, x := range extraPeer {
		deliver(e.peer, e.self, x)
	}
	for _, x := range extraSelf {
		deliver(e, e.peer.self, x)
	}
	return len(b), 0, nil
}

func (e *swEnd) ReadMsgUDP(b, _ []byte) (int, int, int, *net.UDPAddr, error) {
	noteBuf(len(b)) // Serve, listen and the client's handshake reads of the end-to-end runs
	e.mu.Lock()
	dl := e.dl
	e.mu.Unlock()
	var tc <-chan time.Time
	if !dl.IsZero() {
		t := time.NewTimer(time.Until(dl))
		defer t.Stop()
		tc = t.C
	}
	select {
	case p := <-e.in:
		n := copy(b, p.b)
		return n, 0, 0, p.from, nil
	case <-e.closed:
		return 0, 0, 0, nil, net.ErrClosed
	case <-tc:
		return 0, 0, 0, nil, os.ErrDeadlineExceeded
	}
}
func (e *swEnd) Read(b []byte) (int, error)  { n, _, _, _, err := e.ReadMsgUDP(b, nil); return n, err }
func (e *swEnd) Write(b []byte) (int, error) { n, _, err := e.WriteMsgUDP(b, nil, nil); return n, err }
func (e *swEnd) Close() error                { e.once.Do(func() { close(e.closed) }); return nil }
func (e *swEnd) LocalAddr() net.Addr         { return e.self }
func (e *swEnd) RemoteAddr() net.Addr        { return e.peer.self }
func (e *swEnd) SetDeadline(t time.Time) error {
	return e.SetReadDeadline(t)
}
func (e *swEnd) SetReadDeadline(t time.Time) error {
	e.mu.Lock()
	e.dl = t
	e.mu.Unlock()
	return nil
}
func (e *swEnd) SetWriteDeadline(time.Time) error { return nil }

func newSwitch(r *hv.Rand) (*swtch, *swEnd, *swEnd) {
	sw := &swtch{r: r}
	c := &swEnd{self: &net.UDPAddr{IP: net.IPv4(10, 1, 0, 1), Port: 4000}, in: make(chan swPkt, 8192), sw: sw, dir: 0, closed: make(chan struct{})}
	s := &swEnd{self: &net.UDPAddr{IP: net.IPv4(10, 1, 0, 2), Port: 77}, in: make(chan swPkt, 8192), sw: sw, dir: 1, closed: make(chan struct{})}
	c.peer, s.peer = s, c
	return sw, c, s
}

type msgReader interface {
	ReadMsg(b []byte) (int, error)
	SetReadDeadline(t time.Time) error
}

// readAll reads messages until want of them arrived or nothing comes for a while.
func readAll(c msgReader, want int) [][]byte {
	var got [][]byte
	buf := make([]byte, 70000)
	for len(got) < want {
		c.SetReadDeadline(time.Now().Add(4 * time.Second))
		n, err := c.ReadMsg(buf)
		if err != nil {
			break
		}
		got = append(got, append([]byte{}, buf[:n]...))
	}
	// anything beyond what was written?
	c.SetReadDeadline(time.Now().Add(30 * time.Millisecond))
	for {
		n, err := c.ReadMsg(buf)
		if err != nil {
			break
		}
		got = append(got, append([]byte{}, buf[:n]...))
	}
	return got
}

func endToEnd(r *hv.Rand) {
	repo := os.Getenv("VERIF_REPO")
	if repo == "" {
		repo = "/repo"
	}
	td := filepath.Join(repo, "transport", "testdata")
	skp, err1 := keys.ReadDHKeyFromPEMFile(filepath.Join(td, "leaf-key.pem"))
	kem, err2 := keys.ReadKEMKeyFromPEMFile(filepath.Join(td, "kem_hop.pem"))
	leaf, err3 := certs.ReadCertificatePEMFile(filepath.Join(td, "leaf.pem"))
	inter, err4 := certs.ReadCertificatePEMFile(filepath.Join(td, "intermediate.pem"))
	root, err5 := certs.ReadCertificatePEMFile(filepath.Join(td, "root.pem"))
	if err := errors.Join(err1, err2, err3, err4, err5); err != nil {
		hv.Info(map[string]interface{}{"e2e": "skipped: cannot read transport/testdata: " + err.Error()})
		return
	}
	for k := 0; k < hv.Scale(6, 40); k++ {
		tamper := k%2 == 1
		class := "e2e-faithful"
		if tamper {
			class = "e2e-tampered"
		}
		sig, what := "", ""
		fail := func(s, w string) {
			if sig == "" {
				sig, what = s, w
			}
		}
		sw, cEnd, sEnd := newSwitch(r)
		// client identity: root -> intermediate -> leaf, with a recognisable name
		crk := keys.GenerateNewSigningKeyPair()
		cik := keys.GenerateNewSigningKeyPair()
		ck := keys.GenerateNewX25519KeyPair()
		croot, _ := certs.SelfSignRoot(&certs.Identity{PublicKey: crk.Public, Names: []certs.Name{certs.RawStringName("Verif Client Root")}}, crk)
		croot.ProvideKey((*[32]byte)(&crk.Private))
		cint, _ := certs.IssueIntermediate(croot, &certs.Identity{PublicKey: cik.Public, Names: []certs.Name{certs.RawStringName("Verif Client Intermediate")}})
		cint.ProvideKey((*[32]byte)(&cik.Private))
		clientName := "verif-sentinel-user-name"
		cleaf, err := certs.IssueLeaf(cint, &certs.Identity{PublicKey: ck.Public, Names: []certs.Name{certs.RawStringName(clientName)}})
		if err != nil {
			hv.Info(map[string]interface{}{"e2e": "skipped: " + err.Error()})
			return
		}
		cstore := certs.Store{}
		cstore.AddCertificate(croot)
		verify := transport.VerifyConfig{Store: certs.Store{}, CurrentTime: leaf.IssuedAt.Add(time.Second), Name: certs.DNSName("secure.af")}
		verify.Store.AddCertificate(root)
		scfg := transport.ServerConfig{KEMKeyPair: kem, KeyPair: skp, Certificate: leaf, Intermediate: inter, HandshakeTimeout: 5 * time.Second,
			ClientVerify: &transport.VerifyConfig{Store: cstore}}
		srv, err := transport.NewServer(sEnd, scfg)
		if err != nil {
			hv.Info(map[string]interface{}{"e2e": "skipped: NewServer: " + err.Error()})
			return
		}
		go srv.Serve()
		cli := transport.NewClient(cEnd, sEnd.self, transport.ClientConfig{Exchanger: ck, Leaf: cleaf, Intermediate: cint, Verify: verify, HSTimeout: 5 * time.Second})
		hsErr := make(chan error, 1)
		go func() { hsErr <- cli.Handshake() }()
		var h *transport.Handle
		select {
		case err := <-hsErr:
			if err != nil {
				hv.Info(map[string]interface{}{"e2e": "handshake failed: " + err.Error()})
			} else {
				h, err = srv.AcceptTimeout(3 * time.Second)
				if err != nil {
					hv.Info(map[string]interface{}{"e2e": "accept failed: " + err.Error()})
					h = nil
				}
			}
		case <-time.After(8 * time.Second):
			hv.Info(map[string]interface{}{"e2e": "handshake timed out"})
		}
		desc := fmt.Sprintf("#%d %s: handshake(SNI secure.af, client chain)", k, class)
		if h != nil {
			sw.mu.Lock()
			sw.tamper = tamper
			sw.mu.Unlock()
			max := transport.MaxPlaintextSize
			// full-size packets (16 + max + 32 bytes on the wire) must survive the receive loops' buffers
			sizes := []int{0, 1, 16, 17, 1000, max - 17, max - 16, max - 15, max - 1, max, max + 1, 2 * max, 2*max + 100}
			if tamper {
				sizes = []int{0, 1, 16, 17, 33, 64, 100, 1000, 5000, max}
			}
			chunks := func(m []byte) [][]byte {
				if len(m) <= max {
					return [][]byte{m}
				}
				var cs [][]byte
				for i := 0; i < len(m); i += max {
					e := i + max
					if e > len(m) {
						e = len(m)
					}
					cs = append(cs, m[i:e])
				}
				return cs
			}
			type writer interface{ Write(b []byte) (int, error) }
			var all [][]byte
			oneWay := func(name string, w writer, rd msgReader, tag byte) {
				var want [][]byte
				total := 0
				for i, sz := range sizes {
					m := r.Bytes(sz)
					if sz >= 2 {
						m[0], m[1] = tag, byte(i)
					}
					n, err := w.Write(m)
					if err != nil || n != sz {
						fail("C03:write-count-wrong", fmt.Sprintf("%s: Write(%d bytes) = (%d, %v)", name, sz, n, err))
					}
					want = append(want, chunks(m)...)
					all = append(all, m)
					total += sz
				}
				got := readAll(rd, len(want))
				gotBytes := 0
				for _, g := range got {
					gotBytes += len(g)
				}
				desc += fmt.Sprintf("; %s: Write sizes %v (%d bytes, %d packets) -> peer read %d messages, %d bytes", name, sizes, total, len(want), len(got), gotBytes)
				if len(got) < len(want) {
					lost := -1
					for i := range want {
						if i >= len(got) || !bytes.Equal(got[i], want[i]) {
							lost = len(want[i])
							break
						}
					}
					fail("C03:written-bytes-not-delivered", fmt.Sprintf("%s: %d bytes accepted by Write in %d packets, the peer's reader got %d messages / %d bytes although every original datagram was handed over in order (first missing packet carries %d bytes)", name, total, len(want), len(got), gotBytes, lost))
					return
				}
				if len(got) > len(want) {
					fail("C03:returned-message-not-written-by-peer-or-returned-twice", fmt.Sprintf("%s: %d packets written, %d messages read", name, len(want), len(got)))
					return
				}
				for i := range want {
					if !bytes.Equal(got[i], want[i]) {
						fail("C03:returned-message-not-written-by-peer-or-returned-twice", fmt.Sprintf("%s: message %d (%d bytes) arrived as %d bytes (first difference at %d)", name, i, len(want[i]), len(got[i]), firstDiff(got[i], want[i])))
						return
					}
				}
			}
			oneWay("client->server", cli, h, 0xC5)
			oneWay("server->client", h, cli, 0x5C)
			if h.IsClosed() || cli.IsClosed() {
				fail("C03:session-closed-without-authentic-control", "a session closed although nobody closed it and only forged control messages were injected")
			}
			// ---- wire scan ----
			sw.mu.Lock()
			wire := sw.wire
			sw.mu.Unlock()
			var needles []struct {
				n string
				b []byte
			}
			add := func(n string, b []byte) {
				needles = append(needles, struct {
					n string
					b []byte
				}{n, b})
			}
			add("server name (SNI)", []byte("secure.af"))
			add("client certificate name", []byte(clientName))
			for name, c := range map[string]*certs.Certificate{"server leaf certificate": leaf, "server intermediate certificate": inter, "client leaf certificate": cleaf, "client intermediate certificate": cint} {
				raw, err := c.Marshal()
				if err == nil {
					for off := 0; off+24 <= len(raw); off += 24 {
						add(name, raw[off:off+24])
					}
				}
			}
			for _, m := range all {
				for off := 0; off+16 <= len(m) && off < 64000; off += 4001 {
					add("application data", m[off:off+16])
				}
			}
			for _, p := range wire {
				for _, nd := range needles {
					if bytes.Contains(p, nd.b) {
						fail("C03:plaintext-on-wire", fmt.Sprintf("a %d-byte datagram of type %#x contains %s in clear", len(p), p[0], nd.n))
					}
				}
			}
			desc += fmt.Sprintf("; %d datagrams on the wire scanned for %d needles; %d zero/ones/random-key datagrams injected between ServerAuth and ClientAuth; switch dropped %d", len(wire), len(needles), sw.ninj, sw.dropped)
		} else {
			desc += "; handshake did not complete (see driver_info) — nothing judged"
		}
		done := make(chan struct{})
		go func() { cli.Close(); srv.Close(); close(done) }()
		select {
		case <-done:
		case <-time.After(5 * time.Second):
		}
		hv.Emit(hv.Case{Class: class, Desc: desc, Spec: sig == "", Sig: sig, What: what, NT: h != nil})
	}
}
