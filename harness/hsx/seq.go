package hsx

import (
	"bytes"
	"fmt"
	"net"
	"strings"
	"time"

	"hop.computer/hop/certs"
	"hop.computer/hop/cyclist"
	"hop.computer/hop/transport"
	"verifharness/hv"
)

var (
	lblC2S = []byte("client_to_server_key")
	lblS2C = []byte("server_to_client_key")
)

// Seq records a sequence of Server.readPacket steps on one server together with the oracle
// values of each step, for the Coq checker hs_seq_ok (model: HsServer.server_step).
type Seq struct {
	Srv     *Srv
	Idents  []*Ident // the server's certificates, in GetCertList order (static key id IDSrvStat+i)
	HList   []HCert
	ListErr bool
	Hidden  bool
	MaxPend int
	steps   []string
	Desc    []string
	ops     map[string]int // address -> operations on the stored handshake's duplex so far
	blind   bool           // a step could not be shadowed: later steps are not given to the model
	Bad     []string       // specification failures noticed while stepping (panic, off-schedule duplex)
	bases   [][]byte       // messages that junk datagrams are derived from: printed once, referred to by name
	N       int
}

func NewSeq(srv *Srv, idents []*Ident, hidden bool) *Seq {
	q := &Seq{Srv: srv, Idents: idents, Hidden: hidden, MaxPend: 10, ops: map[string]int{}}
	for _, id := range idents {
		q.HList = append(q.HList, HCert{KEM: id.KEM, HasName: true})
	}
	return q
}

// Base registers a message so that datagrams derived from it (truncations, extensions, byte
// changes) are printed as expressions over it instead of as literals.
func (q *Seq) Base(m []byte) {
	for _, b := range q.bases {
		if bytes.Equal(b, m) {
			return
		}
	}
	q.bases = append(q.bases, append([]byte(nil), m...))
}

// expr prints datagram d, using the registered bases where it is close to one.
func (q *Seq) expr(d []byte) string {
	for i, b := range q.bases {
		name := fmt.Sprintf("m%d", i)
		switch {
		case bytes.Equal(d, b):
			return name
		case len(d) < len(b) && bytes.Equal(d, b[:len(d)]):
			return fmt.Sprintf("(tk %s %d)", name, len(d))
		case len(d) > len(b) && bytes.Equal(d[:len(b)], b) && len(d)-len(b) <= 64:
			return fmt.Sprintf("(%s ++ %s)", name, hv.Hex(d[len(b):]))
		case len(d) == len(b):
			var diff []int
			for j := range d {
				if d[j] != b[j] {
					diff = append(diff, j)
					if len(diff) > 4 {
						break
					}
				}
			}
			if len(diff) <= 4 {
				x := name
				for _, j := range diff {
					x = fmt.Sprintf("(xr %s %d %d)", x, j, d[j]^b[j])
				}
				return x
			}
		}
	}
	// constant fill, possibly after a different first byte
	if len(d) > 24 {
		same := true
		for _, x := range d[2:] {
			if x != d[1] {
				same = false
				break
			}
		}
		if same {
			return fmt.Sprintf("(%d :: rp %d %d)", d[0], d[1], len(d)-1)
		}
	}
	return hv.Hex(d)
}

func (q *Seq) Rotate() {
	q.Srv.S.VerifHsRotateCookieKey()
	if !q.blind {
		q.steps = append(q.steps, fmt.Sprintf("SRotate %d", IDCookie))
	}
	q.Desc = append(q.Desc, "rotate-cookie-key")
}

// Accept takes a published handle, as the application would, and records that.
func (q *Seq) Accept() *transport.Handle {
	h := q.Srv.Accept()
	if h != nil {
		if !q.blind {
			q.steps = append(q.steps, "SAccept")
		}
		q.Desc = append(q.Desc, "accept")
	}
	return h
}

func (q *Seq) identFor(c *transport.Certificate) int {
	for i, id := range q.Idents {
		if leaf, _ := id.Leaf.Marshal(); bytes.Equal(leaf, c.RawLeaf) {
			return i
		}
	}
	return -1
}

func vectors(leaf, inter []byte) []byte {
	out := []byte{byte(len(leaf) >> 8), byte(len(leaf))}
	out = append(out, leaf...)
	out = append(out, byte(len(inter)>>8), byte(len(inter)))
	return append(out, inter...)
}

func certTriple(e *Env, idx int, c *transport.Certificate) string {
	return hv.Tuple(hv.Ni(IDSrvStat+idx), e.Hx(c.RawLeaf), e.Hx(c.RawIntermediate))
}

// Step delivers d from addr and records the step. decaps gives the hidden-mode client's view of
// the response ciphertext (nil: unknown; an accepted hidden request then blinds the sequence).
func (q *Seq) Step(from *net.UDPAddr, d []byte, what string, decaps func(ct []byte) []byte) (outs []Dgram, code int) {
	srv := q.Srv
	key := from.String()
	hsBefore := srv.S.VerifHsHandshakeFor(from)
	var preDup cyclist.Cyclist
	if hsBefore != nil {
		preDup = hsBefore.VerifHsDuplex()
	}
	ck := srv.S.VerifHsCookieKey()
	_, _, pend0 := srv.S.VerifHsTables()
	if len(d) > 0 && d[0] == 8 {
		for time.Now().Nanosecond() > 700_000_000 {
			time.Sleep(20 * time.Millisecond)
		}
	}
	now := time.Now().Unix()
	outs, pan, err := srv.Deliver(from, d)
	code = Code(pan, err)
	nhs, nss, npend := srv.S.VerifHsTables()
	q.N++
	q.Desc = append(q.Desc, fmt.Sprintf("%s<-%s:%s[%d]=>%d/%d", what, from, short(d), len(d), code, len(outs)))
	if pan {
		q.Bad = append(q.Bad, fmt.Sprintf("step %d (%s, %d bytes from %s): readPacket panicked: %s", q.N, what, len(d), from, srv.Panics[len(srv.Panics)-1]))
	}
	if q.blind {
		return
	}
	var outcat []byte
	for _, o := range outs {
		outcat = append(outcat, o.Data...)
	}
	B := append(append([]byte(nil), d...), outcat...)
	sh := &Shadow{Fps: [][]byte{nil}}
	e := NewEnv(B, 0, sh)
	si := struct {
		ct, k, cookie, epub []byte
		sids                [][]byte
		byname, byidx       []string
	}{}
	keys := "None"
	hsAfter := srv.S.VerifHsHandshakeFor(from)
	mt := -1
	if len(d) >= 4 {
		mt = int(d[0])
	}
	switch {
	case mt == 1 && !q.Hidden:
		sh.Reset()
		sh.Absorb([]byte(PQName))
		if len(d) >= 820 {
			sh.Absorb(d[:4])
			kemParse(e, d[4:804])
			sh.Absorb(d[4:804])
			sh.Squeeze(16)
			if len(outs) == 1 && len(outs[0].Data) == 852 {
				SH := outs[0].Data
				kc := e.kemCanon(d[4:804])
				_, ad := CookieADSpec(kc, from)
				k, ok := openCookieSpec(ck, ad, SH[772:836])
				if !ok {
					q.Bad = append(q.Bad, fmt.Sprintf("step %d: the cookie in the ServerHello sent to %s does not open under the current cookie key with AD = H(client KEM key || source ip || source port): it is not bound to that source address and key", q.N, from))
					q.blind = true
					return
				}
				si.ct, si.k, si.cookie = SH[4:772], k, SH[772:836]
				sh.Absorb(SH[:4])
				sh.Absorb(k)
				sh.Absorb(SH[772:836])
				sh.Squeeze(16)
			}
		}
	case mt == 3 && !q.Hidden:
		sni := shadowCAck(e, sh, ck, from, d)
		accepted := len(outs) > 0 || (hsBefore == nil && hsAfter != nil)
		if accepted {
			if sni == nil {
				q.Bad = append(q.Bad, fmt.Sprintf("step %d (%s): the server answered / allocated state for a ClientAck that the specification rejects: its cookie does not open under the server's current cookie key with AD = H(ekem || source ip || source port)", q.N, what))
				q.blind = true
				return
			}
			if hsBefore != nil || hsAfter == nil {
				q.blind = true // the new state was not stored: its ephemeral key is out of reach
				return
			}
			sid := hsAfter.VerifHsSessionID()
			si.sids = [][]byte{sid[:]}
			eph := hsAfter.VerifHsDHEphemeral()
			si.epub = eph.Public[:]
			name := certs.Name{}
			name.ReadFrom(bytes.NewBuffer(sni))
			if c, cerr := safeGetCert(srv, name); cerr == nil {
				idx := q.identFor(c)
				si.byname = append(si.byname, hv.Tuple(e.Hx(name.Label), certTriple(e, idx, c)))
				sh.Absorb([]byte{4, 0, byte((4 + len(c.RawLeaf) + len(c.RawIntermediate)) >> 8), byte(4 + len(c.RawLeaf) + len(c.RawIntermediate))})
				sh.Absorb(sid[:])
				sh.Absorb(eph.Public[:])
				ee, derr := eph.DH(d[4:36])
				e.DH(IDSrvEph, d[4:36], ee, derr == nil)
				if derr == nil {
					sh.Absorb(ee)
					sh.Encrypt(vectors(c.RawLeaf, c.RawIntermediate))
					sh.Squeeze(16)
					es, derr := c.Exchanger.Agree(d[4:36])
					e.DH(IDSrvStat+idx, d[4:36], es, derr == nil)
					if derr == nil {
						sh.Absorb(es)
						sh.Squeeze(16)
					}
				}
			}
			p := sh.PrefixOf(hsAfter.VerifHsFingerprint())
			if p < 0 {
				q.Bad = append(q.Bad, fmt.Sprintf("step %d: after ClientAck/ServerAuth the stored duplex is not on the schedule of handshake_spec.md", q.N))
				q.blind = true
				return
			}
			q.ops[key] = p
		}
	case mt == 5 && !q.Hidden:
		if hsBefore != nil {
			sh = NewShadow(preDup)
			e = NewEnv(B, q.ops[key], sh)
			shadowCAuth(e, sh, hsBefore, d)
			if npend > pend0 || hsAfter == nil {
				// accepted: finishHandshake derives the keys
				sh.Ratchet()
				sh.Absorb(lblC2S)
				sh.Squeeze(16)
				sh.Ratchet()
				sh.Absorb(lblS2C)
				sh.Squeeze(16)
				sid := hsBefore.VerifHsSessionID()
				if ex, est, c2s, s2c := srv.S.VerifHsSession(sid); ex && est {
					keys = hv.Some(hv.Tuple(hv.Hex(sid[:]), hv.Hex(c2s[:]), hv.Hex(s2c[:])))
				}
				delete(q.ops, key)
			} else {
				p := sh.PrefixOf(hsAfter.VerifHsFingerprint())
				if p < 0 {
					q.Bad = append(q.Bad, fmt.Sprintf("step %d: after a rejected ClientAuth the stored duplex is not on the schedule", q.N))
					q.blind = true
					return
				}
				q.ops[key] += p
			}
		}
	case mt == 8:
		hs := transport.VerifHsNewHiddenServerHS()
		hs.VerifHsSetCertVerify(srv.S.VerifHsConfig().ClientVerify)
		matched, cpk := shadowHReq(e, sh, hs, q.HList, q.ListErr, d)
		if len(outs) > 0 {
			// accepted by the reader: state, response, finishHandshake
			if matched < 0 || cpk == nil {
				q.Bad = append(q.Bad, fmt.Sprintf("step %d: the server answered a hidden request that the specification rejects", q.N))
				q.blind = true
				return
			}
			if hsBefore != nil {
				q.blind = true
				return
			}
			resp := outs[0].Data
			c, cerr := safeGetCert(srv, certs.RawStringName(q.hostName(matched)))
			if cerr == nil {
				si.byidx = append(si.byidx, hv.Tuple(hv.Ni(matched), certTriple(e, q.identFor(c), c)))
			}
			if len(resp) >= 808 && cerr == nil {
				if decaps == nil {
					q.blind = true
					return
				}
				si.sids = [][]byte{resp[4:8]}
				si.ct = resp[8:776]
				si.k = decaps(resp[8:776])
				sh.Absorb(resp[:4])
				sh.Absorb(resp[4:8])
				sh.Absorb(si.k)
				sh.Encrypt(vectors(c.RawLeaf, c.RawIntermediate))
				sh.Squeeze(16)
				dss, derr := c.Exchanger.Agree(cpk)
				e.DH(IDSrvStat+q.identFor(c), cpk, dss, derr == nil)
				if derr == nil {
					sh.Absorb(dss)
					sh.Squeeze(16)
					sh.Ratchet()
					sh.Absorb(lblC2S)
					sh.Squeeze(16)
					sh.Ratchet()
					sh.Absorb(lblS2C)
					sh.Squeeze(16)
					var sid transport.SessionID
					copy(sid[:], resp[4:8])
					if ex, est, c2s, s2c := srv.S.VerifHsSession(sid); ex && est {
						keys = hv.Some(hv.Tuple(hv.Hex(sid[:]), hv.Hex(c2s[:]), hv.Hex(s2c[:])))
					}
				}
			} else {
				// the response could not be built: the session id is in the stored state
				if hsAfter != nil {
					sid := hsAfter.VerifHsSessionID()
					si.sids = [][]byte{sid[:]}
				}
				if cerr == nil {
					q.blind = true // static DH failed after encapsulation: the KEM secret is out of reach
					return
				}
			}
		}
	}
	sids := make([]string, len(si.sids))
	for i, x := range si.sids {
		sids[i] = hv.Hex(x)
	}
	for _, o := range outs {
		if !transport.EqualUDPAddress(o.Addr, from) {
			q.Bad = append(q.Bad, fmt.Sprintf("step %d: the server sent a datagram to %s in response to one from %s", q.N, o.Addr, from))
		}
	}
	ip := hv.Hex(from.IP)
	if len(from.IP) == 4 {
		ip = fmt.Sprintf("(ip4 %d)", uint64(from.IP[0])<<24|uint64(from.IP[1])<<16|uint64(from.IP[2])<<8|uint64(from.IP[3]))
	}
	if len(outs) == 0 && len(sh.Ops) == 0 && e.Empty() && len(si.sids) == 0 && keys == "None" {
		q.steps = append(q.steps, fmt.Sprintf("SJunk %s %d %s %d %d %d %d", ip, from.Port, q.expr(d), code, nhs, nss, npend))
		return
	}
	sin := hv.App("SI", hv.N(uint64(now)), e.Hx(si.ct), e.Hx(si.k), e.Hx(si.cookie), hv.Ni(IDSrvEph), e.Hx(si.epub),
		hv.List(sids), hv.List(si.byname), "CL", hv.List(si.byidx))
	os := make([]string, len(outs))
	for i, o := range outs {
		os[i] = e.Hx(o.Data)
	}
	ob := fmt.Sprintf("(SObs %d %s %d %d %d %s)", code, hv.List(os), nhs, nss, npend, keys)
	q.steps = append(q.steps, fmt.Sprintf("SDgram %s %d %s %s (fun B : bytes => %s)", ip, from.Port, q.expr(d), hv.Hex(outcat),
		hv.Tuple(e.Coq(), sin, ob)))
	return
}

func (q *Seq) certList() string {
	if q.ListErr {
		return "None"
	}
	xs := make([]string, len(q.HList))
	for i, c := range q.HList {
		kem := "None"
		if c.KEM != nil {
			kem = hv.Some(hv.Ni(IDSrvKEM + i))
		}
		xs[i] = hv.App("HC", kem, hv.B(c.HasName), hv.Ni(i))
	}
	return hv.Some(hv.List(xs))
}

// safeGetCert asks the server's own GetCertificate which certificate it selects for a name; the
// callback is code under test (hopserver's getCert): a panic in it counts as "no certificate" here —
// the same call inside readPacket has been observed under recover() already.
func safeGetCert(srv *Srv, name certs.Name) (c *transport.Certificate, err error) {
	defer func() {
		if r := recover(); r != nil {
			c, err = nil, fmt.Errorf("GetCertificate panicked: %v", r)
		}
	}()
	return srv.S.VerifHsConfig().GetCertificate(transport.ClientHandshakeInfo{ServerName: name})
}

func (q *Seq) hostName(i int) string {
	cl, err := q.Srv.S.VerifHsConfig().GetCertList()
	if err != nil || i >= len(cl) || len(cl[i].HostNames) == 0 {
		return ""
	}
	return cl[i].HostNames[0]
}

// Coq prints the case for hs_seq_ok.
func (q *Seq) Coq() string {
	var sb strings.Builder
	sb.WriteString("(")
	for i, b := range q.bases {
		fmt.Fprintf(&sb, "let m%d := %s in ", i, hv.Hex(b))
	}
	fmt.Fprintf(&sb, "let CL := %s in ", q.certList())
	sb.WriteString(hv.Tuple(hv.B(q.Hidden), hv.Ni(q.MaxPend), "CL", hv.List(q.steps)))
	sb.WriteString(")")
	return sb.String()
}

// Emit emits the recorded sequence. specOK/sig/what: the verdict of the caller's oracle.
func (q *Seq) Emit(class, desc string, specOK bool, sig, what string, nt bool) {
	if len(q.Bad) > 0 { // what was noticed while stepping is the more specific finding
		specOK = false
		what = q.Bad[0]
		switch {
		case strings.Contains(what, "panicked"):
			sig = "C10:readPacket-panics-on-unauthenticated-datagram"
		case strings.Contains(what, "schedule"):
			sig = "C02:duplex-schedule-differs-from-spec"
		default:
			sig = "C19:server-answers-or-mints-outside-specification"
		}
	}
	d := desc + " :: " + strings.Join(q.Desc, " ; ")
	if len(d) > 3000 {
		d = d[:3000] + "..."
	}
	fn := ""
	coq := ""
	if len(q.steps) > 0 {
		fn, coq = alias("hs_seq_ok"), q.Coq()
	}
	hv.Info(map[string]interface{}{"sequence": class, "readPacket_steps": q.N, "steps_given_to_model": len(q.steps)})
	hv.Emit(hv.Case{Fn: fn, Coq: coq, Class: class, Desc: d, Spec: specOK, Sig: sig, What: what, NT: nt, Key: desc + fmt.Sprint(len(q.Desc), len(coq)),
		Replay: map[string]interface{}{"class": class, "steps": q.Desc}})
}
