#!/usr/bin/env python3
"""prints the prompt for an independent mutation-seeding sub-agent: property text only, nothing from /verif"""
import json, sys
pid, n = sys.argv[1], (sys.argv[2] if len(sys.argv) > 2 else "1")
focus = sys.argv[3] if len(sys.argv) > 3 else ""
p = [json.loads(l) for l in open('/verif/properties.jsonl') if json.loads(l)['id'] == pid][0]
wt = "/tmp/seed-%s-%s" % (pid.lower(), n)
FOCUS = ("Where to look: several other people have already tried changes in the most obvious spots of this property; to spread out, put your change in or around " + focus + " (still within the code anchors above), unless you find that impossible.\n\n") if focus else ""
print(f"""You are testing how well a verification effort detects regressions in the Go project hop-proto/hop-go (an SSH-alternative remote-access protocol). You get ONE semantic property of the code base and your own scratch git worktree of the repository. Your job: produce a realistic change to the Go code that BREAKS this property while the code still compiles and the repository's existing test suite still passes, plus a demonstration that the change breaks it.

Work ONLY inside your scratch worktree `{wt}` (create it with: `git -C /repo worktree add {wt} -b seed-{pid.lower()}-{n}`). Never edit /repo itself. Do NOT read anything under /verif (it is off limits; your work must be independent of it). Go environment: `export GOFLAGS=-mod=mod GOPROXY=off` (do not set GOSUMDB or GOTOOLCHAIN; there is no network).

The property ({pid} — {p['title']}):
  Statement: {p['statement']}
  Quantified over: {p['quantifier']['text']}
  Why the existing tests cannot settle it: {p['why_tests_cant']}
  Code anchors: files {', '.join(p['anchors']['files'])}; mechanisms: {'; '.join(m['name'] + ' (' + m['where'] + ')' for m in p['anchors']['mechanism'])}

{FOCUS}Requirements for the change:
  * It must be the kind of slip a real maintainer could make in a refactor/optimisation/feature (a plausible diff, small, looks fine in review) — not sabotage like deleting a function body, and not something ordinary use would expose at once. Prefer changes that need something SPECIFIC to manifest: a particular input shape or boundary value, a particular multi-step history, a particular interleaving or fault at a particular point, or two cooperating sites that each look fine alone.
  * After the change: `go build ./...` succeeds and the existing tests of every package you touched (and of packages depending on it that are quick to run, e.g. `go test -vet=off -count=1 ./transport/... ./tubes/...` as relevant) still pass. Run them; report exactly what you ran.
  * Write a demonstration: a Go test file (may be placed inside the package in the worktree, named `zz_seed_demo_test.go`) or a small program that FAILS with your change and PASSES on the unchanged code (verify both with `git apply -R SEED/patch.diff` and `git apply SEED/patch.diff` — NEVER use `git stash`: the stash is shared by all worktrees of the repository and other people are working in sibling worktrees right now). The demonstration must exercise the property as stated (observable behaviour), not an internal detail.
  * Produce: `{wt}/SEED/patch.diff` (output of `git diff` for the code change only, WITHOUT the demo test), `{wt}/SEED/demo/` (the demonstration file(s) and a one-line `run.sh` showing how to run it from the repo root), `{wt}/SEED/meta.json` with keys: property, summary (what was changed), needs (what it needs in order to manifest), ran (commands you ran and their outcomes). Leave the worktree in place.
Give 1 change only, but make it a good one. In your final message state the summary, what it needs to manifest, and confirm the four checks (builds; existing tests pass with change; demo fails with change; demo passes without change).""")
