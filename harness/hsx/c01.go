package hsx

import (
	"bytes"
	"fmt"
	"net"

	"hop.computer/hop/certs"
	"hop.computer/hop/keys"
	"hop.computer/hop/transport"
	"verifharness/hv"
)

// World: one PKI with the honest parties and every kind of bad counterpart of the C01 text.
type World struct {
	P        *PKI
	SrvName  string
	Srv      *Ident // honest server identity for SrvName
	Cli      *Ident // honest client identity
	port     int
}

func NewWorld() *World {
	p := NewPKI()
	return &World{P: p, SrvName: "srv.example", Srv: p.Issue("honest-server", "srv.example"), Cli: p.Issue("honest-client", "alice"), port: 2000}
}
func (w *World) NextAddr() *net.UDPAddr { w.port++; return Addr("10.0.0.1", w.port) }

// NextAddr6: a fresh genuine (not IPv4-mapped) IPv6 source address.
func (w *World) NextAddr6() *net.UDPAddr {
	w.port++
	return Addr(fmt.Sprintf("2001:db8::%x", w.port), w.port)
}

type counterpart struct {
	id         *Ident
	authorized bool // its certified key is in the verifier's authorized set
	expired    bool // the verifier's clock is past the leaf's validity
}

// counterparts for a verifier that expects name ("" = any name, as servers verify clients).
func (w *World) counterparts(honest *Ident, name string) []counterpart {
	p := w.P
	n := name
	if n == "" {
		n = "mallory"
	}
	ss := p.SelfSigned(n)
	return []counterpart{
		{id: honest},
		{id: honest, authorized: true},
		{id: p.OtherKey(honest)},
		{id: p.OtherKey(honest), authorized: true},
		{id: p.OtherName(n)},
		{id: honest, expired: true},
		{id: p.WrongType()},
		{id: p.Untrusted(n)},
		{id: ss},
		{id: ss, authorized: true},
	}
}

func (c counterpart) label() string {
	s := c.id.Label
	if c.authorized {
		s += "+authorized"
	}
	if c.expired {
		s += "+expired"
	}
	return s
}

func specCase(prop, class, desc string, ok bool, sig, what string, nt bool) {
	hv.Emit(hv.Case{Class: class, Desc: desc, Spec: ok, Sig: sig, What: what, NT: nt,
		Replay: map[string]interface{}{"class": class, "input": desc}})
}

// C01Matrix: real client against real server, both modes, both directions, four policies, every
// counterpart. Judged by the statement of C01 alone.
func (w *World) C01Matrix() {
	for _, hidden := range []bool{false, true} {
		mode := map[bool]string{false: "discoverable", true: "hidden"}[hidden]
		for _, pol := range Policies {
			// --- the client verifies the server
			for _, cp := range w.counterparts(w.Srv, w.SrvName) {
				if pol == PolSkip && cp.id.Label == "valid-cert-other-key" && false {
					continue
				}
				var auth []*Ident
				if cp.authorized {
					auth = []*Ident{cp.id}
				}
				srv := NewSrv(SingleConfig(cp.id, w.P.Verify(PolStore, "", nil, false), hidden))
				ccfg := w.Cli.ClientConfig(w.P.Verify(pol, w.SrvName, auth, cp.expired))
				if hidden {
					ccfg.ServerKEMKey = &cp.id.KEM.Public
				}
				r := RunHandshake(srv, ccfg, w.NextAddr(), nil)
				mayAccept := w.P.SpecAccepts(pol, w.SrvName, cp.id, auth, cp.expired) && cp.id.HoldsKey
				desc := fmt.Sprintf("%s: client(policy=%s, name=%s) <- server presenting %s", mode, pol, w.SrvName, cp.label())
				ok, sig, what := true, "", ""
				if r.SrvPanic {
					ok, sig, what = false, "C01:server-panics-in-handshake", "server panicked"
				} else if r.CliOK() && !mayAccept {
					ok, sig = false, "C01:client-completes-with-unproven-server"
					what = "Client.Handshake returned nil although the server " + whyNot(w.P, pol, w.SrvName, cp, auth)
				} else if !r.CliOK() && mayAccept {
					ok, sig, what = false, "C01:honest-server-rejected", fmt.Sprintf("handshake with an acceptable server failed: %v", r.Err)
				}
				specCase("C01", "matrix-client-verifies-server/"+mode, desc, ok, sig, what, !mayAccept)
				r.Close()
			}
			// --- the server verifies the client
			for _, cp := range w.counterparts(w.Cli, "") {
				var auth []*Ident
				if cp.authorized {
					auth = []*Ident{cp.id}
				}
				srv := NewSrv(SingleConfig(w.Srv, w.P.Verify(pol, "", auth, cp.expired), hidden))
				ccfg := cp.id.ClientConfig(w.P.Verify(PolStore, w.SrvName, nil, false))
				if hidden {
					ccfg.ServerKEMKey = &w.Srv.KEM.Public
				}
				r := RunHandshake(srv, ccfg, w.NextAddr(), nil)
				policyOK := w.P.SpecAccepts(pol, "", cp.id, auth, cp.expired)
				mayDeliver := policyOK && cp.id.HoldsKey
				offered := r.Handle != nil
				c2s, _ := r.Probe(srv)
				desc := fmt.Sprintf("%s: server(policy=%s) <- client presenting %s", mode, pol, cp.label())
				ok, sig, what := true, "", ""
				switch {
				case r.SrvPanic:
					ok, sig, what = false, "C01:server-panics-in-handshake", "server panicked"
				case c2s && !mayDeliver:
					ok, sig = false, "C01:server-delivers-data-of-unproven-client"
					what = "Handle.ReadMsg returned the client's data although the client " + whyNot(w.P, pol, "", cp, auth)
				case offered && !hidden && !mayDeliver:
					ok, sig = false, "C01:server-offers-unproven-client"
					what = "Accept returned a handle although the client " + whyNot(w.P, pol, "", cp, auth)
				case offered && hidden && !policyOK:
					ok, sig = false, "C01:hidden-server-offers-client-failing-policy"
					what = "hidden mode: Accept returned a handle although the client " + whyNot(w.P, pol, "", cp, auth)
				case mayDeliver && !(offered && c2s):
					ok, sig, what = false, "C01:honest-client-rejected", fmt.Sprintf("acceptable client not served (offered=%v data=%v err=%v)", offered, c2s, r.Err)
				}
				specCase("C01", "matrix-server-verifies-client/"+mode, desc, ok, sig, what, !mayDeliver)
				r.Close()
			}
		}
	}
}

func whyNot(p *PKI, pol, name string, cp counterpart, auth []*Ident) string {
	if !p.SpecAccepts(pol, name, cp.id, auth, cp.expired) {
		return "presents " + cp.label() + ", which policy " + pol + " does not admit"
	}
	return "presents " + cp.label() + " and does not hold the certified private key"
}

// ---------------------------------------------------------------- white-box reader cases

type mut struct {
	name string
	f    func(b []byte) []byte
}

func flip(off int, mask byte) func([]byte) []byte {
	return func(b []byte) []byte {
		c := append([]byte(nil), b...)
		if off < 0 {
			off += len(c)
		}
		if off >= 0 && off < len(c) {
			c[off] ^= mask
		}
		return c
	}
}
func fill(off, n int, r *hv.Rand, zero bool) func([]byte) []byte {
	return func(b []byte) []byte {
		c := append([]byte(nil), b...)
		if off < 0 {
			off += len(c)
		}
		for i := off; i < off+n && i < len(c); i++ {
			if zero {
				c[i] = 0
			} else {
				c[i] = byte(r.U64())
			}
		}
		return c
	}
}

// macFieldMuts: garbage in a 16-byte field at off (negative: from the end).
func macFieldMuts(field string, off int, r *hv.Rand) []mut {
	return []mut{
		{field + "=random", fill(off, 16, r, false)},
		{field + "=zero", fill(off, 16, r, true)},
		{field + " first byte ^1", flip(off, 1)},
		{field + " last byte ^0x80", flip(off+15, 0x80)},
	}
}

// C01Readers: the four authenticating readers on honest, impostor and garbage-MAC inputs, each
// compared with the model.
func (w *World) C01Readers(r *hv.Rand) {
	cv := w.P.Verify(PolStore, "", nil, false)
	// ---- ServerAuth / ClientAuth
	for _, pol := range Policies {
		for _, cp := range w.counterparts(w.Srv, w.SrvName) {
			var auth []*Ident
			if cp.authorized {
				auth = []*Ident{cp.id}
			}
			srv := NewSrv(SingleConfig(cp.id, cv, false))
			ccfg := w.Cli.ClientConfig(w.P.Verify(pol, w.SrvName, auth, cp.expired))
			wb, err := NewWB(srv, ccfg, w.NextAddr())
			if err != nil {
				panic(err)
			}
			may := w.P.SpecAccepts(pol, w.SrvName, cp.id, auth, cp.expired) && cp.id.HoldsKey
			CaseSA(wb.HS, wb.PreSA, wb.SA, Meta{Prop: "C01", Class: "reader-ServerAuth/counterpart",
				Desc: fmt.Sprintf("readPQServerAuth(policy=%s) on the ServerAuth of a server presenting %s", pol, cp.label()),
				MustRej: !may, MustAcc: may, Why: "the server " + whyNot(w.P, pol, w.SrvName, cp, auth),
				Sig: "C01:client-completes-with-unproven-server", NT: !may})
			if may && pol == PolStore {
				L := len(wb.SA) - 72
				for _, m := range append(macFieldMuts("final MAC", -16, r), macFieldMuts("certificate tag", 40+L, r)...) {
					CaseSA(wb.HS, wb.PreSA, m.f(wb.SA), Meta{Prop: "C01", Class: "reader-ServerAuth/garbage-mac",
						Desc:    "readPQServerAuth on an honest ServerAuth with " + m.name,
						MustRej: true, Why: "the " + m.name + " does not verify", Sig: "C01:serverauth-mac-field-not-verified", NT: true})
				}
			}
		}
		for _, cp := range w.counterparts(w.Cli, "") {
			var auth []*Ident
			if cp.authorized {
				auth = []*Ident{cp.id}
			}
			srv := NewSrv(SingleConfig(w.Srv, w.P.Verify(pol, "", auth, cp.expired), false))
			ccfg := cp.id.ClientConfig(w.P.Verify(PolStore, w.SrvName, nil, false))
			wb, err := NewWB(srv, ccfg, w.NextAddr())
			if err == nil {
				err = wb.Auth()
			}
			if err != nil {
				panic(err)
			}
			may := w.P.SpecAccepts(pol, "", cp.id, auth, cp.expired) && cp.id.HoldsKey
			CaseCAuth(srv, wb.Addr, wb.PreCA, wb.CAuth, Meta{Prop: "C01", Class: "reader-ClientAuth/counterpart",
				Desc:    fmt.Sprintf("readPQClientAuth(policy=%s) on the ClientAuth of a client presenting %s", pol, cp.label()),
				MustRej: !may, MustAcc: may, Why: "the client " + whyNot(w.P, pol, "", cp, auth),
				Sig: "C01:server-accepts-unproven-client", NT: !may})
			if may && pol == PolStore {
				L := len(wb.CAuth) - 40
				for _, m := range append(macFieldMuts("final MAC", -16, r), macFieldMuts("certificate tag", 8+L, r)...) {
					CaseCAuth(srv, wb.Addr, wb.PreCA, m.f(wb.CAuth), Meta{Prop: "C01", Class: "reader-ClientAuth/garbage-mac",
						Desc:    "readPQClientAuth on an honest ClientAuth with " + m.name,
						MustRej: true, Why: "the " + m.name + " does not verify", Sig: "C01:clientauth-mac-field-not-verified", NT: true})
				}
			}
		}
	}
	// ---- hidden mode: request (server reads) and response (client reads)
	for _, pol := range Policies {
		for _, cp := range w.counterparts(w.Srv, w.SrvName) {
			var auth []*Ident
			if cp.authorized {
				auth = []*Ident{cp.id}
			}
			srv := NewSrv(SingleConfig(cp.id, cv, true))
			ccfg := w.Cli.ClientConfig(w.P.Verify(pol, w.SrvName, auth, cp.expired))
			ccfg.ServerKEMKey = &cp.id.KEM.Public
			wb, err := NewHWB(srv, ccfg, w.NextAddr())
			if err != nil {
				panic(err)
			}
			may := w.P.SpecAccepts(pol, w.SrvName, cp.id, auth, cp.expired) && cp.id.HoldsKey
			CaseSRH(wb.HS, w.Cli.Key, wb.PreRS, wb.Resp, Meta{Prop: "C01", Class: "reader-ServerResponseHidden/counterpart",
				Desc:    fmt.Sprintf("readPQServerResponseHidden(policy=%s) on the response of a server presenting %s", pol, cp.label()),
				MustRej: !may, MustAcc: may, Why: "the server " + whyNot(w.P, pol, w.SrvName, cp, auth),
				Sig: "C01:client-completes-with-unproven-server", NT: !may})
			if may && pol == PolStore {
				L := len(wb.Resp) - 808
				for _, m := range append(macFieldMuts("final MAC", -16, r), macFieldMuts("certificate tag", 776+L, r)...) {
					CaseSRH(wb.HS, w.Cli.Key, wb.PreRS, m.f(wb.Resp), Meta{Prop: "C01", Class: "reader-ServerResponseHidden/garbage-mac",
						Desc:    "readPQServerResponseHidden on an honest response with " + m.name,
						MustRej: true, Why: "the " + m.name + " does not verify", Sig: "C01:hidden-response-mac-field-not-verified", NT: true})
				}
			}
		}
		for _, cp := range w.counterparts(w.Cli, "") {
			var auth []*Ident
			if cp.authorized {
				auth = []*Ident{cp.id}
			}
			srv := NewSrv(SingleConfig(w.Srv, w.P.Verify(pol, "", auth, cp.expired), true))
			ccfg := cp.id.ClientConfig(w.P.Verify(PolStore, w.SrvName, nil, false))
			ccfg.ServerKEMKey = &w.Srv.KEM.Public
			wb, err := NewHWBReq(srv, ccfg, w.NextAddr())
			if err != nil {
				panic(err)
			}
			// the request itself proves no key possession: the policy alone decides
			may := w.P.SpecAccepts(pol, "", cp.id, auth, cp.expired)
			list := []HCert{{KEM: w.Srv.KEM, HasName: true}}
			CaseHReq(srv, list, false, wb.Req, Meta{Prop: "C01", Class: "reader-ClientRequestHidden/counterpart",
				Desc:    fmt.Sprintf("readPQClientRequestHidden(policy=%s) on the request of a client presenting %s", pol, cp.label()),
				MustRej: !may, MustAcc: may, Why: "the client presents " + cp.label() + ", which policy " + pol + " does not admit",
				Sig: "C01:hidden-server-accepts-client-failing-policy", NT: !may})
			if may && pol == PolStore {
				L := len(wb.Req) - (4 + 800 + 768 + 16 + 8 + 16)
				for _, m := range append(macFieldMuts("final MAC", -16, r), macFieldMuts("certificate tag", 1572+L, r)...) {
					CaseHReq(srv, list, false, m.f(wb.Req), Meta{Prop: "C01", Class: "reader-ClientRequestHidden/garbage-mac",
						Desc:    "readPQClientRequestHidden on an honest request with " + m.name,
						MustRej: true, Why: "the " + m.name + " does not verify", Sig: "C01:hidden-request-mac-field-not-verified", NT: true})
				}
			}
		}
	}
}

// C01Transplant: the authenticating message of one handshake presented in another.
func (w *World) C01Transplant() {
	cv := w.P.Verify(PolStore, "", nil, false)
	srv := NewSrv(SingleConfig(w.Srv, cv, false))
	ccfg := w.Cli.ClientConfig(w.P.Verify(PolStore, w.SrvName, nil, false))
	a, err := NewWB(srv, ccfg, w.NextAddr())
	if err != nil {
		panic(err)
	}
	b, err := NewWB(srv, ccfg, w.NextAddr())
	if err != nil {
		panic(err)
	}
	CaseSA(a.HS, a.PreSA, b.SA, Meta{Prop: "C01", Class: "reader-ServerAuth/transplant",
		Desc: "readPQServerAuth in handshake A on the honest ServerAuth of concurrent handshake B (same server, same client identity)",
		MustRej: true, Why: "the message belongs to another handshake", Sig: "C01:serverauth-of-other-handshake-accepted", NT: true})
	if err := a.Auth(); err != nil {
		panic(err)
	}
	if err := b.Auth(); err != nil {
		panic(err)
	}
	CaseCAuth(srv, a.Addr, a.PreCA, b.CAuth, Meta{Prop: "C01", Class: "reader-ClientAuth/transplant",
		Desc: "readPQClientAuth for address A on the honest ClientAuth of concurrent handshake B",
		MustRej: true, Why: "the message belongs to another handshake", Sig: "C01:clientauth-of-other-handshake-accepted", NT: true})
	// and with B's session id patched to A's, so that only the MACs can tell
	x := append([]byte(nil), b.CAuth...)
	copy(x[4:8], a.CAuth[4:8])
	CaseCAuth(srv, a.Addr, a.PreCA, x, Meta{Prop: "C01", Class: "reader-ClientAuth/transplant",
		Desc: "readPQClientAuth for address A on B's ClientAuth with A's session id patched in",
		MustRej: true, Why: "the message belongs to another handshake", Sig: "C01:clientauth-of-other-handshake-accepted", NT: true})
	CaseCAuth(srv, a.Addr, a.PreCA, a.CAuth, Meta{Prop: "C01", Class: "reader-ClientAuth/transplant",
		Desc: "control: A's own ClientAuth after the rejected transplants (state restored)", MustAcc: true, NT: false})
}

// C01Policy: certificateParserAndVerifier for every policy, certificate and callback against the
// verdicts of its parts (model-compared) and against the policy specification.
func (w *World) C01Policy() {
	type cb struct {
		name string
		f    transport.AdditionalVerifyCallback
		v    string
	}
	cbs := []cb{{"no callback", nil, "None"},
		{"callback ok", func(*certs.Certificate) error { return nil }, "(Some true)"},
		{"callback refuses", func(*certs.Certificate) error { return fmt.Errorf("no") }, "(Some false)"}}
	for _, name := range []string{w.SrvName, ""} {
		honest := w.Srv
		if name == "" {
			honest = w.Cli
		}
		for _, pol := range Policies {
			for _, cp := range w.counterparts(honest, name) {
				for _, c := range cbs {
					var auth []*Ident
					if cp.authorized {
						auth = []*Ident{cp.id}
					}
					v := w.P.Verify(pol, name, auth, cp.expired)
					v.AddVerifyCallback = c.f
					cfg := w.Cli.ClientConfig(v)
					hs, err := transport.VerifHsNewClientHS(&cfg, Addr("10.9.9.9", 77), false)
					if err != nil {
						panic(err)
					}
					leaf, _ := cp.id.Leaf.Marshal()
					var inter []byte
					if cp.id.Inter != nil {
						inter, _ = cp.id.Inter.Marshal()
					}
					_, verr := hs.VerifHsPolicy(leaf, inter)
					got := verr == nil
					// verdicts of the parts, obtained from the parts themselves
					opts := certs.VerifyOptions{Name: v.Name, CurrentTime: v.CurrentTime}
					var pl, pi certs.Certificate
					_, e1 := pl.ReadFrom(bytes.NewBuffer(leaf))
					parse := e1 == nil
					if len(inter) > 0 {
						_, e2 := pi.ReadFrom(bytes.NewBuffer(inter))
						parse = parse && e2 == nil
						opts.PresentedIntermediate = &pi
					}
					ako := parse && v.AuthKeys.VerifyLeaf(&pl, opts) == nil
					sto := parse && v.Store.VerifyLeaf(&pl, opts) == nil
					want := w.P.SpecAccepts(pol, name, cp.id, auth, cp.expired) && c.v != "(Some false)"
					desc := fmt.Sprintf("certificateParserAndVerifier(policy=%s, name=%q, %s) on %s", pol, name, c.name, cp.label())
					ok, sig, what := true, "", ""
					if got != want {
						ok, sig = false, "C01:policy-verdict-differs-from-policy-table"
						what = fmt.Sprintf("verdict %v but the policy table says %v", got, want)
					}
					coq := hv.Tuple(hv.App("PI", hv.B(parse), "false", hv.B(v.InsecureSkipVerify), hv.B(v.AuthKeysAllowed), hv.B(ako), hv.B(sto), c.v), hv.B(got))
					hv.Emit(hv.Case{Fn: "hs_pol_ok", Coq: coq, Class: "policy-table", Desc: desc, Spec: ok, Sig: sig, What: what, NT: !want,
						Replay: map[string]interface{}{"input": desc}})
				}
			}
		}
	}
}

// C01NameTypes: "verifies for the expected name" — an identifier is a type and a label. Servers
// whose certificate chains to the trusted root and whose key they hold, but which carry the expected
// label under another id type, in another case, with a trailing dot; and clients expecting such
// variants of an honest server's name. All must be rejected; the exactly named server accepted.
func (w *World) C01NameTypes() {
	cv := w.P.Verify(PolStore, "", nil, false)
	L := "srv.example"
	typed := func(t certs.IDType, l string) certs.Name { return certs.Name{Label: []byte(l), Type: t} }
	type tc struct {
		what   string
		expect certs.Name
		id     *Ident
	}
	honest := w.P.IssueNamed("dns-named-server", certs.DNSName(L))
	rawSrv := w.P.IssueNamed("raw-named-server", certs.RawStringName(L))
	cases := []tc{
		{"the exactly named server (control)", certs.DNSName(L), honest},
		{"label under id type raw", certs.DNSName(L), w.P.IssueNamed("label-under-raw-type", certs.RawStringName(L))},
		{"label under id type IPv4", certs.DNSName(L), w.P.IssueNamed("label-under-ipv4-type", typed(certs.TypeIPv4Address, L))},
		{"label under id type IPv6", certs.DNSName(L), w.P.IssueNamed("label-under-ipv6-type", typed(certs.TypeIPv6Address, L))},
		{"label under raw type next to another DNS name", certs.DNSName(L), w.P.IssueNamed("raw-label-plus-other-dns", certs.RawStringName(L), certs.DNSName("other.example"))},
		{"upper-case label", certs.DNSName(L), w.P.IssueNamed("upper-case-label", certs.DNSName("SRV.EXAMPLE"))},
		{"mixed-case label", certs.DNSName(L), w.P.IssueNamed("mixed-case-label", certs.DNSName("Srv.Example"))},
		{"label with a trailing dot", certs.DNSName(L), w.P.IssueNamed("trailing-dot-label", certs.DNSName(L+"."))},
		{"label with a trailing dot under raw type", certs.DNSName(L), w.P.IssueNamed("trailing-dot-raw", certs.RawStringName(L+"."))},
		{"client expects the upper-case name", certs.DNSName("SRV.EXAMPLE"), honest},
		{"client expects the name with a trailing dot", certs.DNSName(L + "."), honest},
		{"client expects the raw name, server named under DNS type", certs.RawStringName(L), honest},
		{"client expects the raw name in upper case", certs.RawStringName("SRV.EXAMPLE"), rawSrv},
		{"raw-named server, raw name expected (control)", certs.RawStringName(L), rawSrv},
	}
	for _, hidden := range []bool{false, true} {
		mode := map[bool]string{false: "discoverable", true: "hidden"}[hidden]
		for _, pol := range []string{PolStore, PolBoth} {
			for _, c := range cases {
				may := w.P.SpecAcceptsName(pol, c.expect, c.id, nil, false)
				desc := fmt.Sprintf("%s: client(policy=%s) expecting %s %q <- chain-valid, key-holding server named %v: %s", mode, pol, idTypeName(c.expect.Type), c.expect.Label, namesOf(c.id), c.what)
				why := "the certificate does not carry the expected name (type and label): " + c.what
				// black box
				srv := NewSrv(SingleConfig(c.id, cv, hidden))
				ccfg := w.Cli.ClientConfig(w.P.VerifyName(pol, c.expect, nil, false))
				if hidden {
					ccfg.ServerKEMKey = &c.id.KEM.Public
				}
				r := RunHandshake(srv, ccfg, w.NextAddr(), nil)
				ok, sig, what := true, "", ""
				if r.CliOK() && !may {
					ok, sig, what = false, "C01:client-completes-with-server-not-certified-for-expected-name", "Client.Handshake returned nil although "+why
				} else if !r.CliOK() && may {
					ok, sig, what = false, "C01:honest-server-rejected", fmt.Sprintf("handshake with the exactly named server failed: %v", r.Err)
				}
				specCase("C01", "name-type-and-spelling/"+mode, desc, ok, sig, what, !may)
				r.Close()
				// white box on the authenticating reader, compared with the model
				m := Meta{Prop: "C01", Class: "reader-name-type-and-spelling/" + mode, Desc: desc, MustRej: !may, MustAcc: may, Why: why,
					Sig: "C01:client-completes-with-server-not-certified-for-expected-name", NT: !may}
				if hidden {
					wb, err := NewHWB(NewSrv(SingleConfig(c.id, cv, true)), ccfg, w.NextAddr())
					if err != nil {
						panic(err)
					}
					CaseSRH(wb.HS, w.Cli.Key, wb.PreRS, wb.Resp, m)
				} else {
					wb, err := NewWB(NewSrv(SingleConfig(c.id, cv, false)), ccfg, w.NextAddr())
					if err != nil {
						panic(err)
					}
					CaseSA(wb.HS, wb.PreSA, wb.SA, m)
				}
			}
		}
	}
}

func idTypeName(t certs.IDType) string {
	switch t {
	case certs.TypeRaw:
		return "raw"
	case certs.TypeDNSName:
		return "DNS"
	case certs.TypeIPv4Address:
		return "IPv4"
	case certs.TypeIPv6Address:
		return "IPv6"
	}
	return fmt.Sprintf("type%#x", byte(t))
}

func namesOf(id *Ident) string {
	s := ""
	for _, b := range id.Leaf.IDChunk.Blocks {
		s += fmt.Sprintf("[%s %q]", idTypeName(b.Type), b.Label)
	}
	return s
}

// C01KeySetHistories: the authorized-keys set changes over time (AddKey / RemoveKey). A party is
// admitted under the authorized-keys policy only if its certified key is in the set NOW, i.e.
// according to the history read as set operations.
func (w *World) C01KeySetHistories() {
	type hist struct {
		name string
		ops  string // a = AddKey, r = RemoveKey (of the counterpart's key), x/y = Add/Remove of an unrelated key
	}
	hists := []hist{{"never added", ""}, {"added", "a"}, {"added then removed", "ar"}, {"added, removed, added again", "ara"},
		{"removed without ever being added", "r"}, {"added twice, removed once", "aar"}, {"added twice, removed twice", "aarr"},
		{"removed, then added", "ra"}, {"added, removed, removed, added, removed", "arrar"}, {"another key added and removed around it", "xary"}}
	inSet := func(ops string) bool {
		in := false
		for _, o := range ops {
			switch o {
			case 'a':
				in = true
			case 'r':
				in = false
			}
		}
		return in
	}
	other := keys.GenerateNewX25519KeyPair()
	apply := func(v *transport.VerifyConfig, pk keys.DHPublicKey, ops string) {
		for _, o := range ops {
			switch o {
			case 'a':
				v.AuthKeys.AddKey(pk)
			case 'r':
				v.AuthKeys.RemoveKey(pk)
			case 'x':
				v.AuthKeys.AddKey(other.Public)
			case 'y':
				v.AuthKeys.RemoveKey(other.Public)
			}
		}
	}
	// self-signed counterparts: only the authorized-keys branch can admit them, also under "both"
	for _, hidden := range []bool{false, true} {
		mode := map[bool]string{false: "discoverable", true: "hidden"}[hidden]
		for _, pol := range []string{PolAuthKeys, PolBoth} {
			for _, h := range hists {
				may := inSet(h.ops)
				// --- the server verifies the client
				cli := w.P.SelfSigned("carol")
				sv := w.P.Verify(pol, "", nil, false)
				apply(sv, cli.Leaf.PublicKey, h.ops)
				srv := NewSrv(SingleConfig(w.Srv, sv, hidden))
				ccfg := cli.ClientConfig(w.P.Verify(PolStore, w.SrvName, nil, false))
				if hidden {
					ccfg.ServerKEMKey = &w.Srv.KEM.Public
				}
				r := RunHandshake(srv, ccfg, w.NextAddr(), nil)
				offered := r.Handle != nil
				c2s, _ := r.Probe(srv)
				desc := fmt.Sprintf("%s: server(policy=%s) <- self-signed client whose key was %s in the authorized set (ops %q)", mode, pol, h.name, h.ops)
				ok, sig, what := true, "", ""
				switch {
				case (offered || c2s) && !may:
					ok, sig = false, "C01:server-admits-client-whose-key-is-not-in-the-authorized-set"
					what = fmt.Sprintf("Accept offered=%v, data delivered=%v although the client's key is not in the authorized set now (%s)", offered, c2s, h.name)
				case may && !(offered && c2s):
					ok, sig, what = false, "C01:honest-client-rejected", fmt.Sprintf("client whose key is in the set was not served (offered=%v data=%v err=%v)", offered, c2s, r.Err)
				}
				specCase("C01", "authorized-set-history/server-verifies-client/"+mode, desc, ok, sig, what, !may)
				r.Close()
				// --- the client verifies the server
				sid := w.P.SelfSigned(w.SrvName)
				cvv := w.P.Verify(pol, w.SrvName, nil, false)
				apply(cvv, sid.Leaf.PublicKey, h.ops)
				srv2 := NewSrv(SingleConfig(sid, w.P.Verify(PolStore, "", nil, false), hidden))
				ccfg2 := w.Cli.ClientConfig(cvv)
				if hidden {
					ccfg2.ServerKEMKey = &sid.KEM.Public
				}
				r2 := RunHandshake(srv2, ccfg2, w.NextAddr(), nil)
				desc = fmt.Sprintf("%s: client(policy=%s) <- self-signed server whose key was %s in the client's authorized set (ops %q)", mode, pol, h.name, h.ops)
				ok, sig, what = true, "", ""
				if r2.CliOK() && !may {
					ok, sig, what = false, "C01:client-completes-with-server-whose-key-is-not-in-the-authorized-set", "Client.Handshake returned nil although the server's key is not in the authorized set now ("+h.name+")"
				} else if !r2.CliOK() && may {
					ok, sig, what = false, "C01:honest-server-rejected", fmt.Sprintf("server whose key is in the set was rejected: %v", r2.Err)
				}
				specCase("C01", "authorized-set-history/client-verifies-server/"+mode, desc, ok, sig, what, !may)
				r2.Close()
			}
		}
	}
}
