From Hop Require Import Base Recv Mux.
Open Scope N_scope.
Theorem c09_placeholder : m_parity (mux_new true) = 0.
Proof. reflexivity. Qed.
Print Assumptions c09_placeholder.
