(* Replay.v — model of transport/replay.go (SlidingWindow.Check / Mark) and of the
   check-open-mark order of transport/transport.go readPacketLocked.
   All arithmetic is uint64: additions wrap mod 2^64 exactly as in Go. *)
From Hop Require Import Base.
Open Scope N_scope.

Definition num_blocks : N := 8.
Definition block_size : N := 64.
Definition window_size : N := (num_blocks - 1) * block_size.   (* 448 *)
Definition location_mask : N := block_size - 1.                (* 63 *)
Definition location_bits : N := 6.
Definition index_mask : N := num_blocks - 1.                   (* 7 *)
Definition two64 : N := 2 ^ 64.

Record win := { blocks : list N; wt : N }.

Definition win_init : win := {| blocks := repeat 0 8; wt := 0 |}.

Definition u64_add (a b : N) : N := (a + b) mod two64.

Definition get (bl : list N) (i : N) : N := nth (N.to_nat i) bl 0.
Fixpoint upd (bl : list N) (i : nat) (v : N) : list N :=
  match bl, i with
  | [], _ => []
  | _ :: r, O => v :: r
  | x :: r, S i' => x :: upd r i' v
  end.
Definition set (bl : list N) (i : N) (v : N) : list N := upd bl (N.to_nat i) v.

(* func (s SlidingWindow) Check(seq uint64) bool *)
Definition check (s : win) (seq : N) : bool :=
  if wt s <? seq then true
  else if u64_add seq window_size <? wt s then false
  else
    let bit_index := N.land seq location_mask in
    let block_index := N.land (N.shiftr seq location_bits) index_mask in
    N.land (get (blocks s) block_index) (N.shiftl 1 bit_index) =? 0.

(* the clearing loop: for i := 0; i < diff; i++ { blocks[(i+cur+1)&7] = 0 } *)
Fixpoint clear_loop (bl : list N) (cur : N) (i : N) (n : nat) : list N :=
  match n with
  | O => bl
  | S n' => clear_loop (set bl (N.land (u64_add (u64_add i cur) 1) index_mask) 0) cur (i + 1) n'
  end.

(* func (s *SlidingWindow) Mark(seq uint64) *)
Definition mark (s : win) (seq : N) : win :=
  if u64_add seq window_size <? wt s then s
  else
    let ub := N.shiftr seq location_bits in
    let s1 :=
      if wt s <? seq then
        let uc := N.shiftr (wt s) location_bits in
        let diff0 := ub - uc in   (* seq > wt hence ub >= uc: no wrap *)
        let diff := if num_blocks <? diff0 then num_blocks else diff0 in
        {| blocks := clear_loop (blocks s) uc 0 (N.to_nat diff); wt := seq |}
      else s in
    let index := N.land ub index_mask in
    let location := N.land seq location_mask in
    {| blocks := set (blocks s1) index (N.lor (get (blocks s1) index) (N.shiftl 1 location));
       wt := wt s1 |}.

(* readPacketLocked: Check, then (AEAD open succeeds iff the packet is authentic), then Mark.
   accept models the filter's part for an authentic packet with counter c. *)
Definition accept (s : win) (c : N) : win * bool :=
  if check s c then (mark s c, true) else (s, false).

Fixpoint run_accept (s : win) (cs : list N) : list bool :=
  match cs with
  | [] => []
  | c :: r => let '(s', b) := accept s c in b :: run_accept s' r
  end.

(* ---- operation language used by the correspondence check: arbitrary Mark / Check calls ---- *)
Inductive rop := RMark (c : N) | RCheck (c : N).

Fixpoint run_ops (s : win) (ops : list rop) : list bool :=
  match ops with
  | [] => []
  | RMark c :: r => run_ops (mark s c) r
  | RCheck c :: r => check s c :: run_ops s r
  end.

(* ---- the specification: sets of counters ---- *)
Fixpoint max0 (l : list N) : N := match l with [] => 0 | x :: r => N.max x (max0 r) end.
Definition mem (c : N) (l : list N) : bool := existsb (N.eqb c) l.

(* fresh A c: c was not accepted/marked before and is not more than 448 below the highest *)
Definition fresh_b (A : list N) (c : N) : bool :=
  negb (mem c A) && (max0 A <=? c + window_size).

(* spec of a history of accept attempts: A = counters accepted so far *)
Fixpoint spec_run (A : list N) (cs : list N) : list bool :=
  match cs with
  | [] => []
  | c :: r => if fresh_b A c then true :: spec_run (c :: A) r else false :: spec_run A r
  end.

(* spec of arbitrary Mark/Check programs: M = all counters passed to Mark so far *)
Fixpoint spec_ops (M : list N) (ops : list rop) : list bool :=
  match ops with
  | [] => []
  | RMark c :: r => spec_ops (c :: M) r
  | RCheck c :: r => fresh_b M c :: spec_ops M r
  end.

(* ---- the receive path as the transport uses the filter: per datagram (counter, authentic?).
   readPacketLocked: Check, then AEAD open (succeeds iff authentic), Mark only after success; so a
   datagram that does not authenticate is rejected and leaves the window unchanged. ---- *)
Fixpoint run_through (s : win) (l : list (N * bool)) : list bool :=
  match l with
  | [] => []
  | (c, true) :: r => let '(s', b) := accept s c in b :: run_through s' r
  | (_, false) :: r => false :: run_through s r
  end.

Fixpoint spec_through (A : list N) (l : list (N * bool)) : list bool :=
  match l with
  | [] => []
  | (c, true) :: r => if fresh_b A c then true :: spec_through (c :: A) r else false :: spec_through A r
  | (_, false) :: r => false :: spec_through A r
  end.
