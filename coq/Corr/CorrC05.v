(* Correspondence entry point for C05: histories of SetFile / Enable / AddGrant / Login / direct
   AuthorizeKey / AuthorizeKeyAuthGrant calls run on a real HopServer (user authorization through
   the real hopSession.checkAuthorization over an in-memory tube muxer). *)
From Hop Require Export Base Authz AuthzCorr.
Definition c05_ok := authz_ok.

(* ---- logins racing with each other and with grant additions (Model/LoginRace.v) ----
   A case: the goroutines' programs (login u:k / AddAuthGrant of one grant for u:k; the grant's
   serial is the goroutine's index), what each login got back from the real
   HopServer.AuthorizeKeyAuthGrant when all goroutines ran at the same time, and a final probe of
   the grant map and the transport key set.  The checker explores EVERY interleaving of the model
   (each goroutine = its two critical sections) and accepts iff one of them ends in exactly the
   observed results, map and key set. *)
From Hop Require Export LoginRace.

Inductive lp := LL (u : user) (k : key) | LA (u : user) (k : key) (g : gview).
Fixpoint mk_lprogs (n : N) (l : list lp) : list lprog :=
  match l with
  | [] => []
  | LL u k :: r => LLogin u k :: mk_lprogs (n + 1) r
  | LA u k (t, s, e, c, p) :: r => LAdd u k (mkGrant n t s e c p) :: mk_lprogs (n + 1) r
  end.

Definition lresult (t : lprog * lpc) : option (list gview) :=
  match t with (LLogin _ _, LDone (Some a)) => Some (map gv a) | _ => None end.
Definition ores_eqb (a b : option (list gview)) : bool :=
  match a, b with Some x, Some y => gviews_eqb x y | None, None => true | _, _ => false end.
Definition lprobe_ok (s : lsh) (p : probe) : bool :=
  match p with
  | (u, k, gs, inset) =>
      gviews_eqb (map gv (match ag_lookup (l_map s) (u, k) with Some l => l | None => [] end)) gs
      && Bool.eqb (key_mem (l_keys s) k) inset
  end.

(* all maximal runs of the interleaving model *)
Fixpoint explore (fuel : nat) (x : lst) : list lst :=
  match fuel with
  | O => [x]
  | S f =>
      match flat_map (fun i => match lstep x i with Some x' => [x'] | None => [] end)
                     (seq 0 (List.length (lths x))) with
      | [] => [x]
      | nexts => flat_map (explore f) nexts
      end
  end.

Definition lrace_case := (nat * list lp * list (option (list gview)) * list probe)%type.
Definition c05_lrace_ok (c : lrace_case) : bool :=
  match c with
  | (pre, ps, results, probes) =>
      (* the first [pre] goroutines (grant additions) ran to completion before the others started *)
      let progs := mk_lprogs 0 ps in
      existsb (fun x => beq_list ores_eqb (map lresult (lths x)) results
                        && forallb (lprobe_ok (lshd x)) probes)
              (explore (2 * List.length progs) (lrun_order progs (seq 0 pre)))
  end.
