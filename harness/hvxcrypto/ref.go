// Package hvxcrypto holds the reference primitives used by the specification oracles of the
// crypto drivers (c13, c12).  Everything here is written from the specifications (FIPS 202 for
// Keccak-p, the Xoodyak paper's Algorithms 2-3 for Cyclist) and shares no code with /repo.
package hvxcrypto

import (
	"strconv"
	"strings"
)

// IB prints a byte string as the Coq term (ib n [i0; i1; ...]%uint63) of Corr/CorrBytes.v:
// 7 bytes per primitive 63-bit integer, little endian (string literals are ~100x slower to parse).
func IB(b []byte) string {
	var sb strings.Builder
	sb.WriteString("(ib ")
	sb.WriteString(strconv.Itoa(len(b)))
	sb.WriteString(" [")
	for i := 0; i < len(b); i += 7 {
		var v uint64
		for j := 0; j < 7 && i+j < len(b); j++ {
			v |= uint64(b[i+j]) << (8 * uint(j))
		}
		if i > 0 {
			sb.WriteString(";")
		}
		sb.WriteString(strconv.FormatUint(v, 10))
	}
	sb.WriteString("]%uint63)")
	return sb.String()
}

// ---------------------------------------------------------------- Keccak-p[1600, nr] (FIPS 202)

func rc(t int) uint64 { // algorithm 5
	t %= 255
	if t == 0 {
		return 1
	}
	r := [9]byte{1, 0, 0, 0, 0, 0, 0, 0, 0}
	for i := 1; i <= t; i++ {
		copy(r[1:], r[:8]) // R = 0 || R
		r[0] = 0
		r[0] ^= r[8]
		r[4] ^= r[8]
		r[5] ^= r[8]
		r[6] ^= r[8]
	}
	return uint64(r[0])
}

var roundConst [24]uint64
var rhoOff [5][5]uint

func init() {
	for ir := 0; ir < 24; ir++ {
		var v uint64
		for j := 0; j <= 6; j++ {
			v |= rc(j+7*ir) << ((1 << uint(j)) - 1)
		}
		roundConst[ir] = v
	}
	x, y := 1, 0
	for t := 0; t < 24; t++ {
		rhoOff[x][y] = uint(((t + 1) * (t + 2) / 2) % 64)
		x, y = y, (2*x+3*y)%5
	}
}

func rot(v uint64, n uint) uint64 {
	if n == 0 {
		return v
	}
	return v<<n | v>>(64-n)
}

// KeccakP applies Keccak-p[1600, nr] to 25 lanes, lane (x,y) at index x+5y.
func KeccakP(a *[25]uint64, nr int) {
	for ir := 24 - nr; ir < 24; ir++ {
		var c, d [5]uint64
		for x := 0; x < 5; x++ {
			c[x] = a[x] ^ a[x+5] ^ a[x+10] ^ a[x+15] ^ a[x+20]
		}
		for x := 0; x < 5; x++ {
			d[x] = c[(x+4)%5] ^ rot(c[(x+1)%5], 1)
		}
		var b [25]uint64
		for x := 0; x < 5; x++ {
			for y := 0; y < 5; y++ {
				// rho then pi: B[y, 2x+3y] = rot(A[x,y] ^ D[x], r[x,y])
				b[y+5*((2*x+3*y)%5)] = rot(a[x+5*y]^d[x], rhoOff[x][y])
			}
		}
		for x := 0; x < 5; x++ {
			for y := 0; y < 5; y++ {
				a[x+5*y] = b[x+5*y] ^ (^b[(x+1)%5+5*y] & b[(x+2)%5+5*y])
			}
		}
		a[0] ^= roundConst[ir]
	}
}

// KeccakPBytes applies Keccak-p[1600, nr] to a 200-byte state (little-endian lanes).
func KeccakPBytes(s *[200]byte, nr int) {
	var a [25]uint64
	for i := 0; i < 200; i++ {
		a[i/8] |= uint64(s[i]) << (8 * uint(i%8))
	}
	KeccakP(&a, nr)
	for i := 0; i < 200; i++ {
		s[i] = byte(a[i/8] >> (8 * uint(i%8)))
	}
}

// ---------------------------------------------------------------- Cyclist (Xoodyak paper, Alg. 2-3)

// RefCyclist is a byte-oriented transcription of the Cyclist mode with the Cyclist-SHA3 parameters
// (f = Keccak-p[1600,12], R_hash = R_kin = R_kout = 136, l_ratchet = 32).
type RefCyclist struct {
	up       bool
	keyed    bool
	rAbs, rS int
	s        [200]byte
}

func NewRefCyclist(key, id, counter []byte) *RefCyclist {
	c := &RefCyclist{up: true, rAbs: 136, rS: 136}
	if len(key) > 0 {
		c.keyed = true
		c.rAbs, c.rS = 136, 136
		kid := append(append(append([]byte{}, key...), id...), byte(len(id)))
		c.absorbAny(kid, c.rAbs, 0x02)
		if len(counter) > 0 {
			c.absorbAny(counter, 1, 0x00)
		}
	}
	return c
}

func (c *RefCyclist) Keyed() bool   { return c.keyed }
func (c *RefCyclist) State() []byte { return append([]byte{}, c.s[:]...) }

func (c *RefCyclist) doDown(x []byte, cd byte) {
	for i, b := range x {
		c.s[i] ^= b
	}
	c.s[len(x)] ^= 0x01
	if !c.keyed {
		cd &= 0x01
	}
	c.s[199] ^= cd
	c.up = false
}

func (c *RefCyclist) doUp(n int, cu byte) []byte {
	if c.keyed {
		c.s[199] ^= cu
	}
	KeccakPBytes(&c.s, 12)
	c.up = true
	return append([]byte{}, c.s[:n]...)
}

func split(x []byte, r int) [][]byte {
	if len(x) == 0 {
		return [][]byte{{}}
	}
	var out [][]byte
	for len(x) > r {
		out = append(out, x[:r])
		x = x[r:]
	}
	return append(out, x)
}

func (c *RefCyclist) absorbAny(x []byte, r int, cd byte) {
	for _, b := range split(x, r) {
		if !c.up {
			c.doUp(0, 0x00)
		}
		c.doDown(b, cd)
		cd = 0x00
	}
}

func (c *RefCyclist) crypt(in []byte, decrypt bool) []byte {
	cu := byte(0x80)
	var out []byte
	for _, b := range split(in, 136) {
		ks := c.doUp(len(b), cu)
		o := make([]byte, len(b))
		for i := range b {
			o[i] = b[i] ^ ks[i]
		}
		if decrypt {
			c.doDown(o, 0x00)
		} else {
			c.doDown(b, 0x00)
		}
		cu = 0x00
		out = append(out, o...)
	}
	return out
}

func (c *RefCyclist) squeezeAny(l int, cu byte) []byte {
	m := l
	if m > c.rS {
		m = c.rS
	}
	y := c.doUp(m, cu)
	for len(y) < l {
		c.doDown(nil, 0x00)
		m = l - len(y)
		if m > c.rS {
			m = c.rS
		}
		y = append(y, c.doUp(m, 0x00)...)
	}
	return y
}

func (c *RefCyclist) Absorb(x []byte)          { c.absorbAny(x, c.rAbs, 0x03) }
func (c *RefCyclist) Encrypt(p []byte) []byte  { return c.crypt(p, false) }
func (c *RefCyclist) Decrypt(ct []byte) []byte { return c.crypt(ct, true) }
func (c *RefCyclist) Squeeze(l int) []byte     { return c.squeezeAny(l, 0x40) }
func (c *RefCyclist) SqueezeKey(l int) []byte  { return c.squeezeAny(l, 0x20) }
func (c *RefCyclist) Ratchet()                 { c.absorbAny(c.squeezeAny(32, 0x10), c.rAbs, 0x00) }
