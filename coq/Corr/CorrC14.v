(* Correspondence entry point for C14: a case is an op list and the Check results the Go
   SlidingWindow returned on it. *)
From Hop Require Import Base Replay.
Open Scope N_scope.
Definition M (c : N) := RMark c.
Definition C (c : N) := RCheck c.
Definition c14_case := (list rop * list bool)%type.
Definition c14_ok (c : c14_case) : bool :=
  beq_list Bool.eqb (run_ops win_init (fst c)) (snd c).
(* accept-history form: counters pushed through a real SessionState.readPacketLocked *)
Definition c14h_case := (list N * list bool)%type.
Definition c14h_ok (c : c14h_case) : bool :=
  beq_list Bool.eqb (run_accept win_init (fst c)) (snd c).
