(* ServerLife.v — interleaving transition system for the transport.Server lifecycle
   (transport/server.go Serve / Close / AcceptTimeout / Accept / finishHandshake, its two worker
   goroutines) and for Handle.ReadMsg / WriteMsg / Close on server handles (transport/handle.go,
   transport/transport.go closeLocked).

   One transition per atomic action, at the granularity of the transport yield points.  The
   critical sections of Server.lifecycleMu (Serve's CompareAndSwap + wg.Add; Close's election loop)
   and of Server.m (finishHandshake; Close's close(pendingConnections) + session snapshot) contain no
   blocking operation and are single transitions; under lifecycleMu the election CompareAndSwap of
   Close cannot fail (the only unlocked state change is Closing -> Closed).  Handshakes completing on
   the receive loop are environment arrivals (any number, any time, or never).  A send on the closed
   pendingConnections channel or a second close of a channel sets [vpanic].
   Definitions only; proofs in Proofs/ServerLifeProofs.v. *)
From Hop Require Import Base ConcBase.
Open Scope nat_scope.

Inductive vstate := VReady | VServing | VClosing | VClosed.
Inductive vop := VServe | VClose | VAccept | VAcceptT | VRead (h : nat) | VWrite (h : nat) | VHClose (h : nat).
Inductive vpc :=
| VIdle
| V_wgwait | V_waitdone                                  (* Serve: s.wg.Wait(); <-s.closeDone *)
| V_conn | V_stop | V_xwg | V_pending | V_handles | V_store | V_signal | V_xwaitdone | V_ret   (* Close *)
| V_aloop | V_asel                                       (* Accept (retries on timeout) / AcceptTimeout *)
| V_read (h : nat)                                       (* Handle.ReadMsg blocked in recv.Recv() *)
| V_wsock (h : nat).                                     (* Handle.send after the closed check *)
(* results: 0 nil, 1 io.EOF, 2 ErrTimeout / "Serve called on non-ready Server", 3 socket error, 100+h a handle *)
Record vthread := mkVT { vprog : list vop; vpcv : vpc; vrets : list (vop * N) }.

Inductive rdpc := RD_none | RD_check | RD_read | RD_done.   (* the receive loop goroutine *)
Inductive ckpc := CK_none | CK_check | CK_sel | CK_done.    (* the cookie rotation goroutine *)

Record vsh := mkV {
  vst : vstate;
  vconn_closed : bool;            (* s.udpConn.Close() happened *)
  vstop_closed : bool;            (* close(s.stopCookieRotate) *)
  vwg : nat;
  rdp : rdpc; ckp : ckpc;
  pend : list nat;                (* s.pendingConnections (handle ids) *)
  pend_cap : nat; pend_closed : bool;
  hclosed : list bool;            (* per created handle: session closed (recv queue closed) *)
  vclose_done : bool; vclose_err : option N; vconn_res : N;
  (* ghosts *)
  vpanic : bool;
  serve_runs : nat;               (* successful CompareAndSwap(Ready, Serving) *)
  vconn_closes : nat;
  offered : list nat              (* handles returned by Accept / AcceptTimeout (and those accepted before the run) *)
}.
Record vst_t := mkVSt { vshd : vsh; vths : list vthread }.

Definition hres (h : nat) : N := N.of_nat (100 + h).
Arguments hres : simpl never.

Definition vgoto (t : vthread) (p : vpc) := mkVT (vprog t) p (vrets t).
Definition vfin (t : vthread) (o : vop) (r : N) := mkVT (vprog t) VIdle (vrets t ++ [(o, r)]).
Definition vstart (t : vthread) (p : vpc) := mkVT (tl (vprog t)) p (vrets t).
Definition vstartfin (t : vthread) (o : vop) (r : N) := mkVT (tl (vprog t)) VIdle (vrets t ++ [(o, r)]).

Definition closing (v : vstate) : bool := match v with VClosing | VClosed => true | _ => false end.

Fixpoint set_nth (l : list bool) (i : nat) : list bool :=
  match l, i with
  | [], _ => []
  | _ :: r, O => true :: r
  | b :: r, S i' => b :: set_nth r i'
  end.
Definition hcl (s : vsh) (h : nat) : bool := nth h (hclosed s) true.      (* unknown handles count as closed *)

Definition with_v (s : vsh) st' cc sc wg' rd' ck' pd pc hc cd ce pn sr ccl off : vsh :=
  mkV st' cc sc wg' rd' ck' pd (pend_cap s) pc hc cd ce (vconn_res s) pn sr ccl off.

(* one atomic action of a caller; tmo = the timer case of AcceptTimeout's select is taken *)
Definition vtstep (tmo : bool) (s : vsh) (t : vthread) : option (vsh * vthread) :=
  match vpcv t with
  | VIdle =>
    match vprog t with
    | [] => None
    | VServe :: _ =>                               (* lifecycleMu: CompareAndSwap(Ready, Serving); wg.Add(2); go ...; go ... *)
      match vst s with
      | VReady => Some (with_v s VServing (vconn_closed s) (vstop_closed s) (vwg s + 2) RD_check CK_check (pend s) (pend_closed s)
                               (hclosed s) (vclose_done s) (vclose_err s) (vpanic s) (S (serve_runs s)) (vconn_closes s) (offered s),
                        vstart t V_wgwait)
      | _ => Some (s, vstartfin t VServe 2)
      end
    | VClose :: _ =>                               (* lifecycleMu: elect or wait *)
      if closing (vst s) then Some (s, vstart t V_xwaitdone)
      else Some (with_v s VClosing (vconn_closed s) (vstop_closed s) (vwg s) (rdp s) (ckp s) (pend s) (pend_closed s)
                        (hclosed s) (vclose_done s) (vclose_err s) (vpanic s) (serve_runs s) (vconn_closes s) (offered s),
                 vstart t V_conn)
    | VAccept :: _ => Some (s, vstart t V_aloop)
    | VAcceptT :: _ => Some (s, vstart t V_asel)
    | VRead h :: _ => Some (s, vstart t (V_read h))
    | VWrite h :: _ => if hcl s h then Some (s, vstartfin t (VWrite h) 1) else Some (s, vstart t (V_wsock h))
    | VHClose h :: _ =>
      Some (with_v s (vst s) (vconn_closed s) (vstop_closed s) (vwg s) (rdp s) (ckp s) (pend s) (pend_closed s)
                   (set_nth (hclosed s) h) (vclose_done s) (vclose_err s) (vpanic s) (serve_runs s) (vconn_closes s) (offered s),
            vstartfin t (VHClose h) 0)
    end
  | V_wgwait => match vwg s with O => Some (s, vgoto t V_waitdone) | S _ => None end
  | V_waitdone => if vclose_done s then Some (s, vfin t VServe 0) else None
  | V_conn =>                                      (* s.closeErr = s.udpConn.Close() *)
    Some (with_v s (vst s) true (vstop_closed s) (vwg s) (rdp s) (ckp s) (pend s) (pend_closed s) (hclosed s) (vclose_done s)
                 (Some (vconn_res s)) (vpanic s) (serve_runs s) (S (vconn_closes s)) (offered s), vgoto t V_stop)
  | V_stop =>                                      (* close(s.stopCookieRotate) *)
    Some (with_v s (vst s) (vconn_closed s) true (vwg s) (rdp s) (ckp s) (pend s) (pend_closed s) (hclosed s) (vclose_done s)
                 (vclose_err s) (vpanic s || vstop_closed s) (serve_runs s) (vconn_closes s) (offered s), vgoto t V_xwg)
  | V_xwg => match vwg s with O => Some (s, vgoto t V_pending) | S _ => None end
  | V_pending =>                                   (* s.m: close(s.pendingConnections); snapshot and clear the sessions *)
    Some (with_v s (vst s) (vconn_closed s) (vstop_closed s) (vwg s) (rdp s) (ckp s) (pend s) true (hclosed s) (vclose_done s)
                 (vclose_err s) (vpanic s || pend_closed s) (serve_runs s) (vconn_closes s) (offered s), vgoto t V_handles)
  | V_handles =>                                   (* for every session: ss.handle.Close() *)
    Some (with_v s (vst s) (vconn_closed s) (vstop_closed s) (vwg s) (rdp s) (ckp s) (pend s) (pend_closed s)
                 (map (fun _ => true) (hclosed s)) (vclose_done s) (vclose_err s) (vpanic s) (serve_runs s) (vconn_closes s) (offered s),
          vgoto t V_store)
  | V_store =>
    Some (with_v s VClosed (vconn_closed s) (vstop_closed s) (vwg s) (rdp s) (ckp s) (pend s) (pend_closed s) (hclosed s)
                 (vclose_done s) (vclose_err s) (vpanic s) (serve_runs s) (vconn_closes s) (offered s), vgoto t V_signal)
  | V_signal =>                                    (* close(s.closeDone) *)
    Some (with_v s (vst s) (vconn_closed s) (vstop_closed s) (vwg s) (rdp s) (ckp s) (pend s) (pend_closed s) (hclosed s)
                 true (vclose_err s) (vpanic s || vclose_done s) (serve_runs s) (vconn_closes s) (offered s), vgoto t V_ret)
  | V_xwaitdone => if vclose_done s then Some (s, vgoto t V_ret) else None
  | V_ret => Some (s, vfin t VClose (match vclose_err s with Some e => e | None => 99 end))
  | V_aloop =>                                     (* Accept: only the channel case ends the loop *)
    match pend s with
    | h :: r => Some (with_v s (vst s) (vconn_closed s) (vstop_closed s) (vwg s) (rdp s) (ckp s) r (pend_closed s) (hclosed s)
                             (vclose_done s) (vclose_err s) (vpanic s) (serve_runs s) (vconn_closes s) (offered s ++ [h]),
                      vfin t VAccept (hres h))
    | [] => if pend_closed s then Some (s, vfin t VAccept 1) else None
    end
  | V_asel =>
    if tmo then Some (s, vfin t VAcceptT 2)
    else match pend s with
         | h :: r => Some (with_v s (vst s) (vconn_closed s) (vstop_closed s) (vwg s) (rdp s) (ckp s) r (pend_closed s) (hclosed s)
                                  (vclose_done s) (vclose_err s) (vpanic s) (serve_runs s) (vconn_closes s) (offered s ++ [h]),
                           vfin t VAcceptT (hres h))
         | [] => if pend_closed s then Some (s, vfin t VAcceptT 1) else None
         end
  | V_read h => if hcl s h then Some (s, vfin t (VRead h) 1) else None
  | V_wsock h =>                                   (* WriteMsgUDP; on error: go handle.Close() (folded in) *)
    if vconn_closed s then
      Some (with_v s (vst s) (vconn_closed s) (vstop_closed s) (vwg s) (rdp s) (ckp s) (pend s) (pend_closed s)
                   (set_nth (hclosed s) h) (vclose_done s) (vclose_err s) (vpanic s) (serve_runs s) (vconn_closes s) (offered s),
            vfin t (VWrite h) 3)
    else Some (s, vfin t (VWrite h) 0)
  end.

Inductive vactor := VT (i : nat) (tmo : bool) | VReader | VHandshake | VCookie | VCookieTick.

Definition vstep (x : vst_t) (a : vactor) : option vst_t :=
  let s := vshd x in
  if vpanic s then None else
  match a with
  | VT i tmo => match nth_error (vths x) i with
                | None => None
                | Some t => match vtstep tmo s t with
                            | None => None
                            | Some (s', t') => Some (mkVSt s' (gupd (vths x) i t'))
                            end
                end
  | VReader =>                                     (* for s.state.Load() == serving { readPacket } ; defer wg.Done() *)
    match rdp s with
    | RD_check => match vst s with
                  | VServing => Some (mkVSt (with_v s (vst s) (vconn_closed s) (vstop_closed s) (vwg s) RD_read (ckp s) (pend s) (pend_closed s)
                                                    (hclosed s) (vclose_done s) (vclose_err s) (vpanic s) (serve_runs s) (vconn_closes s) (offered s)) (vths x))
                  | _ => Some (mkVSt (with_v s (vst s) (vconn_closed s) (vstop_closed s) (pred (vwg s)) RD_done (ckp s) (pend s) (pend_closed s)
                                             (hclosed s) (vclose_done s) (vclose_err s) (vpanic s) (serve_runs s) (vconn_closes s) (offered s)) (vths x))
                  end
    | RD_read => if vconn_closed s then                (* ReadMsgUDP fails *)
                   Some (mkVSt (with_v s (vst s) (vconn_closed s) (vstop_closed s) (vwg s) RD_check (ckp s) (pend s) (pend_closed s)
                                       (hclosed s) (vclose_done s) (vclose_err s) (vpanic s) (serve_runs s) (vconn_closes s) (offered s)) (vths x))
                 else None
    | _ => None
    end
  | VHandshake =>                                  (* a handshake completes: finishHandshake under s.m *)
    match rdp s with
    | RD_read =>
      if vconn_closed s then None
      else match vst s with
           | VServing =>
             let h := length (hclosed s) in
             if Nat.ltb (length (pend s)) (pend_cap s) then
               Some (mkVSt (with_v s (vst s) (vconn_closed s) (vstop_closed s) (vwg s) RD_check (ckp s) (pend s ++ [h]) (pend_closed s)
                                   (hclosed s ++ [false]) (vclose_done s) (vclose_err s) (vpanic s || pend_closed s) (serve_runs s)
                                   (vconn_closes s) (offered s)) (vths x))
             else                                   (* queue full: the session is closed, nothing is offered *)
               Some (mkVSt (with_v s (vst s) (vconn_closed s) (vstop_closed s) (vwg s) RD_check (ckp s) (pend s) (pend_closed s)
                                   (hclosed s ++ [true]) (vclose_done s) (vclose_err s) (vpanic s) (serve_runs s) (vconn_closes s) (offered s)) (vths x))
           | _ =>                                   (* state != serving: io.EOF, nothing created *)
             Some (mkVSt (with_v s (vst s) (vconn_closed s) (vstop_closed s) (vwg s) RD_check (ckp s) (pend s) (pend_closed s)
                                 (hclosed s) (vclose_done s) (vclose_err s) (vpanic s) (serve_runs s) (vconn_closes s) (offered s)) (vths x))
           end
    | _ => None
    end
  | VCookie =>
    match ckp s with
    | CK_check => match vst s with
                  | VServing => Some (mkVSt (with_v s (vst s) (vconn_closed s) (vstop_closed s) (vwg s) (rdp s) CK_sel (pend s) (pend_closed s)
                                                    (hclosed s) (vclose_done s) (vclose_err s) (vpanic s) (serve_runs s) (vconn_closes s) (offered s)) (vths x))
                  | _ => Some (mkVSt (with_v s (vst s) (vconn_closed s) (vstop_closed s) (pred (vwg s)) (rdp s) CK_done (pend s) (pend_closed s)
                                             (hclosed s) (vclose_done s) (vclose_err s) (vpanic s) (serve_runs s) (vconn_closes s) (offered s)) (vths x))
                  end
    | CK_sel => if vstop_closed s then
                  Some (mkVSt (with_v s (vst s) (vconn_closed s) (vstop_closed s) (pred (vwg s)) (rdp s) CK_done (pend s) (pend_closed s)
                                      (hclosed s) (vclose_done s) (vclose_err s) (vpanic s) (serve_runs s) (vconn_closes s) (offered s)) (vths x))
                else None
    | _ => None
    end
  | VCookieTick =>
    match ckp s with
    | CK_sel => Some (mkVSt (with_v s (vst s) (vconn_closed s) (vstop_closed s) (vwg s) (rdp s) CK_check (pend s) (pend_closed s)
                                    (hclosed s) (vclose_done s) (vclose_err s) (vpanic s) (serve_runs s) (vconn_closes s) (offered s)) (vths x))
    | _ => None
    end
  end.

Fixpoint vrun (x : vst_t) (l : list vactor) : option vst_t :=
  match l with
  | [] => Some x
  | a :: r => match vstep x a with Some x' => vrun x' r | None => None end
  end.

(* NewServer; nh sessions were established and accepted before the run (when serving) *)
Definition vsh_init (serving : bool) (nh cap : nat) (cres : N) : vsh :=
  if serving then mkV VServing false false 2 RD_check CK_check [] cap false (repeat false nh) false None cres false 1 0 (seq 0 nh)
  else mkV VReady false false 0 RD_none CK_none [] cap false [] false None cres false 0 0 [].
Definition vinit serving nh cap cres (progs : list (list vop)) : vst_t :=
  mkVSt (vsh_init serving nh cap cres) (map (fun p => mkVT p VIdle []) progs).
Definition vreachable sv nh cap cres progs (x : vst_t) : Prop := exists l, vrun (vinit sv nh cap cres progs) l = Some x.

Definition vbackground (a : vactor) : bool := match a with VHandshake | VCookieTick => true | _ => false end.
Definition vquiescent (x : vst_t) : Prop := forall a, vbackground a = false -> vstep x a = None.
Definition vfinished (t : vthread) : bool := match vpcv t, vprog t with VIdle, [] => true | _, _ => false end.
