(* Correspondence entry points for C18: all checkers live in WireCorr.v (shared with C11). *)
From Hop Require Export WireCorr.
