From Hop Require Import Base WireBase WireCert WireMsg WireFrame.
Theorem c18_placeholder : enc_wstring [] = Ok [0].
Proof. reflexivity. Qed.
Print Assumptions c18_placeholder.
