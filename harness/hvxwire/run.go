package hvxwire

import (
	"fmt"
	"sort"
	"strconv"
	"strings"

	"verifharness/hv"
)

// Observation codes shared with the Coq side: 0 ok, 1 error, 2 panic.
const (
	OK    = 0
	ERR   = 1
	PANIC = 2
)

type EncObs struct {
	Bytes []byte
	Code  int
	Msg   string
}

type DecObs struct {
	V    Value
	Rem  int
	Code int
	Msg  string
}

// RunEnc calls the real encoder; a Go panic is an observation.
func RunEnc(f *Format, v Value) (o EncObs) {
	p, msg := hv.Catch(func() {
		b, ok := f.Enc(v)
		if ok {
			o = EncObs{Bytes: b, Code: OK}
		} else {
			o = EncObs{Code: ERR}
		}
	})
	if p {
		o = EncObs{Code: PANIC, Msg: msg}
	}
	return
}

// RunDecAlloc is RunDec plus the bytes the decoder call allocated (setup excluded when the
// format has a Prep).
func RunDecAlloc(f *Format, b []byte) (o DecObs, alloc uint64) {
	call := func() (Value, int, bool) { return f.Dec(b) }
	if f.Prep != nil {
		var prepared func() (Value, int, bool)
		if p, msg := hv.Catch(func() { prepared = f.Prep(b) }); p {
			return DecObs{V: f.Zero(), Code: PANIC, Msg: "setup: " + msg}, 0
		}
		call = prepared
	}
	alloc = MeasureAlloc(func() {
		p, msg := hv.Catch(func() {
			v, rem, ok := call()
			if ok {
				o = DecObs{V: v, Rem: rem, Code: OK}
			} else {
				o = DecObs{V: f.Zero(), Rem: rem, Code: ERR}
			}
		})
		if p {
			o = DecObs{V: f.Zero(), Code: PANIC, Msg: msg}
		}
	})
	return
}

// RunDec calls the real decoder on a stream holding exactly b.
func RunDec(f *Format, b []byte) (o DecObs) {
	p, msg := hv.Catch(func() {
		v, rem, ok := f.Dec(b)
		if ok {
			o = DecObs{V: v, Rem: rem, Code: OK}
		} else {
			o = DecObs{V: f.Zero(), Rem: rem, Code: ERR}
		}
	})
	if p {
		o = DecObs{V: f.Zero(), Code: PANIC, Msg: msg}
	}
	return
}

var boundaryBytes = []byte{0, 1, 2, 3, 4, 5, 6, 0x7f, 0x80, 0xfd, 0xfe, 0xff}

// Mutations derives malformed / alternative inputs from a valid encoding: truncations,
// single-byte replacements (all positions of short inputs and of the header, `hot` offsets
// of length/enum fields, some random ones), junk appended.
func Mutations(r *hv.Rand, b []byte, hot []int, budget int) [][]byte {
	var out [][]byte
	add := func(x []byte) {
		if len(out) < budget*4 {
			out = append(out, x)
		}
	}
	cp := func() []byte { return append([]byte(nil), b...) }
	// truncations
	if len(b) <= 32 {
		for i := 0; i < len(b); i++ {
			add(cp()[:i])
		}
	} else {
		for _, i := range []int{0, 1, 2, 3, 4, 5, len(b) - 1, len(b) - 2, len(b) / 2} {
			add(cp()[:i])
		}
		for k := 0; k < 4; k++ {
			add(cp()[:r.Intn(len(b))])
		}
		for _, h := range hot {
			if h >= 0 && h < len(b) {
				add(cp()[:h])
				add(cp()[:h+1])
			}
		}
	}
	// replacements
	pos := map[int]bool{}
	for i := 0; i < len(b) && i < 12; i++ {
		pos[i] = true
	}
	for _, h := range hot {
		if h >= 0 && h < len(b) {
			pos[h] = true
		}
	}
	for k := 0; k < 6 && len(b) > 0; k++ {
		pos[r.Intn(len(b))] = true
	}
	var order []int
	for p := range pos {
		order = append(order, p)
	}
	sort.Ints(order) // map iteration order must not decide which random draw goes where
	for _, p := range order {
		for k := 0; k < 3; k++ {
			x := cp()
			nb := hv.Pick(r, boundaryBytes)
			if k == 1 {
				nb = x[p] + 1
			} else if k == 2 {
				nb = x[p] - 1
			}
			if nb == x[p] {
				nb ^= 0x40
			}
			x[p] = nb
			add(x)
		}
	}
	// junk appended (decoders must leave it unread)
	add(append(cp(), r.Bytes(1+r.Intn(5))...))
	add(append(cp(), b...))
	sortBytes(out)
	// sample down to the budget
	for len(out) > budget {
		i := r.Intn(len(out))
		out[i] = out[len(out)-1]
		out = out[:len(out)-1]
	}
	return out
}

func sortBytes(xs [][]byte) {
	less := func(a, b []byte) bool {
		if len(a) != len(b) {
			return len(a) < len(b)
		}
		for i := range a {
			if a[i] != b[i] {
				return a[i] < b[i]
			}
		}
		return false
	}
	// insertion sort is fine at these sizes (a few hundred)
	for i := 1; i < len(xs); i++ {
		for j := i; j > 0 && less(xs[j], xs[j-1]); j-- {
			xs[j], xs[j-1] = xs[j-1], xs[j]
		}
	}
}

// HotOffsets returns the offsets of length / enum / boundary-checked fields inside the valid
// encoding b of v, so that mutations reach every rejecting branch of the nested decoders.
func HotOffsets(f *Format, v Value, b []byte) []int {
	certHot := func(base int, n int) []int {
		return []int{base, base + 1, base + 2, base + 3, base + 4, base + 5, base + 11, base + 12, base + 13, base + 19,
			base + 84, base + 85, base + 86, base + 87, base + 88, base + n - 64, base + n - 65}
	}
	switch f.Name {
	case "chunk":
		hot := []int{0, 1}
		off := 2
		for i := 0; off+2 < len(b) && i < 400; i++ {
			if i < 4 || off+3+int(b[off+2]) >= len(b) {
				hot = append(hot, off, off+1, off+2)
			}
			off += 3 + int(b[off+2])
		}
		return hot
	case "cert":
		return certHot(0, len(b))
	case "intent", "agmsg":
		base := 0
		if f.Name == "agmsg" {
			if len(b) < 30 {
				return []int{0, 1}
			}
			base = 1
		}
		if len(b) < base+24 {
			return nil
		}
		hot := []int{0, base, base + 1, base + 2, base + 3, base + 4, base + 11, base + 12, base + 19, base + 20, base + 21, base + 22}
		u := base + 23 + int(b[base+22])
		if u >= len(b) {
			return hot
		}
		c := u + 1 + int(b[u])
		hot = append(hot, u)
		if c+86 < len(b) {
			chunkLen := int(b[c+84])<<8 | int(b[c+85])
			certLen := 84 + chunkLen + 64
			hot = append(hot, certHot(c, certLen)...)
			hot = append(hot, c+certLen, c+certLen+1)
		}
		return hot
	}
	return nil
}

// Pattern fills n bytes with the arithmetic progression start, start+7, ... (mod 256). Large
// inputs are built from it so that CoqBytes can print them compactly: coqc overflows its stack
// on string literals of ~100 k characters.
func Pattern(n int, start byte) []byte { return PatternD(n, start, 7) }

// PatternD is Pattern with an arbitrary step.
func PatternD(n int, start, delta byte) []byte {
	b := make([]byte, n)
	for i := range b {
		b[i] = start + delta*byte(i)
	}
	return b
}

// ib prints bytes as (ib n [i0; i1; ...]%uint63) of Corr/CorrBytes.v: 7 bytes per primitive
// 63-bit integer, little endian; parsed natively by Coq (string literals are interpreted by
// reduction and cost ~0.1 ms per character).
func ib(b []byte) string {
	var sb strings.Builder
	sb.WriteString("(ib ")
	sb.WriteString(strconv.Itoa(len(b)))
	sb.WriteString(" [")
	for i := 0; i < len(b); i += 7 {
		var v uint64
		for j := 0; j < 7 && i+j < len(b); j++ {
			v |= uint64(b[i+j]) << (8 * uint(j))
		}
		if i > 0 {
			sb.WriteString(";")
		}
		sb.WriteString(strconv.FormatUint(v, 10))
	}
	sb.WriteString("]%uint63)")
	return sb.String()
}

// CoqBytes prints a byte string as a Coq term of type bytes: (ib ..) literals, and
// (pat n start delta) for constant-delta runs of 16 bytes and more.
func CoqBytes(b []byte) string {
	if len(b) < 16 {
		return ib(b)
	}
	var parts []string
	var lit []byte
	flush := func() {
		if len(lit) > 0 {
			parts = append(parts, ib(lit))
			lit = nil
		}
	}
	for i := 0; i < len(b); {
		run := 1
		var d byte
		if i+1 < len(b) {
			d = b[i+1] - b[i]
			j := i + 1
			for j+1 < len(b) && b[j+1]-b[j] == d {
				j++
			}
			run = j - i + 1
		}
		if run >= 16 {
			flush()
			parts = append(parts, fmt.Sprintf("(pat %d %d %d)", run, b[i], d))
			i += run
		} else {
			lit = append(lit, b[i])
			i++
		}
	}
	flush()
	if len(parts) == 1 {
		return parts[0]
	}
	return "(" + strings.Join(parts, " ++ ") + ")"
}

// CoqStr is CoqBytes for Go strings.
func CoqStr(s string) string { return CoqBytes([]byte(s)) }
