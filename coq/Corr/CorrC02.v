(* Correspondence entry points for C02: the shared handshake checkers (Corr/HsCorr.v). *)
From Hop Require Export HsCorr.
