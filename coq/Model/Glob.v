(* Glob.v — C20: model of pkg/glob/glob.go Glob (after the `fix:` commit: last-star backtracking
   loop), of config.ClientConfig.MatchHost (+ the fields of HostConfigOptional.MergeWith that make
   the set of applied blocks observable) and of hopserver.VirtualHosts.Match; the declarative
   specification `matches`; and `glob_old`, the loop as it was before the fix (kept only so that
   Properties/C20.v can show what was wrong with it).
   Definitions only.  Go strings are byte strings: `bytes`; '*' is byte 42.  Indices are `nat`
   (Go `int`; every index stays <= len, so no width matters).  A Go index expression is `rd`,
   which yields `Panic` when out of range: the length guards are written separately, exactly where
   the Go code has them, so a model without a guard would panic where the code would. *)
From Hop Require Import Base.
Open Scope N_scope.

Definition star : N := 42.

(* pattern[i] / input[j] : bounds-checked read *)
Definition rd (l : bytes) (i : nat) : res N :=
  match nth_error l i with Some b => Ok b | None => Panic end.

(* ------------------------------------------------------------------ specification *)

(* `matches pat inp`: inp is pat with every '*' replaced by some (possibly empty) string and every
   other byte kept. *)
Inductive matches : bytes -> bytes -> Prop :=
| m_nil : matches [] []
| m_lit c p s : c <> star -> matches p s -> matches (c :: p) (c :: s)
| m_star p s1 s2 : matches p s2 -> matches (star :: p) (s1 ++ s2).

(* The statement's wording made literal: substitute the strings `fills` for the stars, in order. *)
Fixpoint instantiate (p : bytes) (fills : list bytes) : option bytes :=
  match p with
  | [] => match fills with [] => Some [] | _ => None end
  | c :: p' =>
      if c =? star then
        match fills with
        | f :: fs => option_map (app f) (instantiate p' fs)
        | [] => None
        end
      else option_map (cons c) (instantiate p' fills)
  end.

(* a structurally recursive decider of `matches` (tries every split at a star) *)
Fixpoint matches_b (p s : bytes) : bool :=
  match p with
  | [] => match s with [] => true | _ => false end
  | c :: p' =>
      if c =? star then
        (fix try (s : bytes) : bool :=
           matches_b p' s || match s with [] => false | _ :: s' => try s' end) s
      else match s with
           | [] => false
           | d :: s' => (c =? d) && matches_b p' s'
           end
  end.

(* ------------------------------------------------------------------ glob.Glob (fixed code) *)

(* loop variables: i, j, star (None = -1), mark *)
Record gst := mkG { g_i : nat; g_j : nat; g_star : option nat; g_mark : nat }.

Inductive gnext :=
| Continue (s : gst)       (* next iteration *)
| ReturnFalse              (* `return false` inside the loop *)
| LoopExit (i : nat).      (* loop condition j < len(input) false; i is live afterwards *)

(* one evaluation of the loop condition and body of
     for j < len(input) {
       if i < len(pattern) && pattern[i] == '*' { star = i; mark = j; i++ }
       else if i < len(pattern) && pattern[i] == input[j] { i++; j++ }
       else if star >= 0 { mark++; i = star + 1; j = mark }
       else { return false } }                                                        *)
Definition glob_body (pat inp : bytes) (s : gst) : res gnext :=
  let '(mkG i j st mark) := s in
  if (j <? List.length inp)%nat then
    c1 <- (if (i <? List.length pat)%nat then pc <- rd pat i ;; Ok (pc =? star) else Ok false) ;;
    if c1 then Ok (Continue (mkG (i + 1) j (Some i) j))
    else
      c2 <- (if (i <? List.length pat)%nat then pc <- rd pat i ;; sc <- rd inp j ;; Ok (pc =? sc) else Ok false) ;;
      if c2 then Ok (Continue (mkG (i + 1) (j + 1) st mark))
      else match st with
           | Some k => Ok (Continue (mkG (k + 1) (mark + 1) st (mark + 1)))
           | None => Ok ReturnFalse
           end
  else Ok (LoopExit i).

(* the loop; `Err` = fuel exhausted (Glob itself has no error result). result: None = returned
   false from inside the loop, Some i = fell out of the loop with this i *)
Fixpoint glob_loop (fuel : nat) (pat inp : bytes) (s : gst) : res (option nat) :=
  match fuel with
  | O => Err
  | S fuel' =>
      n <- glob_body pat inp s ;;
      match n with
      | Continue s' => glob_loop fuel' pat inp s'
      | ReturnFalse => Ok None
      | LoopExit i => Ok (Some i)
      end
  end.

(* for i < len(pattern) && pattern[i] == '*' { i++ } *)
Fixpoint skip_stars (fuel : nat) (pat : bytes) (i : nat) : res nat :=
  match fuel with
  | O => Err
  | S fuel' =>
      if (i <? List.length pat)%nat then
        pc <- rd pat i ;;
        if pc =? star then skip_stars fuel' pat (i + 1) else Ok i
      else Ok i
  end.

Definition glob_fuel (pat inp : bytes) : nat := ((List.length inp + 1) * (List.length pat + 1) + 1)%nat.

Definition glob (pat inp : bytes) : res bool :=
  r <- glob_loop (glob_fuel pat inp) pat inp (mkG 0 0 None 0) ;;
  match r with
  | None => Ok false
  | Some i => i' <- skip_stars (List.length pat + 1) pat i ;; Ok (i' =? List.length pat)%nat
  end.

(* ------------------------------------------------------------------ config.MatchHost *)

(* The fields of HostConfigOptional that the model carries: Patterns, and one field of each kind of
   merge rule in MergeWith — CAFiles (appended), Hostname and User (pointer to string: overwritten when the
   other block sets it), Port (int: overwritten when non-zero).  Patterns are not merged. *)
Record hblock := mkHB {
  hb_pats : list bytes;
  hb_ca : list bytes;
  hb_hostname : option bytes;
  hb_user : option bytes;
  hb_port : N }.

Definition or_else {A} (o acc : option A) : option A :=
  match o with Some _ => o | None => acc end.

(* hc.MergeWith(other) *)
Definition merge (hc other : hblock) : hblock :=
  mkHB (hb_pats hc)
       (hb_ca hc ++ hb_ca other)
       (or_else (hb_hostname other) (hb_hostname hc))
       (or_else (hb_user other) (hb_user hc))
       (if hb_port other =? 0 then hb_port hc else hb_port other).

(* for _, pattern := range Patterns { if MatchHostPattern(pattern, inputHost) { …; break } } *)
Fixpoint any_pattern (pats : list bytes) (h : bytes) : res bool :=
  match pats with
  | [] => Ok false
  | p :: r => b <- glob p h ;; if b then Ok true else any_pattern r h
  end.

(* for i := range c.Hosts { … host.MergeWith(&c.Hosts[i]) … } *)
Fixpoint match_host_loop (hosts : list hblock) (h : bytes) (host : hblock) : res hblock :=
  match hosts with
  | [] => Ok host
  | b :: r =>
      m <- any_pattern (hb_pats b) h ;;
      match_host_loop r h (if m then merge host b else host)
  end.

Definition match_host (global : hblock) (hosts : list hblock) (h : bytes) : res hblock :=
  match_host_loop hosts h global.

(* specification side: the blocks that have some matching pattern, in configuration order *)
Definition block_matches (h : bytes) (b : hblock) : Prop :=
  exists p, In p (hb_pats b) /\ matches p h.

Inductive selected (h : bytes) : list hblock -> list hblock -> Prop :=
| sel_nil : selected h [] []
| sel_in b r l : block_matches h b -> selected h r l -> selected h (b :: r) (b :: l)
| sel_out b r l : ~ block_matches h b -> selected h r l -> selected h (b :: r) l.

(* last block of l that sets the field, else the default *)
Definition last_set {A} (f : hblock -> option A) (l : list hblock) (dflt : option A) : option A :=
  fold_left (fun acc b => or_else (f b) acc) l dflt.

(* ------------------------------------------------------------------ hopserver.VirtualHosts.Match *)

(* for i := range vhosts { if glob.Glob(vhosts[i].Pattern, name) { return &vhosts[i] } }; return nil
   — the result is the index (None = nil) *)
Fixpoint vhost_match_from (k : nat) (pats : list bytes) (name : bytes) : res (option nat) :=
  match pats with
  | [] => Ok None
  | p :: r => b <- glob p name ;; if b then Ok (Some k) else vhost_match_from (S k) r name
  end.
Definition vhost_match (pats : list bytes) (name : bytes) : res (option nat) :=
  vhost_match_from O pats name.

(* ------------------------------------------------------------------ the loop before the fix *)

(*  i := 0; j := 0; asterisk := false
    for i < len(pattern) {
      if pattern[i] == '*' { asterisk = true; i++ }
      else { match := pattern[i] == input[j]              // no guard on j
             if !asterisk && !match { return false }
             if match { i++ }
             if asterisk && match { asterisk = false }
             j++ }
      if j >= len(input) { break } }
    return i == len(pattern) && (asterisk || j == len(input))                          *)
Fixpoint glob_old_loop (fuel : nat) (pat inp : bytes) (i j : nat) (ast : bool)
  : res (option (nat * nat * bool)) :=
  match fuel with
  | O => Err
  | S fuel' =>
      if (i <? List.length pat)%nat then
        pc <- rd pat i ;;
        if pc =? star then
          if (List.length inp <=? j)%nat then Ok (Some ((i + 1)%nat, j, true))
          else glob_old_loop fuel' pat inp (i + 1) j true
        else
          sc <- rd inp j ;;
          let m := pc =? sc in
          if negb ast && negb m then Ok None
          else
            let i' := if m then (i + 1)%nat else i in
            let ast' := if ast && m then false else ast in
            if (List.length inp <=? j + 1)%nat then Ok (Some (i', (j + 1)%nat, ast'))
            else glob_old_loop fuel' pat inp i' (j + 1) ast'
      else Ok (Some (i, j, ast))
  end.

Definition glob_old (pat inp : bytes) : res bool :=
  r <- glob_old_loop (List.length pat + List.length inp + 1) pat inp 0 0 false ;;
  match r with
  | None => Ok false
  | Some (i, j, ast) => Ok ((i =? List.length pat)%nat && (ast || (j =? List.length inp)%nat))
  end.
