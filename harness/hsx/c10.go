package hsx

import (
	"bytes"
	"crypto/rand"
	"encoding/binary"
	"fmt"
	"net"
	"time"

	"hop.computer/hop/certs"
	"hop.computer/hop/config"
	"hop.computer/hop/hopserver"
	"hop.computer/hop/keys"
	"hop.computer/hop/transport"
	"verifharness/hv"
)

// junk derived from a valid message: truncations, extensions, type rewrites, header and
// length-field changes, one byte changed at every field boundary.
func junkFrom(base []byte, bounds []int, thorough bool) [][]byte {
	var out [][]byte
	add := func(x []byte) { out = append(out, x) }
	L := len(base)
	lens := map[int]bool{}
	for _, n := range []int{0, 1, 2, 3, 4, 5, 7, 8, 9, 23, 24, 25, 39, 40, 41, 47, 48, L - 33, L - 32, L - 17, L - 16, L - 15, L - 2, L - 1} {
		lens[n] = true
	}
	for _, b := range bounds {
		lens[b-1], lens[b], lens[b+1] = true, true, true
	}
	if thorough {
		for n := 0; n < L; n++ {
			lens[n] = true
		}
	}
	for n := 0; n < L; n++ {
		if lens[n] {
			add(append([]byte(nil), base[:n]...))
		}
	}
	for _, k := range []int{1, 16, 17, 64} {
		add(append(append([]byte(nil), base...), make([]byte, k)...))
	}
	mod := func(off int, v byte) {
		if off < L && base[off] != v {
			x := append([]byte(nil), base...)
			x[off] = v
			add(x)
		}
	}
	for _, t := range []byte{0, 1, 2, 3, 4, 5, 6, 8, 9, 0x10, 0x20, 0x80, 0xff} {
		mod(0, t)
	}
	for _, off := range []int{1, 2, 3} {
		for _, v := range []byte{0, 1, 2, 0x7f, 0xff} {
			mod(off, v)
		}
		mod(off, base[off]+1)
		mod(off, base[off]-1)
	}
	for _, b := range bounds {
		for _, off := range []int{b - 1, b} {
			if off >= 4 && off < L {
				mod(off, base[off]^1)
				mod(off, base[off]^0x80)
			}
		}
	}
	mod(L-1, base[L-1]^1)
	return out
}

func garbage(r *hv.Rand) [][]byte {
	var out [][]byte
	for _, n := range []int{0, 1, 3, 4, 5, 8, 47, 48, 100, 819, 820, 821, 1171, 1172, 1173, 1500, 65535} {
		out = append(out, make([]byte, n), bytes.Repeat([]byte{0xff}, n))
		for _, t := range []byte{1, 3, 5, 8, 0x10} { // right type byte, everything else constant
			if n > 0 {
				x := bytes.Repeat([]byte{0x01}, n)
				x[0] = t
				out = append(out, x)
			}
		}
		if n <= 100 {
			out = append(out, r.Bytes(n))
		}
	}
	return out
}

// liveHeader: datagrams that copy the public header (type, session id) of a live session.
func liveHeader(sid transport.SessionID, r *hv.Rand) [][]byte {
	var out [][]byte
	for _, t := range []byte{0x10, 0x80, 0x20, 0x11, 0x90} {
		for _, n := range []int{0, 1, 7, 8, 15, 16, 31, 39, 40, 41, 47, 48, 49, 200} {
			x := append([]byte{t, 0, 0, 0}, sid[:]...)
			out = append(out, append(x, r.Bytes(n)...))
		}
		out = append(out, append([]byte{t, 1, 0, 0}, sid[:]...))
	}
	return out
}

type c10cfg struct {
	name   string
	hidden bool
	mk     func() (*Srv, []*Ident)
}

func (w *World) c10configs() []c10cfg {
	cv := w.P.Verify(PolStore, "", nil, false)
	id2 := w.P.Issue("server-two", "two.example")
	id3 := w.P.Issue("server-three", "three.example")
	ids := []*Ident{w.Srv, id2, id3}
	pats := []string{"srv.example", "two.*", "*"}
	names := []string{"srv.example", "two.example", "three.example"}
	return []c10cfg{
		{"1cert-discoverable", false, func() (*Srv, []*Ident) { return NewSrv(SingleConfig(w.Srv, cv, false)), []*Ident{w.Srv} }},
		{"3vhosts-discoverable", false, func() (*Srv, []*Ident) { return NewSrv(VHostConfig(pats, ids, nil, cv)), ids }},
		{"1cert-hidden", true, func() (*Srv, []*Ident) { return NewSrv(SingleConfig(w.Srv, cv, true)), []*Ident{w.Srv} }},
		{"3vhosts-hidden", true, func() (*Srv, []*Ident) { return NewSrv(VHostConfig(pats, ids, names, cv)), ids }},
	}
}

// connect runs a complete honest white-box handshake through the recorded sequence.
func (w *World) connect(q *Seq, cfg c10cfg, id *Ident, addr *net.UDPAddr) (*Conn, *WB, *HWB, error) {
	ccfg := w.Cli.ClientConfig(w.P.Verify(PolStore, id.Leaf.IDChunk.Blocks[0].String(), nil, false))
	del := func(from *net.UDPAddr, d []byte, what string) []Dgram { out, _ := q.Step(from, d, what, nil); return out }
	if cfg.hidden {
		ccfg.ServerKEMKey = &id.KEM.Public
		hw, err := NewHWBReq(q.Srv, ccfg, addr)
		if err != nil {
			return nil, nil, nil, err
		}
		out, _ := q.Step(addr, hw.Req, "HiddenRequest", func(ct []byte) []byte {
			k, _ := hw.HS.VerifHsKEMEphemeral().Decapsulate(ct)
			return k
		})
		if _, err := hw.finish(out); err != nil {
			return nil, nil, hw, err
		}
		c, err := hw.Complete()
		return c, nil, hw, err
	}
	wb, err := NewWBVia(q.Srv, del, ccfg, addr)
	if err != nil {
		return nil, wb, nil, err
	}
	c, err := wb.Complete(del)
	return c, wb, nil, err
}

// probe: the connection's next message reaches the application through the accepted handle, and
// the handle's reply opens under the client's key.
func (w *World) probe(q *Seq, c *Conn, h *transport.Handle) (string, bool) {
	if h == nil {
		return "Accept returned no handle", false
	}
	msg := []byte(fmt.Sprintf("probe-%d", c.Count))
	q.Step(c.Addr, c.Packet(msg), "probe-data", nil)
	buf := make([]byte, 200)
	h.SetReadDeadline(time.Now().Add(20 * time.Millisecond))
	n, err := h.ReadMsg(buf)
	if err != nil || !bytes.Equal(buf[:n], msg) {
		return fmt.Sprintf("client data not delivered (%v)", err), false
	}
	if err := h.WriteMsg([]byte("pong")); err != nil {
		return "handle write failed", false
	}
	sent := q.Srv.Conn.TakeSent()
	if len(sent) != 1 {
		return "handle sent no packet", false
	}
	pt, err := transport.VerifHsOpen(c.SID, c.S2C, sent[0].Data)
	if err != nil || string(pt) != "pong" {
		return fmt.Sprintf("server data does not open under the client's key (%v)", err), false
	}
	return "", true
}

// C10Server: junk bursts against a server in every state and configuration; after each burst a
// fresh honest handshake and probe messages. The whole run is one model-compared sequence.
func (w *World) C10Server(r *hv.Rand) {
	thorough := hv.Thorough()
	for _, cfg := range w.c10configs() {
		states := []string{"idle", "mid-handshake", "established"}
		if cfg.hidden {
			states = []string{"idle", "established"}
		}
		// valid messages of this configuration, from a scratch server of the same kind
		ssrv, sids := cfg.mk()
		sq := NewSeq(ssrv, sids, cfg.hidden)
		var bases [][]byte
		var bounds [][]int
		sc, swb, shw, err := w.connect(sq, cfg, sids[len(sids)-1], w.NextAddr())
		if err != nil {
			// not even an undisturbed handshake works on this configuration: report it with the steps
			sq.Emit("junk-burst/"+cfg.name+"/no-junk", cfg.name+" server: an honest handshake with the last configured certificate, no junk at all",
				false, "C10:honest-handshake-fails", fmt.Sprint("an honest handshake failed: ", err), true)
			continue
		}
		if cfg.hidden {
			L := len(shw.Req) - 1628
			bases = [][]byte{shw.Req, shw.Resp, sc.Packet([]byte("hello"))}
			bounds = [][]int{{4, 804, 1572, 1572 + L, 1588 + L, 1596 + L}, {4, 8, 776}, {4, 8, 16}}
		} else {
			bases = [][]byte{swb.CH, swb.CAck, swb.CAuth, swb.SH, swb.SA, sc.Packet([]byte("hello"))}
			La := len(swb.CAuth) - 40
			bounds = [][]int{{4, 804}, {4, 36, 836, 900, 1156}, {4, 8, 8 + La, 24 + La}, {4, 772, 836}, {4, 8, 40}, {4, 8, 16}}
			// also the other mode's request, which a discoverable server processes too
			hc := cfg
			hc.hidden = true
			if hsrv, hids := w.c10configs()[2].mk(); true {
				hq := NewSeq(hsrv, hids, true)
				if _, _, hw, err := w.connect(hq, hc, hids[0], w.NextAddr()); err == nil {
					bases = append(bases, hw.Req)
					bounds = append(bounds, []int{4, 804, 1572})
				}
			}
		}
		for _, state := range states {
			srv, ids := cfg.mk()
			q := NewSeq(srv, ids, cfg.hidden)
			for _, b := range bases {
				q.Base(b)
			}
			del := func(from *net.UDPAddr, d []byte, what string) []Dgram { out, _ := q.Step(from, d, what, nil); return out }
			victim := w.NextAddr()
			var vc *Conn
			var vwb *WB
			var vh *transport.Handle
			switch state {
			case "mid-handshake":
				ccfg := w.Cli.ClientConfig(w.P.Verify(PolStore, w.SrvName, nil, false))
				vwb, err = NewWBVia(srv, del, ccfg, victim)
				if err != nil {
					q.Emit("junk-burst/"+cfg.name+"/"+state, cfg.name+" server: the victim's handshake before any junk", false, "C10:honest-handshake-fails", fmt.Sprint(err), true)
					continue
				}
			case "established":
				vc, _, _, err = w.connect(q, cfg, ids[0], victim)
				if err != nil {
					q.Emit("junk-burst/"+cfg.name+"/"+state, cfg.name+" server: the victim's handshake before any junk", false, "C10:honest-handshake-fails", fmt.Sprint(err), true)
					continue
				}
				vh = q.Accept()
			}
			// the bursts: from a stranger's address, and (copying the live address) from the victim's
			total := 0
			ok, what := true, ""
			for bi, base := range bases {
				junk := junkFrom(base, bounds[bi], thorough)
				if bi == 0 {
					junk = append(junk, garbage(r)...)
					if vc != nil {
						junk = append(junk, liveHeader(vc.SID, r)...)
					}
					if vwb != nil {
						var sid transport.SessionID
						copy(sid[:], vwb.SA[4:8])
						junk = append(junk, liveHeader(sid, r)...)
						// well-formed transport / control packets for the PENDING session, sealed under keys
						// anybody can try (all-zero, all-ones, random): the session has no keys yet
						var zero, ones, rnd [16]byte
						for i := range ones {
							ones[i] = 0xff
						}
						copy(rnd[:], r.Bytes(16))
						for _, k := range [][16]byte{zero, ones, rnd} {
							for _, cnt := range []uint64{0, 1, 7} {
								for _, mt := range []transport.MessageType{transport.MessageTypeTransport, transport.MessageTypeControl} {
									if p, err := transport.VerifHsSeal(sid, k, cnt, mt, []byte{1}); err == nil {
										junk = append(junk, p)
									}
								}
							}
						}
					}
				}
				total += len(junk)
				stranger := w.NextAddr()
				for i, j := range junk {
					from := stranger
					// a ClientAuth-typed datagram from the address of a pending handshake is absorbed
					// into its transcript before it is rejected: that handshake is lost (noted in
					// docs/C10.md); the burst spares the victim's address that one type
					if state != "idle" && i%3 == 2 && !(state == "mid-handshake" && len(j) > 0 && j[0] == 5) {
						from = victim
					}
					q.Step(from, j, "junk", nil)
				}
				// after each burst: the earlier session still works
				if ok && vc != nil {
					if msg, good := w.probe(q, vc, vh); !good {
						ok, what = false, fmt.Sprintf("after the burst derived from message #%d the earlier session no longer works: %s", bi, msg)
					}
				}
			}
			if ok && state == "mid-handshake" {
				if c, err := vwb.Complete(del); err != nil {
					ok, what = false, fmt.Sprint("the interrupted handshake could not be completed: ", err)
				} else if msg, good := w.probe(q, c, q.Accept()); !good {
					ok, what = false, "the interrupted handshake completed but the connection does not work: "+msg
				}
			}
			if ok {
				nc, _, _, err := w.connect(q, cfg, ids[len(ids)-1], w.NextAddr())
				if err != nil {
					ok, what = false, fmt.Sprint("after the bursts a fresh honest handshake fails: ", err)
				} else if msg, good := w.probe(q, nc, q.Accept()); !good {
					ok, what = false, "after the bursts a fresh honest connection does not work: "+msg
				}
			}
			q.Emit("junk-burst/"+cfg.name+"/"+state, fmt.Sprintf("%s server, %s, %d junk datagrams derived from %d valid messages, probes after each burst", cfg.name, state, total, len(bases)),
				ok, "C10:endpoint-wedged-after-junk", what, true)
		}
	}
}

// C10Names: a ClientAck with a valid cookie may name any server: the name -> virtual host lookup
// (hopserver.VirtualHosts.Match / glob) must not crash.
func (w *World) C10Names() {
	cfg := w.c10configs()[1]
	names := []string{"", "a", "srv.example", "srv.exampl", "srv.example.", "two.", "two.x", "tw", "*", "**", "t*o", string(bytes.Repeat([]byte("a"), 252)), "\x00", "two.\xff\xfe"}
	srv, ids := cfg.mk()
	q := NewSeq(srv, ids, false)
	ok, what := true, ""
	for _, n := range names {
		v := w.P.Verify(PolSkip, "", nil, false)
		v.Name = RawName(n)
		ccfg := w.Cli.ClientConfig(v)
		_, err := NewWBVia(srv, func(from *net.UDPAddr, d []byte, what string) []Dgram { out, _ := q.Step(from, d, what+"(name="+fmt.Sprintf("%q", n)+")", nil); return out }, ccfg, w.NextAddr())
		_ = err
	}
	nc, _, _, err := w.connect(q, cfg, ids[0], w.NextAddr())
	if err != nil {
		ok, what = false, fmt.Sprint("after the named ClientAcks a fresh honest handshake fails: ", err)
	} else if msg, good := w.probe(q, nc, q.Accept()); !good {
		ok, what = false, msg
	}
	q.Emit("server-name-lookup", fmt.Sprintf("ClientAcks naming %d server names against 3 virtual hosts", len(names)), ok, "C10:endpoint-wedged-after-junk", what, true)
}

// C10Client: junk presented to a client in each state: waiting for ServerHello / ServerAuth /
// hidden response (white box on the readers, model-compared; black box through Client.Handshake),
// and established (through the client's handleSessionMessage), followed by probes.
func (w *World) C10Client(r *hv.Rand) {
	cv := w.P.Verify(PolStore, "", nil, false)
	ccfg := w.Cli.ClientConfig(w.P.Verify(PolStore, w.SrvName, nil, false))
	thorough := hv.Thorough()
	// --- white box
	srv := NewSrv(SingleConfig(w.Srv, cv, false))
	wb, err := NewWB(srv, ccfg, w.NextAddr())
	if err != nil {
		panic(err)
	}
	for _, j := range append(junkFrom(wb.SH, []int{4, 772, 836}, thorough), garbage(r)[:60]...) {
		// the client copies the datagram into its 65535-byte buffer, which still holds the
		// ClientHello it wrote, and hands the WHOLE buffer to readPQServerHello
		buf := make([]byte, 65535)
		copy(buf, wb.CH)
		copy(buf, j)
		n := len(j)
		if n < 852 {
			n = 852
		}
		if n > 2000 {
			continue
		}
		CaseSHBuf(wb.HS, wb.PreSH, buf, n, Meta{Prop: "C10", Class: "client-junk/WaitServerHello",
			Desc: fmt.Sprintf("readPQServerHello on the client buffer after junk %s (%d bytes)", short(j), len(j)), NT: true})
	}
	for _, j := range append(junkFrom(wb.SA, []int{4, 8, 40, len(wb.SA) - 32, len(wb.SA) - 16}, thorough), garbage(r)[:60]...) {
		if len(j) > 2000 {
			continue
		}
		CaseSA(wb.HS, wb.PreSA, j, Meta{Prop: "C10", Class: "client-junk/WaitServerAuth",
			Desc: fmt.Sprintf("readPQServerAuth on junk %s (%d bytes)", short(j), len(j)), MustRej: !bytes.HasPrefix(j, wb.SA),
			Why: "the datagram is not the server's ServerAuth", Sig: "C10:client-accepts-junk", NT: true})
	}
	hsrv := NewSrv(SingleConfig(w.Srv, cv, true))
	hcfg := ccfg
	hcfg.ServerKEMKey = &w.Srv.KEM.Public
	hw, err := NewHWB(hsrv, hcfg, w.NextAddr())
	if err != nil {
		panic(err)
	}
	for _, j := range append(junkFrom(hw.Resp, []int{4, 8, 776, len(hw.Resp) - 32, len(hw.Resp) - 16}, thorough), garbage(r)[:60]...) {
		if len(j) > 2000 {
			continue
		}
		CaseSRH(hw.HS, w.Cli.Key, hw.PreRS, j, Meta{Prop: "C10", Class: "client-junk/WaitHiddenResponse",
			Desc: fmt.Sprintf("readPQServerResponseHidden on junk %s (%d bytes)", short(j), len(j)), MustRej: !bytes.HasPrefix(j, hw.Resp),
			Why: "the datagram is not the server's response", Sig: "C10:client-accepts-junk", NT: true})
	}
	// --- black box: Client.Handshake receives junk instead of (or before) the server's message
	for _, hidden := range []bool{false, true} {
		cfg := ccfg
		s := srv
		nmsg := 2
		if hidden {
			cfg, s, nmsg = hcfg, hsrv, 1
		}
		for idx := 0; idx < nmsg; idx++ {
			var base []byte
			switch {
			case hidden:
				base = hw.Resp
			case idx == 0:
				base = wb.SH
			default:
				base = wb.SA
			}
			junk := append(junkFrom(base, []int{4, 8}, false), garbage(r)[:40]...)
			for _, j := range junk {
				jj := j
				run := RunHandshake(s, cfg, w.NextAddr(), func(dir, i int, d []byte) [][]byte {
					if dir == S2C && i == idx {
						return [][]byte{jj}
					}
					return [][]byte{d}
				})
				ok, sig, what := true, "", ""
				if run.CliPanic {
					ok, sig, what = false, "C10:client-panics-in-handshake", "Client.Handshake panicked"
				} else if run.CliOK() {
					ok, sig, what = false, "C10:client-accepts-junk", "Client.Handshake succeeded although a server message was replaced by junk"
				}
				specCase("C10", fmt.Sprintf("client-junk/Handshake/hidden=%v/msg%d", hidden, idx),
					fmt.Sprintf("Client.Handshake(hidden=%v): server message %d replaced by junk %s (%d bytes)", hidden, idx, short(j), len(j)), ok, sig, what, true)
				run.Close()
			}
		}
	}
	// --- established client: junk through handleSessionMessage, then the connection still works
	for _, hidden := range []bool{false, true} {
		cfg, s := ccfg, srv
		if hidden {
			cfg, s = hcfg, hsrv
		}
		run := RunHandshake(s, cfg, w.NextAddr(), nil)
		if !run.CliOK() || run.Handle == nil {
			panic("C10Client: honest handshake failed")
		}
		ok, id, _, _ := run.Cli.VerifHsSession()
		if !ok {
			panic("no session")
		}
		run.Handle.WriteMsg([]byte("valid"))
		valid := s.Conn.TakeSent()[0].Data
		junk := append(junkFrom(valid, []int{4, 8, 16}, thorough), garbage(r)...)
		junk = append(junk, liveHeader(id, r)...)
		junk = append(junk, wb.SH, wb.SA, hw.Resp, wb.CH)
		pan := 0
		what := ""
		for _, j := range junk {
			jj := j
			if p, msg := hv.Catch(func() { run.Cli.VerifHsClientStep(s.Addr, jj) }); p {
				pan++
				what = fmt.Sprintf("client handleSessionMessage panicked on %s (%d bytes): %s", short(jj), len(jj), msg)
			}
		}
		c2s, s2c := run.Probe(s)
		good, sig := true, ""
		switch {
		case pan > 0:
			good, sig = false, "C10:client-panics-on-session-datagram"
		case !c2s || !s2c:
			good, sig, what = false, "C10:endpoint-wedged-after-junk", fmt.Sprintf("after %d junk datagrams the established connection no longer carries data (c2s=%v s2c=%v)", len(junk), c2s, s2c)
		}
		specCase("C10", fmt.Sprintf("client-junk/established/hidden=%v", hidden), fmt.Sprintf("established client (hidden=%v): %d junk datagrams through handleSessionMessage, then probes", hidden, len(junk)), good, sig, what, true)
		run.Close()
	}
}

// BuildClientAck writes a ClientAck from the layout and schedule of handshake_spec.md for ANY 256-byte
// server-name plaintext, on the state of a white-box client that has read its ServerHello and rekeyed.
func BuildClientAck(hs *transport.VerifHsState, sni []byte) []byte {
	sh := NewShadow(hs.VerifHsDuplex())
	kpub, _ := hs.VerifHsKEMEphemeral().Public.MarshalBinary()
	eph := hs.VerifHsDHEphemeral().Public
	pt := make([]byte, 256)
	copy(pt, sni)
	hdr := []byte{3, 0, 0, 0}
	sh.Absorb(hdr)
	sh.Absorb(eph[:])
	sh.Absorb(kpub)
	sh.Absorb(hs.VerifHsCookie())
	esni := sh.Encrypt(pt)
	mac := sh.Squeeze(16)
	out := append([]byte(nil), hdr...)
	out = append(out, eph[:]...)
	out = append(out, kpub...)
	out = append(out, hs.VerifHsCookie()...)
	out = append(out, esni...)
	return append(out, mac...)
}

func sniBlock(typ byte, label []byte) []byte {
	return append([]byte{byte(len(label) + 3), typ, byte(len(label))}, label...)
}

// C10HopServer: servers constructed by the real hopserver.NewHopServer (its getCert / getAllowedCerts
// closures and VirtualHosts.Match are what a ClientAck's server name reaches) fed correctly MACed
// ClientAcks, behind valid cookies, whose server name is anything at all: any label, any id type byte,
// malformed blocks. Then the usual probe handshake and probe message.
func (w *World) C10HopServer(r *hv.Rand) {
	id2 := w.P.Issue("server-two", "two.example")
	id3 := w.P.Issue("server-three", "three.example")
	type hcfg struct {
		name     string
		named    []*Ident
		pats     []string
		catchAll *Ident
		hidden   []string
		probe    *Ident
		full     bool // the whole set of server names also in the quick tier
	}
	cfgs := []hcfg{
		{"named-only-1vhost", []*Ident{id2}, []string{"two.example"}, nil, nil, id2, hv.Thorough()},
		{"named-only-3vhosts", []*Ident{w.Srv, id2, id3}, []string{"srv.example", "two.*", "three.example"}, nil, nil, id3, true},
		{"catch-all-only", nil, nil, w.Srv, nil, w.Srv, hv.Thorough()},
		{"2vhosts+catch-all", []*Ident{id2, id3}, []string{"two.example", "three.*"}, w.Srv, nil, id2, true},
		{"named-only-3vhosts-hidden", []*Ident{w.Srv, id2, id3}, []string{"srv.example", "two.example", "three.example"}, nil, []string{"srv.example", "two.example", "three.example"}, id3, true},
	}
	// server names: label x id type, and malformed blocks
	var snis [][]byte
	var what []string
	add := func(n string, b []byte) { snis = append(snis, b); what = append(what, n) }
	labels := map[string][]byte{"matching": []byte("two.example"), "non-matching": []byte("nomatch.zz"), "empty": {}, "252 bytes": bytes.Repeat([]byte("a"), 252), "253 bytes (block size wraps to 0)": bytes.Repeat([]byte("b"), 253)}
	for _, ln := range []string{"matching", "non-matching", "empty", "252 bytes", "253 bytes (block size wraps to 0)"} {
		for _, t := range []byte{0, 1, 3, 4, 0x7f, 0xff} {
			add(fmt.Sprintf("%s label, id type %#02x", ln, t), sniBlock(t, labels[ln]))
		}
	}
	for t := 2; t < 256; t += hv.Scale(41, 1) {
		add(fmt.Sprintf("non-matching label, id type %#02x", t), sniBlock(byte(t), []byte("other.zz")))
	}
	add("block size 2", []byte{2, 0, 0})
	add("label length beyond block size", []byte{5, 0, 200, 'x', 'y'})
	add("block size 255, label 252, type 0x7f", append([]byte{255, 0x7f, 252}, bytes.Repeat([]byte("c"), 252)...))
	add("all zero", nil)
	add("all 0xff", bytes.Repeat([]byte{0xff}, 256))
	for _, c := range cfgs {
		sc := &config.ServerConfig{ListenAddress: "127.0.0.1:0", HandshakeTimeout: time.Hour,
			CACerts: []*certs.Certificate{w.P.Root, w.P.Inter}, HiddenModeVHostNames: c.hidden}
		var ids []*Ident
		for i, id := range c.named {
			sc.Names = append(sc.Names, config.NameConfig{Pattern: c.pats[i], Key: id.Key, KEMKey: id.KEM, Certificate: id.Leaf, Intermediate: id.Inter})
			ids = append(ids, id)
		}
		if c.catchAll != nil {
			sc.Key, sc.KEMKey, sc.Certificate, sc.Intermediate = c.catchAll.Key, c.catchAll.KEM, c.catchAll.Leaf, c.catchAll.Inter
			ids = append(ids, c.catchAll)
		}
		hsrv, err := hopserver.NewHopServer(sc)
		if err != nil {
			panic(err)
		}
		srv := NewSrvFrom(hsrv.Server)
		hidden := len(c.hidden) > 0
		q := NewSeq(srv, ids, hidden)
		ccfg := w.Cli.ClientConfig(w.P.Verify(PolSkip, "", nil, false))
		// one client (one ClientHello, printed once) presenting itself from a new address each time
		chs, err := transport.VerifHsNewClientHS(&ccfg, srv.Addr, false)
		if err != nil {
			panic(err)
		}
		buf := make([]byte, 2000)
		n, _ := transport.VerifHsWritePQClientHello(chs, buf)
		hello := append([]byte(nil), buf[:n]...)
		afterHello := chs.VerifHsDuplex()
		q.Base(hello)
		for i, sni := range snis {
			a := w.NextAddr()
			if !c.full && i%4 != 1 && i < len(snis)-5 {
				continue // the reduced set for the simpler configurations (quick tier)
			}
			out, _ := q.Step(a, hello, "ClientHello", nil)
			if hidden {
				// a hidden server ignores ClientHello and ClientAck altogether
				if i > 3 {
					break
				}
				continue
			}
			if len(out) != 1 {
				q.Bad = append(q.Bad, fmt.Sprintf("ClientHello before server name %q got no ServerHello", what[i]))
				break
			}
			chs.VerifHsSetDuplex(afterHello)
			if _, err := transport.VerifHsReadPQServerHello(chs, out[0].Data); err != nil {
				q.Bad = append(q.Bad, fmt.Sprintf("the ServerHello before server name %q does not verify: %v", what[i], err))
				break
			}
			chs.VerifHsRekey(PQName)
			q.Step(a, BuildClientAck(chs, sni), "ClientAck[server name: "+what[i]+"]", nil)
			if len(srv.Panics) > 0 {
				break // the receive goroutine would be dead
			}
		}
		ok, msg := true, ""
		if len(srv.Panics) == 0 {
			cc := c10cfg{name: c.name, hidden: hidden}
			nc, _, _, err := w.connect(q, cc, c.probe, w.NextAddr())
			if err != nil {
				ok, msg = false, fmt.Sprint("after the named ClientAcks a fresh honest handshake fails: ", err)
			} else if m, good := w.probe(q, nc, q.Accept()); !good {
				ok, msg = false, m
			}
		}
		q.Emit("hopserver-built/"+c.name, fmt.Sprintf("hopserver.NewHopServer(%s): ClientAcks behind valid cookies carrying %d server names (labels x id types 0..255, malformed blocks), then probe", c.name, len(snis)),
			ok, "C10:endpoint-wedged-after-junk", msg, true)
	}
}

// ---------------------------------------------------------------- crafted certificate blocks

// certBlocks: plaintexts for the ENCRYPTED certificate block (two length-prefixed vectors: leaf,
// intermediate) whose inner length fields are exact, off by +1 / +2 / +3 / -1, zero, 65535 — for
// either vector — and a few degenerate blocks. The peer that sends them needs no certificate it
// could authenticate with: the block is parsed before any tag or MAC is checked.
func certBlocks(leaf, inter []byte) (blocks [][]byte, names []string) {
	base := vectors(leaf, inter)
	add := func(n string, b []byte) { blocks = append(blocks, b); names = append(names, n) }
	add("well-formed vectors", base)
	setLen := func(off, v int) []byte {
		x := append([]byte(nil), base...)
		x[off], x[off+1] = byte(v>>8), byte(v)
		return x
	}
	for _, d := range []int{1, 2, 3, -1} {
		add(fmt.Sprintf("leaf length field %+d", d), setLen(0, len(leaf)+d))
		add(fmt.Sprintf("intermediate length field %+d", d), setLen(2+len(leaf), len(inter)+d))
		// ... and so that the announced length overshoots the END of the block by d
		add(fmt.Sprintf("leaf vector running %+d past the end of the block", d), setLen(0, len(base)-2+d))
	}
	add("leaf length field 0", setLen(0, 0))
	add("intermediate length field 0", setLen(2+len(leaf), 0))
	add("leaf length field 65535", setLen(0, 65535))
	add("intermediate length field 65535", setLen(2+len(leaf), 65535))
	add("block 00 02 41 (length 2, one byte)", []byte{0, 2, 0x41})
	add("block 00 01 (length 1, no bytes)", []byte{0, 1})
	add("block 00 03 41 42 (length 3, two bytes)", []byte{0, 3, 0x41, 0x42})
	add("leaf only, no intermediate prefix", base[:2+len(leaf)])
	add("leaf and half of the intermediate prefix", base[:3+len(leaf)])
	add("block cut by 1", base[:len(base)-1])
	add("block cut by 2", base[:len(base)-2])
	add("block cut by 3", base[:len(base)-3])
	add("empty block", nil)
	add("one byte", []byte{0})
	return
}

// BuildClientAuth: a ClientAuth on the client's state after it read ServerAuth, with a chosen
// plaintext for the certificate block; correct certificate tag, arbitrary final MAC.
func BuildClientAuth(hs *transport.VerifHsState, pt []byte) []byte {
	sh := NewShadow(hs.VerifHsDuplex())
	sid := hs.VerifHsSessionID()
	hdr := []byte{5, 0, byte(len(pt) >> 8), byte(len(pt))}
	sh.Absorb(hdr)
	sh.Absorb(sid[:])
	ec := sh.Encrypt(pt)
	tag := sh.Squeeze(16)
	out := append(append(append([]byte(nil), hdr...), sid[:]...), ec...)
	out = append(out, tag...)
	return append(out, bytes.Repeat([]byte{0x5a}, 16)...)
}

// BuildHiddenRequestBlock: a hidden request whose certificate block decrypts to pt.
func BuildHiddenRequestBlock(serverKEM *keys.KEMPublicKey, pt []byte) []byte {
	sh := &Shadow{Fps: [][]byte{nil}}
	sh.Reset()
	sh.Absorb([]byte(PQHiddenName))
	sh.Rekey(PQHiddenName)
	eph := must(keys.GenerateKEMKeyPair(rand.Reader))
	kpub, _ := eph.Public.MarshalBinary()
	ct, k, err := keys.Encapsulate(rand.Reader, serverKEM)
	if err != nil {
		panic(err)
	}
	hdr := []byte{8, 1, byte(len(pt) >> 8), byte(len(pt))}
	sh.Absorb(hdr)
	sh.Absorb(kpub)
	sh.Absorb(k)
	ec := sh.Encrypt(pt)
	tag := sh.Squeeze(16)
	tb := make([]byte, 8)
	binary.BigEndian.PutUint64(tb, uint64(time.Now().Unix()))
	ets := sh.Encrypt(tb)
	mac := bytes.Repeat([]byte{0x5a}, 16) // arbitrary: the block is parsed long before the MAC is looked at
	out := append(append(append([]byte(nil), hdr...), kpub...), ct...)
	out = append(out, ec...)
	out = append(out, tag...)
	out = append(out, ets...)
	return append(out, mac...)
}

// C10CraftedCertBlocks: unauthenticated peers whose (encrypted) certificate block decrypts to crafted
// vectors. Server side as model-compared sequences with probes; client side on the readers, the
// crafting party being an impostor server.
func (w *World) C10CraftedCertBlocks(r *hv.Rand) {
	cleaf, cinter := marshalChain(w.Cli)
	blocks, names := certBlocks(cleaf, cinter)
	for ci, cfg := range w.c10configs() {
		srv, ids := cfg.mk()
		q := NewSeq(srv, ids, cfg.hidden)
		ccfg := w.Cli.ClientConfig(w.P.Verify(PolStore, w.SrvName, nil, false))
		skip := func(i int) bool { return ci%2 == 1 && !hv.Thorough() && i%3 != 1 } // several-certificate configurations: a third of the blocks in the quick tier
		if cfg.hidden {
			for i, b := range blocks {
				if skip(i) {
					continue
				}
				q.Step(w.NextAddr(), BuildHiddenRequestBlock(&ids[len(ids)-1].KEM.Public, b), "HiddenRequest[certificate block: "+names[i]+"]", nil)
				if len(srv.Panics) > 0 {
					break
				}
			}
		} else {
			// one client (hello printed once), a fresh address and handshake per crafted ClientAuth
			chs, err := transport.VerifHsNewClientHS(&ccfg, srv.Addr, false)
			if err != nil {
				panic(err)
			}
			buf := make([]byte, 2000)
			n, _ := transport.VerifHsWritePQClientHello(chs, buf)
			hello := append([]byte(nil), buf[:n]...)
			afterHello := chs.VerifHsDuplex()
			q.Base(hello)
			for i, b := range blocks {
				if skip(i) {
					continue
				}
				a := w.NextAddr()
				out, _ := q.Step(a, hello, "ClientHello", nil)
				if len(out) != 1 {
					break
				}
				chs.VerifHsSetDuplex(afterHello)
				if _, err := transport.VerifHsReadPQServerHello(chs, out[0].Data); err != nil {
					break
				}
				chs.VerifHsRekey(PQName)
				n, _ := chs.VerifHsWritePQClientAck(buf)
				out, _ = q.Step(a, append([]byte(nil), buf[:n]...), "ClientAck", nil)
				if len(out) != 1 {
					break
				}
				if _, err := chs.VerifHsReadPQServerAuth(out[0].Data); err != nil {
					break
				}
				q.Step(a, BuildClientAuth(chs, b), "ClientAuth[certificate block: "+names[i]+"]", nil)
				if len(srv.Panics) > 0 {
					break
				}
			}
		}
		ok, msg := true, ""
		if len(srv.Panics) == 0 {
			nc, _, _, err := w.connect(q, cfg, ids[len(ids)-1], w.NextAddr())
			if err != nil {
				ok, msg = false, fmt.Sprint("after the crafted certificate blocks a fresh honest handshake fails: ", err)
			} else if m, good := w.probe(q, nc, q.Accept()); !good {
				ok, msg = false, m
			}
		}
		q.Emit("crafted-cert-block/"+cfg.name, fmt.Sprintf("%s server: %d messages whose encrypted certificate block decrypts to crafted vectors (inner lengths exact / +1 / +2 / +3 / -1 / 0 / 65535, degenerate blocks), then probe", cfg.name, len(blocks)),
			ok, "C10:endpoint-wedged-after-junk", msg, true)
	}
	// ---- client side: an impostor server answers with a crafted block (ServerAuth / hidden response)
	cv := w.P.Verify(PolStore, "", nil, false)
	ccfg := w.Cli.ClientConfig(w.P.Verify(PolStore, w.SrvName, nil, false))
	srv := NewSrv(SingleConfig(w.Srv, cv, false))
	wb, err := NewWB(srv, ccfg, w.NextAddr())
	if err != nil {
		panic(err)
	}
	sleaf, sinter := marshalChain(w.Srv)
	sblocks, snames := certBlocks(sleaf, sinter)
	for i, b := range sblocks {
		// the state before ServerAuth is shared by both parties: the impostor writes from it
		sh := NewShadow(wb.PreSA)
		eph := keys.GenerateNewX25519KeyPair()
		cpub := wb.HS.VerifHsDHEphemeral().Public
		ee, _ := eph.DH(cpub[:])
		hdr := []byte{4, 0, byte(len(b) >> 8), byte(len(b))}
		sid := r.Bytes(4)
		sh.Absorb(hdr)
		sh.Absorb(sid)
		sh.Absorb(eph.Public[:])
		sh.Absorb(ee)
		ec := sh.Encrypt(b)
		tag := sh.Squeeze(16)
		m := append(append(append([]byte(nil), hdr...), sid...), eph.Public[:]...)
		m = append(append(m, ec...), tag...)
		m = append(m, bytes.Repeat([]byte{0xa5}, 16)...)
		CaseSA(wb.HS, wb.PreSA, m, Meta{Prop: "C10", Class: "crafted-cert-block/client-reads-ServerAuth",
			Desc: "readPQServerAuth on a ServerAuth whose certificate block decrypts to: " + snames[i], MustRej: i != 0,
			Why: "the certificate block is crafted and the final MAC arbitrary", Sig: "C10:client-accepts-junk", NT: true})
	}
	hsrv := NewSrv(SingleConfig(w.Srv, cv, true))
	hcfg := ccfg
	hcfg.ServerKEMKey = &w.Srv.KEM.Public
	hw, err := NewHWB(hsrv, hcfg, w.NextAddr())
	if err != nil {
		panic(err)
	}
	for i, b := range sblocks {
		sh := NewShadow(hw.PreRS)
		ect, ek, err := keys.Encapsulate(rand.Reader, &hw.HS.VerifHsKEMEphemeral().Public)
		if err != nil {
			panic(err)
		}
		hdr := []byte{9, 0, byte(len(b) >> 8), byte(len(b))}
		sid := r.Bytes(4)
		sh.Absorb(hdr)
		sh.Absorb(sid)
		sh.Absorb(ek)
		ec := sh.Encrypt(b)
		tag := sh.Squeeze(16)
		m := append(append(append([]byte(nil), hdr...), sid...), ect...)
		m = append(append(m, ec...), tag...)
		m = append(m, bytes.Repeat([]byte{0xa5}, 16)...)
		CaseSRH(hw.HS, w.Cli.Key, hw.PreRS, m, Meta{Prop: "C10", Class: "crafted-cert-block/client-reads-HiddenResponse",
			Desc: "readPQServerResponseHidden on a response whose certificate block decrypts to: " + snames[i], MustRej: true,
			Why: "the certificate block is crafted and the final MAC arbitrary", Sig: "C10:client-accepts-junk", NT: true})
	}
}
