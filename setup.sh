#!/bin/sh
# MANIFEST.setup_cmd: build the Coq development (full .vo build) and warm the Go build cache.
set -e
cd "$(dirname "$0")"
export GOFLAGS=-mod=mod GOPROXY=off
mkdir -p work evidence replays
sh coq/mk_coqproject.sh
( cd coq && timeout 3000 make -j16 ) > work/setup-coq.log 2>&1 || { tail -30 work/setup-coq.log; exit 1; }
( cd "${VERIF_REPO:-/repo}" && go build ./... ) || true
echo setup done
