//go:build verif

package kravatte

import "crypto/cipher"

// Add-only accessors for the C12 correspondence driver (mapped into the package with -overlay).

// VerifClone returns an independent copy of a SANSE AEAD in its current session state.
func VerifClone(a cipher.AEAD) cipher.AEAD {
	s := *(a.(*sanse))
	return &s
}

// VerifMask returns the 200 bytes of the mask k.
func (kv *Kravatte) VerifMask() []byte {
	out := make([]byte, widthBytes)
	for i := 0; i < widthBytes; i++ {
		out[i] = byte(kv.k[i/8] >> (8 * uint(i%8)))
	}
	return out
}
