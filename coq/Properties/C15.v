(* C15 — a session's peer address moves only on authentic, fresh packets.
   Model: Model/Packet.v (session_input = handleSessionMessage of server.go / client.go from the session lock
   on; send = handle.go send); proofs: Proofs/PacketProofs.v.  No theorem here needs a hypothesis on the
   AEAD: "authentic" means "SANSE opened it under the session's read key" (opens), whatever SANSE is. *)
From Hop Require Import Base Replay ReplayProofs Packet PacketProofs PacketExamples.
Open Scope N_scope.

(* one datagram: the address changes only in the accepted branch, and then it is the datagram's source;
   "accepted" entails: session open, header well formed for this session, counter passed the replay
   filter, SANSE opened the body under the read key *)
Theorem c15_addr_changes_only_on_accept :
  forall open ss a pkt ss' o,
    session_input open ss a pkt = Ok (ss', o) -> remote ss' <> remote ss ->
    outcome_accepted o = true /\ remote ss' = a /\
    closed ss = false /\ wf_header ss pkt = true /\
    exists k p, key_recv ss = Some k /\ open k (pkt_ad pkt) (pkt_body pkt) = Some p.
Proof. exact addr_changes_only_on_accept. Qed.
Print Assumptions c15_addr_changes_only_on_accept.

Theorem c15_accept_moves_addr :
  forall open ss a pkt ss' o,
    session_input open ss a pkt = Ok (ss', o) -> outcome_accepted o = true -> remote ss' = a.
Proof. exact accept_moves_addr. Qed.
Print Assumptions c15_accept_moves_addr.

Theorem c15_not_accepted_keeps_addr :
  forall open ss a pkt ss' o,
    session_input open ss a pkt = Ok (ss', o) -> outcome_accepted o = false -> remote ss' = remote ss.
Proof. exact not_accepted_keeps_addr. Qed.
Print Assumptions c15_not_accepted_keeps_addr.

(* "accepted" in declarative terms: the datagram authenticates (opens: open session, well-formed header,
   fresh counter, SANSE opens) and is a transport message or a well-formed close *)
Theorem c15_accepted_iff_authentic_fresh :
  forall open ss a pkt ss' o,
    session_input open ss a pkt = Ok (ss', o) ->
    (outcome_accepted o = true <->
     exists p, opens open ss pkt = Some p /\ (pkt_type pkt = mt_transport \/ p = [ctrl_close])).
Proof. exact (accepted_iff (fun _ _ _ => [])). Qed.
Print Assumptions c15_accepted_iff_authentic_fresh.

(* forged, corrupted or replayed packets never redirect traffic: if SANSE rejects, nothing changes *)
Theorem c15_unauthentic_datagram_keeps_addr :
  forall open ss a pkt,
    (forall k, key_recv ss = Some k -> open k (pkt_ad pkt) (pkt_body pkt) = None) ->
    exists o, session_input open ss a pkt = Ok (ss, o) /\ outcome_authentic o = false.
Proof. exact aead_reject_changes_nothing. Qed.
Print Assumptions c15_unauthentic_datagram_keeps_addr.

(* local calls (reads, writes, sends, close) never move the address *)
Theorem c15_local_calls_keep_addr :
  forall seal open max ss e, (forall a pkt, e <> EvIn a pkt) ->
    remote (fst (ep_step seal open max ss e)) = remote ss.
Proof. intros seal open max ss e H. exact (proj1 (proj2 (proj2 (proj2 (proj2 (ep_step_local seal open max ss e H)))))). Qed.
Print Assumptions c15_local_calls_keep_addr.

(* over ANY history (datagrams of any content from any source, interleaved with local calls): the address
   equals the source of the last accepted datagram, or the handshake address if there was none *)
Theorem c15_addr_is_source_of_last_accepted :
  forall seal open max evs ss,
    remote (fst (ep_run seal open max ss evs)) = addr_spec seal open max ss evs (remote ss).
Proof. exact addr_history. Qed.
Print Assumptions c15_addr_is_source_of_last_accepted.

(* send uses the current address; so does every datagram of a Write *)
Theorem c15_send_uses_current_addr :
  forall seal ss mt m ss' d, send seal ss mt m = Ok (ss', d) -> snd d = remote ss.
Proof. exact send_uses_current_addr. Qed.
Print Assumptions c15_send_uses_current_addr.

Theorem c15_write_uses_current_addr :
  forall seal max ss b w, write seal max ss b = Some w -> Forall (fun d : dgram => snd d = remote ss) (w_out w).
Proof. exact write_uses_current_addr. Qed.
Print Assumptions c15_write_uses_current_addr.

(* hence: after any history, traffic goes to the source of the last accepted datagram — a roaming client
   keeps its session, and nobody else can redirect it *)
Theorem c15_traffic_follows_last_accepted :
  forall seal open max evs ss mt m s' d,
    send seal (fst (ep_run seal open max ss evs)) mt m = Ok (s', d) ->
    snd d = addr_spec seal open max ss evs (remote ss).
Proof. exact send_after_history. Qed.
Print Assumptions c15_traffic_follows_last_accepted.

(* a concrete roaming history: genuine datagram from address 3 (moves 2 -> 3), replay of it from 4 and a
   forgery from 4 (no move), then a send goes to 3 *)
Example c15_roaming_example :
  snd (ep_run toy_seal toy_open 100 exB ex_history) =
  [ObIn ODelivered; ObIn ORejected; ObIn ORejected;
   ObSent [(wire_image toy_seal exB mt_transport 0 [7], 3)] 1 false; ObRd (RData [9; 9]); ObRd RBlock] /\
  addr_spec toy_seal toy_open 100 exB ex_history (remote exB) = 3.
Proof. split; [exact ex_history_runs|vm_compute; reflexivity]. Qed.

(* ---- at the receive loops (Model/RecvLoop.v; see Properties/C03.v for the loop model and its premises) ---- *)
From Hop Require Import RecvLoop RecvLoopProofs RecvLoopCorollaries.

(* for every sequence of datagrams (any bytes, length, type, source) and Handle calls on a server with any number
   of sessions: session B's remoteAddr afterwards is the source of the last datagram — among those the loop
   handed to handleSessionMessage carrying B's id — that authenticated under B's keys, was fresh and reached
   the handler's tail; the initial address if there was none.  Datagrams for other sessions, handshake traffic,
   truncated or mistyped datagrams never move it. *)
Theorem c15_loop_addr_is_source_of_last_accepted :
  forall seal open max H HS st evs B sB,
    lookup (l_tab H st) B = Some sB -> l_crashed H (srv_run seal open max H HS st evs) = false ->
    no_finish seal open max H HS B st evs ->
    exists sB', lookup (l_tab H (srv_run seal open max H HS st evs)) B = Some sB' /\
                remote sB' = addr_spec seal open max sB (evs_for B evs) (remote sB).
Proof. exact srv_loop_addr. Qed.
Print Assumptions c15_loop_addr_is_source_of_last_accepted.

Theorem c15_client_loop_addr_is_source_of_last_accepted :
  forall seal open max C CHS evs s s',
    cli_run seal open max C CHS (COpen C s) evs = COpen C s' ->
    remote s' = addr_spec seal open max s (cli_evs_for (sid s) evs) (remote s).
Proof. exact cli_loop_addr. Qed.
Print Assumptions c15_client_loop_addr_is_source_of_last_accepted.

(* one step: an event not addressed to B cannot move B's address (nor anything else of B) *)
Theorem c15_loop_other_traffic_keeps_addr :
  forall seal open max H HS st e B sB,
    lookup (l_tab H st) B = Some sB -> ev_for B e = [] -> step_quiet H HS B st e ->
    option_map remote (lookup (l_tab H (srv_step seal open max H HS st e)) B) = Some (remote sB).
Proof. intros. now rewrite (srv_step_other_session_untouched seal open max H HS st e B sB). Qed.
Print Assumptions c15_loop_other_traffic_keeps_addr.

(* the run of Properties/C03.v c03_loop_nonvacuous: B's address ends at 8 (source of its genuine close), after
   a replay and a forgery from 4, mistyped copies from 5 and a truncated oversized copy from 6; C's is 7 *)
Example c15_loop_roaming_example :
  option_map remote (lookup (l_tab unit (srv_run toy_seal toy_open 100 unit ex_HS ex_lst ex_levs)) [1; 2; 3; 4]) = Some 8 /\
  addr_spec toy_seal toy_open 100 exB (evs_for [1; 2; 3; 4] ex_levs) (remote exB) = 8 /\
  option_map remote (lookup (l_tab unit (srv_run toy_seal toy_open 100 unit ex_HS ex_lst ex_levs)) [9; 9; 9; 9]) = Some 7.
Proof. vm_compute. repeat split; reflexivity. Qed.
