#!/bin/bash
# runs every claimed property's quick check on the current /repo; prints one line per property
cd /verif
for p in $(python3 -c "import json;print(' '.join(c['property_id'] for c in json.load(open('MANIFEST.json'))['checks']))"); do
  s=$(date +%s); out=$(./check $p --tier ${1:-quick} 2>&1); rc=$?
  echo "$p rc=$rc $(( $(date +%s)-s ))s :: $(echo "$out" | grep -E '^(VIOLATION|KNOWN-FINDING)' | head -5 | tr '\n' ' ') $(echo "$out" | grep -E "^$p tier" )"
done
