(* C14 — the replay filter accepts each fresh counter once and nothing stale.
   Model: Model/Replay.v (transcription of transport/replay.go with explicit uint64 wrap).
   Only statements here; proofs are in Proofs/ReplayProofs.v. *)
From Hop Require Import Base Replay ReplayProofs.
Open Scope N_scope.

(* lim = 2^63, the property's bound on counters *)

(* Full statement, for EVERY finite sequence ms of Mark calls (any length, any jumps, any order,
   stronger than the transport's own usage) and every probe c:
   Check says yes  iff  c was never marked and is not more than 448 below the highest marked. *)
Theorem c14_check_iff_fresh : forall ms c,
  Forall (fun x => x < lim) (c :: ms) ->
  check (fold_left mark ms win_init) c = fresh_b ms c.
Proof. exact check_fresh. Qed.
Print Assumptions c14_check_iff_fresh.

(* fresh_b is the property's sentence *)
Theorem c14_fresh_means : forall A c,
  fresh_b A c = true <-> (~ In c A /\ max0 A <= c + 448).
Proof. exact fresh_b_iff. Qed.
Print Assumptions c14_fresh_means.

(* max0 is "the highest counter accepted so far" *)
Theorem c14_max0_is_highest : forall A, A <> [] ->
  In (max0 A) A /\ forall x, In x A -> x <= max0 A.
Proof. intros A H. split; [now apply max0_in|intros x; apply max0_ge]. Qed.
Print Assumptions c14_max0_is_highest.

(* The transport's usage (readPacketLocked): Check, Mark only when accepted.  For every history of
   presented counters, the accept/reject decisions are exactly those of the set-based specification. *)
Theorem c14_accept_history : forall cs,
  Forall (fun x => x < lim) cs ->
  run_accept win_init cs = spec_run [] cs.
Proof. exact run_accept_spec. Qed.
Print Assumptions c14_accept_history.

(* The receive path with forged datagrams in the history (readPacketLocked: Check, AEAD open, Mark
   only after a successful open): an authentic datagram is accepted iff its counter is fresh w.r.t.
   the authentic datagrams accepted so far; a datagram that does not authenticate is rejected and
   does not move the filter, wherever it occurs and whatever counter it carries. *)
Theorem c14_receive_path_history : forall l,
  Forall (fun p => fst p < lim) l ->
  run_through win_init l = spec_through [] l.
Proof. exact run_through_spec. Qed.
Print Assumptions c14_receive_path_history.

(* arbitrary interleavings of Mark and Check calls *)
Theorem c14_ops_history : forall ops, ops_lt ops -> run_ops win_init ops = spec_ops [] ops.
Proof. exact run_ops_spec. Qed.
Print Assumptions c14_ops_history.

(* no duplicate is ever let through, for arbitrarily long histories *)
Theorem c14_accepted_once : forall cs,
  Forall (fun x => x < lim) cs ->
  NoDup (accepted_counters cs (run_accept win_init cs)).
Proof. exact accepted_once. Qed.
Print Assumptions c14_accepted_once.

(* the uint64 wrap written into the model is unreachable under the property's bound *)
Theorem c14_no_wrap : forall seq, seq < lim -> u64_add seq window_size = seq + 448.
Proof. exact no_wrap. Qed.
Print Assumptions c14_no_wrap.

(* non-vacuity: a history straddling block boundaries, with a jump of more than the ring size and
   revisits of both window edges, meets the premises and exercises every branch *)
Example c14_history_nonvacuous :
  let cs := [5; 64; 63; 700; 252; 251; 700; 1300; 852; 851; 1300; 9223372036854775807] in
  Forall (fun x => x < lim) cs /\
  run_accept win_init cs = [true; true; true; true; true; false; false; true; true; false; false; true].
Proof. split; [repeat constructor|vm_compute; reflexivity]. Qed.
