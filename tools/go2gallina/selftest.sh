#!/bin/sh
# Translator self-test on a synthetic function that uses the whole subset (nested loops with break /
# continue / return, if-joins, shadowing, int and uint64 loops, division panic, pointer receiver).
# Translates testdata/sub.go.txt, compiles the output, evaluates testdata/vectors.v.txt; compare with
# testdata/expected.txt (the Go column was produced by running the Go code).
set -e
cd "$(dirname "$0")"
export GOFLAGS=-mod=mod GOPROXY=off
D=$(mktemp -d /tmp/go2gallina-selftest.XXXXXX)
go build -o $D/go2gallina .
cp testdata/sub.go.txt $D/sub.go; cp testdata/vectors.v.txt $D/vectors.v
$D/go2gallina -file $D/sub.go -funcs St.F -o $D/TGen.v
( cd $D && coqc -Q "$OLDPWD/../../coq/Model" Hop -Q . Hop TGen.v && coqc -Q "$OLDPWD/../../coq/Model" Hop -Q . Hop vectors.v )
rm -rf $D
