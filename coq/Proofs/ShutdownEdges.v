(* ShutdownEdges.v — the tube state graph used by the trace checker (Corr/CorrC16.v) is the
   reachable-edge relation of Model/Shutdown.v: every transition moves tubeState along a path of the
   graph (forward direction, all states and actors), and every edge of the graph is taken by some
   transition from a reachable state (converse: witnesses in Properties/C16.v). *)
From Hop Require Import Base ConcBase Shutdown ShutdownProofs.
Local Open Scope nat_scope.

Definition tedge (a b : tstate) : bool :=
  match a, b with
  | TCreated, (TInitiated | TClosed) => true
  | TInitiated, (TCloseWait | TFinWait1 | TClosed) => true
  | TCloseWait, (TLastAck | TClosed) => true
  | TLastAck, TClosed => true
  | TFinWait1, (TFinWait2 | TClosing | TClosed) => true
  | TFinWait2, TClosed => true
  | TClosing, TClosed => true
  | _, _ => false
  end.
Definition all_ts := [TCreated; TInitiated; TCloseWait; TLastAck; TFinWait1; TFinWait2; TClosing; TClosed].
Fixpoint treach (n : nat) (a b : tstate) : bool :=
  tstate_eqb a b || match n with O => false | S n' => existsb (fun c => tedge a c && treach n' c b) all_ts end.
Definition tr (a b : tstate) : Prop := treach 4 a b = true.

Lemma tr_refl a : tr a a. Proof. destruct a; reflexivity. Qed.
Lemma tr_trans a b c : tr a b -> tr b c -> tr a c.
Proof. unfold tr. destruct a, b, c; vm_compute; auto. Qed.
Lemma tr_eq a b : a = b -> tr a b. Proof. intros ->. apply tr_refl. Qed.

Ltac unf2 := unfold send_empty, send_tq, send_mq, set_tq, set_mq, set_panic, set_ts, set_unack, set_rw, with_tube.

Lemma ts_send_tq s : ts (send_tq s) = ts s. Proof. unf2. destruct (tq_closed s); reflexivity. Qed.
Lemma ts_send_mq s : ts (send_mq s) = ts s. Proof. unf2. destruct (mq_closed s); reflexivity. Qed.
Lemma ts_send_empty s : ts (send_empty s) = ts s.
Proof. unfold send_empty. destruct (s_closed s); auto using ts_send_tq. Qed.

Lemma ecs1_tr s : tr (ts s) (ts (fst (ecs1 s))).
Proof.
  unfold ecs1. destruct (ts s) eqn:E; simpl; try (rewrite E; apply tr_refl).
  all: destruct (s_closed s); [destruct (r_closed s)|destruct (tq_closed s)]; unf2; simpl; rewrite ?E; reflexivity.
Qed.
Lemma ecs2_ts s s' : ecs2 s = Some s' -> ts s' = ts s.
Proof. unfold ecs2. destruct (send_done s); [|discriminate]. destruct (r_closed s); intros H; inversion H; reflexivity. Qed.

Lemma st1_tr s f : tr (ts s) (ts (fst (st1 s f))).
Proof.
  unfold st1. destruct (_ && _ && _)%bool; [|apply tr_refl].
  destruct (ts s) eqn:E; simpl; rewrite ?E; try apply tr_refl; try reflexivity.
  all: pose proof (ecs1_tr s) as H; rewrite E in H; exact H.
Qed.
Lemma st2_ts f s : ts (st2 f s) = ts s.
Proof. unfold st2. destruct (_ && _ && _)%bool; reflexivity. Qed.
Lemma st3_tr b s : tr (ts s) (ts (fst (st3 b s))).
Proof.
  unfold st3. destruct b; [|apply tr_refl].
  assert (Hin : forall s2 (w2 : bool), tr (ts s) (ts s2) ->
                tr (ts s) (ts (fst (if tstate_eqb (ts s2) TClosed then s2 else send_empty s2, w2)))).
  { intros s2 w2 H. destruct (tstate_eqb (ts s2) TClosed); simpl; rewrite ?ts_send_empty; auto. }
  destruct (ts s) eqn:E; try (apply Hin; rewrite E; apply tr_refl).
  - apply Hin. unf2; simpl. rewrite ?E. reflexivity.
  - apply Hin. unf2; simpl. rewrite ?E. reflexivity.
  - destruct (ecs1 (send_empty s)) as [s2 w2] eqn:Ee. apply Hin.
    pose proof (ecs1_tr (send_empty s)) as Ht. rewrite Ee, ts_send_empty in Ht. simpl in Ht. rewrite ?E in Ht. exact Ht.
Qed.
Lemma st4_ts f s : ts (st4 f s) = ts s.
Proof. unfold st4. destruct (_ && _ && _)%bool; auto using ts_send_empty. Qed.

Lemma recv_fsm_tr s f : tr (ts s) (ts (fst (recv_fsm s f))).
Proof.
  rewrite recv_fsm_eq. pose proof (st1_tr s f) as H1. destruct (st1 s f) as [s1 w1]. simpl in H1.
  cbv zeta. match goal with |- context [st3 ?b ?y] => pose proof (st3_tr b y) as H3; destruct (st3 b y) as [s2 w2] end.
  simpl in *. rewrite st4_ts. rewrite st2_ts in H3. eapply tr_trans; eauto.
Qed.

Lemma receive_tr s f : tr (ts s) (ts (fst (receive s f))).
Proof.
  unfold receive. destruct (f_init f).
  - destruct (ts s) eqn:E; simpl; rewrite ?ts_send_mq; rewrite ?E; try apply tr_refl.
    unf2; simpl. reflexivity.
  - destruct (ts s) eqn:E; simpl; rewrite ?E; try apply tr_refl.
    all: pose proof (recv_fsm_tr s f) as HR; pose proof (ecs1_tr s) as HE; rewrite E in HR, HE.
    all: destruct (f_ack f) as [|k|]; try exact HR; try exact HE.
    all: destruct (Nat.ltb (unacked s) k); try exact HE.
    all: match goal with |- tr _ (ts (fst (recv_fsm ?s1 ?ff))) =>
           eapply tr_trans; [|apply recv_fsm_tr]; apply tr_eq; destruct (Nat.leb k (unack_data s)); unf2; simpl; auto; congruence
         end.
Qed.

Lemma do_close_tr s : tr (ts s) (ts (fst (do_close s))).
Proof.
  unfold do_close. destruct (ts s) eqn:E; simpl; rewrite ?E; try apply tr_refl.
  all: unf2; simpl; destruct (fin_sent s); simpl; try reflexivity.
  all: match goal with |- context [if ?c then _ else _] => destruct c end; simpl; try destruct (tq_closed s); simpl; reflexivity.
Qed.
Lemma do_write_ts s : ts (fst (do_write s)) = ts s.
Proof. unfold do_write. destruct (ts s) eqn:E; simpl; auto; destruct (fin_sent s || s_closed s)%bool; simpl; auto. Qed.
Lemma stop_begin_ts s : ts (fst (stop_begin s)) = ts s.
Proof. unfold stop_begin. destruct (ms s); reflexivity. Qed.

Lemma ustep_tr s t s' t' : ustep s t = Some (s', t') -> tr (ts s) (ts s').
Proof.
  unfold ustep. destruct (upcv t).
  - destruct (uprog t) as [|[ | | | ] r]; intros H; try discriminate; try (inversion H; subst; apply tr_refl).
    destruct (stop_begin s) as [s1 o] eqn:E. inversion H; subst.
    pose proof (stop_begin_ts s) as Ht. rewrite E in Ht. simpl in Ht. rewrite Ht. apply tr_refl.
  - destruct (init_done s || r_closed s)%bool; [|discriminate].
    pose proof (do_close_tr s) as Ht. destruct (do_close s) as [s1 r]. intros H; inversion H; subst. exact Ht.
  - destruct (r_closed s); intros H; inversion H; subst; apply tr_refl.
  - destruct (init_done s); intros H; inversion H; subst; apply tr_refl.
  - destruct (stopped s); intros H; inversion H; subst; apply tr_refl.
  - destruct (init_done s); [|discriminate].
    pose proof (do_write_ts s) as Ht. destruct (do_write s) as [s1 r]. intros H; inversion H; subst.
    simpl in Ht. rewrite Ht. apply tr_refl.
Qed.

Ltac fin_ts := intros H; inversion H; subst; clear H; simpl; try apply tr_refl.

(* every transition of the system moves tubeState along a path of the graph *)
Theorem step_edges x a x' : step x a = Some x' -> tr (ts (shd x)) (ts (shd x')).
Proof.
  unfold step. destruct (panic (shd x)); [discriminate|]. destruct a.
  - destruct (nth_error (uths x) i) as [t|]; [|discriminate].
    destruct (ustep (shd x) t) as [[s' t']|] eqn:E; [|discriminate]. fin_ts. eapply ustep_tr; eauto.
  - destruct (hp (shd x)); try discriminate.
    + destruct (init_done (shd x) || r_closed (shd x))%bool; [|discriminate].
      pose proof (do_close_tr (shd x)) as Ht. destruct (do_close (shd x)) as [s1 r]. simpl in Ht.
      destruct (r =? 2)%N; fin_ts; exact Ht.
    + destruct (r_closed (shd x)); [|discriminate]. fin_ts.
    + destruct (init_done (shd x)); [|discriminate]. fin_ts.
  - destruct (sp (shd x)); try discriminate. destruct (tq (shd x)).
    + destruct (tq_closed (shd x)); [|discriminate]. fin_ts.
    + destruct emit; fin_ts; rewrite ?ts_send_mq; simpl; apply tr_refl.
  - destruct (sp (shd x)); try discriminate. destruct (s_closed (shd x)); [discriminate|].
    destruct (Nat.ltb 0 (unacked (shd x))); [|discriminate]. fin_ts. rewrite ts_send_mq. apply tr_refl.
  - destruct (sp (shd x)); try discriminate. destruct (s_closed (shd x)); [discriminate|].
    destruct (Nat.ltb 0 (unacked (shd x))); [|discriminate]. fin_ts. rewrite ts_send_tq. apply tr_refl.
  - destruct (ip (shd x)); try discriminate. destruct (r_closed (shd x)); [fin_ts|].
    destruct (init_recv (shd x)); [|discriminate]. destruct (ts (shd x)) eqn:E; fin_ts; rewrite ?E; apply tr_refl.
  - destruct (msp (shd x)); try discriminate; destruct (mq (shd x)).
    + destruct (mq_closed (shd x)); [|discriminate]. fin_ts.
    + destruct (under_closed (shd x)); fin_ts.
    + destruct (mq_closed (shd x)); [|discriminate]. fin_ts.
    + fin_ts.
  - destruct (mrp (shd x)); try discriminate. destruct (under_closed (shd x)); [discriminate|].
    pose proof (receive_tr (shd x) f) as Ht. destruct (receive (shd x) f) as [s1 w]. fin_ts. exact Ht.
  - destruct (mrp (shd x)); try discriminate. destruct (under_closed (shd x)); [|discriminate]. destruct (ms (shd x)); fin_ts.
  - destruct (mrp (shd x)); try discriminate.
    + destruct (ms (shd x)); fin_ts.
    + destruct (ecs2 (shd x)) as [s1|] eqn:E; [|discriminate]. fin_ts. rewrite (ecs2_ts _ _ E). apply tr_refl.
  - destruct (fp (shd x)); try discriminate.
    + destruct (ms (shd x)); fin_ts.
    + pose proof (ecs1_tr (shd x)) as Ht. destruct (ecs1 (shd x)) as [s1 w]. fin_ts. exact Ht.
    + destruct (ecs2 (shd x)) as [s1|] eqn:E; [|discriminate]. fin_ts. rewrite (ecs2_ts _ _ E). apply tr_refl.
  - destruct (lp (shd x)); try discriminate.
    + destruct (ts (shd x)) eqn:E; try (fin_ts; rewrite ?E; apply tr_refl).
      destruct (Nat.ltb 1 (unacked (shd x))); [fin_ts; rewrite ?E; apply tr_refl|].
      pose proof (ecs1_tr (shd x)) as Ht. destruct (ecs1 (shd x)) as [s1 w]. fin_ts. rewrite E in Ht. exact Ht.
    + destruct (ecs2 (shd x)) as [s1|] eqn:E; [|discriminate]. fin_ts. rewrite (ecs2_ts _ _ E). apply tr_refl.
  - unfold gstep. destruct (g1 (shd x)); try discriminate.
    + pose proof (stop_begin_ts (shd x)) as Ht. destruct (stop_begin (shd x)) as [s1 o]. fin_ts. simpl in Ht. rewrite Ht. apply tr_refl.
    + destruct (stopped (shd x)); [|discriminate]. fin_ts.
  - unfold gstep. destruct (g2 (shd x)); try discriminate.
    + pose proof (stop_begin_ts (shd x)) as Ht. destruct (stop_begin (shd x)) as [s1 o]. fin_ts. simpl in Ht. rewrite Ht. apply tr_refl.
    + destruct (stopped (shd x)); [|discriminate]. fin_ts.
  - unfold ostep. destruct (own (shd x)); try discriminate.
    + destruct (wgc (shd x)); [|discriminate]. fin_ts.
    + destruct (mq_closed (shd x)); fin_ts.
    + destruct (msp (shd x)); try discriminate. fin_ts.
    + fin_ts.
    + destruct (mrp (shd x)); try discriminate. fin_ts.
    + destruct (stopped (shd x)); fin_ts.
  - destruct (force_armed (shd x)); [|discriminate]. fin_ts.
  - destruct (la_armed (shd x)); [|discriminate]. destruct (lp (shd x)); try discriminate. fin_ts.
  - destruct (own (shd x)) as [| | |[|]| | | |]; try discriminate. fin_ts.
  - destruct (mrp (shd x)); try discriminate. destruct (cfg_timeout (shd x) && negb (under_closed (shd x)))%bool; [|discriminate].
    destruct (ms (shd x)); fin_ts.
  - destruct (ip (shd x)); try discriminate. destruct (ts (shd x)) eqn:E; try discriminate. fin_ts. rewrite ts_send_mq, E. apply tr_refl.
Qed.

Theorem run_edges x l x' : run x l = Some x' -> tr (ts (shd x)) (ts (shd x')).
Proof.
  revert x; induction l as [|a r IH]; intros x H; simpl in H.
  - inversion H; subst. apply tr_refl.
  - destruct (step x a) eqn:E; [|discriminate]. eapply tr_trans; [eapply step_edges; eauto|eauto].
Qed.

(* converse: every edge of the graph is taken by one transition from a reachable state *)
Definition fr (i : bool) (a : ackk) (fin ino : bool) := mkF i a fin ino false.
Definition FIN := AMRecvFrame (fr false ANone true true).
Definition ACK1 := AMRecvFrame (fr false (AAck 1) false false).
Definition BAD := AMRecvFrame (fr false ABad false false).
Definition INITF := AMRecvFrame (fr true ANone false false).
Definition RD := AMRecvStep.            (* receiver: loop check -> ReadMsg *)
Definition CLOSE := [AU 0; AU 0].       (* a user's Close *)

Definition realised (a b : tstate) : Prop :=
  exists est progs l x act x', run (init est false progs) l = Some x /\ ts (shd x) = a /\
                               step x act = Some x' /\ ts (shd x') = b.

Ltac wit e pg l act := exists e, pg, l; eexists; exists act; eexists;
  split; [vm_compute; reflexivity|split; [reflexivity|split; [vm_compute; reflexivity|reflexivity]]].

Theorem edges_realised a b : tedge a b = true -> realised a b.
Proof.
  destruct a, b; simpl; intros H; try discriminate.
  - wit false [[UClose]] [RD] INITF.
  - wit false [[UStop]] [AU 0; TForceFire; AForce] AForce.      (* Stop's forced close of a tube that was never initiated *)
  - wit true [[UClose]] [RD] FIN.
  - wit true [[UClose]] [AU 0] (AU 0).
  - wit true [[UClose]] [RD] BAD.
  - wit true [[UClose]] [RD; FIN; AU 0] (AU 0).
  - wit true [[UClose]] [RD; FIN; RD] BAD.
  - wit true [[UClose]] [RD; FIN; AU 0; AU 0; RD] ACK1.
  - wit true [[UClose]] [AU 0; AU 0; RD] ACK1.
  - wit true [[UClose]] [AU 0; AU 0; RD] FIN.
  - wit true [[UClose]] [AU 0; AU 0; RD] BAD.
  - wit true [[UClose]] [AU 0; AU 0; RD; ACK1; RD] FIN.
  - wit true [[UClose]] [AU 0; AU 0; RD; FIN; RD] ACK1.
Qed.
