// Package hsx: scaffolding shared by the handshake drivers c01, c02, c10, c19 (group hs):
// an in-memory packet wire owned by the driver, a PKI with good and bad identities, a pump
// that runs a real transport.Client against a synchronously stepped real transport.Server,
// and a shadow duplex that records the oracle values the Coq model consumes.
package hsx

import (
	"errors"
	"strings"
	"net"
	"os"
	"sync"
	"sync/atomic"
	"time"
)

type Dgram struct {
	Addr *net.UDPAddr // peer (source for received, destination for sent)
	Data []byte
}

var ErrEmpty = errors.New("hsx: no datagram queued")
var ErrClosed = errors.New("hsx: connection closed")

// ---------------------------------------------------------------- server side: synchronous

// SrvConn is the UDPLike given to a transport.Server that is stepped by the driver: reads
// pop the queue (never block), writes are recorded.
type SrvConn struct {
	mu    sync.Mutex
	Local *net.UDPAddr
	In    []Dgram
	Sent  []Dgram
}

func (c *SrvConn) ReadMsgUDP(b, oob []byte) (int, int, int, *net.UDPAddr, error) {
	c.mu.Lock()
	defer c.mu.Unlock()
	if len(c.In) == 0 {
		return 0, 0, 0, nil, ErrEmpty
	}
	d := c.In[0]
	c.In = c.In[1:]
	n := copy(b, d.Data)
	return n, 0, 0, d.Addr, nil
}
func (c *SrvConn) WriteMsgUDP(b, oob []byte, addr *net.UDPAddr) (int, int, error) {
	c.mu.Lock()
	defer c.mu.Unlock()
	c.Sent = append(c.Sent, Dgram{addr, append([]byte(nil), b...)})
	return len(b), 0, nil
}
func (c *SrvConn) TakeSent() []Dgram {
	c.mu.Lock()
	defer c.mu.Unlock()
	s := c.Sent
	c.Sent = nil
	return s
}
func (c *SrvConn) Push(d Dgram) {
	c.mu.Lock()
	defer c.mu.Unlock()
	c.In = append(c.In, d)
}
func (c *SrvConn) Read(b []byte) (int, error)         { n, _, _, _, e := c.ReadMsgUDP(b, nil); return n, e }
func (c *SrvConn) Write(b []byte) (int, error)        { return 0, errors.New("unconnected") }
func (c *SrvConn) Close() error                       { return nil }
func (c *SrvConn) LocalAddr() net.Addr                { return c.Local }
func (c *SrvConn) RemoteAddr() net.Addr               { return nil }
func (c *SrvConn) SetDeadline(t time.Time) error      { return nil }
func (c *SrvConn) SetReadDeadline(t time.Time) error  { return nil }
func (c *SrvConn) SetWriteDeadline(t time.Time) error { return nil }

// ---------------------------------------------------------------- client side: blocking, pumped

// CliConn is the UDPLike given to a transport.Client running in its own goroutine. Writes go
// to Out; reads block on In. Waiting is signalled each time a read finds nothing queued, so
// the pump knows deterministically that the client is waiting for the peer.
type CliConn struct {
	Local, Remote *net.UDPAddr
	Out           chan []byte
	In            chan Dgram
	Waiting       chan WaitSig // sent each time a read finds nothing queued
	closed        chan struct{}
	once          sync.Once
	consumed      atomic.Int64
	reads         atomic.Int64
	Pushed        int // owned by the pump
	dl            atomic.Int64
}

func NewCliConn(local, remote *net.UDPAddr) *CliConn {
	return &CliConn{Local: local, Remote: remote, Out: make(chan []byte, 64), In: make(chan Dgram, 4096),
		Waiting: make(chan WaitSig, 1024), closed: make(chan struct{})}
}

// WaitSig: the Read-th call of ReadMsgUDP began to block after Consumed datagrams had been read.
type WaitSig struct{ Read, Consumed int }

func (c *CliConn) ReadMsgUDP(b, oob []byte) (int, int, int, *net.UDPAddr, error) {
	idx := int(c.reads.Add(1))
	select {
	case d := <-c.In:
		c.consumed.Add(1)
		return copy(b, d.Data), 0, 0, d.Addr, nil
	case <-c.closed:
		return 0, 0, 0, nil, ErrClosed
	default:
	}
	select {
	case c.Waiting <- WaitSig{idx, int(c.consumed.Load())}:
	default:
	}
	var tc <-chan time.Time
	if dl := c.dl.Load(); dl != 0 {
		t := time.NewTimer(time.Until(time.Unix(0, dl)))
		defer t.Stop()
		tc = t.C
	}
	select {
	case d := <-c.In:
		c.consumed.Add(1)
		return copy(b, d.Data), 0, 0, d.Addr, nil
	case <-c.closed:
		return 0, 0, 0, nil, ErrClosed
	case <-tc:
		return 0, 0, 0, nil, os.ErrDeadlineExceeded
	}
}
// Push queues a datagram for the client (pump only).
func (c *CliConn) Push(d Dgram) { c.Pushed++; c.In <- d }
func (c *CliConn) WriteMsgUDP(b, oob []byte, addr *net.UDPAddr) (int, int, error) {
	select {
	case <-c.closed:
		return 0, 0, ErrClosed
	default:
	}
	select {
	case c.Out <- append([]byte(nil), b...):
	default: // nobody pumps any more: drop, like a network would
	}
	return len(b), 0, nil
}
func (c *CliConn) Read(b []byte) (int, error)  { n, _, _, _, e := c.ReadMsgUDP(b, nil); return n, e }
func (c *CliConn) Write(b []byte) (int, error) { n, _, e := c.WriteMsgUDP(b, nil, c.Remote); return n, e }
func (c *CliConn) Close() error                { c.once.Do(func() { close(c.closed) }); return nil }
func (c *CliConn) LocalAddr() net.Addr         { return c.Local }
func (c *CliConn) RemoteAddr() net.Addr        { return c.Remote }
func (c *CliConn) SetDeadline(t time.Time) error {
	return c.SetReadDeadline(t)
}
func (c *CliConn) SetReadDeadline(t time.Time) error {
	if t.IsZero() {
		c.dl.Store(0)
	} else {
		c.dl.Store(t.UnixNano())
	}
	return nil
}
func (c *CliConn) SetWriteDeadline(t time.Time) error { return nil }

// Addr: IPv4 addresses in their 4-byte form, IPv6 ones in their 16-byte form (as a udp4 resp.
// udp6 socket reports them).
func Addr(ip string, port int) *net.UDPAddr {
	p := net.ParseIP(ip)
	if v4 := p.To4(); v4 != nil && !strings.Contains(ip, ":") {
		return &net.UDPAddr{IP: v4, Port: port}
	}
	return &net.UDPAddr{IP: p.To16(), Port: port}
}
