(* C08 — reliable tubes deliver the written byte stream in order, intact and complete.
   Theorems about Model/Recv.v (tubes/receiver.go, priority_queue.go) and Model/Send.v (tubes/sender.go and the
   timer / window cases of Reliable.send in tubes/reliable.go).  Proofs in Proofs/RecvProofs.v, SendProofs.v. *)
From Hop Require Import Base Recv Send Link RecvProofs SendProofs LinkProofs.
Open Scope N_scope.

(* ---- unwrapFrameNo: a 32-bit frame number is unwrapped to the true 64-bit number whenever the true
   number is within 2^31 of the receiver's ackNo (for every ackNo below 2^64 - 2^32). *)
Theorem c08_unwrap_correct : forall ack f, ack + two32 < two64 -> near ack f ->
  unwrap_frame_no ack (f mod two32) = f.
Proof. exact unwrap_correct. Qed.
Print Assumptions c08_unwrap_correct.

(* ---- reassembly is a prefix: for the chunks of any written stream (any number of frames below 2^64 - 2^32
   - 2000) and ANY finite history of arrivals and reads — stream frames (i, chunks[i]) with their 32-bit numbers,
   the FIN at n+1, pure acknowledgements and ACK-flagged frames with arbitrary numbers, in any order, with any
   duplication and omission, inside or outside the receive window — provided only that no stream frame is
   delayed past 2^31 later frames (`history_ok`: the premise under which 32-bit numbers are unambiguous):
   what the reader has been handed, plus what is buffered for it, is exactly the concatenation of the first k
   chunks, k = number of in-order frames consumed; and EOF was reported only if the reader got the whole
   stream. *)
Theorem c08_reassembly_prefix : forall (chunks : list bytes) (evs : list revent),
  nchunks chunks + two32 + 2000 < two64 ->
  history_ok recv_init chunks evs ->
  let '(r, out, eof) := deliver recv_init chunks evs [] false in
  out ++ r_buf r = List.concat (firstn (consumed r) chunks) /\
  (consumed r <= S (List.length chunks))%nat /\
  (eof = true -> out = List.concat chunks /\ consumed r = S (List.length chunks)).
Proof. intros chunks evs Hn. exact (reassembly_prefix chunks Hn evs). Qed.
Print Assumptions c08_reassembly_prefix.

(* non-vacuity: a history with reordering, duplicates, a stale frame, an ignored acknowledgement and reads
   satisfies the premise; the reader gets the stream and then EOF *)
Definition ex_chunks : list bytes := [[1;2]; [3]; [4;5;6]].
Definition ex_evs : list revent :=
  [EArr (AData 3); EArr (AData 1); ERead 1; EArr (AData 1); EArr AFin; EArr (AEmpty 77);
   EArr (AData 2); ERead 100; ERead 5].
Example c08_history_ok_example : history_ok recv_init ex_chunks ex_evs.
Proof. vm_compute. repeat split; try reflexivity; try discriminate. Qed.
Example c08_history_example_result :
  snd (fst (deliver recv_init ex_chunks ex_evs [] false)) = [1;2;3;4;5;6] /\
  snd (deliver recv_init ex_chunks ex_evs [] false) = true.
Proof. vm_compute. auto. Qed.

(* ---- completeness of reassembly: if moreover every chunk is non-empty (the sender never emits an empty data
   frame) and every frame 1..n+1 arrives at least once at a moment when it is not beyond the receive window
   (windowStart + 1000), then all n+1 frames were consumed, the receiver is closed by the FIN, everything
   handed out plus buffered is the whole stream, and a read of the rest returns it together with EOF. *)
Theorem c08_complete_if_delivered : forall (chunks : list bytes) (evs : list revent),
  nchunks chunks + two32 + 2000 < two64 ->
  Forall (fun c => c <> []) chunks ->
  history_ok recv_init chunks evs ->
  (forall i, 1 <= i -> i <= nchunks chunks + 1 -> arrives_in_window recv_init chunks evs i) ->
  let '(r, out, eof) := deliver recv_init chunks evs [] false in
  consumed r = S (List.length chunks) /\ r_closed r = true /\ out ++ r_buf r = List.concat chunks /\
  (forall m, len (r_buf r) <= m -> exists r', read r m = Some (r', r_buf r, true)).
Proof. intros chunks evs Hn Hne. exact (complete_if_delivered chunks Hn Hne evs). Qed.
Print Assumptions c08_complete_if_delivered.

Example c08_arrives_example : forall i, 1 <= i -> i <= nchunks ex_chunks + 1 ->
  arrives_in_window recv_init ex_chunks ex_evs i.
Proof.
  intros i H1 H2. change (nchunks ex_chunks) with 3 in H2.
  assert (Hi: i = 1 \/ i = 2 \/ i = 3 \/ i = 4) by lia.
  destruct Hi as [Hi|[Hi|[Hi|Hi]]]; subst i; vm_compute; intuition congruence.
Qed.

(* ---- segmentation law (sender.write): for every maximum frame data length m > 0 and every sequence of
   writes, the data frames carry exactly the written bytes, in order, each frame between 1 and m bytes. *)
Theorem c08_segmentation : forall (m : nat) (writes : list bytes), (0 < m)%nat ->
  List.concat (stream_chunks m writes) = List.concat writes /\
  Forall (fun c => (0 < List.length c)%nat /\ (List.length c <= m)%nat) (stream_chunks m writes).
Proof. intros. split. apply stream_chunks_concat; auto. apply stream_chunks_sizes; auto. Qed.
Print Assumptions c08_segmentation.

(* ---- retransmission buffer: for every history of writes, incoming acknowledgements (ANY 32-bit values, in any
   order: new, duplicate, stale, beyond what was sent), retransmission-timer ticks (any number, i.e. outages of
   any length) and Close, on the sender started by newSender, as long as fewer than 2^32 - 2^16 frames are
   created: sender.ackNo is the highest acknowledgement accepted so far, and the buffer `frames` is exactly the
   frames of the written stream (the segmentation of the successful writes, numbered from 1, then the FIN if
   Close was called) from number ackNo on — every frame the peer has not acknowledged is still there, with its
   original number and bytes, and nothing else is. *)
Theorem c08_retx_buffer_exact : forall (m : nat) (ops : list sop), (0 < m)%nat ->
  N.of_nat (frames_upper m ops) + two16 + 1 < two32 -> acks_32bit ops ->
  let s := fst (srun_m m sender_new ops) in
  let all := spec_frames (stream_chunks m (writes_of sender_new m ops)) (s_fin_sent s) in
  s_ack s = high_ack m sender_new ops 1 /\
  1 <= s_ack s /\ (N.to_nat (s_ack s - 1) <= List.length all)%nat /\
  map sf_proj (s_frames s) = skipn (N.to_nat (s_ack s - 1)) all.
Proof.
  intros m ops Hm Hb Ha.
  assert (W: s_wsize sender_new < two16) by (vm_compute; reflexivity).
  assert (U: (List.length (all_frames m [] (s_fin_sent sender_new)) <= 0)%nat) by (cbn; lia).
  pose proof (srun_exact m Hm ops sender_new [] 0 (sinv_init m) W U Hb Ha) as L.
  cbv zeta in *. destruct L as ((k & K1 & K2 & K3 & K4 & K5) & A).
  cbn [app] in *. split; auto. rewrite K2. replace (N.to_nat (N.of_nat k + 1 - 1)) with k by lia.
  split; [lia|]. split; auto.
Qed.
Print Assumptions c08_retx_buffer_exact.

(* the same for the constant of the code, MaxFrameDataLength = 32768 *)
Corollary c08_retx_buffer_exact_32768 : forall ops : list sop,
  let m := N.to_nat max_frame_data_length in
  N.of_nat (frames_upper m ops) + two16 + 1 < two32 -> acks_32bit ops ->
  let s := fst (srun_m m sender_new ops) in
  map sf_proj (s_frames s) =
  skipn (N.to_nat (s_ack s - 1)) (spec_frames (stream_chunks m (writes_of sender_new m ops)) (s_fin_sent s)).
Proof. intros ops m Hb Ha. apply c08_retx_buffer_exact; auto. unfold m, max_frame_data_length. lia. Qed.
Print Assumptions c08_retx_buffer_exact_32768.

Example c08_sender_history_example :
  let ops := [SWrite [1;2;3;4;5]; STick; STick; STick; STick; STick; STick; STick; SAck 2 5000000; SWrite [6]; SFin] in
  N.of_nat (frames_upper 2 ops) + two16 + 1 < two32 /\ acks_32bit ops /\
  map sf_proj (s_frames (fst (srun_m 2 sender_new ops))) = [(2, [3;4], false); (3, [5], false); (4, [6], false); (5, [], true)].
Proof. vm_compute. repeat split; reflexivity. Qed.

(* ---- the defect that was repaired (fix: "cap the retransmission timeout at maxRTO ..."): on the ORIGINAL
   timer case (rto_tick_orig: once the doubled RTO exceeds maxRTO, frames = frames[1:]) six timer ticks without
   an acknowledgement — about 12 s of outage — empty the buffer although nothing was acknowledged, so the
   statement of c08_retx_buffer_exact is false for the original code. *)
Definition ticks_orig (n : nat) (s : sender) : sender :=
  Nat.iter n (fun s => fst (rto_tick_orig s initial_rtt)) s.
Theorem c08_retx_drop_original_refuted :
  exists s1, s1 = fst (fst (sstep sender_new (SWrite [7;7;7]))) /\
    map sf_proj (s_frames s1) = [(1, [7;7;7], false)] /\
    s_ack (ticks_orig 6 s1) = 1 /\ s_frames (ticks_orig 6 s1) = [] /\
    (* while the repaired timer case keeps it, for 6 and for 60 ticks *)
    map sf_proj (s_frames (Nat.iter 6 (fun s => fst (rto_tick s)) s1)) = [(1, [7;7;7], false)] /\
    map sf_proj (s_frames (Nat.iter 60 (fun s => fst (rto_tick s)) s1)) = [(1, [7;7;7], false)].
Proof. eexists. split; [reflexivity|]. vm_compute. repeat split; reflexivity. Qed.
Print Assumptions c08_retx_drop_original_refuted.

(* ---- second repaired defect (fix: "keep a closing reliable tube in lastAck while written data is
   unacknowledged"): when the lastAck timer is allowed to close the tube, every data frame of the stream has
   been acknowledged — at most the FIN is outstanding.  (Stated for any reachable sender; the timer itself
   and the tube life-cycle are outside the model and are exercised by the black-box runs.) *)
Theorem c08_lastack_close_only_when_data_acked : forall (m : nat) (ops : list sop), (0 < m)%nat ->
  N.of_nat (frames_upper m ops) + two16 + 1 < two32 -> acks_32bit ops ->
  let s := fst (srun_m m sender_new ops) in
  let all := spec_frames (stream_chunks m (writes_of sender_new m ops)) (s_fin_sent s) in
  last_ack_timeout_closes s = true ->
  (List.length all <= N.to_nat (s_ack s - 1) + 1)%nat.
Proof.
  intros m ops Hm Hb Ha. pose proof (c08_retx_buffer_exact m ops Hm Hb Ha) as L. cbv zeta in *.
  destruct L as (_ & L1 & L2 & L3). intros Hc. unfold last_ack_timeout_closes in Hc.
  apply negb_true_iff in Hc. apply N.ltb_ge in Hc.
  assert (E: List.length (s_frames (fst (srun_m m sender_new ops))) = List.length (map sf_proj (s_frames (fst (srun_m m sender_new ops))))) by (rewrite map_length; reflexivity).
  rewrite L3, skipn_length in E. lia.
Qed.
Print Assumptions c08_lastack_close_only_when_data_acked.

(* ---- link between the two halves: whatever a sender step hands to the muxer (first transmissions, window fills,
   timeout and duplicate-ack retransmissions, the FIN) is, up to the RTR/queued flags, a frame of its
   retransmission buffer after that step — hence, by c08_retx_buffer_exact, a frame (number mod 2^32, bytes) of
   the written stream, which is exactly the kind of arrival c08_reassembly_prefix quantifies over. *)
Theorem c08_emitted_from_buffer : forall (m : nat) (s : sender) (o : sop),
  Forall (fun e : emit => In (sf_proj (snd e)) (map sf_proj (s_frames (fst (fst (sstep_m m s o))))))
         (snd (fst (sstep_m m s o))).
Proof. exact emitted_from_buffer. Qed.
Print Assumptions c08_emitted_from_buffer.

(* ================================================================== completeness of the two ends together
   Model/Link.v puts the sender (Send.v) and the receiver (Recv.v) of one direction together.
   `lossy` steps are what may happen while the network misbehaves, in any number and order: the retransmission
   timer fires and everything it sends is lost or delayed; arbitrary frames of the stream (delayed, duplicated,
   reordered copies) reach the receiver; an acknowledgement of something the receiver has consumed reaches the
   sender.  A `round` is one retransmission-timeout period in which the channel delivers: the timer case runs,
   every frame it transmits reaches the receiver (any order, any multiplicity, mixed with any other frames of the
   stream), then the receiver's acknowledgement reaches the sender.

   c08_liveness_fair_lossless_rto_rounds_partial.  For every max frame length m > 0 and every sequence of writes
   followed by Close (fewer than 2^31 - 2 frames), from the state `start`, after ANY finite sequence of lossy
   steps, for EVERY chain of k rounds:
     (1) k is at most the number of frames of the stream — each round acknowledges at least one more frame, so
         there is no infinite chain;
     (2) if the chain ends with an empty retransmission buffer, then everything is delivered: the receiver has
         consumed the FIN, what it buffered for the reader is exactly the written bytes, and a read of it reports
         EOF;
     (3) otherwise, if the sender's window is not zero (windowSize >= 1), another round is possible: the timer
         retransmits at least the oldest unacknowledged frame (rtoCounter >= 0 is part of the proved invariant).
   Hence, once the network delivers what each timeout retransmits, the stream completes within at most
   (number of unacknowledged frames) timeouts, whatever happened before.
   What is missing for the unqualified statement (hence _partial): (a) windowSize >= 1 at the end of
   the chain is a premise: windowSize = uint16(cwndSize) >= 1 is not proved (float reasoning; it is false if
   cwndSize ever reaches 65536, where the conversion wraps to 0); (b) acknowledgements that
   acknowledge nothing new are not among the lossy steps: more than 100 of them close the tube (docs/C08.md item
   4), so liveness genuinely fails under an adversarial stream of duplicate acknowledgements; (c) rounds are
   whole timeout periods — finer interleavings of ticks, deliveries and acknowledgements inside a period are
   covered only as far as `lossy` steps may precede any round; (d) real time (that the timer does fire) and the
   tube life-cycle are outside the model. *)
Theorem c08_liveness_fair_lossless_rto_rounds_partial :
  forall (m : nat) (writes : list bytes), (0 < m)%nat ->
  let all := all_frames m writes true in
  N.of_nat (List.length all) + 2 < two31 ->
  forall (y0 : sys) (k : nat) (yk : sys),
  lossy_star m all (start m writes) y0 -> rounds m all k y0 yk ->
  (k <= List.length all)%nat /\
  (s_frames (y_snd yk) = [] -> complete writes [] yk) /\
  (s_frames (y_snd yk) <> [] -> 1 <= s_wsize (y_snd yk) -> exists y', round m all yk y').
Proof. intros m writes Hm all Hs y0 k yk. apply (liveness_from_start m Hm writes Hs). Qed.
Print Assumptions c08_liveness_fair_lossless_rto_rounds_partial.

Theorem c08_tick_sends_when_window_open : forall s : sender,
  1 <= s_wsize s -> (0 <= s_rtoc s)%Z -> s_frames s <> [] -> tick_sends s.
Proof. apply (tick_sends_when_window_open 1 (Nat.lt_0_succ 0) []). vm_compute. reflexivity. Qed.
Print Assumptions c08_tick_sends_when_window_open.

(* non-vacuity: writes [1;2;3] and [4] with m = 2 give the frames 1:[1;2] 2:[3] 3:[4] 4:FIN.  The network first
   loses three timeouts' worth of retransmissions and delivers frame 3 and a duplicate of it out of order; then
   two rounds complete the stream (the third lost timeout left rtoCounter = 2, so a timeout retransmits 3 frames). *)
Definition ex_m : nat := 2.
Definition ex_writes : list bytes := [[1;2;3]; [4]].
Definition ex_all : list wire := all_frames ex_m ex_writes true.
Definition ex_y0 : sys :=
  let y := start ex_m ex_writes in
  let s3 := fst (rto_tick (fst (rto_tick (fst (rto_tick (y_snd y)))))) in
  {| y_snd := s3; y_rcv := deliver_frames (y_rcv y) [(3, [4], false); (3, [4], false)] |}.
Definition ex_y2 : sys := auto_round ex_m (auto_round ex_m ex_y0 5000000) 5000000.

Example c08_liveness_example :
  N.of_nat (List.length ex_all) + 2 < two31 /\
  lossy_star ex_m ex_all (start ex_m ex_writes) ex_y0 /\
  rounds ex_m ex_all 2 ex_y0 ex_y2 /\
  s_frames (y_snd ex_y2) = [] /\ r_closed (y_rcv ex_y2) = true /\ r_buf (y_rcv ex_y2) = [1;2;3;4].
Proof.
  split; [vm_compute; reflexivity|]. split; [|split].
  { unfold ex_y0. destruct (start ex_m ex_writes) as [s r] eqn:E. cbn [y_snd y_rcv].
    apply lossy_step with {| y_snd := fst (rto_tick s); y_rcv := r |}; [apply lossy_tick|].
    apply lossy_step with {| y_snd := fst (rto_tick (fst (rto_tick s))); y_rcv := r |}; [apply lossy_tick|].
    apply lossy_step with {| y_snd := fst (rto_tick (fst (rto_tick (fst (rto_tick s))))); y_rcv := r |}; [apply lossy_tick|].
    eapply lossy_step; [|apply lossy_refl]. apply lossy_deliver.
    intros x [H|[H|[]]]; subst x; vm_compute; auto 10. }
  { unfold ex_y2.
    assert (R: forall y, s_frames (y_snd y) <> [] -> tick_sends (y_snd y) ->
               (forall e, In e (snd (rto_tick (y_snd y))) -> In (sf_proj (snd e)) ex_all) ->
               round ex_m ex_all y (auto_round ex_m y 5000000)) by (intros; apply auto_round_round; auto).
    eapply rounds_S; [apply R|eapply rounds_S; [apply R|apply rounds_O]];
      try (vm_compute; discriminate); try (vm_compute; reflexivity);
      try (vm_compute; intros e He; repeat (destruct He as [He|He]; [subst e; cbn; auto 10|]); destruct He). }
  vm_compute. repeat split; reflexivity.
Qed.

(* ================================================================================================================
   Reliable.sendOneFrame (Model/SendOne.v, Proofs/SendOneProofs.v): the step between "the sender hands a frame to
   the muxer" (what c08_emitted_from_buffer and the liveness theorem speak about) and the muxer's queues.  It
   suppresses empty acknowledgement frames that repeat the last transmitted (ackNo, frameNo) pair.  The theorems
   say that this suppression can only ever withhold a frame that carries nothing. *)
From Hop Require Import SendOne SendOneProofs.

(* ---- in EVERY state of the suppression counters, a frame of the byte stream (payload or FIN) or a
   retransmission — everything a step of the sender model emits — is handed to the muxer: same frame number,
   on the priority queue iff it is a retransmission, stamped with the receive window's current ackNo *)
Theorem c08_stream_frames_never_suppressed : forall (st : so_state) (c : so_call),
  so_stream_frame c = true ->
  exists ackflag, snd (send_one_frame st c) = Some (sc_retx c, sc_ack c, ackflag, sc_no c).
Proof. exact stream_frame_sent. Qed.
Print Assumptions c08_stream_frames_never_suppressed.

(* ---- after every call — hence after every history of calls — the last acknowledgement number handed to the
   muxer is the receive window's current one: what was withheld repeated what the peer had already been sent *)
Theorem c08_transmitted_ack_is_current : forall (cs : list so_call) (st : so_state) (c : so_call),
  so_last_ack (fst (so_run st (cs ++ [c]))) = sc_ack c.
Proof. exact ack_current_run. Qed.
Print Assumptions c08_transmitted_ack_is_current.

(* ---- suppression is bounded: in every history from the initial state the counter stays <= 10, and from any
   such state at most 10 - unsend calls in a row hand nothing to the muxer — the 11th repetition of an
   acknowledgement is transmitted again (this is what repairs a lost acknowledgement on an otherwise idle tube) *)
Theorem c08_ack_suppression_bounded : forall (before cs : list so_call),
  let st := fst (so_run so_init before) in
  so_unsend st <= 10 /\
  (Forall (fun o => o = None) (snd (so_run st cs)) -> N.of_nat (List.length cs) + so_unsend st <= 10).
Proof.
  intros before cs st.
  assert (B: so_unsend st <= 10) by (apply unsend_bound; cbn; discriminate).
  split; [exact B|]. apply suppressed_run_short. exact B.
Qed.
Print Assumptions c08_ack_suppression_bounded.

Example c08_ack_suppression_example :
  let idle := {| sc_ack := 7; sc_no := 3; sc_dlen := 0; sc_ackflag := false; sc_fin := false; sc_resp := false; sc_retx := false |} in
  map (fun o => match o with Some _ => true | None => false end) (snd (so_run so_init (repeat idle 13)))
  = [true; false; false; false; false; false; false; false; false; false; false; true; false].
Proof. vm_compute. reflexivity. Qed.

(* ---- windowSize = uint16(cwndSize) (premise (a) of c08_liveness_fair_lossless_rto_rounds_partial): recvAck clamps
   cwndSize below at 10 but not above, and the conversion wraps at 65536 — "windowSize >= 1 after every
   acknowledgement" is false as a statement about single steps: at cwndSize = 65536 the window is 0 and the
   timer case transmits nothing although a frame is buffered.  (Such a cwndSize needs about 2.1*10^9 acknowledged
   frames of more than 1000 bytes without a window cut: docs/C08.md.  Replayed on the real sender with an
   injected cwndSize: driver class window-conversion-injected-cwnd.) *)
From Hop Require Import TubesFloat.
Open Scope N_scope.
Theorem c08_window_size_wraps_to_zero_refuted :
  exists c : float, fl_ltb c f10 = false /\ window_after_ack c = 0 /\
    forall s : sender, s_wsize s = window_after_ack c -> s_rtoc s = 0%Z -> ~ tick_sends s.
Proof.
  exists (fl_of_Z 65536). split; [vm_compute; reflexivity|]. split; [vm_compute; reflexivity|].
  intros s W R. unfold tick_sends, frames_to_send. rewrite W, R.
  replace (window_after_ack (fl_of_Z 65536)) with 0 by (vm_compute; reflexivity).
  change (Z.of_N 0) with 0%Z. change (0 <? 0)%Z with false. cbv iota.
  destruct (Z.of_nat (List.length (s_frames s)) <? 0 + 0)%Z eqn:E.
  - apply Z.ltb_lt in E. lia.
  - change (0 <? 0)%Z with false. cbv iota. lia.
Qed.
Print Assumptions c08_window_size_wraps_to_zero_refuted.

(* ---- composition with the close handshake (C16): the `fin` result of receiver.receive — finProcessed, the
   signal on which Reliable.receive moves the tube towards closed (initiated -> closeWait, finWait -> closing /
   timeWait; the input f_inorder of Model/Shutdown.v) — is reported, in ANY history of arrivals and reads
   (premise history_ok as in c08_reassembly_prefix), only by an arrival after which all n data frames and the FIN
   have been consumed in order and everything written is with the reader or buffered for it.  With
   c08_reassembly_prefix (EOF only when the reader has the whole stream) and C16's handshake theorems (which take
   f_inorder as an arbitrary input) this gives: end-of-stream and the closing transitions it triggers happen
   only after all bytes written before the close were delivered. *)
From Hop Require Import RecvFinProofs.
Theorem c08_fin_processed_only_after_all_bytes : forall (chunks : list bytes) (evs : list revent) (a : arrival),
  nchunks chunks + two32 + 2000 < two64 ->
  history_ok recv_init chunks (evs ++ [EArr a]) ->
  let '(r, out, _) := deliver recv_init chunks evs [] false in
  let '(r', fin, _) := receive r (frame_of chunks a) in
  fin = true ->
  consumed r' = S (List.length chunks) /\ out ++ r_buf r' = List.concat chunks.
Proof. intros chunks evs a Hn. exact (fin_processed_only_after_all_bytes chunks Hn evs a). Qed.
Print Assumptions c08_fin_processed_only_after_all_bytes.

(* non-vacuity: in the example history the FIN arrives early (nothing reported), the last missing data frame
   reports fin *)
Example c08_fin_processed_example :
  history_ok recv_init ex_chunks ([EArr (AData 3); EArr (AData 1); EArr AFin] ++ [EArr (AData 2)]) /\
  snd (fst (receive (fst (fst (deliver recv_init ex_chunks [EArr (AData 3); EArr (AData 1)] [] false))) (frame_of ex_chunks AFin))) = false /\
  snd (fst (receive (fst (fst (deliver recv_init ex_chunks [EArr (AData 3); EArr (AData 1); EArr AFin] [] false))) (frame_of ex_chunks (AData 2)))) = true.
Proof. vm_compute. repeat split; try reflexivity; try discriminate. Qed.
