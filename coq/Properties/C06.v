(* C06 — nothing is delegated without the principal approving that exact intent; exactly one answer per
   request; confirmation only if the target accepted and stored the grant.

   All theorems are about Model/Principal.v (principal_step = doIntentRequestChecks after the two
   `fix:` commits; target_step = handleIntentCommunication) and quantify over every finite history
   `rs` of requests, each carrying its own intent, approval decision, target-setup outcome and target
   behaviour, from every instance state `st` (so in particular from p_init).  `run st rs` is the list of
   per-request event traces; List.concat of it is the event sequence of the whole delegate connection. *)
From Hop Require Import Base Principal PrincipalProofs.
Open Scope N_scope.

(* ---- forwarded => approved, that same intent, for every request ---- *)

(* Whole-connection form: every write of an intent communication on the target connection is preceded by
   an invocation of the approval callback for that very intent (same record = all fields) that accepted,
   with no other callback invocation, no other forward and no answer in between (only a SetupCall can be). *)
Theorem c06_forward_implies_approved :
  forall (rs : list req) (st : pstate) (pre post : list event) (i : intent) (d : bool),
    List.concat (run st rs) = pre ++ ToTarget i d :: post ->
    exists pre1 c mid, pre = pre1 ++ Callback i c true :: mid /\ forallb quiet mid = true.
Proof. exact forward_implies_approved. Qed.
Print Assumptions c06_forward_implies_approved.

(* Per-request form: a forward during request r forwards r's own intent, r was approved, and the accepting
   callback invocation happened within this same request, before the forward, with no earlier forward. *)
Theorem c06_every_request_needs_its_own_approval :
  forall rs st,
    Forall2 (fun r tr => forall i d, In (ToTarget i d) tr ->
               i = r_intent r /\ r_decision r = true /\
               exists c pre post, tr = pre ++ Callback (r_intent r) c true :: post /\ In (ToTarget i d) post /\
                                  forallb (fun e => negb (is_forward e)) pre = true)
            rs (run st rs).
Proof. exact (run_Forall2 request_forward_ok step_forward_ok). Qed.
Print Assumptions c06_every_request_needs_its_own_approval.

(* the callback is always asked about the requested intent, and its answer is the decision that counts *)
Theorem c06_callback_is_asked_about_the_request :
  forall rs st,
    Forall2 (fun r tr => forall i c ok, In (Callback i c ok) tr -> i = r_intent r /\ ok = r_decision r)
            rs (run st rs).
Proof. exact (run_Forall2 request_callback_ok step_callback_ok). Qed.
Print Assumptions c06_callback_is_asked_about_the_request.

(* a denied request causes no write at all on the target connection and is never confirmed *)
Theorem c06_denied_request_never_forwarded :
  forall rs st,
    Forall2 (fun r tr => r_decision r = false ->
               forallb (fun e => negb (is_forward e)) tr = true /\ ~ In (ToDelegate DConf) tr)
            rs (run st rs).
Proof. exact (run_Forall2 request_denied_ok step_denied_ok). Qed.
Print Assumptions c06_denied_request_never_forwarded.

(* ---- what is forwarded is field for field the approved (= requested) intent ---- *)
Theorem c06_forwarded_is_approved_intent :
  forall rs st,
    Forall2 (fun r tr => forall i d, In (ToTarget i d) tr ->
               same_fields i (r_intent r) /\
               exists c pre post, tr = pre ++ Callback (r_intent r) c true :: post /\ In (ToTarget i d) post)
            rs (run st rs).
Proof. exact forwarded_is_approved_intent. Qed.
Print Assumptions c06_forwarded_is_approved_intent.

(* ---- the approval is about the right target ----
   Once connected (by request r0 of the history, whose handshake presented certificate c0), every later
   request is judged against c0, forwards only intents naming r0's target URL, and never sets up again. *)
Theorem c06_later_requests_checked_against_connected_target :
  forall rs r, connected (final p_init rs) = true ->
    exists rs1 r0 rs2 c0,
      rs = rs1 ++ r0 :: rs2 /\ connected (final p_init rs1) = false /\
      r_setup r0 = SetupCb c0 true /\ r_decision r0 = true /\
      (forall i d, In (ToTarget i d) (snd (principal_step (final p_init rs) r)) -> target_url i = target_url (r_intent r0)) /\
      (forall i c ok, In (Callback i c ok) (snd (principal_step (final p_init rs) r)) -> c = Some c0) /\
      (forall u, ~ In (SetupCall u) (snd (principal_step (final p_init rs) r))).
Proof. exact later_requests_connected_target. Qed.
Print Assumptions c06_later_requests_checked_against_connected_target.

(* Not yet connected: the callback only runs inside a setup call made for the intent's own target URL, on the
   certificate that handshake presented; a forward happens only if that setup then succeeded. *)
Theorem c06_first_request_checked_inside_target_setup :
  forall st r, connected st = false ->
    (forall i d, In (ToTarget i d) (snd (principal_step st r)) ->
       exists c, r_setup r = SetupCb c true /\ In (Callback i (Some c) true) (snd (principal_step st r))) /\
    (forall i c ok, In (Callback i c ok) (snd (principal_step st r)) ->
       exists c' post, r_setup r = SetupCb c' post /\ c = Some c' /\
         exists rest, snd (principal_step st r) = SetupCall (target_url i) :: Callback i c ok :: rest).
Proof. exact step_on_unconnected. Qed.
Print Assumptions c06_first_request_checked_inside_target_setup.

(* ---- exactly one answer per request, and it is the last thing that happens ---- *)
Theorem c06_one_answer_per_request :
  forall rs st,
    List.length (run st rs) = List.length rs /\
    Forall (fun tr => answers tr = 1%nat /\ exists pre m, tr = pre ++ [ToDelegate m]) (run st rs).
Proof. intros rs st. split; [apply run_length|exact (run_Forall one_answer_last step_one_answer rs st)]. Qed.
Print Assumptions c06_one_answer_per_request.

(* ---- a confirmation only if the target confirmed this request's (approved, delivered) intent ---- *)
Theorem c06_confirm_only_if_target_confirmed :
  forall rs st,
    Forall2 (fun r tr => In (ToDelegate DConf) tr ->
               r_reply r = TConfirm /\ r_decision r = true /\
               exists pre post, tr = pre ++ ToTarget (r_intent r) true :: post /\ In (ToDelegate DConf) post)
            rs (run st rs).
Proof. exact (run_Forall2 request_confirm_ok step_confirm_ok). Qed.
Print Assumptions c06_confirm_only_if_target_confirmed.

(* ---- target instance: confirms only after its policy accepted and the grant was stored ---- *)
Theorem c06_target_confirms_only_after_store :
  forall ms ts,
    Forall2 (fun m tr =>
               (In (TReply DConf) tr ->
                  exists i, m = TComm i true true /\ tr = [TCheck i true; TAdd i true; TReply DConf]) /\
               (forall i ok, In (TAdd i ok) tr -> exists pre post, tr = pre ++ TCheck i true :: post /\ In (TAdd i ok) post) /\
               (treplies tr <= 1)%nat)
            ms (trun ts ms).
Proof. exact trun_Forall2. Qed.
Print Assumptions c06_target_confirms_only_after_store.

(* the grants a target instance holds are exactly the communications it confirmed, in order *)
Theorem c06_target_store_is_what_it_confirmed :
  forall ms, t_store (tfinal t_init ms) = tconfirmed ms (trun t_init ms).
Proof. intro ms. exact (target_store ms t_init). Qed.
Print Assumptions c06_target_store_is_what_it_confirmed.

(* a live instance answers every well-formed communication exactly once and stays alive *)
Theorem c06_target_one_answer_per_communication :
  forall ts i c a, t_alive ts = true ->
    treplies (snd (target_step ts (TComm i c a))) = 1%nat /\ t_alive (fst (target_step ts (TComm i c a))) = true.
Proof. exact target_one_reply. Qed.
Print Assumptions c06_target_one_answer_per_communication.

(* ---- principal and target instance together: confirmed to the delegate <=> stored by the target ---- *)
(* the intents confirmed to the delegate over a whole history are exactly the grants the target stored *)
Theorem c06_confirm_only_if_target_stored :
  forall rs, t_store (snd (sfinal (p_init, t_init) rs)) = confirmed rs (srun (p_init, t_init) rs).
Proof. intro rs. exact (system_confirmed_is_stored rs (p_init, t_init) sys_inv_init). Qed.
Print Assumptions c06_confirm_only_if_target_stored.

(* and within each request the store (addAuthGrant accepting that request's intent) precedes the confirmation *)
Theorem c06_confirmation_follows_the_store :
  forall rs,
    Forall2 (fun r tr => In (PE (ToDelegate DConf)) tr ->
               exists pre mid post, tr = pre ++ TE (TAdd (e_intent r) true) :: mid ++ PE (ToDelegate DConf) :: post)
            rs (srun (p_init, t_init) rs).
Proof. exact system_confirm_after_store_init. Qed.
Print Assumptions c06_confirmation_follows_the_store.

(* ================= non-vacuity and regression witnesses ================= *)

Definition ex_i1 : intent := mkIntent 2 0 7777 1700000000 1700003600 0 [116] [117] [1; 2] [101].   (* cmd "e" *)
Definition ex_i2 : intent := mkIntent 2 0 7777 1700000000 1700003600 0 [116] [117] [1; 2] [114].   (* same target, cmd "r" *)
Definition ex_i3 : intent := mkIntent 1 0 22 0 5 1 [120] [117] [] [].                              (* another target *)

(* approve+confirm, then deny, then approve (target denies), then another target, then the link dies *)
Example c06_example_history :
  run p_init [mkReq ex_i1 true (SetupCb 7 true) TConfirm; mkReq ex_i2 false SetupEarlyFail TConfirm;
              mkReq ex_i2 true SetupEarlyFail TDeny; mkReq ex_i3 true (SetupCb 8 true) TConfirm;
              mkReq ex_i1 true SetupEarlyFail TReadFail; mkReq ex_i1 true SetupEarlyFail TConfirm]
  = [[SetupCall (target_url ex_i1); Callback ex_i1 (Some 7) true; ToTarget ex_i1 true; ToDelegate DConf];
     [Callback ex_i2 (Some 7) false; ToDelegate DDeny];
     [Callback ex_i2 (Some 7) true; ToTarget ex_i2 true; ToDelegate DDeny];
     [ToDelegate DDeny];
     [Callback ex_i1 (Some 7) true; ToTarget ex_i1 true; ToDelegate DDeny];
     [Callback ex_i1 (Some 7) true; ToTarget ex_i1 false; ToDelegate DDeny]].
Proof. vm_compute. reflexivity. Qed.

(* the premise of c06_later_requests_checked_against_connected_target is met by a real history *)
Example c06_example_connected :
  connected (final p_init [mkReq ex_i1 false (SetupCb 5 true) TConfirm; mkReq ex_i1 true (SetupCb 6 false) TConfirm;
                           mkReq ex_i1 true (SetupCb 7 true) TConfirm]) = true.
Proof. vm_compute. reflexivity. Qed.

(* principal + target instance: two confirmations, two stored grants, refused ones absent *)
Example c06_example_system :
  let rs := [mkE ex_i1 true (SetupCb 7 true) true true; mkE ex_i2 true SetupEarlyFail true false;
             mkE ex_i2 false SetupEarlyFail true true; mkE ex_i2 true SetupEarlyFail true true] in
  t_store (snd (sfinal (p_init, t_init) rs)) = [ex_i1; ex_i2] /\
  nth 0 (srun (p_init, t_init) rs) [] =
    [PE (SetupCall (target_url ex_i1)); PE (Callback ex_i1 (Some 7) true); PE (ToTarget ex_i1 true);
     TE (TCheck ex_i1 true); TE (TAdd ex_i1 true); TE (TReply DConf); PE (ToDelegate DConf)].
Proof. vm_compute. split; reflexivity. Qed.

(* Regression witnesses: the code as it was before the two repairs (principal_step_unfixed) violates the property.
   1. approve a first request, DENY a second one on the connected target: it is forwarded and confirmed anyway. *)
Example c06_unfixed_code_forwards_denied_request_refuted :
  nth 1 (run_unfixed p_init [mkReq ex_i1 true (SetupCb 7 true) TConfirm; mkReq ex_i2 false SetupEarlyFail TConfirm]) []
  = [Callback ex_i2 (Some 7) false; ToTarget ex_i2 true; ToDelegate DConf].
Proof. vm_compute. reflexivity. Qed.
(*    ... whereas the repaired step answers with a single denial and writes nothing to the target *)
Example c06_fixed_code_denies_later_request :
  nth 1 (run p_init [mkReq ex_i1 true (SetupCb 7 true) TConfirm; mkReq ex_i2 false SetupEarlyFail TConfirm]) []
  = [Callback ex_i2 (Some 7) false; ToDelegate DDeny].
Proof. vm_compute. reflexivity. Qed.
(* 2. deny the FIRST request: two denials are written for the one request. *)
Example c06_unfixed_code_two_answers_refuted :
  answers (nth 0 (run_unfixed p_init [mkReq ex_i1 false (SetupCb 7 true) TConfirm]) []) = 2%nat.
Proof. vm_compute. reflexivity. Qed.
Example c06_fixed_code_one_answer :
  nth 0 (run p_init [mkReq ex_i1 false (SetupCb 7 true) TConfirm]) []
  = [SetupCall (target_url ex_i1); Callback ex_i1 (Some 7) false; ToDelegate DDeny].
Proof. vm_compute. reflexivity. Qed.
