(* SendConc.v — concurrent writers on one Handle (transport/handle.go send): an interleaving model.
     func (c *Handle) send(msgType, b) error {
        c.writeLock.Lock(); defer c.writeLock.Unlock()                 -- WStart -> WLocked
        c.ss.m.Lock(); if closed { Unlock; return io.EOF }
        pkt, err := sealPacketLocked(...); remoteAddr := c.ss.remoteAddr; c.ss.m.Unlock()   -- WLocked -> WSealed (atomic: under ss.m)
        c.underlying.WriteMsgUDP(pkt, nil, remoteAddr)                 -- WSealed -> WDone, releases writeLock
     }
   Any number of goroutines each perform one send (WriteMsg is send after a size check; Write is a sequence of
   them); between their steps the environment may close the session (Handle.Close / an authentic close: only
   ss.m) or move the peer address (handleSessionMessage: only ss.m).  A schedule is a list of scheduler
   choices; a goroutine that cannot move (writeLock taken) stays where it is.  Definitions only. *)
From Hop Require Import Base Replay Packet.
Open Scope N_scope.

Inductive wpc :=
| WStart                               (* before writeLock.Lock() *)
| WLocked                              (* holds writeLock, about to enter the ss.m section *)
| WSealed (pkt : bytes) (a : addr)     (* left the ss.m section with the sealed packet and the address; holds writeLock *)
| WDone (err : bool).                  (* returned *)

Record wthread := mkWT { w_mt : N; w_msg : bytes; w_pc : wpc }.
Definition set_pc (t : wthread) (p : wpc) : wthread := mkWT (w_mt t) (w_msg t) p.

Record cst := mkC { c_ss : sess; c_wlock : option nat; c_thr : list wthread; c_wire : list dgram; c_panic : bool }.

Inductive cev :=
| CT (i : nat)          (* goroutine i takes its next step *)
| CClose                (* the session is closed (under ss.m) *)
| CRoam (a : addr).     (* an authentic fresh packet moved the peer address (under ss.m) *)

Fixpoint set_thr (l : list wthread) (i : nat) (t : wthread) : list wthread :=
  match l, i with
  | [], _ => []
  | _ :: r, O => t :: r
  | x :: r, S i' => x :: set_thr r i' t
  end.

(* the counter after k increments of the uint64 send counter *)
Definition iterc (c : N) (k : nat) : N := Nat.iter k (fun x => u64_add x 1) c.

Section Conc.
  Variable seal : bytes -> bytes -> bytes -> bytes.

  Definition cstep (st : cst) (e : cev) : cst :=
    if c_panic st then st else
    match e with
    | CClose => mkC (set_closed (c_ss st)) (c_wlock st) (c_thr st) (c_wire st) false
    | CRoam a => mkC (set_remote (c_ss st) a) (c_wlock st) (c_thr st) (c_wire st) false
    | CT i =>
      match nth_error (c_thr st) i with
      | None => st
      | Some t =>
        match w_pc t with
        | WStart =>
          match c_wlock st with
          | None => mkC (c_ss st) (Some i) (set_thr (c_thr st) i (set_pc t WLocked)) (c_wire st) false
          | Some _ => st                                   (* blocked in writeLock.Lock() *)
          end
        | WLocked =>
          if closed (c_ss st)
          then mkC (c_ss st) None (set_thr (c_thr st) i (set_pc t (WDone true))) (c_wire st) false
          else match seal_packet seal (c_ss st) (w_mt t) (w_msg t) with
               | Ok (ss', pkt) =>
                 mkC ss' (c_wlock st) (set_thr (c_thr st) i (set_pc t (WSealed pkt (remote (c_ss st))))) (c_wire st) false
               | _ => mkC (c_ss st) (c_wlock st) (c_thr st) (c_wire st) true     (* logrus.Panicf *)
               end
        | WSealed pkt a =>
          mkC (c_ss st) None (set_thr (c_thr st) i (set_pc t (WDone false))) (c_wire st ++ [(pkt, a)]) false
        | WDone _ => st
        end
      end
    end.

  Definition crun (st : cst) (sched : list cev) : cst := fold_left cstep sched st.

  (* n goroutines about to call send *)
  Definition cinit (ss : sess) (calls : list (N * bytes)) : cst :=
    mkC ss None (map (fun c => mkWT (fst c) (snd c) WStart) calls) [] false.

  (* "p is the datagram of one of the calls, sealed under exactly the counter c it carries" *)
  Definition image_at (ss0 : sess) (calls : list (N * bytes)) (c : N) (p : bytes) : Prop :=
    exists mt m, In (mt, m) calls /\
                 p = header mt (sid ss0) c ++ seal (key_send ss0) (take ad_len (header mt (sid ss0) c)) m.

  (* the datagrams on the wire, in wire order, carry the consecutive counters c, c+1, ... *)
  Fixpoint wire_seq (ss0 : sess) (calls : list (N * bytes)) (c : N) (w : list bytes) : Prop :=
    match w with
    | [] => True
    | p :: r => image_at ss0 calls c p /\ wire_seq ss0 calls (u64_add c 1) r
    end.
End Conc.
