// Package hvxtubes holds helpers shared by the c08 and c09 drivers (group `tubes`): small Coq
// printers missing from hv, and the scheduling in-memory MsgConn pair used by the black-box runs.
package hvxtubes

// B2N prints a bool as the N numeral 1/0.
func B2N(b bool) string {
	if b {
		return "1"
	}
	return "0"
}
