(* C14Gen.v — C14 stated directly about the Gallina code GENERATED from transport/replay.go by
   tools/go2gallina on this run (Hop.ReplayGen; see docs/XLATE.md).  Only statements; proofs are in
   Gen/ReplayGenEq.v, compiled against the freshly generated file by check's "regen" step.
   G.SlidingWindow_Check / G.SlidingWindow_Mark return `res`: Ok v, or Panic (index out of range),
   or Err (loop fuel exhausted) — each theorem below also says neither of the latter happens. *)
From Hop Require Import Base GoSem Replay ReplayProofs ReplayGenRun ReplayGenEq.
From Hop Require ReplayGen.
Open Scope N_scope.

(* the generated Check is the hand-written model's check, for every well-typed receiver and every seq *)
Theorem c14_generated_model_check_eq : forall g seq,
  G.SlidingWindow_wf g -> G.SlidingWindow_Check g seq = Ok (check (of_gen g) seq).
Proof. exact gen_check_eq. Qed.
Print Assumptions c14_generated_model_check_eq.

(* the generated Mark is the hand-written model's mark: no panic, the loop's fuel suffices *)
Theorem c14_generated_model_mark_eq : forall g seq,
  G.SlidingWindow_wf g -> is_u64 seq ->
  G.SlidingWindow_Mark g seq = Ok (to_gen (mark (of_gen g) seq)).
Proof. exact gen_mark_eq. Qed.
Print Assumptions c14_generated_model_mark_eq.

(* the type invariant (8 blocks, every value below 2^64) is preserved, so the hypotheses above are
   inductive over histories *)
Theorem c14_generated_model_mark_wf : forall g seq,
  G.SlidingWindow_wf g -> is_u64 seq ->
  exists g', G.SlidingWindow_Mark g seq = Ok g' /\ G.SlidingWindow_wf g'.
Proof. exact gen_mark_wf. Qed.
Print Assumptions c14_generated_model_mark_wf.

(* C14's main statement on the generated code: after ANY sequence of Mark calls on the zero value,
   Check says yes iff the counter was never marked and is not more than 448 below the highest *)
Theorem c14_generated_model_check_iff_fresh : forall ms c,
  Forall (fun x => x < lim) (c :: ms) ->
  exists g, foldM G.SlidingWindow_Mark ms G.SlidingWindow_zero = Ok g /\
            G.SlidingWindow_Check g c = Ok (fresh_b ms c).
Proof. exact gen_check_fresh. Qed.
Print Assumptions c14_generated_model_check_iff_fresh.

(* the transport's usage (Check, Mark iff accepted), run on the generated code, for every history *)
Theorem c14_generated_model_accept_history : forall cs,
  Forall (fun x => x < lim) cs ->
  gen_run_accept G.SlidingWindow_zero cs = Ok (spec_run [] cs).
Proof. exact gen_accept_history. Qed.
Print Assumptions c14_generated_model_accept_history.

(* arbitrary interleavings of Mark and Check calls, on the generated code *)
Theorem c14_generated_model_ops_history : forall ops, ops_lt ops ->
  gen_run_ops G.SlidingWindow_zero ops = Ok (spec_ops [] ops).
Proof. exact gen_ops_history. Qed.
Print Assumptions c14_generated_model_ops_history.

(* the receive path with forged datagrams in the history (Check, AEAD open, Mark only after success) *)
Theorem c14_generated_model_receive_path_history : forall l,
  Forall (fun p => fst p < lim) l ->
  gen_run_through G.SlidingWindow_zero l = Ok (spec_through [] l).
Proof. exact gen_receive_path_history. Qed.
Print Assumptions c14_generated_model_receive_path_history.

(* non-vacuity: the zero value is well-typed, and the generated code really runs *)
Example c14_generated_model_nonvacuous :
  G.SlidingWindow_wf G.SlidingWindow_zero /\
  gen_run_accept G.SlidingWindow_zero [5; 64; 63; 700; 252; 251; 700; 1300; 852; 851; 1300; 9223372036854775807]
  = Ok [true; true; true; true; true; false; false; true; true; false; false; true].
Proof. split; [exact zero_wf|vm_compute; reflexivity]. Qed.
