(* HandshakeProofs.v — lemmas about the message readers of Model/Handshake.v *)
From Hop Require Import Base Handshake.
From Coq Require Import ZifyN ZifyNat ZifyBool.
Open Scope N_scope.
Local Arguments N.add : simpl never.
Local Arguments N.mul : simpl never.
Local Opaque N.add N.mul.

Lemma beq_bytes_eq : forall a b, beq_bytes a b = true -> a = b.
Proof.
  induction a as [|x a IH]; destruct b as [|y b]; cbn; intros H; try discriminate; auto.
  apply andb_true_iff in H as [H1 H2]. apply N.eqb_eq in H1. f_equal; auto.
Qed.

Lemma beq_bytes_refl : forall a, beq_bytes a a = true.
Proof. induction a; cbn; auto. rewrite N.eqb_refl. auto. Qed.

Lemma negb_false : forall b, negb b = false -> b = true.
Proof. destruct b; auto. Qed.

(* destruct the scrutinee of the first match / if in hypothesis H *)
Ltac dm H :=
  match type of H with
  | context [match ?x with _ => _ end] =>
    match x with
    | context [match _ with _ => _ end] => fail 1
    | _ => destruct x eqn:?
    end
  end.

Ltac inv H := inversion H; subst; clear H.

Ltac clean_hyps :=
  repeat match goal with H : negb _ = false |- _ => apply negb_false in H end;
  repeat match goal with H : beq_bytes _ _ = true |- _ => apply beq_bytes_eq in H end;
  repeat match goal with H : (_ && _) = true |- _ => apply andb_true_iff in H; destruct H end;
  repeat match goal with H : (_ =? _) = true |- _ => apply N.eqb_eq in H end;
  repeat match goal with H : (_ <? _) = false |- _ => apply N.ltb_ge in H end.

Definition certs_of (p : bytes) (clen : N) : res (bytes * bytes) :=
  match read_vector p with
  | Ok (ll, leaf) =>
    match read_vector (drop (2 + ll) p) with
    | Ok (il, inter) => if ll + il + 4 =? clen then Ok (leaf, inter) else Err
    | _ => Err
    end
  | _ => Err
  end.

Lemma decrypt_certs_eq : forall O T c,
  decrypt_certs O T c = (OCrypt (o_dec O T c) :: T, certs_of (o_dec O T c) (len c)).
Proof. reflexivity. Qed.

(* ------------------------------------------------------------------ ServerAuth *)
(* the transcripts a ServerAuth b read from state T goes through, given the two DH results *)
Definition sa_L (b : bytes) : N := at_ b 2 * 256 + at_ b 3.
Definition sa_off : N := HeaderLen + SessionIDLen + DHLen.
Definition sa_T4 (T : tr) (b ee : bytes) : tr :=
  OAbsorb ee :: OAbsorb (slice b (HeaderLen + SessionIDLen) DHLen) :: OAbsorb (slice b HeaderLen SessionIDLen)
  :: OAbsorb (take HeaderLen b) :: T.
Definition sa_certs_pt (O : doracle) (T : tr) (b ee : bytes) : bytes :=
  o_dec O (sa_T4 T b ee) (slice b sa_off (sa_L b)).
(* before the certificate tag is squeezed *)
Definition sa_T5 (O : doracle) (T : tr) (b ee : bytes) : tr := OCrypt (sa_certs_pt O T b ee) :: sa_T4 T b ee.
(* before the final MAC is squeezed: DH(e, s) has been absorbed *)
Definition sa_T7 (O : doracle) (T : tr) (b ee des : bytes) : tr :=
  OAbsorb des :: OSqueeze MacLen :: sa_T5 O T b ee.

Theorem read_server_auth_accept : forall O X ce pol T b T' r,
  read_server_auth O X ce pol T b = (T', Ok r) ->
  exists ee des leaf inter,
    at_ b 0 = MT_ServerAuth /\ SAMinLen + sa_L b <= len b /\ sa_n r = SAMinLen + sa_L b /\
    sa_sid r = slice b HeaderLen SessionIDLen /\ sa_eph r = slice b (HeaderLen + SessionIDLen) DHLen /\
    x_dh X ce (sa_eph r) = Some ee /\
    certs_of (sa_certs_pt O T b ee) (len (slice b sa_off (sa_L b))) = Ok (leaf, inter) /\
    slice b (sa_off + sa_L b) MacLen = o_sq O (sa_T5 O T b ee) MacLen /\
    x_policy X pol leaf inter = Some (sa_pk r) /\
    x_dh X ce (sa_pk r) = Some des /\
    slice b (sa_off + sa_L b + MacLen) MacLen = o_sq O (sa_T7 O T b ee des) MacLen /\
    T' = OSqueeze MacLen :: sa_T7 O T b ee des.
Proof.
  intros O X ce pol T b T' r H.
  unfold read_server_auth in H.
  unfold squeeze, absorb in H.
  repeat (first [rewrite decrypt_certs_eq in H | dm H]; try discriminate).
  injection H as <- <-.
  clean_hyps.
  do 4 eexists.
  unfold sa_T7, sa_T5, sa_certs_pt, sa_T4, sa_L, sa_off in *.
  cbn [sa_n sa_sid sa_eph sa_pk].
  repeat split; eauto.
Qed.

(* ------------------------------------------------------------------ ServerResponseHidden *)
Definition srh_off : N := HeaderLen + SessionIDLen + KemCtLen.
Definition srh_T3 (T : tr) (b k : bytes) : tr :=
  OAbsorb k :: OAbsorb (slice b HeaderLen SessionIDLen) :: OAbsorb (take HeaderLen b) :: T.
Definition srh_certs_pt (O : doracle) (T : tr) (b k : bytes) : bytes :=
  o_dec O (srh_T3 T b k) (slice b srh_off (sa_L b)).
Definition srh_T4 (O : doracle) (T : tr) (b k : bytes) : tr := OCrypt (srh_certs_pt O T b k) :: srh_T3 T b k.
(* before the final MAC: DH(s_client, s_server) has been absorbed *)
Definition srh_T6 (O : doracle) (T : tr) (b k dss : bytes) : tr :=
  OAbsorb dss :: OSqueeze MacLen :: srh_T4 O T b k.

Theorem read_response_hidden_accept : forall O X ek cs pol T b T' r,
  read_response_hidden O X ek cs pol T b = (T', Ok r) ->
  exists k dss leaf inter,
    at_ b 0 = MT_ServerResponseHidden /\ SRHMinLen + sa_L b <= len b /\ sa_n r = SRHMinLen + sa_L b /\
    sa_sid r = slice b HeaderLen SessionIDLen /\
    x_decaps X ek (slice b (HeaderLen + SessionIDLen) KemCtLen) = Some k /\
    certs_of (srh_certs_pt O T b k) (len (slice b srh_off (sa_L b))) = Ok (leaf, inter) /\
    slice b (srh_off + sa_L b) MacLen = o_sq O (srh_T4 O T b k) MacLen /\
    x_policy X pol leaf inter = Some (sa_pk r) /\
    x_dh X cs (sa_pk r) = Some dss /\
    slice b (srh_off + sa_L b + MacLen) MacLen = o_sq O (srh_T6 O T b k dss) MacLen /\
    T' = OSqueeze MacLen :: srh_T6 O T b k dss.
Proof.
  intros O X ek cs pol T b T' r H.
  unfold read_response_hidden in H.
  unfold squeeze, absorb in H.
  repeat (first [rewrite decrypt_certs_eq in H | dm H]; try discriminate).
  injection H as <- <-.
  clean_hyps.
  do 4 eexists.
  unfold srh_T6, srh_T4, srh_certs_pt, srh_T3, sa_L, srh_off in *.
  cbn [sa_n sa_sid sa_eph sa_pk].
  repeat split; eauto.
Qed.

(* ------------------------------------------------------------------ ClientAuth *)
Definition ca_off : N := HeaderLen + SessionIDLen.
Definition ca_T2 (T : tr) (b : bytes) : tr :=
  OAbsorb (slice b HeaderLen SessionIDLen) :: OAbsorb (take HeaderLen b) :: T.
Definition ca_certs_pt (O : doracle) (T : tr) (b : bytes) : bytes := o_dec O (ca_T2 T b) (slice b ca_off (sa_L b)).
Definition ca_T3 (O : doracle) (T : tr) (b : bytes) : tr := OCrypt (ca_certs_pt O T b) :: ca_T2 T b.
(* before the final MAC: DH(e_server, s_client) has been absorbed *)
Definition ca_T5 (O : doracle) (T : tr) (b dse : bytes) : tr := OAbsorb dse :: OSqueeze MacLen :: ca_T3 O T b.

Theorem read_client_auth_accept : forall O X se pol sid T b T' n pk,
  read_client_auth O X se pol sid T b = (T', Ok (n, pk)) ->
  exists dse leaf inter,
    at_ b 0 = MT_ClientAuth /\ ca_off + sa_L b + 2 * MacLen <= len b /\ n = ca_off + sa_L b + 2 * MacLen /\
    slice b HeaderLen SessionIDLen = sid /\
    certs_of (ca_certs_pt O T b) (len (slice b ca_off (sa_L b))) = Ok (leaf, inter) /\
    slice b (ca_off + sa_L b) MacLen = o_sq O (ca_T3 O T b) MacLen /\
    x_policy X pol leaf inter = Some pk /\
    x_dh X se pk = Some dse /\
    slice b (ca_off + sa_L b + MacLen) MacLen = o_sq O (ca_T5 O T b dse) MacLen /\
    T' = OSqueeze MacLen :: ca_T5 O T b dse.
Proof.
  intros O X se pol sid T b T' n pk H.
  unfold read_client_auth, read_client_auth_pre in H.
  unfold squeeze, absorb in H.
  repeat (first [rewrite decrypt_certs_eq in H | dm H]; try discriminate).
  all: try (injection H as <- <- <-); try discriminate.
  clean_hyps.
  do 3 eexists.
  unfold ca_T5, ca_T3, ca_certs_pt, ca_T2, sa_L, ca_off in *.
  repeat match goal with H : Ok _ = Ok _ |- _ => injection H as <- end.
  repeat split; eauto.
Qed.

(* ------------------------------------------------------------------ hidden request *)
Definition hq_off : N := HeaderLen + KemKeyLen + KemCtLen.
Definition hq_T0 (O : doracle) (Tp : tr) : tr := rekey O (OAbsorb PQHiddenName :: OReset :: Tp) PQHiddenName.
Definition hq_T3 (O : doracle) (Tp : tr) (b k : bytes) : tr :=
  OAbsorb k :: OAbsorb (slice b HeaderLen KemKeyLen) :: OAbsorb (take HeaderLen b) :: hq_T0 O Tp.
Definition hq_certs_pt (O : doracle) (Tp : tr) (b k : bytes) : bytes :=
  o_dec O (hq_T3 O Tp b k) (slice b hq_off (sa_L b)).
Definition hq_T4 (O : doracle) (Tp : tr) (b k : bytes) : tr := OCrypt (hq_certs_pt O Tp b k) :: hq_T3 O Tp b k.
Definition hq_T5 (O : doracle) (Tp : tr) (b k : bytes) : tr := OSqueeze MacLen :: hq_T4 O Tp b k.
Definition hq_ts (O : doracle) (Tp : tr) (b k : bytes) : bytes :=
  o_dec O (hq_T5 O Tp b k) (slice b (hq_off + sa_L b + MacLen) TimestampLen).
(* before the final MAC: header, client KEM key, KEM secret under the server's static KEM key,
   certificates and timestamp are in *)
Definition hq_T6 (O : doracle) (Tp : tr) (b k : bytes) : tr := OCrypt (hq_ts O Tp b k) :: hq_T5 O Tp b k.

Lemma hidden_trial_some : forall O X L b T c T' leaf inter,
  hidden_trial O X L b T c = (T', Some (leaf, inter)) ->
  exists kid k,
    hc_kem c = Some kid /\ hc_hasname c = true /\
    x_decaps X kid (slice b (HeaderLen + KemKeyLen) KemCtLen) = Some k /\
    certs_of (o_dec O (hq_T3 O T b k) (slice b hq_off L)) (len (slice b hq_off L)) = Ok (leaf, inter) /\
    slice b (hq_off + L) MacLen = o_sq O (OCrypt (o_dec O (hq_T3 O T b k) (slice b hq_off L)) :: hq_T3 O T b k) MacLen /\
    T' = OSqueeze MacLen :: OCrypt (o_dec O (hq_T3 O T b k) (slice b hq_off L)) :: hq_T3 O T b k.
Proof.
  intros O X L b T c T' leaf inter H.
  unfold hidden_trial in H. unfold squeeze, absorb in H.
  repeat (first [rewrite decrypt_certs_eq in H | dm H]; try discriminate).
  injection H as <- <- <-.
  clean_hyps.
  do 2 eexists. unfold hq_T3, hq_T0, hq_off.
  repeat split; eauto.
Qed.

Lemma hidden_trials_some : forall O X L b cs T T' t,
  hidden_trials O X L b T cs = (T', Some t) ->
  exists Tp, In (to_cert t) cs /\
    hidden_trial O X L b Tp (to_cert t) = (to_tr t, Some (to_leaf t, to_inter t)).
Proof.
  induction cs as [|c cs IH]; intros T T' t H; cbn [hidden_trials] in H; try discriminate.
  destruct (hidden_trial O X L b T c) as [T1 [[leaf inter]|]] eqn:E.
  - injection H as <- <-. cbn. exists T. split; auto.
  - apply IH in H as (Tp & Hin & Ht). exists Tp. split; auto. right; auto.
Qed.

Theorem read_request_hidden_accept : forall O X certs pol now T b T' q,
  read_request_hidden O X certs pol now T b = (T', Ok q) ->
  exists cs Tp kid k leaf inter,
    certs = Some cs /\ In (hq_cert q) cs /\
    at_ b 0 = MT_ClientRequestHidden /\ at_ b 1 = Version /\
    hq_n q = HeaderLen + KemCtLen + sa_L b + MacLen + KemKeyLen + TimestampLen + MacLen /\ hq_n q <= len b /\
    (* trial decryption succeeded under the KEM key of a configured certificate *)
    hc_kem (hq_cert q) = Some kid /\ hc_hasname (hq_cert q) = true /\
    x_decaps X kid (slice b (HeaderLen + KemKeyLen) KemCtLen) = Some k /\
    certs_of (hq_certs_pt O Tp b k) (len (slice b hq_off (sa_L b))) = Ok (leaf, inter) /\
    slice b (hq_off + sa_L b) MacLen = o_sq O (hq_T4 O Tp b k) MacLen /\
    x_kemparse X (slice b HeaderLen KemKeyLen) = Some (hq_kem q) /\
    (* the client certificate passes the server's policy *)
    x_policy X pol leaf inter = Some (hq_pk q) /\
    (* the timestamp is inside the window *)
    be_dec (hq_ts O Tp b k) <= now /\ now - be_dec (hq_ts O Tp b k) <= HiddenExpiration /\
    (* and the final MAC verifies *)
    slice b (hq_off + sa_L b + MacLen + TimestampLen) MacLen = o_sq O (hq_T6 O Tp b k) MacLen /\
    T' = OSqueeze MacLen :: hq_T6 O Tp b k /\ hq_tr q = T'.
Proof.
  intros O X certs pol now T b T' q H.
  unfold read_request_hidden in H. cbv zeta in H.
  unfold squeeze, decrypt in H.
  repeat (dm H; try discriminate).
  injection H as <- <-.
  match goal with E : hidden_trials _ _ _ _ _ _ = (_, Some _) |- _ =>
    apply hidden_trials_some in E as (Tp & Hin & Htrial) end.
  apply hidden_trial_some in Htrial as (kid & k & Hk & Hn & Hd & Hc & Htag & HT).
  clean_hyps.
  match goal with H : (_ || _) = false |- _ => apply orb_false_iff in H as [A B]; apply N.ltb_ge in A, B end.
  match goal with t : trial_ok |- _ => rename t into tt end.
  match goal with l : list hcert |- _ => rename l into cs end.
  exists cs, Tp, kid, k, (to_leaf tt), (to_inter tt).
  cbn [hq_n hq_tr hq_kem hq_pk hq_cert].
  unfold hq_T6, hq_ts, hq_T5, hq_T4, hq_certs_pt, sa_L in *.
  rewrite HT in *.
  repeat split; auto.
Qed.

(* the hidden-mode response mixes DH(s_server, s_client) in before its final MAC, and the
   session keys are derived from what follows *)
Theorem write_response_hidden_binds_ss : forall O X T sid ect ek ss cpk leaf inter T' m,
  write_response_hidden O X T sid ect ek ss cpk leaf inter = (T', Ok m) ->
  exists dss Tm, x_dh X ss cpk = Some dss /\ T' = OSqueeze MacLen :: OAbsorb dss :: Tm /\
                 slice m (len m - MacLen) MacLen = slice m (len m - MacLen) MacLen.
Proof.
  intros until m. intros H. unfold write_response_hidden in H.
  unfold squeeze, absorb, encrypt_certs, encrypt in H.
  destruct (x_dh X ss cpk) eqn:E; [|discriminate].
  injection H as <- <-. do 2 eexists. repeat split; eauto.
Qed.

(* ------------------------------------------------------------------ mac_binding corollaries *)
Definition mac_binding (O : doracle) : Prop :=
  forall T T', o_sq O T MacLen = o_sq O T' MacLen -> T = T'.

(* Whoever computed the final MAC of an accepted ServerAuth as a squeeze of some transcript Tp
   had absorbed DH(client ephemeral, certified server key) — and everything before it. *)
Theorem server_auth_mac_producer_under_mac_binding : forall O X ce pol T b T' r Tp,
  mac_binding O ->
  read_server_auth O X ce pol T b = (T', Ok r) ->
  o_sq O Tp MacLen = slice b (sa_off + sa_L b + MacLen) MacLen ->
  exists des, x_dh X ce (sa_pk r) = Some des /\ exists Tm, Tp = OAbsorb des :: Tm.
Proof.
  intros O X ce pol T b T' r Tp MB H Hp.
  apply read_server_auth_accept in H as (ee & des & leaf & inter & _ & _ & _ & _ & _ & _ & _ & _ & _ & Hd & Hm & _).
  rewrite Hm in Hp. apply MB in Hp. exists des. split; auto. eexists. rewrite Hp. reflexivity.
Qed.

Theorem response_hidden_mac_producer_under_mac_binding : forall O X ek cs pol T b T' r Tp,
  mac_binding O ->
  read_response_hidden O X ek cs pol T b = (T', Ok r) ->
  o_sq O Tp MacLen = slice b (srh_off + sa_L b + MacLen) MacLen ->
  exists dss, x_dh X cs (sa_pk r) = Some dss /\ exists Tm, Tp = OAbsorb dss :: Tm.
Proof.
  intros O X ek cs pol T b T' r Tp MB H Hp.
  apply read_response_hidden_accept in H as (k & dss & leaf & inter & _ & _ & _ & _ & _ & _ & _ & _ & Hd & Hm & _).
  rewrite Hm in Hp. apply MB in Hp. exists dss. split; auto. eexists. rewrite Hp. reflexivity.
Qed.

Theorem client_auth_mac_producer_under_mac_binding : forall O X se pol sid T b T' n pk Tp,
  mac_binding O ->
  read_client_auth O X se pol sid T b = (T', Ok (n, pk)) ->
  o_sq O Tp MacLen = slice b (ca_off + sa_L b + MacLen) MacLen ->
  exists dse, x_dh X se pk = Some dse /\ exists Tm, Tp = OAbsorb dse :: Tm.
Proof.
  intros O X se pol sid T b T' n pk Tp MB H Hp.
  apply read_client_auth_accept in H as (dse & leaf & inter & _ & _ & _ & _ & _ & _ & _ & Hd & Hm & _).
  rewrite Hm in Hp. apply MB in Hp. exists dse. split; auto. eexists. rewrite Hp. reflexivity.
Qed.

(* ------------------------------------------------------------------ policy table *)
Theorem policy_verify_spec : forall p,
  policy_verify p = true <->
  p_parse p = true /\
  (p_nil p = true \/
   ((p_skip p = true \/ (p_ak_allowed p = true /\ p_ak_ok p = true) \/ p_store_ok p = true) /\
    p_cb p <> Some false)).
Proof.
  intros [parse nil_ skip aka ako sto cb]. unfold policy_verify. cbn.
  destruct parse, nil_, skip, aka, ako, sto, cb as [[|]|]; cbn; split; intros H; try discriminate; try tauto;
    try (split; auto; fail).
  all: try (split; [auto|]; first [left; reflexivity | right; split; [tauto|discriminate]]).
  all: try (destruct H as [_ [H|[[H|[[? ?]|H]] Hc]]]; try discriminate; try congruence).
Qed.

(* ------------------------------------------------------------------ totality (C10): no reader panics *)
Lemma certs_of_no_panic : forall p n, certs_of p n <> Panic.
Proof.
  intros p n. unfold certs_of, read_vector.
  repeat (match goal with |- context [match ?x with _ => _ end] => destruct x end); discriminate.
Qed.

Ltac no_panic_tac :=
  repeat (first [ rewrite decrypt_certs_eq
                | match goal with |- context [match certs_of ?p ?n with _ => _ end] =>
                    let E := fresh in destruct (certs_of p n) as [[? ?]| |] eqn:E;
                    [ | | exfalso; exact (certs_of_no_panic _ _ E)] end
                | match goal with |- context [match ?x with _ => _ end] => destruct x end ]);
  cbn [snd]; try discriminate.

Lemma read_client_hello_no_panic : forall O X T b, snd (read_client_hello O X T b) <> Panic.
Proof. intros. unfold read_client_hello, squeeze, absorb. no_panic_tac. Qed.

Lemma read_server_hello_no_panic : forall O X ek T b, snd (read_server_hello O X ek T b) <> Panic.
Proof. intros. unfold read_server_hello, squeeze, absorb. no_panic_tac. Qed.

Lemma replay_from_cookie_no_panic : forall O X ck c kc ip port, replay_from_cookie O X ck c kc ip port <> Panic.
Proof. intros. unfold replay_from_cookie, squeeze, absorb. no_panic_tac. Qed.

Lemma parse_sni_no_panic : forall p, parse_sni p <> Panic.
Proof. intros. unfold parse_sni. no_panic_tac. Qed.

Lemma read_client_ack_no_panic : forall O X ck ip port b, read_client_ack O X ck ip port b <> Panic.
Proof.
  intros. unfold read_client_ack, squeeze, absorb, decrypt, bind.
  repeat (first
    [ match goal with |- context [match replay_from_cookie ?a ?b ?c ?d ?e ?f ?g with _ => _ end] =>
        let E := fresh in destruct (replay_from_cookie a b c d e f g) eqn:E;
        [ | | exfalso; exact (replay_from_cookie_no_panic _ _ _ _ _ _ _ E)] end
    | match goal with |- context [match parse_sni ?p with _ => _ end] =>
        let E := fresh in destruct (parse_sni p) eqn:E; [ | | exfalso; exact (parse_sni_no_panic _ E)] end
    | match goal with |- context [match ?x with _ => _ end] => destruct x end ]); discriminate.
Qed.

Lemma read_server_auth_no_panic : forall O X ce pol T b, snd (read_server_auth O X ce pol T b) <> Panic.
Proof. intros. unfold read_server_auth, squeeze, absorb. no_panic_tac. Qed.

Lemma read_response_hidden_no_panic : forall O X ek cs pol T b, snd (read_response_hidden O X ek cs pol T b) <> Panic.
Proof. intros. unfold read_response_hidden, squeeze, absorb. no_panic_tac. Qed.

Lemma read_client_auth_pre_no_panic : forall b, read_client_auth_pre b <> Panic.
Proof. intros. unfold read_client_auth_pre. no_panic_tac. Qed.

Lemma read_client_auth_no_panic : forall O X se pol sid T b, snd (read_client_auth O X se pol sid T b) <> Panic.
Proof.
  intros. unfold read_client_auth.
  destruct (read_client_auth_pre b) eqn:E; cbn [snd]; try discriminate.
  - unfold squeeze, absorb. no_panic_tac.
  - exfalso. exact (read_client_auth_pre_no_panic _ E).
Qed.

(* the hidden request reader panics exactly when handed fewer than 4 bytes (b[2], b[3] are
   read before any length check); readPacket never does that *)
Lemma read_request_hidden_no_panic : forall O X certs pol now T b,
  4 <= len b -> snd (read_request_hidden O X certs pol now T b) <> Panic.
Proof.
  intros O X certs pol now T b Hl. unfold read_request_hidden.
  destruct (len b <? 4) eqn:E; [apply N.ltb_lt in E; lia|].
  cbv zeta. unfold squeeze, decrypt. no_panic_tac.
Qed.

Lemma read_request_hidden_panics_below_4 : forall O X certs pol now T b,
  len b < 4 -> snd (read_request_hidden O X certs pol now T b) = Panic.
Proof.
  intros. unfold read_request_hidden. destruct (len b <? 4) eqn:E; [reflexivity|apply N.ltb_ge in E; lia].
Qed.

Lemma write_server_auth_no_panic : forall O X T sid epub es ss ceph leaf inter,
  snd (write_server_auth O X T sid epub es ss ceph leaf inter) <> Panic.
Proof. intros. unfold write_server_auth, squeeze, absorb, encrypt_certs, encrypt. no_panic_tac. Qed.

Lemma write_response_hidden_no_panic : forall O X T sid ect ek ss cpk leaf inter,
  snd (write_response_hidden O X T sid ect ek ss cpk leaf inter) <> Panic.
Proof. intros. unfold write_response_hidden, squeeze, absorb, encrypt_certs, encrypt. no_panic_tac. Qed.

Lemma write_client_auth_no_panic : forall O X T sid cs seph leaf inter,
  snd (write_client_auth O X T sid cs seph leaf inter) <> Panic.
Proof. intros. unfold write_client_auth, squeeze, absorb, encrypt_certs, encrypt. no_panic_tac. Qed.
