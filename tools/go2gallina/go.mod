module go2gallina

go 1.21
