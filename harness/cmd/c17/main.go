// c17: concurrency driver for common.DeadlineChan and the transport Client/Server lifecycle.
//
// Three kinds of runs on the real objects:
//   - controlled: goroutines are parked at the verifYield points and granted one atomic action at
//     a time; the granted schedule is replayed on the Coq model (Corr/C17.v c17s_ok);
//   - scripted: the schedules that the model produced as witnesses of the defects found
//     (regression: they must now give the fixed behaviour);
//   - free: Go scheduler + random yields at the hook points (+ race detector when built with
//     -race); the call/return history is checked for admissibility by a search over the model's
//     interleavings inside Coq (c17f_ok).
//
// Every run is also judged by the specification oracle in queue.go / life.go.
package main

import (
	"os"
	"path/filepath"
	"strings"

	"verifharness/hv"
)

func mk(cap int, progs ...[]qop) program {
	p := program{cap: cap}
	for _, t := range progs {
		for i := range t {
			t[i].ret = -1
		}
		p.progs = append(p.progs, t)
	}
	return p
}

func rep(i, n int) []int {
	s := make([]int, n)
	for k := range s {
		s[k] = i
	}
	return s
}

func main() {
	defer hv.Flush()
	r := hv.NewRand(hv.Seed())

	// --- scripted regression schedules (found on the model, Properties/C17.v) ---
	// (a) Recv polls the empty queue; Send(7); Close; Recv resumes: must deliver 7, not EOF
	runControlled("script-data-before-eof", mk(4, []qop{{k: kRecv}}, []qop{{k: kSend, v: 7}, {k: kClose}}),
		append(append([]int{0}, rep(1, 9)...), 0, 0, 0), r)
	// variant: window after the closed flag was read
	runControlled("script-data-before-eof", mk(4, []qop{{k: kRecv}}, []qop{{k: kSend, v: 7}, {k: kClose}}),
		append(append([]int{0, 0}, rep(1, 9)...), 0, 0, 0, 0, 0), r)
	runControlled("script-data-before-eof", mk(4, []qop{{k: kRecv}}, []qop{{k: kSend, v: 7}, {k: kClose}}),
		append(append([]int{0, 0, 0, 0}, rep(1, 9)...), 0, 0, 0, 0, 0), r)
	// (b) SetDeadline races with Close and un-expires the channel; Recv must still be released
	runControlled("script-lost-wakeup", mk(4, []qop{{k: kRecv}}, []qop{{k: kSetDl, dl: 0}}, []qop{{k: kClose}}),
		[]int{0, 0, 1, 2, 2, 2, 2, 1, 0, 0, 1, 1, 0, 0, 0}, r)
	runControlled("script-lost-wakeup", mk(4, []qop{{k: kRecv}}, []qop{{k: kSetDl, dl: 3}}, []qop{{k: kClose}}),
		[]int{0, 0, 1, 2, 2, 2, 2, 1, 0, 0, 1, 1, 0, 0, 0}, r)
	// (c) fixed finding C17:close-behind-blocked-send (regression: must pass now): the second Send is
	// parked on the full queue holding the queue mutex; Close publishes closed and cancels (2 steps),
	// the Send is released with io.EOF, Close returns nil, item 1 stays queued
	runControlled("script-close-behind-send", mk(1, []qop{{k: kSend, v: 1}, {k: kSend, v: 2}}, []qop{{k: kClose}}),
		append(rep(0, 9), 1, 1, 0, 0, 1), r)
	// same with Close parked in its wait for the mutex before the Send is resumed, and with a reader
	runControlled("script-close-behind-send", mk(1, []qop{{k: kSend, v: 1}, {k: kSend, v: 2}}, []qop{{k: kClose}}),
		append(rep(0, 9), 1, 1, 1, 0, 0), r)
	runControlled("script-close-behind-send", mk(1, []qop{{k: kSend, v: 1}, {k: kSend, v: 2}}, []qop{{k: kClose}}, []qop{{k: kRecv}, {k: kRecv}}),
		append(rep(0, 9), 1, 1, 1, 0, 0, 2, 2, 2, 2, 2, 2, 2, 2), r)
	// (d) the schedule that refutes the candidate repair without the barrier in Recv
	// (c17_close_candidate_without_barrier_refuted): Send in flight at its select, Close publishes
	// closed, Recv sees closed on the empty queue: it must wait for the Send, not report io.EOF
	for _, cp := range []int{1, 2} {
		runControlled("script-recv-barrier", mk(cp, []qop{{k: kSend, v: 7}}, []qop{{k: kClose}}, []qop{{k: kRecv}, {k: kRecv}}),
			[]int{0, 0, 0, 0, 1, 2, 2, 2, 0, 0, 2, 2, 2, 2, 2, 2, 1, 1}, r)
		runControlled("script-recv-barrier", mk(cp, []qop{{k: kSend, v: 7}}, []qop{{k: kClose}}, []qop{{k: kRecv}, {k: kRecv}}),
			[]int{0, 0, 0, 0, 1, 1, 2, 2, 2, 1, 0, 0, 2, 2, 2, 2, 2, 2}, r)
	}

	if s := os.Getenv("VERIF_C17_SCRIPT"); s != "" { // manual replay: "cap;T0 ops;T1 ops|schedule" is not needed — use the replay file's fields
		_ = s
	}

	// --- controlled random schedules ---
	exploreSmall(r)
	exploreSendClose(r)
	nprog := hv.Scale(50, 1500)
	for i := 0; i < nprog; i++ {
		p := genProgram(r, false, 4, 7)
		reps := 3
		for k := 0; k < reps; k++ {
			runControlled("controlled", p, nil, r)
		}
	}
	// --- free runs ---
	nfree := hv.Scale(150, 2500)
	for i := 0; i < nfree; i++ {
		p := genProgram(r, true, 3, 5)
		runFree("free-perturbed", p, r, true)
		if i%3 == 0 {
			runFree("free", p, r, false)
		}
	}

	runLifecycle(r)
	runHandleRead(r) // hread.go: Handle.Read / ReadMsg leftover handling (Corr/CorrC17Read.v)

	// race detector reports (GORACE log_path=race in the run prefix; exitcode=0 so that the
	// cases above still reach the checker)
	if ms, _ := filepath.Glob("race.*"); len(ms) > 0 {
		b, _ := os.ReadFile(ms[0])
		txt := string(b)
		if len(txt) > 1500 {
			txt = txt[:1500]
		}
		first := ""
		for _, l := range strings.Split(txt, "\n") {
			if strings.Contains(l, ".go:") {
				first = strings.TrimSpace(l)
				break
			}
		}
		hv.Emit(hv.Case{Class: "race-detector", Desc: "go race detector report: " + first, Spec: false,
			Sig: "C17:data-race", What: txt, NT: true, Replay: map[string]interface{}{"report": txt}})
	} else {
		hv.Emit(hv.Case{Class: "race-detector", Desc: "no data race reported by the Go race detector in this run (" + raceNote() + ")", Spec: true, NT: false})
	}
}
