(* Certs.v — model of hop-go certificate verification and issuance (property C04), definitions only.

   Transcribed from (pinned commit + the C04 fix: commit):
     certs/verify.go      VerifyParent, Certificate.MatchesName, Store.VerifyLeaf, VerifyLeafFormat
     certs/issue.go       issue, IssueLeafAt, IssueIntermediate, selfSign
     authkeys/verify.go   SyncAuthKeySet.VerifyLeaf
     transport/handshake.go  HandshakeState.certificateParserAndVerifier  (-> policy_verify, reused by C01)

   Abstraction.  A certificate is the record of the fields the verifier reads.  32-byte values
   (public keys, SHA3 fingerprints) and 64-byte signatures are replaced by identifiers ([N]); the
   all-zero fingerprint and the all-zero signature have identifier 0.  Ed25519 verification is an
   oracle [sv : key -> cert -> bool] ("keys.VerifySignature(key, raw-without-last-64-bytes,
   Signature) returned true"), passed explicitly to every function (a Section variable in the
   proofs, a finite table in Corr/C04.v).  Times are integers in one arbitrary unit (the harness uses
   nanoseconds since the Unix epoch); only their order matters to the code ([time.Time.Before]).
   After the fix commit "reject certificate timestamps that time.Time cannot represent" every parsed
   timestamp is inside time.Time's range, where [Before] is the order of these integers. *)
From Hop Require Import Base.
Open Scope N_scope.

Definition key := N.
Definition fpid := N.
Definition sigid := N.
Definition rawid := N.
(* certs.Name: (Type, Label).  A nil and an empty label are the same list (bytes.Equal agrees). *)
Definition name := (N * bytes)%type.

(* certs.CertificateType: any byte value can occur in a parsed certificate *)
Definition Leaf : N := 1.
Definition Intermediate : N := 2.
Definition Root : N := 3.
Definition zero_fp : fpid := 0.
Definition zero_sig : sigid := 0.

Record cert := mkCert {
  ctype  : N;            (* Type *)
  names  : list name;    (* IDChunk.Blocks *)
  nb     : Z;            (* IssuedAt *)
  na     : Z;            (* ExpiresAt *)
  pk     : key;          (* PublicKey *)
  parent : fpid;         (* Parent *)
  sg     : sigid;        (* Signature (the struct field; VerifyParent passes this field to Ed25519) *)
  fp     : fpid;         (* Fingerprint (struct field, set by ReadFrom / issue) *)
  raw    : rawid;        (* identity of the retained byte string c.raw (0 = none) *)
  rawlen : N             (* c.raw.Len() *)
}.

Definition sigfun := key -> cert -> bool.

(* ------------------------------------------------------------------ certs/verify.go VerifyParent *)
Inductive vp_res :=
| VPOk
| VPBadParentType       (* "leaf cert parent must be an intermediate" / "... must be a root" *)
| VPRootParentNonZero   (* "root certificate must have zero'd fingerprint" *)
| VPUnknownType         (* "unknown cert type" *)
| VPMismatch            (* "mismatched parent/child" *)
| VPNoRaw               (* raw.Len() == 0 *)
| VPTruncated           (* raw.Len() < 64 *)
| VPBadSig.             (* "invalid signature" *)

Definition vp_type_check (child par : cert) : vp_res :=
  if ctype child =? Leaf then
    (if negb (ctype par =? Intermediate) then VPBadParentType else VPOk)
  else if ctype child =? Intermediate then
    (if negb (ctype par =? Root) then VPBadParentType else VPOk)
  else if ctype child =? Root then
    (if negb (ctype par =? Root) then VPBadParentType
     else if negb (parent child =? zero_fp) then VPRootParentNonZero
     else VPOk)
  else VPUnknownType.

Definition verify_parent (sv : sigfun) (child par : cert) : vp_res :=
  match vp_type_check child par with
  | VPOk =>
      if negb (ctype child =? Root) && negb (parent child =? fp par) then VPMismatch
      else if rawlen child =? 0 then VPNoRaw
      else if rawlen child <? 64 then VPTruncated
      else if sv (pk par) child then VPOk
      else VPBadSig
  | e => e
  end.

(* ------------------------------------------------------------------ Certificate.MatchesName *)
Definition name_eqb (b n : name) : bool := beq_bytes (snd b) (snd n) && (fst b =? fst n).

Definition matches_name (c : cert) (n : name) : bool :=
  if ctype c =? Leaf then existsb (fun b => name_eqb b n) (names c) else false.

(* ------------------------------------------------------------------ Store.VerifyLeaf *)
(* VerificationFailureReason, in the order of the Go constants, preceded by success.
   ReasonUnexpectedType is never produced: unexpectedTypeError reports ReasonInvalidCertificate. *)
Inductive vres :=
| VOk
| VUnknownIntermediate
| VUnknownRoot
| VMismatchedName
| VUnverifiedParent
| VUnexpectedType
| VInvalidCertificate
| VTimeInvalid
| VInternalError.

Definition vres_code (r : vres) : N :=
  match r with
  | VOk => 0 | VUnknownIntermediate => 1 | VUnknownRoot => 2 | VMismatchedName => 3
  | VUnverifiedParent => 4 | VUnexpectedType => 5 | VInvalidCertificate => 6
  | VTimeInvalid => 7 | VInternalError => 8
  end.

Definition vres_ok (r : vres) : bool := match r with VOk => true | _ => false end.

(* VerifyOptions.  [oname = None] is the zero Name (Label == nil && Type == 0: no name requested).
   [cur = None] is the zero CurrentTime: the code then reads the clock (time.Now()). *)
Record vopts := mkOpts {
  presented : option cert;
  oname     : option name;
  cur       : option Z
}.

(* Store.certs : map[SHA3Fingerprint]*Certificate *)
Definition store := fpid -> option cert.

(* now.Before(c.IssuedAt) || !now.Before(c.ExpiresAt)  is the *invalid* condition *)
Definition valid_at_b (now : Z) (c : cert) : bool := negb ((now <? nb c)%Z || negb (now <? na c)%Z).

Definition now_of (clock : Z) (o : vopts) : Z :=
  match cur o with Some t => t | None => clock end.

(* which certificate VerifyLeaf takes as the intermediate *)
Definition select_intermediate (st : store) (o : vopts) (leaf : cert) : option cert :=
  match presented o with
  | Some p => if parent leaf =? fp p then Some p else st (parent leaf)
  | None => st (parent leaf)
  end.

Definition verify_leaf (sv : sigfun) (clock : Z) (st : store) (o : vopts) (leaf : cert) : vres :=
  if negb (ctype leaf =? Leaf) then VInvalidCertificate else
  if (match oname o with Some n => negb (matches_name leaf n) | None => false end) then VMismatchedName else
  let now := now_of clock o in
  if negb (valid_at_b now leaf) then VTimeInvalid else
  match select_intermediate st o leaf with
  | None => VUnknownIntermediate
  | Some im =>
    if negb (ctype im =? Intermediate) then VInvalidCertificate else
    if negb (valid_at_b now im) then VTimeInvalid else
    if negb (fp im =? parent leaf) then VInternalError else
    match verify_parent sv leaf im with
    | VPOk =>
      match st (parent im) with
      | None => VUnknownRoot
      | Some root =>
        if negb (ctype root =? Root) then VInvalidCertificate else
        if negb (valid_at_b now root) then VTimeInvalid else
        if negb (fp root =? parent im) then VInternalError else
        match verify_parent sv im root with
        | VPOk => VOk
        | _ => VUnverifiedParent
        end
      end
    | _ => VUnverifiedParent
    end
  end.

(* certs.VerifyLeafFormat *)
Definition verify_leaf_format (o : vopts) (leaf : cert) : vres :=
  if negb (ctype leaf =? Leaf) then VInvalidCertificate else
  if (match oname o with Some n => negb (matches_name leaf n) | None => false end) then VMismatchedName else
  VOk.

(* authkeys.SyncAuthKeySet.VerifyLeaf: format, then membership of the leaf's key *)
Definition authkeys_verify (ks : list key) (o : vopts) (leaf : cert) : bool :=
  match verify_leaf_format o leaf with
  | VOk => existsb (fun k => k =? pk leaf) ks
  | _ => false
  end.

(* ------------------------------------------------------------------ specification (the property's sentence) *)
Definition valid_at (now : Z) (c : cert) : Prop := (nb c <= now < na c)%Z.

(* "signed by": Ed25519 accepts the child's signature over the child's retained bytes (all of them but
   the trailing signature) under the parent's key; a certificate without retained bytes is signed by nobody *)
Definition signed_by (sv : sigfun) (par child : cert) : Prop :=
  64 <= rawlen child /\ sv (pk par) child = true.

(* "parent issued child" (the full success condition of VerifyParent): type pairing, the child names
   the parent's fingerprint (a root names nothing), and the signature *)
Definition parent_ok (sv : sigfun) (child par : cert) : Prop :=
  ((ctype child = Leaf /\ ctype par = Intermediate /\ parent child = fp par) \/
   (ctype child = Intermediate /\ ctype par = Root /\ parent child = fp par) \/
   (ctype child = Root /\ ctype par = Root /\ parent child = zero_fp)) /\
  signed_by sv par child.

Definition name_req (o : vopts) (leaf : cert) : Prop :=
  match oname o with None => True | Some n => In n (names leaf) end.

(* the links of a chain, without the clock *)
Definition chain_links (sv : sigfun) (st : store) (o : vopts) (leaf im root : cert) : Prop :=
  ctype leaf = Leaf /\ name_req o leaf /\
  fp im = parent leaf /\ (presented o = Some im \/ st (parent leaf) = Some im) /\
  ctype im = Intermediate /\ signed_by sv im leaf /\
  st (parent im) = Some root /\ fp root = parent im /\ ctype root = Root /\ signed_by sv root im.

Definition valid_chain (sv : sigfun) (clock : Z) (st : store) (o : vopts) (leaf : cert) : Prop :=
  exists im root,
    chain_links sv st o leaf im root /\
    valid_at (now_of clock o) leaf /\ valid_at (now_of clock o) im /\ valid_at (now_of clock o) root.

(* the same with the code's deterministic choice of the intermediate (presented one first) *)
Definition valid_chain_sel (sv : sigfun) (clock : Z) (st : store) (o : vopts) (leaf : cert) : Prop :=
  exists im root,
    select_intermediate st o leaf = Some im /\
    chain_links sv st o leaf im root /\
    valid_at (now_of clock o) leaf /\ valid_at (now_of clock o) im /\ valid_at (now_of clock o) root.

(* every key of the map is the fingerprint of the certificate stored under it (what AddCertificate
   establishes) *)
Definition store_wf (st : store) : Prop := forall f c, st f = Some c -> fp c = f.

(* a presented intermediate and a stored one with the fingerprint the leaf names are the same
   certificate (follows from injectivity of the fingerprint, lemma coherent_of_fp_inj) *)
Definition presented_coherent (st : store) (o : vopts) (leaf : cert) : Prop :=
  forall p c, presented o = Some p -> fp p = parent leaf -> st (parent leaf) = Some c ->
              fp c = parent leaf -> c = p.

(* the signed part of a certificate: every field except signature and (derived) fingerprint *)
Definition body (c : cert) := (ctype c, names c, nb c, na c, pk c, parent c).

(* ------------------------------------------------------------------ certs/issue.go *)
Record identity := mkId { id_pk : key; id_names : list name }.

(* IDChunk.WriteTo / Name.WriteTo failure conditions *)
Definition chunk_len (ns : list name) : N := 2 + fold_right (fun n a => len (snd n) + 3 + a) 0 ns.
Definition serializable (ns : list name) : bool :=
  (chunk_len ns <=? 512) && forallb (fun n => len (snd n) <=? 252) ns.
(* 4 header + 8 + 8 + 32 key + 32 parent + chunk + 64 signature *)
Definition cert_len (ns : list name) : N := 148 + chunk_len ns.

(* issue(parent, child, certType, issuedAt, duration); [has_key] = parent.privateKey != nil;
   s f r = identifiers of the signature / fingerprint / bytes Go produced (oracle outputs) *)
Definition issue (par : cert) (has_key : bool) (child : identity) (ty : N) (t0 dur : Z)
                 (s : sigid) (f : fpid) (r : rawid) : option cert :=
  if fp par =? zero_fp then None else
  if negb has_key then None else
  if (dur <=? 0)%Z then None else
  if ((t0 <? nb par)%Z || negb (t0 <? na par)%Z) then None else
  let e := (t0 + dur)%Z in
  let e := if (na par <? e)%Z then na par else e in
  if negb (serializable (id_names child)) then None else
  Some (mkCert ty (id_names child) t0 e (id_pk child) (fp par) s f r (cert_len (id_names child))).

Definition issue_leaf_at (par : cert) (has_key : bool) (child : identity) (t0 dur : Z) s f r : option cert :=
  if negb (ctype par =? Intermediate) then None else issue par has_key child Leaf t0 dur s f r.

(* IssueIntermediate issues at time.Now() for 366 days; both are parameters here *)
Definition issue_intermediate (root : cert) (has_key : bool) (child : identity) (t0 dur : Z) s f r : option cert :=
  if negb (ctype root =? Root) then None else issue root has_key child Intermediate t0 dur s f r.

(* selfSign(self, type, keyPair): [kp] = public key of the key pair when one is given;
   now/exp = time.Now() and the same date five years later (computed by Go's calendar: oracle) *)
Definition self_sign (self : identity) (ty : N) (kp : option key) (now exp : Z)
                     (s : sigid) (f : fpid) (r : rawid) : option cert :=
  if (match kp with Some k => negb (id_pk self =? k) | None => false end) then None else
  if negb (serializable (id_names self)) then None else
  Some (mkCert ty (id_names self) now exp (id_pk self) zero_fp
               (match kp with Some _ => s | None => zero_sig end) f r (cert_len (id_names self))).

(* ------------------------------------------------------------------ transport/handshake.go
   certificateParserAndVerifier: the policy cascade (authorized keys -> store -> skip -> callback). *)
Record vconfig := mkCfg {
  vc_store            : store;
  vc_authkeys         : option (list key);   (* VerifyConfig.AuthKeys (nil pointer = None) *)
  vc_authkeys_allowed : bool;
  vc_skip             : bool;                (* InsecureSkipVerify *)
  vc_name             : option name;
  vc_cur              : option Z;
  vc_callback         : option (cert -> bool) (* AddVerifyCallback; true = returned nil *)
}.

Inductive pres :=
| POk (leaf : cert)     (* err == nil: the handshake goes on with this leaf *)
| PErr
| PPanic.               (* AuthKeysAllowed with a nil AuthKeys set: nil pointer dereference *)

Definition pres_code (r : pres) : N := match r with POk _ => 0 | PErr => 1 | PPanic => 2 end.

(* [pleaf]: result of parsing rawLeaf (None = parse error or trailing bytes);
   [pim]: None = no intermediate bytes given; Some None = they do not parse; Some (Some c) = parsed.
   [cfg = None]: hs.certVerify == nil (nothing is checked, the callback does not exist). *)
Definition policy_verify (sv : sigfun) (clock : Z) (cfg : option vconfig)
                         (pleaf : option cert) (pim : option (option cert)) : pres :=
  match pleaf with
  | None => PErr
  | Some leaf =>
    match pim with
    | Some None => PErr
    | _ =>
      let pi := match pim with Some (Some c) => Some c | _ => None end in
      match cfg with
      | None => POk leaf
      | Some c =>
        let o := mkOpts pi (vc_name c) (vc_cur c) in
        let store_step := vres_ok (verify_leaf sv clock (vc_store c) o leaf) in
        let callback_step :=
          match vc_callback c with
          | Some cb => if cb leaf then POk leaf else PErr
          | None => POk leaf
          end in
        if vc_skip c then callback_step
        else if vc_authkeys_allowed c then
          match vc_authkeys c with
          | None => PPanic
          | Some ks =>
            if authkeys_verify ks o leaf then callback_step
            else if store_step then callback_step else PErr
          end
        else if store_step then callback_step else PErr
      end
    end
  end.

(* ------------------------------------------------------------------ finite tables (Corr, Examples) *)
Definition store_of (l : list (fpid * cert)) : store :=
  fun f => match find (fun e => fst e =? f) l with Some e => Some (snd e) | None => None end.

(* the valid (key, retained bytes, signature field) triples of a scenario *)
Definition sig_table (t : list (key * rawid * sigid)) : sigfun :=
  fun k c => existsb (fun e => match e with (k', r', s') => (k' =? k) && (r' =? raw c) && (s' =? sg c) end) t.
