(* CertsProofs.v — lemmas about Model/Certs.v (property C04). *)
From Hop Require Import Base Certs.
From Coq Require Import ZifyN ZifyNat ZifyBool.
Open Scope N_scope.

(* ------------------------------------------------------------------ small facts *)
Lemma beq_bytes_eq : forall a b, beq_bytes a b = true <-> a = b.
Proof.
  induction a as [|x a IH]; destruct b as [|y b]; simpl; split; intro H; try congruence; try discriminate.
  - apply andb_true_iff in H. destruct H as [H1 H2]. apply N.eqb_eq in H1. apply IH in H2. congruence.
  - inversion H; subst. apply andb_true_iff. split. apply N.eqb_refl. apply IH. reflexivity.
Qed.

Lemma name_eqb_eq : forall b n, name_eqb b n = true <-> b = n.
Proof.
  intros [t1 l1] [t2 l2]. unfold name_eqb. simpl. rewrite andb_true_iff, beq_bytes_eq, N.eqb_eq.
  split. intros [? ?]; congruence. intro H; inversion H; auto.
Qed.

Lemma matches_name_spec : forall c n, ctype c = Leaf -> (matches_name c n = true <-> In n (names c)).
Proof.
  intros c n Hl. unfold matches_name. rewrite Hl. change (Leaf =? Leaf) with true. cbv iota.
  rewrite existsb_exists. split.
  - intros [b [Hin Hb]]. apply name_eqb_eq in Hb. subst. exact Hin.
  - intro Hin. exists n. split. exact Hin. apply name_eqb_eq. reflexivity.
Qed.

Lemma matches_name_nonleaf : forall c n, ctype c <> Leaf -> matches_name c n = false.
Proof.
  intros c n H. unfold matches_name. destruct (ctype c =? Leaf) eqn:E; [apply N.eqb_eq in E; contradiction|reflexivity].
Qed.

Lemma valid_at_b_spec : forall now c, valid_at_b now c = true <-> valid_at now c.
Proof. intros. unfold valid_at_b, valid_at. lia. Qed.

Lemma valid_at_b_false : forall now c, valid_at_b now c = false <-> ~ valid_at now c.
Proof. intros. unfold valid_at_b, valid_at. lia. Qed.

Definition name_req_b (o : vopts) (leaf : cert) : bool :=
  match oname o with Some n => matches_name leaf n | None => true end.

Lemma name_req_spec : forall o leaf, ctype leaf = Leaf -> (name_req_b o leaf = true <-> name_req o leaf).
Proof.
  intros o leaf Hl. unfold name_req_b, name_req. destruct (oname o).
  - apply matches_name_spec. exact Hl.
  - tauto.
Qed.

(* ------------------------------------------------------------------ VerifyParent *)
Section WithOracle.
Variable sv : sigfun.

Lemma verify_parent_ok_iff : forall child par, verify_parent sv child par = VPOk <-> parent_ok sv child par.
Proof.
  intros child par. unfold verify_parent, vp_type_check, parent_ok, signed_by, Leaf, Intermediate, Root, zero_fp.
  destruct (ctype child =? 1) eqn:E1; [apply N.eqb_eq in E1|apply N.eqb_neq in E1].
  - destruct (ctype par =? 2) eqn:E2; [apply N.eqb_eq in E2|apply N.eqb_neq in E2]; cbn [negb].
    + replace (ctype child =? 3) with false by (symmetry; apply N.eqb_neq; lia). cbn [negb andb].
      destruct (parent child =? fp par) eqn:E3; [apply N.eqb_eq in E3|apply N.eqb_neq in E3]; cbn [negb].
      * destruct (rawlen child =? 0) eqn:E4; [apply N.eqb_eq in E4|apply N.eqb_neq in E4].
        { split; [discriminate|]. intros [_ [H _]]. lia. }
        destruct (rawlen child <? 64) eqn:E5; [apply N.ltb_lt in E5|apply N.ltb_ge in E5].
        { split; [discriminate|]. intros [_ [H _]]. lia. }
        destruct (sv (pk par) child) eqn:E6.
        { split; [|reflexivity]. intros _. split; [left; auto|split; [lia|reflexivity]]. }
        { split; [discriminate|]. intros [_ [_ H]]. discriminate. }
      * split; [discriminate|]. intros [[H|[H|H]] _]; lia.
    + split; [discriminate|]. intros [[H|[H|H]] _]; lia.
  - destruct (ctype child =? 2) eqn:E2; [apply N.eqb_eq in E2|apply N.eqb_neq in E2].
    + destruct (ctype par =? 3) eqn:E3; [apply N.eqb_eq in E3|apply N.eqb_neq in E3]; cbn [negb].
      * replace (ctype child =? 3) with false by (symmetry; apply N.eqb_neq; lia). cbn [negb andb].
        destruct (parent child =? fp par) eqn:E4; [apply N.eqb_eq in E4|apply N.eqb_neq in E4]; cbn [negb].
        { destruct (rawlen child =? 0) eqn:E5; [apply N.eqb_eq in E5|apply N.eqb_neq in E5].
          { split; [discriminate|]. intros [_ [H _]]. lia. }
          destruct (rawlen child <? 64) eqn:E6; [apply N.ltb_lt in E6|apply N.ltb_ge in E6].
          { split; [discriminate|]. intros [_ [H _]]. lia. }
          destruct (sv (pk par) child) eqn:E7.
          { split; [|reflexivity]. intros _. split; [right; left; auto|split; [lia|reflexivity]]. }
          { split; [discriminate|]. intros [_ [_ H]]. discriminate. } }
        { split; [discriminate|]. intros [[H|[H|H]] _]; lia. }
      * split; [discriminate|]. intros [[H|[H|H]] _]; lia.
    + destruct (ctype child =? 3) eqn:E3; [apply N.eqb_eq in E3|apply N.eqb_neq in E3].
      * destruct (ctype par =? 3) eqn:E4; [apply N.eqb_eq in E4|apply N.eqb_neq in E4]; cbn [negb].
        { destruct (parent child =? 0) eqn:E5; [apply N.eqb_eq in E5|apply N.eqb_neq in E5]; cbn [negb andb].
          { destruct (rawlen child =? 0) eqn:E6; [apply N.eqb_eq in E6|apply N.eqb_neq in E6].
            { split; [discriminate|]. intros [_ [H _]]. lia. }
            destruct (rawlen child <? 64) eqn:E7; [apply N.ltb_lt in E7|apply N.ltb_ge in E7].
            { split; [discriminate|]. intros [_ [H _]]. lia. }
            destruct (sv (pk par) child) eqn:E8.
            { split; [|reflexivity]. intros _. split; [right; right; auto|split; [lia|reflexivity]]. }
            { split; [discriminate|]. intros [_ [_ H]]. discriminate. } }
          { split; [discriminate|]. intros [[H|[H|H]] _]; lia. } }
        { split; [discriminate|]. intros [[H|[H|H]] _]; lia. }
      * split; [discriminate|]. intros [[H|[H|H]] _]; lia.
Qed.

(* the two uses inside VerifyLeaf *)
Lemma verify_parent_leaf : forall leaf im,
  ctype leaf = Leaf -> ctype im = Intermediate -> fp im = parent leaf ->
  (verify_parent sv leaf im = VPOk <-> signed_by sv im leaf).
Proof.
  intros leaf im H1 H2 H3. rewrite verify_parent_ok_iff. unfold parent_ok. split.
  - tauto.
  - intro H. split; [left; auto|exact H].
Qed.

Lemma verify_parent_im : forall im root,
  ctype im = Intermediate -> ctype root = Root -> fp root = parent im ->
  (verify_parent sv im root = VPOk <-> signed_by sv root im).
Proof.
  intros im root H1 H2 H3. rewrite verify_parent_ok_iff. unfold parent_ok. split.
  - tauto.
  - intro H. split; [right; left; auto|exact H].
Qed.

(* ------------------------------------------------------------------ Store.VerifyLeaf *)
Variable clock : Z.

Lemma select_offered : forall st o leaf im,
  select_intermediate st o leaf = Some im ->
  (presented o = Some im /\ fp im = parent leaf) \/ st (parent leaf) = Some im.
Proof.
  intros st o leaf im. unfold select_intermediate. destruct (presented o) as [p|].
  - destruct (parent leaf =? fp p) eqn:E.
    + apply N.eqb_eq in E. intro H. inversion H; subst. left. auto.
    + auto.
  - auto.
Qed.

(* VerifyLeaf = OK exactly for the chains built on the certificate the code selects; no hypotheses *)
Lemma verify_leaf_ok_sel : forall st o leaf,
  verify_leaf sv clock st o leaf = VOk <-> valid_chain_sel sv clock st o leaf.
Proof.
  intros st o leaf. unfold verify_leaf, valid_chain_sel.
  destruct (ctype leaf =? Leaf) eqn:EL; [apply N.eqb_eq in EL|apply N.eqb_neq in EL]; cbn [negb].
  2:{ split; [discriminate|]. intros [im [root [_ [[H _] _]]]]. contradiction. }
  fold (name_req_b o leaf).
  assert (HN : (match oname o with Some n => negb (matches_name leaf n) | None => false end) = negb (name_req_b o leaf)).
  { unfold name_req_b. destruct (oname o); reflexivity. }
  rewrite HN. clear HN.
  destruct (name_req_b o leaf) eqn:EN; cbn [negb].
  2:{ split; [discriminate|]. intros [im [root [_ [[_ [H _]] _]]]].
      apply (name_req_spec o leaf EL) in H. congruence. }
  apply (name_req_spec o leaf EL) in EN.
  destruct (valid_at_b (now_of clock o) leaf) eqn:ET; cbn [negb].
  2:{ split; [discriminate|]. intros [im [root [_ [_ [H _]]]]].
      apply valid_at_b_spec in H. congruence. }
  apply valid_at_b_spec in ET.
  destruct (select_intermediate st o leaf) as [im|] eqn:ES.
  2:{ split; [discriminate|]. intros [im [root [H _]]]. discriminate. }
  destruct (ctype im =? Intermediate) eqn:EI; [apply N.eqb_eq in EI|apply N.eqb_neq in EI]; cbn [negb].
  2:{ split; [discriminate|]. intros [im' [root [H [[_ [_ [_ [_ [H5 _]]]]] _]]]].
      inversion H; subst. contradiction. }
  destruct (valid_at_b (now_of clock o) im) eqn:ETI; cbn [negb].
  2:{ split; [discriminate|]. intros [im' [root [H [_ [_ [H2 _]]]]]].
      inversion H; subst. apply valid_at_b_spec in H2. congruence. }
  apply valid_at_b_spec in ETI.
  destruct (fp im =? parent leaf) eqn:EF; [apply N.eqb_eq in EF|apply N.eqb_neq in EF]; cbn [negb].
  2:{ split; [discriminate|]. intros [im' [root [H [[_ [_ [H3 _]]] _]]]].
      inversion H; subst. contradiction. }
  pose proof (verify_parent_leaf leaf im EL EI EF) as HVP.
  destruct (verify_parent sv leaf im) eqn:EVP;
    try (split; [discriminate|]; intros [im' [root [H [[_ [_ [_ [_ [_ [H6 _]]]]]] _]]]];
         inversion H; subst; apply HVP in H6; discriminate).
  assert (HS : signed_by sv im leaf) by (apply HVP; reflexivity). clear HVP.
  destruct (st (parent im)) as [root|] eqn:ER.
  2:{ split; [discriminate|]. intros [im' [root [H [[_ [_ [_ [_ [_ [_ [H7 _]]]]]]] _]]]].
      inversion H; subst. congruence. }
  destruct (ctype root =? Root) eqn:ERT; [apply N.eqb_eq in ERT|apply N.eqb_neq in ERT]; cbn [negb].
  2:{ split; [discriminate|]. intros [im' [root' [H [[_ [_ [_ [_ [_ [_ [H7 [_ [H9 _]]]]]]]]] _]]]].
      inversion H; subst. rewrite ER in H7. inversion H7; subst. contradiction. }
  destruct (valid_at_b (now_of clock o) root) eqn:ETR; cbn [negb].
  2:{ split; [discriminate|]. intros [im' [root' [H [[_ [_ [_ [_ [_ [_ [H7 _]]]]]]] [_ [_ H3]]]]]].
      inversion H; subst. rewrite ER in H7. inversion H7; subst. apply valid_at_b_spec in H3. congruence. }
  apply valid_at_b_spec in ETR.
  destruct (fp root =? parent im) eqn:EFR; [apply N.eqb_eq in EFR|apply N.eqb_neq in EFR]; cbn [negb].
  2:{ split; [discriminate|]. intros [im' [root' [H [[_ [_ [_ [_ [_ [_ [H7 [H8 _]]]]]]]] _]]]].
      inversion H; subst. rewrite ER in H7. inversion H7; subst. contradiction. }
  pose proof (verify_parent_im im root EI ERT EFR) as HVR.
  destruct (verify_parent sv im root) eqn:EVR;
    try (split; [discriminate|]; intros [im' [root' [H [[_ [_ [_ [_ [_ [_ [H7 [_ [_ H10]]]]]]]]] _]]]];
         inversion H; subst; rewrite ER in H7; inversion H7; subst; apply HVR in H10; discriminate).
  assert (HSR : signed_by sv root im) by (apply HVR; reflexivity). clear HVR.
  split; [intros _|reflexivity].
  exists im, root. split; [reflexivity|]. split; [|auto].
  unfold chain_links. repeat split; auto; try apply HS; try apply HSR.
  destruct (select_offered _ _ _ _ ES) as [[H _]|H]; auto.
Qed.

(* soundness needs nothing *)
Lemma verify_leaf_sound : forall st o leaf,
  verify_leaf sv clock st o leaf = VOk -> valid_chain sv clock st o leaf.
Proof.
  intros st o leaf H. apply verify_leaf_ok_sel in H. destruct H as [im [root [_ H]]].
  exists im, root. exact H.
Qed.

(* completeness needs: the certificate the code selects is the one the chain is built on *)
Lemma select_of_links : forall st o leaf im root,
  presented_coherent st o leaf ->
  chain_links sv st o leaf im root -> select_intermediate st o leaf = Some im.
Proof.
  intros st o leaf im root Hc [_ [_ [Hfp [Hoff _]]]]. unfold select_intermediate.
  destruct (presented o) as [p|] eqn:EP.
  - destruct (parent leaf =? fp p) eqn:E; [apply N.eqb_eq in E|apply N.eqb_neq in E].
    + destruct Hoff as [H|H]; [congruence|].
      f_equal. symmetry. apply (Hc p im); auto.
    + destruct Hoff as [H|H]; [inversion H; subst; congruence|exact H].
  - destruct Hoff as [H|H]; [discriminate|exact H].
Qed.

Lemma verify_leaf_complete : forall st o leaf,
  presented_coherent st o leaf ->
  valid_chain sv clock st o leaf -> verify_leaf sv clock st o leaf = VOk.
Proof.
  intros st o leaf Hc [im [root [HL HT]]]. apply verify_leaf_ok_sel.
  exists im, root. split; [eapply select_of_links; eauto|]. auto.
Qed.

Lemma verify_leaf_iff : forall st o leaf,
  presented_coherent st o leaf ->
  (verify_leaf sv clock st o leaf = VOk <-> valid_chain sv clock st o leaf).
Proof.
  intros. split; [apply verify_leaf_sound|apply verify_leaf_complete; assumption].
Qed.

(* coherence from fingerprint injectivity on a universe [U] of certificates *)
Lemma coherent_of_fp_inj : forall (U : cert -> Prop) st o leaf,
  (forall c1 c2, U c1 -> U c2 -> fp c1 = fp c2 -> c1 = c2) ->
  (forall p, presented o = Some p -> U p) ->
  (forall f c, st f = Some c -> U c) ->
  presented_coherent st o leaf.
Proof.
  intros U st o leaf Hinj HP HS p c H1 H2 H3 H4.
  apply Hinj; eauto. congruence.
Qed.

(* no presented intermediate: nothing to be coherent about *)
Lemma coherent_none : forall st o leaf, presented o = None -> presented_coherent st o leaf.
Proof. intros st o leaf H p c H1. congruence. Qed.

(* ------------------------------------------------------------------ the clock enters only through the three windows *)
Definition with_cur (o : vopts) (t : Z) : vopts := mkOpts (presented o) (oname o) (Some t).

Lemma chain_links_cur : forall st o t leaf im root,
  chain_links sv st (with_cur o t) leaf im root <-> chain_links sv st o leaf im root.
Proof. intros. unfold chain_links, name_req, with_cur. simpl. tauto. Qed.

Lemma select_cur : forall st o t leaf,
  select_intermediate st (with_cur o t) leaf = select_intermediate st o leaf.
Proof. reflexivity. Qed.

Lemma verify_leaf_window : forall st o leaf im root t,
  select_intermediate st o leaf = Some im ->
  chain_links sv st o leaf im root ->
  (verify_leaf sv clock st (with_cur o t) leaf = VOk <->
   valid_at t leaf /\ valid_at t im /\ valid_at t root).
Proof.
  intros st o leaf im root t HS HL. rewrite verify_leaf_ok_sel. unfold valid_chain_sel.
  rewrite select_cur. change (now_of clock (with_cur o t)) with t.
  split.
  - intros [im' [root' [H1 [H2 H3]]]]. rewrite HS in H1. inversion H1; subst im'.
    apply (proj1 (chain_links_cur _ _ _ _ _ _)) in H2.
    assert (root' = root).
    { destruct H2 as [_ [_ [_ [_ [_ [_ [Ha _]]]]]]]. destruct HL as [_ [_ [_ [_ [_ [_ [Hb _]]]]]]]. congruence. }
    subst. exact H3.
  - intro H. exists im, root. split; [exact HS|]. split; [apply (proj2 (chain_links_cur _ _ _ _ _ _)); exact HL|exact H].
Qed.

(* ------------------------------------------------------------------ rejections that hold for every input *)
Lemma verify_leaf_expired : forall st o leaf,
  (na leaf <= now_of clock o)%Z -> verify_leaf sv clock st o leaf <> VOk.
Proof.
  intros st o leaf H HV. apply verify_leaf_sound in HV.
  destruct HV as [im [root [_ [[_ H1] _]]]]. lia.
Qed.

Lemma verify_leaf_not_yet : forall st o leaf,
  (now_of clock o < nb leaf)%Z -> verify_leaf sv clock st o leaf <> VOk.
Proof.
  intros st o leaf H HV. apply verify_leaf_sound in HV.
  destruct HV as [im [root [_ [[H1 _] _]]]]. lia.
Qed.

Lemma verify_leaf_wrong_type : forall st o leaf,
  ctype leaf <> Leaf -> verify_leaf sv clock st o leaf <> VOk.
Proof.
  intros st o leaf H HV. apply verify_leaf_sound in HV.
  destruct HV as [im [root [[H1 _] _]]]. contradiction.
Qed.

Lemma verify_leaf_name_type : forall st o leaf t l,
  oname o = Some (t, l) -> (forall t', In (t', l) (names leaf) -> t' <> t) ->
  verify_leaf sv clock st o leaf <> VOk.
Proof.
  intros st o leaf t l Ho Hn HV. apply verify_leaf_sound in HV.
  destruct HV as [im [root [[_ [H1 _]] _]]]. unfold name_req in H1. rewrite Ho in H1.
  apply (Hn t H1). reflexivity.
Qed.

(* whatever is stored under the fingerprint the selected intermediate names must be of root type *)
Lemma verify_leaf_anchor_type : forall st o leaf im r,
  select_intermediate st o leaf = Some im -> st (parent im) = Some r -> ctype r <> Root ->
  verify_leaf sv clock st o leaf <> VOk.
Proof.
  intros st o leaf im r HS HR HT HV. apply verify_leaf_ok_sel in HV.
  destruct HV as [im' [root [H1 [[_ [_ [_ [_ [_ [_ [H7 [_ [H9 _]]]]]]]]] _]]]].
  rewrite HS in H1. inversion H1; subst. rewrite HR in H7. inversion H7; subst. contradiction.
Qed.

(* a presented intermediate whose fingerprint the leaf does not name is ignored *)
Lemma presented_other_fp_ignored : forall st o leaf p,
  presented o = Some p -> fp p <> parent leaf ->
  verify_leaf sv clock st o leaf = verify_leaf sv clock st (mkOpts None (oname o) (cur o)) leaf.
Proof.
  intros st o leaf p HP HF. unfold verify_leaf, select_intermediate, now_of. cbn [presented oname cur].
  rewrite HP. destruct (parent leaf =? fp p) eqn:E; [apply N.eqb_eq in E; congruence|reflexivity].
Qed.


(* the expiry bound is exclusive, for each of the three certificates; the last instant before the
   leaf's expiry is accepted when it lies inside the other two windows *)
Lemma expiry_exclusive_all : forall st o leaf im root,
  select_intermediate st o leaf = Some im -> chain_links sv st o leaf im root ->
  verify_leaf sv clock st (with_cur o (na leaf)) leaf <> VOk /\
  verify_leaf sv clock st (with_cur o (na im)) leaf <> VOk /\
  verify_leaf sv clock st (with_cur o (na root)) leaf <> VOk.
Proof.
  intros st o leaf im root HS HL.
  repeat split; intro H; apply (verify_leaf_window st o leaf im root _ HS HL) in H;
    unfold valid_at in H; lia.
Qed.

Lemma last_instant_accepted : forall st o leaf im root,
  select_intermediate st o leaf = Some im -> chain_links sv st o leaf im root ->
  (nb leaf <= na leaf - 1)%Z -> valid_at (na leaf - 1) im -> valid_at (na leaf - 1) root ->
  verify_leaf sv clock st (with_cur o (na leaf - 1)) leaf = VOk.
Proof.
  intros st o leaf im root HS HL H1 H2 H3.
  apply (verify_leaf_window st o leaf im root _ HS HL). unfold valid_at in *. lia.
Qed.

Lemma first_instant_accepted : forall st o leaf im root,
  select_intermediate st o leaf = Some im -> chain_links sv st o leaf im root ->
  (nb leaf < na leaf)%Z -> valid_at (nb leaf) im -> valid_at (nb leaf) root ->
  verify_leaf sv clock st (with_cur o (nb leaf)) leaf = VOk /\
  verify_leaf sv clock st (with_cur o (nb leaf - 1)) leaf <> VOk.
Proof.
  intros st o leaf im root HS HL H1 H2 H3. split.
  - apply (verify_leaf_window st o leaf im root _ HS HL). unfold valid_at in *. lia.
  - intro H. apply (verify_leaf_window st o leaf im root _ HS HL) in H. unfold valid_at in H. lia.
Qed.

(* acceptance exhibits a root-type trust anchor in the store *)
Lemma accepted_anchor_root : forall st o leaf,
  verify_leaf sv clock st o leaf = VOk ->
  exists im root, fp im = parent leaf /\ st (parent im) = Some root /\ fp root = parent im /\ ctype root = Root.
Proof.
  intros st o leaf H. apply verify_leaf_sound in H.
  destruct H as [im [root [[_ [_ [H3 [_ [_ [_ [H7 [H8 [H9 _]]]]]]]]] _]]].
  exists im, root. auto.
Qed.

Lemma body_differs : forall c1 c2,
  (ctype c1 <> ctype c2 \/ names c1 <> names c2 \/ nb c1 <> nb c2 \/ na c1 <> na c2 \/
   pk c1 <> pk c2 \/ parent c1 <> parent c2) -> body c1 <> body c2.
Proof. intros c1 c2 H E. unfold body in E. inversion E. tauto. Qed.

(* ------------------------------------------------------------------ mutations, under idealised crypto *)
Section Crypto.
Variable U : cert -> Prop.   (* the certificates that exist in a scenario (parsed byte strings) *)

(* SHA3-256 has no collision among them *)
Hypothesis fp_inj : forall c1 c2, U c1 -> U c2 -> fp c1 = fp c2 -> c1 = c2.
(* an Ed25519 signature value authenticates one body: if the same 64 bytes verify for two
   certificates (under any keys), the signed fields are the same *)
Hypothesis sig_sound : forall k1 k2 c1 c2, U c1 -> U c2 ->
  sv k1 c1 = true -> sv k2 c2 = true -> sg c1 = sg c2 -> body c1 = body c2.

Lemma accepted_signed : forall st o leaf,
  verify_leaf sv clock st o leaf = VOk -> exists im, sv (pk im) leaf = true.
Proof.
  intros st o leaf H. apply verify_leaf_sound in H.
  destruct H as [im [root [[_ [_ [_ [_ [_ [[_ H] _]]]]]] _]]]. exists im. exact H.
Qed.

(* changing any signed field of a verified leaf (keeping its signature bytes): rejected, whatever
   store, options and clock the mutated certificate is then checked with *)
Lemma leaf_field_mutation_rejected : forall st o leaf st' o' leaf',
  U leaf -> U leaf' ->
  verify_leaf sv clock st o leaf = VOk ->
  sg leaf' = sg leaf -> body leaf' <> body leaf ->
  verify_leaf sv clock st' o' leaf' <> VOk.
Proof.
  intros st o leaf st' o' leaf' HU HU' HV HS HB HV'.
  destruct (accepted_signed _ _ _ HV) as [im H1].
  destruct (accepted_signed _ _ _ HV') as [im' H2].
  apply HB. eapply sig_sound; eauto.
Qed.

Lemma leaf_any_field_mutation_rejected : forall st o leaf st' o' leaf',
  U leaf -> U leaf' ->
  verify_leaf sv clock st o leaf = VOk ->
  sg leaf' = sg leaf ->
  (ctype leaf' <> ctype leaf \/ names leaf' <> names leaf \/ nb leaf' <> nb leaf \/ na leaf' <> na leaf \/
   pk leaf' <> pk leaf \/ parent leaf' <> parent leaf) ->
  verify_leaf sv clock st' o' leaf' <> VOk.
Proof.
  intros st o leaf st' o' leaf' HU HU' HV HS HD.
  apply (leaf_field_mutation_rejected st o leaf st' o' leaf' HU HU' HV HS). apply body_differs. exact HD.
Qed.

(* the intermediate that an accepting run used is the genuine one: the only certificate of the
   universe with the fingerprint the leaf names *)
Lemma accepted_intermediate_genuine : forall st o leaf im,
  (forall p, presented o = Some p -> U p) -> (forall f c, st f = Some c -> U c) ->
  U im -> fp im = parent leaf ->
  verify_leaf sv clock st o leaf = VOk ->
  presented o = Some im \/ st (parent leaf) = Some im.
Proof.
  intros st o leaf im HP HS HU HF HV. apply verify_leaf_sound in HV.
  destruct HV as [im' [root [[_ [_ [H3 [H4 _]]]] _]]].
  assert (im' = im).
  { apply fp_inj; auto; [|congruence]. destruct H4 as [H|H]; eauto. }
  subst. exact H4.
Qed.

(* hence: a mutated copy [im'] of the intermediate (any field, signature or fingerprint differs),
   offered in place of the genuine one, makes verification fail *)
Lemma intermediate_mutation_rejected : forall st o leaf im im',
  (forall f c, st f = Some c -> U c) ->
  U im -> U im' -> fp im = parent leaf -> im' <> im ->
  presented o = Some im' -> st (parent leaf) <> Some im ->
  verify_leaf sv clock st o leaf <> VOk.
Proof.
  intros st o leaf im im' HS HU HU' HF HN HP HSt HV.
  destruct (accepted_intermediate_genuine st o leaf im) as [H|H]; auto.
  - intros p Hp. rewrite HP in Hp. inversion Hp; subst. exact HU'.
  - rewrite HP in H. inversion H. contradiction.
Qed.

Lemma accepted_root_genuine : forall st o leaf root,
  (forall p, presented o = Some p -> U p) -> (forall f c, st f = Some c -> U c) ->
  U root ->
  verify_leaf sv clock st o leaf = VOk ->
  (exists im, (presented o = Some im \/ st (parent leaf) = Some im) /\ fp im = parent leaf /\ parent im = fp root) ->
  st (fp root) = Some root.
Proof.
  intros st o leaf root HP HS HU HV [im [Hoff [Hf Hpr]]]. apply verify_leaf_sound in HV.
  destruct HV as [im' [root' [[_ [_ [H3 [H4 [_ [_ [H7 [H8 _]]]]]]]] _]]].
  assert (im' = im).
  { apply fp_inj; [destruct H4 as [H|H]; eauto|destruct Hoff as [H|H]; eauto|congruence]. }
  subst im'. assert (root' = root).
  { apply fp_inj; eauto. congruence. }
  subst. rewrite <- Hpr. exact H7.
Qed.

(* Ed25519 signatures are unique per (key, body) among the certificates of the scenario
   (deterministic honest signers + strong unforgeability): flipping signature bits is rejected *)
Hypothesis sig_unique : forall k c1 c2, U c1 -> U c2 ->
  sv k c1 = true -> sv k c2 = true -> body c1 = body c2 -> sg c1 = sg c2.

Lemma leaf_signature_mutation_rejected : forall st o leaf o' leaf',
  (forall p, presented o = Some p -> U p) -> (forall p, presented o' = Some p -> U p) ->
  (forall f c, st f = Some c -> U c) ->
  U leaf -> U leaf' ->
  verify_leaf sv clock st o leaf = VOk ->
  body leaf' = body leaf -> sg leaf' <> sg leaf ->
  verify_leaf sv clock st o' leaf' <> VOk.
Proof.
  intros st o leaf o' leaf' HP HP' HS HU HU' HV HB HSg HV'.
  apply verify_leaf_sound in HV. apply verify_leaf_sound in HV'.
  destruct HV as [im [root [[_ [_ [H3 [H4 [_ [[_ H6] _]]]]]] _]]].
  destruct HV' as [im' [root' [[_ [_ [H3' [H4' [_ [[_ H6'] _]]]]]] _]]].
  assert (parent leaf' = parent leaf) by (unfold body in HB; congruence).
  assert (im' = im).
  { apply fp_inj; [destruct H4' as [H'|H']; eauto|destruct H4 as [H'|H']; eauto|congruence]. }
  subst. apply HSg. eapply sig_unique; eauto.
Qed.

End Crypto.

(* ------------------------------------------------------------------ issuing functions *)
Lemma issue_fields : forall par hk child ty t0 dur s f r c,
  issue par hk child ty t0 dur s f r = Some c ->
  ctype c = ty /\ names c = id_names child /\ pk c = id_pk child /\ parent c = fp par /\
  sg c = s /\ fp c = f /\
  fp par <> zero_fp /\ (nb par <= nb c)%Z /\ (nb c < na par)%Z /\ (nb c < na c)%Z /\ (na c <= na par)%Z /\
  nb c = t0 /\ na c = Z.min (t0 + dur) (na par) /\ 64 <= rawlen c.
Proof.
  intros par hk child ty t0 dur s f r c. unfold issue.
  destruct (fp par =? zero_fp) eqn:E1; [discriminate|apply N.eqb_neq in E1].
  destruct hk; cbn [negb]; [|discriminate].
  destruct (dur <=? 0)%Z eqn:E2; [discriminate|].
  destruct ((t0 <? nb par)%Z || negb (t0 <? na par)%Z) eqn:E3; [discriminate|].
  destruct (serializable (id_names child)); cbn [negb]; [|discriminate].
  intro H. inversion H; subst; clear H. cbn [ctype names pk parent sg fp nb na rawlen].
  unfold cert_len, chunk_len.
  repeat split; auto; try (destruct (na par <? t0 + dur)%Z eqn:E4; lia).
Qed.

Lemma self_sign_fields : forall self ty kp now exp s f r c,
  self_sign self ty kp now exp s f r = Some c ->
  ctype c = ty /\ names c = id_names self /\ pk c = id_pk self /\ parent c = zero_fp /\
  nb c = now /\ na c = exp /\ fp c = f /\ 64 <= rawlen c.
Proof.
  intros self ty kp now exp s f r c. unfold self_sign.
  destruct (match kp with Some k => negb (id_pk self =? k) | None => false end); [discriminate|].
  destruct (serializable (id_names self)); cbn [negb]; [|discriminate].
  intro H. inversion H; subst; clear H. cbn [ctype names pk parent sg fp nb na rawlen].
  unfold cert_len, chunk_len. repeat split; auto; lia.
Qed.

(* Ed25519 correctness, as a premise: what issue signs with the parent's private key verifies
   under the parent's public key. *)
Definition sign_correct (par c : cert) : Prop := sv (pk par) c = true.

Lemma issued_chain_verifies :
  forall idr kr now0 exp0 sr fr rr root
         idi t1 d1 si fi ri im
         idl t2 d2 sl fl rl leaf
         st o,
    self_sign idr Root kr now0 exp0 sr fr rr = Some root ->
    issue_intermediate root true idi t1 d1 si fi ri = Some im ->
    issue_leaf_at im true idl t2 d2 sl fl rl = Some leaf ->
    sign_correct root im -> sign_correct im leaf ->
    st (fp root) = Some root ->
    (presented o = Some im \/ ((forall p, presented o = Some p -> fp p <> fp im) /\ st (fp im) = Some im)) ->
    name_req o leaf ->
    valid_at (now_of clock o) leaf ->
    verify_leaf sv clock st o leaf = VOk.
Proof.
  intros idr kr now0 exp0 sr fr rr root idi t1 d1 si fi ri im idl t2 d2 sl fl rl leaf st o
         HR HI HL SC1 SC2 HSt HOff HN HT.
  apply self_sign_fields in HR. destruct HR as [R1 [R2 [R3 [R4 [R5 [R6 [R7 R8]]]]]]].
  unfold issue_intermediate in HI.
  destruct (ctype root =? Root) eqn:ERt; cbn [negb] in HI; [|discriminate].
  apply issue_fields in HI.
  destruct HI as [I1 [I2 [I3 [I4 [I5 [I6 [I7 [I8 [I9 [I10 [I11 [I12 [I13 I14]]]]]]]]]]]]].
  unfold issue_leaf_at in HL.
  destruct (ctype im =? Intermediate) eqn:EIt; cbn [negb] in HL; [|discriminate].
  apply issue_fields in HL.
  destruct HL as [L1 [L2 [L3 [L4 [L5 [L6 [L7 [L8 [L9 [L10 [L11 [L12 [L13 L14]]]]]]]]]]]]].
  apply verify_leaf_ok_sel. exists im, root.
  assert (HSel : select_intermediate st o leaf = Some im).
  { unfold select_intermediate. destruct HOff as [H|[H1 H2]].
    - rewrite H. rewrite L4. rewrite N.eqb_refl. reflexivity.
    - rewrite L4. destruct (presented o) as [p|]; [|exact H2].
      destruct (fp im =? fp p) eqn:E; [|exact H2].
      apply N.eqb_eq in E. exfalso. apply (H1 p); auto. }
  split; [exact HSel|].
  unfold valid_at in *.
  split.
  - unfold chain_links, signed_by. rewrite L4, I4.
    repeat split; auto.
    destruct HOff as [H|[_ H]]; auto.
  - repeat split; lia.
Qed.

(* the same chain after a round trip through the wire format: ReadFrom keeps whole seconds only,
   i.e. applies a monotone map to every timestamp; modelled as an arbitrary monotone [q] *)
Definition retime (q : Z -> Z) (c : cert) : cert :=
  mkCert (ctype c) (names c) (q (nb c)) (q (na c)) (pk c) (parent c) (sg c) (fp c) (raw c) (rawlen c).

End WithOracle.

Lemma issued_chain_verifies_reparsed :
  forall (sv : sigfun) clock (q : Z -> Z)
         idr kr now0 exp0 sr fr rr root
         idi t1 d1 si fi ri im
         idl t2 d2 sl fl rl leaf
         st o,
    (forall a b, (a <= b)%Z -> (q a <= q b)%Z) ->
    self_sign idr Root kr now0 exp0 sr fr rr = Some root ->
    issue_intermediate root true idi t1 d1 si fi ri = Some im ->
    issue_leaf_at im true idl t2 d2 sl fl rl = Some leaf ->
    sv (pk root) (retime q im) = true -> sv (pk im) (retime q leaf) = true ->
    st (fp root) = Some (retime q root) ->
    (presented o = Some (retime q im) \/ ((forall p, presented o = Some p -> fp p <> fp im) /\ st (fp im) = Some (retime q im))) ->
    name_req o leaf ->
    valid_at (now_of clock o) (retime q leaf) ->
    verify_leaf sv clock st o (retime q leaf) = VOk.
Proof.
  intros sv clock q idr kr now0 exp0 sr fr rr root idi t1 d1 si fi ri im idl t2 d2 sl fl rl leaf st o
         HQ HR HI HL SC1 SC2 HSt HOff HN HT.
  apply self_sign_fields in HR. destruct HR as [R1 [R2 [R3 [R4 [R5 [R6 [R7 R8]]]]]]].
  unfold issue_intermediate in HI.
  destruct (ctype root =? Root) eqn:ERt; cbn [negb] in HI; [|discriminate].
  apply issue_fields in HI.
  destruct HI as [I1 [I2 [I3 [I4 [I5 [I6 [I7 [I8 [I9 [I10 [I11 [I12 [I13 I14]]]]]]]]]]]]].
  unfold issue_leaf_at in HL.
  destruct (ctype im =? Intermediate) eqn:EIt; cbn [negb] in HL; [|discriminate].
  apply issue_fields in HL.
  destruct HL as [L1 [L2 [L3 [L4 [L5 [L6 [L7 [L8 [L9 [L10 [L11 [L12 [L13 L14]]]]]]]]]]]]].
  apply verify_leaf_ok_sel. exists (retime q im), (retime q root).
  assert (HSel : select_intermediate st o (retime q leaf) = Some (retime q im)).
  { unfold select_intermediate. cbn [retime parent fp]. destruct HOff as [H|[H1 H2]].
    - rewrite H. cbn [retime fp]. rewrite L4. rewrite N.eqb_refl. reflexivity.
    - rewrite L4. destruct (presented o) as [p|]; [|exact H2].
      destruct (fp im =? fp p) eqn:E; [|exact H2].
      apply N.eqb_eq in E. exfalso. apply (H1 p); auto. }
  split; [exact HSel|].
  unfold valid_at in *. cbn [retime nb na] in *.
  split.
  - unfold chain_links, signed_by. cbn [retime ctype fp parent pk rawlen names]. rewrite L4, I4.
    repeat split; auto.
    destruct HOff as [H|[_ H]]; auto.
  - assert (q (nb root) <= q (nb im))%Z by (apply HQ; lia).
    assert (q (nb im) <= q (nb leaf))%Z by (apply HQ; lia).
    assert (q (na leaf) <= q (na im))%Z by (apply HQ; lia).
    assert (q (na im) <= q (na root))%Z by (apply HQ; lia).
    repeat split; lia.
Qed.

(* ------------------------------------------------------------------ policy cascade *)
Lemma policy_ok_cases : forall sv clock cfg pleaf pim leaf',
  policy_verify sv clock cfg pleaf pim = POk leaf' ->
  pleaf = Some leaf' /\ pim <> Some None /\
  (cfg = None \/
   exists c, cfg = Some c /\
     (match vc_callback c with Some cb => cb leaf' = true | None => True end) /\
     let o := mkOpts (match pim with Some (Some i) => Some i | _ => None end) (vc_name c) (vc_cur c) in
     (vc_skip c = true \/
      (vc_authkeys_allowed c = true /\ exists ks, vc_authkeys c = Some ks /\ authkeys_verify ks o leaf' = true) \/
      verify_leaf sv clock (vc_store c) o leaf' = VOk)).
Proof.
  intros sv clock cfg pleaf pim leaf'. unfold policy_verify.
  destruct pleaf as [leaf|]; [|discriminate].
  assert (HCB : forall c, match vc_callback c with
                          | Some cb => if cb leaf then POk leaf else PErr
                          | None => POk leaf end = POk leaf' ->
                          leaf = leaf' /\ match vc_callback c with Some cb => cb leaf' = true | None => True end).
  { intros c. destruct (vc_callback c) as [cb|].
    - destruct (cb leaf) eqn:E; [|discriminate]. intro H; inversion H; subst. auto.
    - intro H; inversion H; subst. auto. }
  assert (HVO : forall r, vres_ok r = true -> r = VOk) by (intros r; destruct r; simpl; congruence).
  destruct pim as [[im|]|].
  - destruct cfg as [c|].
    + destruct (vc_skip c) eqn:ESk.
      * intro H. apply HCB in H. destruct H as [-> H]. repeat split; try discriminate.
        right. exists c. repeat split; auto.
      * destruct (vc_authkeys_allowed c) eqn:EA.
        { destruct (vc_authkeys c) as [ks|] eqn:EK; [|discriminate].
          destruct (authkeys_verify ks _ leaf) eqn:EAV.
          - intro H. apply HCB in H. destruct H as [-> H]. repeat split; try discriminate.
            right. exists c. repeat split; auto. right. left. split; auto. exists ks. auto.
          - destruct (vres_ok _) eqn:EV; [|discriminate]. apply HVO in EV.
            intro H. apply HCB in H. destruct H as [-> H]. repeat split; try discriminate.
            right. exists c. repeat split; auto. }
        { destruct (vres_ok _) eqn:EV; [|discriminate]. apply HVO in EV.
          intro H. apply HCB in H. destruct H as [-> H]. repeat split; try discriminate.
          right. exists c. repeat split; auto. }
    + intro H; inversion H; subst. repeat split; try discriminate. left. reflexivity.
  - discriminate.
  - destruct cfg as [c|].
    + destruct (vc_skip c) eqn:ESk.
      * intro H. apply HCB in H. destruct H as [-> H]. repeat split; try discriminate.
        right. exists c. repeat split; auto.
      * destruct (vc_authkeys_allowed c) eqn:EA.
        { destruct (vc_authkeys c) as [ks|] eqn:EK; [|discriminate].
          destruct (authkeys_verify ks _ leaf) eqn:EAV.
          - intro H. apply HCB in H. destruct H as [-> H]. repeat split; try discriminate.
            right. exists c. repeat split; auto. right. left. split; auto. exists ks. auto.
          - destruct (vres_ok _) eqn:EV; [|discriminate]. apply HVO in EV.
            intro H. apply HCB in H. destruct H as [-> H]. repeat split; try discriminate.
            right. exists c. repeat split; auto. }
        { destruct (vres_ok _) eqn:EV; [|discriminate]. apply HVO in EV.
          intro H. apply HCB in H. destruct H as [-> H]. repeat split; try discriminate.
          right. exists c. repeat split; auto. }
    + intro H; inversion H; subst. repeat split; try discriminate. left. reflexivity.
Qed.

(* with verification switched on and authorized keys off, the policy accepts only verified chains *)
Lemma policy_strict_ok : forall sv clock c pleaf pim leaf',
  vc_skip c = false -> vc_authkeys_allowed c = false ->
  policy_verify sv clock (Some c) pleaf pim = POk leaf' ->
  verify_leaf sv clock (vc_store c)
     (mkOpts (match pim with Some (Some i) => Some i | _ => None end) (vc_name c) (vc_cur c)) leaf' = VOk.
Proof.
  intros sv clock c pleaf pim leaf' H1 H2 H. apply policy_ok_cases in H.
  destruct H as [_ [_ [H|[c' [Hc [_ H]]]]]]; [discriminate|]. inversion Hc; subst c'.
  cbv zeta in H. destruct H as [H|[[H _]|H]]; [congruence|congruence|exact H].
Qed.

Lemma authkeys_verify_spec : forall ks o leaf,
  authkeys_verify ks o leaf = true <-> ctype leaf = Leaf /\ name_req o leaf /\ In (pk leaf) ks.
Proof.
  intros ks o leaf. unfold authkeys_verify, verify_leaf_format.
  destruct (ctype leaf =? Leaf) eqn:EL; [apply N.eqb_eq in EL|apply N.eqb_neq in EL]; cbn [negb].
  2:{ split; [discriminate|]. intros [H _]. contradiction. }
  assert (HN : (match oname o with Some n => negb (matches_name leaf n) | None => false end) = negb (name_req_b o leaf)).
  { unfold name_req_b. destruct (oname o); reflexivity. }
  rewrite HN. destruct (name_req_b o leaf) eqn:EN; cbn [negb].
  - apply (name_req_spec o leaf EL) in EN. rewrite existsb_exists. split.
    + intros [k [Hin Hk]]. apply N.eqb_eq in Hk. subst. auto.
    + intros [_ [_ H]]. exists (pk leaf). split; [exact H|apply N.eqb_refl].
  - split; [discriminate|]. intros [_ [H _]]. apply (name_req_spec o leaf EL) in H. congruence.
Qed.
