(* LifecycleLive.v — environment steps, reachability, and the safety / liveness theorems of the
   transport.Client lifecycle system. *)
From Hop Require Import Base ConcBase ConcUtil Lifecycle LifecycleProofs.
From Coq Require Import Lia Arith ZifyN ZifyNat ZifyBool.
Local Open Scope nat_scope.

Lemma CTInv_same_mono s s' t :
  hs_runs s' = hs_runs s -> conn_closed s' = conn_closed s -> close_done s' = close_done s ->
  hs_done s' = hs_done s -> handle_set s' = handle_set s -> cstate s' = cstate s ->
  CTInv s t -> CTInv s' t.
Proof.
  intros E1 E2 E3 E4 E5 E6. unfold CTInv. rewrite E1, E2, E3, E4, E5, E6. auto.
Qed.
Lemma CTInv2_same s s' t : xprev s' = xprev s -> cerr s' = cerr s -> CTInv2 s t -> CTInv2 s' t.
Proof. intros E1 E2. unfold CTInv2. rewrite E1, E2. auto. Qed.

Ltac env_close V11 V16 V17 V21 :=
  constructor; simpl; auto;
  try (eapply Forall_impl; [|exact V16]; intros a; apply CTInv_same_mono; reflexivity);
  try (eapply Forall_impl; [|exact V17]; intros a; apply CTInv2_same; reflexivity);
  try (intros _; apply V21; congruence);
  try (rewrite V11; simpl; lia); try congruence.

Lemma cinv_listen x s' : CInv x -> lstep (csd x) = Some s' -> CInv (mkCSt s' (cths x)).
Proof.
  intros I H. destruct x as [s l]. simpl in *.
  destruct I as [V1 V2 V3 V4 V5 V6 V7 V8 V9 V10 V11 V12 V13 V14 V15 V16 V17 V18 V19 V20 V21 V22 V23]; simpl in *.
  unfold lstep in H. destruct (lis s) eqn:El; try discriminate.
  - destruct (cstate s =? sOpen)%N eqn:E; inversion H; subst; clear H; unfold upd_lis, upd_wg; simpl;
      env_close V11 V16 V17 V21.
  - destruct (conn_closed s) eqn:Ec; [|discriminate]. inversion H; subst; clear H; unfold upd_lis; simpl;
      env_close V11 V16 V17 V21.
Qed.

Lemma cinv_hclose x x' : CInv x -> cstepa x CHClose = Some x' -> CInv x'.
Proof.
  intros I H. destruct x as [s l]. simpl in *.
  destruct I as [V1 V2 V3 V4 V5 V6 V7 V8 V9 V10 V11 V12 V13 V14 V15 V16 V17 V18 V19 V20 V21 V22 V23]; simpl in *.
  destruct (hpend s) eqn:Eh; [discriminate|]. inversion H; subst; clear H.
  env_close V11 V16 V17 V21.
Qed.

Lemma cinv_step x a x' : CInv x -> cstepa x a = Some x' -> CInv x'.
Proof.
  intros I H. destruct a as [i| |].
  - simpl in H. destruct (nth_error (cths x) i) as [t|] eqn:Hn; [|discriminate].
    destruct (cstep (csd x) t) as [[s' t']|] eqn:Ht; [|discriminate].
    inversion H; subst. eapply cinv_th; eauto.
  - simpl in H. destruct (lstep (csd x)) eqn:E; [|discriminate]. inversion H; subst. apply cinv_listen; auto.
  - eapply cinv_hclose; eauto.
Qed.

Lemma gcnt_init (p : cthread -> bool) progs :
  (forall q, p (mkCT q CIdle KRet []) = false) -> gcnt p (map (fun q => mkCT q CIdle KRet []) progs) = 0.
Proof. intros Hp. induction progs; simpl; auto. rewrite Hp; simpl; auto. Qed.

Lemma cinv_init pe tm cr progs : CInv (cinit pe tm cr progs).
Proof.
  pose proof (gcnt_init hsA progs ltac:(intros; reflexivity)) as G1.
  pose proof (gcnt_init hio progs ltac:(intros; reflexivity)) as G2.
  pose proof (gcnt_init clA progs ltac:(intros; reflexivity)) as G3.
  pose proof (gcnt_init xconn progs ltac:(intros; reflexivity)) as G4.
  pose proof (gcnt_init wgH progs ltac:(intros; reflexivity)) as G5.
  pose proof (gcnt_init xwl progs ltac:(intros; reflexivity)) as G6.
  pose proof (gcnt_init xlate progs ltac:(intros; reflexivity)) as G7.
  constructor; unfold cinit; simpl; rewrite ?G1, ?G2, ?G3, ?G4, ?G5, ?G6, ?G7; auto;
    try (intros; discriminate); try lia.
  all: try (intros [H|H]; [lia|discriminate]).
  all: try (induction progs; simpl; constructor; auto; exact I).
  all: try (induction progs; simpl; constructor; auto).
  all: try (intros H; exfalso; apply H; reflexivity).
  all: try (unfold sCreated; lia).
  all: try (induction progs; simpl; constructor; auto; constructor).
Qed.

Lemma cinv_run x l x' : CInv x -> crun x l = Some x' -> CInv x'.
Proof.
  revert x; induction l as [|a r IH]; intros x I H; simpl in H.
  - inversion H; subst; auto.
  - destruct (cstepa x a) eqn:E; [|discriminate]. eapply IH; [|exact H]. eapply cinv_step; eauto.
Qed.

Theorem cinv_reachable pe tm cr progs x : creachable pe tm cr progs x -> CInv x.
Proof. intros [l Hl]. eapply cinv_run; [apply cinv_init|exact Hl]. Qed.

(* ================================================================== theorems *)

Lemma conn_res_step x a x' : cstepa x a = Some x' -> conn_res (csd x') = conn_res (csd x).
Proof.
  intros H. destruct a as [i| |]; simpl in H.
  - destruct (nth_error (cths x) i) as [t|] eqn:Hn; [|discriminate].
    destruct (cstep (csd x) t) as [[s' t']|] eqn:Ht; [|discriminate].
    inversion H; subst; clear H. simpl.
    destruct (csd x) as [cs hd cd ce cle cc w li hset hcl hp pe tm cr hr ccl xp].
    ccases Ht; cunf; simpl in *; auto.
  - unfold lstep in H. destruct (lis (csd x)); try discriminate.
    + destruct (cstate (csd x) =? sOpen)%N; inversion H; subst; reflexivity.
    + destruct (conn_closed (csd x)); inversion H; subst; reflexivity.
  - destruct (hpend (csd x)); inversion H; subst; reflexivity.
Qed.

Lemma conn_res_run x l x' : crun x l = Some x' -> conn_res (csd x') = conn_res (csd x).
Proof.
  revert x; induction l as [|a r IH]; intros x H; simpl in H.
  - inversion H; subst; auto.
  - destruct (cstepa x a) eqn:E; [|discriminate]. rewrite (IH _ H). eapply conn_res_step; eauto.
Qed.

(* clientHandshakeLocked is entered at most once, whatever the callers and the schedule *)
Theorem handshake_runs_once pe tm cr progs x : creachable pe tm cr progs x -> hs_runs (csd x) <= 1.
Proof. intros Hr. apply cinv_reachable in Hr. destruct Hr; auto. Qed.

(* Handshake reports nil only when the session (c.ss.handle) exists *)
Theorem handshake_nil_means_session pe tm cr progs x : creachable pe tm cr progs x ->
  forall i t, nth_error (cths x) i = Some t -> In (CHandshake, 0%N) (crets t) -> handle_set (csd x) = true.
Proof.
  intros Hr i t Hn Hin. apply cinv_reachable in Hr. destruct Hr.
  pose proof (Forall_nth_error _ _ _ _ v19 Hn) as Hrs. rewrite Forall_forall in Hrs.
  specialize (Hrs _ Hin). simpl in Hrs. auto.
Qed.

(* the socket is closed at most once; every Close call, elected or waiting, reports that one result *)
Theorem close_same_result pe tm cr progs x : creachable pe tm cr progs x ->
  conn_closes (csd x) <= 1 /\
  forall i t r, nth_error (cths x) i = Some t -> In (CClose, r) (crets t) -> r = cr.
Proof.
  intros Hr. pose proof Hr as [l Hl]. apply conn_res_run in Hl. simpl in Hl.
  apply cinv_reachable in Hr. destruct Hr. split.
  - destruct (is_closing (cstate (csd x))); lia.
  - intros i t r Hn Hin. pose proof (Forall_nth_error _ _ _ _ v19 Hn) as Hrs. rewrite Forall_forall in Hrs.
    rewrite <- Hl. apply (Hrs _ Hin).
Qed.

(* results are stored before the completion channels are closed *)
Theorem results_published_before_signal pe tm cr progs x : creachable pe tm cr progs x ->
  (close_done (csd x) = true -> close_err (csd x) = Some cr /\ conn_closed (csd x) = true /\ is_closing (cstate (csd x)) = true) /\
  (hs_done (csd x) = true -> hs_runs (csd x) = 1) /\
  (cstate (csd x) = sError -> cerr (csd x) <> 0%N).
Proof.
  intros Hr. pose proof Hr as [l Hl]. apply conn_res_run in Hl. simpl in Hl.
  apply cinv_reachable in Hr. destruct Hr. repeat split; auto.
  rewrite v10. specialize (v22 H). rewrite v9 in v22. rewrite v22. congruence.
Qed.

(* ---- liveness: once Close has been elected, nothing stays blocked ---- *)
Lemma cstep_none s t : cstep s t = None ->
  (cpcv t = CIdle /\ cprog t = []) \/
  (cpcv t = H_io /\ conn_closed s = false) \/
  (cpcv t = H_wait /\ hs_done s = false) \/
  (cpcv t = X_waiths /\ hs_done s = false) \/
  (cpcv t = X_wgwait /\ wg s <> 0) \/
  (cpcv t = X_waitdone /\ close_done s = false) \/
  (cpcv t = R_waitdone /\ close_done s = false) \/
  (cpcv t = R_recv /\ handle_closed s = false).
Proof.
  unfold cstep, hs_return. destruct t as [pg p k rs]; simpl.
  destruct p; try (destruct pg as [|[ | | | ] pg]);
    repeat match goal with
    | |- context [if ?b then _ else _] => destruct b eqn:?
    | |- context [match wg ?s with _ => _ end] => destruct (wg s) eqn:?
    | |- context [match ?k with KRet => _ | KRead => _ | KWrite => _ end] => destruct k
    end; intros H; try discriminate H; auto 12.
Qed.

Lemma terminal_thread x i t : cterminal x = true -> nth_error (cths x) i = Some t -> cstep (csd x) t = None.
Proof.
  unfold cterminal. rewrite forallb_forall. intros H Hn.
  assert (Hin : In (CT i) (cactors x)).
  { unfold cactors. right. right. apply in_map. apply in_seq. split; [lia|].
    simpl. apply nth_error_Some. congruence. }
  specialize (H _ Hin). apply Bool.negb_true_iff in H. unfold cenabled in H. simpl in H. rewrite Hn in H.
  destruct (cstep (csd x) t) as [[? ?]|]; [discriminate|auto].
Qed.

Lemma terminal_listen x : cterminal x = true -> lstep (csd x) = None.
Proof.
  unfold cterminal. rewrite forallb_forall. intros H.
  specialize (H CListen ltac:(unfold cactors; left; auto)). apply Bool.negb_true_iff in H.
  unfold cenabled in H. simpl in H. destruct (lstep (csd x)); [discriminate|auto].
Qed.

Theorem close_returns pe tm cr progs x : creachable pe tm cr progs x ->
  is_closing (cstate (csd x)) = true -> cterminal x = true -> call_finished x = true.
Proof.
  intros Hr Hcl Ht. apply cinv_reachable in Hr. destruct Hr.
  assert (TT : forall i t, nth_error (cths x) i = Some t -> cstep (csd x) t = None)
    by (intros; eapply terminal_thread; eauto).
  pose proof (terminal_listen _ Ht) as TL.
  (* (a) the socket has been closed *)
  assert (A : conn_closed (csd x) = true).
  { destruct (conn_closed (csd x)) eqn:E; auto. exfalso.
    assert (Hc0 : conn_closes (csd x) = 0) by (destruct (conn_closes (csd x)); [auto|simpl in v9; congruence]).
    rewrite Hcl in v8.
    destruct (gcnt_pos_exists xconn (cths x)) as (j & tj & Hj & Pj); [lia|].
    specialize (TT _ _ Hj). apply cstep_none in TT. unfold xconn in Pj.
    destruct TT as [[B _]|[[B _]|[[B _]|[[B _]|[[B _]|[[B _]|[[B _]|[B _]]]]]]]]; rewrite B in Pj; discriminate. }
  (* (b) the handshake, if it ever ran, has signalled completion *)
  assert (B : hs_done (csd x) = false -> hs_runs (csd x) = 0).
  { intros E. destruct (hs_runs (csd x)) as [|n] eqn:Er; auto. exfalso.
    rewrite E in v4. destruct (gcnt_pos_exists hsA (cths x)) as (j & tj & Hj & Pj); [lia|].
    specialize (TT _ _ Hj). apply cstep_none in TT. unfold hsA in Pj.
    destruct TT as [[C _]|[[C D]|[[C _]|[[C _]|[[C _]|[[C _]|[[C _]|[C _]]]]]]]]; rewrite C in Pj; try discriminate.
    congruence. }
  (* (c) no worker is counted any more *)
  assert (C : wg (csd x) = 0).
  { destruct (wg (csd x)) eqn:E; auto. exfalso.
    assert (1 <= gcnt wgH (cths x) \/ lisn (lis (csd x)) = 1).
    { destruct (lis (csd x)); simpl in v11; try lia; right; reflexivity. }
    destruct H as [H|H].
    - destruct (gcnt_pos_exists wgH (cths x) H) as (j & tj & Hj & Pj).
      specialize (TT _ _ Hj). apply cstep_none in TT. unfold wgH in Pj.
      destruct TT as [[D _]|[[D _]|[[D _]|[[D _]|[[D _]|[[D _]|[[D _]|[D _]]]]]]]]; rewrite D in Pj; discriminate.
    - unfold lstep in TL. destruct (lis (csd x)); simpl in H; try discriminate.
      + destruct (cstate (csd x) =? sOpen)%N; discriminate.
      + rewrite A in TL. discriminate. }
  (* (d) the elected closer has finished *)
  assert (D : close_done (csd x) = true).
  { destruct (close_done (csd x)) eqn:E; auto. exfalso.
    rewrite Hcl in v6. simpl in v6.
    destruct (gcnt_pos_exists clA (cths x)) as (j & tj & Hj & Pj); [lia|].
    pose proof (Forall_nth_error _ _ _ _ v16 Hj) as Tj.
    specialize (TT _ _ Hj). apply cstep_none in TT. unfold clA in Pj. unfold CTInv in Tj.
    destruct TT as [[F _]|[[F _]|[[F _]|[[F G]|[[F G]|[[F _]|[[F _]|[F _]]]]]]]]; rewrite F in Pj, Tj; try discriminate.
    - destruct Tj as [T1 _]. specialize (B G). lia.
    - lia. }
  (* every thread is finished *)
  unfold call_finished. apply forallb_forall. intros t Hin.
  apply In_nth_error in Hin. destruct Hin as [i Hn].
  pose proof (Forall_nth_error _ _ _ _ v16 Hn) as Ti. unfold CTInv in Ti.
  specialize (TT _ _ Hn). apply cstep_none in TT. unfold cunfinished.
  destruct TT as [[F G]|[[F G]|[[F G]|[[F G]|[[F G]|[[F G]|[[F G]|[F G]]]]]]]]; rewrite F in *; try congruence.
  - rewrite G. reflexivity.
  - specialize (B G). lia.
  - destruct Ti as [T1 _]. specialize (B G). lia.
  - rewrite (v14 (or_intror D) Ti) in G. discriminate.
Qed.
