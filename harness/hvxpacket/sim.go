package hvxpacket

import (
	"bytes"
	"errors"
	"fmt"
	"io"
	"net"
	"strings"

	"hop.computer/hop/transport"
	"verifharness/hv"
)

// sessSpec is the initial configuration of one session of the endpoint under test ("focus").
type sessSpec struct {
	sid    [4]byte
	rk     *[16]byte // nil: keys not derived yet
	wk     [16]byte
	count  uint64
	marks  []uint64
	qcap   int
	closed bool
	remote uint64
}

func (c sessSpec) coq() string {
	rk := "None"
	if c.rk != nil {
		rk = hv.Some(hx(c.rk[:]))
	}
	return hv.App("Ss", hx(c.sid[:]), hx(c.wk[:]), rk, u64(c.count), u64s(c.marks), hv.Ni(c.qcap), hv.B(c.closed), hv.N(c.remote))
}

// dg is a datagram some honest party produced; the adversary owns all of them.
type dg struct {
	b       []byte
	sess    int  // focus session it honestly belongs to; -1: another session / another key
	toFocus bool // honest direction is peer -> focus
	mt      byte
	ctr     uint64
	msg     []byte
	name    string
}

// fsess: one focus session, its honest peer, and the specification oracle's view of it.
type fsess struct {
	spec   sessSpec
	h      *transport.Handle
	peer   *transport.Handle
	pw     *wire
	peerIn func(a *net.UDPAddr, pkt []byte) error

	// oracle state, maintained from the property text only
	acc          map[uint64]bool
	top          uint64
	closed       bool
	remote       uint64
	count        uint64
	sentByPeer   map[string]int
	expectStream []byte
	gotStream    []byte
	wrote        [][]byte
	emitted      []emit
}

func (f *fsess) fresh(c uint64) bool { return !f.acc[c] && c+448 >= f.top }

type sim struct {
	r        *hv.Rand
	prop     string
	class    string
	kind     int // 0 server, 1 client
	fs       []*fsess
	srv      *transport.Server
	cli      *transport.Client
	fw       *wire
	pool     []*dg
	pristine map[string]*dg
	ops      []string
	obs      []string
	desc     []string
	sig      string
	what     string
	nAcc     int
	nRej     int
	msgMode  bool
	exact    bool // byte-exact class: no AEAD oracle inputs in the Coq case
	nmsg     int
	big      []byte
	loop     bool      // the endpoint's REAL receive loop (Serve / listen) is running; datagrams go through its socket
	lw       *loopWire // the socket of that loop
}

// feedStats counts, per kind of datagram fed to handleSessionMessage, how often it was accepted / rejected
// (printed as driver_info so the evidence shows that the rejecting branches are reached).
var feedStats = map[string][3]int{}

func labelKind(l string) string {
	if i := strings.IndexAny(l, "(:+"); i > 0 {
		l = l[:i]
	} else if len(l) > 0 && (l[0] == 'P' || l[0] == 'F' || l[0] == 'O') {
		return "pristine"
	}
	// strip a trailing -<number>
	for i := len(l) - 1; i > 0; i-- {
		if l[i] == '-' {
			return l[:i]
		}
		if l[i] < '0' || l[i] > '9' {
			break
		}
	}
	return l
}

func (s *sim) fail(sig, what string) {
	if !strings.HasPrefix(sig, s.prop+":") {
		return
	}
	if s.sig == "" {
		s.sig, s.what = sig, fmt.Sprintf("op %d: %s", len(s.ops), what)
	}
}

func key(r *hv.Rand) (k [16]byte) { copy(k[:], r.Bytes(16)); return }

func (s *sim) states() []transport.VerifState {
	st := make([]transport.VerifState, len(s.fs))
	for i, f := range s.fs {
		st[i] = f.h.VerifState()
	}
	return st
}

func snapsCoq(st []transport.VerifState) string {
	xs := make([]string, len(st))
	for i, v := range st {
		c := 0
		if v.Closed {
			c = 1
		}
		ws := []uint64{uint64(c), addrID(v.Remote), uint64(v.QueueLen), v.Count >> 32, v.Count & 0xffffffff, v.Wt >> 32, v.Wt & 0xffffffff}
		for _, b := range v.Blocks {
			ws = append(ws, b>>32, b&0xffffffff)
		}
		xs[i] = "(sn " + hv.Ns(ws) + "%uint63)"
	}
	return hv.List(xs)
}

func sameState(a, b transport.VerifState) bool {
	return a.Closed == b.Closed && addrID(a.Remote) == addrID(b.Remote) && a.Count == b.Count && a.Wt == b.Wt && a.Blocks == b.Blocks && a.QueueLen == b.QueueLen
}

func (s *sim) ob(code int, n int, data [][]byte, addrs []uint64, st []transport.VerifState) {
	s.obs = append(s.obs, hv.App("Ob", hv.Ni(code), hv.Ni(n), hexes(data), hv.Ns(addrs), snapsCoq(st)))
}

// newSim builds the world: the focus endpoint, one honest peer per focus session, and foreign
// sessions (same session id with other keys; another session id) whose datagrams the adversary can inject.
func newSim(r *hv.Rand, prop, class string, kind int) *sim { return newSimL(r, prop, class, kind, false) }

func newSimL(r *hv.Rand, prop, class string, kind int, loop bool) *sim {
	s := &sim{r: r, prop: prop, class: class, fw: &wire{}, pristine: map[string]*dg{}, loop: loop}
	s.kind = r.Intn(2)
	if kind >= 0 {
		s.kind = kind
	}
	s.msgMode = r.Chance(60)
	nsess := 1
	if s.kind == 0 {
		nsess = 1 + r.Intn(2)
		if loop {
			nsess = 1 + r.Intn(3)
		}
	}
	var handles []*transport.Handle
	for i := 0; i < nsess; i++ {
		var c sessSpec
		for {
			copy(c.sid[:], r.Bytes(4))
			dupl := false
			for _, g := range s.fs {
				if g.spec.sid == c.sid {
					dupl = true
				}
			}
			if !dupl {
				break
			}
		}
		rk := key(r)
		c.rk = &rk
		c.wk = key(r)
		c.count = hv.Pick(r, []uint64{0, 0, 1, 7, 447, 448, 1000, 1 << 32, (1 << 62) + 7})
		peerCount := hv.Pick(r, []uint64{0, 0, 0, 3, 449, 1000, 1 << 33, (1 << 62) + 9})
		switch r.Intn(4) {
		case 0:
			if peerCount >= 1 {
				c.marks = []uint64{peerCount - 1}
			}
		case 1:
			if peerCount >= 449 {
				c.marks = []uint64{peerCount - 449, peerCount - 2, peerCount - 1}
			}
		}
		c.qcap = hv.Pick(r, []int{1, 2, 3, 8, 64, 64, 64})
		if class == "faithful" || class == "roam" {
			c.qcap = 64
		}
		c.remote = uint64(1 + r.Intn(4))
		if r.Chance(4) {
			c.remote = 0
		}
		if class == "mixed" && r.Chance(6) {
			c.closed = true
		}
		if class == "mixed" && s.kind == 0 && r.Chance(6) {
			c.rk = nil
		}
		f := &fsess{spec: c, pw: &wire{}, acc: map[uint64]bool{}, closed: c.closed, remote: c.remote, count: c.count, sentByPeer: map[string]int{}}
		for _, m := range c.marks {
			f.acc[m] = true
			if m > f.top {
				f.top = m
			}
		}
		f.h = transport.VerifNewSession(s.fw, transport.VerifSessionConfig{SessionID: c.sid, ReadKey: c.rk, WriteKey: c.wk,
			Remote: mkAddr(c.remote, false), BufLen: c.qcap, Count: c.count, Closed: c.closed})
		f.h.VerifMark(c.marks...)
		pwk := rk
		prk := c.wk
		f.peer = transport.VerifNewSession(f.pw, transport.VerifSessionConfig{SessionID: c.sid, ReadKey: &prk, WriteKey: pwk,
			Remote: mkAddr(1, false), BufLen: 4096, Count: peerCount})
		if s.kind == 0 {
			f.peerIn = transport.VerifNewClient(f.pw, f.peer).VerifHandleSessionMessage
		} else {
			f.peerIn = transport.VerifNewServer(f.pw, f.peer).VerifHandleSessionMessage
		}
		s.fs = append(s.fs, f)
		handles = append(handles, f.h)
	}
	switch {
	case loop:
		s.startLoop(handles)
	case s.kind == 0:
		s.srv = transport.VerifNewServer(s.fw, handles...)
	default:
		s.cli = transport.VerifNewClient(s.fw, handles[0])
	}
	// foreign datagrams: same session id as session 0 but other keys (both directions), and another session id
	for v := 0; v < 2; v++ {
		aw := &wire{}
		sid := s.fs[0].spec.sid
		if v == 1 {
			copy(sid[:], r.Bytes(4))
		}
		k1 := key(r)
		ah := transport.VerifNewSession(aw, transport.VerifSessionConfig{SessionID: sid, ReadKey: &k1, WriteKey: key(r), Remote: mkAddr(2, false), BufLen: 4,
			Count: s.fs[0].peer.VerifState().Count})
		ah.WriteMsg([]byte("foreign session payload"))
		ah.VerifSend(0x80, []byte{1})
		for j, e := range aw.take() {
			s.addDg(&dg{b: e.pkt, sess: -1, mt: e.pkt[0], name: fmt.Sprintf("F%d.%d", v, j)})
		}
	}
	return s
}

func (s *sim) addDg(d *dg) {
	s.pool = append(s.pool, d)
	s.pristine[string(d.b)] = d
}

func ctrOf(pkt []byte) (c uint64) {
	for i := 8; i < 16; i++ {
		c = c<<8 | uint64(pkt[i])
	}
	return
}

// ---------------------------------------------------------------- honest peer actions (not compared; they only produce datagrams)

func (s *sim) msg(size int) []byte {
	s.nmsg++
	m := s.r.Bytes(size)
	// make messages distinct where the size allows
	if size >= 2 {
		m[0], m[1] = byte(s.nmsg>>8)|0x40, byte(s.nmsg)
	}
	return m
}

func (s *sim) peerSend(i int, m []byte) {
	f := s.fs[i]
	if err := f.peer.WriteMsg(m); err != nil {
		return
	}
	for _, e := range f.pw.take() {
		s.addDg(&dg{b: e.pkt, sess: i, toFocus: true, mt: 0x10, ctr: ctrOf(e.pkt), msg: m, name: fmt.Sprintf("P%d.%d", i, ctrOf(e.pkt))})
		f.sentByPeer[string(m)]++
	}
	s.desc = append(s.desc, fmt.Sprintf("peer%d.WriteMsg(%d bytes)", i, len(m)))
}

func (s *sim) peerCtl(i int, body []byte) {
	f := s.fs[i]
	if err := f.peer.VerifSend(0x80, body); err != nil {
		return
	}
	for _, e := range f.pw.take() {
		s.addDg(&dg{b: e.pkt, sess: i, toFocus: true, mt: 0x80, ctr: ctrOf(e.pkt), msg: body, name: fmt.Sprintf("PC%d.%d", i, ctrOf(e.pkt))})
	}
	s.desc = append(s.desc, fmt.Sprintf("peer%d.send(control,%x)", i, body))
}

func (s *sim) peerJump(i int, by uint64) {
	f := s.fs[i]
	st := f.peer.VerifState()
	f.peer.VerifSetCount(st.Count + by)
	s.desc = append(s.desc, fmt.Sprintf("peer%d.count+=%d", i, by))
}

// ---------------------------------------------------------------- operations on the focus (compared with the model)

// feed hands one datagram to the focus endpoint's handleSessionMessage.
func (s *sim) feed(pkt []byte, src uint64, label string) { s.feedX(pkt, 0, src, label) }

// feedX: the datagram is pkt followed by pad bytes 0xAA (pad > 0 only when the real receive loop runs: the
// socket truncates it to the loop's buffer).
func (s *sim) feedX(pkt []byte, pad int, src uint64, label string) {
	a := mkAddr(src, s.r.Bool())
	body := pkt
	if pad > 0 {
		pkt = append(append([]byte(nil), pkt...), bytes.Repeat([]byte{0xAA}, pad)...)
	}
	seen := pkt // what the handler gets to see
	if s.loop && len(seen) > s.lw.lastBuf && s.lw.lastBuf > 0 {
		seen = seen[:s.lw.lastBuf]
	}
	ki := 0
	if s.kind == 0 && len(pkt) >= 8 {
		for i, f := range s.fs {
			if bytes.Equal(pkt[4:8], f.spec.sid[:]) {
				ki = i
			}
		}
	}
	var or []byte
	ok := false
	if len(seen) >= 16 && s.fs[ki].spec.rk != nil {
		or, ok = openDirect(*s.fs[ki].spec.rk, seen[:16], seen[16:])
	}
	before := s.states()
	var err error
	in := append([]byte(nil), pkt...)
	buflen := 0
	panicked, pmsg := hv.Catch(func() {
		switch {
		case s.loop:
			// through the socket of the running Serve / listen goroutine; returns when the loop asks for the next datagram
			buflen = s.lw.push(a, in)
			s.fw.take() // replies of the handshake handlers (ServerHello to a well-formed ClientHello) are not compared
		case s.kind == 0:
			err = s.srv.VerifHandleSessionMessage(a, in)
		default:
			err = s.cli.VerifHandleSessionMessage(a, in)
		}
	})
	after := s.states()
	code := 0
	if err != nil {
		code = 1
	}
	if panicked {
		code = 2
	}
	switch {
	case s.loop:
		s.ops = append(s.ops, hv.App("LD", hv.N(src), hx(body), hv.Ni(pad), hv.Ni(ki), optHex(or, ok), "[]"))
		noteBuf(buflen)
	case s.exact:
		s.ops = append(s.ops, hv.App("I", hv.N(src), hx(pkt), hv.Ni(ki), "None"))
	default:
		s.ops = append(s.ops, hv.App("I", hv.N(src), hx(pkt), hv.Ni(ki), optHex(or, ok)))
	}
	s.ob(code, buflen, nil, nil, after)
	s.desc = append(s.desc, fmt.Sprintf("in(from a%d, %s, %d bytes)->%d", src, label, len(pkt), code))
	st := feedStats[labelKind(label)]
	st[code]++
	feedStats[labelKind(label)] = st

	// ---- specification oracle ----
	if panicked {
		s.fail("C03:datagram-panics-handler", fmt.Sprintf("handleSessionMessage panicked (%s) on %d-byte datagram %s [%s]", pmsg, len(pkt), short(pkt), label))
	}
	d := s.pristine[string(pkt)]
	exp := -1
	if d != nil && d.toFocus && d.sess >= 0 {
		f := s.fs[d.sess]
		if !f.closed && f.spec.rk != nil && f.fresh(d.ctr) {
			exp = d.sess
		}
	}
	for i, f := range s.fs {
		b, af := before[i], after[i]
		if i != exp {
			if !sameState(b, af) {
				why := "is not a datagram the peer sealed for this session and direction"
				if d != nil && d.toFocus && d.sess == i {
					why = "is a replayed/stale/post-close copy"
				}
				if addrID(b.Remote) != addrID(af.Remote) {
					s.fail("C15:address-moved-without-authentic-fresh-packet", fmt.Sprintf("session %d: remote address a%d -> a%d after datagram [%s] from a%d which %s", i, addrID(b.Remote), addrID(af.Remote), label, src, why))
				}
				if !b.Closed && af.Closed {
					s.fail("C03:session-closed-without-authentic-control", fmt.Sprintf("session %d closed by datagram [%s] which %s", i, label, why))
				}
				s.fail("C03:unauthentic-datagram-disturbs-session", fmt.Sprintf("session %d: state changed (closed %v->%v, remote a%d->a%d, wt %d->%d, queue %d->%d) by datagram [%s] %s which %s",
					i, b.Closed, af.Closed, addrID(b.Remote), addrID(af.Remote), b.Wt, af.Wt, b.QueueLen, af.QueueLen, label, short(pkt), why))
			}
			continue
		}
		s.nAcc++
		f.acc[d.ctr] = true
		if d.ctr > f.top {
			f.top = d.ctr
		}
		switch d.mt {
		case 0x10:
			if b.QueueLen < f.spec.qcap {
				f.expectStream = append(f.expectStream, d.msg...)
				if af.QueueLen != b.QueueLen+1 {
					s.fail("C03:authentic-fresh-message-not-queued", fmt.Sprintf("session %d: fresh authentic transport datagram %s (counter %d) not put on the receive queue", i, d.name, d.ctr))
				}
			}
			if af.Closed {
				s.fail("C03:session-closed-without-authentic-control", fmt.Sprintf("session %d closed by a transport message %s", i, d.name))
			}
			f.remote = src
			if !af.Closed && addrID(af.Remote) != src {
				s.fail("C15:address-not-moved-by-authentic-fresh-packet", fmt.Sprintf("session %d: authentic fresh %s from a%d left remote at a%d", i, d.name, src, addrID(af.Remote)))
			}
		case 0x80:
			f.closed = af.Closed
			if af.QueueLen != b.QueueLen {
				s.fail("C03:control-message-queued-as-data", fmt.Sprintf("session %d: control message changed the receive queue", i))
			}
		}
		if af.Count != b.Count {
			s.fail("C03:receive-changes-send-counter", fmt.Sprintf("session %d: send counter %d -> %d on receive", i, b.Count, af.Count))
		}
	}
	if exp < 0 {
		s.nRej++
	}
}

const (
	kWM = iota
	kWR
	kSD
)

// write performs WriteMsg / Write / send(control) on focus session i.
func (s *sim) write(kind, i int, mt byte, m []byte) {
	f := s.fs[i]
	hdr := header(mt, f.spec.sid, f.count)
	ct := sealDirect(f.spec.wk, hdr, m)
	var err error
	n := 0
	panicked, pmsg := hv.Catch(func() {
		switch kind {
		case kWM:
			err = f.h.WriteMsg(m)
		case kWR:
			n, err = f.h.Write(m)
		case kSD:
			err = f.h.VerifSend(mt, m)
		}
	})
	em := s.fw.take()
	after := s.states()
	code := 0
	if err != nil {
		code = 1
	}
	if panicked {
		code = 2
	}
	var pk [][]byte
	var ds []uint64
	for _, e := range em {
		pk = append(pk, e.pkt)
		ds = append(ds, addrID(e.dst))
	}
	hdrC, ctC := hx(hdr), hx(ct)
	if s.exact {
		hdrC, ctC = "(hx 0 [])", "(hx 0 [])"
	}
	switch kind {
	case kWM:
		s.addOp(hv.App("WM", hv.Ni(i), hx(m), hdrC, ctC))
		s.desc = append(s.desc, fmt.Sprintf("s%d.WriteMsg(%d bytes)->%d", i, len(m), code))
	case kWR:
		s.addOp(hv.App("WR", hv.Ni(i), hx(m), hdrC, ctC))
		s.desc = append(s.desc, fmt.Sprintf("s%d.Write(%d bytes)->(%d,%d)", i, len(m), n, code))
	case kSD:
		s.addOp(hv.App("SD", hv.Ni(i), hv.Ni(int(mt)), hx(m), hdrC, ctC))
		s.desc = append(s.desc, fmt.Sprintf("s%d.send(%#x,%x)->%d", i, mt, m, code))
	}
	s.ob(code, n, pk, ds, after)

	// ---- specification oracle ----
	if panicked {
		s.fail("C03:write-panics", pmsg)
		return
	}
	if err != nil {
		if len(em) != 0 {
			s.fail("C03:failed-write-emitted-datagram", fmt.Sprintf("session %d: write returned an error but %d datagram(s) were sent", i, len(em)))
		}
		return
	}
	if kind == kWR && n != len(m) {
		s.fail("C03:write-count-wrong", fmt.Sprintf("session %d: Write(%d bytes) returned n=%d with nil error", i, len(m), n))
	}
	if len(em) != 1 {
		s.fail("C03:write-accepted-but-not-sent", fmt.Sprintf("session %d: successful write of %d bytes put %d datagrams on the wire", i, len(m), len(em)))
		return
	}
	e := em[0]
	want := append(append([]byte(nil), hdr...), ct...)
	if !bytes.Equal(e.pkt, want) {
		s.fail("C03:wire-image-not-header-plus-seal", fmt.Sprintf("session %d: datagram %s is not header(type,0,0,0,sid,counter=%d) || SANSE.Seal(key, ad=header, plaintext)", i, short(e.pkt), f.count))
	}
	if len(m) >= 8 && contains(e.pkt, m[:8]) {
		s.fail("C03:plaintext-on-wire", fmt.Sprintf("session %d: datagram contains the plaintext", i))
	}
	if addrID(e.dst) != f.remote {
		s.fail("C15:send-to-stale-address", fmt.Sprintf("session %d: datagram sent to a%d but the last authentic fresh packet came from a%d", i, addrID(e.dst), f.remote))
	}
	f.count++
	if mt == 0x10 {
		f.wrote = append(f.wrote, m)
		f.emitted = append(f.emitted, e)
	}
	s.addDg(&dg{b: e.pkt, sess: i, toFocus: false, mt: mt, ctr: f.count - 1, msg: m, name: fmt.Sprintf("OWN%d.%d", i, f.count-1)})
}

func (s *sim) closeSess(i int) {
	f := s.fs[i]
	f.h.Close()
	f.closed = true
	s.addOp(hv.App("CL", hv.Ni(i)))
	s.ob(0, 0, nil, nil, s.states())
	s.desc = append(s.desc, fmt.Sprintf("s%d.Close()", i))
}

// read performs ReadMsg (msg=true) or Read on focus session i with an n-byte buffer; returns the code.
func (s *sim) read(msg bool, i int, n int) int {
	f := s.fs[i]
	if s.big == nil {
		s.big = make([]byte, 70000)
	}
	buf := s.big[:n]
	var got int
	var err error
	if msg {
		got, err = f.h.ReadMsg(buf)
	} else {
		got, err = f.h.Read(buf)
	}
	code := 0
	var data [][]byte
	switch {
	case err == nil:
		data = [][]byte{append([]byte{}, buf[:got]...)}
	case errors.Is(err, io.EOF):
		code = 2
	case errors.Is(err, transport.ErrBufOverflow):
		code = 1
	default:
		code = 3
	}
	name := "Read"
	if msg {
		name = "ReadMsg"
		s.addOp(hv.App("RM", hv.Ni(i), hv.Ni(n)))
	} else {
		s.addOp(hv.App("RD", hv.Ni(i), hv.Ni(n)))
	}
	s.ob(code, 0, data, nil, s.states())
	s.desc = append(s.desc, fmt.Sprintf("s%d.%s(buf %d)->%d", i, name, n, code))

	// ---- specification oracle ----
	if code == 0 {
		d := data[0]
		f.gotStream = append(f.gotStream, d...)
		if s.msgMode {
			if f.sentByPeer[string(d)] <= 0 {
				s.fail("C03:returned-message-not-written-by-peer-or-returned-twice", fmt.Sprintf("session %d: ReadMsg returned %s (%d bytes), not an outstanding message the peer wrote on this session/direction", i, short(d), len(d)))
			} else {
				f.sentByPeer[string(d)]--
			}
		}
		if !bytes.HasPrefix(f.expectStream, f.gotStream) {
			s.fail("C03:reader-bytes-differ-from-authentic-messages", fmt.Sprintf("session %d: the reader got %d bytes that are not the concatenation of the authentic fresh messages accepted so far", i, len(f.gotStream)))
		}
	}
	return code
}

// finish drains every reader, checks that everything accepted came out, and runs the faithful leg:
// everything the focus wrote is delivered in order to the real peer and read back there.
func (s *sim) finish() {
	for i, f := range s.fs {
		for k := 0; k < f.spec.qcap+3; k++ {
			if c := s.read(true, i, 70000); c != 0 {
				break
			}
		}
		if !bytes.Equal(f.expectStream, f.gotStream) {
			s.fail("C03:accepted-message-never-returned", fmt.Sprintf("session %d: reader drained %d bytes, %d bytes of authentic fresh messages were queued", i, len(f.gotStream), len(f.expectStream)))
		}
		// faithful leg
		src := mkAddr(1, false)
		buf := make([]byte, 70000)
		for j, e := range f.emitted {
			if err := f.peerIn(src, e.pkt); err != nil {
				s.fail("C03:written-bytes-not-delivered", fmt.Sprintf("session %d: peer rejected the %d-th datagram the focus wrote: %v", i, j, err))
				break
			}
			n, err := f.peer.ReadMsg(buf)
			if err != nil || !bytes.Equal(buf[:n], f.wrote[j]) {
				s.fail("C03:written-bytes-not-delivered", fmt.Sprintf("session %d: write #%d (%d bytes) arrived at the peer as %d bytes (err %v)", i, j, len(f.wrote[j]), n, err))
				break
			}
		}
	}
}

func (s *sim) emit(idx int) {
	fn := "c03_ok"
	if s.prop == "C15" {
		fn = "c15_ok"
	}
	if s.exact {
		fn = "c03x_ok"
		if s.prop == "C15" {
			fn = "c15x_ok"
		}
	}
	if s.loop {
		fn = "c03l_ok"
		if s.prop == "C15" {
			fn = "c15l_ok"
		}
	}
	specs := make([]string, len(s.fs))
	for i, f := range s.fs {
		specs[i] = f.spec.coq()
	}
	coq := hv.Tuple(hv.Ni(s.kind), hv.List(specs), hv.List(s.ops), hv.List(s.obs))
	kind := "server"
	if s.kind == 1 {
		kind = "client"
	}
	desc := fmt.Sprintf("#%d %s %s sessions=%d: %s", idx, s.class, kind, len(s.fs), strings.Join(s.desc, "; "))
	var rep interface{}
	if s.sig != "" {
		rep = map[string]interface{}{"class": s.class, "case": idx, "ops": s.ops, "what": s.what}
	}
	hv.Emit(hv.Case{Fn: fn, Coq: coq, Class: s.class, Desc: desc, Spec: s.sig == "", Sig: s.sig, What: s.what,
		NT: s.nAcc > 0 && s.nRej > 0, Replay: rep})
}
