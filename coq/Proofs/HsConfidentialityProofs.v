(* HsConfidentialityProofs.v — structural confidentiality of the handshake fields that carry the server
   name and the certificates (C03, third sentence): in every datagram a writer emits, the field is exactly
   the output of the duplex Encrypt on the plaintext at that transcript position; apart from that the
   plaintext influences the datagram only through the duplex state (the MACs squeezed after it) and, for
   certificates, through their total length in the clear header. *)
From Hop Require Import Base Keccak Cyclist CyclistProofs Handshake HsConcrete HandshakeProofs HsBindingProofs HsHonestProofs.
From Coq Require Import ZifyN ZifyNat ZifyBool.
Open Scope N_scope.
Local Arguments N.add : simpl never.
Local Arguments N.mul : simpl never.
Local Opaque N.add N.mul.

Definition certs_pt (leaf inter : bytes) : bytes := write_vector leaf ++ write_vector inter.
Definition certs_hdr (mt : N) (v : N) (leaf inter : bytes) : bytes :=
  [mt; v; (enc_certs_len leaf inter / 256) mod 256; enc_certs_len leaf inter mod 256].

(* ---- ClientAck: the server name *)
Definition ack_pre (T : tr) (epub kpub cookie : bytes) : tr :=
  OAbsorb cookie :: OAbsorb kpub :: OAbsorb epub :: OAbsorb [MT_ClientAck; 0; 0; 0] :: T.

Theorem client_ack_shape : forall O T epub kpub cookie sni m T',
  write_client_ack O T epub kpub cookie sni = (m, T') ->
  m = [MT_ClientAck; 0; 0; 0] ++ epub ++ kpub ++ cookie
      ++ o_enc O (ack_pre T epub kpub cookie) sni
      ++ o_sq O (OCrypt sni :: ack_pre T epub kpub cookie) MacLen.
Proof. intros. unfold write_client_ack, encrypt, squeeze, absorb in H. injection H as <- _. reflexivity. Qed.

Theorem client_ack_sni_field : forall O T epub kpub cookie sni m T',
  len epub = DHLen -> len kpub = KemKeyLen -> len cookie = PQCookieLen ->
  len (o_enc O (ack_pre T epub kpub cookie) sni) = SNILen ->
  write_client_ack O T epub kpub cookie sni = (m, T') ->
  slice m (HeaderLen + DHLen + KemKeyLen + PQCookieLen) SNILen = o_enc O (ack_pre T epub kpub cookie) sni.
Proof.
  intros O T epub kpub cookie sni m T' He Hk Hc Hs H.
  rewrite (client_ack_shape _ _ _ _ _ _ _ _ H).
  assert (Lh : len [MT_ClientAck; 0; 0; 0] = HeaderLen) by reflexivity.
  unfold HeaderLen, DHLen, KemKeyLen, PQCookieLen, SNILen in *. fld.
Qed.

(* ---- ServerAuth: the server's certificates *)
Definition sa_pre (T : tr) (hdr sid epub ee : bytes) : tr :=
  OAbsorb ee :: OAbsorb epub :: OAbsorb sid :: OAbsorb hdr :: T.

Theorem server_auth_shape : forall O X T sid epub es ss ceph leaf inter T' m,
  write_server_auth O X T sid epub es ss ceph leaf inter = (T', Ok m) ->
  exists ee des,
    x_dh X es ceph = Some ee /\ x_dh X ss ceph = Some des /\
    let hdr := certs_hdr MT_ServerAuth 0 leaf inter in
    let T4 := sa_pre T hdr sid epub ee in
    m = hdr ++ sid ++ epub ++ o_enc O T4 (certs_pt leaf inter)
        ++ o_sq O (OCrypt (certs_pt leaf inter) :: T4) MacLen
        ++ o_sq O (OAbsorb des :: OSqueeze MacLen :: OCrypt (certs_pt leaf inter) :: T4) MacLen.
Proof.
  intros. unfold write_server_auth, encrypt_certs, encrypt, squeeze, absorb in H.
  destruct (x_dh X es ceph) as [ee|]; [|discriminate].
  destruct (x_dh X ss ceph) as [des|]; [|discriminate].
  injection H as _ <-. exists ee, des. repeat split; reflexivity.
Qed.

Theorem server_auth_certs_field : forall O X T sid epub es ss ceph leaf inter T' m,
  len sid = SessionIDLen -> len epub = DHLen ->
  write_server_auth O X T sid epub es ss ceph leaf inter = (T', Ok m) ->
  exists ee, x_dh X es ceph = Some ee /\
    let T4 := sa_pre T (certs_hdr MT_ServerAuth 0 leaf inter) sid epub ee in
    slice m (HeaderLen + SessionIDLen + DHLen) (len (o_enc O T4 (certs_pt leaf inter))) = o_enc O T4 (certs_pt leaf inter).
Proof.
  intros O X T sid epub es ss ceph leaf inter T' m Hs He H.
  apply server_auth_shape in H as (ee & des & Hee & _ & Hm). exists ee. split; auto.
  cbv zeta in *. rewrite Hm.
  assert (Lh : len (certs_hdr MT_ServerAuth 0 leaf inter) = HeaderLen) by reflexivity.
  unfold HeaderLen, SessionIDLen, DHLen in *. fld.
Qed.

(* ---- ClientAuth: the client's certificates *)
Theorem client_auth_shape : forall O X T sid cs seph leaf inter T' m,
  write_client_auth O X T sid cs seph leaf inter = (T', Ok m) ->
  exists dse, x_dh X cs seph = Some dse /\
    let hdr := certs_hdr MT_ClientAuth 0 leaf inter in
    let T2 := OAbsorb sid :: OAbsorb hdr :: T in
    m = hdr ++ sid ++ o_enc O T2 (certs_pt leaf inter)
        ++ o_sq O (OCrypt (certs_pt leaf inter) :: T2) MacLen
        ++ o_sq O (OAbsorb dse :: OSqueeze MacLen :: OCrypt (certs_pt leaf inter) :: T2) MacLen.
Proof.
  intros. unfold write_client_auth, encrypt_certs, encrypt, squeeze, absorb in H.
  destruct (len leaf =? 0); [discriminate|].
  destruct (x_dh X cs seph) as [dse|]; [|discriminate].
  injection H as _ <-. exists dse. split; reflexivity.
Qed.

Theorem client_auth_certs_field : forall O X T sid cs seph leaf inter T' m,
  len sid = SessionIDLen ->
  write_client_auth O X T sid cs seph leaf inter = (T', Ok m) ->
  let T2 := OAbsorb sid :: OAbsorb (certs_hdr MT_ClientAuth 0 leaf inter) :: T in
  slice m (HeaderLen + SessionIDLen) (len (o_enc O T2 (certs_pt leaf inter))) = o_enc O T2 (certs_pt leaf inter).
Proof.
  intros O X T sid cs seph leaf inter T' m Hs H.
  apply client_auth_shape in H as (dse & _ & Hm). cbv zeta in *. rewrite Hm.
  assert (Lh : len (certs_hdr MT_ClientAuth 0 leaf inter) = HeaderLen) by reflexivity.
  unfold HeaderLen, SessionIDLen in *. fld.
Qed.

(* ---- hidden request: the client's certificates (and the timestamp) *)
Theorem request_hidden_shape : forall O T kpub ct k leaf inter ts T' m,
  write_request_hidden O T kpub ct k leaf inter ts = (T', Ok m) ->
  let hdr := certs_hdr MT_ClientRequestHidden Version leaf inter in
  let T3 := OAbsorb k :: OAbsorb kpub :: OAbsorb hdr :: T in
  let T5 := OSqueeze MacLen :: OCrypt (certs_pt leaf inter) :: T3 in
  m = hdr ++ kpub ++ ct ++ o_enc O T3 (certs_pt leaf inter)
      ++ o_sq O (OCrypt (certs_pt leaf inter) :: T3) MacLen
      ++ o_enc O T5 ts ++ o_sq O (OCrypt ts :: T5) MacLen.
Proof.
  intros. unfold write_request_hidden, encrypt_certs, encrypt, squeeze, absorb in H.
  destruct (len leaf =? 0); [discriminate|]. injection H as _ <-. reflexivity.
Qed.

Theorem request_hidden_certs_field : forall O T kpub ct k leaf inter ts T' m,
  len kpub = KemKeyLen -> len ct = KemCtLen ->
  write_request_hidden O T kpub ct k leaf inter ts = (T', Ok m) ->
  let T3 := OAbsorb k :: OAbsorb kpub :: OAbsorb (certs_hdr MT_ClientRequestHidden Version leaf inter) :: T in
  slice m (HeaderLen + KemKeyLen + KemCtLen) (len (o_enc O T3 (certs_pt leaf inter))) = o_enc O T3 (certs_pt leaf inter).
Proof.
  intros O T kpub ct k leaf inter ts T' m Hk Hc H.
  apply request_hidden_shape in H. cbv zeta in *. rewrite H.
  assert (Lh : len (certs_hdr MT_ClientRequestHidden Version leaf inter) = HeaderLen) by reflexivity.
  unfold HeaderLen, KemKeyLen, KemCtLen in *. fld.
Qed.

(* ---- hidden response: the server's certificates *)
Theorem response_hidden_shape : forall O X T sid ect ek ss cpk leaf inter T' m,
  write_response_hidden O X T sid ect ek ss cpk leaf inter = (T', Ok m) ->
  exists dss, x_dh X ss cpk = Some dss /\
    let hdr := certs_hdr MT_ServerResponseHidden 0 leaf inter in
    let T3 := OAbsorb ek :: OAbsorb sid :: OAbsorb hdr :: T in
    m = hdr ++ sid ++ ect ++ o_enc O T3 (certs_pt leaf inter)
        ++ o_sq O (OCrypt (certs_pt leaf inter) :: T3) MacLen
        ++ o_sq O (OAbsorb dss :: OSqueeze MacLen :: OCrypt (certs_pt leaf inter) :: T3) MacLen.
Proof.
  intros. unfold write_response_hidden, encrypt_certs, encrypt, squeeze, absorb in H.
  destruct (x_dh X ss cpk) as [dss|]; [|discriminate].
  injection H as _ <-. exists dss. split; reflexivity.
Qed.

Theorem response_hidden_certs_field : forall O X T sid ect ek ss cpk leaf inter T' m,
  len sid = SessionIDLen -> len ect = KemCtLen ->
  write_response_hidden O X T sid ect ek ss cpk leaf inter = (T', Ok m) ->
  let T3 := OAbsorb ek :: OAbsorb sid :: OAbsorb (certs_hdr MT_ServerResponseHidden 0 leaf inter) :: T in
  slice m (HeaderLen + SessionIDLen + KemCtLen) (len (o_enc O T3 (certs_pt leaf inter))) = o_enc O T3 (certs_pt leaf inter).
Proof.
  intros O X T sid ect ek ss cpk leaf inter T' m Hs Hc H.
  apply response_hidden_shape in H as (dss & _ & Hm). cbv zeta in *. rewrite Hm.
  assert (Lh : len (certs_hdr MT_ServerResponseHidden 0 leaf inter) = HeaderLen) by reflexivity.
  unfold HeaderLen, SessionIDLen, KemCtLen in *. fld.
Qed.

(* ---- the executable instance: the encrypted field is Cyclist's Crypt output on the object of the
   transcript (plaintext xor keystream, block by block), of the plaintext's length *)
Theorem conc_enc_is_cyclist_crypt : forall f T c p, cy_of f T = Ok c -> md c = MKey ->
  o_enc (concO f) T p = fst (crypt f false c p) /\ List.length (o_enc (concO f) T p) = List.length p.
Proof.
  intros f T c p H K. cbn [o_enc concO]. unfold conc_enc. rewrite H. unfold cy_encrypt. rewrite K.
  pose proof (crypt_length f false c p) as L. destruct (crypt f false c p). cbn [fst] in *. auto.
Qed.
