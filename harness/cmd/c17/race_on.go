//go:build race

package main

func raceNote() string { return "built with -race" }
