(* Correspondence entry point for the read side of transport.Handle (Model/HandleRead.v).

   c17r_ok — the driver (harness/cmd/c17/hread.go) builds a real Handle (or a Client around one),
     feeds it sealed transport packets through the real handleSessionMessage, calls
     Read / ReadMsg with generated buffer sizes, Close and SetReadDeadline, and records for every
     call what came back (bytes copied into the buffer, or the kind of error; for an arrival whether
     the queue grew).  The case carries the queue capacity, whether the handle starts with an
     expired read deadline, the list of (operation, observed result) and the final queue length and
     leftover-buffer length.  The checker replays the same operations on the model and compares
     every result and the final lengths. *)
From Hop Require Import Base HandleRead.
Open Scope N_scope.

(* short constructor aliases for the generated files *)
Definition Hr (n : N) := HRead n.
Definition Hm (n : N) := HReadMsg n.
Definition Ha (m : bytes) := HArrive m.
Definition Hc := HShut.
Definition Hx := HExpire.
Definition Hu := HUnexpire.
Definition Vd (b : bytes) := HData b.
Definition Ve := HEof.
Definition Vt := HTimeout.
Definition Vo := HOverflow.
Definition Vb := HBlock.
Definition Vq := HQueued.
Definition Vx := HDropped.
Definition Vn := HNil.

Definition hrres_eqb (a b : hrres) : bool :=
  match a, b with
  | HData x, HData y => beq_bytes x y
  | HEof, HEof | HTimeout, HTimeout | HOverflow, HOverflow | HBlock, HBlock
  | HQueued, HQueued | HDropped, HDropped | HNil, HNil => true
  | _, _ => false
  end.

Fixpoint hr_replay (s : hrstate) (evs : list hrevent) : bool * hrstate :=
  match evs with
  | [] => (true, s)
  | (o, x) :: r =>
    let '(s1, y) := hr_step s o in
    if hrres_eqb x y then hr_replay s1 r else (false, s1)
  end.

(* capacity, expired at start, events, final len(recv.C), final buf.Len() *)
Definition c17r_case := (N * bool * list hrevent * N * N)%type.
Definition c17r_ok (c : c17r_case) : bool :=
  let '(cap, ex, evs, ql, bl) := c in
  let '(ok, s) := hr_replay (hrinit (N.to_nat cap) ex) evs in
  ok && (N.of_nat (length (hrq s)) =? ql) && (len (hrbuf s) =? bl).
