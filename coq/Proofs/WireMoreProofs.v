(* Lemmas about Model/WireMore.v: codex status message (round trip after the fix, the original
   truncation as a witness, totality and allocation bound of getStatus), window-size loop, userauth
   reply, ReadUnreliableProxyID, Unreliable.ReadMsgUDP, ReadIntentRequest / ReadIntentCommunication. *)
From Hop Require Import Base WireBase WireCert WireMsg WireMore WireBaseProofs WireCertProofs WireMsgProofs.
From Coq Require Import ZifyN ZifyNat ZifyBool.
Ltac Zify.zify_post_hook ::= Z.div_mod_to_equations.
Open Scope N_scope.

(* ====================== codex status ====================== *)
Lemma val_read_lenient_1 x s : val (read_full_lenient 1) ([x] ++ s) = Ok ([x], s).
Proof. change 1 with (len [x]). apply val_read_lenient_app. Qed.

Lemma status_roundtrip st rest : val dec_status (enc_status st ++ rest) = Ok (norm_status st, rest).
Proof.
  destruct st as [e|]; unfold dec_status, enc_status, norm_status.
  - set (t := take status_max e).
    assert (Ht : len t <= 65535) by (apply len_take_le).
    rewrite <- !app_assoc. rewrite val_bind, val_alloc, val_bind, val_read_lenient_1.
    change (byte1 [2] =? 1) with false. cbv iota.
    rewrite val_bind, val_alloc, val_bind.
    rewrite (app_assoc (be_enc 2 (len t)) [0; 0]).
    replace 4 with (len (be_enc 2 (len t) ++ [0; 0])) at 1 by (rewrite len_app, len_be_enc; reflexivity).
    rewrite val_read_lenient_app.
    assert (T2 : take 2 (be_enc 2 (len t) ++ [0; 0]) = be_enc 2 (len t))
      by (replace 2 with (len (be_enc 2 (len t))) at 1 by (rewrite len_be_enc; reflexivity); apply take_app).
    rewrite T2, be_dec_enc by (change (256 ^ N.of_nat 2) with 65536; lia).
    rewrite val_bind, val_alloc, val_bind, val_read_lenient_app, val_bind, val_alloc, val_ret. reflexivity.
  - rewrite val_bind, val_alloc, val_bind, val_read_lenient_1.
    change (byte1 [1] =? 1) with true. cbv iota. rewrite val_ret. reflexivity.
Qed.

Definition st_hdr1 (s : bytes) : bytes := take 1 s ++ zeros (1 - len s).
Definition st_hdr4 (s : bytes) : bytes := take 4 (drop 1 s) ++ zeros (4 - len (drop 1 s)).
Definition st_len (s : bytes) : N := be_dec (take 2 (st_hdr4 s)).

Lemma dec_status_val s :
  val dec_status s =
  if byte1 (st_hdr1 s) =? 1 then Ok (None, drop 1 s)
  else Ok (Some (take (st_len s) (drop 4 (drop 1 s)) ++ zeros (st_len s - len (drop 4 (drop 1 s)))),
           drop (st_len s) (drop 4 (drop 1 s))).
Proof.
  unfold dec_status. rewrite val_bind, val_alloc, val_bind, val_read_lenient. fold (st_hdr1 s).
  destruct (byte1 (st_hdr1 s) =? 1); [apply val_ret|].
  rewrite val_bind, val_alloc, val_bind, val_read_lenient. fold (st_hdr4 s). fold (st_len s).
  rewrite val_bind, val_alloc, val_bind, val_read_lenient, val_bind, val_alloc, val_ret. reflexivity.
Qed.

Lemma st_len_bound s : wf_bytes s = true -> st_len s < 65536.
Proof.
  intros W. unfold st_len.
  assert (W4 : wf_bytes (st_hdr4 s) = true) by (apply wf_lenient, wf_drop; exact W).
  pose proof (be_dec_bound _ (wf_take 2 _ W4)) as B.
  assert (len (take 2 (st_hdr4 s)) = 2) as L by (apply len_take; unfold st_hdr4; rewrite len_lenient; lia).
  rewrite L in B. change (256 ^ 2) with 65536 in B. exact B.
Qed.

Lemma dec_status_total s : exists v r, val dec_status s = Ok (v, r).
Proof. rewrite dec_status_val. destruct (byte1 (st_hdr1 s) =? 1); eauto. Qed.

Lemma dec_status_sound s v r :
  val dec_status s = Ok (v, r) -> wf_bytes s = true -> norm_status v = v.
Proof.
  rewrite dec_status_val. intros H W. pose proof (st_len_bound s W) as B.
  destruct (byte1 (st_hdr1 s) =? 1).
  - assert (v = None) as -> by congruence. reflexivity.
  - set (n := st_len s) in *.
    assert (v = Some (take n (drop 4 (drop 1 s)) ++ zeros (n - len (drop 4 (drop 1 s))))) as -> by congruence.
    unfold norm_status. f_equal. apply take_all. rewrite len_lenient. unfold status_max. lia.
Qed.

Lemma status_stable s v r :
  val dec_status s = Ok (v, r) -> wf_bytes s = true ->
  forall r', val dec_status (enc_status v ++ r') = Ok (v, r').
Proof.
  intros H W r'. rewrite status_roundtrip. erewrite dec_status_sound; eauto.
Qed.

Lemma dec_status_cost s : wf_bytes s = true -> cost dec_status s <= 131075.
Proof.
  intros W. unfold dec_status.
  rewrite cost_bind, cost_alloc, val_alloc, cost_bind, cost_read_lenient, val_read_lenient. fold (st_hdr1 s).
  destruct (byte1 (st_hdr1 s) =? 1); [rewrite cost_ret; lia|].
  rewrite cost_bind, cost_alloc, val_alloc, cost_bind, cost_read_lenient, val_read_lenient.
  fold (st_hdr4 s). fold (st_len s).
  rewrite cost_bind, cost_alloc, val_alloc, cost_bind, cost_read_lenient, val_read_lenient,
    cost_bind, cost_alloc, val_alloc, cost_ret.
  pose proof (st_len_bound s W). lia.
Qed.

(* the ORIGINAL SendFailure on ANY 65536-byte error text: announced length 0, so the client sees an
   empty error and the 65536 bytes of text stay unread in the tube; the repaired one delivers the first
   65535 bytes and leaves nothing behind *)
Lemma status_unfixed_truncates e : len e = 65536 ->
  val dec_status (enc_status_unfixed (Some e)) = Ok (Some [], e) /\
  val dec_status (enc_status (Some e) ++ []) = Ok (Some (take 65535 e), []).
Proof.
  intros L. split; [|apply status_roundtrip].
  unfold enc_status_unfixed, dec_status. rewrite L. change (65536 mod 65536) with 0.
  rewrite val_bind, val_alloc, val_bind, val_read_lenient_1.
  change (byte1 [2] =? 1) with false. cbv iota.
  rewrite val_bind, val_alloc, val_bind.
  rewrite (app_assoc (be_enc 2 0) [0; 0]).
  change 4 with (len (be_enc 2 0 ++ [0; 0])) at 1. rewrite val_read_lenient_app.
  change (be_dec (take 2 (be_enc 2 0 ++ [0; 0]))) with 0.
  rewrite val_bind, val_alloc, val_bind, val_read_lenient.
  change (take 0 e) with (@nil N). change (drop 0 e) with e. change (zeros (0 - len e)) with (zeros 0).
  rewrite val_bind, val_alloc, val_ret. reflexivity.
Qed.
Lemma status_unfixed_witness : len (zeros 65536) = 65536.
Proof. apply len_zeros. Qed.

(* ====================== window-size tube ====================== *)
Definition ws_of (b : bytes) : winsize :=
  Ws (be_dec (slice b 0 2)) (be_dec (slice b 2 4)) (be_dec (slice b 4 6)) (be_dec (slice b 6 8)).

Lemma dec_ws_eq s :
  dec_ws s = if 8 <=? len s then (Ok (ws_of (take 8 s), drop 8 s), 8) else (Err, 8).
Proof.
  unfold dec_ws, bindM, read_fixed, bindM, allocM, read_full, retM.
  destruct (8 <=? len s); reflexivity.
Qed.

Lemma ws_roundtrip w rest : wt_ws w = true -> val dec_ws (enc_ws w ++ rest) = Ok (w, rest).
Proof.
  intros W. unfold wt_ws in W. repeat (apply andb_prop in W; destruct W as [W ?H]).
  unfold val. rewrite dec_ws_eq.
  assert (L : len (enc_ws w) = 8) by (unfold enc_ws; rewrite !len_app, !len_be_enc; reflexivity).
  rewrite len_app, L. replace (8 <=? 8 + len rest) with true by lia. cbn [fst].
  assert (T8 : take 8 (enc_ws w ++ rest) = enc_ws w) by (rewrite <- L; apply take_app).
  assert (D8 : drop 8 (enc_ws w ++ rest) = rest) by (rewrite <- L; apply drop_app).
  rewrite T8, D8. clear T8 D8 L.
  destruct w as [a b c d]. cbn [w_rows w_cols w_x w_y] in *. unfold ws_of, enc_ws. cbn [w_rows w_cols w_x w_y].
  assert (E : forall x, x < 65536 -> be_dec (be_enc 2 x) = x)
    by (intros; apply be_dec_enc; change (256 ^ N.of_nat 2) with 65536; assumption).
  assert (SM : forall (a b c : bytes) i j, len a = i -> len b = j - i -> slice (a ++ b ++ c) i j = b).
  { intros a0 b0 c0 i j La Lb. unfold slice. subst i. rewrite drop_app, <- Lb. apply take_app. }
  set (p := be_enc 2 a). set (q := be_enc 2 b). set (r := be_enc 2 c). set (t := be_enc 2 d).
  assert (Lp : len p = 2) by apply len_be_enc. assert (Lq : len q = 2) by apply len_be_enc.
  assert (Lr : len r = 2) by apply len_be_enc. assert (Lt : len t = 2) by apply len_be_enc.
  assert (S0 : slice (p ++ q ++ r ++ t) 0 2 = p) by (apply (SM [] p (q ++ r ++ t) 0 2); [reflexivity|exact Lp]).
  assert (S2 : slice (p ++ q ++ r ++ t) 2 4 = q) by (apply (SM p q (r ++ t) 2 4); [exact Lp|exact Lq]).
  assert (S4 : slice (p ++ q ++ r ++ t) 4 6 = r).
  { rewrite (app_assoc p q). apply (SM (p ++ q) r t 4 6); [rewrite len_app; lia|exact Lr]. }
  assert (S6 : slice (p ++ q ++ r ++ t) 6 8 = t).
  { rewrite (app_assoc p q), (app_assoc (p ++ q) r). rewrite <- (app_nil_r t) at 1.
    apply (SM ((p ++ q) ++ r) t [] 6 8); [rewrite !len_app; lia|exact Lt]. }
  rewrite S0, S2, S4, S6. subst p q r t.
 rewrite !E by lia. reflexivity.
Qed.

Lemma ws_loop_ok fuel : forall s, len s / 8 < N.of_nat fuel ->
  fst (ws_loop fuel s) <> Panic /\ fst (ws_loop fuel s) <> Err /\ snd (ws_loop fuel s) = 8 * (len s / 8) + 8.
Proof.
  induction fuel as [|f IH]; intros s F; [lia|].
  cbn [ws_loop]. rewrite dec_ws_eq. destruct (8 <=? len s) eqn:E.
  - assert (L : len (drop 8 s) / 8 < N.of_nat f) by (rewrite len_drop; lia).
    destruct (IH _ L) as (P & R & C). cbn [fst snd].
    destruct (fst (ws_loop f (drop 8 s))) as [[ws s'']| |] eqn:Ef; try congruence.
    repeat split; try discriminate. rewrite C, len_drop. lia.
  - cbn [fst snd]. repeat split; try discriminate. lia.
Qed.

Lemma handle_size_total s : val handle_size s <> Panic /\ val handle_size s <> Err.
Proof.
  unfold val, handle_size. destruct (ws_loop_ok (S (N.to_nat (len s / 8))) s) as (P & R & _); [lia|]. split; assumption.
Qed.

Lemma handle_size_cost s : cost handle_size s <= 1 * len s + 8.
Proof.
  unfold cost, handle_size. destruct (ws_loop_ok (S (N.to_nat (len s / 8))) s) as (_ & _ & C); [lia|]. rewrite C. lia.
Qed.

(* ====================== userauth reply, proxy id ====================== *)
Lemma dec_ua_reply_total s : exists v r, val dec_ua_reply s = Ok (v, r).
Proof.
  unfold dec_ua_reply. rewrite val_bind, val_alloc, val_bind, val_read_lenient, val_ret. eauto.
Qed.
Lemma dec_ua_reply_cost s : cost dec_ua_reply s = 1.
Proof.
  unfold dec_ua_reply.
  rewrite cost_bind, cost_alloc, val_alloc, cost_bind, cost_read_lenient, val_read_lenient, cost_ret. reflexivity.
Qed.
(* only the exact confirmation byte is a yes: end of stream, a denial or any other byte is a no *)
Lemma dec_ua_reply_yes s v r : val dec_ua_reply s = Ok (v, r) -> (v = true <-> exists t, s = 1 :: t).
Proof.
  unfold dec_ua_reply. rewrite val_bind, val_alloc, val_bind, val_read_lenient, val_ret. intros [= <- <-].
  destruct s as [|x t].
  - cbn. split; [discriminate|intros [t H]; discriminate].
  - change (take 1 (x :: t)) with [x]. cbn [app byte1 hd]. split.
    + intros H. apply N.eqb_eq in H. subst. eauto.
    + intros [t' [= -> ->]]. reflexivity.
Qed.

Lemma dec_proxy_id_no_panic s : val dec_proxy_id s <> Panic.
Proof.
  unfold dec_proxy_id. rewrite val_bind, val_read_fixed.
  pose proof (val_read_full_err 1 s). destruct (val (read_full 1) s) as [[a r]| |]; try discriminate; congruence.
Qed.
Lemma dec_proxy_id_cost s : cost dec_proxy_id s = 1.
Proof.
  unfold dec_proxy_id. rewrite cost_bind, cost_read_fixed, val_read_fixed.
  destruct (val (read_full 1) s) as [[a r]| |]; rewrite ?cost_ret; lia.
Qed.
Lemma proxy_id_roundtrip x rest : val dec_proxy_id (x :: rest) = Ok (x, rest).
Proof.
  unfold dec_proxy_id. rewrite val_bind, val_read_fixed.
  change (x :: rest) with ([x] ++ rest). change 1 with (len [x]). rewrite val_read_full_app, val_ret. reflexivity.
Qed.

(* ====================== Unreliable.ReadMsgUDP ====================== *)
Lemma unrel_read_fits cap msg : len msg <= cap -> unrel_read cap msg = (msg, true).
Proof. intros H. unfold unrel_read. rewrite take_all by exact H. replace (len msg <=? cap) with true by lia. reflexivity. Qed.
Lemma unrel_read_bounded cap msg : len (fst (unrel_read cap msg)) <= cap.
Proof. apply len_take_le. Qed.
Lemma unrel_read_overflow cap msg : cap < len msg -> snd (unrel_read cap msg) = false /\ len (fst (unrel_read cap msg)) = cap.
Proof. intros H. unfold unrel_read. cbn [fst snd]. split; [lia|apply len_take; lia]. Qed.

(* ====================== ReadIntentRequest / ReadIntentCommunication ====================== *)
Lemma dec_intent_request_no_panic s : wf_bytes s = true -> val dec_intent_request s <> Panic.
Proof. apply dec_ag_expect_no_panic. Qed.
Lemma dec_intent_comm_no_panic s : wf_bytes s = true -> val dec_intent_comm s <> Panic.
Proof. apply dec_ag_expect_no_panic. Qed.
Lemma dec_intent_request_cost s : wf_bytes s = true -> cost dec_intent_request s <= 0 * len s + ag_cost_bound.
Proof. intros W. pose proof (dec_ag_expect_cost (fun t => t =? 1) s W). unfold dec_intent_request. lia. Qed.
Lemma dec_intent_comm_cost s : wf_bytes s = true -> cost dec_intent_comm s <= 0 * len s + ag_cost_bound.
Proof. intros W. pose proof (dec_ag_expect_cost (fun t => t =? 2) s W). unfold dec_intent_comm. lia. Qed.
