//go:build verif

package userauth

// VerifInitMsgBytes = newUserAuthInitMsg(user).toBytes()
func VerifInitMsgBytes(user string) []byte { return newUserAuthInitMsg(user).toBytes() }
