(* C02 — any in-flight change to a handshake aborts it; success means equal fresh keys.

   Model: Model/Handshake.v, Model/HsServer.v (symbolic duplex: the state is the transcript).
   "Every byte of every message is compared with a constant or a length, absorbed before a
   verified MAC, or decrypted under the duplex before a verified MAC" is stated as: for each
   reader, the map  message |-> transcript the receiver ends in  is injective on accepted
   messages (theorems *_bound), the trailing MAC is the squeeze of that transcript (C01 theorems),
   and the consumed length must equal the datagram length (exact_length theorems).
   Named hypotheses: crypt_injective (Cyclist decryption is injective in the ciphertext for a
   fixed state), kem_ct_binding (two ML-KEM ciphertexts do not decapsulate to the same secret;
   the ciphertext itself is not absorbed), kemparse_canonical (the KEM key parser accepts only
   the canonical encoding; the re-marshalled key is what is absorbed), mac_binding. *)
From Hop Require Import Base Handshake HsServer HandshakeProofs HsServerProofs HsBindingProofs.
Open Scope N_scope.

(* ---- ClientHello: header and KEM key are absorbed, the MAC is their squeeze *)
Theorem c02_client_hello_bound : forall O X T b b' T1 n n' kc kc',
  read_client_hello O X T b = (T1, Ok (n, kc)) ->
  read_client_hello O X T b' = (T1, Ok (n', kc')) ->
  take n b = take n' b'.
Proof. exact client_hello_bound. Qed.
Print Assumptions c02_client_hello_bound.

(* ---- ServerHello: header, KEM secret (of the ciphertext), cookie *)
Theorem c02_server_hello_bound : forall O X ek T b b' T1 n n' c c',
  kem_ct_binding X ek ->
  read_server_hello O X ek T b = (T1, Ok (n, c)) ->
  read_server_hello O X ek T b' = (T1, Ok (n', c')) ->
  take n b = take n' b'.
Proof. exact server_hello_bound. Qed.
Print Assumptions c02_server_hello_bound.

(* ---- ClientAck: header, ephemeral, KEM key, cookie absorbed; SNI decrypted; all before the MAC *)
Theorem c02_client_ack_bound : forall O X ck ip port b b' n n' k k',
  crypt_injective O -> kemparse_canonical X ->
  read_client_ack O X ck ip port b = Ok (n, k) ->
  read_client_ack O X ck ip port b' = Ok (n', k') ->
  ak_tr k = ak_tr k' ->
  take n b = take n' b'.
Proof. exact client_ack_bound. Qed.
Print Assumptions c02_client_ack_bound.

(* ---- ServerAuth *)
Theorem c02_server_auth_bound : forall O X ce pol T b b' T1 r r',
  crypt_injective O ->
  read_server_auth O X ce pol T b = (T1, Ok r) ->
  read_server_auth O X ce pol T b' = (T1, Ok r') ->
  take (sa_n r) b = take (sa_n r') b'.
Proof. exact server_auth_bound. Qed.
Print Assumptions c02_server_auth_bound.

(* two accepted ServerAuth messages (same receiver state) carrying the same final MAC are the
   same message: no byte before the MAC can change without the MAC changing *)
Theorem c02_server_auth_bound_under_mac_binding : forall O X ce pol T b b' T1 T1' r r',
  mac_binding O -> crypt_injective O ->
  read_server_auth O X ce pol T b = (T1, Ok r) ->
  read_server_auth O X ce pol T b' = (T1', Ok r') ->
  slice b (sa_off + sa_L b + MacLen) MacLen = slice b' (sa_off + sa_L b' + MacLen) MacLen ->
  take (sa_n r) b = take (sa_n r') b'.
Proof. exact server_auth_bound_under_mac_binding. Qed.
Print Assumptions c02_server_auth_bound_under_mac_binding.

(* ---- ClientAuth *)
Theorem c02_client_auth_bound : forall O X se pol sid T b b' T1 n n' pk pk',
  crypt_injective O ->
  read_client_auth O X se pol sid T b = (T1, Ok (n, pk)) ->
  read_client_auth O X se pol sid T b' = (T1, Ok (n', pk')) ->
  take n b = take n' b'.
Proof. exact client_auth_bound. Qed.
Print Assumptions c02_client_auth_bound.

Theorem c02_client_auth_bound_under_mac_binding : forall O X se pol sid T b b' T1 T1' n n' pk pk',
  mac_binding O -> crypt_injective O ->
  read_client_auth O X se pol sid T b = (T1, Ok (n, pk)) ->
  read_client_auth O X se pol sid T b' = (T1', Ok (n', pk')) ->
  slice b (ca_off + sa_L b + MacLen) MacLen = slice b' (ca_off + sa_L b' + MacLen) MacLen ->
  take n b = take n' b'.
Proof. exact client_auth_bound_under_mac_binding. Qed.
Print Assumptions c02_client_auth_bound_under_mac_binding.

(* ---- hidden request and response *)
Theorem c02_request_hidden_bound : forall O X certs pol now T b b' T1 q q',
  crypt_injective O -> (forall kid, kem_ct_binding X kid) ->
  hq_cert q = hq_cert q' ->
  read_request_hidden O X certs pol now T b = (T1, Ok q) ->
  read_request_hidden O X certs pol now T b' = (T1, Ok q') ->
  take (hq_n q) b = take (hq_n q') b'.
Proof. exact request_hidden_bound. Qed.
Print Assumptions c02_request_hidden_bound.

Theorem c02_response_hidden_bound : forall O X ek cs pol T b b' T1 r r',
  crypt_injective O -> kem_ct_binding X ek ->
  read_response_hidden O X ek cs pol T b = (T1, Ok r) ->
  read_response_hidden O X ek cs pol T b' = (T1, Ok r') ->
  take (sa_n r) b = take (sa_n r') b'.
Proof. exact response_hidden_bound. Qed.
Print Assumptions c02_response_hidden_bound.

(* ---- truncation / extension: the server acts on a handshake datagram, and the client proceeds,
   only when the datagram has exactly the length its reader consumed *)
Theorem c02_exact_length_server : forall O X SM s I a d,
  let o := server_step O X SM s I a d in
  (so_out o <> [] \/ sv_pending (so_srv o) <> sv_pending s) ->
  (at_ d 0 = MT_ClientHello -> len d = PQHelloLen) /\
  (at_ d 0 = MT_ClientAck -> len d = PQClientAckLen) /\
  (at_ d 0 = MT_ClientAuth -> len d = HeaderLen + SessionIDLen + sa_L d + 2 * MacLen) /\
  (at_ d 0 = MT_ClientRequestHidden ->
     len d = HeaderLen + KemCtLen + sa_L d + MacLen + KemKeyLen + TimestampLen + MacLen).
Proof. exact server_step_exact_length. Qed.
Print Assumptions c02_exact_length_server.

Theorem c02_exact_length_client : forall O X SM st a d stale st' out,
  client_step O X SM st a d stale = (st', out, Ok tt) ->
  match st with
  | CWaitSH _ => len d = PQServerHelloLen
  | CWaitSA _ => len d = SAMinLen + sa_L d
  | CWaitSRH _ => len d = SRHMinLen + sa_L d
  | _ => True
  end.
Proof. exact client_step_exact_length. Qed.
Print Assumptions c02_exact_length_client.

(* ---- keys: ratchet + labelled squeeze per direction *)
Theorem c02_direction_keys_labelled : forall O T,
  derive_final_keys O T = (o_sq O (c2s_tr T) KeyLen, o_sq O (s2c_tr T) KeyLen, OSqueeze KeyLen :: s2c_tr T).
Proof. exact derive_final_keys_labelled. Qed.
Print Assumptions c02_direction_keys_labelled.

Theorem c02_direction_keys_differ_under_mac_binding : forall O T k1 k2 T',
  mac_binding O -> derive_final_keys O T = (k1, k2, T') -> k1 <> k2.
Proof. exact direction_keys_differ_under_mac_binding. Qed.
Print Assumptions c02_direction_keys_differ_under_mac_binding.

Theorem c02_session_keys_differ_under_mac_binding : forall O T1 T2 a1 b1 a2 b2 U1 U2,
  mac_binding O -> T1 <> T2 ->
  derive_final_keys O T1 = (a1, b1, U1) -> derive_final_keys O T2 = (a2, b2, U2) ->
  a1 <> a2 /\ b1 <> b2 /\ a1 <> b2 /\ b1 <> a2.
Proof. exact session_keys_differ_under_mac_binding. Qed.
Print Assumptions c02_session_keys_differ_under_mac_binding.

(* both parties derive their keys by the same function of the final transcript: equal transcripts
   give equal key pairs (the honest-run theorems below establish equal transcripts) *)
Theorem c02_equal_transcripts_equal_keys : forall O T1 T2,
  T1 = T2 -> derive_final_keys O T1 = derive_final_keys O T2.
Proof. exact equal_transcripts_equal_keys. Qed.
Print Assumptions c02_equal_transcripts_equal_keys.
