#!/usr/bin/env python3
"""resolve a merge conflict in known_findings.json by taking the union of both sides' entries"""
import json, subprocess
def side(n):
    return json.loads(subprocess.run(["git", "show", ":%d:known_findings.json" % n], stdout=subprocess.PIPE, text=True, check=True).stdout)
a, b = side(2), side(3)
out = {"open": [], "fixed": []}
for k in ("open", "fixed"):
    seen = set()
    for e in a.get(k, []) + b.get(k, []):
        key = json.dumps(e, sort_keys=True)
        if key not in seen:
            seen.add(key); out[k].append(e)
json.dump(out, open("known_findings.json", "w"), indent=1)
print({k: len(v) for k, v in out.items()})
