//go:build verif

package tubes

// VerifC09Parity is the muxer's idParity: the parity of every identifier pickTubeID hands out.
func VerifC09Parity(m *Muxer) byte { return m.idParity }
