//go:build verif

package transport

// VerifReadBufLen reports how many bytes of a partly read message are held in Handle.buf
// (C17 read-side correspondence: compared with the model's leftover buffer at the end of a case).
func (c *Handle) VerifReadBufLen() int {
	c.readLock.Lock()
	defer c.readLock.Unlock()
	return c.buf.Len()
}
