(* SendOne.v — Reliable.sendOneFrame (tubes/reliable.go): the last step before a frame of a reliable tube is
   handed to the muxer.  It stamps the frame with the receive window's current acknowledgement number, sets the
   ACK flag on empty frames, and SUPPRESSES an empty frame that would repeat the last transmitted
   (ackNo, frameNo) pair — unless it is a retransmission, a FIN or a RESP, or ten such frames in a row were
   already suppressed (r.unsend == 10).  Definitions only. *)
From Hop Require Import Base TubesFloat Send.
Open Scope N_scope.

Record so_state := {
  so_last_ack : N;        (* lastAckSent   atomic.Uint32 *)
  so_last_frame : N;      (* lastFrameSent atomic.Uint32 *)
  so_unsend : N           (* unsend uint16 *)
}.
Definition so_init : so_state := {| so_last_ack := 0; so_last_frame := 0; so_unsend := 0 |}.

(* one call: the receive window's ackNo as getAck() returns it (uint32), the frame, the retransmission flag *)
Record so_call := {
  sc_ack : N;             (* r.recvWindow.getAck() *)
  sc_no : N;              (* pkt.frameNo *)
  sc_dlen : N;            (* pkt.dataLength *)
  sc_ackflag : bool;      (* pkt.flags.ACK as the caller set it *)
  sc_fin : bool;
  sc_resp : bool;
  sc_retx : bool
}.

(* what reaches the muxer: (priority queue?, ackNo stamped, ACK flag, frameNo) *)
Definition so_out := (bool * N * bool * N)%type.

Definition so_sends (st : so_state) (c : so_call) : bool :=
  (0 <? sc_dlen c)
  || ((sc_dlen c =? 0) && (negb (sc_ack c =? so_last_ack st) || negb (sc_no c =? so_last_frame st)
                           || sc_retx c || sc_fin c || sc_resp c))
  || (so_unsend st =? 10).

Definition send_one_frame (st : so_state) (c : so_call) : so_state * option so_out :=
  let ackflag := if sc_dlen c =? 0 then true else sc_ackflag c in
  if so_sends st c then
    ({| so_last_ack := sc_ack c; so_last_frame := sc_no c; so_unsend := 0 |},
     Some (sc_retx c, sc_ack c, ackflag, sc_no c))
  else
    ({| so_last_ack := so_last_ack st; so_last_frame := so_last_frame st; so_unsend := (so_unsend st + 1) mod 65536 |}, None).

Fixpoint so_run (st : so_state) (cs : list so_call) : so_state * list (option so_out) :=
  match cs with
  | [] => (st, [])
  | c :: rest => let '(st1, o) := send_one_frame st c in let '(st2, os) := so_run st1 rest in (st2, o :: os)
  end.

(* a frame of the byte stream (data or FIN) or a retransmission — everything the sender model of Model/Send.v
   emits — as opposed to a pure acknowledgement *)
Definition so_stream_frame (c : so_call) : bool := (0 <? sc_dlen c) || sc_fin c || sc_retx c.

(* ---- recvAck's last two statements on the congestion window: `if cwndSize < 10 { cwndSize = 10 }` and
   `windowSize = uint16(cwndSize)` (tubes/sender.go; the same expressions as inside Model/Send.v recv_ack) *)
Definition window_after_ack (c : float) : N := f_to_u16 (if fl_ltb c f10 then f10 else c).
