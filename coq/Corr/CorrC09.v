(* Correspondence entry point for C09: operation sequences on a real tubes.Muxer (Create*Tube, raw frames fed
   to its receiver goroutine, Accept, forced close + reaping, reads), every per-operation snapshot of the
   muxer's tube maps and accept queue compared with Model/Mux.v. *)
From Hop Require Import Base Recv Mux.
Open Scope N_scope.

Definition Cr (rel : bool) (ty : N) : mop := MCreate rel ty.
(* flags as on the wire: REQ=1 RESP=2 REL=4 ACK=8 FIN=16 RTR=32 *)
Definition Fr (id flags ackno no : N) (d : bytes) : mop :=
  MFrame {| mf_id := id; mf_req := N.testbit flags 0; mf_resp := N.testbit flags 1; mf_rel := N.testbit flags 2;
            mf_ack := N.testbit flags 3; mf_fin := N.testbit flags 4; mf_rtr := N.testbit flags 5;
            mf_ackno := ackno; mf_no := no; mf_data := d |}.
Definition Ac : mop := MAccept.
Definition Cl (rel : bool) (id : N) : mop := MClose rel id.
Definition Rp (rel : bool) (id : N) : mop := MReap rel id.
Definition Rd (rel : bool) (id : N) : mop := MRead rel id.

Definition c09m_case := (bool * list mop * list (list N))%type.
Definition c09m_ok (c : c09m_case) : bool :=
  let '(server, ops, obs) := c in
  beq_list (beq_list N.eqb) (snd (mrun (mux_new server) ops)) obs.

(* ---- the two ends of one session (Model/MuxPair.v) *)
From Hop Require Import MuxPair.
(* app-session-roles: idParity of the muxer hopclient built / of the muxer hopserver's session built, read from a
   real hopclient<->hopserver session *)
Definition c09roles_case := (N * N)%type.
Definition c09roles_ok (c : c09roles_case) : bool :=
  let '(pc, ps) := c in (pc =? m_parity hopclient_mux) && (ps =? m_parity hopserver_mux).

(* pair-same-role-witness: both ends tubes.Server, one reliable tube each (types 7, 9) created before any
   datagram is delivered; observed: the two ids, whether either end offered a tube to Accept, whether the
   bytes written on one tube were read from the other *)
Definition c09samerole_case := (N * N * N * N * N)%type.
Definition c09samerole_ok (c : c09samerole_case) : bool :=
  let '(id0, id1, q0, q1, crossed) := c in
  let d := [119; 49] in
  match same_time_create true true 7 9 d, same_time_create true true 9 7 d with
  | Some (ia, ib, qb, rb), Some (_, _, qa, ra) =>
      (id0 =? ia) && (id1 =? ib) && (q1 =? b2n qb) && (q0 =? b2n qa) &&
      (crossed =? b2n (beq_list N.eqb rb d && beq_list N.eqb ra d))
  | _, _ => false
  end.
