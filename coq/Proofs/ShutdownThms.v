(* ShutdownThms.v — theorems read off the invariant of the shutdown system. *)
From Hop Require Import Base ConcBase Shutdown ShutdownProofs ShutdownProofs2.
Local Open Scope nat_scope.

Lemma no_panic est tmo progs x : reachable est tmo progs x -> panic (shd x) = false.
Proof. intros Hr. apply inv_reachable in Hr. destruct Hr as [HA _]. destruct HA; auto. Qed.

Lemma queue_closing_order est tmo progs x : reachable est tmo progs x ->
  (tq_closed (shd x) = true -> ts (shd x) = TClosed /\ s_closed (shd x) = true) /\
  (mq_closed (shd x) = true -> r_closed (shd x) = true /\ init_done (shd x) = true /\ ts (shd x) = TClosed /\
                               sp (shd x) <> S_run /\ ms (shd x) = MStopped) /\
  (r_closed (shd x) = true -> ts (shd x) = TClosed /\ ecs_pending (shd x) = false /\ sp (shd x) <> S_run) /\
  (send_done (shd x) = true -> tq_closed (shd x) = true /\ tq (shd x) = 0).
Proof.
  intros Hr. apply inv_reachable in Hr. destruct Hr as [HA _]. dA HA.
  split; [exact J1|]. split; [|split; [|exact J9]].
  - intros H. destruct (J21 H) as [Hc Hi]. destruct (J2 Hc) as [Ht _].
    split; auto. split; auto. split; auto. split; [apply J40; auto|].
    rewrite J22 in H. destruct (ms (shd x)) eqn:Em; auto; simpl in *; destruct (own (shd x)); simpl in *; discriminate.
  - intros H. destruct (J2 H). split; auto.
Qed.

Lemma force_close_bounds est tmo progs x : reachable est tmo progs x ->
  (ms (shd x) <> MRunning ->
     force_armed (shd x) = true \/ fp (shd x) = F_cb \/ fp (shd x) = F_go \/ ts (shd x) = TClosed) /\
  (fp (shd x) = F_ecs \/ fp (shd x) = F_done -> ts (shd x) = TClosed) /\
  (ts (shd x) = TClosed -> r_closed (shd x) = true \/ ecs_pending (shd x) = true) /\
  stop_owner (shd x) <= 1.
Proof.
  intros Hr. apply inv_reachable in Hr. destruct Hr as [HA _]. dA HA.
  split; [|split; [exact J24|split; [exact J4|]]].
  - intros Hm. apply J23. destruct (ms (shd x)); auto; contradiction.
  - rewrite J36. destruct (running (ms (shd x))); auto.
Qed.

Lemma closed_semantics s :
  (fin_sent s = true \/ s_closed s = true \/ (ts s <> TInitiated /\ ts s <> TCloseWait)) ->
  snd (do_write s) <> 0%N /\ fst (do_write s) = s.
Proof.
  intros H. unfold do_write. destruct (ts s) eqn:Et; simpl; try (split; [discriminate|reflexivity]).
  all: destruct H as [H|[H|[H1 H2]]]; try contradiction; rewrite H; simpl; rewrite ?Bool.orb_true_r; simpl;
    (split; [discriminate|reflexivity]).
Qed.

Lemma close_admits_fin_once s s' r : do_close s = (s', r) ->
  (r = 0%N -> fin_sent s = false /\ fin_sent s' = true /\ unack_fin s' = true /\
              (ts s = TInitiated /\ ts s' = TFinWait1 \/ ts s = TCloseWait /\ ts s' = TLastAck /\ la_armed s' = true)) /\
  (fin_sent s = true -> r <> 0%N).
Proof.
  intros H. unfold do_close in H. destruct (ts s) eqn:Et.
  all: try (inversion H; subst; split; intros; discriminate).
  all: unfold send_tq, set_ts, with_tube in H; simpl in H; destruct (fin_sent s) eqn:Ef.
  all: try (inversion H; subst; split; intros; discriminate).
  all: match type of H with (if ?c then _ else _, _) = _ => destruct c end;
    try (destruct (tq_closed s)); inversion H; subst; simpl; split; intros; try discriminate; auto 10.
Qed.

(* ---------------------------------------------------------------- FIN carries the next frame number *)
From Hop Require Import ShutdownSpec.
From Coq Require Import Lia ZifyN ZifyNat.
Local Open Scope N_scope.

Definition snd_inv (s : snd) : Prop :=
  (forall f, In f (datas s) -> 1 <= f /\ f < (if finSent s then finNo s else frameNo s)) /\
  (if finSent s then frameNo s = finNo s + 1 else True) /\
  N.of_nat (length (datas s)) + 1 = (if finSent s then finNo s else frameNo s).

Lemma push_frames_spec n f l : forall f' l', push_frames n f l = (f', l') ->
  f' = f + N.of_nat n /\ length l' = (length l + n)%nat /\
  (forall g, In g l' -> In g l \/ (f <= g /\ g < f')).
Proof.
  revert f l; induction n as [|n IH]; intros f l f' l' H; simpl in H.
  - inversion H; subst. repeat split; auto; lia.
  - apply IH in H. destruct H as (A & B & C). rewrite app_length in B. simpl in B.
    repeat split; try lia. intros g Hg. destruct (C g Hg) as [Hi|Hi].
    + apply in_app_or in Hi. destruct Hi as [Hi|[Hi|[]]]; [left; auto|right; lia].
    + right. lia.
Qed.

Lemma snd_step_inv s o : snd_inv s -> snd_inv (snd_step s o).
Proof.
  intros HI. pose proof HI as (A & B & C). unfold snd_step. destruct o as [n|]; destruct (finSent s) eqn:Ef; try exact HI.
  - destruct (push_frames n (frameNo s) (datas s)) as [f l] eqn:Ep.
    apply push_frames_spec in Ep. destruct Ep as (P1 & P2 & P3).
    unfold snd_inv; simpl. split; [|split; [exact I|lia]].
    intros g Hg. destruct (P3 g Hg) as [Hi|Hi]; [destruct (A _ Hi); lia|lia].
  - unfold snd_inv; simpl. split; [|split; [reflexivity|lia]].
    intros g Hg. destruct (A _ Hg); lia.
Qed.

Theorem fin_after_data l : let s := snd_run l in
  finSent s = true ->
  finNo s = N.of_nat (length (datas s)) + 1 /\ (forall f, In f (datas s) -> 1 <= f < finNo s) /\ frameNo s = finNo s + 1.
Proof.
  assert (H : snd_inv (snd_run l)).
  { unfold snd_run.
    assert (G : snd_inv snd_init).
    { unfold snd_inv, snd_init; simpl. split; [intros g Hg; contradiction|split; [exact I|reflexivity]]. }
    revert G. generalize snd_init. induction l as [|o r IH]; intros s0 G; simpl; auto. apply IH. apply snd_step_inv; auto. }
  intros s Hf. subst s. destruct H as (A & B & C). rewrite Hf in *.
  split; [lia|]. split; [|lia]. intros g Hg. destruct (A _ Hg). lia.
Qed.
