package main

// White-box part 1: frame sequences into the real tubes.receiver (receive / read / Close), every
// per-operation observation compared with Model/Recv.v inside Coq, plus the stream oracle written from
// the property statement: what the reader was handed is a prefix of the written stream, EOF only at its
// end, and (when every frame was delivered in window) the whole stream then EOF.

import (
	"fmt"
	"strings"

	"hop.computer/hop/tubes"
	"verifharness/hv"
	hx "verifharness/hvxtubes"
)

type rop struct {
	kind byte // 'R' receive, 'D' read, 'X' close
	no   uint32
	data []byte
	ack  bool
	fin  bool
	n    int
}

// stream describes the written stream of a case: data frames first..first+n-1, FIN at first+n.
type stream struct {
	first, n uint64
	salt     uint64
	oracle   bool // arrivals are all from the legitimate set: judge prefix/EOF
	complete bool // the driver appends an in-order delivery of everything at the end: judge completeness
}

func (s *stream) chunk(i uint64) []byte {
	h := (i+s.salt)*0x9E3779B97F4A7C15 + 0x1234567
	l := 1 + int((h>>40)%3)
	b := make([]byte, l)
	for k := range b {
		b[k] = byte(h >> (8 * uint(k)))
	}
	return b
}
func (s *stream) fin() uint64 { return s.first + s.n }

// frame for stream index i (data or FIN)
func (s *stream) frame(i uint64) rop {
	if i == s.fin() {
		return rop{kind: 'R', no: uint32(i), data: []byte{}, ack: true, fin: true}
	}
	return rop{kind: 'R', no: uint32(i), data: s.chunk(i)}
}

// unwrapSpec: the representative of f32 closest to ack (what the property expects of unwrapping);
// ties and out-of-range are resolved like "lower first" but such frames are outside the legit domain.
func unwrapSpec(ack uint64, f32 uint32) uint64 {
	base := ack &^ 0xffffffff
	best := uint64(0)
	bestD := ^uint64(0)
	for _, c := range []uint64{base - (1 << 32) + uint64(f32), base + uint64(f32), base + (1 << 32) + uint64(f32)} {
		if base < (1<<32) && c > (1<<63) { // below zero
			continue
		}
		var d uint64
		if c > ack {
			d = c - ack
		} else {
			d = ack - c
		}
		if d < bestD {
			bestD, best = d, c
		}
	}
	return best
}

func runRecv(class string, st *stream, script []rop, nt bool) {
	v := tubes.VerifNewReceiver(st.first, st.first)
	var coq, obs, desc []string
	// oracle state: position in the virtual stream of the next byte the reader must get
	idx, off := st.first, 0
	specOK, what, sig := true, "", ""
	fail := func(s, w string) {
		if specOK {
			specOK, sig, what = false, s, w
		}
	}
	readTotal := 0
	sawEOF := false
	step := func(o rop) {
		switch o.kind {
		case 'R':
			var fin bool
			var ec int
			if p, msg := hv.Catch(func() { fin, ec = v.Receive(o.no, o.data, o.ack, o.fin) }); p {
				fail("C08:receiver-panics", "receiver.receive panicked: "+msg)
				ec = 9
			}
			a, w, nf, cl, bl := v.State()
			if st.oracle && fin && w != st.fin()+1 {
				// finProcessed drives the close handshake: it may be reported only when the FIN (frame first+n) and
				// everything before it has been consumed in order (c08_fin_processed_only_after_all_bytes)
				fail("C08:fin-processed-before-all-frames-consumed", fmt.Sprintf("receive(frame %d) reported finProcessed with windowStart=%d; the stream ends with the FIN at %d", o.no, w, st.fin()))
			}
			coq = append(coq, fmt.Sprintf("R %d %s %s %s", o.no, hv.Hex(o.data), hv.B(o.ack), hv.B(o.fin)))
			obs = append(obs, hv.List([]string{hx.B2N(fin), hv.Ni(ec), hv.N(a), hv.N(w), hv.Ni(nf), hx.B2N(cl), hv.Ni(bl)}))
			fl := ""
			if o.ack {
				fl += "a"
			}
			if o.fin {
				fl += "F"
			}
			desc = append(desc, fmt.Sprintf("R%d/%d%s", o.no, len(o.data), fl))
		case 'D':
			blocked, data, eof := v.Read(o.n)
			coq = append(coq, fmt.Sprintf("D %d", o.n))
			desc = append(desc, fmt.Sprintf("D%d", o.n))
			if blocked {
				obs = append(obs, "[2]")
				return
			}
			obs = append(obs, "("+hx.B2N(eof)+" :: "+hv.Hex(data)+")")
			if st.oracle {
				for _, b := range data {
					for idx < st.fin() && off >= len(st.chunk(idx)) {
						idx, off = idx+1, 0
					}
					if idx >= st.fin() {
						fail("C08:reader-got-bytes-beyond-stream", fmt.Sprintf("read returned byte %#x after the %d bytes of the stream", b, readTotal))
						break
					}
					if st.chunk(idx)[off] != b {
						fail("C08:reader-bytes-not-a-prefix", fmt.Sprintf("byte %d handed to the reader is %#x, the written stream has %#x there (frame %d offset %d)", readTotal, b, st.chunk(idx)[off], idx, off))
						break
					}
					off++
					readTotal++
				}
				for idx < st.fin() && off >= len(st.chunk(idx)) {
					idx, off = idx+1, 0
				}
				if eof {
					sawEOF = true
					if idx < st.fin() {
						fail("C08:eof-before-all-bytes", fmt.Sprintf("EOF reported after %d bytes while frame %d.. of the stream (ends before %d) were not delivered", readTotal, idx, st.fin()))
					}
				}
			}
		case 'X':
			v.Close()
			coq = append(coq, "X")
			obs = append(obs, "[]")
			desc = append(desc, "X")
			st.oracle = false // a local close legitimately ends the stream early
		}
	}
	for _, o := range script {
		step(o)
	}
	if st.complete && st.oracle {
		// deliver everything still missing, in order (each frame is then in window), reading as we go
		_, ws, _, _, _ := v.State()
		for i := ws; i <= st.fin(); i++ {
			step(st.frame(i))
			if (i-ws)%64 == 63 {
				step(rop{kind: 'D', n: 1 << 16})
			}
		}
		for k := 0; k < 4 && !sawEOF; k++ {
			step(rop{kind: 'D', n: 1 << 16})
		}
		if idx < st.fin() || !sawEOF {
			fail("C08:stream-incomplete-after-full-delivery", fmt.Sprintf("every frame was delivered in window, yet the reader has %d bytes (up to frame %d of %d) eof=%v", readTotal, idx, st.fin(), sawEOF))
		}
	}
	d := fmt.Sprintf("recv ack0=ws0=%d n=%d salt=%d: %s", st.first, st.n, st.salt, strings.Join(desc, " "))
	if len(d) > 1500 {
		d = d[:1500] + "..."
	}
	hv.Emit(hv.Case{Fn: "c08r_ok", Coq: hv.Tuple(hv.N(st.first), hv.N(st.first), hv.List(coq), hv.List(obs)),
		Class: class, Desc: d, Spec: specOK, Sig: sig, What: what, NT: nt, Key: class + "|" + strings.Join(desc, " ") + fmt.Sprint(st.first, st.salt)})
}

func genRecv(r *hv.Rand) {
	// (1) exhaustive: every sequence with repetition over a small frame alphabet
	exh := func(class string, n uint64, alphabet []int64, maxLen int) {
		// alphabet entries: >0 stream index (n+1 = FIN), 0 = pure ack frame, -1 = read
		var rec func(seq []int64)
		rec = func(seq []int64) {
			if len(seq) > 0 {
				st := &stream{first: 1, n: n, salt: 7, oracle: true, complete: true}
				var sc []rop
				for _, a := range seq {
					switch {
					case a > 0:
						sc = append(sc, st.frame(uint64(a)))
					case a == 0:
						sc = append(sc, rop{kind: 'R', no: 1, data: []byte{}, ack: true})
					default:
						sc = append(sc, rop{kind: 'D', n: 2})
					}
				}
				runRecv(class, st, sc, len(seq) >= 3)
			}
			if len(seq) == maxLen {
				return
			}
			for _, a := range alphabet {
				rec(append(append([]int64{}, seq...), a))
			}
		}
		rec(nil)
	}
	exh("recv-exhaustive-2+fin+ack", 2, []int64{1, 2, 3, 0}, hv.Scale(4, 6))
	exh("recv-exhaustive-3+fin", 3, []int64{1, 2, 3, 4}, hv.Scale(4, 6))
	exh("recv-exhaustive-2+fin+read", 2, []int64{1, 2, 3, -1}, hv.Scale(4, 6))

	// (2) random arrival orders: reorder, duplicate, omit, stale, interleaved reads
	for k := 0; k < hv.Scale(250, 1200); k++ {
		n := uint64(1 + r.Intn(hv.Scale(40, 200)))
		st := &stream{first: 1, n: n, salt: r.U64() % 1000, oracle: true, complete: true}
		var sc []rop
		L := 3 + r.Intn(int(2*n)+5)
		ws := uint64(1) // rough shadow, only used to steer the choice
		for i := 0; i < L; i++ {
			c := r.Intn(100)
			var idx uint64
			switch {
			case c < 35:
				idx = ws + uint64(r.Intn(6))
			case c < 55:
				idx = 1 + uint64(r.Intn(int(n)+1))
			case c < 65 && ws > 1:
				idx = 1 + uint64(r.Intn(int(ws)))
			case c < 72:
				sc = append(sc, rop{kind: 'R', no: uint32(r.Intn(int(n) + 3)), data: []byte{}, ack: true})
				continue
			case c < 85:
				sc = append(sc, rop{kind: 'D', n: 1 + r.Intn(8)})
				continue
			default:
				idx = ws
				ws++
			}
			if idx > st.fin() {
				idx = st.fin()
			}
			sc = append(sc, st.frame(idx))
		}
		runRecv("recv-random-order", st, sc, true)
	}

	// (3) window edge: frames at windowStart+999 .. +1002, then in-order fill
	for k := 0; k < hv.Scale(4, 16); k++ {
		n := uint64(1003 + r.Intn(40))
		st := &stream{first: 1, n: n, salt: r.U64() % 1000, oracle: true, complete: k%2 == 0}
		var sc []rop
		ws := uint64(1)
		for round := 0; round < 3; round++ {
			for _, d := range []uint64{1000, 1001, 999, 1002, 1000} {
				if ws+d <= st.fin() {
					sc = append(sc, st.frame(ws+d))
				}
			}
			adv := uint64(1 + r.Intn(3))
			for j := uint64(0); j < adv; j++ {
				sc = append(sc, st.frame(ws))
				ws++
			}
			sc = append(sc, rop{kind: 'D', n: 64})
		}
		runRecv("recv-window-edge", st, sc, true)
	}

	// (3b) a full window of out-of-order fragments behind a missing head-of-line frame: 1000 distinct frames
	// (windowStart+1 .. windowStart+1000, the window bound is inclusive), or fewer frames each delivered twice
	// or three times (1000-1100 heap entries); then the head is retransmitted and everything must become readable
	for k := 0; k < hv.Scale(4, 12); k++ {
		var first uint64 = 1
		if k%4 == 3 {
			first = 1<<32 - 500 // the same across the 32-bit wrap
		}
		st := &stream{first: first, n: 1001 + uint64(r.Intn(30)), salt: r.U64() % 1000, oracle: true, complete: true}
		var sc []rop
		lead := uint64(r.Intn(3)) // a few frames consumed in order first
		for i := uint64(0); i < lead; i++ {
			sc = append(sc, st.frame(first+i))
		}
		head := first + lead
		switch k % 4 {
		case 0, 3: // 1000 distinct frames behind the head
			for i := uint64(1); i <= 1000; i++ {
				sc = append(sc, st.frame(head+i))
			}
		case 1: // 500+ frames, each delivered twice
			m := uint64(500 + r.Intn(50))
			for i := uint64(1); i <= m; i++ {
				sc = append(sc, st.frame(head+i), st.frame(head+i))
			}
		case 2: // descending order, every third frame three times
			for i := uint64(700); i >= 1; i-- {
				sc = append(sc, st.frame(head+i))
				if i%3 == 0 {
					sc = append(sc, st.frame(head+i), st.frame(head+i))
				}
			}
		}
		sc = append(sc, rop{kind: 'D', n: 16})
		sc = append(sc, st.frame(head), rop{kind: 'D', n: 1 << 16}) // the retransmitted head-of-line frame
		runRecv("recv-full-window-behind-missing-head", st, sc, true)
	}

	// (4) frame numbers around the 2^32 wrap and the 2^31 decision boundary of unwrapFrameNo
	starts := []uint64{1<<32 - 3, 1<<32 - 1, 1 << 32, 1<<32 + 1, 1<<31 - 2, 1 << 31, 1<<31 + 1<<32 - 2, 3<<32 - 2, 1<<33 + 1<<31 - 1, 1<<40 - 5, 1<<63 - 7}
	for k := 0; k < hv.Scale(120, 600); k++ {
		first := hv.Pick(r, starts) - uint64(r.Intn(3))
		n := uint64(4 + r.Intn(12))
		st := &stream{first: first, n: n, salt: r.U64() % 1000, oracle: true, complete: true}
		var sc []rop
		ws := first
		L := 6 + r.Intn(20)
		for i := 0; i < L; i++ {
			c := r.Intn(100)
			switch {
			case c < 30:
				sc = append(sc, st.frame(ws))
				ws++
				if ws > st.fin() {
					ws = st.fin()
				}
			case c < 55:
				idx := first + uint64(r.Intn(int(n)+1))
				sc = append(sc, st.frame(idx))
			case c < 65:
				// stale frame of the same connection, long consumed (below the window, within 2^31)
				back := hv.Pick(r, []uint64{1, 2, 1000, 1001, 1<<31 - 2})
				if first > back+1 {
					i := first - back
					sc = append(sc, rop{kind: 'R', no: uint32(i), data: st.chunk(i)})
				}
			case c < 75:
				// far ahead but still nearer to ackNo than its alias: must be refused as out of window
				i := ws + hv.Pick(r, []uint64{1001, 1002, 5000, 1<<31 - 2})
				sc = append(sc, rop{kind: 'R', no: uint32(i), data: []byte{0xEE}})
			case c < 85:
				sc = append(sc, rop{kind: 'D', n: 1 + r.Intn(6)})
			default:
				sc = append(sc, rop{kind: 'R', no: uint32(ws), data: []byte{}, ack: true})
			}
		}
		runRecv("recv-wrap-2^32", st, sc, true)
	}

	// (5) beyond the legitimate set (model comparison only): frames after FIN, frames after a local
	// Close, ACK-flagged data, FIN carrying data; payloads stay a function of the unwrapped number so
	// that the heap's tie-breaking between equal priorities is unobservable
	for k := 0; k < hv.Scale(150, 600); k++ {
		first := hv.Pick(r, []uint64{1, 1, 1, 1<<32 - 2, 1<<31 - 1})
		n := uint64(2 + r.Intn(8))
		st := &stream{first: first, n: n, salt: r.U64() % 1000}
		var sc []rop
		L := 4 + r.Intn(16)
		finData := r.Chance(30)
		for i := 0; i < L; i++ {
			c := r.Intn(100)
			switch {
			case c < 45:
				idx := first + uint64(r.Intn(int(n)+4))
				o := rop{kind: 'R', no: uint32(idx), data: st.chunk(idx)}
				if idx == st.fin() {
					o.fin, o.ack = true, true
					if !finData {
						o.data = []byte{}
					}
				}
				sc = append(sc, o)
			case c < 55:
				idx := first + uint64(r.Intn(int(n)+1))
				sc = append(sc, rop{kind: 'R', no: uint32(idx), data: st.chunk(idx), ack: true})
			case c < 65:
				sc = append(sc, rop{kind: 'R', no: uint32(r.U64()), data: []byte{}, ack: r.Bool()})
			case c < 72:
				sc = append(sc, rop{kind: 'X'})
			case c < 80:
				// not near: unwraps to an alias 2^32 away
				idx := first + 1<<31 + uint64(r.Intn(3))
				sc = append(sc, rop{kind: 'R', no: uint32(idx), data: []byte{0xDD}})
			default:
				sc = append(sc, rop{kind: 'D', n: 1 + r.Intn(6)})
			}
		}
		runRecv("recv-outside-legit-set", st, sc, true)
	}
}

// unwrapFrameNo alone
func genUnwrap(r *hv.Rand) {
	acks := []uint64{0, 1, 2, 1<<31 - 1, 1 << 31, 1<<31 + 1, 1<<32 - 1, 1 << 32, 1<<32 + 1, 1<<32 + 1<<31 - 1, 1<<32 + 1<<31, 1<<32 + 1<<31 + 1,
		2<<32 - 1, 2 << 32, 5<<32 + 77, 1<<63 - 1, 1 << 63, 1<<64 - 1<<32 - 2, 1<<64 - 1<<32 - 1,
		1 << 30, 1<<32 + 1<<30 + 5, 1<<32 + 1<<31 - 1<<29, 3<<32 + 1<<31 + 1<<30, 7<<32 + 3<<29}
	for _, a := range acks {
		fs := []uint32{0, 1, 1<<31 - 1, 1 << 31, 1<<31 + 1, 1<<32 - 1, uint32(a), uint32(a) + 1, uint32(a) - 1,
			uint32(a) + 1<<31 - 1, uint32(a) + 1<<31, uint32(a) + 1<<31 + 1, uint32(a) + 1000, uint32(a) - 1000,
			uint32(a) + 1<<30, uint32(a) - 1<<30, uint32(a) + 1<<30 + 1<<29, uint32(a) - 1<<30 - 1<<29, uint32(a) + 1<<31 - 2, uint32(a) - 1<<31 + 2}
		for j := 0; j < hv.Scale(4, 40); j++ {
			fs = append(fs, uint32(r.U64()))
		}
		for _, f := range fs {
			got := tubes.VerifUnwrap(a, f)
			want := unwrapSpec(a, f)
			// the property's domain: the true number is within 2^31 of ackNo, i.e. the closest alias is unique
			var d uint64
			if want > a {
				d = want - a
			} else {
				d = a - want
			}
			ok := true
			what := ""
			if d < 1<<31 && got != want {
				ok = false
				what = fmt.Sprintf("unwrapFrameNo(ack=%d, frameNo=%d) = %d, the frame number within 2^31 of ackNo is %d", a, f, got, want)
			}
			hv.Emit(hv.Case{Fn: "c08u_ok", Coq: hv.Tuple(hv.N(a), hv.N(uint64(f)), hv.N(got)), Class: "unwrap-pairs",
				Desc: fmt.Sprintf("unwrap ack=%d f32=%d", a, f), Spec: ok, Sig: "C08:unwrap-not-closest", What: what, NT: a >= 1<<31})
		}
	}
}
