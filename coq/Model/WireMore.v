(* WireMore.v — the remaining peer-facing readers of the C11 / C18 anchors (extension round):
     codex/exec.go        SendSuccess / SendFailure / getStatus      (server -> client status message)
     codex/exec.go        readSize stand-alone and the HandleSize loop (window-size tube)
     userauth/userauth.go RequestAuthorization: the one-byte reply the client reads
     authgrants/proxy_messages.go ReadUnreliableProxyID
     tubes/unreliable.go  Unreliable.ReadMsgUDP (copy into the caller's buffer)
   Same conventions as WireMsg.v (decoder monad with ghost allocation counter).  Definitions only;
   lemmas in Proofs/WireMoreProofs.v. *)
From Hop Require Import Base WireBase WireMsg.
Open Scope N_scope.

(* ======================= codex status message =======================
   value: None = execConf (command started), Some text = execFail with the error text.
   SendFailure (after the fix): the text is cut to the 65535 bytes a 16-bit length can announce;
     msg[0] = 2; PutUint16(msg[1:], len); msg[3], msg[4] stay 0; text from msg[5]. *)
Definition status_max : N := 65535.
Definition enc_status (st : option bytes) : bytes :=
  match st with
  | None => [1]
  | Some e => let t := take status_max e in [2] ++ be_enc 2 (len t) ++ [0; 0] ++ t
  end.
(* what the message delivers *)
Definition norm_status (st : option bytes) : option bytes :=
  match st with None => None | Some e => Some (take status_max e) end.

(* the ORIGINAL SendFailure: uint16(len(text)) wraps, the whole text follows *)
Definition enc_status_unfixed (st : option bytes) : bytes :=
  match st with
  | None => [1]
  | Some e => [2] ++ be_enc 2 (len e mod 65536) ++ [0; 0] ++ e
  end.

(* getStatus: all three io.ReadFull errors are ignored (buffers stay zero-padded); any first byte
   other than 1 is a failure; the length is the first two of the four length bytes; there is no
   error path and nothing is indexed beyond the buffers just made. *)
Definition dec_status : M (option bytes) :=
  allocM 1 ;;; r <~ read_full_lenient 1 ;;
  if byte1 r =? 1 then retM None
  else
    allocM 4 ;;; l <~ read_full_lenient 4 ;;
    let n := be_dec (take 2 l) in
    allocM n ;;; b <~ read_full_lenient n ;;
    allocM n ;;;             (* string(buf) *)
    retM (Some b).

Definition beq_status (a b : option bytes) : bool :=
  match a, b with None, None => true | Some x, Some y => beq_bytes x y | _, _ => false end.

(* ======================= window-size tube =======================
   The client writes 8 bytes per SIGWINCH (serializeSize = enc_ws); the server's HandleSize loops
   readSize (= dec_ws of WireMsg.v) + pty.Setsize until readSize fails (end of stream or a short
   tail).  Observable of the loop: the sizes applied, in order.  Fuel = a bound on the number of
   iterations; running out of it is modelled as Panic so that totality proves the loop bound. *)
Fixpoint ws_loop (fuel : nat) : M (list winsize) :=
  match fuel with
  | O => panicM
  | S f => fun s =>
      match dec_ws s with
      | (Ok (w, s'), n) => let r := ws_loop f s' in
                           (match fst r with Ok (ws, s'') => Ok (w :: ws, s'') | Err => Err | Panic => Panic end, n + snd r)
      | (Err, n) => (Ok ([], drop 8 s), n)  (* the loop ends; ReadFull consumed the bytes of a short tail *)
      | (Panic, n) => (Panic, n)
      end
  end.
Definition handle_size : M (list winsize) := fun s => ws_loop (S (N.to_nat (len s / 8))) s.

(* ======================= userauth reply =======================
   RequestAuthorization: b := make([]byte, 1); io.ReadFull(ch, b) (error ignored); b[0] == UserAuthConf *)
Definition dec_ua_reply : M bool :=
  allocM 1 ;;; b <~ read_full_lenient 1 ;; retM (byte1 b =? 1).

(* ======================= ReadUnreliableProxyID =======================
   id := make([]byte, 1); _, err := io.ReadFull(r, id); return id[0], err *)
Definition dec_proxy_id : M N :=
  b <~ read_fixed 1 ;; retM (byte1 b).

(* ======================= Unreliable.ReadMsgUDP =======================
   one queued datagram is copied into the caller's buffer of [cap] bytes; a longer datagram is cut and
   reported as ErrBufOverflow (the cut bytes are still in the buffer: result = bytes copied, error flag) *)
Definition unrel_read (cap : N) (msg : bytes) : bytes * bool :=
  (take cap msg, len msg <=? cap).
