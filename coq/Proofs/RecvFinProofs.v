(* RecvFinProofs.v — the `fin` result of receiver.receive (finProcessed), which is what drives the tube's close
   handshake (Reliable.receive: `finProcessed` moves initiated -> closeWait, finWait1/2 -> closing/timeWait; it is
   the input f_inorder of the C16 model Model/Shutdown.v), is reported only when the whole stream has been
   consumed.  See Properties/C08.v c08_fin_processed_only_after_all_bytes. *)
From Hop Require Import Base Recv RecvProofs.
From Coq Require Import ZifyN ZifyNat ZifyBool Lia.
Ltac Zify.zify_post_hook ::= Z.div_mod_to_equations.
Open Scope N_scope.

(* once closed, the loop leaves the receiver closed *)
Lemma process_frags_closed : forall fr a w c0 b fi, c0 = true -> r_closed (fst (process_frags fr a w c0 b fi)) = true.
Proof.
  induction fr as [|g r IHr]; intros a w c0 b fi H; cbn [process_frags]. exact H.
  destruct (negb (w =? fr_prio g)). destruct (w <? fr_prio g); auto. apply IHr. subst. reflexivity.
Qed.

(* the loop reports fin only if it was already set or it leaves the receiver closed *)
Lemma process_frags_fin : forall frags ack ws closed buf fin,
  snd (process_frags frags ack ws closed buf fin) = true ->
  fin = true \/ r_closed (fst (process_frags frags ack ws closed buf fin)) = true.
Proof.
  induction frags as [|f rest IH]; intros ack ws closed buf fin H; cbn [process_frags] in *.
  - left. exact H.
  - destruct (negb (ws =? fr_prio f)).
    + destruct (ws <? fr_prio f). * left. exact H. * apply IH. exact H.
    + destruct (IH _ _ _ _ _ H) as [F|C]; [|right; exact C].
      apply orb_true_iff in F. destruct F as [F|F]; [left; exact F|].
      right. apply process_frags_closed. rewrite F. apply orb_true_r.
Qed.

Lemma receive_fin_closed : forall r p r' fin e, receive r p = (r', fin, e) -> fin = true -> r_closed r' = true.
Proof.
  intros r p r' fin e H F. unfold receive in H. destruct (r_closed r); [inversion H; subst; discriminate|].
  match type of H with (if ?c then _ else _) = _ => destruct c end.
  - unfold process_into_buffer in H. cbn [r_frags r_ack r_ws r_closed r_buf] in H.
    match type of H with (let '(_, _) := ?x in _) = _ => destruct x as [r2 f2] eqn:P end.
    inversion H; subst.
    match type of P with process_frags ?a ?b ?c ?d ?g ?h = _ =>
      pose proof (process_frags_fin a b c d g h) as Q; rewrite P in Q end.
    destruct (Q eq_refl) as [X|X]; [discriminate|exact X].
  - match type of H with (if ?c then _ else _) = _ => destruct c end.
    + inversion H; subst. discriminate.
    + unfold process_into_buffer in H.
      match type of H with (let '(_, _) := ?x in _) = _ => destruct x as [r2 f2] eqn:P end.
      inversion H; subst.
      match type of P with process_frags ?a ?b ?c ?d ?g ?h = _ =>
        pose proof (process_frags_fin a b c d g h) as Q; rewrite P in Q end.
      destruct (Q eq_refl) as [X|X]; [discriminate|exact X].
Qed.

(* the receiver state a history reaches does not depend on the accumulated output *)
Lemma deliver_state_indep : forall chunks evs r o1 e1 o2 e2,
  fst (fst (deliver r chunks evs o1 e1)) = fst (fst (deliver r chunks evs o2 e2)).
Proof.
  intros chunks. induction evs as [|ev rest IH]; intros; cbn [deliver]. reflexivity.
  destruct ev as [b|k]. destruct (receive r (frame_of chunks b)) as [[r1 f1] e0]. apply IH.
  destruct (read r k) as [[[r1 o] e]|]; apply IH.
Qed.

Lemma history_ok_app : forall chunks evs r a,
  history_ok r chunks (evs ++ [EArr a]) ->
  history_ok r chunks evs /\
  arrival_wf chunks (r_ack (fst (fst (deliver r chunks evs [] false)))) a.
Proof.
  intros chunks evs. induction evs as [|ev rest IH]; intros r a H.
  - cbn in *. tauto.
  - destruct ev as [b|k]; cbn [app history_ok deliver] in *.
    + destruct H as [H1 H2]. destruct (receive r (frame_of chunks b)) as [[r1 f1] e1]. cbn [fst] in *.
      destruct (IH _ _ H2) as [A B]. split; [split; assumption|]. exact B.
    + destruct (read r k) as [[[r1 o] e]|].
      * destruct (IH _ _ H) as [A B]. split; [exact A|].
        rewrite (deliver_state_indep chunks rest r1 _ _ [] false). exact B.
      * apply IH. exact H.
Qed.

Section Fin.
Variable chunks : list bytes.
Hypothesis n_small : nchunks chunks + two32 + 2000 < two64.

Theorem fin_processed_only_after_all_bytes : forall (evs : list revent) (a : arrival),
  history_ok recv_init chunks (evs ++ [EArr a]) ->
  let '(r, out, _) := deliver recv_init chunks evs [] false in
  let '(r', fin, _) := receive r (frame_of chunks a) in
  fin = true ->
  consumed r' = S (List.length chunks) /\ out ++ r_buf r' = List.concat chunks.
Proof.
  intros evs a H. destruct (history_ok_app chunks evs recv_init a H) as [H1 H2].
  assert (F: false = true -> r_closed recv_init = true /\ r_buf recv_init = []) by (intros; discriminate).
  pose proof (deliver_inv chunks n_small evs recv_init [] false (inv_init chunks n_small) F H1) as L.
  destruct (deliver recv_init chunks evs [] false) as [[r out] eof]. cbn [fst] in H2.
  destruct L as (I & _ & _).
  pose proof (receive_inv chunks n_small r a out I) as RI.
  destruct (receive r (frame_of chunks a)) as [[r' fin] e] eqn:R. cbn [fst] in RI.
  intros Fin. pose proof (receive_fin_closed _ _ _ _ _ R Fin) as C.
  assert (I': Inv chunks r' out).
  { apply RI. unfold arrival_ok. exact H2. }
  pose proof (inv_closed_all chunks n_small r' out I' C) as K. split; [exact K|].
  pose proof (inv_buf _ _ _ I') as Hb. rewrite K in Hb. rewrite Hb. apply concat_firstn_all. lia.
Qed.
End Fin.
