From Hop Require Import Base Certs CertsProofs.
Theorem c04_verify_iff_sel : forall sv clock st o leaf,
  verify_leaf sv clock st o leaf = VOk <-> valid_chain_sel sv clock st o leaf.
Proof. exact verify_leaf_ok_sel. Qed.
Print Assumptions c04_verify_iff_sel.
