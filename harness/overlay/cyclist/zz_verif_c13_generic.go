//go:build verif && (!amd64 || appengine || gccgo)

package cyclist

// VerifPermImpl names the keccakF1600 implementation selected by the build constraints.
const VerifPermImpl = "generic"
