(* C02 — any in-flight change to a handshake aborts it; success means equal fresh keys.

   Model: Model/Handshake.v, Model/HsServer.v (symbolic duplex: the state is the transcript).
   "Every byte of every message is compared with a constant or a length, absorbed before a
   verified MAC, or decrypted under the duplex before a verified MAC" is stated as: for each
   reader, the map  message |-> transcript the receiver ends in  is injective on accepted
   messages (theorems *_bound), the trailing MAC is the squeeze of that transcript (C01 theorems),
   and the consumed length must equal the datagram length (exact_length theorems).
   Named hypotheses: crypt_injective (Cyclist decryption is injective in the ciphertext for a
   fixed state), kem_ct_binding (two ML-KEM ciphertexts do not decapsulate to the same secret;
   the ciphertext itself is not absorbed), kemparse_canonical (the KEM key parser accepts only
   the canonical encoding; the re-marshalled key is what is absorbed), mac_binding. *)
From Hop Require Import Base Handshake HsServer HandshakeProofs HsServerProofs HsBindingProofs HsHonestProofs HsInstances Keccak Cyclist CyclistProofs HsConcrete HsConcreteProofs HsConfidentialityProofs.
Open Scope N_scope.

(* ---- ClientHello: header and KEM key are absorbed, the MAC is their squeeze *)
Theorem c02_client_hello_bound : forall O X T b b' T1 n n' kc kc',
  read_client_hello O X T b = (T1, Ok (n, kc)) ->
  read_client_hello O X T b' = (T1, Ok (n', kc')) ->
  take n b = take n' b'.
Proof. exact client_hello_bound. Qed.
Print Assumptions c02_client_hello_bound.

(* ---- ServerHello: header, KEM secret (of the ciphertext), cookie *)
Theorem c02_server_hello_bound : forall O X ek T b b' T1 n n' c c',
  kem_ct_binding X ek ->
  read_server_hello O X ek T b = (T1, Ok (n, c)) ->
  read_server_hello O X ek T b' = (T1, Ok (n', c')) ->
  take n b = take n' b'.
Proof. exact server_hello_bound. Qed.
Print Assumptions c02_server_hello_bound.

(* ---- ClientAck: header, ephemeral, KEM key, cookie absorbed; SNI decrypted; all before the MAC *)
Theorem c02_client_ack_bound : forall O X ck ip port b b' n n' k k',
  crypt_injective O -> kemparse_canonical X ->
  read_client_ack O X ck ip port b = Ok (n, k) ->
  read_client_ack O X ck ip port b' = Ok (n', k') ->
  ak_tr k = ak_tr k' ->
  take n b = take n' b'.
Proof. exact client_ack_bound. Qed.
Print Assumptions c02_client_ack_bound.

(* ---- ServerAuth *)
Theorem c02_server_auth_bound : forall O X ce pol T b b' T1 r r',
  crypt_injective O ->
  read_server_auth O X ce pol T b = (T1, Ok r) ->
  read_server_auth O X ce pol T b' = (T1, Ok r') ->
  take (sa_n r) b = take (sa_n r') b'.
Proof. exact server_auth_bound. Qed.
Print Assumptions c02_server_auth_bound.

(* two accepted ServerAuth messages (same receiver state) carrying the same final MAC are the
   same message: no byte before the MAC can change without the MAC changing *)
Theorem c02_server_auth_bound_under_mac_binding : forall O X ce pol T b b' T1 T1' r r',
  mac_binding O -> crypt_injective O ->
  read_server_auth O X ce pol T b = (T1, Ok r) ->
  read_server_auth O X ce pol T b' = (T1', Ok r') ->
  slice b (sa_off + sa_L b + MacLen) MacLen = slice b' (sa_off + sa_L b' + MacLen) MacLen ->
  take (sa_n r) b = take (sa_n r') b'.
Proof. exact server_auth_bound_under_mac_binding. Qed.
Print Assumptions c02_server_auth_bound_under_mac_binding.

(* ---- ClientAuth *)
Theorem c02_client_auth_bound : forall O X se pol sid T b b' T1 n n' pk pk',
  crypt_injective O ->
  read_client_auth O X se pol sid T b = (T1, Ok (n, pk)) ->
  read_client_auth O X se pol sid T b' = (T1, Ok (n', pk')) ->
  take n b = take n' b'.
Proof. exact client_auth_bound. Qed.
Print Assumptions c02_client_auth_bound.

Theorem c02_client_auth_bound_under_mac_binding : forall O X se pol sid T b b' T1 T1' n n' pk pk',
  mac_binding O -> crypt_injective O ->
  read_client_auth O X se pol sid T b = (T1, Ok (n, pk)) ->
  read_client_auth O X se pol sid T b' = (T1', Ok (n', pk')) ->
  slice b (ca_off + sa_L b + MacLen) MacLen = slice b' (ca_off + sa_L b' + MacLen) MacLen ->
  take n b = take n' b'.
Proof. exact client_auth_bound_under_mac_binding. Qed.
Print Assumptions c02_client_auth_bound_under_mac_binding.

(* ---- hidden request and response *)
Theorem c02_request_hidden_bound : forall O X certs pol now T b b' T1 q q',
  crypt_injective O -> (forall kid, kem_ct_binding X kid) ->
  hq_cert q = hq_cert q' ->
  read_request_hidden O X certs pol now T b = (T1, Ok q) ->
  read_request_hidden O X certs pol now T b' = (T1, Ok q') ->
  take (hq_n q) b = take (hq_n q') b'.
Proof. exact request_hidden_bound. Qed.
Print Assumptions c02_request_hidden_bound.

Theorem c02_response_hidden_bound : forall O X ek cs pol T b b' T1 r r',
  crypt_injective O -> kem_ct_binding X ek ->
  read_response_hidden O X ek cs pol T b = (T1, Ok r) ->
  read_response_hidden O X ek cs pol T b' = (T1, Ok r') ->
  take (sa_n r) b = take (sa_n r') b'.
Proof. exact response_hidden_bound. Qed.
Print Assumptions c02_response_hidden_bound.

(* ---- truncation / extension: the server acts on a handshake datagram, and the client proceeds,
   only when the datagram has exactly the length its reader consumed *)
Theorem c02_exact_length_server : forall O X SM s I a d,
  let o := server_step O X SM s I a d in
  (so_out o <> [] \/ sv_pending (so_srv o) <> sv_pending s) ->
  (at_ d 0 = MT_ClientHello -> len d = PQHelloLen) /\
  (at_ d 0 = MT_ClientAck -> len d = PQClientAckLen) /\
  (at_ d 0 = MT_ClientAuth -> len d = HeaderLen + SessionIDLen + sa_L d + 2 * MacLen) /\
  (at_ d 0 = MT_ClientRequestHidden ->
     len d = HeaderLen + KemCtLen + sa_L d + MacLen + KemKeyLen + TimestampLen + MacLen).
Proof. exact server_step_exact_length. Qed.
Print Assumptions c02_exact_length_server.

Theorem c02_exact_length_client : forall O X SM st a d stale st' out,
  client_step O X SM st a d stale = (st', out, Ok tt) ->
  match st with
  | CWaitSH _ => len d = PQServerHelloLen
  | CWaitSA _ => len d = SAMinLen + sa_L d
  | CWaitSRH _ => len d = SRHMinLen + sa_L d
  | _ => True
  end.
Proof. exact client_step_exact_length. Qed.
Print Assumptions c02_exact_length_client.

(* ---- keys: ratchet + labelled squeeze per direction *)
Theorem c02_direction_keys_labelled : forall O T,
  derive_final_keys O T = (o_sq O (c2s_tr T) KeyLen, o_sq O (s2c_tr T) KeyLen, OSqueeze KeyLen :: s2c_tr T).
Proof. exact derive_final_keys_labelled. Qed.
Print Assumptions c02_direction_keys_labelled.

Theorem c02_direction_keys_differ_under_mac_binding : forall O T k1 k2 T',
  mac_binding O -> derive_final_keys O T = (k1, k2, T') -> k1 <> k2.
Proof. exact direction_keys_differ_under_mac_binding. Qed.
Print Assumptions c02_direction_keys_differ_under_mac_binding.

Theorem c02_session_keys_differ_under_mac_binding : forall O T1 T2 a1 b1 a2 b2 U1 U2,
  mac_binding O -> T1 <> T2 ->
  derive_final_keys O T1 = (a1, b1, U1) -> derive_final_keys O T2 = (a2, b2, U2) ->
  a1 <> a2 /\ b1 <> b2 /\ a1 <> b2 /\ b1 <> a2.
Proof. exact session_keys_differ_under_mac_binding. Qed.
Print Assumptions c02_session_keys_differ_under_mac_binding.

(* both parties derive their keys by the same function of the final transcript: equal transcripts
   give equal key pairs (the honest-run theorems below establish equal transcripts) *)
Theorem c02_equal_transcripts_equal_keys : forall O T1 T2,
  T1 = T2 -> derive_final_keys O T1 = derive_final_keys O T2.
Proof. exact equal_transcripts_equal_keys. Qed.
Print Assumptions c02_equal_transcripts_equal_keys.

(* ---- the cookie replay reconstructs the transcript: what ReplayPQDuplexFromCookie rebuilds from
   the cookie (when it opens to the KEM secret) is the transcript the server had after writing
   the ServerHello, rekeyed — the one the client continues from *)
Theorem c02_replay_reconstructs_transcript : forall O X ck kpub ct k cookie ip port mch Tch msh Tsh,
  len k = PQSharedSecretLen -> len cookie = PQCookieLen ->
  x_open X ck (cookie_ad X kpub ip port) cookie = Some k ->
  write_client_hello O (tr_start PQName) kpub = (mch, Tch) ->
  write_server_hello O Tch ct k cookie = (msh, Tsh) ->
  replay_from_cookie O X ck cookie kpub ip port = Ok (rekey O Tsh PQName).
Proof. exact replay_reconstructs_transcript. Qed.
Print Assumptions c02_replay_reconstructs_transcript.

(* ---- unmodified run, discoverable mode: every reader accepts what the writer wrote and ends in
   the writer's transcript; so client and server hold the same session id and derive their
   keys (c02_direction_keys_labelled) from the same final transcript Tca.
   Premises, all named: duplex_ok (output lengths; decrypting an encryption in the same state
   returns the plaintext — C13), kem_correct (x_decaps ... = Some k), the cookie round trip,
   dh_comm for the three DH pairs, both policies accept the peer. *)
Theorem c02_honest_run_agrees_discoverable : forall O X
    kpub ekid epub_c ce cs cleaf cinter polc snib name
    ck ip port ct k cookie es epub_s ss sleaf sinter pols sid
    spk cpk
    mch Tch msh Tsh mack Tack Tsa msa Tca mca,
  duplex_ok O ->
  len kpub = KemKeyLen -> len ct = KemCtLen -> len cookie = PQCookieLen -> len k = PQSharedSecretLen ->
  len epub_c = DHLen -> len epub_s = DHLen -> len snib = SNILen -> len sid = SessionIDLen ->
  0 < len cleaf -> len cleaf < 65536 -> len cinter < 65536 -> enc_certs_len cleaf cinter < 65536 ->
  len sleaf < 65536 -> len sinter < 65536 -> enc_certs_len sleaf sinter < 65536 ->
  x_kemparse X kpub = Some kpub ->
  x_decaps X ekid ct = Some k ->
  x_open X ck (cookie_ad X kpub ip port) cookie = Some k ->
  parse_sni snib = Ok name ->
  x_dh X ce epub_s = x_dh X es epub_c ->
  x_dh X ce spk = x_dh X ss epub_c ->
  x_dh X es cpk = x_dh X cs epub_s ->
  x_policy X polc sleaf sinter = Some spk -> x_policy X pols cleaf cinter = Some cpk ->
  write_client_hello O (tr_start PQName) kpub = (mch, Tch) ->
  write_server_hello O Tch ct k cookie = (msh, Tsh) ->
  write_client_ack O (rekey O Tsh PQName) epub_c kpub cookie snib = (mack, Tack) ->
  write_server_auth O X Tack sid epub_s es ss epub_c sleaf sinter = (Tsa, Ok msa) ->
  write_client_auth O X Tsa sid cs epub_s cleaf cinter = (Tca, Ok mca) ->
  read_client_hello O X (tr_start PQName) mch = (Tch, Ok (len mch, kpub)) /\
  read_server_hello O X ekid Tch msh = (Tsh, Ok (len msh, cookie)) /\
  read_client_ack O X ck ip port mack =
    Ok (len mack, {| ak_tr := Tack; ak_eph := epub_c; ak_kem := kpub; ak_sni := name |}) /\
  read_server_auth O X ce polc Tack msa = (Tsa, Ok {| sa_n := len msa; sa_sid := sid; sa_eph := epub_s; sa_pk := spk |}) /\
  read_client_auth O X es pols sid Tsa mca = (Tca, Ok (len mca, cpk)).
Proof. exact discoverable_run_agrees. Qed.
Print Assumptions c02_honest_run_agrees_discoverable.

(* ---- unmodified run, hidden mode *)
Theorem c02_honest_run_agrees_hidden : forall O X
    kpub ekid cs cleaf cinter polc ts
    c rest kid ct k pols now sid ect ek ss sleaf sinter
    spk cpk Treq mreq Tresp mresp,
  duplex_ok O ->
  len kpub = KemKeyLen -> len ct = KemCtLen -> len ts = TimestampLen -> len sid = SessionIDLen -> len ect = KemCtLen ->
  0 < len cleaf -> len cleaf < 65536 -> len cinter < 65536 -> enc_certs_len cleaf cinter < 65536 ->
  len sleaf < 65536 -> len sinter < 65536 -> enc_certs_len sleaf sinter < 65536 ->
  hc_kem c = Some kid -> hc_hasname c = true ->
  x_decaps X kid ct = Some k ->
  x_decaps X ekid ect = Some ek ->
  x_kemparse X kpub = Some kpub ->
  x_dh X cs spk = x_dh X ss cpk ->
  x_policy X pols cleaf cinter = Some cpk -> x_policy X polc sleaf sinter = Some spk ->
  be_dec ts <= now -> now - be_dec ts <= HiddenExpiration ->
  write_request_hidden O (tr_start_hidden O) kpub ct k cleaf cinter ts = (Treq, Ok mreq) ->
  write_response_hidden O X Treq sid ect ek ss cpk sleaf sinter = (Tresp, Ok mresp) ->
  read_request_hidden O X (Some (c :: rest)) pols now [] mreq =
    (Treq, Ok {| hq_n := len mreq; hq_tr := Treq; hq_kem := kpub; hq_pk := cpk; hq_cert := c |}) /\
  read_response_hidden O X ekid cs polc Treq mresp =
    (Tresp, Ok {| sa_n := len mresp; sa_sid := sid; sa_eph := []; sa_pk := spk |}).
Proof. exact hidden_run_agrees. Qed.
Print Assumptions c02_honest_run_agrees_hidden.

(* ---- the named hypotheses are satisfiable: an oracle whose squeeze is an injective serialisation
   of the transcript satisfies mac_binding and crypt_injective; a constant-output oracle
   satisfies duplex_ok *)
Example c02_hypotheses_satisfiable : mac_binding injO /\ crypt_injective injO /\ duplex_ok zeroO.
Proof. exact (conj mac_binding_satisfiable (conj crypt_injective_satisfiable duplex_ok_satisfiable)). Qed.

(* ====== the executable instance: duplex := Cyclist over Keccak-p[1600,12] (Model/HsConcrete.v) ======
   [hopO] answers every Squeeze / Encrypt / Decrypt of the symbolic model by running the transcript's
   operations on the Cyclist model of group crypto (C13). For it the premise duplex_ok is a THEOREM
   (output lengths from c13_lengths / crypt_length, decrypt-after-encrypt from the Crypt involution
   behind c13_decrypt_encrypt), so the honest-run theorems hold for byte-exact hop with only the
   primitives outside the model (X25519, ML-KEM, the cookie AEAD, the certificate policy) as premises. *)
Theorem c02_concrete_duplex_ok : duplex_ok hopO.
Proof. exact (concO_duplex_ok keccak12 keccak12_len). Qed.
Print Assumptions c02_concrete_duplex_ok.

Theorem c02_honest_run_agrees_discoverable_concrete : forall X
    kpub ekid epub_c ce cs cleaf cinter polc snib name
    ck ip port ct k cookie es epub_s ss sleaf sinter pols sid
    spk cpk
    mch Tch msh Tsh mack Tack Tsa msa Tca mca,
  len kpub = KemKeyLen -> len ct = KemCtLen -> len cookie = PQCookieLen -> len k = PQSharedSecretLen ->
  len epub_c = DHLen -> len epub_s = DHLen -> len snib = SNILen -> len sid = SessionIDLen ->
  0 < len cleaf -> len cleaf < 65536 -> len cinter < 65536 -> enc_certs_len cleaf cinter < 65536 ->
  len sleaf < 65536 -> len sinter < 65536 -> enc_certs_len sleaf sinter < 65536 ->
  x_kemparse X kpub = Some kpub ->
  x_decaps X ekid ct = Some k ->                              (* kem_correct *)
  x_open X ck (cookie_ad X kpub ip port) cookie = Some k ->   (* cookie round trip *)
  parse_sni snib = Ok name ->
  x_dh X ce epub_s = x_dh X es epub_c ->                      (* dh_comm *)
  x_dh X ce spk = x_dh X ss epub_c ->
  x_dh X es cpk = x_dh X cs epub_s ->
  x_policy X polc sleaf sinter = Some spk -> x_policy X pols cleaf cinter = Some cpk ->
  write_client_hello hopO (tr_start PQName) kpub = (mch, Tch) ->
  write_server_hello hopO Tch ct k cookie = (msh, Tsh) ->
  write_client_ack hopO (rekey hopO Tsh PQName) epub_c kpub cookie snib = (mack, Tack) ->
  write_server_auth hopO X Tack sid epub_s es ss epub_c sleaf sinter = (Tsa, Ok msa) ->
  write_client_auth hopO X Tsa sid cs epub_s cleaf cinter = (Tca, Ok mca) ->
  read_client_hello hopO X (tr_start PQName) mch = (Tch, Ok (len mch, kpub)) /\
  read_server_hello hopO X ekid Tch msh = (Tsh, Ok (len msh, cookie)) /\
  read_client_ack hopO X ck ip port mack =
    Ok (len mack, {| ak_tr := Tack; ak_eph := epub_c; ak_kem := kpub; ak_sni := name |}) /\
  read_server_auth hopO X ce polc Tack msa = (Tsa, Ok {| sa_n := len msa; sa_sid := sid; sa_eph := epub_s; sa_pk := spk |}) /\
  read_client_auth hopO X es pols sid Tsa mca = (Tca, Ok (len mca, cpk)).
Proof.
  intros X kpub ekid epub_c ce cs cleaf cinter polc snib name ck ip port ct k cookie es epub_s ss sleaf sinter pols sid
         spk cpk mch Tch msh Tsh mack Tack Tsa msa Tca mca.
  exact (discoverable_run_agrees hopO X kpub ekid epub_c ce cs cleaf cinter polc snib name ck ip port ct k cookie es
           epub_s ss sleaf sinter pols sid spk cpk mch Tch msh Tsh mack Tack Tsa msa Tca mca c02_concrete_duplex_ok).
Qed.
Print Assumptions c02_honest_run_agrees_discoverable_concrete.

Theorem c02_honest_run_agrees_hidden_concrete : forall X
    kpub ekid cs cleaf cinter polc ts
    c rest kid ct k pols now sid ect ek ss sleaf sinter
    spk cpk Treq mreq Tresp mresp,
  len kpub = KemKeyLen -> len ct = KemCtLen -> len ts = TimestampLen -> len sid = SessionIDLen -> len ect = KemCtLen ->
  0 < len cleaf -> len cleaf < 65536 -> len cinter < 65536 -> enc_certs_len cleaf cinter < 65536 ->
  len sleaf < 65536 -> len sinter < 65536 -> enc_certs_len sleaf sinter < 65536 ->
  hc_kem c = Some kid -> hc_hasname c = true ->
  x_decaps X kid ct = Some k -> x_decaps X ekid ect = Some ek ->   (* kem_correct *)
  x_kemparse X kpub = Some kpub ->
  x_dh X cs spk = x_dh X ss cpk ->                                 (* dh_comm *)
  x_policy X pols cleaf cinter = Some cpk -> x_policy X polc sleaf sinter = Some spk ->
  be_dec ts <= now -> now - be_dec ts <= HiddenExpiration ->
  write_request_hidden hopO (tr_start_hidden hopO) kpub ct k cleaf cinter ts = (Treq, Ok mreq) ->
  write_response_hidden hopO X Treq sid ect ek ss cpk sleaf sinter = (Tresp, Ok mresp) ->
  read_request_hidden hopO X (Some (c :: rest)) pols now [] mreq =
    (Treq, Ok {| hq_n := len mreq; hq_tr := Treq; hq_kem := kpub; hq_pk := cpk; hq_cert := c |}) /\
  read_response_hidden hopO X ekid cs polc Treq mresp =
    (Tresp, Ok {| sa_n := len mresp; sa_sid := sid; sa_eph := []; sa_pk := spk |}).
Proof.
  intros X kpub ekid cs cleaf cinter polc ts c rest kid ct k pols now sid ect ek ss sleaf sinter spk cpk Treq mreq Tresp mresp.
  exact (hidden_run_agrees hopO X kpub ekid cs cleaf cinter polc ts c rest kid ct k pols now sid ect ek ss sleaf sinter
           spk cpk Treq mreq Tresp mresp c02_concrete_duplex_ok).
Qed.
Print Assumptions c02_honest_run_agrees_hidden_concrete.

(* crypt_injective holds for the executable instance wherever the Cyclist object exists in keyed mode
   (every transcript after RekeyFromSqueeze: c02_concrete_rekey_keyed) — a theorem, not a hypothesis *)
Theorem c02_concrete_crypt_injective : forall T c ct ct',
  cy_of keccak12 T = Ok c -> md c = MKey -> o_dec hopO T ct = o_dec hopO T ct' -> ct = ct'.
Proof. exact (conc_dec_injective keccak12). Qed.
Print Assumptions c02_concrete_crypt_injective.

Theorem c02_concrete_rekey_keyed : forall T name, (List.length name < 120)%nat ->
  exists c, cy_of keccak12 (rekey hopO T name) = Ok c /\ md c = MKey.
Proof. intros. apply rekey_keyed; auto using keccak12_len. Qed.
Print Assumptions c02_concrete_rekey_keyed.

(* ====== confidentiality of handshake fields (C03, third sentence) ======
   "... nor the server name and certificates exchanged in the handshake ever appear on the wire
   unencrypted." For every writer that carries the server name or certificates, and every duplex
   oracle: the emitted datagram is the concatenation displayed below, in which the plaintext occurs
   only (a) as the argument of the duplex Encrypt at the stated transcript position — that output IS the
   field — and (b) inside the duplex state from which the following MACs are squeezed; for
   certificates additionally (c) their total length, in the clear header (the code's "don't reveal
   length" TODO). Nothing else of the datagram depends on it. *)
Theorem c03_handshake_sni_field_is_duplex_ciphertext : forall O T epub kpub cookie sni m T',
  write_client_ack O T epub kpub cookie sni = (m, T') ->
  m = [MT_ClientAck; 0; 0; 0] ++ epub ++ kpub ++ cookie
      ++ o_enc O (ack_pre T epub kpub cookie) sni
      ++ o_sq O (OCrypt sni :: ack_pre T epub kpub cookie) MacLen.
Proof. exact client_ack_shape. Qed.
Print Assumptions c03_handshake_sni_field_is_duplex_ciphertext.

Theorem c03_handshake_sni_field_position : forall O T epub kpub cookie sni m T',
  len epub = DHLen -> len kpub = KemKeyLen -> len cookie = PQCookieLen ->
  len (o_enc O (ack_pre T epub kpub cookie) sni) = SNILen ->
  write_client_ack O T epub kpub cookie sni = (m, T') ->
  slice m (HeaderLen + DHLen + KemKeyLen + PQCookieLen) SNILen = o_enc O (ack_pre T epub kpub cookie) sni.
Proof. exact client_ack_sni_field. Qed.
Print Assumptions c03_handshake_sni_field_position.

Theorem c03_handshake_certs_field_is_duplex_ciphertext_server_auth : forall O X T sid epub es ss ceph leaf inter T' m,
  write_server_auth O X T sid epub es ss ceph leaf inter = (T', Ok m) ->
  exists ee des,
    x_dh X es ceph = Some ee /\ x_dh X ss ceph = Some des /\
    let hdr := certs_hdr MT_ServerAuth 0 leaf inter in
    let T4 := sa_pre T hdr sid epub ee in
    m = hdr ++ sid ++ epub ++ o_enc O T4 (certs_pt leaf inter)
        ++ o_sq O (OCrypt (certs_pt leaf inter) :: T4) MacLen
        ++ o_sq O (OAbsorb des :: OSqueeze MacLen :: OCrypt (certs_pt leaf inter) :: T4) MacLen.
Proof. exact server_auth_shape. Qed.
Print Assumptions c03_handshake_certs_field_is_duplex_ciphertext_server_auth.

Theorem c03_handshake_certs_field_is_duplex_ciphertext_client_auth : forall O X T sid cs seph leaf inter T' m,
  write_client_auth O X T sid cs seph leaf inter = (T', Ok m) ->
  exists dse, x_dh X cs seph = Some dse /\
    let hdr := certs_hdr MT_ClientAuth 0 leaf inter in
    let T2 := OAbsorb sid :: OAbsorb hdr :: T in
    m = hdr ++ sid ++ o_enc O T2 (certs_pt leaf inter)
        ++ o_sq O (OCrypt (certs_pt leaf inter) :: T2) MacLen
        ++ o_sq O (OAbsorb dse :: OSqueeze MacLen :: OCrypt (certs_pt leaf inter) :: T2) MacLen.
Proof. exact client_auth_shape. Qed.
Print Assumptions c03_handshake_certs_field_is_duplex_ciphertext_client_auth.

Theorem c03_handshake_certs_field_is_duplex_ciphertext_request_hidden : forall O T kpub ct k leaf inter ts T' m,
  write_request_hidden O T kpub ct k leaf inter ts = (T', Ok m) ->
  let hdr := certs_hdr MT_ClientRequestHidden Version leaf inter in
  let T3 := OAbsorb k :: OAbsorb kpub :: OAbsorb hdr :: T in
  let T5 := OSqueeze MacLen :: OCrypt (certs_pt leaf inter) :: T3 in
  m = hdr ++ kpub ++ ct ++ o_enc O T3 (certs_pt leaf inter)
      ++ o_sq O (OCrypt (certs_pt leaf inter) :: T3) MacLen
      ++ o_enc O T5 ts ++ o_sq O (OCrypt ts :: T5) MacLen.
Proof. exact request_hidden_shape. Qed.
Print Assumptions c03_handshake_certs_field_is_duplex_ciphertext_request_hidden.

Theorem c03_handshake_certs_field_is_duplex_ciphertext_response_hidden : forall O X T sid ect ek ss cpk leaf inter T' m,
  write_response_hidden O X T sid ect ek ss cpk leaf inter = (T', Ok m) ->
  exists dss, x_dh X ss cpk = Some dss /\
    let hdr := certs_hdr MT_ServerResponseHidden 0 leaf inter in
    let T3 := OAbsorb ek :: OAbsorb sid :: OAbsorb hdr :: T in
    m = hdr ++ sid ++ ect ++ o_enc O T3 (certs_pt leaf inter)
        ++ o_sq O (OCrypt (certs_pt leaf inter) :: T3) MacLen
        ++ o_sq O (OAbsorb dss :: OSqueeze MacLen :: OCrypt (certs_pt leaf inter) :: T3) MacLen.
Proof. exact response_hidden_shape. Qed.
Print Assumptions c03_handshake_certs_field_is_duplex_ciphertext_response_hidden.

(* where the field sits in the datagram (the slice the peer decrypts) *)
Theorem c03_handshake_certs_field_position : forall O X T sid epub es ss ceph cs seph kpub ct k ts ect ek cpk leaf inter,
  len sid = SessionIDLen -> len epub = DHLen -> len kpub = KemKeyLen -> len ct = KemCtLen -> len ect = KemCtLen ->
  (forall T' m, write_server_auth O X T sid epub es ss ceph leaf inter = (T', Ok m) ->
     exists ee, x_dh X es ceph = Some ee /\
       let T4 := sa_pre T (certs_hdr MT_ServerAuth 0 leaf inter) sid epub ee in
       slice m (HeaderLen + SessionIDLen + DHLen) (len (o_enc O T4 (certs_pt leaf inter))) = o_enc O T4 (certs_pt leaf inter)) /\
  (forall T' m, write_client_auth O X T sid cs seph leaf inter = (T', Ok m) ->
     let T2 := OAbsorb sid :: OAbsorb (certs_hdr MT_ClientAuth 0 leaf inter) :: T in
     slice m (HeaderLen + SessionIDLen) (len (o_enc O T2 (certs_pt leaf inter))) = o_enc O T2 (certs_pt leaf inter)) /\
  (forall T' m, write_request_hidden O T kpub ct k leaf inter ts = (T', Ok m) ->
     let T3 := OAbsorb k :: OAbsorb kpub :: OAbsorb (certs_hdr MT_ClientRequestHidden Version leaf inter) :: T in
     slice m (HeaderLen + KemKeyLen + KemCtLen) (len (o_enc O T3 (certs_pt leaf inter))) = o_enc O T3 (certs_pt leaf inter)) /\
  (forall T' m, write_response_hidden O X T sid ect ek ss cpk leaf inter = (T', Ok m) ->
     let T3 := OAbsorb ek :: OAbsorb sid :: OAbsorb (certs_hdr MT_ServerResponseHidden 0 leaf inter) :: T in
     slice m (HeaderLen + SessionIDLen + KemCtLen) (len (o_enc O T3 (certs_pt leaf inter))) = o_enc O T3 (certs_pt leaf inter)).
Proof.
  intros O X T sid epub es ss ceph cs seph kpub ct k ts ect ek cpk leaf inter Hs He Hk Hc Hec.
  repeat split; intros T' m Hw.
  - exact (server_auth_certs_field O X T sid epub es ss ceph leaf inter T' m Hs He Hw).
  - exact (client_auth_certs_field O X T sid cs seph leaf inter T' m Hs Hw).
  - exact (request_hidden_certs_field O T kpub ct k leaf inter ts T' m Hk Hc Hw).
  - exact (response_hidden_certs_field O X T sid ect ek ss cpk leaf inter T' m Hs Hec Hw).
Qed.
Print Assumptions c03_handshake_certs_field_position.

(* for byte-exact hop the field is Cyclist's Crypt output (plaintext xor keystream, block by block, of
   the plaintext's length) on the object of the transcript *)
Theorem c03_handshake_field_is_cyclist_crypt : forall T c p, cy_of keccak12 T = Ok c -> md c = MKey ->
  o_enc hopO T p = fst (crypt keccak12 false c p) /\ List.length (o_enc hopO T p) = List.length p.
Proof. exact (conc_enc_is_cyclist_crypt keccak12). Qed.
Print Assumptions c03_handshake_field_is_cyclist_crypt.

(* a concrete run of the executable instance: the ClientAck of a client naming "srv.example" —
   the label occurs in the plaintext name block, nowhere in the 1172-byte datagram, and the SNI
   field differs from the plaintext *)
Fixpoint prefix_b (p m : bytes) : bool :=
  match p, m with [] , _ => true | x :: p', y :: m' => (x =? y) && prefix_b p' m' | _, [] => false end.
Fixpoint occurs (p m : bytes) : bool :=
  match m with [] => prefix_b p [] | _ :: m' => prefix_b p m || occurs p m' end.
Definition ex_label : bytes := hex "7372762e6578616d706c65".
Definition ex_sni : bytes := [14; 0; 11] ++ ex_label ++ repeat 0 242.
Definition ex_ack : bytes :=
  fst (write_client_ack hopO (rekey hopO (tr_start PQName) PQName) (repeat 1 32) (repeat 2 800) (repeat 3 64) ex_sni).
Example c03_sni_not_on_the_wire_concrete :
  len ex_ack = PQClientAckLen /\ occurs ex_label ex_sni = true /\ occurs ex_label ex_ack = false /\
  beq_bytes (slice ex_ack 900 256) ex_sni = false.
Proof. vm_compute. repeat split; reflexivity. Qed.
