//go:build verif

package certs

import (
	"time"

	"hop.computer/hop/keys"
)

// White-box accessors for the C04 correspondence driver (mapped into the package by
// `go build -overlay`; nothing here is part of /repo).

// VerifIssue calls the unexported issue with a chosen type, time and duration.
func VerifIssue(parent *Certificate, child *Identity, certType CertificateType, issuedAt time.Time, duration time.Duration) (*Certificate, error) {
	return issue(parent, child, certType, issuedAt, duration)
}

// VerifSelfSign calls the unexported selfSign with a chosen type.
func VerifSelfSign(self *Identity, certType CertificateType, keyPair *keys.SigningKeyPair) (*Certificate, error) {
	return selfSign(self, certType, keyPair)
}

// VerifRaw returns a copy of the retained bytes.
func (c *Certificate) VerifRaw() []byte {
	return append([]byte(nil), c.raw.Bytes()...)
}

// VerifSetRaw replaces the retained bytes (used to build in-memory certificates whose struct
// fields were changed after parsing).
func (c *Certificate) VerifSetRaw(b []byte) {
	c.raw.Reset()
	c.raw.Write(b)
}

// VerifHasKey reports whether a private key was provided.
func (c *Certificate) VerifHasKey() bool { return c.privateKey != nil }
