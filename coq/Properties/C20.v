(* C20 — host and virtual-host pattern matching is total and is glob matching.
   Model: Model/Glob.v (pkg/glob/glob.go Glob after the `fix:` commit, config MatchHost,
   hopserver VirtualHosts.Match).  Proofs: Proofs/GlobProofs.v. *)
From Hop Require Import Base Glob GlobProofs.
Open Scope N_scope.

(* ---- the matcher: for every pattern and every input ---- *)

(* terminates (the fuel (|inp|+1)(|pat|+1)+1 is never used up: no Err) and never panics *)
Theorem c20_glob_total : forall pat inp, exists b, glob pat inp = Ok b.
Proof. exact glob_total. Qed.
Print Assumptions c20_glob_total.

Theorem c20_glob_never_panics : forall pat inp, glob pat inp <> Panic /\ glob pat inp <> Err.
Proof. exact glob_no_panic. Qed.
Print Assumptions c20_glob_never_panics.

(* returns true exactly when the input is the pattern with each '*' replaced by some string *)
Theorem c20_glob_is_matches : forall pat inp b,
  glob pat inp = Ok b <-> (b = true <-> matches pat inp).
Proof. exact glob_iff_matches. Qed.
Print Assumptions c20_glob_is_matches.

(* the relation `matches` is the statement's wording: some list of fill strings, substituted for
   the stars in order, turns the pattern into the input *)
Theorem c20_matches_is_substitution : forall pat inp,
  matches pat inp <-> exists fills, instantiate pat fills = Some inp.
Proof. exact matches_iff_instantiate. Qed.
Print Assumptions c20_matches_is_substitution.

Theorem c20_glob_true_iff_substitution : forall pat inp,
  glob pat inp = Ok true <-> exists fills, instantiate pat fills = Some inp.
Proof. exact glob_iff_instantiate. Qed.
Print Assumptions c20_glob_true_iff_substitution.

(* the same as an equation with the try-every-split decider *)
Theorem c20_matches_b_decides : forall pat inp, matches_b pat inp = true <-> matches pat inp.
Proof. exact matches_b_spec. Qed.
Print Assumptions c20_matches_b_decides.

Theorem c20_glob_eq_decider : forall pat inp, glob pat inp = Ok (matches_b pat inp).
Proof. exact glob_eq_matches_b. Qed.
Print Assumptions c20_glob_eq_decider.

(* ---- host blocks: MatchHost merges exactly the blocks with a matching pattern, in order ---- *)

Theorem c20_match_host : forall global hosts h,
  exists l, selected h hosts l /\ match_host global hosts h = Ok (fold_left merge l global).
Proof. exact match_host_spec. Qed.
Print Assumptions c20_match_host.

(* `selected h hosts l`: l is the sub-sequence of hosts consisting of exactly the blocks that have
   some pattern p with `matches p h`; it is unique *)
Theorem c20_selected_exact : forall h hosts l, selected h hosts l ->
  subseq l hosts /\ (forall b, In b l <-> (In b hosts /\ block_matches h b)) /\
  (forall l', selected h hosts l' -> l' = l).
Proof. exact selected_exact. Qed.
Print Assumptions c20_selected_exact.

(* what a caller sees: CAFiles of all applied blocks appended in order, pointer fields taken from
   the last applied block that sets them, Patterns untouched *)
Theorem c20_match_host_observable : forall global hosts h,
  exists l r, selected h hosts l /\ match_host global hosts h = Ok r /\
    hb_ca r = hb_ca global ++ flat_map hb_ca l /\
    hb_hostname r = last_set hb_hostname l (hb_hostname global) /\
    hb_user r = last_set hb_user l (hb_user global) /\
    hb_pats r = hb_pats global.
Proof. exact match_host_observable. Qed.
Print Assumptions c20_match_host_observable.

(* ---- virtual hosts: the first entry whose pattern matches, nil when none does ---- *)

Theorem c20_vhost_first : forall pats name,
  exists r, vhost_match pats name = Ok r /\
    match r with
    | Some i => nth_error pats i <> None /\
                (forall p, nth_error pats i = Some p -> matches p name) /\
                (forall i' q, (i' < i)%nat -> nth_error pats i' = Some q -> ~ matches q name)
    | None => forall q, In q pats -> ~ matches q name
    end.
Proof. exact vhost_match_spec. Qed.
Print Assumptions c20_vhost_first.

(* ---- non-vacuity: concrete instances ---- *)

(* "*ab" matches "aab" — needs the star to be reconsidered *)
Example c20_ex_backtrack : glob (hex "2a6162") (hex "616162") = Ok true /\ matches (hex "2a6162") (hex "616162").
Proof. split; [vm_compute; reflexivity | apply matches_b_spec; vm_compute; reflexivity]. Qed.

Example c20_ex_instantiate : instantiate (hex "2a6162") [hex "61"] = Some (hex "616162").
Proof. vm_compute. reflexivity. Qed.

Example c20_ex_nomatch : glob (hex "642a64") (hex "64617665") = Ok false /\ ~ matches (hex "642a64") (hex "64617665").
Proof.
  split; [vm_compute; reflexivity|]. intro H. apply matches_b_spec in H. vm_compute in H. discriminate.
Qed.

(* blocks 1 and 3 of three apply to "ab": CA files appended in order, hostname from the last one that sets it *)
Example c20_ex_match_host :
  match_host (mkHB [] [hex "67"] None None 0)
             [mkHB [hex "78"; hex "612a"] [hex "31"] (Some (hex "6831")) None 0;
              mkHB [hex "62"] [hex "32"] (Some (hex "6832")) None 7;
              mkHB [hex "2a62"] [hex "33"] None (Some (hex "75")) 0] (hex "6162")
  = Ok (mkHB [] [hex "67"; hex "31"; hex "33"] (Some (hex "6831")) (Some (hex "75")) 0).
Proof. vm_compute. reflexivity. Qed.

Example c20_ex_vhost : vhost_match [hex "62"; hex "612a"; hex "2a"] (hex "6162") = Ok (Some 1%nat)
                       /\ vhost_match [hex "62"] (hex "6162") = Ok None.
Proof. split; vm_compute; reflexivity. Qed.

(* ---- what was wrong before the fix: `glob_old` is the loop of the pinned commit ---- *)

(* Glob("a","") indexed input[0] of the empty string *)
Theorem c20_old_glob_panics_refuted : exists pat inp, glob_old pat inp = Panic.
Proof. exists (hex "61"), (hex ""). vm_compute. reflexivity. Qed.
Print Assumptions c20_old_glob_panics_refuted.

(* ("*ab","aab"), ("a*","a"), ("*a","aa"), ("**","") match but were answered false *)
Theorem c20_old_glob_incomplete_refuted :
  Forall (fun c => matches (fst c) (snd c) /\ glob_old (fst c) (snd c) = Ok false /\
                   glob (fst c) (snd c) = Ok true)
         [(hex "2a6162", hex "616162"); (hex "612a", hex "61"); (hex "2a61", hex "6161"); (hex "2a2a", hex "")].
Proof.
  repeat (apply Forall_cons;
          [split; [apply matches_b_spec; vm_compute; reflexivity | split; vm_compute; reflexivity]|]).
  apply Forall_nil.
Qed.
Print Assumptions c20_old_glob_incomplete_refuted.

(* the sixteen vectors of pkg/glob/glob_test.go: old and new loop agree with the expected answers
   on all of them (which is why the suite was green before and stays green) *)
Definition test_vectors : list (string * string * bool) :=
  [("*.example.com", "sub.example.com", true); ("example.com", "sub.example.com", false);
   ("example.com", "example.com", true); ("example.*", "example.com", true);
   ("example.*", "ope.example", false); ("example.*", "example.domain.local", true);
   ("d*d", "david", true); ("d*d", "davidadrian", false); ("d*d", "dave", false);
   ("d*", "dave", true); ("d*", "dd", true); ("d*v*", "dave", true); ("d*v*", "david", true);
   ("d*v*d", "david", true); ("d*v*d", "dave", false); ("*", "", true)]%string.
Definition bytes_of (s : string) : bytes := map N_of_ascii (list_ascii_of_string s).
Example c20_test_vectors :
  forallb (fun v => let '(p, s, b) := v in
             match glob (bytes_of p) (bytes_of s), glob_old (bytes_of p) (bytes_of s) with
             | Ok x, Ok y => Bool.eqb x b && Bool.eqb y b
             | _, _ => false
             end) test_vectors = true.
Proof. vm_compute. reflexivity. Qed.
