(* Correspondence entry point for C07: histories of grant additions, logins and exec /
   port-forwarding / intent requests, run on a real HopServer at two levels (real checkCmd on the
   session object produced by the real checkAuthorization; real hopSession.start over an in-memory
   tube muxer). Same case format and checker as C05. *)
From Hop Require Export Base Authz AuthzCorr.
Definition c07_ok := authz_ok.

(* ---- concurrent exec requests of one grant session (Model/GrantRace.v) ----
   A case: the grants of the session (serial = position), the requests (command, shell flag), the
   scripted clock, and what N goroutines calling the real checkCmd at the same time produced: per
   request the PrincipalID of the grant it was started under (None = refused), the grants left in
   sess.authorizedActions, whether any goroutine panicked.  The checker accepts iff SOME order of
   the requests, run through the locked interleaving model one request after the other (the
   schedules Proofs/GrantRaceProofs.v shows to be the only ones: linearizability), ends in exactly
   this outcome. *)
From Hop Require Export GrantRace.

Fixpoint ins_all (x : nat) (l : list nat) : list (list nat) :=
  match l with
  | [] => [[x]]
  | y :: r => (x :: l) :: map (cons y) (ins_all x r)
  end.
Fixpoint perms (l : list nat) : list (list nat) :=
  match l with [] => [[]] | x :: r => flat_map (ins_all x) (perms r) end.

Fixpoint mk_grants (n : N) (vs : list gview) : list grant :=
  match vs with
  | [] => []
  | (t, s, e, c, p) :: r => mkGrant n t s e c p :: mk_grants (n + 1) r
  end.

Definition oN_eqb (a b : option N) : bool :=
  match a, b with Some x, Some y => x =? y | None, None => true | _, _ => false end.
Definition race_results (x : st) : list (option N) :=
  map (fun p => match p with PDone (Some g) => Some (g_prin g) | _ => None end) (pcs x).

Definition race_case := (list gview * list (bytes * bool) * Z * list (option N) * list gview * bool)%type.
Definition c07_race_ok (c : race_case) : bool :=
  match c with
  | (gvs, rq, now, results, rem, pan) =>
      let gs := mk_grants 0 gvs in
      let qs := map (fun q => mkReq (fst q) (snd q) now) rq in
      negb pan &&
      existsb (fun order =>
                 let x := run_order true gs qs order in
                 all_done x && negb (panicked x) &&
                 beq_list oN_eqb (race_results x) results &&
                 gviews_eqb (map gv (remaining x)) rem)
              (perms (seq 0 (List.length qs)))
  end.
