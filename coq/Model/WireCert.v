(* WireCert.v — certs/certificate.go: Name (IDBlock), IDChunk, Certificate WriteTo / ReadFrom.
   Models the code after the fixes "Name.WriteTo rejects a 253-byte label", "IDChunk.ReadFrom
   requires its blocks to fill the declared length exactly" and the C04 fix "reject
   certificate timestamps that time.Time cannot represent".  Definitions only. *)
From Hop Require Import Base WireBase.
Open Scope N_scope.

(* ---- values ---- *)
Record name := Nm { n_label : bytes; n_type : N }.
Definition idchunk := list name.
(* times are Unix seconds (scope decision C18-5); fingerprint / raw bytes are functions of the
   encoding and not part of the value *)
Record cert := Ct {
  c_version : N; c_type : N; c_issued : N; c_expires : N;
  c_chunk : idchunk; c_pub : bytes; c_parent : bytes; c_sig : bytes }.

Definition beq_name (a b : name) : bool :=
  beq_bytes (n_label a) (n_label b) && (n_type a =? n_type b).
Definition beq_cert (a b : cert) : bool :=
  (c_version a =? c_version b) && (c_type a =? c_type b) && (c_issued a =? c_issued b) &&
  (c_expires a =? c_expires b) && beq_list beq_name (c_chunk a) (c_chunk b) &&
  beq_bytes (c_pub a) (c_pub b) && beq_bytes (c_parent a) (c_parent b) && beq_bytes (c_sig a) (c_sig b).

(* ---- Name.WriteTo ----
   blockSize := len(label)+3; if blockSize > 255 -> ErrNameTooLong; idLen > 252 -> same;
   write {byte(blockSize), byte(Type), byte(idLen)} then the label *)
Definition enc_name (n : name) : res bytes :=
  let block_size := len (n_label n) + 3 in
  if 255 <? block_size then Err
  else if 252 <? len (n_label n) then Err
  else Ok ((block_size mod 256) :: (n_type n mod 256) :: (len (n_label n) mod 256) :: n_label n).

(* ---- Name.ReadFrom ---- returns the name; on success it has consumed 3 + len(label) bytes
   (the declared block size is only checked, padding is never skipped) *)
Definition dec_name : M name :=
  bs <~ read_fixed 1 ;;
  let block_size := byte1 bs in
  if block_size <? 3 then failM else
  ty <~ read_fixed 1 ;;
  il <~ read_fixed 1 ;;
  let id_len := byte1 il in
  if block_size - 3 <? id_len then failM else
  lab <~ copy_n id_len ;;
  retM (Nm lab (byte1 ty)).

(* ---- IDChunk.SerializedLen / WriteTo ---- *)
Fixpoint chunk_body_len (c : idchunk) : N :=
  match c with [] => 0 | n :: r => len (n_label n) + 3 + chunk_body_len r end.
Definition chunk_serialized_len (c : idchunk) : N := 2 + chunk_body_len c.

Fixpoint enc_names (c : idchunk) : res bytes :=
  match c with
  | [] => Ok []
  | n :: r => app_res (enc_name n) (enc_names r)
  end.

Definition enc_chunk (c : idchunk) : res bytes :=
  let sl := chunk_serialized_len c in
  if 512 <? sl then Err
  else app_res (Ok (be_enc 2 (sl mod 65536))) (enc_names c).

(* ---- IDChunk.ReadFrom ----
   for blockBytesRead < blockLen { name.ReadFrom; blockBytesRead += n; append }
   if blockBytesRead != blockLen -> error (fix)
   Every iteration consumes at least 3 bytes and blockLen <= 510, so 171 iterations suffice;
   running out of fuel is modelled as Panic, and c11_chunk_total proves it unreachable. *)
Fixpoint dec_blocks (fuel : nat) (block_len : N) (read : N) (acc : idchunk) : M idchunk :=
  if read <? block_len then
    match fuel with
    | O => panicM
    | S f => nm <~ dec_name ;; dec_blocks f block_len (read + 3 + len (n_label nm)) (acc ++ [nm])
    end
  else if read =? block_len then retM acc
  else failM.

Definition chunk_fuel : nat := 172.

Definition dec_chunk : M idchunk :=
  l <~ read_fixed 2 ;;
  let chunk_len := be_dec l in
  if (512 <? chunk_len) || (chunk_len <? 2) then failM else
  dec_blocks chunk_fuel (chunk_len - 2) 0 [].

(* ---- Certificate.WriteTo ----
   {Version, Type, 0, 0}, int64 IssuedAt.Unix(), int64 ExpiresAt.Unix(), PublicKey[32],
   Parent[32], IDChunk, Signature[64].  The arrays have fixed length in Go (wt_cert). *)
Definition enc_cert (c : cert) : res bytes :=
  app_res (Ok ([c_version c mod 256; c_type c mod 256; 0; 0] ++ be_enc 8 (c_issued c) ++ be_enc 8 (c_expires c)
               ++ c_pub c ++ c_parent c))
          (app_res (enc_chunk (c_chunk c)) (Ok (c_sig c))).

(* largest Unix time time.Time represents without wrapping its internal counter (C04 fix) *)
Definition max_unix_time : N := 2 ^ 63 - 1 - 62135596800.

(* ---- Certificate.ReadFrom ---- *)
Definition dec_cert : M cert :=
  v <~ read_fixed 1 ;;
  t <~ read_fixed 1 ;;
  _rsv <~ read_fixed 2 ;;
  ib <~ read_fixed 8 ;;
  if max_unix_time <? be_dec ib then failM else
  eb <~ read_fixed 8 ;;
  if max_unix_time <? be_dec eb then failM else
  pk <~ read_fixed 32 ;;
  par <~ read_full 32 ;;
  ch <~ dec_chunk ;;
  sg <~ read_full 64 ;;
  retM (Ct (byte1 v) (byte1 t) (be_dec ib) (be_dec eb) ch pk par sg).

(* ---- well-typedness (the value inhabits the Go types) and representability ---- *)
Definition wt_name (n : name) : bool := wf_bytes (n_label n) && (n_type n <? 256).
Definition repr_name (n : name) : bool := len (n_label n) <=? 252.

Definition wt_chunk (c : idchunk) : bool := forallb wt_name c.
Definition repr_chunk (c : idchunk) : bool := forallb repr_name c && (chunk_serialized_len c <=? 512).

Definition wt_cert (c : cert) : bool :=
  (c_version c <? 256) && (c_type c <? 256) &&
  (c_issued c <=? max_unix_time) && (c_expires c <=? max_unix_time) &&
  wt_chunk (c_chunk c) &&
  wf_bytes (c_pub c) && (len (c_pub c) =? 32) &&
  wf_bytes (c_parent c) && (len (c_parent c) =? 32) &&
  wf_bytes (c_sig c) && (len (c_sig c) =? 64).
Definition repr_cert (c : cert) : bool := repr_chunk (c_chunk c).
