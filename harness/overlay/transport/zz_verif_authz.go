//go:build verif

package transport

import "hop.computer/hop/certs"

// VerifAuthzHandle returns a Handle that only carries the client's leaf certificate (what
// hopSession.checkAuthorization / handleAgc read through FetchClientLeaf) and can be Closed.
// It cannot do I/O: the C05/C07 drivers run the session's tube muxer over an in-memory MsgConn.
func VerifAuthzHandle(leaf *certs.Certificate) *Handle {
	return &Handle{clientLeaf: leaf, ss: &SessionState{}}
}
