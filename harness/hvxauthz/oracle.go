package hvxauthz

import (
	"fmt"
	"sort"
)

// Specification oracles, written from the text of C05 / C07 (not from the code or the Coq model).
// They keep their own abstract state: file contents per user, whether grants are enabled, the
// grants stored per user:key and not yet handed out, and per grant-admitted session the grants it
// was handed together with the actions it has started.

type ukey struct {
	user string
	key  int
}

type oSession struct {
	user    string
	key     int
	using   bool
	grants  []GView // handed to the session at login
	started []oAction
}

type oAction struct {
	kind  string // exec / pf / issue
	cmd   string
	shell bool
	t     int64
}

type Oracle struct {
	pool     [][32]byte
	files    map[string]*Op
	enabled  bool
	pending  map[ukey][]GView
	sessions []*oSession
}

func NewOracle(pool [][32]byte) *Oracle {
	return &Oracle{pool: pool, files: map[string]*Op{}, pending: map[ukey][]GView{}}
}

type Verdict struct {
	OK   bool
	Sig  string
	What string
}

var good = Verdict{OK: true}

func sameGrants(a, b []GView) bool {
	if len(a) != len(b) {
		return false
	}
	s := func(x []GView) []string {
		out := make([]string, len(x))
		for i, g := range x {
			out[i] = fmt.Sprint(g)
		}
		sort.Strings(out)
		return out
	}
	x, y := s(a), s(b)
	for i := range x {
		if x[i] != y[i] {
			return false
		}
	}
	return true
}

func (o *Oracle) listed(user string, key int) bool {
	f := o.files[user]
	if f == nil || f.FKind != FFile {
		return false
	}
	return SpecEntries(f.Content)[o.pool[key]]
}

// grantHandout judges a hand-out of grants to user:key (a grant login or a direct
// AuthorizeKeyAuthGrant call) and consumes them.
func (o *Oracle) grantHandout(what string, user string, key int, got []GView, gotKeys [][32]byte, entryAfter, keyAfter, probed bool) Verdict {
	uk := ukey{user, key}
	if !o.enabled {
		return Verdict{false, "C05:grants-handed-out-while-authgrants-disabled", what + " handed out grants although authorization grants are disabled"}
	}
	if len(o.pending[uk]) == 0 {
		return Verdict{false, "C05:grant-login-without-unconsumed-grant", fmt.Sprintf("%s succeeded through grants but no unconsumed grant exists for exactly %s:K%d (got %v)", what, user, key, got)}
	}
	for _, gk := range gotKeys {
		if gk != o.pool[key] {
			return Verdict{false, "C05:grant-of-another-key-handed-out", what + " returned a grant whose delegate key is not the client's key"}
		}
	}
	if !sameGrants(got, o.pending[uk]) {
		return Verdict{false, "C05:grant-login-returns-grants-not-issued-for-this-user-and-key", fmt.Sprintf("%s returned %v, stored for %s:K%d were %v", what, got, user, key, o.pending[uk])}
	}
	delete(o.pending, uk)
	if probed && (entryAfter || keyAfter) {
		return Verdict{false, "C05:grant-not-consumed-on-use", fmt.Sprintf("after %s the grant map still has an entry (%v) or the key set still has the key (%v)", what, entryAfter, keyAfter)}
	}
	return good
}

// Judge evaluates the specification on what the implementation did for one operation.
func (o *Oracle) Judge(op *Op, v View) Verdict {
	switch op.Kind {
	case "SF":
		o.files[op.User] = op
	case "EN":
		o.enabled = op.B
	case "AG":
		if v.B && op.Intent != nil {
			uk := ukey{op.Intent.User, op.Intent.Key}
			o.pending[uk] = append(o.pending[uk], GView{op.Intent.Type, op.Intent.Start, op.Intent.Exp, op.Intent.Cmd, 0xffffffff})
		}
	case "AK":
		if v.B && !o.listed(op.User, op.Key) {
			return Verdict{false, "C05:key-accepted-that-is-not-a-wellformed-entry", fmt.Sprintf("AuthorizeKey(%s,K%d) = nil but the key is not a well-formed entry of that user's authorized_keys", op.User, op.Key)}
		}
	case "AR":
		if v.Some {
			return o.grantHandout("AuthorizeKeyAuthGrant", op.User, op.Key, v.Grants, v.GrantKeys, false, false, false)
		}
	case "LG":
		if v.OK != v.ClientOK {
			return Verdict{false, "C05:confirmation-disagrees-with-server-decision", fmt.Sprintf("server decided %v, client saw confirmation=%v", v.OK, v.ClientOK)}
		}
		if !v.OK {
			return good
		}
		s := &oSession{user: op.User, key: op.Key, using: v.Using}
		o.sessions = append(o.sessions, s)
		if !v.Using {
			if !o.listed(op.User, op.Key) {
				return Verdict{false, "C05:login-by-key-that-is-not-a-wellformed-entry", fmt.Sprintf("Login(%s,K%d) accepted by authorized_keys although the key is not a well-formed entry of the file (%s)", op.User, op.Key, o.fileDesc(op.User))}
			}
			return good
		}
		s.grants = append([]GView(nil), v.Grants...)
		return o.grantHandout("Login", op.User, op.Key, v.Grants, v.GrantKeys, v.Entry, v.KeyIn, true)
	case "EX":
		if !v.B {
			return good
		}
		return o.started(op.Sid, oAction{"exec", op.Cmd, op.Shell, op.T})
	case "PF":
		if !v.B {
			return good
		}
		return o.started(op.Sid, oAction{"pf", "", false, op.T})
	case "IT":
		if v.B {
			// the grant is stored whoever asked for it
			uk := ukey{op.Intent.User, op.Intent.Key}
			o.pending[uk] = append(o.pending[uk], GView{op.Intent.Type, op.Intent.Start, op.Intent.Exp, op.Intent.Cmd, 0xffffffff})
			return o.started(op.Sid, oAction{"issue", "", false, op.Wall})
		}
	}
	return good
}

func (o *Oracle) fileDesc(user string) string {
	f := o.files[user]
	if f == nil {
		return "user unknown"
	}
	return f.Desc()
}

func authorizes(g GView, a oAction) bool {
	if !(g.Start <= a.t && a.t < g.Exp) {
		return false
	}
	switch a.kind {
	case "exec":
		if a.shell {
			return g.Type == 1
		}
		return g.Type == 2 && g.Cmd == a.cmd
	case "pf":
		return g.Type == 3 || g.Type == 4
	}
	return false // nothing authorizes a delegate to issue further grants
}

// started: C07 for one more started action of session sid. Every action the session has started
// must be covered by its own grant (each grant authorizes a single action): a matching that
// saturates the started actions must exist between actions and the grants handed to the session.
func (o *Oracle) started(sid int, a oAction) Verdict {
	if sid >= len(o.sessions) {
		return Verdict{false, "C07:action-in-a-session-that-was-never-admitted", "an action was started in a session that did not pass user authorization"}
	}
	s := o.sessions[sid]
	if !s.using {
		return good // admitted by authorized_keys: not a delegate session
	}
	s.started = append(s.started, a)
	drop := func(v Verdict) Verdict { s.started = s.started[:len(s.started)-1]; return v } // a refused verdict does not count as a use
	// first: is there any grant at all that authorizes this very action?
	any := false
	for _, g := range s.grants {
		if authorizes(g, a) {
			any = true
		}
	}
	if !any {
		switch a.kind {
		case "pf":
			return drop(Verdict{false, "C07:grant-session-starts-port-forwarding-without-any-grant-check", fmt.Sprintf("session s%d (%s:K%d, admitted by grants %v) started port forwarding at t=%d; no grant of the session authorizes it", sid, s.user, s.key, s.grants, a.t)})
		case "issue":
			return drop(Verdict{false, "C07:grant-session-issues-further-grants-without-any-grant-check", fmt.Sprintf("session s%d (%s:K%d, admitted by grants %v) had a further grant stored through an authgrant tube", sid, s.user, s.key, s.grants)})
		}
		return drop(Verdict{false, "C07:exec-started-without-live-matching-grant", fmt.Sprintf("session s%d (%s:K%d) started %q (shell=%v) at t=%d; its grants are %v: none is of the right type with identical command and start <= t < expiry", sid, s.user, s.key, a.cmd, a.shell, a.t, s.grants)})
	}
	if !saturating(s.grants, s.started) {
		if a.kind == "pf" { // covered only by reusing a grant: still the ungated tube branch
			return drop(Verdict{false, "C07:grant-session-starts-port-forwarding-without-any-grant-check", fmt.Sprintf("session s%d started port forwarding at t=%d although its port-forwarding grants are all spent", sid, a.t)})
		}
		return drop(Verdict{false, "C07:grant-used-more-than-once", fmt.Sprintf("session s%d (%s:K%d) has started %v with grants %v: some grant must have been used twice", sid, s.user, s.key, s.started, s.grants)})
	}
	return good
}

// saturating: bipartite matching actions -> distinct grants (augmenting paths; sizes are tiny).
func saturating(gs []GView, as []oAction) bool {
	matchG := make([]int, len(gs))
	for i := range matchG {
		matchG[i] = -1
	}
	var try func(a int, seen []bool) bool
	try = func(a int, seen []bool) bool {
		for gi, g := range gs {
			if seen[gi] || !authorizes(g, as[a]) {
				continue
			}
			seen[gi] = true
			if matchG[gi] < 0 || try(matchG[gi], seen) {
				matchG[gi] = a
				return true
			}
		}
		return false
	}
	for a := range as {
		if !try(a, make([]bool, len(gs))) {
			return false
		}
	}
	return true
}
