(* PacketSanse.v — the AEAD exactly as transport.go uses it, on the executable Kravatte-SANSE model
   (Model/Sanse.v, Model/Kravatte.v): sealPacketLocked / readPacketLocked build a FRESH instance per packet
   (`aead, err := kravatte.NewSANSE(key[:])`), call Seal / Open once with nonce nil and the 16 header bytes as
   associated data, and drop the instance.  Plugging these two functions into the Section variables of
   Model/Packet.v gives a model of the transport data path with nothing left abstract.
   NewSANSE fails for keys of 200 bytes or more and panics on an empty key; transport keys are [16]byte, so the
   code never sees that.  Here a refused key yields the empty ciphertext / no plaintext (seal_packet then
   reports its length panic, read_packet an error); the theorems carry [good_key]. *)
From Hop Require Import Base Keccak Kravatte Sanse Replay Packet.
Open Scope N_scope.

Definition sanse_seal (key ad pt : bytes) : bytes :=
  match sanse6_new key with
  | Ok s => fst (sanse6_seal s ad pt)
  | _ => []
  end.

Definition sanse_open (key ad ct : bytes) : option bytes :=
  match sanse6_new key with
  | Ok s => fst (sanse6_open s ad ct)
  | _ => None
  end.

(* keys NewSANSE accepts: 1..199 bytes (the transport uses 16) *)
Definition good_key (k : bytes) : Prop := (0 < List.length k < 200)%nat.
