(* Correspondence entry points for C19: the shared handshake checkers (Corr/HsCorr.v). *)
From Hop Require Export HsCorr.
