(* HsBindingProofs.v — C02: every byte of every handshake message is bound into the transcript
   before a verified MAC (the map message -> receiver transcript is injective), exact lengths,
   key derivation. *)
From Hop Require Import Base Handshake HsServer HandshakeProofs HsServerProofs.
From Coq Require Import ZifyN ZifyNat ZifyBool.
Open Scope N_scope.
Local Arguments N.add : simpl never.
Local Arguments N.mul : simpl never.
Local Opaque N.add N.mul.

(* ------------------------------------------------------------------ lists *)
Lemma firstn_add_skipn : forall (a n : nat) (b : bytes),
  firstn (a + n) b = firstn a b ++ firstn n (skipn a b).
Proof.
  induction a as [|a IH]; intros n b; cbn; auto.
  destruct b as [|x b]; cbn; [destruct n; reflexivity|]. rewrite IH. reflexivity.
Qed.

Lemma take_add : forall b a n, take (a + n) b = take a b ++ slice b a n.
Proof.
  intros. unfold take, slice, drop, take. rewrite N2Nat.inj_add. apply firstn_add_skipn.
Qed.

Lemma at_take : forall b n i, i < n -> at_ (take n b) i = at_ b i.
Proof.
  intros b n i H. unfold at_, take.
  assert (Hn : (N.to_nat i < N.to_nat n)%nat) by lia.
  revert Hn. generalize (N.to_nat i) (N.to_nat n). clear.
  intros i n. revert i b. induction n as [|n IH]; intros i b H; [lia|].
  destruct b as [|x b]; cbn; [destruct i; reflexivity|].
  destruct i as [|i]; cbn; auto. apply IH. lia.
Qed.

Lemma take_eq_L : forall b b', take HeaderLen b = take HeaderLen b' -> sa_L b = sa_L b'.
Proof.
  intros b b' H. unfold sa_L.
  rewrite <- (at_take b HeaderLen 2), <- (at_take b HeaderLen 3), H, !at_take; unfold HeaderLen; auto; lia.
Qed.

(* Cyclist decryption is injective in the ciphertext for a fixed state (ciphertext = plaintext
   xor keystream, block by block): a named hypothesis of the binding theorems *)
Definition crypt_injective (O : doracle) : Prop := forall T c c', o_dec O T c = o_dec O T c' -> c = c'.

(* ------------------------------------------------------------------ ServerAuth *)
Theorem server_auth_bound : forall O X ce pol T b b' T1 r r',
  crypt_injective O ->
  read_server_auth O X ce pol T b = (T1, Ok r) ->
  read_server_auth O X ce pol T b' = (T1, Ok r') ->
  take (sa_n r) b = take (sa_n r') b'.
Proof.
  intros O X ce pol T b b' T1 r r' CI H H'.
  apply read_server_auth_accept in H as (ee & des & leaf & inter & _ & _ & Hn & _ & _ & _ & _ & Htag & _ & _ & Hmac & HT).
  apply read_server_auth_accept in H' as (ee' & des' & leaf' & inter' & _ & _ & Hn' & _ & _ & _ & _ & Htag' & _ & _ & Hmac' & HT').
  rewrite HT in HT'. unfold sa_T7, sa_T5, sa_T4 in HT'.
  injection HT' as Hdes Hpt Hee Heph Hsid Hhdr.
  pose proof (take_eq_L _ _ Hhdr) as HL.
  unfold sa_certs_pt, sa_T4 in Hpt. rewrite <- Hee, <- Heph, <- Hsid, <- Hhdr in Hpt. apply CI in Hpt.
  assert (Et : slice b (sa_off + sa_L b) MacLen = slice b' (sa_off + sa_L b') MacLen).
  { rewrite Htag, Htag'. unfold sa_T5, sa_certs_pt, sa_T4. congruence. }
  assert (Em : slice b (sa_off + sa_L b + MacLen) MacLen = slice b' (sa_off + sa_L b' + MacLen) MacLen).
  { rewrite Hmac, Hmac'. unfold sa_T7, sa_T5, sa_certs_pt, sa_T4. congruence. }
  rewrite Hn, Hn'.
  replace (SAMinLen + sa_L b) with (HeaderLen + SessionIDLen + DHLen + sa_L b + MacLen + MacLen)
    by (unfold SAMinLen, HeaderLen, SessionIDLen, DHLen, MacLen; lia).
  replace (SAMinLen + sa_L b') with (HeaderLen + SessionIDLen + DHLen + sa_L b' + MacLen + MacLen)
    by (unfold SAMinLen, HeaderLen, SessionIDLen, DHLen, MacLen; lia).
  rewrite !take_add. unfold sa_off in *. congruence.
Qed.

(* the final MAC is a function of the rest of the message and the receiver's state: under
   mac_binding two accepted messages with the same final MAC are the same message *)
Theorem server_auth_bound_under_mac_binding : forall O X ce pol T b b' T1 T1' r r',
  mac_binding O -> crypt_injective O ->
  read_server_auth O X ce pol T b = (T1, Ok r) ->
  read_server_auth O X ce pol T b' = (T1', Ok r') ->
  slice b (sa_off + sa_L b + MacLen) MacLen = slice b' (sa_off + sa_L b' + MacLen) MacLen ->
  take (sa_n r) b = take (sa_n r') b'.
Proof.
  intros O X ce pol T b b' T1 T1' r r' MB CI H H' Hm.
  assert (T1 = T1').
  { pose proof H as A. pose proof H' as A'.
    apply read_server_auth_accept in A as (ee & des & leaf & inter & _ & _ & _ & _ & _ & _ & _ & _ & _ & _ & Hmac & HT).
    apply read_server_auth_accept in A' as (ee' & des' & leaf' & inter' & _ & _ & _ & _ & _ & _ & _ & _ & _ & _ & Hmac' & HT').
    rewrite Hmac, Hmac' in Hm. apply MB in Hm. rewrite HT, HT', Hm. reflexivity. }
  subst T1'. eapply server_auth_bound; eauto.
Qed.

(* ------------------------------------------------------------------ ClientAuth *)
Theorem client_auth_bound : forall O X se pol sid T b b' T1 n n' pk pk',
  crypt_injective O ->
  read_client_auth O X se pol sid T b = (T1, Ok (n, pk)) ->
  read_client_auth O X se pol sid T b' = (T1, Ok (n', pk')) ->
  take n b = take n' b'.
Proof.
  intros O X se pol sid T b b' T1 n n' pk pk' CI H H'.
  apply read_client_auth_accept in H as (dse & leaf & inter & _ & _ & Hn & _ & _ & Htag & _ & _ & Hmac & HT).
  apply read_client_auth_accept in H' as (dse' & leaf' & inter' & _ & _ & Hn' & _ & _ & Htag' & _ & _ & Hmac' & HT').
  rewrite HT in HT'. unfold ca_T5, ca_T3, ca_T2 in HT'.
  injection HT' as Hdse Hpt Hsid Hhdr.
  pose proof (take_eq_L _ _ Hhdr) as HL.
  unfold ca_certs_pt, ca_T2 in Hpt. rewrite <- Hsid, <- Hhdr in Hpt. apply CI in Hpt.
  assert (Et : slice b (ca_off + sa_L b) MacLen = slice b' (ca_off + sa_L b') MacLen).
  { rewrite Htag, Htag'. unfold ca_T3, ca_certs_pt, ca_T2. congruence. }
  assert (Em : slice b (ca_off + sa_L b + MacLen) MacLen = slice b' (ca_off + sa_L b' + MacLen) MacLen).
  { rewrite Hmac, Hmac'. unfold ca_T5, ca_T3, ca_certs_pt, ca_T2. congruence. }
  rewrite Hn, Hn'.
  replace (ca_off + sa_L b + 2 * MacLen) with (HeaderLen + SessionIDLen + sa_L b + MacLen + MacLen)
    by (unfold ca_off, HeaderLen, SessionIDLen, MacLen; lia).
  replace (ca_off + sa_L b' + 2 * MacLen) with (HeaderLen + SessionIDLen + sa_L b' + MacLen + MacLen)
    by (unfold ca_off, HeaderLen, SessionIDLen, MacLen; lia).
  rewrite !take_add. unfold ca_off in *. congruence.
Qed.

Theorem client_auth_bound_under_mac_binding : forall O X se pol sid T b b' T1 T1' n n' pk pk',
  mac_binding O -> crypt_injective O ->
  read_client_auth O X se pol sid T b = (T1, Ok (n, pk)) ->
  read_client_auth O X se pol sid T b' = (T1', Ok (n', pk')) ->
  slice b (ca_off + sa_L b + MacLen) MacLen = slice b' (ca_off + sa_L b' + MacLen) MacLen ->
  take n b = take n' b'.
Proof.
  intros O X se pol sid T b b' T1 T1' n n' pk pk' MB CI H H' Hm.
  assert (T1 = T1').
  { pose proof H as A. pose proof H' as A'.
    apply read_client_auth_accept in A as (dse & leaf & inter & _ & _ & _ & _ & _ & _ & _ & _ & Hmac & HT).
    apply read_client_auth_accept in A' as (dse' & leaf' & inter' & _ & _ & _ & _ & _ & _ & _ & _ & Hmac' & HT').
    rewrite Hmac, Hmac' in Hm. apply MB in Hm. rewrite HT, HT', Hm. reflexivity. }
  subst T1'. eapply client_auth_bound; eauto.
Qed.

(* ------------------------------------------------------------------ hidden response *)
(* ML-KEM decapsulation with a fixed key does not map two ciphertexts to one secret (ciphertext
   binding; for a modified ciphertext implicit rejection returns a pseudorandom value): named
   hypothesis of the theorems about messages that carry a KEM ciphertext, which is not absorbed
   itself — only the secret is *)
Definition kem_ct_binding (X : xoracle) (kid : N) : Prop :=
  forall c c' k, x_decaps X kid c = Some k -> x_decaps X kid c' = Some k -> c = c'.

Theorem response_hidden_bound : forall O X ek cs pol T b b' T1 r r',
  crypt_injective O -> kem_ct_binding X ek ->
  read_response_hidden O X ek cs pol T b = (T1, Ok r) ->
  read_response_hidden O X ek cs pol T b' = (T1, Ok r') ->
  take (sa_n r) b = take (sa_n r') b'.
Proof.
  intros O X ek cs pol T b b' T1 r r' CI KB H H'.
  apply read_response_hidden_accept in H as (k & dss & leaf & inter & _ & _ & Hn & _ & Hk & _ & Htag & _ & _ & Hmac & HT).
  apply read_response_hidden_accept in H' as (k' & dss' & leaf' & inter' & _ & _ & Hn' & _ & Hk' & _ & Htag' & _ & _ & Hmac' & HT').
  rewrite HT in HT'. unfold srh_T6, srh_T4, srh_T3 in HT'.
  injection HT' as Hdss Hpt Hkk Hsid Hhdr.
  pose proof (take_eq_L _ _ Hhdr) as HL.
  unfold srh_certs_pt, srh_T3 in Hpt. rewrite <- Hkk, <- Hsid, <- Hhdr in Hpt. apply CI in Hpt.
  rewrite <- Hkk in Hk'. pose proof (KB _ _ _ Hk Hk') as Hct.
  assert (Et : slice b (srh_off + sa_L b) MacLen = slice b' (srh_off + sa_L b') MacLen).
  { rewrite Htag, Htag'. unfold srh_T4, srh_certs_pt, srh_T3. congruence. }
  assert (Em : slice b (srh_off + sa_L b + MacLen) MacLen = slice b' (srh_off + sa_L b' + MacLen) MacLen).
  { rewrite Hmac, Hmac'. unfold srh_T6, srh_T4, srh_certs_pt, srh_T3. congruence. }
  rewrite Hn, Hn'.
  replace (SRHMinLen + sa_L b) with (HeaderLen + SessionIDLen + KemCtLen + sa_L b + MacLen + MacLen)
    by (unfold SRHMinLen, HeaderLen, SessionIDLen, KemCtLen, MacLen; lia).
  replace (SRHMinLen + sa_L b') with (HeaderLen + SessionIDLen + KemCtLen + sa_L b' + MacLen + MacLen)
    by (unfold SRHMinLen, HeaderLen, SessionIDLen, KemCtLen, MacLen; lia).
  rewrite !take_add. unfold srh_off in *. congruence.
Qed.

(* ------------------------------------------------------------------ hidden request *)
Theorem request_hidden_bound : forall O X certs pol now T b b' T1 q q',
  crypt_injective O -> (forall kid, kem_ct_binding X kid) ->
  hq_cert q = hq_cert q' ->
  read_request_hidden O X certs pol now T b = (T1, Ok q) ->
  read_request_hidden O X certs pol now T b' = (T1, Ok q') ->
  take (hq_n q) b = take (hq_n q') b'.
Proof.
  intros O X certs pol now T b b' T1 q q' CI KB Hc H H'.
  apply read_request_hidden_accept in H
    as (cs & Tp & kid & k & leaf & inter & _ & _ & _ & _ & Hn & _ & Hkid & _ & Hk & _ & Htag & _ & _ & _ & _ & Hmac & HT & _).
  apply read_request_hidden_accept in H'
    as (cs' & Tp' & kid' & k' & leaf' & inter' & _ & _ & _ & _ & Hn' & _ & Hkid' & _ & Hk' & _ & Htag' & _ & _ & _ & _ & Hmac' & HT' & _).
  rewrite HT in HT'. unfold hq_T6, hq_T5, hq_T4, hq_T3 in HT'.
  injection HT' as Hts Hpt Hkk Hkem Hhdr HT0.
  pose proof (take_eq_L _ _ Hhdr) as HL.
  rewrite Hc, Hkid' in Hkid. injection Hkid as <-.
  rewrite <- Hkk in Hk'. pose proof (KB _ _ _ _ Hk Hk') as Hct.
  assert (E3 : hq_T3 O Tp b k = hq_T3 O Tp' b' k') by (unfold hq_T3; congruence).
  unfold hq_certs_pt in Hpt. rewrite <- E3 in Hpt. apply CI in Hpt.
  assert (E5 : hq_T5 O Tp b k = hq_T5 O Tp' b' k').
  { unfold hq_T5, hq_T4, hq_certs_pt. rewrite <- E3. congruence. }
  unfold hq_ts in Hts. rewrite <- E5 in Hts. apply CI in Hts.
  assert (Et : slice b (hq_off + sa_L b) MacLen = slice b' (hq_off + sa_L b') MacLen).
  { rewrite Htag, Htag'. unfold hq_T4, hq_certs_pt. rewrite <- E3. congruence. }
  assert (Em : slice b (hq_off + sa_L b + MacLen + TimestampLen) MacLen = slice b' (hq_off + sa_L b' + MacLen + TimestampLen) MacLen).
  { rewrite Hmac, Hmac'. unfold hq_T6, hq_ts. rewrite <- E5. congruence. }
  rewrite Hn, Hn'.
  replace (HeaderLen + KemCtLen + sa_L b + MacLen + KemKeyLen + TimestampLen + MacLen)
    with (HeaderLen + KemKeyLen + KemCtLen + sa_L b + MacLen + TimestampLen + MacLen)
    by (unfold HeaderLen, KemCtLen, MacLen, KemKeyLen, TimestampLen; lia).
  replace (HeaderLen + KemCtLen + sa_L b' + MacLen + KemKeyLen + TimestampLen + MacLen)
    with (HeaderLen + KemKeyLen + KemCtLen + sa_L b' + MacLen + TimestampLen + MacLen)
    by (unfold HeaderLen, KemCtLen, MacLen, KemKeyLen, TimestampLen; lia).
  rewrite !take_add. unfold hq_off in *. congruence.
Qed.

(* ------------------------------------------------------------------ ClientHello *)
Definition ch_T2 (T : tr) (b : bytes) : tr := OAbsorb (slice b HeaderLen KemKeyLen) :: OAbsorb (take HeaderLen b) :: T.

Theorem read_client_hello_accept : forall O X T b T' n kc,
  read_client_hello O X T b = (T', Ok (n, kc)) ->
  n = PQHelloLen /\ PQHelloLen <= len b /\
  at_ b 0 = MT_ClientHello /\ at_ b 1 = Version /\ at_ b 2 = 0 /\ at_ b 3 = 0 /\
  x_kemparse X (slice b HeaderLen KemKeyLen) = Some kc /\
  slice b (HeaderLen + KemKeyLen) MacLen = o_sq O (ch_T2 T b) MacLen /\
  T' = OSqueeze MacLen :: ch_T2 T b.
Proof.
  intros O X T b T' n kc H. unfold read_client_hello, squeeze, absorb in H.
  repeat (dm H; try discriminate). injection H as <- <- <-. clean_hyps.
  unfold ch_T2. repeat split; auto.
Qed.

Theorem client_hello_bound : forall O X T b b' T1 n n' kc kc',
  read_client_hello O X T b = (T1, Ok (n, kc)) ->
  read_client_hello O X T b' = (T1, Ok (n', kc')) ->
  take n b = take n' b'.
Proof.
  intros O X T b b' T1 n n' kc kc' H H'.
  apply read_client_hello_accept in H as (Hn & _ & _ & _ & _ & _ & _ & Hmac & HT).
  apply read_client_hello_accept in H' as (Hn' & _ & _ & _ & _ & _ & _ & Hmac' & HT').
  rewrite HT in HT'. unfold ch_T2 in HT'. injection HT' as Hkey Hhdr.
  assert (Em : slice b (HeaderLen + KemKeyLen) MacLen = slice b' (HeaderLen + KemKeyLen) MacLen).
  { rewrite Hmac, Hmac'. unfold ch_T2. congruence. }
  rewrite Hn, Hn'. unfold PQHelloLen. rewrite !take_add. congruence.
Qed.

(* ------------------------------------------------------------------ ServerHello *)
Definition sh_T3 (T : tr) (b k : bytes) : tr :=
  OAbsorb (slice b (HeaderLen + KemCtLen) PQCookieLen) :: OAbsorb k :: OAbsorb (take HeaderLen b) :: T.

Theorem read_server_hello_accept : forall O X ek T b T' n cookie,
  read_server_hello O X ek T b = (T', Ok (n, cookie)) ->
  exists k,
    n = PQServerHelloLen /\ PQServerHelloLen <= len b /\ at_ b 0 = MT_ServerHello /\
    x_decaps X ek (slice b HeaderLen KemCtLen) = Some k /\
    cookie = slice b (HeaderLen + KemCtLen) PQCookieLen /\
    slice b (HeaderLen + KemCtLen + PQCookieLen) MacLen = o_sq O (sh_T3 T b k) MacLen /\
    T' = OSqueeze MacLen :: sh_T3 T b k.
Proof.
  intros O X ek T b T' n cookie H. unfold read_server_hello, squeeze, absorb in H.
  repeat (dm H; try discriminate). injection H as <- <- <-. clean_hyps.
  eexists. unfold sh_T3. repeat split; eauto.
Qed.

Theorem server_hello_bound : forall O X ek T b b' T1 n n' c c',
  kem_ct_binding X ek ->
  read_server_hello O X ek T b = (T1, Ok (n, c)) ->
  read_server_hello O X ek T b' = (T1, Ok (n', c')) ->
  take n b = take n' b'.
Proof.
  intros O X ek T b b' T1 n n' c c' KB H H'.
  apply read_server_hello_accept in H as (k & Hn & _ & _ & Hk & _ & Hmac & HT).
  apply read_server_hello_accept in H' as (k' & Hn' & _ & _ & Hk' & _ & Hmac' & HT').
  rewrite HT in HT'. unfold sh_T3 in HT'. injection HT' as Hck Hkk Hhdr.
  rewrite <- Hkk in Hk'. pose proof (KB _ _ _ Hk Hk') as Hct.
  assert (Em : slice b (HeaderLen + KemCtLen + PQCookieLen) MacLen = slice b' (HeaderLen + KemCtLen + PQCookieLen) MacLen).
  { rewrite Hmac, Hmac'. unfold sh_T3. congruence. }
  rewrite Hn, Hn'. unfold PQServerHelloLen. rewrite !take_add. congruence.
Qed.

(* ------------------------------------------------------------------ ClientAck *)
(* ParseKEMPublicKeyFromBytes accepts only the canonical encoding (FIPS 203 modulus check), so the
   bytes absorbed (the re-marshalled key) are the bytes received: named hypothesis *)
Definition kemparse_canonical (X : xoracle) : Prop := forall b kc, x_kemparse X b = Some kc -> kc = b.

Definition ca_k_off : N := HeaderLen + DHLen.
Definition ca_c_off : N := HeaderLen + DHLen + KemKeyLen.
Definition ca_s_off : N := HeaderLen + DHLen + KemKeyLen + PQCookieLen.
Definition ack_T4 (Trep : tr) (b kc : bytes) : tr :=
  OAbsorb (slice b ca_c_off PQCookieLen) :: OAbsorb kc :: OAbsorb (slice b HeaderLen DHLen)
  :: OAbsorb (take HeaderLen b) :: Trep.
Definition ack_T5 (O : doracle) (Trep : tr) (b kc : bytes) : tr :=
  OCrypt (o_dec O (ack_T4 Trep b kc) (slice b ca_s_off SNILen)) :: ack_T4 Trep b kc.

Theorem read_client_ack_accept : forall O X ck ip port b n k,
  read_client_ack O X ck ip port b = Ok (n, k) ->
  exists Trep,
    n = PQClientAckLen /\ PQClientAckLen <= len b /\ at_ b 0 = MT_ClientAck /\
    x_kemparse X (slice b ca_k_off KemKeyLen) = Some (ak_kem k) /\
    replay_from_cookie O X ck (slice b ca_c_off PQCookieLen) (ak_kem k) ip port = Ok Trep /\
    ak_eph k = slice b HeaderLen DHLen /\
    slice b (ca_s_off + SNILen) MacLen = o_sq O (ack_T5 O Trep b (ak_kem k)) MacLen /\
    ak_tr k = OSqueeze MacLen :: ack_T5 O Trep b (ak_kem k).
Proof.
  intros O X ck ip port b n k H. unfold read_client_ack, bind, squeeze, decrypt, absorb in H.
  repeat (dm H; try discriminate).
  injection H as <- <-. cbn [ak_kem ak_eph ak_tr]. clean_hyps.
  eexists. unfold ack_T5, ack_T4, ca_k_off, ca_c_off, ca_s_off. repeat split; eauto.
Qed.

Theorem client_ack_bound : forall O X ck ip port b b' n n' k k',
  crypt_injective O -> kemparse_canonical X ->
  read_client_ack O X ck ip port b = Ok (n, k) ->
  read_client_ack O X ck ip port b' = Ok (n', k') ->
  ak_tr k = ak_tr k' ->
  take n b = take n' b'.
Proof.
  intros O X ck ip port b b' n n' k k' CI KC H H' HT.
  apply read_client_ack_accept in H as (Tr & Hn & _ & _ & Hk & _ & _ & Hmac & Ht).
  apply read_client_ack_accept in H' as (Tr' & Hn' & _ & _ & Hk' & _ & _ & Hmac' & Ht').
  rewrite Ht, Ht' in HT. unfold ack_T5, ack_T4 in HT.
  injection HT as Hpt Hck Hkc Heph Hhdr HTr.
  apply KC in Hk, Hk'.
  assert (E4 : ack_T4 Tr b (ak_kem k) = ack_T4 Tr' b' (ak_kem k')) by (unfold ack_T4; congruence).
  fold (ack_T4 Tr b (ak_kem k)) in Hpt. fold (ack_T4 Tr' b' (ak_kem k')) in Hpt.
  rewrite <- E4 in Hpt. apply CI in Hpt.
  assert (Em : slice b (ca_s_off + SNILen) MacLen = slice b' (ca_s_off + SNILen) MacLen).
  { rewrite Hmac, Hmac'. unfold ack_T5. rewrite <- E4. congruence. }
  rewrite Hn, Hn'. unfold PQClientAckLen. rewrite !take_add.
  unfold ca_k_off, ca_c_off, ca_s_off in *. congruence.
Qed.

(* ------------------------------------------------------------------ exact lengths *)
(* the server answers or changes state on a handshake datagram only when the reader consumed
   exactly the whole datagram *)
Theorem server_step_exact_length : forall O X SM s I a d,
  let o := server_step O X SM s I a d in
  (so_out o <> [] \/ sv_pending (so_srv o) <> sv_pending s) ->
  (at_ d 0 = MT_ClientHello -> len d = PQHelloLen) /\
  (at_ d 0 = MT_ClientAck -> len d = PQClientAckLen) /\
  (at_ d 0 = MT_ClientAuth -> len d = HeaderLen + SessionIDLen + sa_L d + 2 * MacLen) /\
  (at_ d 0 = MT_ClientRequestHidden ->
     len d = HeaderLen + KemCtLen + sa_L d + MacLen + KemKeyLen + TimestampLen + MacLen).
Proof.
  intros O X SM s I a d o Hch. subst o. repeat split; intros Ht.
  - unfold server_step in Hch. rewrite Ht in Hch.
    destruct (len d <? 4); [cbn in Hch; destruct Hch; congruence|].
    change (MT_ClientHello =? MT_ClientHello) with true in Hch. cbv iota in Hch.
    destruct (sv_hidden s); [cbn in Hch; destruct Hch; congruence|].
    destruct (read_client_hello O X (tr_start PQName) d) as [T [[n kc]| |]] eqn:Er;
      try (cbn in Hch; destruct Hch; congruence).
    destruct (negb (n =? len d)) eqn:En; [cbn in Hch; destruct Hch; congruence|].
    apply negb_false in En. apply N.eqb_eq in En.
    apply read_client_hello_accept in Er as (Hn & _). congruence.
  - assert (Hc : so_out (server_step O X SM s I a d) <> [] \/ so_srv (server_step O X SM s I a d) <> s).
    { destruct Hch as [H|H]; [left; auto|right; intros E; apply H; rewrite E; reflexivity]. }
    apply (client_ack_needs_bound_cookie O X SM s I a d Ht) in Hc as (Hl & _). exact Hl.
  - destruct Hch as [Hout|Hp].
    + exfalso. apply Hout. unfold server_step. rewrite Ht.
      destruct (len d <? 4); [reflexivity|].
      change (MT_ClientAuth =? MT_ClientHello) with false. change (MT_ClientAuth =? MT_ClientAck) with false.
      change (MT_ClientAuth =? MT_ClientAuth) with true. cbv iota.
      repeat (match goal with |- context [match ?x with _ => _ end] => destruct x end; cbn; auto).
    + apply server_publishes_only_authenticated in Hp as [(_ & _ & h & T' & pk & _ & Hr & _)|(Ht' & _)].
      * apply read_client_auth_accept in Hr as (_ & _ & _ & _ & _ & Hn & _). unfold ca_off in Hn. exact Hn.
      * rewrite Ht in Ht'. discriminate.
  - assert (Hx : exists T q, read_request_hidden O X (i_certs I) (sv_pol s) (i_now I) [] d = (T, Ok q) /\ hq_n q = len d).
    { destruct Hch as [Hout|Hp].
      - unfold server_step in Hout. rewrite Ht in Hout.
        destruct (len d <? 4); [cbn in Hout; congruence|].
        change (MT_ClientRequestHidden =? MT_ClientHello) with false in Hout.
        change (MT_ClientRequestHidden =? MT_ClientAck) with false in Hout.
        change (MT_ClientRequestHidden =? MT_ClientAuth) with false in Hout.
        change ((MT_ClientRequestHidden =? MT_ServerHello) || (MT_ClientRequestHidden =? MT_ServerAuth)) with false in Hout.
        change ((MT_ClientRequestHidden =? MT_Transport) || (MT_ClientRequestHidden =? MT_Control)) with false in Hout.
        change (MT_ClientRequestHidden =? MT_ClientRequestHidden) with true in Hout. cbv iota in Hout.
        destruct (read_request_hidden _ _ _ _ _ _ _) as [T [q| |]] eqn:Er; try (cbn in Hout; congruence).
        destruct (negb (hq_n q =? len d)) eqn:En; [cbn in Hout; congruence|].
        apply negb_false in En. apply N.eqb_eq in En. eauto.
      - apply server_publishes_only_authenticated in Hp as [(Ht' & _)|(_ & T' & q & sid & Hr & Hn & _)].
        + rewrite Ht in Ht'. discriminate.
        + eauto. }
    destruct Hx as (T & q & Hr & Hn).
    apply read_request_hidden_accept in Hr as (_ & _ & _ & _ & _ & _ & _ & _ & _ & _ & Hl & _). congruence.
Qed.

(* the client proceeds only when the datagram has exactly the length the message describes *)
Theorem client_step_exact_length : forall O X SM st a d stale st' out,
  client_step O X SM st a d stale = (st', out, Ok tt) ->
  match st with
  | CWaitSH _ => len d = PQServerHelloLen
  | CWaitSA _ => len d = SAMinLen + sa_L d
  | CWaitSRH _ => len d = SRHMinLen + sa_L d
  | _ => True
  end.
Proof.
  intros O X SM st a d stale st' out H. unfold client_step in H.
  destruct st as [c|c|c|x|]; auto.
  - destruct (len d <? 4); [discriminate|].
    destruct (read_server_hello _ _ _ _ _) as [T [[n ck]| |]] eqn:Er; try discriminate.
    destruct (negb (n =? len d)) eqn:En; [discriminate|].
    apply negb_false in En. apply N.eqb_eq in En.
    apply read_server_hello_accept in Er as (k & Hn & _). congruence.
  - destruct (read_server_auth _ _ _ _ _ _) as [T [r| |]] eqn:Er; try discriminate.
    destruct (negb (sa_n r =? len d)) eqn:En; [discriminate|].
    apply negb_false in En. apply N.eqb_eq in En.
    apply read_server_auth_accept in Er as (? & ? & ? & ? & _ & _ & Hn & _). congruence.
  - destruct (read_response_hidden _ _ _ _ _ _ _) as [T [r| |]] eqn:Er; try discriminate.
    destruct (negb (sa_n r =? len d)) eqn:En; [discriminate|].
    apply negb_false in En. apply N.eqb_eq in En.
    apply read_response_hidden_accept in Er as (? & ? & ? & ? & _ & _ & Hn & _). congruence.
Qed.

(* ------------------------------------------------------------------ final keys *)
Definition c2s_tr (T : tr) : tr := OAbsorb LblC2S :: ORatchet :: T.
Definition s2c_tr (T : tr) : tr := OAbsorb LblS2C :: ORatchet :: OSqueeze KeyLen :: c2s_tr T.

Theorem derive_final_keys_labelled : forall O T,
  derive_final_keys O T = (o_sq O (c2s_tr T) KeyLen, o_sq O (s2c_tr T) KeyLen, OSqueeze KeyLen :: s2c_tr T).
Proof. reflexivity. Qed.

(* equal squeezes of KeyLen = MacLen bytes come from equal transcripts (mac_binding): the two
   directions of one session differ, and two sessions whose final transcripts differ share no key *)
Theorem direction_keys_differ_under_mac_binding : forall O T k1 k2 T',
  mac_binding O -> derive_final_keys O T = (k1, k2, T') -> k1 <> k2.
Proof.
  intros O T k1 k2 T' MB H. rewrite derive_final_keys_labelled in H. injection H as <- <- _.
  intros E. apply MB in E. unfold c2s_tr, s2c_tr in E. discriminate.
Qed.

Theorem session_keys_differ_under_mac_binding : forall O T1 T2 a1 b1 a2 b2 U1 U2,
  mac_binding O -> T1 <> T2 ->
  derive_final_keys O T1 = (a1, b1, U1) -> derive_final_keys O T2 = (a2, b2, U2) ->
  a1 <> a2 /\ b1 <> b2 /\ a1 <> b2 /\ b1 <> a2.
Proof.
  intros O T1 T2 a1 b1 a2 b2 U1 U2 MB Hne H1 H2.
  rewrite derive_final_keys_labelled in H1, H2. injection H1 as <- <- _. injection H2 as <- <- _.
  repeat split; intros E; apply MB in E; unfold c2s_tr, s2c_tr in E; try discriminate; injection E; auto.
Qed.

Theorem equal_transcripts_equal_keys : forall O T1 T2,
  T1 = T2 -> derive_final_keys O T1 = derive_final_keys O T2.
Proof. intros; subst; reflexivity. Qed.
