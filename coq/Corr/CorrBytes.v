(* CorrBytes.v — compact byte-string literals for generated correspondence files.
   Coq string / N literals cost ~0.4 ms per byte to parse (they are interpreted by reduction);
   primitive 63-bit integer literals are parsed natively.  The crypto drivers therefore write a
   byte string b as  (ib n [i0; i1; ...]%uint63)  where n = |b| and each i_k holds 7 bytes,
   little endian.  Used only by Corr files (the correspondence's input syntax), never by models
   or theorems. *)
From Hop Require Import Base.
From Coq Require Export Uint63.
Open Scope N_scope.

Definition bytes7 (i : int) : bytes :=
  let z := Z.to_N (Uint63.to_Z i) in
  let z1 := N.shiftr z 8 in let z2 := N.shiftr z1 8 in let z3 := N.shiftr z2 8 in
  let z4 := N.shiftr z3 8 in let z5 := N.shiftr z4 8 in let z6 := N.shiftr z5 8 in
  [N.land z 255; N.land z1 255; N.land z2 255; N.land z3 255; N.land z4 255; N.land z5 255;
   N.land z6 255].
Definition ib (n : N) (l : list int) : bytes := firstn (N.to_nat n) (flat_map bytes7 l).
