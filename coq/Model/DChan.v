(* DChan.v — interleaving transition system for common/sync.go: Deadline + DeadlineChan[T].

   Shared state + one program counter per thread; ONE transition per atomic Go action of the
   DeadlineChan methods (channel poll / blocking select / atomic load / atomic store / mutex
   lock), exactly at the `verifYield` points of common/sync.go.  Granularity assumptions (stated,
   not proved; see docs/C17.md):
     * every method of Deadline (Done, Err, Cancel, SetDeadline) holds Deadline.m for its whole
       body and performs no blocking operation inside, so it is one transition;
     * the deferred `d.m.Unlock()` of Send/Close is merged with the last action of the method
       (an unlock is a left mover);
     * a Go `select` with several ready cases picks any of them: the actor carries a choice bit.
   Timers: `armed` (time.AfterFunc pending), `pending` (callbacks already started by the runtime
   that have not yet taken Deadline.m: Stop does not wait for them), fired/run by two
   environment actors.  Real time is abstracted: an armed timer may fire at any moment, a
   `DLate` deadline never fires.

   The record [cfg] selects the code version:
     fixed = the code after the three `fix:` commits (Recv re-polls the queue before reporting an
             error; SetDeadline re-checks `closed` after un-expiring the channel; Close publishes
             `closed` (CompareAndSwap) and cancels BEFORE it waits for d.m, and Recv's end-of-stream
             exit waits for d.m too before its last poll);
     cand  = the new Close without the barrier in Recv (a candidate repair that is refuted:
             `c17_close_candidate_without_barrier_refuted`);
     prev  = the code after the first two fixes only: Close takes d.m first (kept for
             `c17_close_releases_blocked_send_original_refuted`);
     orig  = the code as found (kept for the `_refuted` witnesses and as regression cases).
   In the fixed code `d.m.Lock(); d.m.Unlock()` (Close's last action, Recv's barrier) is ONE
   transition enabled iff the mutex is free: the caller does nothing between the two calls.

   Definitions only.  Proofs: Proofs/DChanProofs.v. *)
From Hop Require Import Base.
Open Scope N_scope.

(* error codes: 0 = nil, 1 = io.EOF, 2 = os.ErrDeadlineExceeded, >= 3 = error given to Cancel *)
Definition eNil : N := 0.
Definition eEOF : N := 1.
Definition eDE : N := 2.

Inductive dl := DZero | DPast | DSoon | DLate.
Inductive op := ORecv | OSend (v : N) | OClose | OSetDl (k : dl) | OCancel (e : N).
Inductive ret := RItem (v : N) | RErr (e : N).   (* RErr 0 = nil *)

Inductive pc :=
| Idle
| R_closed | R_done | R_pollerr (g : nat) | R_select (g : nat) | R_err | R_barrier | R_repoll (e : N)
| S_closed (v : N) | S_done (v : N) | S_pollerr (v : N) (g : nat) | S_select (v : N) (g : nat) | S_err
| C_closed | C_store | C_cancel          (* Close, cfg prev/orig: Lock; Load; Store; Cancel *)
| C2_cancel | C2_wait                    (* Close, cfg fixed: CAS (from Idle); Cancel; Lock+Unlock *)
| D_set (k : dl) | D_recheck | D_recancel
| K_cancel (e : N).

Inductive opk := KRecv | KSend | KClose | KSetDl | KCancel.
Definition kind_of_pc (p : pc) : opk :=
  match p with
  | Idle | R_closed | R_done | R_pollerr _ | R_select _ | R_err | R_barrier | R_repoll _ => KRecv
  | S_closed _ | S_done _ | S_pollerr _ _ | S_select _ _ | S_err => KSend
  | C_closed | C_store | C_cancel | C2_cancel | C2_wait => KClose
  | D_set _ | D_recheck | D_recancel => KSetDl
  | K_cancel _ => KCancel
  end.

(* rets: results of the operations completed so far, oldest first, tagged with the kind of call *)
Record thread := mkT { prog : list op; tpc : pc; rets : list (opk * ret) }.

Record sh := mkS {
  buf : list N;            (* d.C contents, head = oldest *)
  cap : nat;               (* cap(d.C) *)
  closed : bool;           (* d.closed *)
  mu : option nat;         (* d.m holder *)
  cur : nat;               (* generation of d.deadline.ch; all older generations are closed *)
  cur_closed : bool;       (* is the current generation closed *)
  derr : N;                (* d.deadline.err *)
  armed : bool;            (* timer pending in the runtime *)
  pending : nat;           (* started timeout() callbacks not yet run *)
  (* ghosts *)
  sent : list N;           (* every value ever put on d.C, in order *)
  taken : list (nat * N);  (* every value ever taken off d.C, in order, with the taker *)
  eof_seen : bool          (* some Recv has returned io.EOF *)
}.

Record cfg := mkCfg { fix_repoll : bool; fix_recheck : bool; fix_close : bool; fix_barrier : bool }.
Definition fixed := mkCfg true true true true.
Definition cand := mkCfg true true true false.   (* the new Close alone, Recv without the barrier: refuted *)
Definition prev := mkCfg true true false false.
Definition orig := mkCfg false false false false.

Definition chan_closed (s : sh) (g : nat) : bool :=
  Nat.ltb g (cur s) || (Nat.eqb g (cur s) && cur_closed s).

Definition set_buf s b := mkS b (cap s) (closed s) (mu s) (cur s) (cur_closed s) (derr s) (armed s) (pending s) (sent s) (taken s) (eof_seen s).
Definition set_mu s m := mkS (buf s) (cap s) (closed s) m (cur s) (cur_closed s) (derr s) (armed s) (pending s) (sent s) (taken s) (eof_seen s).
Definition set_closed s := mkS (buf s) (cap s) true (mu s) (cur s) (cur_closed s) (derr s) (armed s) (pending s) (sent s) (taken s) (eof_seen s).
Definition set_eof s := mkS (buf s) (cap s) (closed s) (mu s) (cur s) (cur_closed s) (derr s) (armed s) (pending s) (sent s) (taken s) true.

(* Deadline.Cancel(e): d.err = e; close(d.ch) unless already closed *)
Definition d_cancel (e : N) s := mkS (buf s) (cap s) (closed s) (mu s) (cur s) true e (armed s) (pending s) (sent s) (taken s) (eof_seen s).

(* Deadline.SetDeadline(t): stop the timer, replace a closed channel, then by kind of t *)
Definition d_setdl (k : dl) s :=
  let c := if cur_closed s then S (cur s) else cur s in
  match k with
  | DZero => mkS (buf s) (cap s) (closed s) (mu s) c false (derr s) false (pending s) (sent s) (taken s) (eof_seen s)
  | DPast => mkS (buf s) (cap s) (closed s) (mu s) c true eDE false (pending s) (sent s) (taken s) (eof_seen s)
  | DSoon => mkS (buf s) (cap s) (closed s) (mu s) c false (derr s) true (pending s) (sent s) (taken s) (eof_seen s)
  | DLate => mkS (buf s) (cap s) (closed s) (mu s) c false (derr s) false (pending s) (sent s) (taken s) (eof_seen s)
  end.

(* take the head of the queue for thread [me] *)
Definition pop (me : nat) s : option (N * sh) :=
  match buf s with
  | [] => None
  | v :: b => Some (v, mkS b (cap s) (closed s) (mu s) (cur s) (cur_closed s) (derr s) (armed s) (pending s) (sent s) (taken s ++ [(me, v)]) (eof_seen s))
  end.
Definition push (v : N) s :=
  mkS (buf s ++ [v]) (cap s) (closed s) (mu s) (cur s) (cur_closed s) (derr s) (armed s) (pending s) (sent s ++ [v]) (taken s) (eof_seen s).

Definition goto (t : thread) (p : pc) := mkT (prog t) p (rets t).
Definition start (t : thread) (p : pc) := mkT (tl (prog t)) p (rets t).       (* first action of the next op *)
Definition finish (t : thread) (r : ret) := mkT (prog t) Idle (rets t ++ [(kind_of_pc (tpc t), r)]).
Definition startfin (t : thread) (k : opk) (r : ret) := mkT (tl (prog t)) Idle (rets t ++ [(k, r)]).

(* Recv's error exit: the fixed code goes through recvBuffered (one more poll; with fix_barrier an
   io.EOF first waits for d.m: `if e == io.EOF { d.m.Lock(); d.m.Unlock() }`) *)
Definition recv_fail (c : cfg) (e : N) (s : sh) (t : thread) : sh * thread :=
  if fix_repoll c then (if fix_barrier c && (e =? eEOF) then (s, goto t R_barrier) else (s, goto t (R_repoll e)))
  else (if e =? eEOF then set_eof s else s, finish t (RErr e)).

(* one atomic action of thread [me]; [ch] = which ready case a select picks (true = errChan) *)
Definition tstep (c : cfg) (me : nat) (ch : bool) (s : sh) (t : thread) : option (sh * thread) :=
  match tpc t with
  | Idle =>
    match prog t with
    | [] => None
    | ORecv :: _ =>                                   (* select { case b = <-d.C: return; default: } *)
      match pop me s with
      | Some (v, s') => Some (s', startfin t KRecv (RItem v))
      | None => Some (s, start t R_closed)
      end
    | OSend v :: _ =>                                 (* d.m.Lock() *)
      match mu s with None => Some (set_mu s (Some me), start t (S_closed v)) | Some _ => None end
    | OClose :: _ =>
      if fix_close c then                             (* if !d.closed.CompareAndSwap(false, true) { return io.EOF } *)
        if closed s then Some (s, startfin t KClose (RErr eEOF)) else Some (set_closed s, start t C2_cancel)
      else                                            (* d.m.Lock() *)
        match mu s with None => Some (set_mu s (Some me), start t C_closed) | Some _ => None end
    | OSetDl k :: _ =>                                (* if d.closed.Load() { return io.EOF } *)
      if closed s then Some (s, startfin t KSetDl (RErr eEOF)) else Some (s, start t (D_set k))
    | OCancel e :: _ =>
      if closed s then Some (s, startfin t KCancel (RErr eEOF)) else Some (s, start t (K_cancel e))
    end
  (* ---- Recv ---- *)
  | R_closed => if closed s then Some (recv_fail c eEOF s t) else Some (s, goto t R_done)
  | R_done => Some (s, goto t (R_pollerr (cur s)))                       (* errChan := d.deadline.Done() *)
  | R_pollerr g => if chan_closed s g then Some (s, goto t R_err) else Some (s, goto t (R_select g))
  | R_select g =>                                                        (* blocking select *)
    if chan_closed s g && (ch || match buf s with [] => true | _ => false end) then Some (s, goto t R_err)
    else match pop me s with
         | Some (v, s') => Some (s', finish t (RItem v))
         | None => None
         end
  | R_err => Some (recv_fail c (derr s) s t)                             (* d.deadline.Err() *)
  | R_barrier =>                                                         (* d.m.Lock(); d.m.Unlock() *)
    match mu s with None => Some (s, goto t (R_repoll eEOF)) | Some _ => None end
  | R_repoll e =>                                                        (* recvBuffered *)
    match pop me s with
    | Some (v, s') => Some (s', finish t (RItem v))
    | None => Some (if e =? eEOF then set_eof s else s, finish t (RErr e))
    end
  (* ---- Send (holds d.m from S_closed on) ---- *)
  | S_closed v => if closed s then Some (set_mu s None, finish t (RErr eEOF)) else Some (s, goto t (S_done v))
  | S_done v => Some (s, goto t (S_pollerr v (cur s)))
  | S_pollerr v g => if chan_closed s g then Some (s, goto t S_err) else Some (s, goto t (S_select v g))
  | S_select v g =>
    let room := Nat.ltb (length (buf s)) (cap s) in
    if chan_closed s g && (ch || negb room) then Some (s, goto t S_err)
    else if room then Some (set_mu (push v s) None, finish t (RErr eNil))
    else None
  | S_err => Some (set_mu s None, finish t (RErr (derr s)))
  (* ---- Close (holds d.m) ---- *)
  | C_closed => if closed s then Some (set_mu s None, finish t (RErr eEOF)) else Some (s, goto t C_store)
  | C_store => Some (set_closed s, goto t C_cancel)
  | C_cancel => Some (set_mu (d_cancel eEOF s) None, finish t (RErr eNil))
  (* ---- Close, fixed: closed already published by the CAS; does not hold d.m ---- *)
  | C2_cancel => Some (d_cancel eEOF s, goto t C2_wait)
  | C2_wait => match mu s with None => Some (s, finish t (RErr eNil)) | Some _ => None end
  (* ---- SetDeadline ---- *)
  | D_set k =>
    if fix_recheck c then Some (d_setdl k s, goto t D_recheck) else Some (d_setdl k s, finish t (RErr eNil))
  | D_recheck => if closed s then Some (s, goto t D_recancel) else Some (s, finish t (RErr eNil))
  | D_recancel => Some (d_cancel eEOF s, finish t (RErr eEOF))
  (* ---- Cancel ---- *)
  | K_cancel e => Some (d_cancel e s, finish t (RErr eNil))
  end.

Fixpoint lupd {A} (l : list A) (i : nat) (x : A) : list A :=
  match l, i with
  | [], _ => []
  | _ :: r, O => x :: r
  | y :: r, S i' => y :: lupd r i' x
  end.

Record st := mkSt { shd : sh; ths : list thread }.

Inductive actor := Th (i : nat) (ch : bool) | TimerFire | TimerRun.

Definition step (c : cfg) (x : st) (a : actor) : option st :=
  match a with
  | Th i ch =>
    match nth_error (ths x) i with
    | None => None
    | Some t =>
      match tstep c i ch (shd x) t with
      | None => None
      | Some (s', t') => Some (mkSt s' (lupd (ths x) i t'))
      end
    end
  | TimerFire =>
    let s := shd x in
    if armed s then Some (mkSt (mkS (buf s) (cap s) (closed s) (mu s) (cur s) (cur_closed s) (derr s) false (S (pending s)) (sent s) (taken s) (eof_seen s)) (ths x))
    else None
  | TimerRun =>
    let s := shd x in
    match pending s with
    | O => None
    | S p => Some (mkSt (d_cancel eDE (mkS (buf s) (cap s) (closed s) (mu s) (cur s) (cur_closed s) (derr s) (armed s) p (sent s) (taken s) (eof_seen s))) (ths x))
    end
  end.

Fixpoint run (c : cfg) (x : st) (l : list actor) : option st :=
  match l with
  | [] => Some x
  | a :: r => match step c x a with Some x' => run c x' r | None => None end
  end.

(* NewDeadlineChan(size): open, unexpired, empty *)
Definition sh_init (size : nat) : sh := mkS [] size false None 0 false eNil false 0 [] [] false.
Definition init (size : nat) (progs : list (list op)) : st :=
  mkSt (sh_init size) (map (fun p => mkT p Idle []) progs).

Definition reachable (c : cfg) (size : nat) (progs : list (list op)) (x : st) : Prop :=
  exists l, run c (init size progs) l = Some x.

(* the error handed to Cancel is a caller-chosen error value distinct from nil/EOF/deadline *)
Definition wf_op (o : op) : bool := match o with OCancel e => 3 <=? e | _ => true end.
Definition wf_progs (progs : list (list op)) : bool := forallb (forallb wf_op) progs.

Definition unfinished (t : thread) : bool :=
  match tpc t, prog t with Idle, [] => false | _, _ => true end.

Definition enabled (c : cfg) (x : st) (a : actor) : bool :=
  match step c x a with Some _ => true | None => false end.

(* items received by a thread, in its own order *)
Fixpoint items (l : list (opk * ret)) : list N :=
  match l with [] => [] | (_, RItem v) :: r => v :: items r | (_, RErr _) :: r => items r end.
Definition taken_by (i : nat) (l : list (nat * N)) : list N :=
  map snd (filter (fun p => Nat.eqb (fst p) i) l).

(* [sub a b]: a is a subsequence (in order) of b *)
Fixpoint subseq (a b : list N) : Prop :=
  match a, b with
  | [], _ => True
  | _ :: _, [] => False
  | x :: a', y :: b' => (x = y /\ subseq a' b') \/ subseq a b'
  end.

(* termination measure: every transition decreases it *)
Definition pcfuel (p : pc) : nat :=
  match p with
  | Idle => 0
  | R_closed => 7 | R_done => 6 | R_pollerr _ => 5 | R_select _ => 4 | R_err => 3 | R_barrier => 2 | R_repoll _ => 1
  | S_closed _ => 5 | S_done _ => 4 | S_pollerr _ _ => 3 | S_select _ _ => 2 | S_err => 1
  | C_closed => 3 | C_store => 2 | C_cancel => 1
  | C2_cancel => 2 | C2_wait => 1
  | D_set _ => 5 | D_recheck => 2 | D_recancel => 1
  | K_cancel _ => 1
  end.
Definition tmeasure (t : thread) : nat := 8 * length (prog t) + pcfuel (tpc t).
Definition measure (x : st) : nat :=
  fold_right (fun t a => tmeasure t + a)%nat 0%nat (ths x)
  + (if armed (shd x) then 2 else 0) + pending (shd x).

(* all actors that could possibly be enabled in x *)
Definition actors (x : st) : list actor :=
  TimerFire :: TimerRun ::
  flat_map (fun i => [Th i false; Th i true]) (seq 0 (length (ths x))).
Definition terminal (c : cfg) (x : st) : bool := forallb (fun a => negb (enabled c x a)) (actors x).
Definition all_finished (x : st) : bool := forallb (fun t => negb (unfinished t)) (ths x).

(* pcs from which a thread is never blocked and which re-establish "cancelled" after close *)
Definition helper_pc (p : pc) : bool :=
  match p with C_cancel | C2_cancel | D_recheck | D_recancel => true | _ => false end.
Definition lock_pc (p : pc) : bool :=
  match p with
  | S_closed _ | S_done _ | S_pollerr _ _ | S_select _ _ | S_err | C_closed | C_store | C_cancel => true
  | _ => false
  end.
