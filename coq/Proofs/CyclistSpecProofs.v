(* CyclistSpecProofs.v — the interface functions of Model/Cyclist.v restated as equations in the form the
   Xoodyak paper writes them (Algorithms 2 and 3): Split, Down as  s + (X || 01 || 00* || c_D),  AbsorbAny
   as one Down per block with an Up in between, the counter absorbed one byte per block, SqueezeAny as
   Up, then (Down(empty), Up)*, Ratchet as Squeeze(32, 0x10) followed by one Down of those bytes with
   colour 0x00, Crypt block by block with colour 0x80 on the first Up only, AbsorbKey as one Down of
   K || id || enc8(|id|) with colour 0x02.  Every colour byte, rate and length appears in a theorem
   statement below, so a slip in the model's transcription shows there.  All for every f. *)
From Hop Require Import Base Keccak Cyclist CyclistProofs.
From Coq Require Import ZifyN ZifyNat ZifyBool.
Open Scope N_scope.

(* ------------------------------------------------------------------ Split(X, r) *)
Lemma blocks_small : forall r x, (List.length x <= r)%nat -> cy_blocks r x = [x].
Proof.
  intros r x H. unfold cy_blocks. destruct (List.length x) eqn:E; cbn [blocks_fuel]; [reflexivity|].
  rewrite E. apply Nat.leb_le in H. rewrite H. reflexivity.
Qed.

Lemma blocks_fuel_irrelevant : forall k k' r x, (0 < r)%nat ->
  (List.length x <= k)%nat -> (List.length x <= k')%nat -> blocks_fuel k r x = blocks_fuel k' r x.
Proof.
  induction k as [|k IH]; intros k' r x Hr H H'.
  - destruct x; [|cbn in H; lia]. destruct k'; cbn [blocks_fuel]; [reflexivity|].
    destruct (List.length (@nil N) <=? r)%nat eqn:E; [reflexivity|]. apply Nat.leb_gt in E. cbn in E. lia.
  - destruct k' as [|k'].
    + destruct x; [|cbn in H'; lia]. cbn [blocks_fuel].
      destruct (List.length (@nil N) <=? r)%nat eqn:E; [reflexivity|]. apply Nat.leb_gt in E. cbn in E. lia.
    + cbn [blocks_fuel]. destruct (List.length x <=? r)%nat eqn:E; [reflexivity|].
      apply Nat.leb_gt in E. f_equal. apply IH; [exact Hr| |]; rewrite skipn_length; lia.
Qed.

Lemma blocks_app : forall r x y, (0 < r)%nat -> List.length x = r -> y <> [] ->
  cy_blocks r (x ++ y) = x :: cy_blocks r y.
Proof.
  intros r x y Hr Hx Hy. subst r. unfold cy_blocks. rewrite app_length.
  assert (Ly : (0 < List.length y)%nat) by (destruct y; [congruence|cbn; lia]).
  assert (F : firstn (List.length x) (x ++ y) = x).
  { rewrite firstn_app, Nat.sub_diag, firstn_all, firstn_O, app_nil_r. reflexivity. }
  assert (S : skipn (List.length x) (x ++ y) = y).
  { rewrite skipn_app, skipn_all, Nat.sub_diag. reflexivity. }
  destruct (List.length x + List.length y)%nat as [|k] eqn:E; [lia|]. cbn [blocks_fuel].
  rewrite app_length.
  destruct (List.length x + List.length y <=? List.length x)%nat eqn:E2; [apply Nat.leb_le in E2; lia|].
  rewrite F, S. f_equal.
  apply blocks_fuel_irrelevant; [exact Hr|lia|lia].
Qed.

Lemma blocks_concat : forall r x, List.concat (cy_blocks r x) = x.
Proof. intros. apply blocks_fuel_concat. Qed.

(* ------------------------------------------------------------------ Down / Up in the paper's form *)
Lemma xor_into_nil_r : forall s, xor_into s [] = s.
Proof. destruct s; reflexivity. Qed.
Lemma xor_into_trailing_zeros : forall s a m, xor_into s (a ++ repeat 0 m) = xor_into s a.
Proof.
  induction s as [|x s IH]; intros a m; [reflexivity|].
  destruct a as [|y a]; cbn [app].
  - destruct m; cbn [repeat xor_into]; [reflexivity|]. rewrite N.lxor_0_r. f_equal.
    specialize (IH [] m). cbn [app] in IH. rewrite IH. apply xor_into_nil_r.
  - cbn [xor_into]. f_equal. apply IH.
Qed.
Lemma xor_into_then_offset : forall s a b,
  xor_into (xor_into s a) (repeat 0 (List.length a) ++ b) = xor_into s (a ++ b).
Proof.
  induction s as [|x s IH]; intros a b; [reflexivity|].
  destruct a as [|y a]; cbn [List.length repeat app xor_into]; [reflexivity|].
  rewrite N.lxor_0_r. f_equal. apply IH.
Qed.

(* Down(X, c_D):  s <- s + (X || 01 || 00* || c_D')  with c_D' = c_D and 01 in hash mode *)
Lemma down_paper_form : forall c x cd, (List.length x <= 198)%nat ->
  st (cy_down c x cd) =
  xor_into (st c) (x ++ [1] ++ repeat 0 (198 - List.length x) ++
                   [match md c with MHash => N.land cd 1 | MKey => cd end]).
Proof.
  intros c x cd H. unfold cy_down. cbn [st]. unfold add_byte.
  rewrite xor_into_then_offset.
  set (cd' := match md c with MHash => N.land cd 1 | MKey => cd end).
  rewrite <- (xor_into_trailing_zeros (st c) (x ++ [1]) (198 - List.length x)).
  assert (L : (cy_fB - 1)%nat = List.length ((x ++ [1]) ++ repeat 0 (198 - List.length x)%nat)).
  { rewrite !app_length, repeat_length. cbn [List.length]. unfold cy_fB. lia. }
  rewrite L, xor_into_then_offset. rewrite <- !app_assoc. reflexivity.
Qed.
Lemma down_meta : forall c x cd, ph (cy_down c x cd) = PDown /\ md (cy_down c x cd) = md c /\
  r_abs (cy_down c x cd) = r_abs c /\ r_sq (cy_down c x cd) = r_sq c.
Proof. intros. repeat split. Qed.


Section WithF.
Variable f : bytes -> bytes.

Definition up_if_down (c : cy) : cy := match ph c with PUp => c | PDown => cy_up f c 0 end.

(* Up(c_U):  s <- f(s + (00* || c_U)) in keyed mode,  f(s) in hash mode *)
Lemma up_paper_form : forall c cu,
  st (cy_up f c cu) = f (match md c with
                         | MHash => st c
                         | MKey => xor_into (st c) (repeat 0 199 ++ [cu])
                         end).
Proof. intros. unfold cy_up. cbn [st]. destruct (md c); reflexivity. Qed.

(* ------------------------------------------------------------------ AbsorbAny(X, r, c_D) *)
Lemma absorb_any_small : forall c x r cd, (List.length x <= r)%nat ->
  absorb_any f c x r cd = cy_down (up_if_down c) x cd.
Proof. intros. unfold absorb_any. rewrite blocks_small by assumption. reflexivity. Qed.

Lemma absorb_any_app : forall c x y r cd, (0 < r)%nat -> List.length x = r -> y <> [] ->
  absorb_any f c (x ++ y) r cd = absorb_any f (cy_down (up_if_down c) x cd) y r 0.
Proof. intros. unfold absorb_any. rewrite blocks_app by assumption. reflexivity. Qed.

(* the counter: AbsorbAny(counter, 1, 0x00) is one Down per byte, an Up before each but possibly the first *)
Lemma absorb_counter : forall ctr c, ctr <> [] ->
  absorb_any f c ctr 1 0 = fold_left (fun c' b => cy_down (up_if_down c') [b] 0) ctr c.
Proof.
  induction ctr as [|b rest IH]; intros c H; [congruence|].
  destruct rest as [|b' rest'].
  - rewrite absorb_any_small by (cbn; lia). reflexivity.
  - change (b :: b' :: rest') with ([b] ++ (b' :: rest')).
    rewrite absorb_any_app by (try discriminate; cbn; lia).
    rewrite IH by discriminate. reflexivity.
Qed.

(* Absorb(X) = AbsorbAny(X, R_absorb, 0x03) *)
Lemma absorb_one_block : forall c x, (List.length x <= r_abs c)%nat ->
  cy_absorb f c x = cy_down (up_if_down c) x 3.
Proof. intros. unfold cy_absorb. apply absorb_any_small. assumption. Qed.
Lemma absorb_more_blocks : forall c x y, (0 < r_abs c)%nat -> List.length x = r_abs c -> y <> [] ->
  cy_absorb f c (x ++ y) = absorb_any f (cy_down (up_if_down c) x 3) y (r_abs c) 0.
Proof. intros. unfold cy_absorb. apply absorb_any_app; assumption. Qed.

(* ------------------------------------------------------------------ SqueezeAny(l, c_U) *)
Lemma squeeze_more_fuel_irrelevant : forall k k' c n, (0 < r_sq c)%nat -> (n <= k)%nat -> (n <= k')%nat ->
  squeeze_more f k c n = squeeze_more f k' c n.
Proof.
  induction k as [|k IH]; intros k' c n Hr H H'.
  - assert (n = 0)%nat by lia. subst. destruct k'; reflexivity.
  - destruct n as [|n]; [destruct k'; reflexivity|].
    destruct k' as [|k']; [lia|]. cbn [squeeze_more].
    set (c1 := cy_up f (cy_down c [] 0) 0).
    assert (R : r_sq c1 = r_sq c) by reflexivity.
    rewrite (IH k' c1 (S n - Nat.min (S n) (r_sq c))%nat) by (rewrite ?R; lia). reflexivity.
Qed.

Lemma squeeze_any_one_block : forall c n cu, (n <= r_sq c)%nat ->
  squeeze_any f c n cu = (firstn n (st (cy_up f c cu)), cy_up f c cu).
Proof.
  intros c n cu H. unfold squeeze_any. rewrite Nat.min_l by exact H. rewrite Nat.sub_diag.
  cbn [squeeze_more]. rewrite app_nil_r. reflexivity.
Qed.

(* Y <- Up(min(l, R), c_U);  while |Y| < l:  Down(empty, 0x00);  Y <- Y || Up(min(l - |Y|, R), 0x00) *)
Lemma squeeze_any_more_blocks : forall c n cu, (0 < r_sq c)%nat -> (r_sq c < n)%nat ->
  squeeze_any f c n cu =
  let c1 := cy_up f c cu in
  let (y, c2) := squeeze_any f (cy_down c1 [] 0) (n - r_sq c) 0 in
  (firstn (r_sq c) (st c1) ++ y, c2).
Proof.
  intros c n cu Hr H. unfold squeeze_any at 1. rewrite Nat.min_r by lia.
  set (c1 := cy_up f c cu). cbv zeta.
  destruct (n - r_sq c)%nat as [|m] eqn:E; [lia|]. cbn [squeeze_more].
  unfold squeeze_any. cbn [r_sq cy_down cy_up].
  set (c1' := cy_up f (cy_down c1 [] 0) 0).
  change (r_sq c1) with (r_sq c).
  rewrite (squeeze_more_fuel_irrelevant m (S m - Nat.min (S m) (r_sq c)) c1' (S m - Nat.min (S m) (r_sq c)))
    by (try reflexivity; try exact Hr; lia).
  destruct (squeeze_more f (S m - Nat.min (S m) (r_sq c)) c1' (S m - Nat.min (S m) (r_sq c))) as [y c2].
  reflexivity.
Qed.

Lemma squeeze_colour : forall c n, cy_squeeze f c n = squeeze_any f c n 64.
Proof. reflexivity. Qed.
Lemma squeeze_key_colour : forall c n, md c = MKey -> cy_squeeze_key f c n = Ok (squeeze_any f c n 32).
Proof. intros c n H. unfold cy_squeeze_key. rewrite H. reflexivity. Qed.

(* ------------------------------------------------------------------ Ratchet *)
(* Ratchet() = AbsorbAny(SqueezeAny(32, 0x10), R_absorb, 0x00): one Up with colour 0x10, then one Down of
   the first 32 state bytes with colour 0x00 *)
Lemma ratchet_closed_form : forall c, md c = MKey -> (32 <= r_sq c)%nat -> (32 <= r_abs c)%nat ->
  cy_ratchet f c =
  let c1 := cy_up f c 16 in Ok (cy_down c1 (firstn 32 (st c1)) 0).
Proof.
  intros c Hm Hs Ha. unfold cy_ratchet. rewrite Hm. unfold cy_lRatchet.
  rewrite squeeze_any_one_block by exact Hs. cbv zeta.
  rewrite absorb_any_small by (rewrite firstn_length; cbn [r_abs cy_up]; lia). reflexivity.
Qed.

(* ------------------------------------------------------------------ Crypt *)
Lemma encrypt_one_block : forall c p, md c = MKey -> (List.length p <= 136)%nat ->
  cy_encrypt f c p = let c1 := cy_up f c 128 in Ok (xor_ks p (st c1), cy_down c1 p 0).
Proof.
  intros c p Hm H. unfold cy_encrypt, crypt. rewrite Hm, blocks_small by exact H.
  cbn [crypt_blocks List.concat]. rewrite app_nil_r. reflexivity.
Qed.
Lemma decrypt_one_block : forall c ct, md c = MKey -> (List.length ct <= 136)%nat ->
  cy_decrypt f c ct =
  let c1 := cy_up f c 128 in let p := xor_ks ct (st c1) in Ok (p, cy_down c1 p 0).
Proof.
  intros c p Hm H. unfold cy_decrypt, crypt. rewrite Hm, blocks_small by exact H.
  cbn [crypt_blocks List.concat]. rewrite app_nil_r. reflexivity.
Qed.
(* more than one block: colour 0x80 on the first Up only, 0x00 afterwards; every block is followed by a
   Down of the PLAINTEXT block with colour 0x00 *)
Lemma crypt_more_blocks : forall d c x y, List.length x = 136%nat -> y <> [] ->
  crypt f d c (x ++ y) =
  let c1 := cy_up f c 128 in
  let o := xor_ks x (st c1) in
  let (os, c3) := crypt_blocks f d (cy_down c1 (if d then o else x) 0) (cy_blocks 136 y) 0 in
  (o ++ List.concat os, c3).
Proof.
  intros d c x y Hx Hy. unfold crypt, cy_rKout. rewrite blocks_app by (try assumption; lia).
  cbn [crypt_blocks]. 
  destruct (crypt_blocks f d _ (cy_blocks 136 y) 0) as [os c3]. reflexivity.
Qed.

(* ------------------------------------------------------------------ Initialize / AbsorbKey *)
Definition keyed_empty : cy := mkcy PUp MKey 136 136 (repeat 0 200).

(* AbsorbKey(K, id, counter) with an empty counter: ONE Down of K || id || enc8(|id|) with colour 0x02,
   no permutation call *)
Lemma initialize_keyed_no_counter : forall k id, k <> [] -> (List.length k + List.length id <= 135)%nat ->
  cy_initialize f k id [] = Ok (cy_down keyed_empty (k ++ id ++ [N.of_nat (List.length id) mod 256]) 2).
Proof.
  intros k id Hk H. unfold cy_initialize. destruct k as [|k0 k]; [congruence|].
  unfold absorb_key, cy_rKin.
  destruct (136 <=? List.length (k0 :: k) + List.length id)%nat eqn:E; [apply Nat.leb_le in E; lia|].
  rewrite absorb_any_small; [reflexivity|].
  rewrite !app_length. cbn [List.length r_abs] in *. unfold cy_rKin. lia.
Qed.
Lemma initialize_keyed_counter : forall k id ctr, k <> [] -> ctr <> [] ->
  (List.length k + List.length id <= 135)%nat ->
  cy_initialize f k id ctr =
  Ok (fold_left (fun c' b => cy_down (up_if_down c') [b] 0) ctr
        (cy_down keyed_empty (k ++ id ++ [N.of_nat (List.length id) mod 256]) 2)).
Proof.
  intros k id ctr Hk Hc H. unfold cy_initialize. destruct k as [|k0 k]; [congruence|].
  unfold absorb_key, cy_rKin.
  destruct (136 <=? List.length (k0 :: k) + List.length id)%nat eqn:E; [apply Nat.leb_le in E; lia|].
  destruct ctr as [|c0 ctr]; [congruence|].
  rewrite absorb_counter by discriminate. f_equal. f_equal.
  rewrite absorb_any_small; [reflexivity|].
  rewrite !app_length. cbn [List.length r_abs] in *. unfold cy_rKin. lia.
Qed.
Lemma initialize_too_long_panics : forall k id ctr, k <> [] -> (136 <= List.length k + List.length id)%nat ->
  cy_initialize f k id ctr = Panic.
Proof.
  intros k id ctr Hk H. unfold cy_initialize. destruct k as [|k0 k]; [congruence|].
  unfold absorb_key, cy_rKin. apply Nat.leb_le in H. rewrite H. reflexivity.
Qed.
Lemma initialize_hash : forall id ctr, cy_initialize f [] id ctr = Ok cy_empty.
Proof. reflexivity. Qed.

End WithF.
