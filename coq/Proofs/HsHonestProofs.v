(* HsHonestProofs.v — C02: in an unmodified run the reader of each message accepts what the
   writer produced and ends in the same transcript; hence equal session id and keys. *)
From Hop Require Import Base Handshake HsServer HandshakeProofs HsBindingProofs.
From Coq Require Import ZifyN ZifyNat ZifyBool.
Open Scope N_scope.
Local Arguments N.add : simpl never.
Local Arguments N.mul : simpl never.
Local Opaque N.add N.mul.

(* ------------------------------------------------------------------ lists *)
Lemma len_app : forall a b : bytes, len (a ++ b) = len a + len b.
Proof. intros. unfold len. rewrite app_length. lia. Qed.

Lemma skipn_add : forall (x y : nat) (l : bytes), skipn (x + y) l = skipn y (skipn x l).
Proof. induction x; intros; cbn; auto. destruct l; cbn; auto. destruct y; reflexivity. Qed.

Lemma drop_len_app : forall a r, drop (len a) (a ++ r) = r.
Proof.
  intros. unfold drop, len. rewrite Nat2N.id. induction a; cbn; auto.
Qed.

Lemma take_len_app : forall a r, take (len a) (a ++ r) = a.
Proof.
  intros. unfold take, len. rewrite Nat2N.id. induction a; cbn; [destruct r; reflexivity|]. f_equal; auto.
Qed.

Lemma slice_skip : forall a r off n k, len a = k -> k <= off -> slice (a ++ r) off n = slice r (off - k) n.
Proof.
  intros a r off n k Hk Hle. unfold slice. f_equal.
  replace off with (k + (off - k)) at 1 by lia.
  unfold drop. rewrite N2Nat.inj_add, skipn_add. f_equal.
  rewrite <- Hk. apply drop_len_app.
Qed.

Lemma slice_here : forall a r off n, off = 0 -> n = len a -> slice (a ++ r) off n = a.
Proof. intros a r off n -> ->. unfold slice, drop. cbn. apply take_len_app. Qed.

Lemma slice_all : forall a off n, off = 0 -> n = len a -> slice a off n = a.
Proof. intros a off n -> ->. rewrite <- (app_nil_r a) at 1. apply slice_here; auto. Qed.

Lemma take_here : forall a r n, n = len a -> take n (a ++ r) = a.
Proof. intros a r n ->. apply take_len_app. Qed.

(* pick field number k out of a concatenation *)
Ltac fld :=
  repeat (erewrite slice_skip; [ | solve [eassumption | reflexivity] | lia ]);
  first [ apply slice_here; lia | apply slice_all; lia ].

(* what the theorems need to know about oracle outputs: lengths, and that the decryption of an
   encryption in the same state is the plaintext (C13: Cyclist enc/dec inverse with state sync) *)
Record duplex_ok (O : doracle) : Prop := {
  sq_len : forall T n, len (o_sq O T n) = n;
  enc_len : forall T p, len (o_enc O T p) = len p;
  dec_enc : forall T p, o_dec O T (o_enc O T p) = p }.

Ltac Zify.zify_post_hook ::= Z.div_mod_to_equations.

Lemma be2 : forall n, n < 65536 -> ((n / 256) mod 256) * 256 + n mod 256 = n.
Proof. intros. lia. Qed.

Lemma write_vector_eq : forall x, write_vector x = [(len x / 256) mod 256; len x mod 256] ++ x.
Proof.
  intros. unfold write_vector. cbn [be_enc app].
  change (256 ^ N.of_nat 1) with 256. change (256 ^ N.of_nat 0) with 1. rewrite N.div_1_r. reflexivity.
Qed.

Lemma read_vector_written : forall x r, len x < 65536 ->
  read_vector (write_vector x ++ r) = Ok (len x, x).
Proof.
  intros x r Hx. rewrite write_vector_eq. unfold read_vector.
  cbn [app]. unfold at_. cbn [N.to_nat Pos.to_nat Pos.iter_op nth Nat.add].
  rewrite be2 by auto.
  set (h0 := (len x / 256) mod 256). set (h1 := len x mod 256).
  assert (Hl : len (h0 :: h1 :: x ++ r) = 2 + len x + len r).
  { change (h0 :: h1 :: x ++ r) with ([h0; h1] ++ (x ++ r)). rewrite !len_app. change (len [h0; h1]) with 2. lia. }
  destruct (len (h0 :: h1 :: x ++ r) <? 2) eqn:E1; [apply N.ltb_lt in E1; lia|].
  destruct (len (h0 :: h1 :: x ++ r) <? 2 + len x) eqn:E2; [apply N.ltb_lt in E2; lia|].
  f_equal. f_equal.
  change (h0 :: h1 :: x ++ r) with ([h0; h1] ++ (x ++ r)).
  erewrite slice_skip; [ | reflexivity | cbn; lia]. apply slice_here; cbn; lia.
Qed.

Lemma certs_of_vectors : forall leaf inter,
  len leaf < 65536 -> len inter < 65536 ->
  certs_of (write_vector leaf ++ write_vector inter) (4 + len leaf + len inter) = Ok (leaf, inter).
Proof.
  intros leaf inter Hl Hi. unfold certs_of.
  rewrite read_vector_written by auto.
  assert (Hd : drop (2 + len leaf) (write_vector leaf ++ write_vector inter) = write_vector inter).
  { rewrite write_vector_eq at 1.
    replace (2 + len leaf) with (len ([(len leaf / 256) mod 256; len leaf mod 256] ++ leaf)).
    - apply drop_len_app.
    - rewrite len_app. match goal with |- len ?l + _ = _ => change (len l) with 2 end. reflexivity. }
  rewrite Hd. rewrite <- (app_nil_r (write_vector inter)). rewrite read_vector_written by auto.
  replace (len leaf + len inter + 4 =? 4 + len leaf + len inter) with true; auto.
  symmetry. apply N.eqb_eq. lia.
Qed.

Lemma at_cons0 : forall x l, at_ (x :: l) 0 = x. Proof. reflexivity. Qed.
Lemma at_cons1 : forall x y l, at_ (x :: y :: l) 1 = y. Proof. reflexivity. Qed.
Lemma at_cons2 : forall x y z l, at_ (x :: y :: z :: l) 2 = z. Proof. reflexivity. Qed.
Lemma at_cons3 : forall x y z w l, at_ (x :: y :: z :: w :: l) 3 = w. Proof. reflexivity. Qed.

Lemma ltb_false : forall a b, b <= a -> (a <? b) = false.
Proof. intros. apply N.ltb_ge. auto. Qed.

(* ------------------------------------------------------------------ ServerAuth: writer / reader *)
(* the reader on a message given by its fields *)
Lemma server_auth_read_fields : forall O X ce pol T msg hdr sid epub ec ecl ee des pt leaf inter spk,
  len msg = SAMinLen + ecl -> at_ msg 0 = MT_ServerAuth -> at_ msg 1 = 0 ->
  at_ msg 2 * 256 + at_ msg 3 = ecl ->
  take HeaderLen msg = hdr -> slice msg HeaderLen SessionIDLen = sid ->
  slice msg (HeaderLen + SessionIDLen) DHLen = epub ->
  slice msg (HeaderLen + SessionIDLen + DHLen) ecl = ec -> len ec = ecl ->
  x_dh X ce epub = Some ee ->
  let T4 := OAbsorb ee :: OAbsorb epub :: OAbsorb sid :: OAbsorb hdr :: T in
  o_dec O T4 ec = pt -> certs_of pt ecl = Ok (leaf, inter) ->
  let T5 := OCrypt pt :: T4 in
  slice msg (HeaderLen + SessionIDLen + DHLen + ecl) MacLen = o_sq O T5 MacLen ->
  x_policy X pol leaf inter = Some spk -> x_dh X ce spk = Some des ->
  let T7 := OAbsorb des :: OSqueeze MacLen :: T5 in
  slice msg (HeaderLen + SessionIDLen + DHLen + ecl + MacLen) MacLen = o_sq O T7 MacLen ->
  read_server_auth O X ce pol T msg =
    (OSqueeze MacLen :: T7, Ok {| sa_n := SAMinLen + ecl; sa_sid := sid; sa_eph := epub; sa_pk := spk |}).
Proof.
  intros O X ce pol T msg hdr sid epub ec ecl ee des pt leaf inter spk
         Lm A0 A1 EL Ehdr Esid Eeph Eec Lec Hee T4 Edec Ect T5 Etag Hpol Hes T7 Emac.
  unfold read_server_auth, squeeze, absorb.
  rewrite EL, Lm, A0, A1.
  rewrite (ltb_false (SAMinLen + ecl) SAMinLen) by lia.
  rewrite N.eqb_refl. cbn [negb N.eqb].
  rewrite (ltb_false (SAMinLen + ecl) (SAMinLen + ecl)) by lia.
  rewrite Ehdr, Esid, Eeph, Hee.
  rewrite decrypt_certs_eq. rewrite Eec. fold T4. rewrite Edec, Lec, Ect. fold T5.
  rewrite Etag, beq_bytes_refl. cbn [negb].
  rewrite Hpol, Hes. fold T7. rewrite Emac, beq_bytes_refl. cbn [negb]. reflexivity.
Qed.

Theorem server_auth_agree : forall O X T sid epub es ss ceph leaf inter ce pol Tw m spk,
  duplex_ok O ->
  len sid = SessionIDLen -> len epub = DHLen -> len leaf < 65536 -> len inter < 65536 ->
  enc_certs_len leaf inter < 65536 ->
  x_dh X ce epub = x_dh X es ceph ->          (* DH(ee) commutes *)
  x_dh X ce spk = x_dh X ss ceph ->           (* DH(es) commutes *)
  x_policy X pol leaf inter = Some spk ->
  write_server_auth O X T sid epub es ss ceph leaf inter = (Tw, Ok m) ->
  read_server_auth O X ce pol T m =
    (Tw, Ok {| sa_n := len m; sa_sid := sid; sa_eph := epub; sa_pk := spk |}).
Proof.
  intros O X T sid epub es ss ceph leaf inter ce pol Tw m spk DO Hsid Hepub Hleaf Hinter Hecl Hee Hes Hpol H.
  unfold write_server_auth, encrypt_certs, encrypt, squeeze, absorb in H.
  destruct (x_dh X es ceph) as [ee|] eqn:Eee; [|discriminate].
  destruct (x_dh X ss ceph) as [des|] eqn:Ees; [|discriminate].
  injection H as <- <-.
  set (ecl := enc_certs_len leaf inter) in *.
  set (hdr := [MT_ServerAuth; 0; (ecl / 256) mod 256; ecl mod 256]).
  set (T4 := OAbsorb ee :: OAbsorb epub :: OAbsorb sid :: OAbsorb hdr :: T).
  set (pt := write_vector leaf ++ write_vector inter).
  set (ec := o_enc O T4 pt).
  set (T5 := OCrypt pt :: T4).
  set (tag := o_sq O T5 MacLen).
  set (T7 := OAbsorb des :: OSqueeze MacLen :: T5).
  set (mac := o_sq O T7 MacLen).
  assert (Lpt : len pt = ecl).
  { unfold pt, ecl, enc_certs_len. rewrite len_app, !write_vector_eq, !len_app.
    repeat match goal with |- context [len [?a; ?b]] => change (len [a; b]) with 2 end. lia. }
  assert (Lec : len ec = ecl) by (unfold ec; rewrite (enc_len O DO); auto).
  assert (Ltag : len tag = MacLen) by apply (sq_len O DO).
  assert (Lmac : len mac = MacLen) by apply (sq_len O DO).
  assert (Lhdr : len hdr = HeaderLen) by reflexivity.
  match goal with |- read_server_auth _ _ _ _ _ ?M = _ => change M with (hdr ++ sid ++ epub ++ ec ++ tag ++ mac) end.
  assert (Lm : len (hdr ++ sid ++ epub ++ ec ++ tag ++ mac) = SAMinLen + ecl).
  { rewrite !len_app, Lhdr, Hsid, Hepub, Lec, Ltag, Lmac.
    unfold SAMinLen, HeaderLen, SessionIDLen, MacLen, DHLen. lia. }
  match goal with |- _ = (_, Ok {| sa_n := ?L; sa_sid := _; sa_eph := _; sa_pk := _ |}) =>
    replace L with (SAMinLen + ecl) by (symmetry; exact Lm) end.
  eapply (server_auth_read_fields O X ce pol T _ hdr sid epub ec ecl ee des pt leaf inter spk);
    unfold HeaderLen, SessionIDLen, DHLen, MacLen in *;
    try reflexivity; try assumption; try congruence;
    try (apply take_here; auto; fail);
    try (fld; fail);
    try (apply (dec_enc O DO); fail);
    try (unfold pt, ecl, enc_certs_len; apply certs_of_vectors; auto; fail).
  - cbn [app hdr]. rewrite at_cons2, at_cons3. apply be2. auto.
  - match goal with |- ?l = _ => change (l = tag) end. fld.
  - match goal with |- ?l = _ => change (l = mac) end. fld.
Qed.

(* ------------------------------------------------------------------ ClientAuth: writer / reader *)
Lemma client_auth_read_fields : forall O X se pol T msg hdr sid ec ecl dse pt leaf inter cpk,
  len msg = HeaderLen + SessionIDLen + ecl + 2 * MacLen -> at_ msg 0 = MT_ClientAuth -> at_ msg 1 = 0 ->
  at_ msg 2 * 256 + at_ msg 3 = ecl ->
  take HeaderLen msg = hdr -> slice msg HeaderLen SessionIDLen = sid ->
  slice msg (HeaderLen + SessionIDLen) ecl = ec -> len ec = ecl ->
  let T2 := OAbsorb sid :: OAbsorb hdr :: T in
  o_dec O T2 ec = pt -> certs_of pt ecl = Ok (leaf, inter) ->
  let T3 := OCrypt pt :: T2 in
  slice msg (HeaderLen + SessionIDLen + ecl) MacLen = o_sq O T3 MacLen ->
  x_policy X pol leaf inter = Some cpk -> x_dh X se cpk = Some dse ->
  let T5 := OAbsorb dse :: OSqueeze MacLen :: T3 in
  slice msg (HeaderLen + SessionIDLen + ecl + MacLen) MacLen = o_sq O T5 MacLen ->
  read_client_auth O X se pol sid T msg = (OSqueeze MacLen :: T5, Ok (len msg, cpk)).
Proof.
  intros O X se pol T msg hdr sid ec ecl dse pt leaf inter cpk
         Lm A0 A1 EL Ehdr Esid Eec Lec T2 Edec Ect T3 Etag Hpol Hse T5 Emac.
  unfold read_client_auth, read_client_auth_pre, squeeze, absorb.
  rewrite EL, Lm, A0, A1.
  rewrite (ltb_false (HeaderLen + SessionIDLen + ecl + 2 * MacLen) HeaderLen) by (unfold HeaderLen; lia).
  rewrite (ltb_false (HeaderLen + SessionIDLen + ecl + 2 * MacLen) (HeaderLen + SessionIDLen + ecl + 2 * MacLen)) by lia.
  rewrite N.eqb_refl. cbn [negb N.eqb].
  rewrite Ehdr, Esid, beq_bytes_refl. cbn [negb].
  rewrite decrypt_certs_eq. rewrite Eec. fold T2. rewrite Edec, Lec, Ect. fold T3.
  rewrite Etag, beq_bytes_refl. cbn [negb].
  rewrite Hpol, Hse. fold T5. rewrite Emac, beq_bytes_refl. cbn [negb].
  reflexivity.
Qed.

Theorem client_auth_agree : forall O X T sid cs seph leaf inter se pol Tw m cpk,
  duplex_ok O ->
  len sid = SessionIDLen -> 0 < len leaf -> len leaf < 65536 -> len inter < 65536 ->
  enc_certs_len leaf inter < 65536 ->
  x_dh X se cpk = x_dh X cs seph ->           (* DH(se) commutes *)
  x_policy X pol leaf inter = Some cpk ->
  write_client_auth O X T sid cs seph leaf inter = (Tw, Ok m) ->
  read_client_auth O X se pol sid T m = (Tw, Ok (len m, cpk)).
Proof.
  intros O X T sid cs seph leaf inter se pol Tw m cpk DO Hsid Hl0 Hleaf Hinter Hecl Hse Hpol H.
  unfold write_client_auth, encrypt_certs, encrypt, squeeze, absorb in H.
  destruct (len leaf =? 0) eqn:E0; [apply N.eqb_eq in E0; lia|].
  destruct (x_dh X cs seph) as [dse|] eqn:Ese; [|discriminate].
  injection H as <- <-.
  set (ecl := enc_certs_len leaf inter) in *.
  set (hdr := [MT_ClientAuth; 0; (ecl / 256) mod 256; ecl mod 256]).
  set (T2 := OAbsorb sid :: OAbsorb hdr :: T).
  set (pt := write_vector leaf ++ write_vector inter).
  set (ec := o_enc O T2 pt).
  set (T3 := OCrypt pt :: T2).
  set (tag := o_sq O T3 MacLen).
  set (T5 := OAbsorb dse :: OSqueeze MacLen :: T3).
  set (mac := o_sq O T5 MacLen).
  assert (Lpt : len pt = ecl).
  { unfold pt, ecl, enc_certs_len. rewrite len_app, !write_vector_eq, !len_app.
    repeat match goal with |- context [len [?a; ?b]] => change (len [a; b]) with 2 end. lia. }
  assert (Lec : len ec = ecl) by (unfold ec; rewrite (enc_len O DO); auto).
  assert (Ltag : len tag = MacLen) by apply (sq_len O DO).
  assert (Lmac : len mac = MacLen) by apply (sq_len O DO).
  assert (Lhdr : len hdr = HeaderLen) by reflexivity.
  match goal with |- read_client_auth _ _ _ _ _ _ ?M = _ => change M with (hdr ++ sid ++ ec ++ tag ++ mac) end.
  assert (Lm : len (hdr ++ sid ++ ec ++ tag ++ mac) = HeaderLen + SessionIDLen + ecl + 2 * MacLen).
  { rewrite !len_app, Lhdr, Hsid, Lec, Ltag, Lmac. unfold HeaderLen, SessionIDLen, MacLen. lia. }
  eapply (client_auth_read_fields O X se pol T _ hdr sid ec ecl dse pt leaf inter cpk);
    unfold HeaderLen, SessionIDLen, DHLen, MacLen in *;
    try reflexivity; try assumption; try congruence;
    try (apply take_here; auto; fail);
    try (fld; fail);
    try (apply (dec_enc O DO); fail);
    try (unfold pt, ecl, enc_certs_len; apply certs_of_vectors; auto; fail).
  - cbn [app hdr]. rewrite at_cons2, at_cons3. apply be2. auto.
  - match goal with |- ?l = _ => change (l = tag) end. fld.
  - match goal with |- ?l = _ => change (l = mac) end. fld.
Qed.

(* ------------------------------------------------------------------ hidden response: writer / reader *)
Lemma response_hidden_read_fields : forall O X ek cs pol T msg hdr sid ect ec ecl k dss pt leaf inter spk,
  len msg = SRHMinLen + ecl -> at_ msg 0 = MT_ServerResponseHidden -> at_ msg 1 = 0 ->
  at_ msg 2 * 256 + at_ msg 3 = ecl ->
  take HeaderLen msg = hdr -> slice msg HeaderLen SessionIDLen = sid ->
  slice msg (HeaderLen + SessionIDLen) KemCtLen = ect ->
  slice msg (HeaderLen + SessionIDLen + KemCtLen) ecl = ec -> len ec = ecl ->
  x_decaps X ek ect = Some k ->
  let T3 := OAbsorb k :: OAbsorb sid :: OAbsorb hdr :: T in
  o_dec O T3 ec = pt -> certs_of pt ecl = Ok (leaf, inter) ->
  let T4 := OCrypt pt :: T3 in
  slice msg (HeaderLen + SessionIDLen + KemCtLen + ecl) MacLen = o_sq O T4 MacLen ->
  x_policy X pol leaf inter = Some spk -> x_dh X cs spk = Some dss ->
  let T6 := OAbsorb dss :: OSqueeze MacLen :: T4 in
  slice msg (HeaderLen + SessionIDLen + KemCtLen + ecl + MacLen) MacLen = o_sq O T6 MacLen ->
  read_response_hidden O X ek cs pol T msg =
    (OSqueeze MacLen :: T6, Ok {| sa_n := SRHMinLen + ecl; sa_sid := sid; sa_eph := []; sa_pk := spk |}).
Proof.
  intros O X ek cs pol T msg hdr sid ect ec ecl k dss pt leaf inter spk
         Lm A0 A1 EL Ehdr Esid Eect Eec Lec Hk T3 Edec Ect T4 Etag Hpol Hss T6 Emac.
  unfold read_response_hidden, squeeze, absorb.
  rewrite EL, Lm, A0, A1.
  rewrite (ltb_false (SRHMinLen + ecl) SRHMinLen) by lia.
  rewrite N.eqb_refl. cbn [negb N.eqb].
  rewrite (ltb_false (SRHMinLen + ecl) (SRHMinLen + ecl)) by lia.
  rewrite Ehdr, Esid, Eect, Hk.
  rewrite decrypt_certs_eq. rewrite Eec. fold T3. rewrite Edec, Lec, Ect. fold T4.
  rewrite Etag, beq_bytes_refl. cbn [negb].
  rewrite Hpol, Hss. fold T6. rewrite Emac, beq_bytes_refl. cbn [negb]. reflexivity.
Qed.

Theorem response_hidden_agree : forall O X T sid ect ek ss cpk leaf inter ekid cs pol Tw m spk,
  duplex_ok O ->
  len sid = SessionIDLen -> len ect = KemCtLen -> len leaf < 65536 -> len inter < 65536 ->
  enc_certs_len leaf inter < 65536 ->
  x_decaps X ekid ect = Some ek ->            (* KEM correctness: the client decapsulates the server's secret *)
  x_dh X cs spk = x_dh X ss cpk ->            (* DH(ss) commutes *)
  x_policy X pol leaf inter = Some spk ->
  write_response_hidden O X T sid ect ek ss cpk leaf inter = (Tw, Ok m) ->
  read_response_hidden O X ekid cs pol T m =
    (Tw, Ok {| sa_n := len m; sa_sid := sid; sa_eph := []; sa_pk := spk |}).
Proof.
  intros O X T sid ect ek ss cpk leaf inter ekid cs pol Tw m spk DO Hsid Hect Hleaf Hinter Hecl Hk Hss Hpol H.
  unfold write_response_hidden, encrypt_certs, encrypt, squeeze, absorb in H.
  destruct (x_dh X ss cpk) as [dss|] eqn:Ess; [|discriminate].
  injection H as <- <-.
  set (ecl := enc_certs_len leaf inter) in *.
  set (hdr := [MT_ServerResponseHidden; 0; (ecl / 256) mod 256; ecl mod 256]).
  set (T3 := OAbsorb ek :: OAbsorb sid :: OAbsorb hdr :: T).
  set (pt := write_vector leaf ++ write_vector inter).
  set (ec := o_enc O T3 pt).
  set (T4 := OCrypt pt :: T3).
  set (tag := o_sq O T4 MacLen).
  set (T6 := OAbsorb dss :: OSqueeze MacLen :: T4).
  set (mac := o_sq O T6 MacLen).
  assert (Lpt : len pt = ecl).
  { unfold pt, ecl, enc_certs_len. rewrite len_app, !write_vector_eq, !len_app.
    repeat match goal with |- context [len [?a; ?b]] => change (len [a; b]) with 2 end. lia. }
  assert (Lec : len ec = ecl) by (unfold ec; rewrite (enc_len O DO); auto).
  assert (Ltag : len tag = MacLen) by apply (sq_len O DO).
  assert (Lmac : len mac = MacLen) by apply (sq_len O DO).
  assert (Lhdr : len hdr = HeaderLen) by reflexivity.
  match goal with |- read_response_hidden _ _ _ _ _ _ ?M = _ => change M with (hdr ++ sid ++ ect ++ ec ++ tag ++ mac) end.
  assert (Lm : len (hdr ++ sid ++ ect ++ ec ++ tag ++ mac) = SRHMinLen + ecl).
  { rewrite !len_app, Lhdr, Hsid, Hect, Lec, Ltag, Lmac. unfold SRHMinLen, HeaderLen, SessionIDLen, KemCtLen, MacLen. lia. }
  match goal with |- _ = (_, Ok {| sa_n := ?L; sa_sid := _; sa_eph := _; sa_pk := _ |}) =>
    replace L with (SRHMinLen + ecl) by (symmetry; exact Lm) end.
  eapply (response_hidden_read_fields O X ekid cs pol T _ hdr sid ect ec ecl ek dss pt leaf inter spk);
    unfold HeaderLen, SessionIDLen, DHLen, MacLen, KemCtLen in *;
    try reflexivity; try assumption; try congruence;
    try (apply take_here; auto; fail);
    try (fld; fail);
    try (apply (dec_enc O DO); fail);
    try (unfold pt, ecl, enc_certs_len; apply certs_of_vectors; auto; fail).
  - cbn [app hdr]. rewrite at_cons2, at_cons3. apply be2. auto.
  - match goal with |- ?l = _ => change (l = tag) end. fld.
  - match goal with |- ?l = _ => change (l = mac) end. fld.
Qed.

(* ------------------------------------------------------------------ hidden request: writer / reader *)
Definition HReqLen (ecl : N) : N := HeaderLen + KemCtLen + ecl + MacLen + KemKeyLen + TimestampLen + MacLen.

Lemma request_hidden_read_fields : forall O X c rest pol now msg hdr kpub ct ec ecl k pt leaf inter cpk ts kid,
  len msg = HReqLen ecl -> at_ msg 0 = MT_ClientRequestHidden -> at_ msg 1 = Version ->
  at_ msg 2 * 256 + at_ msg 3 = ecl ->
  take HeaderLen msg = hdr -> slice msg HeaderLen KemKeyLen = kpub ->
  slice msg (HeaderLen + KemKeyLen) KemCtLen = ct ->
  slice msg (HeaderLen + KemKeyLen + KemCtLen) ecl = ec -> len ec = ecl ->
  hc_kem c = Some kid -> hc_hasname c = true -> x_decaps X kid ct = Some k ->
  let T3 := OAbsorb k :: OAbsorb kpub :: OAbsorb hdr :: tr_start_hidden O in
  o_dec O T3 ec = pt -> certs_of pt ecl = Ok (leaf, inter) ->
  let T4 := OCrypt pt :: T3 in
  slice msg (HeaderLen + KemKeyLen + KemCtLen + ecl) MacLen = o_sq O T4 MacLen ->
  x_kemparse X kpub = Some kpub -> x_policy X pol leaf inter = Some cpk ->
  let T5 := OSqueeze MacLen :: T4 in
  o_dec O T5 (slice msg (HeaderLen + KemKeyLen + KemCtLen + ecl + MacLen) TimestampLen) = ts ->
  be_dec ts <= now -> now - be_dec ts <= HiddenExpiration ->
  let T6 := OCrypt ts :: T5 in
  slice msg (HeaderLen + KemKeyLen + KemCtLen + ecl + MacLen + TimestampLen) MacLen = o_sq O T6 MacLen ->
  read_request_hidden O X (Some (c :: rest)) pol now [] msg =
    (OSqueeze MacLen :: T6,
     Ok {| hq_n := HReqLen ecl; hq_tr := OSqueeze MacLen :: T6; hq_kem := kpub; hq_pk := cpk; hq_cert := c |}).
Proof.
  intros O X c rest pol now msg hdr kpub ct ec ecl k pt leaf inter cpk ts kid
         Lm A0 A1 EL Ehdr Ekpub Ect0 Eec Lec Hkid Hname Hk T3 Edec Ect T4 Etag Hkp Hpol T5 Ets Hts1 Hts2 T6 Emac.
  unfold read_request_hidden.
  rewrite Lm, EL, A0, A1.
  rewrite (ltb_false (HReqLen ecl) 4) by (unfold HReqLen, HeaderLen; lia).
  cbv zeta. fold (HReqLen ecl).
  rewrite (ltb_false (HReqLen ecl) (HReqLen ecl)) by lia.
  rewrite !N.eqb_refl. cbn [negb].
  cbn [hidden_trials]. unfold hidden_trial, squeeze, absorb.
  rewrite Hkid, Ehdr, Ekpub, Ect0, Hk.
  rewrite decrypt_certs_eq. rewrite Eec.
  change (rekey O [OAbsorb PQHiddenName; OReset] PQHiddenName) with (tr_start_hidden O).
  fold T3. rewrite Edec, Lec, Ect. fold T4.
  rewrite Etag, beq_bytes_refl, Hname. cbn [negb to_tr to_leaf to_inter to_cert].
  rewrite Hkp, Hpol. unfold decrypt, squeeze. fold T5. rewrite Ets.
  rewrite (ltb_false now (be_dec ts)) by lia.
  rewrite (ltb_false HiddenExpiration (now - be_dec ts)) by lia. cbn [orb].
  fold T6. rewrite Emac, beq_bytes_refl. cbn [negb]. reflexivity.
Qed.

Theorem request_hidden_agree : forall O X kpub ct k leaf inter ts c rest kid pol now Tw m cpk,
  duplex_ok O ->
  len kpub = KemKeyLen -> len ct = KemCtLen -> len ts = TimestampLen ->
  0 < len leaf -> len leaf < 65536 -> len inter < 65536 -> enc_certs_len leaf inter < 65536 ->
  hc_kem c = Some kid -> hc_hasname c = true ->
  x_decaps X kid ct = Some k ->                (* KEM correctness for the server's static KEM key *)
  x_kemparse X kpub = Some kpub ->
  x_policy X pol leaf inter = Some cpk ->
  be_dec ts <= now -> now - be_dec ts <= HiddenExpiration ->
  write_request_hidden O (tr_start_hidden O) kpub ct k leaf inter ts = (Tw, Ok m) ->
  read_request_hidden O X (Some (c :: rest)) pol now [] m =
    (Tw, Ok {| hq_n := len m; hq_tr := Tw; hq_kem := kpub; hq_pk := cpk; hq_cert := c |}).
Proof.
  intros O X kpub ct k leaf inter ts c rest kid pol now Tw m cpk DO Hkpub Hct Hts Hl0 Hleaf Hinter Hecl
         Hkid Hname Hk Hkp Hpol Ht1 Ht2 H.
  unfold write_request_hidden, encrypt_certs, encrypt, squeeze, absorb in H.
  destruct (len leaf =? 0) eqn:E0; [apply N.eqb_eq in E0; lia|].
  injection H as <- <-.
  set (ecl := enc_certs_len leaf inter) in *.
  set (hdr := [MT_ClientRequestHidden; Version; (ecl / 256) mod 256; ecl mod 256]).
  set (T3 := OAbsorb k :: OAbsorb kpub :: OAbsorb hdr :: tr_start_hidden O).
  set (pt := write_vector leaf ++ write_vector inter).
  set (ec := o_enc O T3 pt).
  set (T4 := OCrypt pt :: T3).
  set (tag := o_sq O T4 MacLen).
  set (T5 := OSqueeze MacLen :: T4).
  set (ets := o_enc O T5 ts).
  set (T6 := OCrypt ts :: T5).
  set (mac := o_sq O T6 MacLen).
  assert (Lpt : len pt = ecl).
  { unfold pt, ecl, enc_certs_len. rewrite len_app, !write_vector_eq, !len_app.
    repeat match goal with |- context [len [?a; ?b]] => change (len [a; b]) with 2 end. lia. }
  assert (Lec : len ec = ecl) by (unfold ec; rewrite (enc_len O DO); auto).
  assert (Ltag : len tag = MacLen) by apply (sq_len O DO).
  assert (Lets : len ets = TimestampLen) by (unfold ets; rewrite (enc_len O DO); auto).
  assert (Lmac : len mac = MacLen) by apply (sq_len O DO).
  assert (Lhdr : len hdr = HeaderLen) by reflexivity.
  match goal with |- read_request_hidden _ _ _ _ _ _ ?M = _ =>
    change M with (hdr ++ kpub ++ ct ++ ec ++ tag ++ ets ++ mac) end.
  assert (Lm : len (hdr ++ kpub ++ ct ++ ec ++ tag ++ ets ++ mac) = HReqLen ecl).
  { rewrite !len_app, Lhdr, Hkpub, Hct, Lec, Ltag, Lets, Lmac.
    unfold HReqLen, HeaderLen, KemKeyLen, KemCtLen, TimestampLen, MacLen. lia. }
  match goal with |- _ = (_, Ok {| hq_n := ?L; hq_tr := _; hq_kem := _; hq_pk := _; hq_cert := _ |}) =>
    replace L with (HReqLen ecl) by (symmetry; exact Lm) end.
  assert (Ets : slice (hdr ++ kpub ++ ct ++ ec ++ tag ++ ets ++ mac)
                  (HeaderLen + KemKeyLen + KemCtLen + ecl + MacLen) TimestampLen = ets).
  { unfold HeaderLen, KemKeyLen, KemCtLen, TimestampLen, MacLen in *. fld. }
  eapply (request_hidden_read_fields O X c rest pol now _ hdr kpub ct ec ecl k pt leaf inter cpk ts kid);
    try (rewrite Ets; apply (dec_enc O DO));
    unfold HeaderLen, SessionIDLen, DHLen, MacLen, KemCtLen, KemKeyLen, TimestampLen in *;
    try reflexivity; try assumption; try congruence;
    try (apply take_here; auto; fail);
    try (fld; fail);
    try (apply (dec_enc O DO); fail);
    try (unfold pt, ecl, enc_certs_len; apply certs_of_vectors; auto; fail).
  - cbn [app hdr]. rewrite at_cons2, at_cons3. apply be2. auto.
  - match goal with |- ?l = _ => change (l = tag) end. fld.
  - match goal with |- ?l = _ => change (l = mac) end. fld.
Qed.

(* ------------------------------------------------------------------ ClientHello / ServerHello *)
Theorem client_hello_agree : forall O X T kpub m Tw,
  duplex_ok O -> len kpub = KemKeyLen -> x_kemparse X kpub = Some kpub ->
  write_client_hello O T kpub = (m, Tw) ->
  read_client_hello O X T m = (Tw, Ok (len m, kpub)) /\ len m = PQHelloLen.
Proof.
  intros O X T kpub m Tw DO Hk Hp H.
  unfold write_client_hello, squeeze, absorb in H. injection H as <- <-.
  set (hdr := [MT_ClientHello; Version; 0; 0]).
  set (T2 := OAbsorb kpub :: OAbsorb hdr :: T).
  set (mac := o_sq O T2 MacLen).
  assert (Lmac : len mac = MacLen) by apply (sq_len O DO).
  assert (Lhdr : len hdr = HeaderLen) by reflexivity.
  assert (Lm : len (hdr ++ kpub ++ mac) = PQHelloLen).
  { rewrite !len_app, Lhdr, Hk, Lmac. reflexivity. }
  split; auto.
  match goal with |- read_client_hello _ _ _ ?M = (_, Ok (len ?M', _)) =>
    change M with (hdr ++ kpub ++ mac); change M' with (hdr ++ kpub ++ mac) end.
  unfold HeaderLen, KemKeyLen, MacLen in *.
  assert (E0 : at_ (hdr ++ kpub ++ mac) 0 = MT_ClientHello) by reflexivity.
  assert (E1 : at_ (hdr ++ kpub ++ mac) 1 = Version) by reflexivity.
  assert (E2 : at_ (hdr ++ kpub ++ mac) 2 = 0) by reflexivity.
  assert (E3 : at_ (hdr ++ kpub ++ mac) 3 = 0) by reflexivity.
  assert (Eh : take 4 (hdr ++ kpub ++ mac) = hdr) by (apply take_here; auto).
  assert (Ek : slice (hdr ++ kpub ++ mac) 4 800 = kpub) by fld.
  assert (Em : slice (hdr ++ kpub ++ mac) (4 + 800) 16 = mac) by fld.
  assert (Dm : o_sq O T2 16 = mac) by reflexivity.
  set (msg := hdr ++ kpub ++ mac) in *. clearbody msg mac.
  unfold read_client_hello, squeeze, absorb, HeaderLen, KemKeyLen, MacLen. rewrite Lm.
  rewrite (ltb_false PQHelloLen PQHelloLen) by lia.
  rewrite E0, E1, E2, E3, !N.eqb_refl. cbn [negb andb].
  rewrite Eh, Ek, Hp. fold T2. rewrite Dm, Em, beq_bytes_refl. cbn [negb]. subst T2. reflexivity.
Qed.

Theorem server_hello_agree : forall O X T ct k cookie ekid m Tw,
  duplex_ok O -> len ct = KemCtLen -> len cookie = PQCookieLen ->
  x_decaps X ekid ct = Some k ->               (* KEM correctness for the client's ephemeral KEM key *)
  write_server_hello O T ct k cookie = (m, Tw) ->
  read_server_hello O X ekid T m = (Tw, Ok (len m, cookie)) /\ len m = PQServerHelloLen.
Proof.
  intros O X T ct k cookie ekid m Tw DO Hct Hck Hk H.
  unfold write_server_hello, squeeze, absorb in H. injection H as <- <-.
  set (hdr := [MT_ServerHello; 0; 0; 0]).
  set (T3 := OAbsorb cookie :: OAbsorb k :: OAbsorb hdr :: T).
  set (mac := o_sq O T3 MacLen).
  assert (Lmac : len mac = MacLen) by apply (sq_len O DO).
  assert (Lhdr : len hdr = HeaderLen) by reflexivity.
  assert (Lm : len (hdr ++ ct ++ cookie ++ mac) = PQServerHelloLen).
  { rewrite !len_app, Lhdr, Hct, Hck, Lmac. reflexivity. }
  split; auto.
  match goal with |- read_server_hello _ _ _ _ ?M = (_, Ok (len ?M', _)) =>
    change M with (hdr ++ ct ++ cookie ++ mac); change M' with (hdr ++ ct ++ cookie ++ mac) end.
  unfold HeaderLen, KemCtLen, PQCookieLen, MacLen in *.
  assert (E0 : at_ (hdr ++ ct ++ cookie ++ mac) 0 = MT_ServerHello) by reflexivity.
  assert (E1 : at_ (hdr ++ ct ++ cookie ++ mac) 1 = 0) by reflexivity.
  assert (E2 : at_ (hdr ++ ct ++ cookie ++ mac) 2 = 0) by reflexivity.
  assert (E3 : at_ (hdr ++ ct ++ cookie ++ mac) 3 = 0) by reflexivity.
  assert (Eh : take 4 (hdr ++ ct ++ cookie ++ mac) = hdr) by (apply take_here; auto).
  assert (Ec : slice (hdr ++ ct ++ cookie ++ mac) 4 768 = ct) by fld.
  assert (Eck : slice (hdr ++ ct ++ cookie ++ mac) (4 + 768) 64 = cookie) by fld.
  assert (Em : slice (hdr ++ ct ++ cookie ++ mac) (4 + 768 + 64) 16 = mac) by fld.
  assert (Dm : o_sq O T3 16 = mac) by reflexivity.
  set (msg := hdr ++ ct ++ cookie ++ mac) in *. clearbody msg mac.
  unfold read_server_hello, squeeze, absorb, HeaderLen, KemCtLen, PQCookieLen, MacLen. rewrite Lm.
  rewrite (ltb_false PQServerHelloLen PQServerHelloLen) by lia.
  rewrite E0, E1, E2, E3, !N.eqb_refl. cbn [negb andb].
  rewrite Eh, Ec, Hk, Eck. fold T3. rewrite Dm, Em, beq_bytes_refl. cbn [negb]. subst T3. reflexivity.
Qed.

(* ------------------------------------------------------------------ cookie replay *)
(* the transcript the server rebuilds from the cookie equals the one it had after writing the
   ServerHello (and rekeying): c02_replay_reconstructs_transcript *)
Theorem replay_reconstructs_transcript : forall O X ck kpub ct k cookie ip port mch Tch msh Tsh,
  len k = PQSharedSecretLen -> len cookie = PQCookieLen ->
  x_open X ck (cookie_ad X kpub ip port) cookie = Some k ->   (* the cookie opens to the KEM secret *)
  write_client_hello O (tr_start PQName) kpub = (mch, Tch) ->
  write_server_hello O Tch ct k cookie = (msh, Tsh) ->
  replay_from_cookie O X ck cookie kpub ip port = Ok (rekey O Tsh PQName).
Proof.
  intros O X ck kpub ct k cookie ip port mch Tch msh Tsh Hk Hc Ho Hch Hsh.
  unfold write_client_hello, squeeze, absorb in Hch. injection Hch as <- <-.
  unfold write_server_hello, squeeze, absorb in Hsh. injection Hsh as <- <-.
  unfold replay_from_cookie, squeeze, absorb.
  rewrite Hc. rewrite (ltb_false PQCookieLen PQCookieLen) by lia.
  replace (take PQCookieLen cookie) with cookie.
  2:{ symmetry. rewrite <- (app_nil_r cookie) at 1. apply take_here. auto. }
  rewrite Ho, Hk, N.eqb_refl. cbn [negb]. reflexivity.
Qed.

(* ------------------------------------------------------------------ ClientAck: writer / reader *)
Theorem client_ack_agree : forall O X T1 epub kpub cookie sni ck ip port name m Tw,
  duplex_ok O ->
  len epub = DHLen -> len kpub = KemKeyLen -> len cookie = PQCookieLen -> len sni = SNILen ->
  x_kemparse X kpub = Some kpub ->
  replay_from_cookie O X ck cookie kpub ip port = Ok T1 ->   (* the server rebuilds the client's transcript *)
  parse_sni sni = Ok name ->
  write_client_ack O T1 epub kpub cookie sni = (m, Tw) ->
  read_client_ack O X ck ip port m =
    Ok (len m, {| ak_tr := Tw; ak_eph := epub; ak_kem := kpub; ak_sni := name |}) /\ len m = PQClientAckLen.
Proof.
  intros O X T1 epub kpub cookie sni ck ip port name m Tw DO He Hk Hc Hs Hp Hr Hn H.
  unfold write_client_ack, encrypt, squeeze, absorb in H. injection H as <- <-.
  set (hdr := [MT_ClientAck; 0; 0; 0]).
  set (T4 := OAbsorb cookie :: OAbsorb kpub :: OAbsorb epub :: OAbsorb hdr :: T1).
  set (esni := o_enc O T4 sni).
  set (T5 := OCrypt sni :: T4).
  set (mac := o_sq O T5 MacLen).
  assert (Lmac : len mac = MacLen) by apply (sq_len O DO).
  assert (Les : len esni = SNILen) by (unfold esni; rewrite (enc_len O DO); auto).
  assert (Lhdr : len hdr = HeaderLen) by reflexivity.
  assert (Lm : len (hdr ++ epub ++ kpub ++ cookie ++ esni ++ mac) = PQClientAckLen).
  { rewrite !len_app, Lhdr, He, Hk, Hc, Les, Lmac. reflexivity. }
  split; auto.
  match goal with |- read_client_ack _ _ _ _ _ ?M = Ok (len ?M', _) =>
    change M with (hdr ++ epub ++ kpub ++ cookie ++ esni ++ mac);
    change M' with (hdr ++ epub ++ kpub ++ cookie ++ esni ++ mac) end.
  unfold HeaderLen, DHLen, KemKeyLen, PQCookieLen, SNILen, MacLen in *.
  assert (E0 : at_ (hdr ++ epub ++ kpub ++ cookie ++ esni ++ mac) 0 = MT_ClientAck) by reflexivity.
  assert (E1 : at_ (hdr ++ epub ++ kpub ++ cookie ++ esni ++ mac) 1 = 0) by reflexivity.
  assert (E2 : at_ (hdr ++ epub ++ kpub ++ cookie ++ esni ++ mac) 2 = 0) by reflexivity.
  assert (E3 : at_ (hdr ++ epub ++ kpub ++ cookie ++ esni ++ mac) 3 = 0) by reflexivity.
  assert (Eh : take 4 (hdr ++ epub ++ kpub ++ cookie ++ esni ++ mac) = hdr) by (apply take_here; auto).
  assert (Ee : slice (hdr ++ epub ++ kpub ++ cookie ++ esni ++ mac) 4 32 = epub) by fld.
  assert (Ek : slice (hdr ++ epub ++ kpub ++ cookie ++ esni ++ mac) (4 + 32) 800 = kpub) by fld.
  assert (Ec : slice (hdr ++ epub ++ kpub ++ cookie ++ esni ++ mac) (4 + 32 + 800) 64 = cookie) by fld.
  assert (Es : slice (hdr ++ epub ++ kpub ++ cookie ++ esni ++ mac) (4 + 32 + 800 + 64) 256 = esni) by fld.
  assert (Em : slice (hdr ++ epub ++ kpub ++ cookie ++ esni ++ mac) (4 + 32 + 800 + 64 + 256) 16 = mac) by fld.
  assert (Dm : o_sq O T5 16 = mac) by reflexivity.
  assert (Dd : o_dec O T4 esni = sni) by apply (dec_enc O DO).
  set (msg := hdr ++ epub ++ kpub ++ cookie ++ esni ++ mac) in *. clearbody msg mac esni.
  unfold read_client_ack, bind, squeeze, decrypt, absorb, HeaderLen, DHLen, KemKeyLen, PQCookieLen, SNILen, MacLen.
  rewrite Lm. rewrite (ltb_false PQClientAckLen PQClientAckLen) by lia.
  rewrite E0, E1, E2, E3, !N.eqb_refl. cbn [negb andb].
  rewrite Ek, Hp, Ec, Hr, Eh, Ee, Es. fold T4. rewrite Dd. fold T5. rewrite Dm, Em, beq_bytes_refl. cbn [negb].
  rewrite Hn. subst T5 T4. reflexivity.
Qed.

(* ------------------------------------------------------------------ complete unmodified runs *)
(* Discoverable mode. All five messages are produced by the writers and read by the readers, with
   the secrets related as X25519 / ML-KEM / the cookie AEAD relate them (the dh_*, kem_*, cookie_ok
   premises). Then every reader accepts, and client and server end in the SAME transcript, with
   the same session id: so deriveFinalKeys gives both the same key pair. *)
Theorem discoverable_run_agrees : forall O X
    kpub ekid epub_c ce cs cleaf cinter polc snib name              (* client *)
    ck ip port ct k cookie es epub_s ss sleaf sinter pols sid      (* server *)
    spk cpk
    mch Tch msh Tsh mack Tack Tsa msa Tca mca,
  duplex_ok O ->
  len kpub = KemKeyLen -> len ct = KemCtLen -> len cookie = PQCookieLen -> len k = PQSharedSecretLen ->
  len epub_c = DHLen -> len epub_s = DHLen -> len snib = SNILen -> len sid = SessionIDLen ->
  0 < len cleaf -> len cleaf < 65536 -> len cinter < 65536 -> enc_certs_len cleaf cinter < 65536 ->
  len sleaf < 65536 -> len sinter < 65536 -> enc_certs_len sleaf sinter < 65536 ->
  x_kemparse X kpub = Some kpub ->
  x_decaps X ekid ct = Some k ->                                    (* kem_correct *)
  x_open X ck (cookie_ad X kpub ip port) cookie = Some k ->         (* cookie round trip *)
  parse_sni snib = Ok name ->
  x_dh X ce epub_s = x_dh X es epub_c ->                            (* dh_comm, ee *)
  x_dh X ce spk = x_dh X ss epub_c ->                               (* dh_comm, es *)
  x_dh X es cpk = x_dh X cs epub_s ->                               (* dh_comm, se *)
  x_policy X polc sleaf sinter = Some spk -> x_policy X pols cleaf cinter = Some cpk ->
  (* the five writers *)
  write_client_hello O (tr_start PQName) kpub = (mch, Tch) ->
  write_server_hello O Tch ct k cookie = (msh, Tsh) ->
  write_client_ack O (rekey O Tsh PQName) epub_c kpub cookie snib = (mack, Tack) ->
  write_server_auth O X Tack sid epub_s es ss epub_c sleaf sinter = (Tsa, Ok msa) ->
  write_client_auth O X Tsa sid cs epub_s cleaf cinter = (Tca, Ok mca) ->
  (* every reader accepts what was written, in the writer's transcript *)
  read_client_hello O X (tr_start PQName) mch = (Tch, Ok (len mch, kpub)) /\
  read_server_hello O X ekid Tch msh = (Tsh, Ok (len msh, cookie)) /\
  read_client_ack O X ck ip port mack =
    Ok (len mack, {| ak_tr := Tack; ak_eph := epub_c; ak_kem := kpub; ak_sni := name |}) /\
  read_server_auth O X ce polc Tack msa = (Tsa, Ok {| sa_n := len msa; sa_sid := sid; sa_eph := epub_s; sa_pk := spk |}) /\
  read_client_auth O X es pols sid Tsa mca = (Tca, Ok (len mca, cpk)).
  (* hence the client (which wrote the ClientAuth, ending in Tca) and the server (which read it,
     ending in Tca) derive their keys from the same transcript, and hold the same session id *)
Proof.
  intros. repeat split.
  - eapply proj1. eapply client_hello_agree; eauto.
  - eapply proj1. eapply server_hello_agree; eauto.
  - eapply proj1. eapply client_ack_agree; eauto.
    eapply (replay_reconstructs_transcript O X ck kpub ct k cookie ip port mch Tch msh Tsh); eauto.
  - eapply (server_auth_agree O X Tack sid epub_s es ss epub_c sleaf sinter ce polc Tsa msa spk); eauto.
  - eapply (client_auth_agree O X Tsa sid cs epub_s cleaf cinter es pols Tca mca cpk); eauto.
Qed.

(* Hidden mode: request and response. *)
Theorem hidden_run_agrees : forall O X
    kpub ekid cs cleaf cinter polc ts                               (* client *)
    c rest kid ct k pols now sid ect ek ss sleaf sinter            (* server *)
    spk cpk Treq mreq Tresp mresp,
  duplex_ok O ->
  len kpub = KemKeyLen -> len ct = KemCtLen -> len ts = TimestampLen -> len sid = SessionIDLen -> len ect = KemCtLen ->
  0 < len cleaf -> len cleaf < 65536 -> len cinter < 65536 -> enc_certs_len cleaf cinter < 65536 ->
  len sleaf < 65536 -> len sinter < 65536 -> enc_certs_len sleaf sinter < 65536 ->
  hc_kem c = Some kid -> hc_hasname c = true ->
  x_decaps X kid ct = Some k ->                                     (* kem_correct, server static key *)
  x_decaps X ekid ect = Some ek ->                                  (* kem_correct, client ephemeral key *)
  x_kemparse X kpub = Some kpub ->
  x_dh X cs spk = x_dh X ss cpk ->                                  (* dh_comm, ss *)
  x_policy X pols cleaf cinter = Some cpk -> x_policy X polc sleaf sinter = Some spk ->
  be_dec ts <= now -> now - be_dec ts <= HiddenExpiration ->
  write_request_hidden O (tr_start_hidden O) kpub ct k cleaf cinter ts = (Treq, Ok mreq) ->
  write_response_hidden O X Treq sid ect ek ss cpk sleaf sinter = (Tresp, Ok mresp) ->
  read_request_hidden O X (Some (c :: rest)) pols now [] mreq =
    (Treq, Ok {| hq_n := len mreq; hq_tr := Treq; hq_kem := kpub; hq_pk := cpk; hq_cert := c |}) /\
  read_response_hidden O X ekid cs polc Treq mresp =
    (Tresp, Ok {| sa_n := len mresp; sa_sid := sid; sa_eph := []; sa_pk := spk |}).
Proof.
  intros. repeat split.
  - eapply (request_hidden_agree O X kpub ct k cleaf cinter ts c rest kid pols now Treq mreq cpk); eauto.
  - eapply (response_hidden_agree O X Treq sid ect ek ss cpk sleaf sinter ekid cs polc Tresp mresp spk); eauto.
Qed.
