package hvxpacket

import (
	"fmt"
	"strings"

	"verifharness/hv"
)

// weights of the schedule's actions, per generator class
type weights struct {
	send, ctl, jump, next, dup, mut, refl, junk, write, sctl, cls, read, roam, ljunk int
}

var classes = map[string]weights{
	// faithful network: in-order delivery of everything, reader keeps draining
	"faithful": {send: 30, next: 40, write: 15, read: 25},
	// drops, duplicates, reordering within and beyond the 448 window
	"dup-reorder": {send: 30, jump: 6, next: 10, dup: 40, read: 15, write: 4},
	// one-bit changes in every region of authentic datagrams
	"bitflip": {send: 20, next: 12, mut: 50, read: 10, write: 4},
	// reflection to the sender, cross-session, cross-direction and foreign-key injection
	"reflect-cross": {send: 15, next: 10, refl: 45, write: 20, sctl: 5, read: 8},
	// authentic close / bad control bodies, forged control, local close
	"control": {send: 15, ctl: 12, next: 25, dup: 8, mut: 15, junk: 10, cls: 3, read: 10, write: 8, sctl: 4},
	// roaming: genuine packets from changing addresses, forged/replayed ones from other addresses, sends in between
	"roam": {send: 25, next: 30, dup: 10, mut: 15, junk: 5, write: 25, read: 8, roam: 12},
	// byte-exact class: the Coq checker runs the Kravatte-SANSE model itself (no AEAD oracle inputs);
	// both directions, tampered copies, control, roaming; few packets per case
	"byte-exact": {send: 22, ctl: 3, next: 22, dup: 8, mut: 16, refl: 6, junk: 4, write: 18, sctl: 2, read: 8, roam: 4},
	// the endpoint's real receive loop runs (Serve / listen): everything of "mixed" plus what only the loop decides
	// about (message-type dispatch, length guards, datagrams longer than the receive buffer)
	"loop-mixed": {send: 20, ctl: 3, jump: 2, next: 18, dup: 10, mut: 14, refl: 6, junk: 6, ljunk: 24, write: 8, sctl: 2, cls: 1, read: 10, roam: 4},
	"loop-roam":  {send: 22, next: 28, dup: 10, mut: 12, junk: 4, ljunk: 18, write: 22, read: 8, roam: 12},
	// everything
	"mixed": {send: 22, ctl: 3, jump: 3, next: 18, dup: 12, mut: 18, refl: 8, junk: 6, write: 10, sctl: 2, cls: 1, read: 12, roam: 5},
}

// payload sizes of the byte-exact class: around the 200-byte Kravatte block, and the empty message
var exactSizes = []int{0, 1, 2, 16, 17, 31, 100, 199, 200, 201, 300}

var msgSizes = []int{0, 0, 1, 1, 2, 3, 7, 8, 9, 15, 16, 17, 31, 32, 33, 47, 48, 49, 64}

// regions of a datagram for bit flips
func flipIn(r *hv.Rand, b []byte, region string) []byte {
	o := append([]byte(nil), b...)
	lo, hi := 0, len(o)
	switch region {
	case "type":
		lo, hi = 0, 1
	case "reserved":
		lo, hi = 1, 4
	case "sid":
		lo, hi = 4, 8
	case "counter":
		lo, hi = 8, 16
	case "body":
		lo, hi = 16, len(o)-32
	case "tag":
		lo, hi = len(o)-32, len(o)
	}
	if hi > len(o) {
		hi = len(o)
	}
	if lo >= hi {
		lo, hi = len(o)-32, len(o)
		region = "tag"
	}
	i := lo + r.Intn(hi-lo)
	o[i] ^= 1 << uint(r.Intn(8))
	return o
}

// mutate returns an altered copy of an authentic datagram and a label.
func (s *sim) mutate(d *dg) ([]byte, string) {
	r := s.r
	b := d.b
	switch r.Intn(12) {
	case 0, 1, 2, 3, 4, 5:
		reg := hv.Pick(r, []string{"type", "reserved", "sid", "counter", "body", "tag"})
		return flipIn(r, b, reg), "flip-" + reg + "(" + d.name + ")"
	case 6: // transport <-> control
		o := append([]byte(nil), b...)
		o[0] ^= 0x90
		return o, "swap-type(" + d.name + ")"
	case 7: // every truncation length is reachable; boundaries favoured
		ls := []int{0, 1, 3, 4, 7, 8, 9, 15, 16, 17, 47, 48, len(b) - 33, len(b) - 32, len(b) - 1}
		l := hv.Pick(r, ls)
		if r.Bool() || l < 0 || l >= len(b) {
			l = r.Intn(len(b))
		}
		return append([]byte(nil), b[:l]...), fmt.Sprintf("truncate-%d(%s)", l, d.name)
	case 8:
		k := 1 + r.Intn(40)
		return append(append([]byte(nil), b...), r.Bytes(k)...), fmt.Sprintf("extend+%d(%s)", k, d.name)
	case 9: // old tag under a fresh counter
		o := append([]byte(nil), b...)
		c := d.ctr + uint64(1+r.Intn(600))
		for i := 0; i < 8; i++ {
			o[8+i] = byte(c >> (56 - 8*uint(i)))
		}
		return o, fmt.Sprintf("recount-%d(%s)", c, d.name)
	case 10: // rewrite the session id to another live one
		o := append([]byte(nil), b...)
		t := s.fs[r.Intn(len(s.fs))].spec.sid
		copy(o[4:8], t[:])
		return o, "resid(" + d.name + ")"
	default: // reserved byte set, everything else intact
		o := append([]byte(nil), b...)
		o[1+r.Intn(3)] = byte(1 + r.Intn(255))
		return o, "reserved-set(" + d.name + ")"
	}
}

// junk builds a datagram from nothing but public knowledge (live session id, plausible counter).
func (s *sim) junk() ([]byte, string) {
	r := s.r
	f := s.fs[r.Intn(len(s.fs))]
	l := hv.Pick(r, []int{0, 1, 3, 4, 7, 8, 9, 15, 16, 17, 40, 47, 48, 49, 60, 80})
	b := r.Bytes(l)
	if l >= 1 {
		b[0] = hv.Pick(r, []byte{0x10, 0x10, 0x80, 0x80, 0x01, 0x00, 0xff})
	}
	if l >= 4 && r.Chance(80) {
		b[1], b[2], b[3] = 0, 0, 0
	}
	if l >= 8 && r.Chance(85) {
		copy(b[4:8], f.spec.sid[:])
	}
	if l >= 16 {
		c := f.top + uint64(r.Intn(3))
		for i := 0; i < 8; i++ {
			b[8+i] = byte(c >> (56 - 8*uint(i)))
		}
	}
	if l >= 48 && r.Chance(35) { // sealed for real under a key anybody can guess (all-zero / all-ones): live id, fresh counter
		var k [16]byte
		if r.Bool() {
			for i := range k {
				k[i] = 0xff
			}
		}
		mt := hv.Pick(r, []byte{0x80, 0x10})
		h := header(mt, f.spec.sid, f.top+uint64(1+r.Intn(500)))
		return append(h, sealDirect(k, h, []byte{1})...), "junk-guessable-key"
	}
	if l == 49 && r.Bool() { // a forged close: right shape, live id, fresh counter, no key
		b[0] = 0x80
		b[16] = 1
	}
	return b, fmt.Sprintf("junk-%d", l)
}

func runCase(r *hv.Rand, prop, class string, idx int) {
	s := newSimL(r, prop, class, -1, strings.HasPrefix(class, "loop-"))
	w := classes[class]
	sizes := msgSizes
	if class == "byte-exact" {
		s.exact = true
		sizes = exactSizes
	}
	total := w.send + w.ctl + w.jump + w.next + w.dup + w.mut + w.refl + w.junk + w.write + w.sctl + w.cls + w.read + w.roam + w.ljunk
	next := make([]int, len(s.fs)) // per session: index into its in-order list
	inorder := func(i int) []*dg {
		var l []*dg
		for _, d := range s.pool {
			if d.sess == i && d.toFocus {
				l = append(l, d)
			}
		}
		return l
	}
	home := make([]uint64, len(s.fs)) // where the honest peer currently sends from
	for i, f := range s.fs {
		home[i] = f.spec.remote
	}
	other := func(a uint64) uint64 {
		for {
			if b := uint64(r.Intn(5)); b != a {
				return b
			}
		}
	}
	src := func(i int, genuine bool) uint64 {
		if class == "roam" || class == "mixed" {
			if genuine {
				return home[i]
			}
			if r.Chance(75) {
				return other(home[i])
			}
			return home[i]
		}
		if r.Chance(85) {
			return home[i]
		}
		return uint64(r.Intn(5))
	}
	// a few messages up front so the adversary has material
	for i := range s.fs {
		for k := 0; k < 1+r.Intn(3); k++ {
			s.peerSend(i, s.msg(hv.Pick(r, sizes)))
		}
	}
	steps := 10 + r.Intn(hv.Scale(16, 40))
	if s.exact {
		steps = 8 + r.Intn(8)
	}
	for st := 0; st < steps; st++ {
		i := r.Intn(len(s.fs))
		x := r.Intn(total)
		pick := func(wt int) bool {
			if x < wt {
				x = 1 << 30
				return true
			}
			x -= wt
			return false
		}
		switch {
		case pick(w.send):
			sz := hv.Pick(r, sizes)
			if class == "faithful" && r.Chance(5) {
				sz = hv.Pick(r, []int{200, 1000})
			}
			s.peerSend(i, s.msg(sz))
		case pick(w.ctl):
			s.peerCtl(i, hv.Pick(r, [][]byte{{1}, {1}, {1}, {}, {2}, {0}, {1, 1}, {1, 0}}))
		case pick(w.jump):
			s.peerJump(i, hv.Pick(r, []uint64{1, 63, 64, 447, 448, 449, 512, 600, 5000}))
			s.peerSend(i, s.msg(hv.Pick(r, sizes)))
		case pick(w.next):
			l := inorder(i)
			if next[i] < len(l) {
				d := l[next[i]]
				next[i]++
				s.feed(d.b, src(i, true), d.name)
			}
		case pick(w.dup):
			l := inorder(i)
			if len(l) > 0 {
				d := l[r.Intn(len(l))]
				if r.Chance(40) && next[i] < len(l) { // deliver out of order: skip ahead
					k := next[i] + r.Intn(len(l)-next[i])
					d = l[k]
				}
				// a copy of a genuine datagram may be sent by anybody from anywhere
				s.feed(d.b, src(i, r.Chance(40)), "copy:"+d.name)
			}
		case pick(w.mut):
			l := inorder(i)
			if len(l) > 0 {
				d := l[r.Intn(len(l))]
				if r.Chance(50) && next[i] < len(l) {
					d = l[next[i]] // not yet delivered: the forgery arrives before the original
				}
				b, lab := s.mutate(d)
				s.feed(b, src(i, false), lab)
			}
		case pick(w.refl):
			// anything honest that is NOT peer->focus on this session: own datagrams, foreign sessions,
			// and (server focus) the other session's traffic with this session's id
			var l []*dg
			for _, d := range s.pool {
				if !d.toFocus || d.sess < 0 {
					l = append(l, d)
				}
			}
			if len(l) > 0 {
				d := l[r.Intn(len(l))]
				if r.Chance(25) {
					b, lab := s.mutate(d)
					s.feed(b, src(i, false), lab)
				} else {
					s.feed(d.b, src(i, false), "inject:"+d.name)
				}
			}
		case pick(w.junk):
			b, lab := s.junk()
			s.feed(b, src(i, false), lab)
		case pick(w.ljunk):
			b, pad, from, lab := s.loopJunk(i)
			s.feedX(b, pad, from, lab)
		case pick(w.write):
			k := kWM
			if r.Bool() {
				k = kWR
			}
			s.write(k, i, 0x10, s.msg(hv.Pick(r, sizes)))
		case pick(w.sctl):
			s.write(kSD, i, 0x80, hv.Pick(r, [][]byte{{1}, {}, {2}}))
		case pick(w.cls):
			s.closeSess(i)
		case pick(w.read):
			if s.msgMode {
				n := 70000
				if r.Chance(25) {
					n = hv.Pick(r, []int{0, 1, 2, 8, 16, 32})
				}
				s.read(true, i, n)
			} else {
				s.read(r.Chance(30), i, hv.Pick(r, []int{0, 1, 2, 3, 5, 16, 40, 70000}))
			}
		case pick(w.roam):
			home[i] = other(home[i])
			s.desc = append(s.desc, fmt.Sprintf("peer%d roams to a%d", i, home[i]))
			// the roamed peer speaks from its new address
			s.peerSend(i, s.msg(hv.Pick(r, sizes)))
			l := inorder(i)
			d := l[len(l)-1]
			if next[i] == len(l)-1 {
				next[i]++
			}
			s.feed(d.b, home[i], d.name)
			if r.Chance(60) {
				s.write(kWM, i, 0x10, s.msg(hv.Pick(r, sizes)))
			}
		}
	}
	s.finish()
	if s.loop {
		s.stopLoop()
	}
	s.emit(idx)
}

// Run is the main of both drivers.
func Run(prop string) {
	defer hv.Flush()
	defer func() {
		m := map[string]interface{}{}
		for k, v := range feedStats {
			m[k] = fmt.Sprintf("nil=%d err=%d panic=%d", v[0], v[1], v[2])
		}
		hv.Info(map[string]interface{}{"datagrams_fed_by_kind": m})
	}()
	quiet()
	r := hv.NewRand(hv.Seed() ^ 0xC03)
	idx := 0
	if prop == "C03" {
		regressions(r)
		endToEnd(r)
		bigWrites(r)
		readPacketCases(r)
		concurrentWriters(r)
		for k := 0; k < hv.Scale(36, 400); k++ {
			runCase(r, prop, "byte-exact", idx)
			idx++
		}
		order := []string{"faithful", "dup-reorder", "bitflip", "reflect-cross", "control", "mixed"}
		n := hv.Scale(600, 12000)
		for k := 0; k < n; k++ {
			runCase(r, prop, order[k%len(order)], idx)
			idx++
		}
		for k := 0; k < hv.Scale(150, 3000); k++ {
			runCase(r, prop, "loop-mixed", idx)
			idx++
		}
		sizeConstants()
	} else {
		r = hv.NewRand(hv.Seed() ^ 0xC15)
		roamUDP(r)
		for k := 0; k < hv.Scale(10, 100); k++ {
			runCase(r, prop, "byte-exact", idx)
			idx++
		}
		order := []string{"roam", "roam", "mixed", "control", "dup-reorder"}
		n := hv.Scale(400, 8000)
		for k := 0; k < n; k++ {
			runCase(r, prop, order[k%len(order)], idx)
			idx++
		}
		for k := 0; k < hv.Scale(80, 1500); k++ {
			runCase(r, prop, "loop-roam", idx)
			idx++
		}
	}
}
