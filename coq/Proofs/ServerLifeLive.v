(* ServerLifeLive.v — deadlock freedom of the transport.Server lifecycle system: once some Close
   has been elected, a state in which no progress transition is enabled (handshake arrivals and
   cookie timer ticks aside) has every call of every goroutine returned and both worker goroutines
   ended. *)
From Hop Require Import Base ConcBase ConcUtil ServerLife ServerLifeProofs.
From Coq Require Import Lia Arith.
Local Open Scope nat_scope.

Lemma gcnt_all_false (p : vthread -> bool) l : Forall (fun t => p t = false) l -> gcnt p l = 0.
Proof. induction 1; simpl; auto. rewrite H. simpl. exact IHForall. Qed.

Lemma Forall_true_nth l h : Forall (fun b : bool => b = true) l -> nth h l true = true.
Proof. intros H; revert h; induction H; intros [|h]; simpl; auto. Qed.

Lemma quiescent_threads x : vpanic (vshd x) = false -> vquiescent x ->
  Forall (fun t => vtstep false (vshd x) t = None) (vths x).
Proof.
  intros Hp Q. apply Forall_forall. intros t Hin. apply In_nth_error in Hin. destruct Hin as [i Hi].
  specialize (Q (VT i false) eq_refl). unfold vstep in Q. rewrite Hp, Hi in Q.
  destruct (vtstep false (vshd x) t) as [[s' t']|]; [discriminate|reflexivity].
Qed.

(* the program points that are never blocked *)
Lemma blocked_pc s t : vtstep false s t = None ->
  match vpcv t with
  | VIdle => vprog t = []
  | V_wgwait | V_xwg => vwg s <> 0
  | V_waitdone | V_xwaitdone => vclose_done s = false
  | V_aloop | V_asel => pend s = [] /\ pend_closed s = false
  | V_read h => hcl s h = false
  | _ => False
  end.
Proof.
  unfold vtstep. destruct (vpcv t); try discriminate.
  - destruct (vprog t) as [|[ | | | | | | ] pg]; auto; try discriminate.
    + destruct (vst s); discriminate.
    + destruct (closing (vst s)); discriminate.
    + destruct (hcl s h); discriminate.
  - destruct (vwg s); [discriminate|intros _; discriminate].
  - destruct (vclose_done s); [discriminate|reflexivity].
  - destruct (vwg s); [discriminate|intros _; discriminate].
  - destruct (vclose_done s); [discriminate|reflexivity].
  - destruct (pend s); [|discriminate]. destruct (pend_closed s); [discriminate|auto].
  - destruct (pend s); [|discriminate]. destruct (pend_closed s); [discriminate|auto].
  - destruct (hcl s h); [discriminate|reflexivity].
  - destruct (vconn_closed s); discriminate.
Qed.

Theorem close_releases_everyone x :
  VInv x -> closing (vst (vshd x)) = true -> vquiescent x ->
  Forall (fun t => vfinished t = true) (vths x) /\
  vclose_done (vshd x) = true /\ vwg (vshd x) = 0 /\
  rdn (rdp (vshd x)) = 0 /\ ckn (ckp (vshd x)) = 0 /\
  vconn_closed (vshd x) = true /\ vstop_closed (vshd x) = true /\ pend_closed (vshd x) = true /\
  Forall (fun b => b = true) (hclosed (vshd x)).
Proof.
  intros I Hc Q.
  pose proof (quiescent_threads x (b0 x I) Q) as QT.
  assert (QB : Forall (fun t => match vpcv t with
                                | VIdle => vprog t = []
                                | V_wgwait | V_xwg => vwg (vshd x) <> 0
                                | V_waitdone | V_xwaitdone => vclose_done (vshd x) = false
                                | V_aloop | V_asel => pend (vshd x) = [] /\ pend_closed (vshd x) = false
                                | V_read h => hcl (vshd x) h = false
                                | _ => False
                                end) (vths x)).
  { eapply Forall_impl; [|exact QT]. intros t. apply blocked_pc. }
  clear QT.
  pose proof (Q VReader eq_refl) as QR. pose proof (Q VCookie eq_refl) as QC.
  destruct I as [B0 [B1 B1'] B2 B3 B4 [B5 B5'] B6 B7 B8 B9 B11 [B12 B12'] B13 B14].
  destruct x as [s l]. simpl in *. unfold vstep in QR, QC. simpl in QR, QC. rewrite B0 in QR, QC.
  rewrite Hc in *. simpl in *.
  (* nobody is before the socket close / the stop signal *)
  assert (Z2 : gcnt prestop l = 0).
  { apply gcnt_all_false. eapply Forall_impl; [|exact QB]. intros t. unfold prestop. destruct (vpcv t); tauto. }
  assert (Z1 : gcnt preconn l = 0).
  { pose proof (gcnt_sub preconn prestop l) as S. assert (gcnt preconn l <= gcnt prestop l); [|lia].
    apply S. intros t. unfold preconn, prestop. destruct (vpcv t); auto. }
  assert (Hcc : vconn_closed s = true).
  { rewrite B5. assert (vconn_closes s = 1) by lia. rewrite H. reflexivity. }
  assert (Hsc : vstop_closed s = true).
  { destruct (vstop_closed s); auto. simpl in B6. lia. }
  (* so both worker goroutines have ended *)
  assert (Hrd : rdn (rdp s) = 0).
  { destruct (rdp s); simpl; auto.
    - destruct (vst s); discriminate.
    - rewrite Hcc in QR. discriminate. }
  assert (Hck : ckn (ckp s) = 0).
  { destruct (ckp s); simpl; auto.
    - destruct (vst s); discriminate.
    - rewrite Hsc in QC. discriminate. }
  assert (Hwg : vwg s = 0) by lia.
  (* hence nobody is inside Close any more *)
  assert (Zc : gcnt closerA l = 0).
  { apply gcnt_all_false. eapply Forall_impl; [|exact QB]. intros t. unfold closerA. destruct (vpcv t); try tauto. }
  assert (Hcd : vclose_done s = true).
  { destruct (vclose_done s); auto. simpl in B2. lia. }
  assert (Z4 : gcnt prepend l = 0).
  { pose proof (gcnt_sub prepend closerA l sub4). lia. }
  assert (Z5 : gcnt prehandles l = 0).
  { pose proof (gcnt_sub prehandles closerA l sub5). lia. }
  assert (Hpc : pend_closed s = true).
  { destruct (pend_closed s); auto. simpl in B7. lia. }
  assert (Hh : Forall (fun b => b = true) (hclosed s)).
  { destruct (B11 eq_refl) as [H|H]; [lia|exact H]. }
  repeat split; auto.
  eapply Forall_impl; [|exact QB]. intros t. unfold vfinished.
  destruct (vpcv t); try tauto; try congruence.
  - intros ->. reflexivity.
  - intros [_ H]. congruence.
  - intros [_ H]. congruence.
  - unfold hcl. rewrite Forall_true_nth; [discriminate|exact Hh].
Qed.
