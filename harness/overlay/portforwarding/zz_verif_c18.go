//go:build verif

package portforwarding

import (
	"io"
	"net"
)

// VerifToBytes = toBytes
func VerifToBytes(a net.Addr, fwdType int) []byte { return toBytes(a, fwdType) }

// VerifReadPacket = readPacket
func VerifReadPacket(r io.Reader) (net.Addr, byte, error) { return readPacket(r) }
