(* C05 — user login is granted only by a listed key or a live grant, failing closed.
   Model: Model/Authz.v (the code after `fix: AuthorizeKey must fail closed ...`); proofs: Proofs/AuthzProofs.v.
   Every theorem is for all line parsers `parse` (keys.ParseDHPublicKey is an oracle) and all
   histories `ops` of SetFile / Enable / AddGrant / Login / direct API calls / session requests. *)
From Hop Require Import Base Authz AuthzProofs.
Open Scope N_scope.

(* Every accepted login (and every positive answer of AuthorizeKey / AuthorizeKeyAuthGrant) in
   every history is justified by the history before it: the key is a well-formed entry of that
   user's file as it is at that moment, or grants are enabled and the session receives exactly the
   non-empty list of grants stored for exactly that user and key and not handed out before. *)
Theorem c05_login_sound : forall parse ops, all_justified (login_justified parse) (trace parse ops).
Proof. exact login_sound. Qed.
Print Assumptions c05_login_sound.

(* the same, position by position *)
Theorem c05_login_sound_at : forall parse ops pre e post,
    trace parse ops = pre ++ e :: post -> login_justified parse pre e.
Proof. exact login_sound_at. Qed.
Print Assumptions c05_login_sound_at.

(* AuthorizeKey answers yes only for a readable file that parses completely and lists the key *)
Theorem c05_fail_closed : forall parse st u k,
    authorize_key parse st u k = true ->
    exists c ks, file_of st u = FFile c /\ parse_authorized_keys parse c = Ok ks /\ In k ks /\ In k (wf_entries parse c).
Proof. exact fail_closed. Qed.
Print Assumptions c05_fail_closed.

(* unknown user, missing file, unreadable file, file without a well-formed entry (empty, blank),
   file that does not parse, file with a malformed line: every key is refused *)
Theorem c05_fail_closed_cases : forall parse st u k,
    (file_of st u = FNoUser \/ file_of st u = FMissing \/ file_of st u = FDir \/
     (exists c, file_of st u = FFile c /\
                (wf_entries parse c = [] \/ parse_authorized_keys parse c = Err \/
                 exists pre l post, split_nl c = pre ++ l :: post /\
                                    Forall (fun x => len x < max_token) pre /\ bad_line parse l))) ->
    authorize_key parse st u k = false.
Proof. exact fail_closed_cases. Qed.
Print Assumptions c05_fail_closed_cases.

(* a grant login consumes: afterwards the map has no entry for u:k, the key is out of the
   transport key set, and the history has no unconsumed grant for u:k *)
Theorem c05_grant_consumed : forall parse ops u k st' sid ags,
    step parse (final parse ops) (OLogin u k) = (st', [EvLogin sid u k (ViaGrant ags)]) ->
    ag_lookup (st_agmap st') (u, k) = None /\ key_mem (st_keys st') k = false /\
    unconsumed (trace parse ops ++ [EvLogin sid u k (ViaGrant ags)]) u k = [].
Proof. exact grant_consumed_login. Qed.
Print Assumptions c05_grant_consumed.

Theorem c05_grant_consumed_api : forall parse ops u k st' ags,
    step parse (final parse ops) (OApiGrant u k) = (st', [EvApiGrant u k (Some ags)]) ->
    ag_lookup (st_agmap st') (u, k) = None /\ key_mem (st_keys st') k = false /\
    unconsumed (trace parse ops ++ [EvApiGrant u k (Some ags)]) u k = [].
Proof. exact grant_consumed_api. Qed.
Print Assumptions c05_grant_consumed_api.

(* the code's grant map is, after every history, exactly the declarative `unconsumed` of the trace *)
Theorem c05_agmap_is_unconsumed : forall parse ops u k,
    match ag_lookup (st_agmap (final parse ops)) (u, k) with Some l => l | None => [] end
    = unconsumed (trace parse ops) u k.
Proof. exact agmap_refines. Qed.
Print Assumptions c05_agmap_is_unconsumed.

(* `unconsumed` means what it says: only grants stored after the last hand-out for u:k count,
   and each of them was stored for exactly u:k *)
Theorem c05_unconsumed_after_handout : forall a h b u k,
    (exists sid ags, h = EvLogin sid u k (ViaGrant ags)) \/ (exists ags, h = EvApiGrant u k (Some ags)) ->
    unconsumed (a ++ h :: b) u k = unconsumed b u k.
Proof. exact unconsumed_after_handout. Qed.
Print Assumptions c05_unconsumed_after_handout.

Theorem c05_unconsumed_exact_user_key : forall tr u k g, In g (unconsumed tr u k) -> In (EvAdded g u k) tr.
Proof. exact unconsumed_added. Qed.
Print Assumptions c05_unconsumed_exact_user_key.

(* with authorization grants disabled nobody is ever admitted through a grant *)
Theorem c05_disabled_never_grants : forall parse ops pre e post,
    trace parse ops = pre ++ e :: post -> enabled_at pre = false ->
    match e with
    | EvLogin _ _ _ (ViaGrant _) => False
    | EvApiGrant _ _ (Some _) => False
    | _ => True
    end.
Proof. exact disabled_never_grants. Qed.
Print Assumptions c05_disabled_never_grants.

(* ---- non-vacuity: a toy parser (a one-byte line is the key with that code) and a history in which
   every kind of event occurs ---- *)
Definition toy_parse (l : bytes) : option key := match l with [b] => Some b | _ => None end.
Definition alice : user := [97].
Definition bob : user := [98].
Definition ex_ops : list op :=
  [ OSetFile alice (FFile [32; 65; 13; 10; 10; 66]);        (* " A\r\n\nB" : keys 65 and 66 *)
    OSetFile bob (FFile [65; 10; 35; 35; 10]);               (* "A\n##\n" : second line malformed *)
    OLogin alice 66; OLogin alice 67; OLogin bob 65;
    OAddGrant (Some (mkIntent 2 0 10 bob 65 [108; 115]));    (* refused: disabled *)
    OEnable true;
    OAddGrant (Some (mkIntent 2 0 10 bob 65 [108; 115]));
    OLogin alice 65; OLogin bob 66; OLogin bob 65; OLogin bob 65 ].
Example c05_example_trace :
  trace toy_parse ex_ops =
  [ EvSetFile alice (FFile [32; 65; 13; 10; 10; 66]); EvSetFile bob (FFile [65; 10; 35; 35; 10]);
    EvLogin 0 alice 66 ViaFile; EvDenied alice 67; EvDenied bob 65;
    EvAddRefused; EvEnable true; EvAdded (mkGrant 0 2 0 10 [108; 115] no_session) bob 65;
    EvLogin 1 alice 65 ViaFile; EvDenied bob 66;
    EvLogin 2 bob 65 (ViaGrant [mkGrant 0 2 0 10 [108; 115] no_session]); EvDenied bob 65 ].
Proof. vm_compute. reflexivity. Qed.
Example c05_example_entries : wf_entries toy_parse [32; 65; 13; 10; 10; 66] = [65; 66].
Proof. vm_compute. reflexivity. Qed.
(* the premise of the malformed-line case of c05_fail_closed_cases is satisfiable *)
Example c05_example_bad_line :
  split_nl [65; 10; 35; 35; 10] = [[65]] ++ [35; 35] :: [] /\
  Forall (fun x => len x < max_token) [[65]] /\ bad_line toy_parse [35; 35].
Proof. repeat split; try (vm_compute; reflexivity); try (intro H; discriminate H). repeat constructor. Qed.
(* regression of the defect fixed in hop-go: a listed key next to an unparsable line used to
   authorise every key of that user; now neither the stranger nor the listed key gets in *)
Example c05_regression_fail_open :
  trace toy_parse [OSetFile alice (FFile [65; 10; 35; 35; 10]); OLogin alice 66; OLogin alice 65]
  = [EvSetFile alice (FFile [65; 10; 35; 35; 10]); EvDenied alice 66; EvDenied alice 65].
Proof. vm_compute. reflexivity. Qed.

(* what "a line of the file" means in wf_entries: the '\n'-separated segments, nothing else *)
Theorem c05_lines_are_the_newline_separated_segments : forall c,
    (exists suffix, (suffix = [] \/ suffix = [10]) /\ join_nl (split_nl c) = c ++ suffix) /\
    Forall (fun x => ~ In 10 x) (split_nl c).
Proof. exact split_nl_spec. Qed.
Print Assumptions c05_lines_are_the_newline_separated_segments.

(* ==========================================================================================
   Logins racing with each other and with grant additions (Model/LoginRace.v,
   Proofs/LoginRaceProofs.v): every connection runs checkAuthorization on its own goroutine, a
   principal's session stores grants on another.  One transition per critical section of
   AuthgrantMapSync / SyncAuthKeySet.  All theorems: every set of goroutines, every schedule.
   ========================================================================================== *)
From Hop Require Import ConcBase LoginRace LoginRaceProofs.

(* a login only ever receives grants that were stored for exactly its user and its key ... *)
Theorem c05_concurrent_login_key_bound : forall progs x i u k c g, lreachable progs x ->
  nth_error (lths x) i = Some (LLogin u k, c) -> In g (got_of (LLogin u k, c)) ->
  In (LAdd u k g) progs.
Proof. exact login_key_bound. Qed.
Print Assumptions c05_concurrent_login_key_bound.

(* ... and whatever the map holds under user:key was stored for exactly that user and key *)
Theorem c05_concurrent_stored_key_bound : forall progs x u k l g, lreachable progs x ->
  ag_lookup (l_map (lshd x)) (u, k) = Some l -> In g l -> In (LAdd u k g) progs.
Proof. exact map_key_bound. Qed.
Print Assumptions c05_concurrent_stored_key_bound.

(* unconsumed means unconsumed: RemoveAuthgrants is one critical section, so in every reachable
   state every stored grant is in exactly one place - the map, or the hands of exactly one login,
   once.  Two logins racing for the same user:key can never both be admitted with the same grant. *)
Theorem c05_concurrent_login_exclusive : forall progs x, lreachable progs x ->
  NoDup (map g_id (flat_map adds_of progs)) ->
  NoDup (map g_id (flat_map got_of (lths x) ++ map_grants (l_map (lshd x)))).
Proof. exact login_exclusive. Qed.
Print Assumptions c05_concurrent_login_exclusive.

Theorem c05_concurrent_logins_disjoint : forall progs x i j ti tj a b, lreachable progs x ->
  NoDup (map g_id (flat_map adds_of progs)) -> i <> j ->
  nth_error (lths x) i = Some ti -> nth_error (lths x) j = Some tj ->
  In a (got_of ti) -> In b (got_of tj) -> g_id a <> g_id b.
Proof. exact login_pairwise_disjoint. Qed.
Print Assumptions c05_concurrent_logins_disjoint.

(* non-vacuity: two grants stored for alice:7, then two logins of alice:7 race: whichever takes
   the map lock first gets both grants, the other is refused *)
Definition lr_g0 : grant := mkGrant 0 2 0 100 [108; 115] no_session.
Definition lr_g1 : grant := mkGrant 1 1 0 100 [] no_session.
Definition lr_progs : list lprog := [LAdd alice 7 lr_g0; LAdd alice 7 lr_g1; LLogin alice 7; LLogin alice 7].
Example c05_concurrent_example :
  exists x, lrun (linit lr_progs) [0; 0; 1; 1; 3; 2; 3]%nat = Some x /\
            map snd (lths x) = [LDone None; LDone None; LDone None; LDone (Some [lr_g0; lr_g1])] /\
            l_map (lshd x) = [] /\ l_keys (lshd x) = [].
Proof. eexists. split; [vm_compute; reflexivity|]. vm_compute. auto. Qed.

(* What does NOT survive concurrency: sequentially the transport key set holds exactly the keys
   that have an entry in the map (c07_grants_leave_the_server_at_login).  The map and the key set
   have separate locks and AuthorizeKeyAuthGrant / AddAuthGrant touch them one after the other, so
   a login racing with an addition for the same user:key can leave (a) a stored grant whose key is
   no longer in the key set (the delegate cannot even complete the handshake: the grant is dead),
   or (b) a key in the key set without any grant (the transport layer admits the key; user
   authorization still refuses it: c05_concurrent_login_key_bound).  Both fail closed; neither is a
   violation of C05/C07 as stated.  Witnesses: *)
Theorem c05_keyset_tracks_map_under_races_refuted :
  (exists x, lrun (linit [LLogin alice 7; LAdd alice 7 lr_g1; LAdd alice 7 lr_g0]) [2; 2; 0; 1; 1; 0]%nat = Some x /\
             forallb (fun t => match snd t with LDone _ => true | _ => false end) (lths x) = true /\
             ag_lookup (l_map (lshd x)) (alice, 7) = Some [lr_g1] /\ key_mem (l_keys (lshd x)) 7 = false) /\
  (exists x, lrun (linit [LLogin alice 7; LAdd alice 7 lr_g0]) [1; 0; 0; 1]%nat = Some x /\
             forallb (fun t => match snd t with LDone _ => true | _ => false end) (lths x) = true /\
             ag_lookup (l_map (lshd x)) (alice, 7) = None /\ key_mem (l_keys (lshd x)) 7 = true).
Proof.
  split; (eexists; split; [vm_compute; reflexivity|]; vm_compute; auto).
Qed.
Print Assumptions c05_keyset_tracks_map_under_races_refuted.
