(* Shared correspondence machinery for C05 and C07: a case is a parse table (what
   keys.ParseDHPublicKey answered on every trimmed non-blank line of the case), a history of
   operations, and what the real HopServer / hopSession did on each of them, plus a final probe
   of the grant map and key set.  The checker runs the model and compares the projections. *)
From Hop Require Import Base Authz.
Open Scope N_scope.

Definition gview := (N * Z * Z * bytes * N)%type.      (* type, start, exp, cmd, principal *)
Definition gv (g : grant) : gview := (g_type g, g_start g, g_exp g, g_cmd g, g_prin g).

Inductive oview :=
| VNone
| VBool (b : bool)                                     (* AddAuthGrant stored / AuthorizeKey = nil *)
| VGrants (r : option (list gview))                    (* AuthorizeKeyAuthGrant *)
| VLogin (ok viagrant : bool) (acts : list gview) (entry_after key_after : bool)
| VExec (started : bool) (prin : N) (remaining : list gview)   (* exec request in a grant session *)
| VStarted (b : bool)                                  (* exec in a key session / PF / intent *)
| VHandler (h : N).                                    (* which branch of the tube switch *)

Definition handler_code (h : handler) : N :=
  match h with HCodex => 0 | HAcmeNoop => 1 | HAgc => 2 | HStartPF => 3 | HHandlePF => 4 | HSize => 5 | HClose => 6 end.

Definition gview_eqb (a b : gview) : bool :=
  match a, b with
  | (t1, s1, e1, c1, p1), (t2, s2, e2, c2, p2) =>
      (t1 =? t2) && (s1 =? s2)%Z && (e1 =? e2)%Z && beq_bytes c1 c2 && (p1 =? p2)
  end.
Definition gviews_eqb := beq_list gview_eqb.

Definition oview_eqb (a b : oview) : bool :=
  match a, b with
  | VNone, VNone => true
  | VBool x, VBool y => Bool.eqb x y
  | VGrants None, VGrants None => true
  | VGrants (Some x), VGrants (Some y) => gviews_eqb x y
  | VLogin o1 u1 a1 e1 k1, VLogin o2 u2 a2 e2 k2 =>
      Bool.eqb o1 o2 && Bool.eqb u1 u2 && gviews_eqb a1 a2 && Bool.eqb e1 e2 && Bool.eqb k1 k2
  | VExec s1 p1 r1, VExec s2 p2 r2 => Bool.eqb s1 s2 && (p1 =? p2) && gviews_eqb r1 r2
  | VStarted x, VStarted y => Bool.eqb x y
  | VHandler x, VHandler y => x =? y
  | _, _ => false
  end.

Definition grants_of (st : state) (u : user) (k : key) : list grant :=
  match ag_lookup (st_agmap st) (u, k) with Some l => l | None => [] end.
Definition has_entry (st : state) (u : user) (k : key) : bool :=
  match ag_lookup (st_agmap st) (u, k) with Some _ => true | None => false end.

Definition remaining_of (st : state) (sid : N) : list gview :=
  match nth_sess (st_sess st) sid with Some s => map gv (s_actions s) | None => [] end.

(* projection of what the model did on one operation *)
Definition view_of (o : op) (st' : state) (evs : list event) : oview :=
  match o, evs with
  | OSetFile _ _, _ => VNone
  | OEnable _, _ => VNone
  | OAddGrant _, [EvAdded _ _ _] => VBool true
  | OAddGrant _, _ => VBool false
  | OApiKey _ _, [EvApiKey _ _ ok] => VBool ok
  | OApiGrant _ _, [EvApiGrant _ _ r] => VGrants (option_map (map gv) r)
  | OLogin u k, [EvLogin _ _ _ ViaFile] => VLogin true false [] (has_entry st' u k) (key_mem (st_keys st') k)
  | OLogin u k, [EvLogin _ _ _ (ViaGrant ags)] => VLogin true true (map gv ags) (has_entry st' u k) (key_mem (st_keys st') k)
  | OLogin u k, _ => VLogin false false [] (has_entry st' u k) (key_mem (st_keys st') k)
  | OExec sid _ _ _, [EvStart _ _ _ (Some g)] => VExec true (g_prin g) (remaining_of st' sid)
  | OExec sid _ _ _, [EvStart _ _ _ None] => VStarted true
  | OExec sid _ _ _, [EvRefuse _ _ _] => VExec false 0 (remaining_of st' sid)
  | OPF _ _, [EvStart _ _ _ _] => VStarted true
  | OPF _ _, [EvRefuse _ _ _] => VStarted false
  | OIntent _ _ _ _, [EvAdded _ _ _; EvStart _ _ _ _] => VStarted true
  | OIntent _ _ _ _, [EvRefuse _ _ _] => VStarted false
  | _, [EvTube _ h] => VHandler (handler_code h)
  | _, _ => VHandler 99       (* EvNoSession: the drivers never address a session that does not exist *)
  end.

Definition tbl := list (bytes * option key).
Fixpoint tbl_parse (t : tbl) (l : bytes) : option key :=
  match t with
  | [] => None
  | (x, r) :: t' => if beq_bytes x l then r else tbl_parse t' l
  end.

Fixpoint run_views (parse : bytes -> option key) (st : state) (ops : list op) : state * list oview :=
  match ops with
  | [] => (st, [])
  | o :: r => let (st', evs) := step parse st o in
              let (st'', vs) := run_views parse st' r in
              (st'', view_of o st' evs :: vs)
  end.

(* final probe: for chosen user:key pairs, the grants still stored and whether the key is in the set *)
Definition probe := (user * key * list gview * bool)%type.
Definition probe_ok (st : state) (p : probe) : bool :=
  match p with
  | (u, k, gs, inset) => gviews_eqb (map gv (grants_of st u k)) gs && Bool.eqb (key_mem (st_keys st) k) inset
  end.

Definition authz_case := (tbl * list op * list oview * list probe)%type.
Definition authz_ok (c : authz_case) : bool :=
  match c with
  | (t, ops, views, probes) =>
      let (st, vs) := run_views (tbl_parse t) init_state ops in
      beq_list oview_eqb vs views && forallb (probe_ok st) probes
  end.

(* short constructor aliases keep the generated case files small *)
Definition FN := FNoUser.
Definition FM := FMissing.
Definition FD := FDir.
Definition FF := FFile.
Definition I := mkIntent.
Definition SF := OSetFile.
Definition EN := OEnable.
Definition AG := OAddGrant.
Definition AK := OApiKey.
Definition AR := OApiGrant.
Definition LG := OLogin.
Definition EX := OExec.
Definition PF := OPF.
Definition IT := OIntent.
Definition TB := OTube.
Definition VL := VLogin.
Definition VE := VExec.
Definition VS := VStarted.
Definition VB := VBool.
Definition VG := VGrants.
Definition VH := VHandler.
Definition VN := VNone.

(* compact byte-string terms: printable ASCII text, runs, concatenation *)
Fixpoint tx (x : string) : bytes :=
  match x with EmptyString => [] | String a r => N_of_ascii a :: tx r end.
Definition rep (n b : N) : bytes := repeat b (N.to_nat n).
Definition cat (l : list bytes) : bytes := List.concat l.
