(* Correspondence entry points for C03: see Corr/PacketCorr.v (c03_ok, c03x_ok, c03w_ok, c03rp_ok) and
   Corr/RecvLoopCorr.v (c03l_ok: whole event sequences against the running receive loops; c03k_ok: size constants). *)
From Hop Require Export PacketCorr RecvLoopCorr.
