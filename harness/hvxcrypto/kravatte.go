package hvxcrypto

// Reference Kravatte (Farfalle with Keccak-p[1600,6], Achouffe rolling functions) and Deck-SANSE,
// written one-shot from the definitions: no queue, no incremental state; every output is recomputed
// from the whole history.  Shares no code with /repo.

// BitStr is a string of whole bytes followed by NTail (< 8) bits, the low bits of Tail.
type BitStr struct {
	B     []byte
	NTail int
	Tail  byte
}

func lanesOf(b []byte) (a [25]uint64) {
	for i := 0; i < 200 && i < len(b); i++ {
		a[i/8] |= uint64(b[i]) << (8 * uint(i%8))
	}
	return
}

func bytesOf(a *[25]uint64) []byte {
	out := make([]byte, 200)
	for i := range out {
		out[i] = byte(a[i/8] >> (8 * uint(i%8)))
	}
	return out
}

func rollC(a *[25]uint64) {
	x0, x1 := a[20], a[21]
	a[20], a[21], a[22], a[23] = a[21], a[22], a[23], a[24]
	a[24] = rot(x0, 7) ^ x1 ^ (x1 >> 3)
}

func rollE(a *[25]uint64) {
	x0, x1, x2 := a[15], a[16], a[17]
	for i := 15; i < 24; i++ {
		a[i] = a[i+1]
	}
	a[24] = rot(x0, 7) ^ rot(x1, 18) ^ (x2 & (x1 >> 1))
}

// KravatteF returns the first n bytes of F_K(history); history[0] is the OLDEST string.
func KravatteF(key []byte, history []BitStr, n int) []byte {
	kp := make([]byte, 200)
	copy(kp, key)
	kp[len(key)] = 0x01
	k := lanesOf(kp)
	KeccakP(&k, 6)
	kr := k
	var x [25]uint64
	for _, m := range history {
		msg := append([]byte{}, m.B...)
		msg = append(msg, (m.Tail&byte((1<<uint(m.NTail))-1))|byte(1<<uint(m.NTail)))
		for len(msg)%200 != 0 {
			msg = append(msg, 0)
		}
		for off := 0; off < len(msg); off += 200 {
			blk := lanesOf(msg[off : off+200])
			for i := range blk {
				blk[i] ^= kr[i]
			}
			KeccakP(&blk, 6)
			for i := range x {
				x[i] ^= blk[i]
			}
			rollC(&kr)
		}
		rollC(&kr)
	}
	y := x
	KeccakP(&y, 6)
	var out []byte
	for len(out) < n {
		z := y
		KeccakP(&z, 6)
		for i := range z {
			z[i] ^= kr[i]
		}
		out = append(out, bytesOf(&z)...)
		rollE(&y)
	}
	return out[:n]
}

// RefSanse is Deck-SANSE over KravatteF with a 32-byte tag.
type RefSanse struct {
	key  []byte
	hist []BitStr
	e    byte
}

func NewRefSanse(key []byte) *RefSanse { return &RefSanse{key: append([]byte{}, key...)} }

func (s *RefSanse) Clone() *RefSanse {
	return &RefSanse{key: s.key, hist: append([]BitStr{}, s.hist...), e: s.e}
}

func (s *RefSanse) push(b []byte, nt int, v byte) {
	s.hist = append(s.hist, BitStr{append([]byte{}, b...), nt, v})
}

// Wrap returns C and T.
func (s *RefSanse) Wrap(a, p []byte) (c, t []byte) {
	if len(a) > 0 || len(p) == 0 {
		s.push(a, 2, s.e<<1) // A || 0 || e
	}
	if len(p) > 0 {
		base := append([]BitStr{}, s.hist...)
		s.push(p, 3, 2|s.e<<2) // P || 01 || e
		t = KravatteF(s.key, s.hist, 32)
		ks := KravatteF(s.key, append(base, BitStr{t, 3, 3 | s.e<<2}), len(p)) // T || 11 || e
		c = make([]byte, len(p))
		for i := range p {
			c[i] = p[i] ^ ks[i]
		}
	} else {
		t = KravatteF(s.key, s.hist, 32)
		c = []byte{}
	}
	s.e ^= 1
	return
}

// Unwrap returns the plaintext and whether the tag verified; the session advances either way.
func (s *RefSanse) Unwrap(a, c, t []byte) ([]byte, bool) {
	if len(a) > 0 || len(c) == 0 {
		s.push(a, 2, s.e<<1)
	}
	p := []byte{}
	if len(c) > 0 {
		ks := KravatteF(s.key, append(append([]BitStr{}, s.hist...), BitStr{t, 3, 3 | s.e<<2}), len(c))
		p = make([]byte, len(c))
		for i := range c {
			p[i] = c[i] ^ ks[i]
		}
		s.push(p, 3, 2|s.e<<2)
	}
	t2 := KravatteF(s.key, s.hist, 32)
	s.e ^= 1
	ok := len(t) == 32
	for i := 0; ok && i < 32; i++ {
		ok = t2[i] == t[i]
	}
	return p, ok
}
