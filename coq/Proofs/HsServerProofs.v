(* HsServerProofs.v — lemmas about Model/HsServer.v (Server.readPacket, client steps) *)
From Hop Require Import Base Handshake HsServer HandshakeProofs.
From Coq Require Import ZifyN ZifyNat ZifyBool.
Open Scope N_scope.
Local Arguments N.add : simpl never.
Local Arguments N.mul : simpl never.
Local Opaque N.add N.mul.

(* ------------------------------------------------------------------ frame lemmas *)
Lemma set_handshake_state_pending : forall s I a T ek hid s' sid st,
  set_handshake_state s I a T ek hid = Some (s', sid, st) ->
  sv_pending s' = sv_pending s /\ sv_hidden s' = sv_hidden s /\ sv_ck s' = sv_ck s /\ sv_pol s' = sv_pol s
  /\ sv_serving s' = sv_serving s /\ sv_maxpending s' = sv_maxpending s.
Proof.
  intros until st. unfold set_handshake_state. intros H.
  repeat (dm H; try discriminate); injection H as <- <- <-; cbn; auto 10.
Qed.

Lemma session_message_pending : forall SM s a d s' r,
  session_message SM s a d = (s', r) ->
  sv_pending s' = sv_pending s /\ sv_hs s' = sv_hs s /\ sv_ck s' = sv_ck s /\ sv_hidden s' = sv_hidden s.
Proof.
  intros until r. unfold session_message. intros H.
  repeat (dm H; try discriminate); injection H as <- <-; cbn; auto.
Qed.

Lemma finish_handshake_pending : forall O s rm sid T pk hid s' r,
  finish_handshake O s rm sid T pk hid = (s', r) ->
  sv_pending s' = sv_pending s \/ (sv_pending s' = sv_pending s ++ [sid] /\ r = Ok tt).
Proof.
  intros until r. unfold finish_handshake. intros H.
  repeat (dm H; try discriminate); injection H as <- <-; destruct rm; cbn; auto.
Qed.

(* ------------------------------------------------------------------ C01: publication *)
Definition published_by_client_auth (O : doracle) (X : xoracle) (s : srv) (a : addr) (d : bytes) (s' : srv) : Prop :=
  at_ d 0 = MT_ClientAuth /\ sv_hidden s = false /\
  exists h T' pk,
    find_hs a (sv_hs s) = Some h /\
    read_client_auth O X (h_ekey h) (sv_pol s) (h_sid h) (h_tr h) d = (T', Ok (len d, pk)) /\
    sv_pending s' = sv_pending s ++ [h_sid h].

Definition published_by_hidden_request (O : doracle) (X : xoracle) (s : srv) (I : step_in) (d : bytes) (s' : srv) : Prop :=
  at_ d 0 = MT_ClientRequestHidden /\
  exists T' q sid,
    read_request_hidden O X (i_certs I) (sv_pol s) (i_now I) [] d = (T', Ok q) /\ hq_n q = len d /\
    sv_pending s' = sv_pending s ++ [sid].

Theorem server_publishes_only_authenticated : forall O X SM s I a d,
  sv_pending (so_srv (server_step O X SM s I a d)) <> sv_pending s ->
  published_by_client_auth O X s a d (so_srv (server_step O X SM s I a d)) \/
  published_by_hidden_request O X s I d (so_srv (server_step O X SM s I a d)).
Proof.
  intros O X SM s I a d Hne.
  unfold server_step in *.
  destruct (len d <? 4); [exfalso; apply Hne; reflexivity|].
  destruct (at_ d 0 =? MT_ClientHello) eqn:E1.
  { exfalso. apply Hne. repeat (match goal with |- context [match ?x with _ => _ end] => destruct x end; cbn; auto). }
  destruct (at_ d 0 =? MT_ClientAck) eqn:E3.
  { exfalso. apply Hne.
    destruct (sv_hidden s); [reflexivity|].
    destruct (read_client_ack _ _ _ _ _ _) as [[n k]| |]; try reflexivity.
    destruct (negb (n =? len d)); [reflexivity|].
    destruct (set_handshake_state _ _ _ _ _ _) as [[[s1 sid] st]|] eqn:Es; [|reflexivity].
    apply set_handshake_state_pending in Es as (Hp & _).
    destruct (i_cert I (ak_sni k)) as [[[ss leaf] inter]|]; [|cbn; auto].
    destruct (write_server_auth _ _ _ _ _ _ _ _ _ _) as [T' r].
    destruct st, r; cbn; auto. }
  destruct (at_ d 0 =? MT_ClientAuth) eqn:E5.
  { left. apply N.eqb_eq in E5.
    destruct (sv_hidden s) eqn:Eh; [exfalso; apply Hne; reflexivity|].
    destruct (read_client_auth_pre d); try (exfalso; apply Hne; reflexivity).
    destruct (find_hs a (sv_hs s)) as [h|] eqn:Ef; [|exfalso; apply Hne; reflexivity].
    destruct (read_client_auth _ _ _ _ _ _ _) as [T' r] eqn:Er.
    destruct r as [[n pk]| |]; try (exfalso; apply Hne; reflexivity).
    destruct (negb (n =? len d)) eqn:En; [exfalso; apply Hne; reflexivity|].
    apply negb_false in En. apply N.eqb_eq in En. subst n.
    destruct (finish_handshake _ _ _ _ _ _ _) as [s2 r2] eqn:Efin.
    cbn [so_srv out_] in *.
    apply finish_handshake_pending in Efin as [Hp|[Hp _]]; cbn in Hp.
    - exfalso. apply Hne. exact Hp.
    - unfold published_by_client_auth. repeat split; auto. exists h, T', pk. repeat split; auto. }
  destruct ((at_ d 0 =? MT_ServerHello) || (at_ d 0 =? MT_ServerAuth)); [exfalso; apply Hne; reflexivity|].
  destruct ((at_ d 0 =? MT_Transport) || (at_ d 0 =? MT_Control)).
  { exfalso. apply Hne. destruct (session_message SM s a d) as [s1 r] eqn:Es.
    apply session_message_pending in Es as (Hp & _). exact Hp. }
  destruct (at_ d 0 =? MT_ClientRequestHidden) eqn:E8.
  { right. apply N.eqb_eq in E8.
    destruct (read_request_hidden _ _ _ _ _ _ _) as [T' r] eqn:Er.
    destruct r as [q| |]; try (exfalso; apply Hne; reflexivity).
    destruct (negb (hq_n q =? len d)) eqn:En; [exfalso; apply Hne; reflexivity|].
    apply negb_false in En. apply N.eqb_eq in En.
    destruct (set_handshake_state _ _ _ _ _ _) as [[[s1 sid] st]|] eqn:Es; [|exfalso; apply Hne; reflexivity].
    apply set_handshake_state_pending in Es as (Hp & _).
    destruct (i_cert_h I _) as [[[ss leaf] inter]|]; [|exfalso; apply Hne; cbn; auto].
    destruct (write_response_hidden _ _ _ _ _ _ _ _ _ _) as [Tw rw].
    destruct rw as [m| |]; try (exfalso; apply Hne; destruct st; cbn; auto; fail).
    destruct (finish_handshake _ _ _ _ _ _ _) as [s3 r3] eqn:Efin.
    cbn [so_srv out_] in *.
    apply finish_handshake_pending in Efin as [Hq|[Hq _]].
    - exfalso. apply Hne. rewrite Hq. destruct st; cbn; auto.
    - unfold published_by_hidden_request. split; auto. exists T', q, sid. repeat split; auto.
      rewrite Hq. destruct st; cbn; rewrite Hp; auto. }
  exfalso. apply Hne. destruct (session_message SM s a d) as [s1 r] eqn:Es.
  apply session_message_pending in Es as (Hp & _). destruct r; exact Hp.
Qed.

(* ------------------------------------------------------------------ C10: totality *)
Definition sm_total (SM : sess -> addr -> bytes -> res sess) : Prop := forall x a d, SM x a d <> Panic.
(* createSessionFromHandshakeLocked finds a free session id among its (at most 100) random draws *)
Definition rand_ok (s : srv) (I : step_in) : Prop := pick_sid (firstn 100 (i_sids I)) (sv_ss s) <> None.

Lemma session_message_no_panic : forall SM s a d, sm_total SM -> snd (session_message SM s a d) <> Panic.
Proof.
  intros SM s a d H. unfold session_message.
  destruct (len d <? _); cbn; try discriminate.
  destruct (find_ss _ _); cbn; try discriminate.
  destruct (SM s0 a d) eqn:E; cbn; try discriminate. exfalso. exact (H _ _ _ E).
Qed.

Lemma finish_handshake_no_panic : forall O s rm sid T pk hid, snd (finish_handshake O s rm sid T pk hid) <> Panic.
Proof.
  intros. unfold finish_handshake.
  repeat (match goal with |- context [match ?x with _ => _ end] => destruct x end); cbn; discriminate.
Qed.

Lemma set_handshake_state_some : forall s I a T ek hid,
  rand_ok s I -> set_handshake_state s I a T ek hid <> None.
Proof.
  intros s I a T ek hid H. unfold set_handshake_state.
  destruct (find_hs a (sv_hs s)); try discriminate.
  unfold rand_ok in H. destruct (pick_sid _ _); [discriminate|congruence].
Qed.

Lemma set_handshake_state_ss : forall s I a T ek hid s' sid st,
  set_handshake_state s I a T ek hid = Some (s', sid, st) -> True.
Proof. auto. Qed.

Theorem server_step_total : forall O X SM s I a d,
  sm_total SM -> rand_ok s I -> so_res (server_step O X SM s I a d) <> Panic.
Proof.
  intros O X SM s I a d Hsm Hr. unfold server_step.
  destruct (len d <? 4) eqn:E4; [cbn; discriminate|]. apply N.ltb_ge in E4.
  destruct (at_ d 0 =? MT_ClientHello).
  { destruct (sv_hidden s); [cbn; discriminate|].
    pose proof (read_client_hello_no_panic O X (tr_start PQName) d) as Hn.
    destruct (read_client_hello O X (tr_start PQName) d) as [T [[n kc]| |]]; cbn in Hn; try congruence.
    - destruct (negb _); [cbn; discriminate|]. destruct (write_server_hello _ _ _ _ _). cbn. discriminate.
    - cbn. discriminate. }
  destruct (at_ d 0 =? MT_ClientAck).
  { destruct (sv_hidden s); [cbn; discriminate|].
    pose proof (read_client_ack_no_panic O X (sv_ck s) (fst a) (snd a) d) as Hn.
    destruct (read_client_ack _ _ _ _ _ _) as [[n k]| |]; try congruence; [|cbn; discriminate].
    destruct (negb _); [cbn; discriminate|].
    pose proof (set_handshake_state_some s I a (ak_tr k) (i_ekey I) false Hr) as Hs.
    destruct (set_handshake_state _ _ _ _ _ _) as [[[s1 sid] st]|]; [|congruence].
    destruct (i_cert I (ak_sni k)) as [[[ss leaf] inter]|]; [|cbn; discriminate].
    pose proof (write_server_auth_no_panic O X (ak_tr k) sid (i_epub I) (i_ekey I) ss (ak_eph k) leaf inter) as Hw.
    destruct (write_server_auth _ _ _ _ _ _ _ _ _ _) as [T' [m| |]]; cbn in Hw; try congruence; cbn; discriminate. }
  destruct (at_ d 0 =? MT_ClientAuth).
  { destruct (sv_hidden s); [cbn; discriminate|].
    pose proof (read_client_auth_pre_no_panic d) as Hp.
    destruct (read_client_auth_pre d); try congruence; [|cbn; discriminate].
    destruct (find_hs a (sv_hs s)) as [h|]; [|cbn; discriminate].
    pose proof (read_client_auth_no_panic O X (h_ekey h) (sv_pol s) (h_sid h) (h_tr h) d) as Hn.
    destruct (read_client_auth _ _ _ _ _ _ _) as [T' [[n pk]| |]]; cbn in Hn; try congruence; [|cbn; discriminate].
    destruct (negb _); [cbn; discriminate|].
    match goal with |- context [finish_handshake ?a ?b ?c ?d ?e ?f ?g] =>
      pose proof (finish_handshake_no_panic a b c d e f g) as Hf; destruct (finish_handshake a b c d e f g) end.
    cbn in *. auto. }
  destruct (_ || _); [cbn; discriminate|].
  destruct (_ || _).
  { pose proof (session_message_no_panic SM s a d Hsm) as Hn.
    destruct (session_message SM s a d). cbn in *. auto. }
  destruct (at_ d 0 =? MT_ClientRequestHidden).
  { pose proof (read_request_hidden_no_panic O X (i_certs I) (sv_pol s) (i_now I) [] d E4) as Hn.
    destruct (read_request_hidden _ _ _ _ _ _ _) as [T' [q| |]]; cbn in Hn; try congruence; [|cbn; discriminate].
    destruct (negb _); [cbn; discriminate|].
    pose proof (set_handshake_state_some s I a (hq_tr q) (i_ekey I) true Hr) as Hs.
    destruct (set_handshake_state _ _ _ _ _ _) as [[[s1 sid] st]|]; [|congruence].
    destruct (i_cert_h I _) as [[[ss leaf] inter]|]; [|cbn; discriminate].
    match goal with |- context [write_response_hidden ?a ?b ?c ?d ?e ?f ?g ?h ?i ?j] =>
      pose proof (write_response_hidden_no_panic a b c d e f g h i j) as Hw;
      destruct (write_response_hidden a b c d e f g h i j) as [Tw [m| |]] end; cbn in Hw; try congruence; [|cbn; discriminate].
    match goal with |- context [finish_handshake ?a ?b ?c ?d ?e ?f ?g] =>
      pose proof (finish_handshake_no_panic a b c d e f g) as Hf; destruct (finish_handshake a b c d e f g) end.
    cbn in *. auto. }
  pose proof (session_message_no_panic SM s a d Hsm) as Hn.
  destruct (session_message SM s a d) as [s1 [| |]]; cbn in *; try discriminate. congruence.
Qed.

Theorem client_step_total : forall O X SM st a d stale,
  sm_total SM -> snd (client_step O X SM st a d stale) <> Panic.
Proof.
  intros O X SM st a d stale Hsm. unfold client_step.
  destruct st as [c|c|c|x|].
  - destruct (len d <? 4); [cbn; discriminate|].
    pose proof (read_server_hello_no_panic O X (c_ek c) (c_tr c) (d ++ stale)) as Hn.
    destruct (read_server_hello _ _ _ _ _) as [T [[n ck]| |]]; cbn in Hn; try congruence; [|cbn; discriminate].
    destruct (negb _); [cbn; discriminate|]. destruct (write_client_ack _ _ _ _ _ _). cbn. discriminate.
  - pose proof (read_server_auth_no_panic O X (c_ce c) (c_pol c) (c_tr c) d) as Hn.
    destruct (read_server_auth _ _ _ _ _ _) as [T [r| |]]; cbn in Hn; try congruence; [|cbn; discriminate].
    destruct (negb _); [cbn; discriminate|].
    match goal with |- context [write_client_auth ?a ?b ?c ?d ?e ?f ?g ?h] =>
      pose proof (write_client_auth_no_panic a b c d e f g h) as Hw;
      destruct (write_client_auth a b c d e f g h) as [Tw [m| |]] end; cbn in Hw; try congruence; cbn; discriminate.
  - pose proof (read_response_hidden_no_panic O X (c_ek c) (c_cs c) (c_pol c) (c_tr c) d) as Hn.
    destruct (read_response_hidden _ _ _ _ _ _ _) as [T [r| |]]; cbn in Hn; try congruence; [|cbn; discriminate].
    destruct (negb _); cbn; discriminate.
  - destruct (len d <? _); [cbn; discriminate|]. destruct (negb _); [cbn; discriminate|].
    destruct (SM x a d) eqn:E; cbn; try discriminate. exfalso. exact (Hsm _ _ _ E).
  - cbn. discriminate.
Qed.

(* ------------------------------------------------------------------ C10 / C19: what a rejected datagram can change *)
(* the packet model rejects d for every session (it authenticates under none) *)
Definition sm_rejects (SM : sess -> addr -> bytes -> res sess) (a : addr) (d : bytes) : Prop :=
  forall x, is_ok (SM x a d) = false.

Lemma session_message_reject : forall SM s a d, sm_rejects SM a d -> fst (session_message SM s a d) = s.
Proof.
  intros SM s a d H. unfold session_message.
  destruct (len d <? _); auto. destruct (find_ss _ _) as [x|]; auto.
  specialize (H x). destruct (SM x a d); cbn in *; auto. discriminate.
Qed.

(* the cookie key, mode and policy are never changed by a datagram *)
Theorem server_step_config_unchanged : forall O X SM s I a d,
  let s' := so_srv (server_step O X SM s I a d) in
  sv_ck s' = sv_ck s /\ sv_hidden s' = sv_hidden s /\ sv_pol s' = sv_pol s /\ sv_serving s' = sv_serving s.
Proof.
  intros O X SM s I a d. unfold server_step.
  repeat (match goal with
          | |- context [set_handshake_state ?a ?b ?c ?d ?e ?f] =>
            let E := fresh in destruct (set_handshake_state a b c d e f) as [[[? ?] ?]|] eqn:E;
            [apply set_handshake_state_pending in E as (? & ? & ? & ? & ? & ?)|]
          | |- context [session_message ?a ?b ?c ?d] =>
            let E := fresh in destruct (session_message a b c d) eqn:E;
            unfold session_message in E
          | |- context [finish_handshake ?a ?b ?c ?d ?e ?f ?g] =>
            let E := fresh in destruct (finish_handshake a b c d e f g) eqn:E; unfold finish_handshake in E
          | H : context [match ?x with _ => _ end] |- _ => destruct x eqn:?
          | |- context [match ?x with _ => _ end] => destruct x eqn:?
          end; cbn in *; try discriminate);
  repeat match goal with H : (_, _) = (_, _) |- _ => injection H as <- <- end; cbn in *; auto; try (repeat split; congruence).
Qed.

Lemma read_client_ack_cookie : forall O X ck ip port b n k,
  read_client_ack O X ck ip port b = Ok (n, k) ->
  n = PQClientAckLen /\ PQClientAckLen <= len b /\ at_ b 0 = MT_ClientAck /\
  exists sec,
    x_kemparse X (slice b (HeaderLen + DHLen) KemKeyLen) = Some (ak_kem k) /\
    x_open X ck (cookie_ad X (ak_kem k) ip port)
           (take PQCookieLen (slice b (HeaderLen + DHLen + KemKeyLen) PQCookieLen)) = Some sec /\
    len sec = PQSharedSecretLen.
Proof.
  intros O X ck ip port b n k H. unfold read_client_ack, bind in H.
  repeat (dm H; try discriminate).
  unfold squeeze, decrypt, absorb in H.
  repeat (dm H; try discriminate).
  injection H as <- <-. cbn [ak_kem].
  match goal with E : replay_from_cookie _ _ _ _ _ _ _ = Ok _ |- _ => unfold replay_from_cookie in E;
    repeat (dm E; try discriminate) end.
  clean_hyps. repeat split; auto. eexists. repeat split; eauto.
Qed.

(* ------------------------------------------------------------------ C19 *)
Theorem client_hello_stateless : forall O X SM s I a d,
  at_ d 0 = MT_ClientHello -> so_srv (server_step O X SM s I a d) = s.
Proof.
  intros O X SM s I a d Ht. unfold server_step. rewrite Ht. cbn [N.eqb Pos.eqb MT_ClientHello].
  destruct (len d <? 4); [reflexivity|].
  change (MT_ClientHello =? MT_ClientHello) with true. cbv iota.
  repeat (match goal with |- context [match ?x with _ => _ end] => destruct x end); reflexivity.
Qed.

(* a ClientAck changes the tables or is answered only if its cookie opens under the server's
   current cookie key with associated data H(client KEM key || source ip || source port) *)
Theorem client_ack_needs_bound_cookie : forall O X SM s I a d,
  at_ d 0 = MT_ClientAck ->
  let o := server_step O X SM s I a d in
  (so_out o <> [] \/ so_srv o <> s) ->
  len d = PQClientAckLen /\ sv_hidden s = false /\
  exists kc sec,
    x_kemparse X (slice d (HeaderLen + DHLen) KemKeyLen) = Some kc /\
    x_open X (sv_ck s) (cookie_ad X kc (fst a) (snd a))
           (take PQCookieLen (slice d (HeaderLen + DHLen + KemKeyLen) PQCookieLen)) = Some sec.
Proof.
  intros O X SM s I a d Ht o Hch. subst o. unfold server_step in Hch. rewrite Ht in Hch.
  destruct (len d <? 4); [cbn in Hch; destruct Hch; congruence|].
  change (MT_ClientAck =? MT_ClientHello) with false in Hch.
  change (MT_ClientAck =? MT_ClientAck) with true in Hch. cbv iota in Hch.
  destruct (sv_hidden s) eqn:Eh; [cbn in Hch; destruct Hch; congruence|].
  destruct (read_client_ack O X (sv_ck s) (fst a) (snd a) d) as [[n k]| |] eqn:Er;
    try (cbn in Hch; destruct Hch; congruence).
  destruct (negb (n =? len d)) eqn:En; [cbn in Hch; destruct Hch; congruence|].
  apply negb_false in En. apply N.eqb_eq in En.
  apply read_client_ack_cookie in Er as (Hn & _ & _ & sec & Hk & Ho & _).
  split; [congruence|]. split; auto. exists (ak_kem k), sec. auto.
Qed.

(* a hidden server sends a datagram only in a step whose datagram is a hidden request accepted
   by readPQClientRequestHidden with nothing trailing *)
Theorem hidden_server_silent : forall O X SM s I a d,
  sv_hidden s = true ->
  so_out (server_step O X SM s I a d) <> [] ->
  at_ d 0 = MT_ClientRequestHidden /\
  exists T q, read_request_hidden O X (i_certs I) (sv_pol s) (i_now I) [] d = (T, Ok q) /\ hq_n q = len d.
Proof.
  intros O X SM s I a d Hh Hout. unfold server_step in Hout. rewrite Hh in Hout.
  destruct (len d <? 4); [cbn in Hout; congruence|].
  destruct (at_ d 0 =? MT_ClientHello); [cbn in Hout; congruence|].
  destruct (at_ d 0 =? MT_ClientAck); [cbn in Hout; congruence|].
  destruct (at_ d 0 =? MT_ClientAuth); [cbn in Hout; congruence|].
  destruct (_ || _); [cbn in Hout; congruence|].
  destruct (_ || _); [destruct (session_message SM s a d); cbn in Hout; congruence|].
  destruct (at_ d 0 =? MT_ClientRequestHidden) eqn:E8.
  - apply N.eqb_eq in E8. split; auto.
    destruct (read_request_hidden _ _ _ _ _ _ _) as [T [q| |]] eqn:Er; try (cbn in Hout; congruence).
    destruct (negb (hq_n q =? len d)) eqn:En; [cbn in Hout; congruence|].
    apply negb_false in En. apply N.eqb_eq in En. eauto.
  - destruct (session_message SM s a d) as [s1 [| |]]; cbn in Hout; congruence.
Qed.

(* ------------------------------------------------------------------ C10: junk leaves the state alone *)
(* For every datagram that no session authenticates: the server state is exactly unchanged unless
   the datagram is (1) a ClientAck whose cookie opened and whose MAC verified, (2) a ClientAuth from
   an address that has a pending handshake (then only that entry changes), or (3) a hidden request
   accepted by its reader. *)
Theorem server_step_junk_leaves_state : forall O X SM s I a d,
  sm_rejects SM a d ->
  let o := server_step O X SM s I a d in
  so_srv o = s \/
  (at_ d 0 = MT_ClientAck /\ exists n k, read_client_ack O X (sv_ck s) (fst a) (snd a) d = Ok (n, k)) \/
  (at_ d 0 = MT_ClientAuth /\ exists h, find_hs a (sv_hs s) = Some h) \/
  (at_ d 0 = MT_ClientRequestHidden /\
   exists T q, read_request_hidden O X (i_certs I) (sv_pol s) (i_now I) [] d = (T, Ok q)).
Proof.
  intros O X SM s I a d Hrej o. subst o. unfold server_step.
  destruct (len d <? 4); [left; reflexivity|].
  destruct (at_ d 0 =? MT_ClientHello) eqn:E1.
  { left. repeat (match goal with |- context [match ?x with _ => _ end] => destruct x end); reflexivity. }
  destruct (at_ d 0 =? MT_ClientAck) eqn:E3.
  { apply N.eqb_eq in E3. destruct (sv_hidden s); [left; reflexivity|].
    destruct (read_client_ack _ _ _ _ _ _) as [[n k]| |] eqn:Er; try (left; reflexivity).
    right; left. split; eauto. }
  destruct (at_ d 0 =? MT_ClientAuth) eqn:E5.
  { apply N.eqb_eq in E5. destruct (sv_hidden s); [left; reflexivity|].
    destruct (read_client_auth_pre d); try (left; reflexivity).
    destruct (find_hs a (sv_hs s)) as [h|] eqn:Ef; [|left; reflexivity].
    right; right; left. split; eauto. }
  destruct (_ || _); [left; reflexivity|].
  destruct (_ || _).
  { left. pose proof (session_message_reject SM s a d Hrej) as Hs.
    destruct (session_message SM s a d). cbn in *. auto. }
  destruct (at_ d 0 =? MT_ClientRequestHidden) eqn:E8.
  { apply N.eqb_eq in E8.
    destruct (read_request_hidden _ _ _ _ _ _ _) as [T [q| |]] eqn:Er; try (left; reflexivity).
    right; right; right. split; eauto. }
  left. pose proof (session_message_reject SM s a d Hrej) as Hs.
  destruct (session_message SM s a d) as [s1 [| |]]; cbn in *; auto.
Qed.

(* and a datagram from address a never touches the pending handshake of another address *)
Lemma find_upd_other : forall a a' h l, addr_eqb a' a = false -> find_hs a' (upd_hs a h l) = find_hs a' l.
Proof.
  induction l as [|[a0 h0] l IH]; intros Hne; cbn; auto.
  destruct (addr_eqb a a0) eqn:E; cbn.
  - destruct (addr_eqb a' a0) eqn:E'; auto.
    exfalso. unfold addr_eqb in *. apply andb_true_iff in E as [E1 E2], E' as [E1' E2'].
    apply beq_bytes_eq in E1, E1'. apply N.eqb_eq in E2, E2'.
    rewrite <- E1 in E1'. rewrite <- E2 in E2'. rewrite E1', E2' in Hne.
    rewrite beq_bytes_refl, N.eqb_refl in Hne. discriminate.
  - destruct (addr_eqb a' a0); auto.
Qed.
