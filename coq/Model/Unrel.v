(* Unrel.v — interleaving transition system for the lifecycle of tubes.Unreliable
   (tubes/unreliable.go: Close / WriteMsgUDP / initiate / sender / receiveInitiatePkt and the
   lifecycleMu that orders them).  One transition per atomic action; lifecycleMu is held across the
   blocking Send of Write and of Close's FIN and across Close's wait for the sender, exactly as in
   the code.  The muxer queue is assumed to accept frames (the muxer sender drains it; C16's main
   model), so handing a frame to it never blocks.  A send on a closed channel or a second close of a
   channel sets [upanic].  Definitions only; proofs in Proofs/UnrelProofs.v. *)
From Hop Require Import Base ConcBase.
Open Scope nat_scope.

Inductive ust := UCreated | UInitiated | UClosed.
Inductive uop := UWrite | UClose.
Inductive upc :=
| UIdle
| W_wait                 (* select { <-u.initiated; <-u.closed } *)
| W_lock                 (* lifecycleMu.Lock(); state == closed ? *)
| W_send                 (* u.send.Send(frame), holding lifecycleMu *)
| C_first                (* lifecycleMu.Lock(); old := state.Swap(closed); Unlock(); close(stopInitiate) if created *)
| C_waitinit (old : ust) (* <-u.initiateDone *)
| C_lock2 (old : ust)    (* lifecycleMu.Lock() *)
| C_fin                  (* u.send.Send(FIN), holding lifecycleMu *)
| C_closeq               (* u.send.Close(); u.recv.Close(); close(u.send.C) *)
| C_waitsender.          (* <-u.senderDone; close(u.closed); Unlock *)
Record uthread := mkUT { uprog : list uop; upcv : upc; urets : list (uop * N) }.   (* results: 0 nil, 1 io.EOF *)

Inductive inpc := IN_loop | IN_sel | IN_done.      (* initiate(req = true) *)
Inductive snpc := SN_none | SN_run | SN_done.      (* sender() *)

Record ush := mkUS {
  st : ust;                      (* u.state *)
  mu : bool;                     (* lifecycleMu held *)
  sq : nat; sq_cap : nat;        (* u.send.C *)
  sq_closed : bool;              (* close(u.send.C) *)
  initd : bool;                  (* close(u.initiated) *)
  stopinit : bool;               (* close(u.stopInitiate) *)
  initdone : bool;               (* close(u.initiateDone) *)
  senderdone : bool;             (* close(u.senderDone) *)
  uclosed : bool;                (* close(u.closed) *)
  inp : inpc; snp : snpc;
  (* ghosts *)
  upanic : bool;
  fin_pushed : bool;             (* the FIN frame was put on u.send.C *)
  after_fin : bool               (* some frame was put on u.send.C after the FIN *)
}.
Record ust_t := mkUSt { ushd : ush; uths : list uthread }.

Definition upd_mu s v := mkUS (st s) v (sq s) (sq_cap s) (sq_closed s) (initd s) (stopinit s) (initdone s) (senderdone s) (uclosed s) (inp s) (snp s) (upanic s) (fin_pushed s) (after_fin s).
Definition set_upanic s := mkUS (st s) (mu s) (sq s) (sq_cap s) (sq_closed s) (initd s) (stopinit s) (initdone s) (senderdone s) (uclosed s) (inp s) (snp s) true (fin_pushed s) (after_fin s).

(* put a frame on u.send.C (room is checked by the caller); fin = it is the FIN frame *)
Definition push (s : ush) (fin : bool) : ush :=
  if sq_closed s then set_upanic s
  else mkUS (st s) (mu s) (S (sq s)) (sq_cap s) false (initd s) (stopinit s) (initdone s) (senderdone s) (uclosed s) (inp s) (snp s)
            (upanic s) (fin_pushed s || fin) (after_fin s || fin_pushed s).

Definition ugoto (t : uthread) (p : upc) := mkUT (uprog t) p (urets t).
Definition ufin (t : uthread) (o : uop) (r : N) := mkUT (uprog t) UIdle (urets t ++ [(o, r)]).

Definition utstep (s : ush) (t : uthread) : option (ush * uthread) :=
  match upcv t with
  | UIdle =>
    match uprog t with
    | [] => None
    | UWrite :: r => Some (s, mkUT r W_wait (urets t))
    | UClose :: r => Some (s, mkUT r C_first (urets t))
    end
  | W_wait => if initd s || uclosed s then Some (s, ugoto t W_lock) else None
  | W_lock =>
    if mu s then None
    else match st s with
         | UClosed => Some (s, ufin t UWrite 1)                       (* Lock; closed: Unlock; io.EOF *)
         | _ => Some (upd_mu s true, ugoto t W_send)
         end
  | W_send =>                                                          (* DeadlineChan.Send: blocks while the queue is full *)
    if Nat.ltb (sq s) (sq_cap s) then Some (upd_mu (push s false) false, ufin t UWrite 0) else None
  | C_first =>
    if mu s then None
    else match st s with
         | UClosed => Some (s, ufin t UClose 1)
         | old =>
           Some (mkUS UClosed false (sq s) (sq_cap s) (sq_closed s) (initd s)
                      (match old with UCreated => true | _ => stopinit s end)
                      (initdone s) (senderdone s) (uclosed s) (inp s) (snp s)
                      (match old with UCreated => upanic s || stopinit s | _ => upanic s end) (fin_pushed s) (after_fin s),
                 ugoto t (C_waitinit old))
         end
  | C_waitinit old => if initdone s then Some (s, ugoto t (C_lock2 old)) else None
  | C_lock2 old =>
    if mu s then None
    else Some (upd_mu s true, ugoto t (match old with UInitiated => C_fin | _ => C_closeq end))
  | C_fin => if Nat.ltb (sq s) (sq_cap s) then Some (push s true, ugoto t C_closeq) else None
  | C_closeq =>
    Some (mkUS (st s) (mu s) (sq s) (sq_cap s) true (initd s) (stopinit s) (initdone s) (senderdone s) (uclosed s) (inp s) (snp s)
               (upanic s || sq_closed s) (fin_pushed s) (after_fin s),
          ugoto t C_waitsender)
  | C_waitsender =>
    if senderdone s then
      Some (mkUS (st s) false (sq s) (sq_cap s) (sq_closed s) (initd s) (stopinit s) (initdone s) (senderdone s) true (inp s) (snp s)
                 (upanic s || uclosed s) (fin_pushed s) (after_fin s),
            ufin t UClose 0)
    else None
  end.

Inductive uactor := UT (i : nat) | UInit | UInitTick | USender | UPeerInit.

Definition ustep (x : ust_t) (a : uactor) : option ust_t :=
  let s := ushd x in
  if upanic s then None else
  match a with
  | UT i => match nth_error (uths x) i with
            | None => None
            | Some t => match utstep s t with
                        | None => None
                        | Some (s', t') => Some (mkUSt s' (gupd (uths x) i t'))
                        end
            end
  | UInit =>                                   (* initiate: one pass of the loop body / the select *)
    match inp s with
    | IN_loop =>
      if mu s then None
      else match st s with
           | UInitiated =>                     (* break; go u.sender(); initiateDone closes on return *)
             Some (mkUSt (mkUS (st s) (mu s) (sq s) (sq_cap s) (sq_closed s) (initd s) (stopinit s) true (senderdone s) (uclosed s) IN_done SN_run
                               (upanic s || initdone s) (fin_pushed s) (after_fin s)) (uths x))
           | UCreated => Some (mkUSt (mkUS (st s) (mu s) (sq s) (sq_cap s) (sq_closed s) (initd s) (stopinit s) (initdone s) (senderdone s) (uclosed s) IN_sel (snp s)
                                           (upanic s) (fin_pushed s) (after_fin s)) (uths x))   (* REQ handed to the muxer *)
           | UClosed =>                        (* close(u.senderDone); return *)
             Some (mkUSt (mkUS (st s) (mu s) (sq s) (sq_cap s) (sq_closed s) (initd s) (stopinit s) true true (uclosed s) IN_done (snp s)
                               (upanic s || senderdone s || initdone s) (fin_pushed s) (after_fin s)) (uths x))
           end
    | IN_sel =>
      if stopinit s then
        Some (mkUSt (mkUS (st s) (mu s) (sq s) (sq_cap s) (sq_closed s) (initd s) (stopinit s) true true (uclosed s) IN_done (snp s)
                          (upanic s || senderdone s || initdone s) (fin_pushed s) (after_fin s)) (uths x))
      else if initd s then
        Some (mkUSt (mkUS (st s) (mu s) (sq s) (sq_cap s) (sq_closed s) (initd s) (stopinit s) (initdone s) (senderdone s) (uclosed s) IN_loop (snp s)
                          (upanic s) (fin_pushed s) (after_fin s)) (uths x))
      else None
    | IN_done => None
    end
  | UInitTick =>                               (* the init ticker: go round the loop again *)
    match inp s with
    | IN_sel => Some (mkUSt (mkUS (st s) (mu s) (sq s) (sq_cap s) (sq_closed s) (initd s) (stopinit s) (initdone s) (senderdone s) (uclosed s) IN_loop (snp s)
                                  (upanic s) (fin_pushed s) (after_fin s)) (uths x))
    | _ => None
    end
  | USender =>                                 (* for b := range u.send.C { u.sendQueue <- b }; close(u.senderDone) *)
    match snp s with
    | SN_run =>
      match sq s with
      | S n => Some (mkUSt (mkUS (st s) (mu s) n (sq_cap s) (sq_closed s) (initd s) (stopinit s) (initdone s) (senderdone s) (uclosed s) (inp s) (snp s)
                                 (upanic s) (fin_pushed s) (after_fin s)) (uths x))
      | O => if sq_closed s then
               Some (mkUSt (mkUS (st s) (mu s) 0 (sq_cap s) (sq_closed s) (initd s) (stopinit s) (initdone s) true (uclosed s) (inp s) SN_done
                                 (upanic s || senderdone s) (fin_pushed s) (after_fin s)) (uths x))
             else None
      end
    | _ => None
    end
  | UPeerInit =>                               (* receiveInitiatePkt: CompareAndSwap(created, initiated); close(u.initiated) *)
    match st s with
    | UCreated => Some (mkUSt (mkUS UInitiated (mu s) (sq s) (sq_cap s) (sq_closed s) true (stopinit s) (initdone s) (senderdone s) (uclosed s) (inp s) (snp s)
                                    (upanic s || initd s) (fin_pushed s) (after_fin s)) (uths x))
    | _ => None
    end
  end.

Fixpoint urun (x : ust_t) (l : list uactor) : option ust_t :=
  match l with
  | [] => Some x
  | a :: r => match ustep x a with Some x' => urun x' r | None => None end
  end.

(* a locally created (req) tube, or an accepted one (already initiated, sender running) *)
Definition ush_init (accepted : bool) (cap : nat) : ush :=
  if accepted then mkUS UInitiated false 0 cap false true false true false false IN_done SN_run false false false
  else mkUS UCreated false 0 cap false false false false false false IN_loop SN_none false false false.
Definition uinit (accepted : bool) (cap : nat) (progs : list (list uop)) : ust_t :=
  mkUSt (ush_init accepted cap) (map (fun p => mkUT p UIdle []) progs).
Definition ureachable acc cap progs (x : ust_t) : Prop := exists l, urun (uinit acc cap progs) l = Some x.

Definition uquiescent (x : ust_t) : Prop := forall a, a <> UInitTick -> a <> UPeerInit -> ustep x a = None.
Definition ufinished (t : uthread) : bool := match upcv t, uprog t with UIdle, [] => true | _, _ => false end.
