// c18: wire-encoding correspondence driver. For every format it generates boundary-directed
// values and byte strings, runs the REAL Go encoders/decoders, judges the round-trip /
// stability / rejection laws of property C18 directly on what the code did (specification
// oracle, independent of the Coq model) and emits every observation for comparison with the
// Gallina model.
package main

import (
	"bytes"
	"crypto/sha1"
	"encoding/hex"
	"fmt"
	"io"
	"strings"

	"github.com/sirupsen/logrus"
	"hop.computer/hop/authgrants"
	"hop.computer/hop/certs"
	"hop.computer/hop/tubes"
	"verifharness/hv"
	xw "verifharness/hvxwire"
)

func ident(b []byte) string {
	if len(b) <= 80 {
		return hex.EncodeToString(b)
	}
	h := sha1.Sum(b)
	return fmt.Sprintf("%s..len=%d sha1=%s", hex.EncodeToString(b[:32]), len(b), hex.EncodeToString(h[:6]))
}

type verdict struct {
	ok   bool
	sig  string
	what string
}

func good() verdict { return verdict{ok: true} }
func bad(sig, what string, a ...interface{}) verdict {
	return verdict{false, sig, fmt.Sprintf(what, a...)}
}

func decTuple(f *xw.Format, b []byte, d xw.DecObs) string {
	parts := []string{xw.CoqBytes(b), hv.Ni(d.Code), f.Coq(d.V), hv.Ni(d.Rem)}
	if f.DecArg != nil {
		parts = append(parts, f.DecArg(b))
	}
	return hv.Tuple(parts...)
}

// valueCase: encode a value with the real encoder; laws: no panic, accepted => representable,
// representable => accepted, accepted => decodes back to the same value leaving the rest unread.
func valueCase(r *hv.Rand, f *xw.Format, v xw.Value, class string) (encoded []byte) {
	o := xw.RunEnc(f, v)
	vd := good()
	rep, why := f.Repr(v)
	switch {
	case o.Code == xw.PANIC:
		vd = bad("C18:"+f.Name+"-encoder-panics", "encoder panicked: %s", o.Msg)
	case o.Code == xw.OK && !rep:
		vd = bad("C18:"+f.Name+"-encodes-unrepresentable", "encoder accepted a value that cannot be represented (%s); produced %d bytes %s", why, len(o.Bytes), ident(o.Bytes))
	case o.Code == xw.ERR && rep:
		vd = bad("C18:"+f.Name+"-rejects-representable", "encoder refused a representable value")
	}
	hv.Emit(hv.Case{Fn: f.EncFn, Coq: hv.Tuple(f.Coq(v), hv.Ni(o.Code), xw.CoqBytes(o.Bytes)), Class: f.Name + "/" + class,
		Desc: encNote(class) + "encode " + f.Desc(v) + " #" + ident(o.Bytes), Spec: vd.ok, Sig: vd.sig, What: vd.what, NT: len(o.Bytes) >= 2 || o.Code != xw.OK,
		Replay: map[string]interface{}{"format": f.Name, "op": "encode", "value": f.Desc(v), "coq_value": trunc(f.Coq(v))}})
	if o.Code != xw.OK {
		return nil
	}
	// round trip with trailing bytes that must stay unread
	rest := r.Bytes(r.Intn(4))
	in := append(append([]byte(nil), o.Bytes...), rest...)
	d := xw.RunDec(f, in)
	vd = good()
	switch {
	case d.Code == xw.PANIC:
		vd = bad("C18:"+f.Name+"-decoder-panics", "decoder panicked on an encoder output: %s", d.Msg)
	case d.Code == xw.ERR:
		if rep {
			vd = bad("C18:"+f.Name+"-roundtrip", "the encoding of a representable value does not decode")
		}
	case !f.Eq(d.V, v):
		vd = bad("C18:"+f.Name+"-roundtrip", "decoding the encoding yields a different value: %s", f.Desc(d.V))
	case d.Rem != len(rest)+f.Trail:
		vd = bad("C18:"+f.Name+"-roundtrip", "decoder consumed %d bytes too many/few after the encoding", len(rest)+f.Trail-d.Rem)
	}
	rtClass, rtNote := f.Name+"/roundtrip", ""
	if strings.HasPrefix(class, "modify-") {
		rtClass, rtNote = f.Name+"/roundtrip-"+class, "["+class+"] "
	}
	hv.Emit(hv.Case{Fn: f.DecFn, Coq: decTuple(f, in, d), Class: rtClass,
		Desc: rtNote + "decode(encode) " + f.Desc(v) + " #" + ident(in), Spec: vd.ok, Sig: vd.sig, What: vd.what, NT: true,
		Replay: map[string]interface{}{"format": f.Name, "op": "decode", "hex": hex.EncodeToString(clip(in))}})
	return o.Bytes
}

// bytesCase: decode arbitrary bytes with the real decoder; laws: no panic; accepted => the value
// re-encodes and decodes again to the same value (what a principal approved is what the target
// parses).
func bytesCase(r *hv.Rand, f *xw.Format, b []byte, class string) {
	d := xw.RunDec(f, b)
	vd := good()
	if d.Code == xw.PANIC {
		vd = bad("C18:"+f.Name+"-decoder-panics", "decoder panicked: %s", d.Msg)
	} else if d.Code == xw.OK && f.Enc != nil {
		e := xw.RunEnc(f, d.V)
		switch {
		case e.Code == xw.PANIC:
			vd = bad("C18:"+f.Name+"-encoder-panics", "encoder panicked on a decoded value: %s", e.Msg)
		case e.Code == xw.ERR:
			vd = bad("C18:"+f.Name+"-not-stable", "a value the decoder accepted cannot be encoded again: %s", f.Desc(d.V))
		default:
			rest := r.Bytes(r.Intn(3))
			d2 := xw.RunDec(f, append(append([]byte(nil), e.Bytes...), rest...))
			if d2.Code != xw.OK || !f.Eq(d2.V, d.V) || d2.Rem != len(rest)+f.Trail {
				vd = bad("C18:"+f.Name+"-not-stable", "decode/encode/decode does not reproduce the value: first %s, then code=%d %s", f.Desc(d.V), d2.Code, f.Desc(d2.V))
			}
		}
	}
	hv.Emit(hv.Case{Fn: f.DecFn, Coq: decTuple(f, b, d), Class: f.Name + "/" + class,
		Desc: "decode " + f.Name + " #" + ident(b), Spec: vd.ok, Sig: vd.sig, What: vd.what, NT: len(b) >= 2,
		Replay: map[string]interface{}{"format": f.Name, "op": "decode", "hex": hex.EncodeToString(clip(b))}})
}

func encNote(class string) string {
	if strings.HasPrefix(class, "modify-") {
		return "[" + class + "] "
	}
	return ""
}

func clip(b []byte) []byte {
	if len(b) > 4096 {
		return b[:4096]
	}
	return b
}
func trunc(s string) string {
	if len(s) > 3000 {
		return s[:3000] + "..."
	}
	return s
}

func runFormat(r *hv.Rand, f *xw.Format, nValues, mutPerValue, nRandom int) {
	if f.Corpus != nil {
		for _, b := range f.Corpus() {
			bytesCase(r, f, b, "corpus")
			if f == xw.Ag {
				bytesCase(r, xw.ConfDen, b, "corpus")
				bytesCase(r, xw.IntentReq, b, "corpus")
				bytesCase(r, xw.IntentComm, b, "corpus")
			}
		}
	}
	var must []xw.Value
	if f.Must != nil {
		must = f.Must()
	}
	for k := 0; k < len(must)+nValues; k++ {
		var v xw.Value
		class := "value"
		if k < len(must) {
			v, class = must[k], "boundary"
		} else {
			v = f.Gen(r)
		}
		enc := valueCase(r, f, v, class)
		if k < len(must) && k%3 != 0 { // mutate a third of the boundary encodings
			continue
		}
		if enc == nil || len(enc) > 3000 {
			continue
		}
		for _, m := range xw.Mutations(r, enc, xw.HotOffsets(f, v, enc), mutPerValue) {
			bytesCase(r, f, m, "mutated")
			if f == xw.Ag {
				bytesCase(r, xw.ConfDen, m, "mutated")
				if r.Chance(25) {
					bytesCase(r, xw.IntentReq, m, "mutated")
				} else if r.Chance(33) {
					bytesCase(r, xw.IntentComm, m, "mutated")
				}
			}
		}
	}
	for k := 0; k < nRandom; k++ {
		n := hv.Pick(r, []int{0, 1, 2, 3, 4, 5, 8, 16, 40, 200})
		b := r.Bytes(n)
		if r.Bool() && n > 0 {
			b[0] = hv.Pick(r, []byte{0, 1, 2, 3, 4, 5})
		}
		bytesCase(r, f, b, "random")
	}
}

// ---------------------------------------------------------------- modify after parse

// modifyAfterParse: certificates, intents and AgMessages obtained by decoding (or encoded once
// before) get one field changed and are then put through the same value laws as every other
// value: the encoding must be that of the current fields (model comparison), decode back to the
// modified value, and unrepresentable fields must be refused.
func modifyAfterParse(r *hv.Rand) {
	reparse := func(f *xw.Format, v xw.Value) xw.Value { // a value of the same fields that came out of the real decoder
		o := xw.RunEnc(f, v)
		if o.Code != xw.OK {
			return nil
		}
		d := xw.RunDec(f, o.Bytes)
		if d.Code != xw.OK {
			return nil
		}
		return d.V
	}
	for _, base := range xw.Cert.Sweep() {
		for _, e := range xw.CertEdits() {
			// (a) parsed, then modified
			if v := reparse(xw.Cert, base); v != nil {
				e.Do(v.(*certs.Certificate))
				valueCase(r, xw.Cert, v, "modify-after-parse/"+e.Name)
			}
			// (b) built, encoded once, then modified
			c := *base.(*certs.Certificate)
			xw.RunEnc(xw.Cert, &c)
			e.Do(&c)
			valueCase(r, xw.Cert, &c, "modify-after-encode/"+e.Name)
			// (c) parsed twice over (decode of a re-encoding), then modified
			if v := reparse(xw.Cert, base); v != nil {
				if w := reparse(xw.Cert, v); w != nil {
					e.Do(w.(*certs.Certificate))
					valueCase(r, xw.Cert, w, "modify-after-reparse/"+e.Name)
				}
			}
		}
	}
	for _, base := range xw.Intent.Sweep() {
		for _, e := range xw.IntentEdits() {
			if v := reparse(xw.Intent, base); v != nil {
				e.Do(v.(*authgrants.Intent))
				valueCase(r, xw.Intent, v, "modify-after-parse/"+e.Name)
			}
			i := *base.(*authgrants.Intent)
			xw.RunEnc(xw.Intent, &i)
			e.Do(&i)
			valueCase(r, xw.Intent, &i, "modify-after-encode/"+e.Name)
		}
	}
	for _, base := range xw.Ag.Sweep() {
		m0 := base.(*authgrants.AgMessage)
		if m0.MsgType != authgrants.IntentRequest && m0.MsgType != authgrants.IntentCommunication {
			continue
		}
		for _, e := range xw.IntentEdits() {
			if v := reparse(xw.Ag, base); v != nil {
				m := v.(*authgrants.AgMessage)
				e.Do(&m.Data.Intent)
				valueCase(r, xw.Ag, m, "modify-after-parse/"+e.Name)
			}
		}
	}
}

// ---------------------------------------------------------------- frames

func coqFlags(v tubes.VerifWireFrame) string {
	return hv.App("Fl", hv.B(v.REQ), hv.B(v.RESP), hv.B(v.REL), hv.B(v.ACK), hv.B(v.FIN), hv.B(v.RTR))
}
func coqFrame(v tubes.VerifWireFrame) string {
	return hv.App("Fr", hv.N(uint64(v.AckNo)), hv.N(uint64(v.FrameNo)), hv.N(uint64(v.DataLength)), coqFlags(v), hv.N(uint64(v.TubeID)), xw.CoqBytes(v.Data))
}
func coqIFrame(v tubes.VerifWireInitFrame) string {
	fl := hv.App("Fl", hv.B(v.REQ), hv.B(v.RESP), hv.B(v.REL), hv.B(v.ACK), hv.B(v.FIN), hv.B(v.RTR))
	return hv.App("Ifr", hv.N(uint64(v.FrameNo)), hv.N(uint64(v.TubeID)), hv.N(uint64(v.TubeType)), xw.CoqBytes(v.Data), hv.N(uint64(v.DataLength)), fl)
}
func eqFrame(a, b tubes.VerifWireFrame) bool {
	return a.AckNo == b.AckNo && a.FrameNo == b.FrameNo && a.DataLength == b.DataLength && a.TubeID == b.TubeID &&
		a.REQ == b.REQ && a.RESP == b.RESP && a.REL == b.REL && a.ACK == b.ACK && a.FIN == b.FIN && a.RTR == b.RTR && bytes.Equal(a.Data, b.Data)
}

var u32s = []uint32{0, 1, 2, 255, 256, 65535, 65536, 1<<31 - 1, 1 << 31, 1<<32 - 2, 1<<32 - 1}

func genFrame(r *hv.Rand) tubes.VerifWireFrame {
	n := hv.Pick(r, []int{0, 0, 1, 2, 11, 12, 13, 100, 1000})
	f := tubes.VerifWireFrame{AckNo: hv.Pick(r, u32s), FrameNo: hv.Pick(r, u32s), TubeID: byte(r.Intn(256)), Data: xw.PatternD(n, byte(r.U64()), byte(r.Intn(4)))}
	m := r.Intn(64)
	f.REQ, f.RESP, f.REL, f.ACK, f.FIN, f.RTR = m&1 != 0, m&2 != 0, m&4 != 0, m&8 != 0, m&16 != 0, m&32 != 0
	f.DataLength = uint16(n)
	if r.Chance(15) { // the encoder does not compare dataLength with len(data)
		f.DataLength = hv.Pick(r, []uint16{0, 1, uint16(n) + 1, 65523, 65524, 65535})
	}
	return f
}

func exact(b []byte) []byte { // capacity = length, so Go's cap-based slice checks equal the model's len-based ones
	c := make([]byte, len(b))
	copy(c, b)
	return c[:len(b):len(b)]
}

func fromBytesCase(b []byte, class string) {
	var got tubes.VerifWireFrame
	var err error
	p, msg := hv.Catch(func() { got, err = tubes.VerifWireFromBytes(exact(b)) })
	code := xw.OK
	vd := good()
	if p {
		code = xw.PANIC
		vd = bad("C18:frame-decoder-panics", "fromBytes panicked on a %d-byte buffer: %s", len(b), msg)
	} else if err != nil {
		code = xw.ERR
		got = tubes.VerifWireFrame{}
	} else {
		// stability: re-encoding what was parsed parses to the same frame
		again, err2 := tubes.VerifWireFromBytes(tubes.VerifWireFrameToBytes(got))
		if err2 != nil || !eqFrame(again, got) {
			vd = bad("C18:frame-not-stable", "fromBytes(toBytes(f)) differs from f for a parsed frame")
		}
		if int(got.DataLength) != len(got.Data) {
			vd = bad("C18:frame-length-mismatch", "parsed frame has dataLength %d but %d bytes of data", got.DataLength, len(got.Data))
		}
	}
	hv.Emit(hv.Case{Fn: "c18_frame_from_bytes", Coq: hv.Tuple(xw.CoqBytes(b), hv.Ni(code), coqFrame(got)), Class: "frame/" + class,
		Desc: "fromBytes #" + ident(b), Spec: vd.ok, Sig: vd.sig, What: vd.what, NT: len(b) >= 4,
		Replay: map[string]interface{}{"format": "frame", "op": "fromBytes", "len": len(b), "hex": hex.EncodeToString(clip(b))}})
	// the muxer's re-framing of the same buffer (peer-reachable)
	var ig tubes.VerifWireInitFrame
	p, msg = hv.Catch(func() { ig, err = tubes.VerifWireReframe(exact(b)) })
	code = xw.OK
	vd = good()
	if p {
		code = xw.PANIC
		vd = bad("C18:reframe-panics", "fromInitiateBytes(frame.toBytes()) panicked: %s", msg)
	} else if err != nil {
		code = xw.ERR
		ig = tubes.VerifWireInitFrame{}
	}
	hv.Emit(hv.Case{Fn: "c18_reframe", Coq: hv.Tuple(xw.CoqBytes(b), hv.Ni(code), coqIFrame(ig)), Class: "frame/reframe-" + class,
		Desc: "reframe #" + ident(b), Spec: vd.ok, Sig: vd.sig, What: vd.what, NT: len(b) >= 4,
		Replay: map[string]interface{}{"format": "frame", "op": "reframe", "len": len(b), "hex": hex.EncodeToString(clip(b))}})
}

func frames(r *hv.Rand) {
	n := hv.Scale(70, 2000)
	for k := 0; k < n; k++ {
		f := genFrame(r)
		b := tubes.VerifWireFrameToBytes(f)
		vd := good()
		if int(f.DataLength) == len(f.Data) {
			junk := r.Bytes(r.Intn(20))
			back, err := tubes.VerifWireFromBytes(append(append([]byte(nil), b...), junk...))
			if err != nil || !eqFrame(back, f) {
				vd = bad("C18:frame-roundtrip", "fromBytes(toBytes(f) ++ junk) differs from f")
			}
		}
		hv.Emit(hv.Case{Fn: "c18_frame_to_bytes", Coq: hv.Tuple(coqFrame(f), xw.CoqBytes(b)), Class: "frame/value",
			Desc: fmt.Sprintf("frame.toBytes ack=%d no=%d dl=%d data=%dB #%s", f.AckNo, f.FrameNo, f.DataLength, len(f.Data), ident(b)),
			Spec: vd.ok, Sig: vd.sig, What: vd.what, NT: true})
		fromBytesCase(b, "valid")
		if k < n/7 {
			// every header byte and the length field pushed to its limits
			for _, dl := range []int{0, 1, len(f.Data) - 1, len(f.Data), len(f.Data) + 1, len(f.Data) + 2, 255, 256, 65523, 65524, 65525, 65535} {
				if dl < 0 {
					continue
				}
				m := append([]byte(nil), b...)
				m[2], m[3] = byte(dl>>8), byte(dl)
				fromBytesCase(m, "length-field")
			}
		}
	}
	for l := 0; l <= 14; l++ { // buffers shorter than / around the header
		b := r.Bytes(l)
		if l >= 4 {
			b[2], b[3] = 0, byte(r.Intn(3))
		}
		fromBytesCase(b, "short")
	}
	// the muxer's full-size receive buffer with every critical length
	for _, dl := range []int{0, 1, 32768, 65522, 65523, 65524, 65525, 65534, 65535} {
		b := make([]byte, 65535)
		copy(b, r.Bytes(64))
		b[2], b[3] = byte(dl>>8), byte(dl)
		fromBytesCase(b, "full-buffer")
	}
	// initiate frames
	for k := 0; k < hv.Scale(40, 600); k++ {
		n := hv.Pick(r, []int{0, 0, 0, 1, 5, 100})
		f := tubes.VerifWireInitFrame{FrameNo: hv.Pick(r, u32s), TubeID: byte(r.Intn(256)), TubeType: byte(r.Intn(256)), Data: xw.PatternD(n, byte(r.U64()), byte(r.Intn(4))), DataLength: uint16(n)}
		m := r.Intn(64)
		f.REQ, f.RESP, f.REL, f.ACK, f.FIN, f.RTR = m&1 != 0, m&2 != 0, m&4 != 0, m&8 != 0, m&16 != 0, m&32 != 0
		b := tubes.VerifWireInitToBytes(f)
		var back tubes.VerifWireInitFrame
		p, msg := hv.Catch(func() { back = tubes.VerifWireFromInitiateBytes(exact(b)) })
		vd := good()
		if p {
			vd = bad("C18:iframe-roundtrip", "fromInitiateBytes panicked on toBytes output: %s", msg)
		} else if back.FrameNo != f.FrameNo || back.TubeID != f.TubeID || back.TubeType != f.TubeType || back.DataLength != f.DataLength ||
			!bytes.Equal(back.Data, f.Data) || back.REQ != f.REQ || back.RESP != f.RESP || back.REL != f.REL || back.ACK != f.ACK || back.FIN != f.FIN || back.RTR != f.RTR {
			vd = bad("C18:iframe-roundtrip", "fromInitiateBytes(toBytes(f)) differs from f")
		}
		hv.Emit(hv.Case{Fn: "c18_iframe_to_bytes", Coq: hv.Tuple(coqIFrame(f), xw.CoqBytes(b)), Class: "iframe/value",
			Desc: "initiateFrame.toBytes #" + ident(b), Spec: vd.ok, Sig: vd.sig, What: vd.what, NT: true})
		// direct fromInitiateBytes on arbitrary buffers: internal function without checks, only compared with the model
		for _, mb := range [][]byte{b, b[:r.Intn(len(b)+1)], setLen(b, hv.Pick(r, []int{0, 1, n + 1, 65525, 65526, 65535}))} {
			var g tubes.VerifWireInitFrame
			p, _ := hv.Catch(func() { g = tubes.VerifWireFromInitiateBytes(exact(mb)) })
			code := xw.OK
			if p {
				code = xw.PANIC
				g = tubes.VerifWireInitFrame{}
			}
			hv.Emit(hv.Case{Fn: "c18_iframe_from_bytes", Coq: hv.Tuple(xw.CoqBytes(mb), hv.Ni(code), coqIFrame(g)), Class: "iframe/bytes",
				Desc: "fromInitiateBytes #" + ident(mb), Spec: true, NT: len(mb) >= 4})
		}
	}
	// Unreliable.WriteMsgUDP framing
	for _, n := range []int{0, 1, 2, 1000, 32767, 32768, 32769, 40000, 65535, 65536, 65537, 65541, 65536 + 32768, 65536 + 32769, 131072 + 7} {
		msg := xw.Pattern(n, byte(r.Intn(256)))
		id, no := byte(r.Intn(256)), hv.Pick(r, u32s)
		var q []byte
		var wn int
		var err error
		p, pm := hv.Catch(func() { q, wn, err = tubes.VerifWireUnreliableWrite(id, no, msg) })
		code := xw.OK
		vd := good()
		switch {
		case p:
			code = xw.PANIC
			vd = bad("C18:unreliable-write-panics", "WriteMsgUDP panicked: %s", pm)
		case err != nil:
			code = xw.ERR
			q = nil
			if n <= 32768 {
				vd = bad("C18:unreliable-rejects-representable", "WriteMsgUDP refused a %d-byte message", n)
			}
		default:
			back, e2 := tubes.VerifWireFromBytes(q)
			if n > 32768 {
				vd = bad("C18:unreliable-encodes-unrepresentable", "WriteMsgUDP accepted a %d-byte message (limit 32768); framed with dataLength %d", n, int(q[2])<<8|int(q[3]))
			} else if e2 != nil || !bytes.Equal(back.Data, msg) || int(back.DataLength) != n || wn != n || len(q) != 12+n {
				vd = bad("C18:unreliable-roundtrip", "the queued frame does not carry the message")
			}
		}
		hv.Emit(hv.Case{Fn: "c18_unrel_write", Coq: hv.Tuple(hv.N(uint64(id)), hv.N(uint64(no)), xw.CoqBytes(msg), hv.Ni(code), xw.CoqBytes(q)), Class: "unreliable/write",
			Desc: fmt.Sprintf("Unreliable.WriteMsgUDP %d bytes #%s", n, ident(msg)), Spec: vd.ok, Sig: vd.sig, What: vd.what, NT: true,
			Replay: map[string]interface{}{"op": "Unreliable.WriteMsgUDP", "len": n}})
	}
}

func setLen(b []byte, dl int) []byte {
	m := append([]byte(nil), b...)
	if len(m) >= 4 {
		m[2], m[3] = byte(dl>>8), byte(dl)
	}
	return m
}

// Reliable.WriteMsgUDP / ReadMsgUDP length prefix
var relMsg = &xw.Format{
	Name: "relmsg", EncFn: "c18_enc_relmsg", DecFn: "c18_dec_relmsg",
	Enc: func(v xw.Value) ([]byte, bool) {
		s, _, err := tubes.VerifWireReliableWriteMsgUDP(v.([]byte))
		return s, err == nil
	},
	Dec: func(b []byte) (xw.Value, int, bool) {
		m, left, err := tubes.VerifWireReliableReadMsgUDP(b)
		return append([]byte(nil), m...), left, err == nil
	},
	Coq:  func(v xw.Value) string { return xw.CoqBytes(v.([]byte)) },
	Zero: func() xw.Value { return []byte{} },
	Eq:   func(a, b xw.Value) bool { return bytes.Equal(a.([]byte), b.([]byte)) },
	Repr: func(v xw.Value) (bool, string) { return len(v.([]byte)) <= 65535, "16-bit length prefix" },
	Desc: func(v xw.Value) string { return fmt.Sprintf("relmsg %dB", len(v.([]byte))) },
}

func main() {
	defer hv.Flush()
	logrus.SetOutput(io.Discard)
	r := hv.NewRand(hv.Seed())
	// budget: the quick tier stays below ~4000 model-compared cases
	type plan struct {
		f            *xw.Format
		nv, mut, rnd int
	}
	plans := []plan{
		{xw.WString, hv.Scale(12, 400), 7, hv.Scale(10, 200)},
		{xw.Name, hv.Scale(14, 400), 7, hv.Scale(10, 200)},
		{xw.Chunk, hv.Scale(20, 400), 7, hv.Scale(10, 200)},
		{xw.Cert, hv.Scale(10, 300), 8, hv.Scale(6, 100)},
		{xw.Intent, hv.Scale(20, 500), 10, hv.Scale(6, 100)},
		{xw.Ag, hv.Scale(20, 500), 5, hv.Scale(10, 200)},
		{xw.Proxy, hv.Scale(8, 200), 5, hv.Scale(6, 100)},
		{xw.Exec, hv.Scale(14, 300), 8, hv.Scale(10, 200)},
		{xw.UserAuth, hv.Scale(14, 300), 6, hv.Scale(10, 200)},
		{xw.Pf, hv.Scale(16, 400), 7, hv.Scale(10, 200)},
		// extension round (coq/Model/WireMore.v)
		{xw.StatusMsg, hv.Scale(10, 300), 6, hv.Scale(8, 100)},
		{xw.WinSizeMsg, hv.Scale(6, 100), 4, hv.Scale(5, 60)},
		{xw.ProxyID, hv.Scale(3, 40), 2, hv.Scale(3, 20)},
		{xw.WinLoop, 0, 0, hv.Scale(6, 60)},
		{xw.UAReply, 0, 0, hv.Scale(6, 60)},
	}
	for _, p := range plans {
		runFormat(r, p.f, p.nv, p.mut, p.rnd)
	}
	modifyAfterParse(r)
	frames(r)
	for _, n := range []int{0, 1, 2, 255, 256, 1000, 65534, 65535, 65536, 65537, 65541, 70000} {
		enc := valueCase(r, relMsg, xw.Pattern(n, byte(r.Intn(256))), "value")
		if enc != nil && len(enc) < 2000 {
			for _, m := range xw.Mutations(r, enc, nil, 8) {
				bytesCase(r, relMsg, m, "mutated")
			}
		}
	}
	// WriteIntentDenied cuts its diagnostic to 255 bytes, then must round-trip
	for _, n := range []int{0, 1, 40, 254, 255, 256, 257, 300, 1000} {
		reason := string(bytes.Repeat([]byte{'r'}, n))
		var w bytes.Buffer
		var err error
		p, pm := hv.Catch(func() { err = authgrants.WriteIntentDenied(&w, reason) })
		code := xw.OK
		vd := good()
		if p {
			code = xw.PANIC
			vd = bad("C18:denied-panics", "WriteIntentDenied panicked: %s", pm)
		} else if err != nil {
			code = xw.ERR
			vd = bad("C18:denied-not-delivered", "WriteIntentDenied failed for a %d-byte reason: a denial must be delivered", n)
		} else {
			m, e2 := authgrants.ReadConfOrDenial(bytes.NewReader(w.Bytes()))
			want := reason
			if len(want) > 255 {
				want = want[:255]
			}
			if e2 != nil || m.MsgType != authgrants.IntentDenied || m.Data.Denial != want {
				vd = bad("C18:denied-roundtrip", "the denial written for a %d-byte reason reads back as %d bytes (err=%v)", n, len(m.Data.Denial), e2)
			}
		}
		hv.Emit(hv.Case{Fn: "c18_write_denied", Coq: hv.Tuple(xw.CoqStr(reason), hv.Ni(code), xw.CoqBytes(w.Bytes())), Class: "agmsg/denied",
			Desc: fmt.Sprintf("WriteIntentDenied reason=%dB", n), Spec: vd.ok, Sig: vd.sig, What: vd.what, NT: true})
	}
	// Unreliable.ReadMsgUDP: one datagram, caller buffers around its length and around the proxy's 32768
	for _, n := range []int{0, 1, 100, 32768, 32769, 65523} {
		msg := xw.Pattern(n, byte(n))
		for _, c := range []int{0, n - 1, n, n + 1, 32768} {
			if c < 0 {
				continue
			}
			out, ok, p, pm := xw.UnrelReadCase(msg, c)
			vd := good()
			if p {
				vd = bad("C11:unreliable-read-panics", "Unreliable.ReadMsgUDP panicked on a %d-byte datagram with a %d-byte buffer: %s", n, c, pm)
			} else if len(out) > c || !bytes.HasPrefix(msg, out) || (ok != (n <= c)) {
				vd = bad("C18:unreliable-read", "a %d-byte datagram read into a %d-byte buffer gives %d bytes, ok=%v", n, c, len(out), ok)
			}
			hv.Emit(hv.Case{Fn: "c18_unrel_read", Coq: hv.Tuple(hv.Ni(c), xw.CoqBytes(msg), xw.CoqBytes(out), hv.B(ok)), Class: "unreliable/read",
				Desc: fmt.Sprintf("Unreliable.ReadMsgUDP datagram=%dB buffer=%dB", n, c), Spec: vd.ok, Sig: vd.sig, What: vd.what, NT: n > 0})
		}
	}
	// key text forms and base64 (model: coq/Model/WireText.v)
	keyText(r)
	hv.Info(map[string]interface{}{"driver": "c18", "formats": len(plans) + 4})
}
