// lrace: logins through authorization grants racing with each other and with grant additions.
//
// Every connection runs hopSession.checkAuthorization on its own goroutine and a principal's
// session stores grants (HopServer.AddAuthGrant) on another. This class stores some grants,
// then releases N goroutines together, each calling the real HopServer.AuthorizeKeyAuthGrant
// (what checkAuthorization calls when the key is not in authorized_keys) or the real
// HopServer.AddAuthGrant on ONE server, mostly for the same user:key.
//
// Specification oracle (from the property text): a login is admitted only with grants that were
// stored for exactly its user and key; no grant is handed to two logins; a grant that was handed
// out is no longer stored; no goroutine panics. The Coq side (c05_lrace_ok) explores every
// interleaving of Model/LoginRace.v and accepts iff one ends in exactly the observed results,
// grant map and transport key set.
package main

import (
	"fmt"
	"runtime"
	"strings"
	"sync"

	"hop.computer/hop/keys"

	"verifharness/hv"
	ax "verifharness/hvxauthz"
)

type lprog struct {
	Login bool
	User  string
	Key   int
	G     ax.GView // additions: the grant (Cmd "g<i>" identifies it)
}

type lout struct {
	ok       bool
	grants   []ax.GView
	panicked bool
	msg      string
}

func lrace(seed uint64, pool [][32]byte, stress bool) hv.Case {
	r := hv.NewRand(seed)
	w := ax.NewWorld(pool)
	defer w.Close()
	w.Cfg.EnableAuthgrants = true
	us := []string{"alice", "bob"}
	hotU, hotK := hv.Pick(r, us), r.Intn(2)
	pick := func() (string, int) {
		if r.Chance(80) {
			return hotU, hotK
		}
		return hv.Pick(r, us), r.Intn(2)
	}
	var progs []lprog
	add := func() {
		u, k := pick()
		i := len(progs)
		progs = append(progs, lprog{User: u, Key: k, G: ax.GView{Type: byte(hv.Pick(r, []int{1, 2, 2})), Start: int64(i), Exp: 100 + int64(i), Cmd: fmt.Sprintf("g%d", i), Prin: 4294967295}})
	}
	pre := hv.Pick(r, []int{0, 1, 1, 2, 2})
	for i := 0; i < pre; i++ {
		add()
	}
	n := 2 + r.Intn(3)
	if stress { // judged by the specification oracle only: too many interleavings for the model search
		pre, n = 2, 12+r.Intn(8)
		progs = nil
		add()
		add()
	}
	for i := 0; i < n; i++ {
		if r.Chance(65) || (stress && r.Chance(60)) {
			u, k := pick()
			progs = append(progs, lprog{Login: true, User: u, Key: k})
		} else {
			add()
		}
	}
	outs := make([]lout, len(progs))
	runOne := func(i int) {
		defer func() {
			if e := recover(); e != nil {
				outs[i].panicked, outs[i].msg = true, fmt.Sprint(e)
			}
		}()
		p := progs[i]
		if p.Login {
			ags, err := w.Srv.AuthorizeKeyAuthGrant(p.User, keys.DHPublicKey(pool[p.Key]))
			outs[i].ok = err == nil
			for _, a := range ags {
				outs[i].grants = append(outs[i].grants, ax.GViewOf(a))
			}
			return
		}
		it := &ax.Intent{Type: p.G.Type, Start: p.G.Start, Exp: p.G.Exp, User: p.User, Key: p.Key, Cmd: p.G.Cmd}
		outs[i].ok = w.Srv.AddAuthGrant(w.GoIntent(it)) == nil
	}
	for i := 0; i < pre; i++ {
		runOne(i)
	}
	procs := hv.Pick(r, []int{1, 2, 4, 8})
	if stress {
		procs = hv.Pick(r, []int{4, 8, 16})
	}
	old := runtime.GOMAXPROCS(procs)
	start := make(chan struct{})
	var wg sync.WaitGroup
	for i := pre; i < len(progs); i++ {
		wg.Add(1)
		go func(i int) {
			defer wg.Done()
			<-start
			if i%2 == 1 {
				runtime.Gosched()
			}
			runOne(i)
		}(i)
	}
	close(start)
	wg.Wait()
	runtime.GOMAXPROCS(old)

	// ---- specification oracle
	verd := ax.Verdict{OK: true}
	fail := func(sig, what string) {
		if verd.OK {
			verd = ax.Verdict{Sig: sig, What: what}
		}
	}
	owner := map[string]int{} // grant name -> login that got it
	idx := func(g ax.GView) int {
		var i int
		if _, err := fmt.Sscanf(g.Cmd, "g%d", &i); err != nil || i < 0 || i >= len(progs) || progs[i].Login {
			return -1
		}
		return i
	}
	for i, o := range outs {
		if o.panicked {
			fail("C05:panic-during-authorization", fmt.Sprintf("goroutine %d panicked: %s", i, o.msg))
		}
		if !progs[i].Login {
			continue
		}
		if o.ok && len(o.grants) == 0 {
			fail("C05:login-admitted-without-any-grant", fmt.Sprintf("login %d (%s:K%d) was admitted with an empty grant list", i, progs[i].User, progs[i].Key))
		}
		for _, g := range o.grants {
			j := idx(g)
			if j < 0 || progs[j].User != progs[i].User || progs[j].Key != progs[i].Key || progs[j].G != g {
				fail("C05:login-admitted-with-grant-of-other-user-or-key", fmt.Sprintf("login %d (%s:K%d) received %s, which was not stored for that user and key", i, progs[i].User, progs[i].Key, g))
				continue
			}
			if i0, dup := owner[g.Cmd]; dup {
				fail("C05:grant-handed-to-two-logins", fmt.Sprintf("logins %d and %d were both admitted with grant %s", i0, i, g))
			}
			owner[g.Cmd] = i
		}
	}
	var probes []string
	seen := map[string]bool{}
	for _, p := range progs {
		id := fmt.Sprintf("%s/%d", p.User, p.Key)
		if seen[id] {
			continue
		}
		seen[id] = true
		k := keys.DHPublicKey(pool[p.Key])
		gs, _ := w.Srv.VerifAgMap().VerifGrants(p.User, k)
		var vs []ax.GView
		for _, a := range gs {
			g := ax.GViewOf(a)
			vs = append(vs, g)
			if i0, used := owner[g.Cmd]; used {
				fail("C05:grant-consumed-but-still-stored", fmt.Sprintf("grant %s was handed to login %d and is still in the map", g, i0))
			}
		}
		probes = append(probes, hv.Tuple(hv.Str(p.User), hv.Ni(p.Key+1), gvList(vs), hv.B(w.KS.VerifHas(k))))
	}

	// ---- the case for Coq
	var ps, res, desc []string
	nt := false
	logins := map[string]int{}
	hasAdd := map[string]bool{}
	for _, p := range progs {
		if !p.Login {
			hasAdd[fmt.Sprintf("%s/%d", p.User, p.Key)] = true
		}
	}
	for i, p := range progs {
		tag := ""
		if i < pre {
			tag = "(stored first) "
		}
		if p.Login {
			ps = append(ps, hv.App("LL", hv.Str(p.User), hv.Ni(p.Key+1)))
			if outs[i].ok {
				res = append(res, hv.Some(gvList(outs[i].grants)))
			} else {
				res = append(res, "None")
			}
			desc = append(desc, fmt.Sprintf("%slogin(%s:K%d)->%v%v", tag, p.User, p.Key, outs[i].ok, outs[i].grants))
			id := fmt.Sprintf("%s/%d", p.User, p.Key)
			logins[id]++
			nt = nt || (logins[id] >= 2 && hasAdd[id]) // two logins compete for stored grants
		} else {
			ps = append(ps, hv.App("LA", hv.Str(p.User), hv.Ni(p.Key+1), gvTerm(p.G)))
			res = append(res, "None")
			desc = append(desc, fmt.Sprintf("%sadd(%s:K%d %s)", tag, p.User, p.Key, p.G))
		}
	}
	d := strings.Join(desc, " || ") + fmt.Sprintf(" ; GOMAXPROCS=%d", procs)
	c := hv.Case{Fn: "c05_lrace_ok",
		Coq:   "(" + hv.Tuple(hv.Ni(pre)+"%nat", hv.List(ps), hv.List(res), hv.List(probes)) + " : lrace_case)",
		Class: "login-race", Desc: d, Spec: verd.OK, Sig: verd.Sig, What: verd.What, NT: nt,
		Key:    fmt.Sprintf("%d %s", seed, d),
		Replay: map[string]interface{}{"goroutines": desc}}
	if stress {
		c.Fn, c.Coq, c.Class = "", "", "login-race-stress"
	}
	return c
}

func gvTerm(g ax.GView) string {
	return hv.Tuple(hv.Ni(int(g.Type)), hv.Z(g.Start), hv.Z(g.Exp), hv.Str(g.Cmd), hv.N(uint64(g.Prin)))
}
func gvList(gs []ax.GView) string {
	xs := make([]string, len(gs))
	for i, g := range gs {
		xs[i] = gvTerm(g)
	}
	return hv.List(xs)
}

func lraceCases(r *hv.Rand, pool [][32]byte) []func() {
	var cases []func()
	for i, n := 0, hv.Scale(200, 3000); i < n; i++ {
		seed := r.U64()
		cases = append(cases, func() { hv.Emit(lrace(seed, pool, false)) })
	}
	// many goroutines, repeated: first failing repetition (or the last one) is reported
	for i, n := 0, hv.Scale(16, 200); i < n; i++ {
		seed := r.U64()
		cases = append(cases, func() {
			rr := hv.NewRand(seed)
			var c hv.Case
			for k, reps := 0, hv.Scale(40, 400); k < reps; k++ {
				if c = lrace(rr.U64(), pool, true); !c.Spec {
					break
				}
			}
			hv.Emit(c)
		})
	}
	return cases
}
