#!/bin/bash
# usage: verify_seeded.sh <ID under /verif/seeded> "<go test package patterns>"  [keep]
# makes a scratch worktree of /repo HEAD at /tmp/vs-<ID>, copies the seed into it, and confirms the four facts.
id=$1; pk=$2
wt=/tmp/vs-$id
git -C /repo worktree remove --force $wt 2>/dev/null
git -C /repo worktree add -q --detach $wt HEAD || exit 2
mkdir -p $wt/SEED && cp -r /verif/seeded/$id/* $wt/SEED/
/verif/tools/verify_seed.sh $wt "$pk" 2>&1 | grep -v "^[-+ @]" | grep -vE "^time=|level=" | tail -${LINES_OUT:-14}
[ "$3" = keep ] || git -C /repo worktree remove --force $wt
